(* Laws of the percent-encoding codec: Model/Percent.v (parser) and Model/Canon.v (canonicalizer). *)
From Verif Require Import Lib.Base Lib.Utf8 Lib.GoStr Model.Cfg Gen.Tables Gen.Options Model.Sets
  Model.Percent Model.Canon.
From Verif Require Import Proofs.Utf8Proofs.
From Coq Require Import Lia ZifyBool ZifyN ZifyNat.
Ltac Zify.zify_post_hook ::= Z.div_mod_to_equations.

(* ================================================================== *)
(* Characterisation of the generated table behind isHexDigit          *)
(* ================================================================== *)

Lemma in_below n c : c < N.of_nat n -> In c (map N.of_nat (seq 0 n)).
Proof.
  intros H. replace c with (N.of_nat (N.to_nat c)) by lia.
  apply in_map. apply in_seq. lia.
Qed.

Lemma isHexDigit_sweep :
  forallb (fun c => Bool.eqb (isHexDigit c) (is_hex c)) (map N.of_nat (seq 0 128)) = true.
Proof. vm_compute. reflexivity. Qed.

Lemma hexTable_small : forallb (fun x => x <? 128) bs_ASCIIHexDigit = true.
Proof. vm_compute. reflexivity. Qed.

Lemma isHexDigit_spec c : isHexDigit c = is_hex c.
Proof.
  destruct (N.lt_ge_cases c 128) as [H|H].
  - pose proof isHexDigit_sweep as S. rewrite forallb_forall in S.
    specialize (S c (in_below 128 c H)). apply eqb_prop in S. exact S.
  - replace (is_hex c) with false by (unfold is_hex, is_digit; lia).
    unfold isHexDigit, bs_test, mem.
    destruct (existsb (N.eqb c) bs_ASCIIHexDigit) eqn:E; [|reflexivity].
    apply existsb_exists in E. destruct E as [x [Hx Hcx]].
    pose proof hexTable_small as S. rewrite forallb_forall in S. specialize (S x Hx). lia.
Qed.

(* upper-case hex digits 0-9 A-F *)
Definition is_uhex (c : N) : bool := is_digit c || ((65 <=? c) && (c <=? 70)).

Lemma is_uhex_hex h : is_uhex h = true -> is_hex h = true.
Proof. unfold is_uhex, is_hex, is_digit. lia. Qed.

(* ================================================================== *)
(* B2: the shape of one escape                                        *)
(* ================================================================== *)

Lemma hex_upper_uhex n : n < 16 -> is_uhex (hex_upper n) = true.
Proof. intros H. unfold hex_upper, is_uhex, is_digit. destruct (n <? 10) eqn:E; lia. Qed.

Lemma hex_val_upper n : n < 16 -> hex_val (hex_upper n) = n.
Proof.
  intros H. unfold hex_upper, hex_val, is_digit.
  destruct (n <? 10) eqn:E; decide_ifs; lia.
Qed.

Theorem pct_byte_shape b : b < 256 ->
  exists h l, pct_byte b = [37; h; l] /\ is_uhex h = true /\ is_uhex l = true /\
              hex_val h * 16 + hex_val l = b.
Proof.
  intros H. exists (hex_upper (b / 16)), (hex_upper (b mod 16)).
  assert (H1 : b / 16 < 16) by lia. assert (H2 : b mod 16 < 16) by lia.
  split; [reflexivity|]. split; [apply hex_upper_uhex; exact H1|].
  split; [apply hex_upper_uhex; exact H2|].
  rewrite !hex_val_upper by assumption. lia.
Qed.
Print Assumptions pct_byte_shape.

Example pct_byte_shape_ex : pct_byte 233 = [37; 69; 57] /\ pct_byte 10 = [37; 48; 65].
Proof. split; reflexivity. Qed.

(* for a "byte" >= 256 (not a byte) the first digit is not a hex digit: the bound is needed *)
Lemma pct_byte_shape_refuted : exists b h l, pct_byte b = [37; h; l] /\ is_hex h = false.
Proof. exists 300, 73, 67. split; reflexivity. Qed.

(* ================================================================== *)
(* Membership facts                                                   *)
(* ================================================================== *)

Notation member := RuneShouldBeEncoded.

Lemma nonmember_small tr r : member tr r = false -> r <= 126.
Proof. unfold RuneShouldBeEncoded. destruct (bs_test (bits tr) r); lia. Qed.

Lemma member_set37 tr r : member (pes_set tr [37]) r = (r =? 37) || member tr r.
Proof.
  unfold RuneShouldBeEncoded, pes_set, bs_test, mem. cbn [ab bits app existsb].
  destruct (r <? ab tr), (126 <? r), (r =? 37), (existsb (N.eqb r) (bits tr)); reflexivity.
Qed.

(* what the encoder emits for one code point r with set tr *)
Definition enc1 (tr : peset) (r : N) : str :=
  if member tr r then flat_map pct_byte (utf8_enc r) else utf8_enc r.

Lemma enc1_nonmember tr r : member tr r = false -> enc1 tr r = [r].
Proof.
  intros H. unfold enc1. rewrite H. apply utf8_enc_ascii.
  apply nonmember_small in H. lia.
Qed.

Lemma enc1_member tr r : member tr r = true -> enc1 tr r = flat_map pct_byte (utf8_enc r).
Proof. intros H. unfold enc1. now rewrite H. Qed.

Lemma enc1_set37_37 tr : enc1 (pes_set tr [37]) 37 = [37; 50; 53].
Proof. unfold enc1. rewrite member_set37. reflexivity. Qed.

(* a literal % followed by two hex digits *)
Definition starts_hex2 (s : list N) : bool :=
  match s with a :: b :: _ => is_hex a && is_hex b | _ => false end.

(* every % of the list is followed by two hex digits *)
Fixpoint pct_ok (s : list N) : bool :=
  match s with
  | [] => true
  | b :: t => (if b =? 37 then starts_hex2 t else true) && pct_ok t
  end.

Lemma bad_pct_eq (l : list N) :
  match l with a :: b :: _ => negb (isHexDigit a && isHexDigit b) | _ => true end
  = negb (starts_hex2 l).
Proof.
  destruct l as [|a [|b l]]; try reflexivity.
  cbn [starts_hex2]. now rewrite !isHexDigit_spec.
Qed.

Lemma starts_hex2_inv l : starts_hex2 l = true ->
  exists a b l', l = a :: b :: l' /\ is_hex a = true /\ is_hex b = true.
Proof.
  destruct l as [|a [|b l]]; try discriminate. cbn [starts_hex2]. intros H.
  apply andb_true_iff in H. destruct H. eauto 6.
Qed.

Lemma starts_hex2_head x t : is_hex x = false -> starts_hex2 (x :: t) = false.
Proof. intros H. destruct t; [reflexivity|]. cbn [starts_hex2]. now rewrite H. Qed.

Lemma starts_hex2_head2 a x t : is_hex x = false -> starts_hex2 (a :: x :: t) = false.
Proof. intros H. cbn [starts_hex2]. rewrite H. apply andb_false_r. Qed.

Lemma flat_map_single {A} (l : list A) : flat_map (fun x => [x]) l = l.
Proof. induction l; [reflexivity|]. cbn [flat_map app]. now rewrite IHl. Qed.

Lemma Forall_flat_map {A B} (P : B -> Prop) (f : A -> list B) l :
  (forall x, In x l -> Forall P (f x)) -> Forall P (flat_map f l).
Proof.
  induction l as [|a l IH]; intros H; [constructor|].
  cbn [flat_map]. apply Forall_app. split.
  - apply H. now left.
  - apply IH. intros x Hx. apply H. now right.
Qed.

Lemma nonmember_ascii tr s :
  Forall (fun x => member tr x = false) s -> Forall (fun b => b < 128) s.
Proof.
  apply Forall_impl. intros a H. apply nonmember_small in H. lia.
Qed.

Lemma flat_map_enc1_nonmember tr s :
  Forall (fun x => member tr x = false) s -> flat_map (enc1 tr) s = s.
Proof.
  induction 1 as [|b s Hb Hs IH]; [reflexivity|].
  cbn [flat_map]. rewrite enc1_nonmember by exact Hb. now rewrite IH.
Qed.

(* ================================================================== *)
(* The parser's codec, for any configuration without encoding override *)
(* ================================================================== *)
Section Codec.
Variable c : cfg.
Hypothesis Hl1 : c_latin1 c = false.

Notation D := (DecodePercentEncoded c).
Notation enc tr s := (PercentEncodeString c s tr).

Lemma per_some tr r : percentEncodeRune c r (Some tr) = enc1 tr r.
Proof. unfold percentEncodeRune, enc1. rewrite Hl1. reflexivity. Qed.

Lemma pes_loop_cons tr r l :
  pes_loop c tr (r :: l) =
  (if (r =? 37) && negb (starts_hex2 l) && c_singlePct c
   then enc1 (pes_set tr [37]) r else enc1 tr r) ++ pes_loop c tr l.
Proof. cbn [pes_loop]. rewrite bad_pct_eq, !per_some. reflexivity. Qed.

(* ---------- B1 ---------- *)
Lemma encode_shape_runes tr l :
  c_singlePct c = false \/ member tr 37 = true \/ pct_ok l = true ->
  pes_loop c tr l = flat_map (enc1 tr) l.
Proof.
  intros H. induction l as [|r l IH]; [reflexivity|].
  rewrite pes_loop_cons. cbn [flat_map]. rewrite IH.
  2:{ destruct H as [H|[H|H]]; auto. right; right. cbn [pct_ok] in H.
      apply andb_true_iff in H. tauto. }
  f_equal.
  destruct ((r =? 37) && negb (starts_hex2 l) && c_singlePct c) eqn:E; [|reflexivity].
  apply andb_true_iff in E. destruct E as [E E3]. apply andb_true_iff in E.
  destruct E as [E1 E2]. apply N.eqb_eq in E1. subst r.
  destruct H as [H|[H|H]].
  - congruence.
  - unfold enc1. rewrite member_set37, H. reflexivity.
  - cbn [pct_ok] in H. change (37 =? 37) with true in H. cbv iota in H.
    apply andb_true_iff in H. destruct H as [H _]. rewrite H in E2. discriminate.
Qed.

Theorem encode_shape tr s :
  c_singlePct c = false \/ member tr 37 = true \/ pct_ok (runes s) = true ->
  enc tr s = flat_map (fun r => if member tr r then flat_map pct_byte (utf8_enc r) else utf8_enc r)
               (runes s).
Proof. intros H. unfold PercentEncodeString. now apply encode_shape_runes. Qed.

(* with the single-percent option, a set without % and a bad % the shape is different *)
Lemma encode_shape_refuted : exists c' tr s,
  c_latin1 c' = false /\
  PercentEncodeString c' s tr <> flat_map (enc1 tr) (runes s).
Proof.
  exists opt_WithPercentEncodeSinglePercentSign, pes_Path, [37; 122].
  split; [reflexivity|]. vm_compute. discriminate.
Qed.

(* ---------- decoder step lemmas ---------- *)
Lemma D_ne b s : b <> 37 -> D (b :: s) = b :: D s.
Proof. intros H. cbn [DecodePercentEncoded]. replace (b =? 37) with false by lia. reflexivity. Qed.

Lemma D_hex h l s : is_hex h = true -> is_hex l = true ->
  D (37 :: h :: l :: s) = (hex_val h * 16 + hex_val l) :: D s.
Proof.
  intros Hh Hl. cbn [DecodePercentEncoded]. change (37 =? 37) with true. cbv iota.
  rewrite !isHexDigit_spec, Hh, Hl, Hl1. reflexivity.
Qed.

Lemma D_nohex s : starts_hex2 s = false -> D (37 :: s) = 37 :: D s.
Proof.
  intros H. destruct s as [|h [|l s]]; try reflexivity.
  cbn [starts_hex2] in H. cbn [DecodePercentEncoded]. change (37 =? 37) with true. cbv iota.
  rewrite !isHexDigit_spec, H. reflexivity.
Qed.

Lemma D_pct_byte b s : b < 256 -> D (pct_byte b ++ s) = b :: D s.
Proof.
  intros H. destruct (pct_byte_shape b H) as [h [l [E [Hh [Hl Hv]]]]].
  rewrite E. cbn [app]. rewrite D_hex by (apply is_uhex_hex; assumption). now rewrite Hv.
Qed.

Lemma D_escapes bs s : Forall (fun b => b < 256) bs -> D (flat_map pct_byte bs ++ s) = bs ++ D s.
Proof.
  induction 1 as [|b bs Hb Hbs IH]; [reflexivity|].
  cbn [flat_map]. rewrite <- app_assoc, D_pct_byte by exact Hb. rewrite IH. reflexivity.
Qed.

Lemma D_no37 bs s : ~ In 37 bs -> D (bs ++ s) = bs ++ D s.
Proof.
  induction bs as [|b bs IH]; intros H; [reflexivity|].
  cbn [app]. rewrite D_ne by (intros ->; apply H; now left).
  rewrite IH; [reflexivity|]. intros G. apply H. now right.
Qed.

Lemma utf8_enc_no37 r : r <> 37 -> ~ In 37 (utf8_enc r).
Proof.
  intros H G. apply utf8_enc_high_iff in G as G'.
  assert (r < 128) by lia. rewrite utf8_enc_ascii in G by assumption.
  destruct G as [G|[]]. congruence.
Qed.

(* ---------- B3 ---------- *)
Section NoMember.
Variable tr : peset.
Hypothesis H37 : member tr 37 = false.
Hypothesis Huhex : forall h, is_uhex h = true -> member tr h = false.

Lemma escapes_nonmember bs : Forall (fun b => b < 256) bs ->
  Forall (fun x => member tr x = false) (flat_map pct_byte bs).
Proof.
  intros H. apply Forall_flat_map. intros b Hb. rewrite Forall_forall in H.
  destruct (pct_byte_shape b (H b Hb)) as [h [l [E [Hh [Hl _]]]]]. rewrite E.
  repeat constructor; auto.
Qed.

Lemma enc1_out_nonmember r : Forall (fun x => member tr x = false) (enc1 tr r).
Proof.
  destruct (member tr r) eqn:E.
  - rewrite enc1_member by exact E. apply escapes_nonmember. apply utf8_enc_bytes.
  - rewrite enc1_nonmember by exact E. repeat constructor. exact E.
Qed.

Lemma pes_loop_nonmember l : Forall (fun x => member tr x = false) (pes_loop c tr l).
Proof.
  induction l as [|r l IH]; [constructor|].
  rewrite pes_loop_cons. apply Forall_app. split; [|exact IH].
  destruct ((r =? 37) && negb (starts_hex2 l) && c_singlePct c) eqn:E.
  - apply andb_true_iff in E. destruct E as [E _]. apply andb_true_iff in E.
    destruct E as [E _]. apply N.eqb_eq in E. subst r. rewrite enc1_set37_37.
    repeat constructor; auto.
  - apply enc1_out_nonmember.
Qed.

(* B3 holds whatever the single-percent option is *)
Theorem encode_no_member s :
  Forall (fun r => member tr r = false) (runes (enc tr s)).
Proof.
  unfold PercentEncodeString.
  pose proof (pes_loop_nonmember (runes s)) as H.
  rewrite runes_ascii; [exact H|]. apply (nonmember_ascii tr). exact H.
Qed.

(* the encoder's output is pure ASCII *)
Theorem encode_ascii s : Forall (fun b => b < 128) (enc tr s).
Proof. apply (nonmember_ascii tr). apply pes_loop_nonmember. Qed.

(* ---------- B4 ---------- *)
Theorem encode_idempotent s : c_singlePct c = false -> enc tr (enc tr s) = enc tr s.
Proof.
  intros Hsp. unfold PercentEncodeString at 1.
  rewrite encode_shape_runes by (left; exact Hsp).
  pose proof (pes_loop_nonmember (runes s)) as H. fold (enc tr s) in H.
  rewrite runes_ascii by (apply (nonmember_ascii tr); exact H).
  apply flat_map_enc1_nonmember. exact H.
Qed.

End NoMember.

(* with the single-percent option, and for B6: every hex digit (also a-f) outside the set *)
Section AllHex.
Variable tr : peset.
Hypothesis H37 : member tr 37 = false.
Hypothesis Hhex : forall h, is_hex h = true -> member tr h = false.

Lemma Huhex' : forall h, is_uhex h = true -> member tr h = false.
Proof. intros h Hh. apply Hhex. apply is_uhex_hex. exact Hh. Qed.

Lemma hex_not37 h : is_hex h = true -> h <> 37.
Proof. unfold is_hex, is_digit. lia. Qed.

Lemma pes_loop_plain r l : r <> 37 -> member tr r = false ->
  pes_loop c tr (r :: l) = r :: pes_loop c tr l.
Proof.
  intros Hr Hm. rewrite pes_loop_cons. replace (r =? 37) with false by lia.
  cbn [andb]. rewrite enc1_nonmember by exact Hm. reflexivity.
Qed.

Lemma pes_loop_member r l : r <> 37 -> member tr r = true ->
  pes_loop c tr (r :: l) = flat_map pct_byte (utf8_enc r) ++ pes_loop c tr l.
Proof.
  intros Hr Hm. rewrite pes_loop_cons. replace (r =? 37) with false by lia.
  cbn [andb]. rewrite enc1_member by exact Hm. reflexivity.
Qed.

Lemma pes_loop_hex a l : is_hex a = true -> pes_loop c tr (a :: l) = a :: pes_loop c tr l.
Proof. intros H. apply pes_loop_plain; [apply hex_not37|apply Hhex]; exact H. Qed.

Lemma pes_loop_pct_ok a b l : is_hex a = true -> is_hex b = true ->
  pes_loop c tr (37 :: a :: b :: l) = 37 :: a :: b :: pes_loop c tr l.
Proof.
  intros Ha Hb. rewrite pes_loop_cons. cbn [starts_hex2]. rewrite Ha, Hb. cbn [andb negb].
  rewrite andb_false_r. cbn [andb]. rewrite enc1_nonmember by exact H37.
  rewrite !pes_loop_hex by assumption. reflexivity.
Qed.

Lemma pes_loop_pct_bad l : starts_hex2 l = false ->
  pes_loop c tr (37 :: l) = (if c_singlePct c then [37; 50; 53] else [37]) ++ pes_loop c tr l.
Proof.
  intros H. rewrite pes_loop_cons, H. change (37 =? 37) with true. cbn [andb negb].
  destruct (c_singlePct c).
  - now rewrite enc1_set37_37.
  - now rewrite enc1_nonmember by exact H37.
Qed.

Lemma escapes_head r : exists t, flat_map pct_byte (utf8_enc r) = 37 :: t.
Proof.
  pose proof (utf8_enc_nonempty r) as H. destruct (utf8_enc r) as [|b t]; [congruence|].
  cbn [flat_map]. unfold pct_byte. cbn [app]. eauto.
Qed.

(* the first byte emitted for a non-hex code point is not a hex digit *)
Lemma pes_loop_head a l : is_hex a = false ->
  exists x t, pes_loop c tr (a :: l) = x :: t /\ is_hex x = false.
Proof.
  intros Ha. destruct (N.eq_dec a 37) as [->|Hne].
  - exists 37. destruct (starts_hex2 l) eqn:E.
    + apply starts_hex2_inv in E. destruct E as [x [y [l' [-> [Hx Hy]]]]].
      rewrite pes_loop_pct_ok by assumption. eauto.
    + rewrite pes_loop_pct_bad by exact E. destruct (c_singlePct c); cbn [app]; eauto.
  - destruct (member tr a) eqn:Em.
    + rewrite pes_loop_member by assumption. destruct (escapes_head a) as [t ->].
      cbn [app]. exists 37. eauto.
    + rewrite pes_loop_plain by assumption. eauto.
Qed.

Lemma pes_loop_nohex2 l : starts_hex2 l = false -> starts_hex2 (pes_loop c tr l) = false.
Proof.
  intros H. destruct l as [|a l]; [reflexivity|].
  destruct (is_hex a) eqn:Ea.
  - rewrite pes_loop_hex by exact Ea. destruct l as [|b l]; [reflexivity|].
    cbn [starts_hex2] in H. rewrite Ea in H. cbn [andb] in H.
    destruct (pes_loop_head b l H) as [x [t [-> Hx]]].
    apply starts_hex2_head2. exact Hx.
  - destruct (pes_loop_head a l Ea) as [x [t [-> Hx]]]. apply starts_hex2_head. exact Hx.
Qed.

Lemma pct_ok_escapes bs s : Forall (fun b => b < 256) bs ->
  pct_ok (flat_map pct_byte bs ++ s) = pct_ok s.
Proof.
  induction 1 as [|b bs Hb Hbs IH]; [reflexivity|].
  cbn [flat_map]. rewrite <- app_assoc.
  destruct (pct_byte_shape b Hb) as [h [l [E [Hh [Hl _]]]]]. rewrite E.
  apply is_uhex_hex in Hh, Hl. cbn [app pct_ok starts_hex2]. rewrite Hh, Hl.
  change (37 =? 37) with true.
  replace (h =? 37) with false by (apply hex_not37 in Hh; lia).
  replace (l =? 37) with false by (apply hex_not37 in Hl; lia).
  cbn [andb]. exact IH.
Qed.

Lemma pes_loop_pct_ok_out l : c_singlePct c = true -> pct_ok (pes_loop c tr l) = true.
Proof.
  intros Hsp. induction l as [l IH] using list_len_ind.
  destruct l as [|r l]; [reflexivity|].
  destruct (N.eq_dec r 37) as [->|Hne].
  - destruct (starts_hex2 l) eqn:E.
    + apply starts_hex2_inv in E. destruct E as [x [y [l' [-> [Hx Hy]]]]].
      rewrite pes_loop_pct_ok by assumption.
      cbn [pct_ok starts_hex2]. rewrite Hx, Hy. change (37 =? 37) with true.
      replace (x =? 37) with false by (apply hex_not37 in Hx; lia).
      replace (y =? 37) with false by (apply hex_not37 in Hy; lia).
      cbn [andb]. apply IH. cbn [length]. lia.
    + rewrite pes_loop_pct_bad by exact E. rewrite Hsp.
      cbn [app pct_ok starts_hex2]. change (is_hex 50) with true. change (is_hex 53) with true.
      change (37 =? 37) with true. change (50 =? 37) with false. change (53 =? 37) with false.
      cbn [andb]. apply IH. cbn [length]. lia.
  - destruct (member tr r) eqn:Em.
    + rewrite pes_loop_member by assumption. rewrite pct_ok_escapes by apply utf8_enc_bytes.
      apply IH. cbn [length]. lia.
    + rewrite pes_loop_plain by assumption. cbn [pct_ok].
      replace (r =? 37) with false by lia. cbn [andb]. apply IH. cbn [length]. lia.
Qed.

Theorem encode_idempotent_any s : enc tr (enc tr s) = enc tr s.
Proof.
  destruct (c_singlePct c) eqn:Hsp; [|apply (encode_idempotent tr H37 Huhex'); exact Hsp].
  unfold PercentEncodeString at 1.
  pose proof (pes_loop_nonmember tr H37 Huhex' (runes s)) as H. fold (enc tr s) in H.
  rewrite runes_ascii by (apply (nonmember_ascii tr); exact H).
  rewrite encode_shape_runes.
  - apply flat_map_enc1_nonmember. exact H.
  - right; right. apply pes_loop_pct_ok_out. exact Hsp.
Qed.

(* ---------- B6 ---------- *)
Lemma utf8_head a l : is_hex a = false ->
  exists x t, flat_map utf8_enc (a :: l) = x :: t /\ is_hex x = false.
Proof.
  intros Ha. cbn [flat_map]. destruct (N.lt_ge_cases a 128) as [H|H].
  - rewrite utf8_enc_ascii by exact H. cbn [app]. eauto.
  - pose proof (utf8_enc_high a H) as G. pose proof (utf8_enc_nonempty a) as Hn.
    destruct (utf8_enc a) as [|x t]; [congruence|]. inversion G; subst.
    cbn [app]. exists x. eexists. split; [reflexivity|]. unfold is_hex, is_digit. lia.
Qed.

Lemma utf8_hex a l : is_hex a = true -> flat_map utf8_enc (a :: l) = a :: flat_map utf8_enc l.
Proof.
  intros H. cbn [flat_map]. rewrite utf8_enc_ascii; [reflexivity|].
  unfold is_hex, is_digit in H. lia.
Qed.

Lemma utf8_nohex2 l : starts_hex2 l = false -> starts_hex2 (flat_map utf8_enc l) = false.
Proof.
  intros H. destruct l as [|a l]; [reflexivity|].
  destruct (is_hex a) eqn:Ea.
  - rewrite utf8_hex by exact Ea. destruct l as [|b l]; [reflexivity|].
    cbn [starts_hex2] in H. rewrite Ea in H. cbn [andb] in H.
    destruct (utf8_head b l H) as [x [t [-> Hx]]].
    apply starts_hex2_head2. exact Hx.
  - destruct (utf8_head a l Ea) as [x [t [-> Hx]]]. apply starts_hex2_head. exact Hx.
Qed.

Lemma decode_encode_eq_runes l : D (pes_loop c tr l) = D (flat_map utf8_enc l).
Proof.
  induction l as [l IH] using list_len_ind.
  destruct l as [|r l]; [reflexivity|].
  destruct (N.eq_dec r 37) as [->|Hne].
  - destruct (starts_hex2 l) eqn:E.
    + apply starts_hex2_inv in E. destruct E as [x [y [l' [-> [Hx Hy]]]]].
      rewrite pes_loop_pct_ok by assumption.
      change (flat_map utf8_enc (37 :: x :: y :: l'))
        with (37 :: flat_map utf8_enc (x :: y :: l')).
      rewrite utf8_hex by exact Hx. rewrite utf8_hex by exact Hy.
      rewrite !D_hex by assumption. f_equal. apply IH. cbn [length]. lia.
    + rewrite pes_loop_pct_bad by exact E.
      change (flat_map utf8_enc (37 :: l)) with (37 :: flat_map utf8_enc l).
      rewrite (D_nohex (flat_map utf8_enc l)) by (apply utf8_nohex2; exact E).
      destruct (c_singlePct c); cbn [app].
      * rewrite D_hex by reflexivity. change (hex_val 50 * 16 + hex_val 53) with 37.
        f_equal. apply IH. cbn [length]. lia.
      * rewrite D_nohex by (apply pes_loop_nohex2; exact E).
        f_equal. apply IH. cbn [length]. lia.
  - cbn [flat_map]. rewrite (D_no37 (utf8_enc r)) by (apply utf8_enc_no37; exact Hne).
    destruct (member tr r) eqn:Em.
    + rewrite pes_loop_member by assumption. rewrite D_escapes by apply utf8_enc_bytes.
      f_equal. apply IH. cbn [length]. lia.
    + rewrite pes_loop_plain by assumption.
      rewrite utf8_enc_ascii by (apply nonmember_small in Em; lia).
      rewrite D_ne by exact Hne. cbn [app]. f_equal. apply IH. cbn [length]. lia.
Qed.

(* B6, for every setting of the single-percent option *)
Theorem decode_encode_eq s : D (enc tr s) = D (to_valid s).
Proof. unfold PercentEncodeString, to_valid, encode_runes. apply decode_encode_eq_runes. Qed.

End AllHex.

(* ---------- B5 ---------- *)
Lemma D_enc1 tr r s : member tr 37 = true -> D (enc1 tr r ++ s) = utf8_enc r ++ D s.
Proof.
  intros H. destruct (member tr r) eqn:E.
  - rewrite enc1_member by exact E. apply D_escapes. apply utf8_enc_bytes.
  - rewrite enc1_nonmember by exact E. cbn [app].
    rewrite utf8_enc_ascii by (apply nonmember_small in E; lia).
    apply D_ne. intros ->. congruence.
Qed.

(* B5, for every setting of the single-percent option *)
Theorem decode_encode_inverse tr s : member tr 37 = true -> D (enc tr s) = to_valid s.
Proof.
  intros H. unfold PercentEncodeString, to_valid, encode_runes.
  rewrite encode_shape_runes by (right; left; exact H).
  induction (runes s) as [|r l IH]; [reflexivity|].
  cbn [flat_map]. rewrite D_enc1 by exact H. now rewrite IH.
Qed.

(* ---------- the decoder shortens or leaves unchanged ---------- *)
Lemma D_length s : (length (D s) <= length s)%nat /\ (length (D s) = length s -> D s = s).
Proof.
  induction s as [s IH] using list_len_ind.
  destruct s as [|b s]; [split; reflexivity|].
  destruct (N.eq_dec b 37) as [->|Hne].
  - destruct (starts_hex2 s) eqn:E.
    + apply starts_hex2_inv in E. destruct E as [x [y [l' [-> [Hx Hy]]]]].
      rewrite D_hex by assumption. cbn [length].
      destruct (IH l') as [G _]; [cbn [length]; lia|]. split; lia.
    + rewrite D_nohex by exact E. cbn [length].
      destruct (IH s) as [G1 G2]; [cbn [length]; lia|]. split; [lia|].
      intros G. f_equal. apply G2. lia.
  - rewrite D_ne by exact Hne. cbn [length].
    destruct (IH s) as [G1 G2]; [cbn [length]; lia|]. split; [lia|].
    intros G. f_equal. apply G2. lia.
Qed.

Lemma D_bytes s : Forall (fun b => b < 256) s -> Forall (fun b => b < 256) (D s).
Proof.
  induction s as [s IH] using list_len_ind. intros H.
  destruct s as [|b s]; [constructor|].
  inversion H as [|? ? Hb Hs]; subst.
  destruct (N.eq_dec b 37) as [->|Hne].
  - destruct (starts_hex2 s) eqn:E.
    + apply starts_hex2_inv in E. destruct E as [x [y [l' [-> [Hx Hy]]]]].
      rewrite D_hex by assumption. constructor.
      * unfold hex_val, is_hex, is_digit in *. decide_ifs; lia.
      * apply IH; [cbn [length]; lia|]. inversion Hs as [|? ? _ Hs']; subst.
        inversion Hs'; subst. assumption.
    + rewrite D_nohex by exact E. constructor; [lia|]. apply IH; [cbn [length]; lia|exact Hs].
  - rewrite D_ne by exact Hne. constructor; [exact Hb|]. apply IH; [cbn [length]; lia|exact Hs].
Qed.

Lemma c_decode_D s : c_decode s = D s.
Proof.
  induction s as [s IH] using list_len_ind.
  destruct s as [|b s]; [reflexivity|].
  cbn [c_decode DecodePercentEncoded]. rewrite Hl1.
  destruct (b =? 37).
  - destruct s as [|h [|l s]].
    + reflexivity.
    + reflexivity.
    + destruct (isHexDigit h && isHexDigit l).
      * cbn [app]. f_equal. apply IH. cbn [length]. lia.
      * f_equal. apply (IH (h :: l :: s)). cbn [length]. lia.
  - f_equal. apply IH. cbn [length]. lia.
Qed.

End Codec.

Print Assumptions encode_shape.
Print Assumptions encode_no_member.
Print Assumptions encode_ascii.
Print Assumptions encode_idempotent.
Print Assumptions encode_idempotent_any.
Print Assumptions decode_encode_inverse.
Print Assumptions decode_encode_eq.

(* ================================================================== *)
(* Decidable forms of the hypotheses, and concrete instances          *)
(* ================================================================== *)
Definition uhex_list : list N := [48;49;50;51;52;53;54;55;56;57;65;66;67;68;69;70].
Definition uhex_free (tr : peset) : bool := forallb (fun h => negb (member tr h)) uhex_list.
Definition hex_free (tr : peset) : bool := forallb (fun h => negb (member tr h)) bs_ASCIIHexDigit.

Lemma uhex_free_spec tr : uhex_free tr = true -> forall h, is_uhex h = true -> member tr h = false.
Proof.
  intros H h Hh. unfold uhex_free in H. rewrite forallb_forall in H.
  apply negb_true_iff. apply H. unfold is_uhex, is_digit in Hh. unfold uhex_list, In. lia.
Qed.

Lemma hex_free_spec tr : hex_free tr = true -> forall h, is_hex h = true -> member tr h = false.
Proof.
  intros H h Hh. unfold hex_free in H. rewrite forallb_forall in H.
  apply negb_true_iff. apply H. rewrite <- isHexDigit_spec in Hh.
  unfold isHexDigit, bs_test, mem in Hh. apply existsb_exists in Hh.
  destruct Hh as [x [Hx Hxe]]. apply N.eqb_eq in Hxe. now subst.
Qed.

Lemma hex_free_uhex tr : (forall h, is_hex h = true -> member tr h = false) ->
  forall h, is_uhex h = true -> member tr h = false.
Proof. intros H h Hh. apply H. apply is_uhex_hex. exact Hh. Qed.

(* "%41é<%zz " : an escape, a non-ASCII letter, a member, a bad %, a space *)
Definition sample : str := [37;52;49;195;169;60;37;122;122;32;255].

(* B1 *)
Example encode_shape_ex :
  c_latin1 default_cfg = false /\ c_singlePct default_cfg = false /\
  PercentEncodeString default_cfg sample pes_Path
  = [37;52;49; 37;67;51;37;65;57; 37;51;67; 37;122;122; 37;50;48; 37;69;70;37;66;70;37;66;68].
Proof. vm_compute. repeat split; reflexivity. Qed.

(* B3/B4: the path, userinfo and C0 sets contain neither % nor a hex digit *)
Example sets_hex_free :
  member pes_Path 37 = false /\ hex_free pes_Path = true /\ uhex_free pes_Path = true /\
  member pes_UserInfo 37 = false /\ hex_free pes_UserInfo = true /\
  member pes_C0 37 = false /\ hex_free pes_C0 = true.
Proof. vm_compute. repeat split; reflexivity. Qed.

Example encode_no_member_ex s :
  Forall (fun r => member pes_Path r = false) (runes (PercentEncodeString default_cfg s pes_Path)).
Proof.
  apply encode_no_member; [reflexivity|reflexivity|apply uhex_free_spec; reflexivity].
Qed.

Example encode_idempotent_ex s :
  PercentEncodeString default_cfg (PercentEncodeString default_cfg s pes_UserInfo) pes_UserInfo
  = PercentEncodeString default_cfg s pes_UserInfo.
Proof.
  apply encode_idempotent; try reflexivity.
  apply hex_free_uhex, hex_free_spec. reflexivity.
Qed.

Example encode_idempotent_any_ex s :
  let c := opt_WithPercentEncodeSinglePercentSign in
  c_singlePct c = true /\
  PercentEncodeString c (PercentEncodeString c s pes_Path) pes_Path = PercentEncodeString c s pes_Path.
Proof.
  split; [reflexivity|].
  apply encode_idempotent_any; try reflexivity.
  apply hex_free_spec. reflexivity.
Qed.

(* B4 needs % outside the set ... *)
Lemma encode_idempotent_pct_refuted : exists c tr s,
  c_latin1 c = false /\ c_singlePct c = false /\ uhex_free tr = true /\
  PercentEncodeString c (PercentEncodeString c s tr) tr <> PercentEncodeString c s tr.
Proof.
  exists default_cfg, (pes_set pes_Path [37]), [37].
  repeat split; try reflexivity. vm_compute. discriminate.
Qed.

(* ... and the upper-case hex digits outside the set ... *)
Lemma encode_idempotent_hex_refuted : exists c tr s,
  c_latin1 c = false /\ c_singlePct c = false /\ member tr 37 = false /\
  PercentEncodeString c (PercentEncodeString c s tr) tr <> PercentEncodeString c s tr.
Proof.
  exists default_cfg, (pes_set pes_Path [50]), [32].
  repeat split; try reflexivity. vm_compute. discriminate.
Qed.

(* ... and, with the single-percent option, also the lower-case ones: "%aa" -> "%%61%61" -> "%25%61%61" *)
Lemma encode_idempotent_singlePct_refuted : exists c tr s,
  c_latin1 c = false /\ member tr 37 = false /\ uhex_free tr = true /\
  PercentEncodeString c (PercentEncodeString c s tr) tr <> PercentEncodeString c s tr.
Proof.
  exists opt_WithPercentEncodeSinglePercentSign, (pes_set pes_Path [97]), [37;97;97].
  repeat split; try reflexivity. vm_compute. discriminate.
Qed.

(* B5 *)
Example decode_encode_inverse_ex :
  let tr := pes_set pes_Path [37] in
  member tr 37 = true /\
  DecodePercentEncoded default_cfg (PercentEncodeString default_cfg sample tr) = to_valid sample /\
  to_valid sample <> sample.
Proof.
  split; [reflexivity|]. split.
  - apply decode_encode_inverse; reflexivity.
  - vm_compute. discriminate.
Qed.

(* B6 *)
Example decode_encode_eq_ex s :
  DecodePercentEncoded default_cfg (PercentEncodeString default_cfg s pes_Path)
  = DecodePercentEncoded default_cfg (to_valid s).
Proof.
  apply decode_encode_eq; try reflexivity.
  apply hex_free_spec. reflexivity.
Qed.

(* B6 is false as soon as one hex digit is a member, even a lower-case one:
   "%4a" is encoded as "%4%61", which decodes to "%4a", whereas "%4a" decodes to "J" *)
Lemma decode_encode_eq_refuted : exists c tr s,
  c_latin1 c = false /\ c_singlePct c = false /\ member tr 37 = false /\ uhex_free tr = true /\
  DecodePercentEncoded c (PercentEncodeString c s tr) <> DecodePercentEncoded c (to_valid s).
Proof.
  exists default_cfg, (pes_set pes_Path [97]), [37;52;97].
  repeat split; try reflexivity. vm_compute. discriminate.
Qed.

(* ================================================================== *)
(* B7: the canonicalizer's byte-wise codec                            *)
(* ================================================================== *)
Lemma c_decode_eq s : c_decode s = DecodePercentEncoded default_cfg s.
Proof. apply c_decode_D. reflexivity. Qed.

Definition bytes (s : str) : Prop := Forall (fun b => b < 256) s.

Theorem c_decode_encode d tr : bytes d -> c_decode (c_percentEncode d tr) = d.
Proof.
  intros H. rewrite c_decode_eq. unfold c_percentEncode.
  induction H as [|b d Hb Hd IH]; [reflexivity|].
  cbn [flat_map]. unfold percentEncodeByte at 1, ByteShouldBeEncoded.
  destruct (member (pes_set tr [37]) b) eqn:E.
  - rewrite D_pct_byte by (reflexivity || exact Hb). now rewrite IH.
  - rewrite member_set37 in E. cbn [app]. rewrite D_ne by (try reflexivity; lia). now rewrite IH.
Qed.
Print Assumptions c_decode_encode.

Example c_decode_encode_ex :
  bytes sample /\ c_percentEncode sample pes_LaxPath
    = [37;50;53;52;49;37;67;51;37;65;57;60;37;50;53;122;122;37;50;48;37;70;70] /\
  c_decode (c_percentEncode sample pes_LaxPath) = sample.
Proof.
  split; [repeat constructor|]. vm_compute. split; reflexivity.
Qed.

(* the bound is needed: 300 is "escaped" as %IC *)
Lemma c_decode_encode_refuted : exists d tr, c_decode (c_percentEncode d tr) <> d.
Proof. exists [300], pes_Path. vm_compute. discriminate. Qed.

Lemma str_eqb_eq a : forall b, str_eqb a b = true <-> a = b.
Proof.
  unfold str_eqb. induction a as [|x a IH]; intros [|y b]; cbn [list_eqb]; split; intros H;
    try reflexivity; try discriminate.
  - apply andb_true_iff in H. destruct H as [H1 H2]. apply N.eqb_eq in H1. apply IH in H2.
    now subst.
  - inversion H; subst. rewrite N.eqb_refl. cbn [andb]. now apply IH.
Qed.

Lemma c_decode_length s :
  (length (c_decode s) <= length s)%nat /\ (length (c_decode s) = length s -> c_decode s = s).
Proof. rewrite c_decode_eq. apply D_length. reflexivity. Qed.

Lemma c_decode_bytes s : bytes s -> bytes (c_decode s).
Proof. rewrite c_decode_eq. apply D_bytes. reflexivity. Qed.

Lemma repeatedDecode_fuel_total : forall f s, (length s < f)%nat ->
  exists d, repeatedDecode_fuel f s = Some d.
Proof.
  induction f as [|f IH]; intros s H; [lia|].
  cbn [repeatedDecode_fuel]. destruct (str_eqb s (c_decode s)) eqn:E; [eauto|].
  apply IH. destruct (c_decode_length s) as [G1 G2].
  assert (length (c_decode s) <> length s); [|lia].
  intros G. apply G2 in G. symmetry in G. apply str_eqb_eq in G. congruence.
Qed.

Theorem repeatedDecode_total s : repeatedDecode s <> None.
Proof.
  unfold repeatedDecode. destruct (repeatedDecode_fuel_total (S (length s)) s) as [d ->]; [lia|].
  discriminate.
Qed.
Print Assumptions repeatedDecode_total.

Lemma repeatedDecode_fuel_fixed : forall f s d, repeatedDecode_fuel f s = Some d -> c_decode d = d.
Proof.
  induction f as [|f IH]; intros s d H; [discriminate|].
  cbn [repeatedDecode_fuel] in H. destruct (str_eqb s (c_decode s)) eqn:E.
  - inversion H; subst. apply str_eqb_eq in E. now symmetry.
  - eapply IH. exact H.
Qed.

Theorem repeatedDecode_fixed s d : repeatedDecode s = Some d -> c_decode d = d.
Proof. apply repeatedDecode_fuel_fixed. Qed.
Print Assumptions repeatedDecode_fixed.

Lemma repeatedDecode_fuel_bytes : forall f s d, bytes s -> repeatedDecode_fuel f s = Some d -> bytes d.
Proof.
  induction f as [|f IH]; intros s d Hs H; [discriminate|].
  cbn [repeatedDecode_fuel] in H. destruct (str_eqb s (c_decode s)) eqn:E.
  - inversion H; now subst.
  - eapply IH; [|exact H]. apply c_decode_bytes. exact Hs.
Qed.

Lemma repeatedDecode_fuel_of_fixed f d : c_decode d = d -> repeatedDecode_fuel (S f) d = Some d.
Proof.
  intros H. cbn [repeatedDecode_fuel]. rewrite H.
  replace (str_eqb d d) with true; [reflexivity|]. symmetry. now apply str_eqb_eq.
Qed.

Example repeatedDecode_ex : repeatedDecode [37;50;53;50;53;52;49] = Some [65].   (* "%252541" -> "A" *)
Proof. vm_compute. reflexivity. Qed.

Theorem decodeEncode_idempotent s tr e :
  bytes s -> decodeEncode s tr = Some e -> decodeEncode e tr = Some e.
Proof.
  intros Hs H. unfold decodeEncode in *.
  destruct (repeatedDecode s) as [d|] eqn:E; [|discriminate]. inversion H; subst e; clear H.
  pose proof (repeatedDecode_fixed _ _ E) as Hfix.
  pose proof (repeatedDecode_fuel_bytes _ _ _ Hs E) as Hd.
  pose proof (c_decode_encode d tr Hd) as Hdec.
  unfold repeatedDecode. cbn [repeatedDecode_fuel]. rewrite Hdec.
  destruct (str_eqb (c_percentEncode d tr) d) eqn:Eq.
  - apply str_eqb_eq in Eq. rewrite Eq at 1. now rewrite Eq.
  - destruct (c_percentEncode d tr) as [|x t] eqn:Ee.
    + (* the encoding is empty, so is d *)
      rewrite <- Hdec in Eq. cbn in Eq. discriminate.
    + cbn [length]. rewrite repeatedDecode_fuel_of_fixed by exact Hfix. now rewrite Ee.
Qed.
Print Assumptions decodeEncode_idempotent.

Example decodeEncode_ex :
  bytes [37;50;53;52;49;32;37] /\
  decodeEncode [37;50;53;52;49;32;37] pes_LaxPath = Some [65;37;50;48;37;50;53] /\   (* "%2541 %" -> "A%20%25" *)
  decodeEncode [65;37;50;48;37;50;53] pes_LaxPath = Some [65;37;50;48;37;50;53].
Proof. split; [repeat constructor|]. vm_compute. split; reflexivity. Qed.

(* without the byte bound the law fails in the model (300 is not a byte; not a defect of the Go code) *)
Lemma decodeEncode_idempotent_refuted : exists s tr e,
  decodeEncode s tr = Some e /\ decodeEncode e tr <> Some e.
Proof.
  exists [300], pes_Path, [37;73;67]. split; [vm_compute; reflexivity|]. vm_compute. discriminate.
Qed.

(* B1 with the single-percent option on, for a string whose % signs all start an escape *)
Example encode_shape_ex2 :
  let c := opt_WithPercentEncodeSinglePercentSign in
  c_singlePct c = true /\ member pes_Path 37 = false /\ pct_ok (runes [37;52;49;195;169;60]) = true /\
  PercentEncodeString c [37;52;49;195;169;60] pes_Path = flat_map (enc1 pes_Path) (runes [37;52;49;195;169;60]).
Proof.
  cbv zeta. split; [reflexivity|]. split; [reflexivity|]. split; [vm_compute; reflexivity|].
  apply encode_shape; [reflexivity|]. right; right. vm_compute. reflexivity.
Qed.

(* the hypothesis c_latin1 c = false is needed: with the ISO-8859-1 override a code point
   above 255 is escaped as %1A *)
Lemma decode_encode_inverse_latin1_refuted : exists c tr s,
  member tr 37 = true /\
  DecodePercentEncoded c (PercentEncodeString c s tr) <> to_valid s.
Proof.
  exists opt_WithEncodingOverride, (pes_set pes_Path [37]), [226;130;172].
  split; [reflexivity|]. vm_compute. discriminate.
Qed.
