(* Round trip, auxiliary: a host that [Inv] accepts and that is a fixed point of the host parser is scanned
   by the authority and host states as one piece (no delimiter outside brackets, brackets balanced). *)
From Verif Require Import Lib.Base Lib.Utf8 Lib.GoStr Model.Cfg Gen.Tables Gen.Options Model.Sets Model.Percent
  Model.Url Model.Host Model.Machine Model.Api Model.Preds.
From Verif Require Import Proofs.RecordInv Proofs.IPv6Parse Proofs.MachineInv Proofs.RoundTripBase.
From Coq Require Import Lia ZifyBool ZifyN ZifyNat.

Local Arguments N.mul : simpl never.
Local Arguments N.add : simpl never.
Local Arguments N.sub : simpl never.
Local Arguments N.eqb : simpl never.
Local Arguments N.ltb : simpl never.
Local Arguments N.leb : simpl never.

(* the bytes of a serialized IPv6 address *)
Definition v6ch (x : N) : bool := ((48 <=? x) && (x <=? 57)) || ((97 <=? x) && (x <=? 102)) || (x =? 58).

Lemma hex_lower_v6ch k : k < 16 -> v6ch (hex_lower k) = true.
Proof. intros H. unfold hex_lower, v6ch. destruct (k <? 10) eqn:E; lia. Qed.

Lemma fmt_hex_v6ch n : forallb v6ch (fmt_hex n) = true.
Proof. unfold fmt_hex. apply fmt_fuel_chars; [lia|apply hex_lower_v6ch]. Qed.

Lemma v6_print_v6ch : forall l idx compress ignore0, forallb v6ch (v6_print l idx compress ignore0) = true.
Proof.
  induction l as [|x l IH]; intros idx compress ignore0; [reflexivity|].
  cbn [v6_print]. destruct (ignore0 && (x =? 0)); [apply IH|].
  destruct (match compress with Some ci => Nat.eqb ci idx | None => false end).
  - rewrite forallb_app, IH. destruct (Nat.eqb idx 0); reflexivity.
  - rewrite !forallb_app, fmt_hex_v6ch, IH. destruct (Nat.eqb idx 7); reflexivity.
Qed.

Lemma v6ch_facts x : v6ch x = true ->
  ((x =? 47) || (x =? 63) || (x =? 35)) = false /\ (x =? 92) = false /\ (x =? 91) = false /\ (x =? 93) = false /\ (x =? 64) = false.
Proof. unfold v6ch. intros H. repeat split; lia. Qed.

Lemma hscan_inside sp : forall body,
  forallb v6ch body = true ->
  hscan sp true (body ++ [93]) = true /\ hbr true (body ++ [93]) = false /\ mem 64 (body ++ [93]) = false.
Proof.
  induction body as [|x body IH]; intros H.
  - cbn [app]. destruct sp; repeat split; reflexivity.
  - cbn [forallb] in H. apply andb_true_iff in H. destruct H as [Hx H]. destruct (IH H) as [I1 [I2 I3]].
    destruct (v6ch_facts x Hx) as [F1 [F2 [F3 [F4 F5]]]].
    cbn [app hscan hbr]. rewrite F1, F2, F3, F4, I1, I2. cbn [negb]. rewrite !andb_false_r. cbn [negb andb orb].
    repeat split; try reflexivity.
    unfold mem in *. cbn [existsb]. rewrite I3, N.eqb_sym, F5. reflexivity.
Qed.

Lemma hscan_v6 sp body : forallb v6ch body = true ->
  hscan sp false (91 :: body ++ [93]) = true /\ hbr false (91 :: body ++ [93]) = false /\ mem 64 (91 :: body ++ [93]) = false.
Proof.
  intros H. destruct (hscan_inside sp body H) as [I1 [I2 I3]].
  cbn [hscan hbr]. replace (91 =? 58) with false by reflexivity. replace (91 =? 91) with true by reflexivity.
  replace (91 =? 47) with false by reflexivity. replace (91 =? 63) with false by reflexivity.
  replace (91 =? 35) with false by reflexivity. replace (91 =? 92) with false by reflexivity.
  rewrite !andb_false_r. cbn [negb andb orb]. rewrite I1, I2. repeat split; try reflexivity.
  unfold mem in *. cbn [existsb]. rewrite I3. reflexivity.
Qed.

(* a host without forbidden code points *)
Definition delim (x : N) : bool :=
  (x =? 58) || (x =? 47) || (x =? 63) || (x =? 35) || (x =? 92) || (x =? 91) || (x =? 93) || (x =? 64).

Lemma delim_forbidden x : delim x = true -> isForbiddenHost x = true /\ isForbiddenDomain x = true.
Proof.
  unfold delim. intros H.
  repeat (apply orb_true_iff in H; destruct H as [H|H]); apply N.eqb_eq in H; subst x; split; reflexivity.
Qed.

Lemma hscan_plain sp : forall h, forallb (fun x => negb (delim x)) h = true ->
  hscan sp false h = true /\ hbr false h = false /\ mem 64 h = false.
Proof.
  induction h as [|x h IH]; intros H; [repeat split; reflexivity|].
  cbn [forallb] in H. apply andb_true_iff in H. destruct H as [Hx H]. destruct (IH H) as [I1 [I2 I3]].
  apply negb_true_iff in Hx. unfold delim in Hx.
  repeat (apply orb_false_iff in Hx; let H' := fresh "D" in destruct Hx as [Hx H']).
  cbn [hscan hbr]. rewrite Hx, D5, D4, D3, D2, D1, D0, I1, I2. rewrite !andb_false_r. cbn [negb andb orb].
  repeat split; try reflexivity. unfold mem in *. cbn [existsb]. rewrite I3, N.eqb_sym, D. reflexivity.
Qed.

Theorem host_scan_derived idna_raw c u h :
  c_pre c = HF_none -> Inv c u -> u_host u = Some h -> host_fixed idna_raw c u ->
  hscan (IsSpecialScheme c u) false h = true /\ hbr false h = false /\ mem 64 h = false.
Proof.
  intros Hpre Hi Hh Hfix. destruct (I_host _ _ Hi h Hh) as [Hok _].
  unfold host_ok in Hok. apply orb_true_iff in Hok. destruct Hok as [Hb|Hnf].
  - (* bracketed: the fixed point is a serialized IPv6 address *)
    unfold is_bracketed in Hb. destruct h as [|x t]; [discriminate|].
    assert (Hx : x = 91 /\ has_suffix [93] (x :: t) = true).
    { destruct x as [|px]; [discriminate|]. do 7 (destruct px as [px|px|]; try discriminate Hb). split; [reflexivity|exact Hb]. }
    destruct Hx as [-> Hs]. apply has_suffix_93 in Hs. destruct Hs as [s' Es].
    destruct s' as [|y t']; [discriminate Es|]. injection Es as <- ->.
    pose proof (Hfix _ Hh u) as Hp. rewrite (parseHost_brackets_closed idna_raw c u t' _ Hpre) in Hp.
    apply parseIPv6_ok in Hp. destruct Hp as [_ [a Ea]]. cbn [app] in Ea. injection Ea as Ea.
    apply app_inj_tail in Ea. destruct Ea as [Ea _]. subst t'.
    apply hscan_v6. unfold IPv6String. apply v6_print_v6ch.
  - apply hscan_plain. destruct (IsSpecialScheme c u).
    + apply andb_true_iff in Hnf. destruct Hnf as [Hnf _]. apply andb_true_iff in Hnf. destruct Hnf as [Hnf _].
      revert Hnf. apply forallb_impl. intros x Hx. apply negb_true_iff in Hx. apply negb_true_iff.
      destruct (delim x) eqn:E; [|reflexivity]. destruct (delim_forbidden x E) as [_ F]. congruence.
    + revert Hnf. apply forallb_impl. intros x Hx. apply negb_true_iff in Hx. apply negb_true_iff.
      destruct (delim x) eqn:E; [|reflexivity]. destruct (delim_forbidden x E) as [F _]. congruence.
Qed.

Print Assumptions host_scan_derived.
