(* Component refinements R5 (opaque-host parser) and R6 (host parser): model (bytes) against the
   standard (code points). The Unicode ToASCII oracle of the standard is DEFINED from the model's wrapper:
   dta bytes := ToASCII idna_raw c bytes. *)
From Verif Require Import Lib.Base Lib.Utf8 Lib.GoStr Model.Cfg Gen.Tables Gen.Options Model.Sets Model.Percent
     Model.Url Model.Host.
From Verif Require Spec.IPv4 Spec.IPv6 Spec.Url Spec.Host.
From Verif Require Import Spec.PercentSets Spec.PercentCodec.
From Verif Require Import Proofs.Utf8Proofs Proofs.SetsProofs Proofs.RefineUtf8 Proofs.RefineCodec
     Proofs.RefineUtf8Dec.
From Verif Require Proofs.IPv4Proofs Proofs.IPv6Proofs Proofs.HostProofs.
From Coq Require Import Lia ZifyBool ZifyN ZifyNat.
Ltac Zify.zify_post_hook ::= Z.div_mod_to_equations.

Module S4 := Verif.Spec.IPv4.
Module S6 := Verif.Spec.IPv6.
Module SU := Verif.Spec.Url.
Module SH := Verif.Spec.Host.
Module P4 := Verif.Proofs.IPv4Proofs.
Module P6 := Verif.Proofs.IPv6Parse.
Module PH := Verif.Proofs.HostProofs.

Notation val := P4.val.

(* the bytes of a host of the standard: its serialization, UTF-8 encoded (it is ASCII) *)
Definition host_bytes (h : SU.shost) : str := encode_runes (SU.host_serialize h).

(* ================================================================== *)
(* R5: the opaque-host parser                                           *)
(* ================================================================== *)
Section Opaque.
  Variable c : cfg.
  Hypothesis Hfail : c_fail c = false.
  Hypothesis Hlax : c_lax c = false.
  Hypothesis Hl1 : c_latin1 c = false.

  Lemma warn_if {A} (b : bool) u t (k : url -> res A) :
    exists u', (if b then (fun k => herr c u t false k) else (fun k => k u)) k = k u'.
  Proof. destruct b; [apply P4.herr_warn; exact Hfail|exists u; reflexivity]. Qed.

  Lemma opaque_loop_spec input : forall l u out,
    val (opaque_loop c u input l out) =
    if existsb forbidden_host_cp l then None
    else Some (out ++ utf8_percent_encode in_c0_control_set l).
  Proof.
    induction l as [|ch rest IH]; intros u out.
    - cbn [opaque_loop existsb]. unfold utf8_percent_encode, percent_encode_after_utf8. cbn.
      rewrite app_nil_r. reflexivity.
    - cbn [opaque_loop existsb]. rewrite forbidden_host_table, Hlax.
      assert (K : forall u0, val
        ((if negb (isURLCodePoint ch) && negb (ch =? 37)
          then fun k => herr c u0 InvalidURLUnit false k else fun k => k u0)
         (fun u1 => (if (ch =? 37) && invalid_pct (ch :: rest)
                     then fun k => herr c u1 InvalidURLUnit false k else fun k => k u1)
            (fun u2 => opaque_loop c u2 input rest (out ++ percentEncodeRune c ch (Some pes_C0)))))
        = if existsb forbidden_host_cp rest then None
          else Some (out ++ utf8_percent_encode in_c0_control_set (ch :: rest))).
      { intros u0.
        destruct (warn_if (negb (isURLCodePoint ch) && negb (ch =? 37)) u0 InvalidURLUnit
          (fun u1 => (if (ch =? 37) && invalid_pct (ch :: rest)
                     then fun k => herr c u1 InvalidURLUnit false k else fun k => k u1)
            (fun u2 => opaque_loop c u2 input rest (out ++ percentEncodeRune c ch (Some pes_C0))))) as [u1 E1].
        rewrite E1.
        destruct (warn_if ((ch =? 37) && invalid_pct (ch :: rest)) u1 InvalidURLUnit
          (fun u2 => opaque_loop c u2 input rest (out ++ percentEncodeRune c ch (Some pes_C0)))) as [u2 E2].
        rewrite E2. rewrite IH.
        destruct (existsb forbidden_host_cp rest); [reflexivity|].
        rewrite (percentEncodeRune_spec c Hl1 pes_C0 in_c0_control_set sets_C0).
        change (ch :: rest) with ([ch] ++ rest).
        rewrite (utf8_percent_encode_app in_c0_control_set [ch] rest).
        rewrite (utf8_percent_encode_flat in_c0_control_set [ch]). cbn [flat_map].
        rewrite app_nil_r, app_assoc. reflexivity. }
      destruct (forbidden_host_cp ch) eqn:Ef; cbn [orb].
      + apply P4.val_herr_fatal.
      + apply K.
  Qed.

  Theorem R5_opaque_host u input :
    val (parseOpaqueHost c u input) = option_map host_bytes (SH.opaque_host_parse (runes input)).
  Proof.
    unfold parseOpaqueHost, SH.opaque_host_parse. rewrite opaque_loop_spec. cbn [app].
    destruct (existsb forbidden_host_cp (runes input)); [reflexivity|].
    pose proof (utf8_percent_encode_ascii c Hl1 pes_C0 in_c0_control_set sets_C0 (runes input)) as Ha.
    destruct (utf8_percent_encode in_c0_control_set (runes input)) as [|x o] eqn:E.
    - reflexivity.
    - cbn [option_map]. unfold host_bytes. cbn [SU.host_serialize].
      rewrite enc_runes_ascii by exact Ha. reflexivity.
  Qed.
End Opaque.
Print Assumptions R5_opaque_host.

Example R5_ex :
  val (parseOpaqueHost default_cfg (empty_url []) [97; 195; 169; 37; 255; 1]) = Some [97;37;67;51;37;65;57;37;37;69;70;37;66;70;37;66;68;37;48;49]
  /\ option_map host_bytes (SH.opaque_host_parse (runes [97; 195; 169; 37; 255; 1]))
     = Some [97;37;67;51;37;65;57;37;37;69;70;37;66;70;37;66;68;37;48;49]
  /\ val (parseOpaqueHost default_cfg (empty_url []) [97; 32; 98]) = None
  /\ SH.opaque_host_parse (runes [97; 32; 98]) = None.
Proof. vm_compute. repeat split; reflexivity. Qed.

(* the hypothesis on failOnValidationError is needed: a non-URL code point is then fatal in the model *)
Lemma R5_c_fail_refuted : exists c u input,
  c_lax c = false /\ c_latin1 c = false /\
  val (parseOpaqueHost c u input) <> option_map host_bytes (SH.opaque_host_parse (runes input)).
Proof.
  exists opt_WithFailOnValidationError, (empty_url []), [97; 34].
  split; [reflexivity|]. split; [reflexivity|]. vm_compute. discriminate.
Qed.

(* ================================================================== *)
(* IPv6: the model's address has eight pieces                           *)
(* ================================================================== *)
Lemma set_nth_len l : forall i v, length (set_nth l i v) = length l.
Proof. induction l as [|x l IH]; intros [|i] v; cbn [set_nth length]; try reflexivity. now rewrite IH. Qed.

Lemma v4tail_len : forall l seen piece pi addr s p a,
  v4tail l seen piece pi addr = inl (s, p, a) -> length a = length addr.
Proof.
  induction l as [|ch rest IH]; intros seen piece pi addr s p a H.
  - cbn [v4tail] in H. destruct piece as [q|]; [|discriminate H].
    inversion H; subst. apply set_nth_len.
  - cbn [v4tail] in H. destruct piece as [q|].
    + destruct (isDigit ch).
      * destruct (q =? 0); [discriminate H|].
        destruct (255 <? q * 10 + hex_val ch); [discriminate H|].
        exact (IH _ _ _ _ _ _ _ H).
      * destruct ((ch =? 46) && (S seen <? 4)%nat); [|discriminate H].
        rewrite (IH _ _ _ _ _ _ _ H). apply set_nth_len.
    + destruct (isDigit ch); [|discriminate H]. exact (IH _ _ _ _ _ _ _ H).
Qed.

Lemma v6loop_len : forall l pi comp addr cur pi' comp' a,
  v6loop l pi comp addr cur = inl (pi', comp', a) -> length a = length addr.
Proof.
  induction l as [|ch rest IH]; intros pi comp addr cur pi' comp' a H.
  - cbn [v6loop] in H. destruct cur as [[[v ln] ps]|]; inversion H; subst; [apply set_nth_len|reflexivity].
  - cbn [v6loop] in H. destruct cur as [[[v ln] ps]|]; cbv beta iota zeta in H; cbn [andb] in H.
    + destruct ((ln <? 4)%nat && isHexDigit ch); [exact (IH _ _ _ _ _ _ _ H)|].
      destruct (ch =? 46).
      * destruct (Nat.eqb ln 0); [discriminate H|].
        destruct (6 <? pi)%nat; [discriminate H|].
        destruct (v4tail ps 0 None pi addr) as [[[seen p2] a2]|e] eqn:E4; [|discriminate H].
        destruct (Nat.eqb seen 4); [|discriminate H]. inversion H; subst.
        exact (v4tail_len _ _ _ _ _ _ _ _ E4).
      * destruct (ch =? 58); [|discriminate H].
        destruct rest as [|x rest']; [discriminate H|].
        rewrite (IH _ _ _ _ _ _ _ H). apply set_nth_len.
    + destruct (Nat.eqb pi 8); [discriminate H|].
      destruct (ch =? 58) eqn:E58.
      * destruct comp; [discriminate H|]. exact (IH _ _ _ _ _ _ _ H).
      * destruct ((0 <? 4)%nat && isHexDigit ch); [exact (IH _ _ _ _ _ _ _ H)|].
        destruct (ch =? 46); [discriminate H|]. discriminate H.
Qed.

Lemma v6swap_len : forall swaps addr pi comp, length (v6swap addr pi comp swaps) = length addr.
Proof.
  induction swaps as [|s IH]; intros addr pi comp; [destruct pi; reflexivity|].
  destruct pi as [|pi']; [reflexivity|]. cbn [v6swap]. rewrite IH, !set_nth_len. reflexivity.
Qed.

Lemma inl_inj {A B} (x y : A) : @inl A B x = inl y -> x = y.
Proof. congruence. Qed.

Lemma m_finish_len r a : (forall pi comp addr, r = inl (pi, comp, addr) -> length addr = 8%nat) ->
  P6.m_finish r = inl a -> length a = 8%nat.
Proof.
  intros Hr H. destruct r as [[[pi [comp|]] addr]|e]; cbn [P6.m_finish] in H.
  - apply inl_inj in H. subst a. rewrite v6swap_len. exact (Hr _ _ _ eq_refl).
  - destruct (Nat.eqb pi 8); [|discriminate H]. apply inl_inj in H. subst a. exact (Hr _ _ _ eq_refl).
  - discriminate H.
Qed.

Lemma ipv6_parse_len l a : Verif.Model.Host.ipv6_parse l = inl a -> length a = 8%nat.
Proof.
  intros H. destruct l as [|x l].
  - vm_compute in H. discriminate H.
  - destruct (x =? 58) eqn:Ex.
    + apply N.eqb_eq in Ex. subst x. destruct l as [|y l]; [vm_compute in H; discriminate H|].
      destruct (y =? 58) eqn:Ey.
      * apply N.eqb_eq in Ey. subst y.
        change (P6.m_finish (v6loop l 1 (Some 1%nat) zeros8 None) = inl a) in H.
        apply (m_finish_len _ _ (fun pi comp addr E => v6loop_len _ _ _ zeros8 _ _ _ _ E) H).
      * rewrite (P6.model_parse_58 y l Ey) in H. discriminate H.
    + rewrite (P6.model_parse_other x l Ex) in H.
      apply (m_finish_len _ _ (fun pi comp addr E => v6loop_len _ _ _ zeros8 _ _ _ _ E) H).
Qed.

Theorem parseIPv6_agree c u s :
  val (parseIPv6 c u s) = option_map (fun a => [91] ++ S6.ipv6_serialize a ++ [93]) (S6.ipv6_parse (runes s)).
Proof.
  unfold parseIPv6. rewrite <- P6.ipv6_parse_agree.
  destruct (Verif.Model.Host.ipv6_parse (runes s)) as [a|e] eqn:E.
  - cbn [val option_map]. rewrite (Verif.Proofs.IPv6Ser.IPv6String_agree a (ipv6_parse_len _ _ E)). reflexivity.
  - apply P4.val_herr_fatal.
Qed.

(* ================================================================== *)
(* ASCII-ness of the serialized addresses                               *)
(* ================================================================== *)
Lemma dec_fuel_ascii : forall f n, ascii (S4.dec_fuel f n).
Proof.
  induction f as [|f IH]; intros n; [constructor|].
  cbn [S4.dec_fuel]. destruct (n <? 10) eqn:E.
  - repeat constructor. lia.
  - apply Forall_app. split; [apply IH|]. repeat constructor.
    assert (n mod 10 < 10) by (apply N.mod_lt; lia). lia.
Qed.

Lemma decimal_ascii n : ascii (S4.decimal n).
Proof. apply dec_fuel_ascii. Qed.

Lemma ipv4_serialize_ascii a : ascii (S4.ipv4_serialize a).
Proof.
  rewrite P4.ipv4_serialize_unfold.
  repeat (apply Forall_app; split; [apply decimal_ascii|]; constructor; [lia|]).
  apply decimal_ascii.
Qed.

Lemma ipv6_serialize_ascii a : ascii (S6.ipv6_serialize a).
Proof. apply Verif.Proofs.IPv6Host.ser_loop_ascii. Qed.

Lemma host_bytes_ipv6 a : host_bytes (SU.HIPv6 a) = [91] ++ S6.ipv6_serialize a ++ [93].
Proof.
  unfold host_bytes. cbn [SU.host_serialize]. apply enc_runes_ascii.
  apply Forall_app. split; [repeat constructor; lia|].
  apply Forall_app. split; [apply ipv6_serialize_ascii|repeat constructor; lia].
Qed.

Lemma host_bytes_ipv4 a : host_bytes (SU.HIPv4 a) = S4.ipv4_serialize a.
Proof. unfold host_bytes. cbn [SU.host_serialize]. apply enc_runes_ascii. apply ipv4_serialize_ascii. Qed.

(* every host of the standard built by its host parser serializes to ASCII, given an ASCII oracle result *)
Lemma host_bytes_domain d : ascii d -> host_bytes (SU.HDomain d) = d.
Proof. intros H. unfold host_bytes. cbn [SU.host_serialize]. apply enc_runes_ascii. exact H. Qed.

(* ================================================================== *)
(* matches on literals                                                  *)
(* ================================================================== *)
Lemma match_some_93 {A} (o : option N) (Y Z : A) :
  match o with Some 93 => Y | _ => Z end =
  if match o with Some x => x =? 93 | None => false end then Y else Z.
Proof.
  destruct o as [[|p]|]; try reflexivity.
  do 7 (destruct p as [p|p|]; try reflexivity).
Qed.

Lemma match_cons_91 {A} (l : list N) (X : list N -> A) (Z : A) :
  PH.not_bracket l -> match l with 91 :: a => X a | _ => Z end = Z.
Proof.
  intros H. destruct l as [|b t]; [reflexivity|].
  apply PH.not_bracket_cons in H. apply (PH.match_bracket b (X t) Z H).
Qed.

(* the first rune *)
Lemma runes_not_bracket s : PH.not_bracket s -> PH.not_bracket (runes s).
Proof.
  intros H t E. destruct s as [|b s']; [discriminate E|].
  apply PH.not_bracket_cons in H. unfold runes in E.
  destruct (dec1 b s') as [r rest'] eqn:D. rewrite (decode_cons _ _ _ _ D) in E. cbn [map] in E.
  inversion E as [[Hr Ht]]. destruct (N.lt_ge_cases b 128) as [Hlt|Hge].
  - rewrite (dec1_low b s' Hlt) in D. inversion D; subst. cbn [rv] in Hr. congruence.
  - pose proof (dec1_high _ _ _ _ D Hge). lia.
Qed.

(* ================================================================== *)
(* R6: the host parser                                                  *)
(* ================================================================== *)
Section HostParser.
  Variable idna_raw : str -> str * bool.
  Variable c : cfg.
  Hypothesis Hstd : std_cfg c.

  Let Hfail := std_fail c Hstd.
  Let Hlax := std_lax c Hstd.
  Let Hl1 := std_latin1 c Hstd.
  Let Hpre := std_pre c Hstd.
  Let Hpost := std_post c Hstd.

  (* the oracle of the standard, taken from the model *)
  Definition dta (bytes : list N) : option (list N) := ToASCII idna_raw c bytes.

  (* ---------- step 1: input starts with U+005B ---------- *)
  Theorem R6_ipv6 u t isNotSpecial :
    val (parseHost idna_raw c u (91 :: t) isNotSpecial) =
    option_map host_bytes (SH.host_parse dta (runes (91 :: t)) isNotSpecial).
  Proof.
    rewrite P6.parseHost_brackets by (rewrite Hpre; reflexivity).
    rewrite (runes_cons_ascii 91 t) by lia.
    unfold SH.host_parse. rewrite match_some_93.
    rewrite <- (runes_cons_ascii 91 t) by lia.
    destruct (has_suffix [93] (91 :: t)) eqn:Es.
    - apply P6.has_suffix_93 in Es. destruct Es as [s' Es].
      assert (Hl : last_opt (runes (91 :: t)) = Some 93).
      { apply last_rune_ascii; [lia|]. rewrite Es. apply last_opt_snoc. }
      rewrite Hl. change (93 =? 93) with true. cbv iota.
      destruct s' as [|x s'']; [discriminate Es|]. cbn [app] in Es. injection Es as Hx Ht. subst x t.
      unfold drop_last. rewrite removelast_last.
      rewrite (runes_snoc_ascii s'' 93) by lia. rewrite removelast_last.
      rewrite parseIPv6_agree.
      destruct (S6.ipv6_parse (runes s'')) as [a|]; [|reflexivity].
      cbn [option_map]. rewrite host_bytes_ipv6. reflexivity.
    - replace (match last_opt (runes (91 :: t)) with Some x => x =? 93 | None => false end) with false.
      + reflexivity.
      + symmetry. destruct (last_opt (runes (91 :: t))) as [x|] eqn:El; [|reflexivity].
        destruct (x =? 93) eqn:Ex; [|reflexivity]. apply N.eqb_eq in Ex. subst x.
        apply (proj1 (last_rune_ascii (91 :: t) 93 ltac:(lia))) in El.
        destruct (last_opt_some_snoc _ _ El) as [l' E'].
        assert (has_suffix [93] (91 :: t) = true) by (apply P6.has_suffix_93; exists l'; exact E').
        congruence.
  Qed.

  (* ---------- step 2: opaque hosts ---------- *)
  Theorem R6_opaque u input : PH.not_bracket input ->
    val (parseHost idna_raw c u input true) = option_map host_bytes (SH.host_parse dta (runes input) true).
  Proof.
    intros Hnb. unfold SH.host_parse. rewrite (match_cons_91 (runes input)) by (apply runes_not_bracket; exact Hnb).
    rewrite <- (R5_opaque_host c Hfail Hlax Hl1 u input).
    destruct input as [|b t].
    - unfold parseHost. rewrite Hpre. reflexivity.
    - unfold parseHost. rewrite Hpre. cbn [apply_hostfun].
      rewrite (PH.match_bracket b _ _ (PH.not_bracket_cons b t Hnb)). reflexivity.
  Qed.

  (* ---------- steps 3-9: domains and IPv4 addresses ---------- *)
  (* the standard's steps 4 and 5 on a valid UTF-8 input whose percent-decoding is valid UTF-8 *)
  Lemma spec_domain input : valid_utf8 input = true -> valid_utf8 (percent_decode input) = true ->
    utf8_encode (utf8_decode_without_bom (string_percent_decode (runes input))) = percent_decode input.
  Proof.
    intros Hv Hd. unfold string_percent_decode, utf8_encode.
    change (flat_map utf8_enc (runes input)) with (to_valid input). rewrite (to_valid_of_valid input Hv).
    apply whatwg_decode_encode_valid. exact Hd.
  Qed.

  Theorem R6_domain u input :
    input <> [] -> PH.not_bracket input ->
    valid_utf8 input = true ->
    valid_utf8 (percent_decode input) = true ->
    (forall a, dta (percent_decode input) = Some a -> a <> [] /\ ascii a) ->
    val (parseHost idna_raw c u input false) = option_map host_bytes (SH.host_parse dta (runes input) false).
  Proof.
    intros Hne Hnb Hv Hd Hor.
    rewrite (PH.parseHost_domain idna_raw c Hlax Hpre Hpost u input Hne Hnb).
    unfold SH.host_parse. rewrite (match_cons_91 (runes input)) by (apply runes_not_bracket; exact Hnb).
    cbv zeta. unfold SH.domain_to_ascii. rewrite (spec_domain input Hv Hd).
    rewrite (R2_decode c input Hl1). unfold PH.domain_host. rewrite Hd. unfold PH.k_valid.
    change (ToASCII idna_raw c (percent_decode input)) with (dta (percent_decode input)).
    destruct (dta (percent_decode input)) as [a|] eqn:Ea.
    2:{ destruct (PH.fatal_er c u DomainToASCII) as [u' [e [E _]]]. rewrite E. reflexivity. }
    destruct (Hor a eq_refl) as [Hane Haa].
    destruct a as [|a0 a']; [congruence|].
    rewrite (runes_ascii (a0 :: a') Haa).
    rewrite (PH.existsb_ext' isForbiddenDomain forbidden_domain_cp) by apply forbidden_domain_table.
    destruct (existsb forbidden_domain_cp (a0 :: a')).
    { destruct (PH.fatal_er c u DomainInvalidCodePoint) as [u' [e [E _]]]. rewrite E. reflexivity. }
    unfold PH.k_clean. destruct (S4.ends_in_a_number (a0 :: a')).
    - etransitivity; [exact (P4.parseIPv4_agree c u (a0 :: a') Hfail)|].
      destruct (S4.ipv4_parse (a0 :: a')) as [x|]; [|reflexivity].
      cbn [option_map]. rewrite host_bytes_ipv4. reflexivity.
    - cbn [val option_map]. rewrite (host_bytes_domain _ Haa). reflexivity.
  Qed.

  (* when the percent-decoded input is not valid UTF-8 the model fails; the standard decodes lossily, which
     puts U+FFFD into the domain, and fails if the oracle rejects such domains *)
  Theorem R6_domain_invalid u input :
    input <> [] -> PH.not_bracket input ->
    valid_utf8 input = true ->
    valid_utf8 (percent_decode input) = false ->
    (forall l, In 65533 l -> dta (utf8_encode l) = None) ->
    val (parseHost idna_raw c u input false) = None /\ SH.host_parse dta (runes input) false = None.
  Proof.
    intros Hne Hnb Hv Hd Hor. split.
    - rewrite (PH.parseHost_domain idna_raw c Hlax Hpre Hpost u input Hne Hnb).
      unfold PH.domain_host. rewrite (R2_decode c input Hl1), Hd.
      destruct (PH.fatal_er c u DomainToASCII) as [u' [e [E _]]]. rewrite E. reflexivity.
    - unfold SH.host_parse. rewrite (match_cons_91 (runes input)) by (apply runes_not_bracket; exact Hnb).
      cbv zeta. unfold SH.domain_to_ascii.
      rewrite Hor; [reflexivity|].
      unfold string_percent_decode, utf8_encode.
      change (flat_map utf8_enc (runes input)) with (to_valid input). rewrite (to_valid_of_valid input Hv).
      apply whatwg_decode_invalid. exact Hd.
  Qed.

  (* ---------- all together ---------- *)
  Definition domain_case (input : str) (isNotSpecial : bool) : Prop :=
    isNotSpecial = false /\ PH.not_bracket input.

  Theorem R6_host u input isNotSpecial :
    (domain_case input isNotSpecial ->
       input <> [] /\ valid_utf8 input = true /\ valid_utf8 (percent_decode input) = true /\
       (forall a, dta (percent_decode input) = Some a -> a <> [] /\ ascii a)) ->
    val (parseHost idna_raw c u input isNotSpecial) =
    option_map host_bytes (SH.host_parse dta (runes input) isNotSpecial).
  Proof.
    intros H.
    assert (Hcase : (exists t, input = 91 :: t) \/ PH.not_bracket input).
    { destruct input as [|b t]; [right; intros t E; discriminate E|].
      destruct (N.eq_dec b 91) as [->|Hb]; [left; exists t; reflexivity|].
      right. intros t' E. inversion E. congruence. }
    destruct Hcase as [[t ->]|Hnb]; [apply R6_ipv6|].
    destruct isNotSpecial; [apply R6_opaque; exact Hnb|].
    destruct (H (conj eq_refl Hnb)) as [Hne [Hv [Hd Hor]]].
    apply R6_domain; assumption.
  Qed.
End HostParser.

Print Assumptions R6_ipv6.
Print Assumptions R6_opaque.
Print Assumptions R6_domain.
Print Assumptions R6_domain_invalid.
Print Assumptions R6_host.

(* ---------- the premises hold of concrete non-trivial values ---------- *)
(* a toy oracle: lower-cases ASCII, reports an error on anything else *)
Definition toy_idna (s : str) : str * bool := (str_lower s, negb (forallb (fun b => b <? 128) s)).

Example R6_host_ex :
  let input := [69; 120; 37; 52; 49; 109; 112; 108; 101; 46; 99; 111; 109] in   (* "Ex%41mple.com" *)
  std_cfg default_cfg /\
  input <> [] /\ valid_utf8 input = true /\ valid_utf8 (percent_decode input) = true /\
  (forall a, dta toy_idna default_cfg (percent_decode input) = Some a -> a <> [] /\ ascii a) /\
  val (parseHost toy_idna default_cfg (empty_url []) input false) = Some [101;120;97;109;112;108;101;46;99;111;109] /\
  option_map host_bytes (SH.host_parse (dta toy_idna default_cfg) (runes input) false)
    = Some [101;120;97;109;112;108;101;46;99;111;109].
Proof.
  cbv zeta. split; [exact std_cfg_default|]. split; [discriminate|].
  split; [vm_compute; reflexivity|]. split; [vm_compute; reflexivity|].
  split.
  - intros a Ha. vm_compute in Ha. inversion Ha; subst. split; [discriminate|]. repeat constructor; lia.
  - split; vm_compute; reflexivity.
Qed.

Example R6_host_ex_ipv4_ipv6 :
  val (parseHost toy_idna default_cfg (empty_url []) [48;120;55;102;46;49] false) = Some [49;50;55;46;48;46;48;46;49] /\
  option_map host_bytes (SH.host_parse (dta toy_idna default_cfg) (runes [48;120;55;102;46;49]) false)
    = Some [49;50;55;46;48;46;48;46;49] /\
  val (parseHost toy_idna default_cfg (empty_url []) [91;58;58;49;93] false) = Some [91;58;58;49;93] /\
  option_map host_bytes (SH.host_parse (dta toy_idna default_cfg) (runes [91;58;58;49;93]) false) = Some [91;58;58;49;93].
Proof. vm_compute. repeat split; reflexivity. Qed.

(* ---------- the premises are needed ---------- *)
(* (1) "Assert: input is not the empty string": on the empty input with a special scheme the model answers
   the empty host, the standard's steps fail in domain to ASCII. The basic URL parser never makes this call. *)
Lemma R6_empty_input_refuted : exists idna_raw u,
  val (parseHost idna_raw default_cfg u [] false) <>
  option_map host_bytes (SH.host_parse (dta idna_raw default_cfg) (runes []) false).
Proof. exists toy_idna, (empty_url []). vm_compute. discriminate. Qed.

(* (2) step 3 of "domain to ASCII" (an empty result is a failure) is not performed by the model's wrapper when
   the oracle reports an error on an ASCII-only input: the wrapper returns the oracle's string as it is.
   With an oracle that returns the empty string and an error, the model produces the empty host. *)
Lemma R6_empty_result_refuted : exists idna_raw u input,
  input <> [] /\ valid_utf8 input = true /\ valid_utf8 (percent_decode input) = true /\
  val (parseHost idna_raw default_cfg u input false) = Some [] /\
  SH.host_parse (dta idna_raw default_cfg) (runes input) false = None.
Proof.
  exists (fun _ => ([], true)), (empty_url []), [97].
  split; [discriminate|]. vm_compute. repeat split; reflexivity.
Qed.

(* (3) the oracle's result must be ASCII for the bytes to be those of the standard's domain *)
Lemma R6_nonascii_result_refuted : exists idna_raw u input,
  input <> [] /\ valid_utf8 input = true /\ valid_utf8 (percent_decode input) = true /\
  val (parseHost idna_raw default_cfg u input false) <>
  option_map host_bytes (SH.host_parse (dta idna_raw default_cfg) (runes input) false).
Proof.
  exists (fun _ => ([233], false)), (empty_url []), [97].
  split; [discriminate|]. split; [reflexivity|]. split; [reflexivity|]. vm_compute. discriminate.
Qed.

(* (4) invalid UTF-8 after percent-decoding: the model fails at once, the standard asks the oracle about the
   domain with U+FFFD; with a permissive oracle they differ *)
Lemma R6_invalid_decoded_refuted : exists idna_raw u input,
  input <> [] /\ valid_utf8 input = true /\
  val (parseHost idna_raw default_cfg u input false) = None /\
  SH.host_parse (dta idna_raw default_cfg) (runes input) false <> None.
Proof.
  exists (fun s => ([120], false)), (empty_url []), [37; 102; 102].
  split; [discriminate|]. vm_compute. repeat split; try reflexivity. discriminate.
Qed.
