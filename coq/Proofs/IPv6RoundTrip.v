(* IPv6: parsing the serialization of an address gives the address back. *)
From Verif Require Import Lib.Base Lib.Utf8 Lib.GoStr Model.Cfg Gen.Tables Model.Sets Model.Percent Model.Url Model.Host.
From Verif Require Spec.IPv6.
From Verif Require Import Spec.PercentSets Spec.IPv4.
From Verif Require Import Proofs.IPv6Parse Proofs.IPv6Ser.
From Coq Require Import Lia ZifyBool ZifyN ZifyNat.

(* ---------- one piece: lower_hex p is 1..4 hex digits that read back as p (p < 65536) ---------- *)
Definition hexs_val (ds : list N) (v : N) : N := fold_left (fun acc c => acc * 16 + hex_val c) ds v.

Definition hex_ok (p : N) : bool :=
  let ds := IPv6.lower_hex p in
  (1 <=? length ds)%nat && (length ds <=? 4)%nat && forallb isHexDigit ds && (hexs_val ds 0 =? p).

Fixpoint upto (fuel : nat) (n : N) : list N :=
  match fuel with O => [] | S f => n :: upto f (N.succ n) end.
Lemma in_upto : forall fuel n x, n <= x -> x < n + N.of_nat fuel -> In x (upto fuel n).
Proof.
  induction fuel as [|f IH]; intros n x H1 H2; [lia|].
  cbn [upto]. destruct (N.eq_dec n x) as [->|Hne]; [left; reflexivity|].
  right. apply IH; lia.
Qed.

Lemma hex_ok_all : forallb hex_ok (upto (256 * 256) 0) = true.
Proof. vm_compute. reflexivity. Qed.

Lemma hex_ok_lt p : p < 65536 -> hex_ok p = true.
Proof.
  intros H. pose proof hex_ok_all as A. rewrite forallb_forall in A. apply A.
  apply in_upto; [lia|].
  replace (N.of_nat (256 * 256)) with 65536 by (vm_compute; reflexivity). lia.
Qed.

Lemma lower_hex_props p : p < 65536 ->
  (1 <= length (IPv6.lower_hex p) <= 4)%nat /\ forallb isHexDigit (IPv6.lower_hex p) = true
  /\ hexs_val (IPv6.lower_hex p) 0 = p.
Proof.
  intros H. pose proof (hex_ok_lt p H) as A. unfold hex_ok in A. cbv zeta in A.
  apply andb_prop in A. destruct A as [A A4]. apply andb_prop in A. destruct A as [A A3].
  apply andb_prop in A. destruct A as [A1 A2].
  apply Nat.leb_le in A1. apply Nat.leb_le in A2. apply N.eqb_eq in A4. auto.
Qed.

Lemma hex_not_colon d : isHexDigit d = true -> (d =? 58) = false.
Proof. rewrite isHexDigit_spec. unfold ascii_hex_digit, ascii_upper_hex, ascii_digit. lia. Qed.

(* ---------- phases of the model's loop ---------- *)
Lemma v6loop_digits : forall ds rest pi comp addr v ln ps,
  forallb isHexDigit ds = true -> (ln + length ds <= 4)%nat ->
  v6loop (ds ++ rest) pi comp addr (Some (v, ln, ps))
  = v6loop rest pi comp addr (Some (hexs_val ds v, (ln + length ds)%nat, ps)).
Proof.
  induction ds as [|d ds IH]; intros rest pi comp addr v ln ps Hh Hl.
  - cbn [app length hexs_val fold_left]. rewrite Nat.add_0_r. reflexivity.
  - cbn [forallb] in Hh. apply andb_prop in Hh. destruct Hh as [Hd Hh]. cbn [length] in Hl.
    cbn [app v6loop andb]. rewrite Hd.
    replace (ln <? 4)%nat with true by (symmetry; apply Nat.ltb_lt; lia).
    cbn [andb]. rewrite IH by (assumption || lia).
    cbn [length]. rewrite Nat.add_succ_r. reflexivity.
Qed.

Lemma isHex58 : isHexDigit 58 = false. Proof. reflexivity. Qed.

Lemma v6loop_piece p rest pi comp addr : p < 65536 -> Nat.eqb pi 8 = false ->
  v6loop (IPv6.lower_hex p ++ rest) pi comp addr None
  = v6loop rest pi comp addr (Some (p, length (IPv6.lower_hex p), IPv6.lower_hex p ++ rest)).
Proof.
  intros Hp H8. destruct (lower_hex_props p Hp) as ([L1 L4] & Hh & Hv).
  destruct (IPv6.lower_hex p) as [|d ds] eqn:E; [cbn in L1; lia|].
  pose proof Hh as Hh'. cbn [forallb] in Hh'. apply andb_prop in Hh'. destruct Hh' as [Hd _].
  cbn [app]. rewrite (v6loop_start d (ds ++ rest) pi comp addr H8 (hex_not_colon d Hd)).
  change (d :: ds ++ rest) with ((d :: ds) ++ rest).
  rewrite v6loop_digits by (assumption || (cbn [length] in *; lia)).
  rewrite Hv. reflexivity.
Qed.

Lemma P_mid p rest pi comp addr : p < 65536 -> Nat.eqb pi 8 = false -> rest <> [] ->
  v6loop (IPv6.lower_hex p ++ 58 :: rest) pi comp addr None
  = v6loop rest (S pi) comp (set_nth addr pi p) None.
Proof.
  intros Hp H8 Hr. rewrite v6loop_piece by assumption.
  cbn [v6loop andb]. rewrite isHex58, andb_false_r.
  change (58 =? 46) with false. change (58 =? 58) with true. cbv iota.
  destruct rest; [congruence|reflexivity].
Qed.

Lemma P_end p pi comp addr : p < 65536 -> Nat.eqb pi 8 = false ->
  v6loop (IPv6.lower_hex p ++ []) pi comp addr None = inl (S pi, comp, set_nth addr pi p).
Proof. intros Hp H8. rewrite v6loop_piece by assumption. reflexivity. Qed.

Lemma P_cc rest pi addr : Nat.eqb pi 8 = false ->
  v6loop (58 :: rest) pi None addr None = v6loop rest (S pi) (Some (S pi)) addr None.
Proof. intros H8. cbn [v6loop andb]. rewrite H8. reflexivity. Qed.

Lemma lower_hex_nonnil p rest : IPv6.lower_hex p ++ rest <> [].
Proof.
  unfold IPv6.lower_hex. cbn [IPv6.hex_fuel]. cbv zeta.
  destruct (p <? 16); [discriminate|].
  destruct (IPv6.hex_fuel (N.size_nat p) (p / 16)); discriminate.
Qed.

Lemma parse_hex_start p rest : p < 65536 ->
  Verif.Model.Host.ipv6_parse (IPv6.lower_hex p ++ rest)
  = m_finish (v6loop (IPv6.lower_hex p ++ rest) 0 None zeros8 None).
Proof.
  intros Hp. destruct (lower_hex_props p Hp) as ([L1 L4] & Hh & Hv).
  destruct (IPv6.lower_hex p) as [|d ds] eqn:E; [cbn in L1; lia|].
  cbn [forallb] in Hh. apply andb_prop in Hh. destruct Hh as [Hd _].
  cbn [app]. apply model_parse_other. apply hex_not_colon. exact Hd.
Qed.

(* ---------- composition ---------- *)
Lemma P_nil pi comp addr : v6loop [] pi comp addr None = inl (pi, comp, addr).
Proof. reflexivity. Qed.
Lemma model_parse_cc rest :
  Verif.Model.Host.ipv6_parse (58 :: 58 :: rest) = m_finish (v6loop rest 1 (Some 1%nat) zeros8 None).
Proof. reflexivity. Qed.

Ltac side := first [assumption | reflexivity | apply lower_hex_nonnil | discriminate].
Ltac phases :=
  repeat first [ rewrite P_mid by side | rewrite P_end by side | rewrite P_cc by side | rewrite P_nil ].
Ltac leaf :=
  first [rewrite parse_hex_start by assumption | rewrite model_parse_cc]; phases; reflexivity.
(* x is the next piece after the compressed position: if it is zero it is skipped as well and the
   analysis continues with k, otherwise the rest of the text is determined *)
Ltac dz x k := destruct x as [|?p]; cbn [N.eqb]; cbv iota; [k | leaf].

Ltac invF := repeat match goal with H : Forall _ (_ :: _) |- _ => inversion H; clear H; subst end.

Lemma rt_model_none a : length a = 8%nat -> Forall (fun p => p < 65536) a ->
  Verif.Model.Host.ipv6_parse (IPv6.ser_loop a 0 None false) = inl a.
Proof.
  intros H F.
  destruct a as [|x0 a]; [discriminate H|]. destruct a as [|x1 a]; [discriminate H|].
  destruct a as [|x2 a]; [discriminate H|]. destruct a as [|x3 a]; [discriminate H|].
  destruct a as [|x4 a]; [discriminate H|]. destruct a as [|x5 a]; [discriminate H|].
  destruct a as [|x6 a]; [discriminate H|]. destruct a as [|x7 a]; [discriminate H|].
  destruct a as [|x8 a]; [|discriminate H]. clear H. invF.
  cbn [IPv6.ser_loop andb Nat.eqb app].
  leaf.
Qed.

Ltac start_i Hz :=
  cbn [nth] in Hz; subst;
  cbn [IPv6.ser_loop andb Nat.eqb app N.eqb].

(* any zero position may be compressed (the serializer picks one by find_compress) *)
Lemma rt_model_some a i : length a = 8%nat -> Forall (fun p => p < 65536) a ->
  (i < 8)%nat -> nth i a 1 = 0 ->
  Verif.Model.Host.ipv6_parse (IPv6.ser_loop a 0 (Some i) false) = inl a.
Proof.
  intros H F Hi Hz.
  destruct a as [|x0 a]; [discriminate H|]. destruct a as [|x1 a]; [discriminate H|].
  destruct a as [|x2 a]; [discriminate H|]. destruct a as [|x3 a]; [discriminate H|].
  destruct a as [|x4 a]; [discriminate H|]. destruct a as [|x5 a]; [discriminate H|].
  destruct a as [|x6 a]; [discriminate H|]. destruct a as [|x7 a]; [discriminate H|].
  destruct a as [|x8 a]; [|discriminate H]. clear H. invF.
  destruct i as [|i].
  { start_i Hz.
    dz x1 ltac:(dz x2 ltac:(dz x3 ltac:(dz x4 ltac:(dz x5 ltac:(dz x6 ltac:(dz x7 ltac:(leaf))))))). }
  destruct i as [|i].
  { start_i Hz. dz x2 ltac:(dz x3 ltac:(dz x4 ltac:(dz x5 ltac:(dz x6 ltac:(dz x7 ltac:(leaf)))))). }
  destruct i as [|i].
  { start_i Hz. dz x3 ltac:(dz x4 ltac:(dz x5 ltac:(dz x6 ltac:(dz x7 ltac:(leaf))))). }
  destruct i as [|i].
  { start_i Hz. dz x4 ltac:(dz x5 ltac:(dz x6 ltac:(dz x7 ltac:(leaf)))). }
  destruct i as [|i].
  { start_i Hz. dz x5 ltac:(dz x6 ltac:(dz x7 ltac:(leaf))). }
  destruct i as [|i].
  { start_i Hz. dz x6 ltac:(dz x7 ltac:(leaf)). }
  destruct i as [|i].
  { start_i Hz. dz x7 ltac:(leaf). }
  destruct i as [|i].
  { start_i Hz. leaf. }
  lia.
Qed.

Theorem ipv6_roundtrip_model : forall a, length a = 8%nat -> Forall (fun p => p < 65536) a ->
  Verif.Model.Host.ipv6_parse (IPv6String a) = inl a.
Proof.
  intros a H F. rewrite (IPv6String_agree a H). unfold IPv6.ipv6_serialize.
  destruct (IPv6.find_compress a 0 None 0) as [i|] eqn:E.
  - apply find_compress_iff in E. destruct E as (E1 & _).
    destruct (run_at_pos a i ltac:(lia)) as [Hi Hz].
    apply rt_model_some; try assumption. lia.
  - apply rt_model_none; assumption.
Qed.

Theorem ipv6_roundtrip : forall a, length a = 8%nat -> Forall (fun p => p < 65536) a ->
  Verif.Spec.IPv6.ipv6_parse (Verif.Spec.IPv6.ipv6_serialize a) = Some a.
Proof.
  intros a H F. rewrite <- ipv6_parse_agree, <- (IPv6String_agree a H).
  rewrite (ipv6_roundtrip_model a H F). reflexivity.
Qed.
Print Assumptions ipv6_roundtrip.
Print Assumptions ipv6_roundtrip_model.

Example ipv6_roundtrip_ex :
  length [1;0;0;2;0;0;0;65535] = 8%nat /\ Forall (fun p => p < 65536) [1;0;0;2;0;0;0;65535].
Proof. split; [reflexivity|]. repeat constructor. Qed.

(* the bound on the pieces is needed: a piece of 17 bits prints as five digits *)
Example ipv6_roundtrip_bound_needed :
  Verif.Spec.IPv6.ipv6_parse (Verif.Spec.IPv6.ipv6_serialize [65536;1;1;1;1;1;1;1]) = None.
Proof. vm_compute. reflexivity. Qed.
