(* N5: skipWindowsDriveLetterNormalization changes the result only for inputs containing '|' (124).
   The normalisation rewrites a drive-letter buffer [a; x] (x = ':' or '|') to [a; ':']: the identity unless x = '|'. *)
From Coq Require Import String.
From Verif Require Import Lib.Base Lib.Utf8 Lib.GoStr Model.Cfg Gen.Tables Gen.Options Model.Sets Model.Percent Model.Url Model.Host Model.Machine Model.Api.
From Verif Require Import Proofs.OptionTable Proofs.Utf8Proofs Proofs.Cleaning Proofs.OptionNeutralBase Proofs.OptionNeutral.
From Coq Require Import Lia ZifyBool ZifyN ZifyNat.
Ltac Zify.zify_post_hook ::= Z.div_mod_to_equations.

(* ---------- the normalisation is the identity on buffers without '|' ---------- *)
Lemma drive_norm_id buf : isWindowsDriveLetter buf = true -> ~ In 124 buf ->
  match buf with b0 :: _ => [b0; 58] | [] => buf end = buf.
Proof.
  intros H N. destruct buf as [|a [|b [|x t]]]; try discriminate H.
  cbn [isWindowsDriveLetter] in H. apply andb_true_iff in H as [_ H]. apply orb_true_iff in H as [H|H].
  - apply N.eqb_eq in H. subst b. reflexivity.
  - apply N.eqb_eq in H. subst b. exfalso. apply N. right; left; reflexivity.
Qed.

Lemma drive_if (g nb : bool) buf : ~ In 124 buf ->
  (if g && isWindowsDriveLetter buf && nb then match buf with b0 :: _ => [b0; 58] | [] => buf end else buf) = buf.
Proof.
  intros N. destruct (g && isWindowsDriveLetter buf && nb) eqn:E; [|reflexivity].
  apply andb_true_iff in E as [E _]. apply andb_true_iff in E as [_ E]. apply drive_norm_id; assumption.
Qed.

Lemma seg_end_skipDrive c b1 b2 u buf sl : ~ In 124 buf ->
  seg_end (with_skipDrive c b1) u buf sl = seg_end (with_skipDrive c b2) u buf sl.
Proof.
  intros N. unfold seg_end. cbv zeta. rewrite !(drive_if _ _ buf N). reflexivity.
Qed.

(* the exact effect: a buffer [a; '|'] *)
Example drive_norm_effect : match [67; 124] with b0 :: _ => [b0; 58] | [] => [67; 124] end = [67; 58].
Proof. reflexivity. Qed.

(* ---------- bytes 124 cannot appear in the buffer unless they are in the input ---------- *)
Definition no124 (inp : list rune) : Prop := forall r, In r inp -> ~ In 124 (rune_bytes r).

Lemma utf8_enc_124 r : In 124 (utf8_enc r) -> r = 124.
Proof.
  intros H. destruct (N.lt_ge_cases r 128) as [L|G].
  - rewrite (utf8_enc_ascii r L) in H. destruct H as [H|[]]. exact H.
  - pose proof (utf8_enc_high r G) as F. rewrite Forall_forall in F. specialize (F _ H). lia.
Qed.

Lemma ascii_lower_124 r : ascii_lower r = 124 -> r = 124.
Proof. unfold ascii_lower, is_upper. destruct ((65 <=? r) && (r <=? 90)) eqn:E; lia. Qed.

Lemma pct_byte_124 b : b < 256 -> ~ In 124 (pct_byte b).
Proof.
  intros Hb H. unfold pct_byte, hex_upper in H.
  destruct H as [H|[H|[H|[]]]]; [discriminate| |].
  - destruct (b / 16 <? 10) eqn:E; lia.
  - destruct (b mod 16 <? 10) eqn:E; lia.
Qed.

Lemma flat_map_pct_124 bs : Forall (fun b => b < 256) bs -> ~ In 124 (flat_map pct_byte bs).
Proof.
  induction 1 as [|b bs Hb _ IH]; [intros []|].
  cbn [flat_map]. intros H. apply in_app_or in H as [H|H]; [exact (pct_byte_124 b Hb H)|exact (IH H)].
Qed.

Lemma per_124 c r tr : r <> 124 -> ~ In 124 (percentEncodeRune c r tr).
Proof.
  intros Hr. unfold percentEncodeRune.
  assert (E : ~ In 124 (if c_latin1 c then pct_byte (fst (latin1_enc r)) else flat_map pct_byte (utf8_enc r))).
  { destruct (c_latin1 c).
    - apply pct_byte_124. unfold latin1_enc. destruct (r <? 256) eqn:L; cbn [fst]; lia.
    - apply flat_map_pct_124, utf8_enc_bytes. }
  destruct tr as [t|]; [|exact E].
  destruct (RuneShouldBeEncoded t r); [exact E|]. intros H. apply Hr, utf8_enc_124, H.
Qed.

Lemma cp_124 inp p : no124 inp -> (if (n_inp inp <=? p)%Z then rune_error else cp_at inp p) <> 124.
Proof.
  intros N. destruct (n_inp inp <=? p)%Z; [discriminate|].
  unfold cp_at. destruct (p <? 0)%Z; [discriminate|].
  destruct (nth_opt inp (Z.to_nat p)) as [x|] eqn:E; [|discriminate].
  apply nth_opt_In in E. specialize (N x E). destruct x as [g|b]; cbn [rv rune_bytes] in *; [|discriminate].
  intros ->. apply N. left; reflexivity.
Qed.

Lemma chunk_124 c inp p e : no124 inp -> chunk c inp p e -> ~ In 124 e.
Proof.
  intros N H. unfold chunk in H. cbv zeta in H. pose proof (cp_124 inp p N) as R.
  destruct H as [->|[->|[->|[[b [Hb ->]]|[tr ->]]]]].
  - intros [].
  - intros H. apply R, utf8_enc_124, H.
  - intros H. apply R, ascii_lower_124, utf8_enc_124, H.
  - unfold rune_at in Hb. destruct (p <? 0)%Z; [discriminate|]. apply nth_opt_In in Hb. exact (N _ Hb).
  - apply per_124, R.
Qed.

(* ---------- the theorem ---------- *)
Section N5.
  Variable idna_raw : str -> str * bool.
  Variable c : cfg.
  Variables b1 b2 : bool.
  Notation c1 := (with_skipDrive c b1).
  Notation c2 := (with_skipDrive c b2).

  Lemma skipDrive_step inp base ov m : ~ In 124 (m_buf m) ->
    step idna_raw c1 inp base ov m = step idna_raw c2 inp base ov m.
  Proof.
    intros H. apply step_eq_simple; try reflexivity; try (intros; reflexivity).
    - repeat split; reflexivity.
    - intros _ u sl _ _. apply seg_end_skipDrive, H.
  Qed.

  Lemma skipDrive_inv inp base ov m m' : no124 inp -> ~ In 124 (m_buf m) ->
    step idna_raw c1 inp base ov m = Cont m' -> ~ In 124 (m_buf m').
  Proof.
    intros N H S. apply step_buf in S. destruct S as [->|[e [-> Hc]]]; [intros []|].
    intros Hin. apply in_app_or in Hin as [Hin|Hin]; [exact (H Hin)|exact (chunk_124 _ _ _ _ N Hc Hin)].
  Qed.

  Theorem skipDrive_neutral_run inp base ov fuel m : no124 inp -> ~ In 124 (m_buf m) ->
    run idna_raw c1 inp base ov fuel m = run idna_raw c2 inp base ov fuel m.
  Proof.
    intros N H. apply (run_sim_eq idna_raw _ _ inp base ov (fun m => ~ In 124 (m_buf m))); auto.
    - intros m0 m' H0 S _. exact (skipDrive_inv inp base ov m0 m' N H0 S).
    - intros m0 H0. apply skipDrive_step, H0.
  Qed.
End N5.

(* a byte string without '|' decodes to runes without '|' *)
Lemma dec1_bytes b0 rest r rest' : dec1 b0 rest = (r, rest') -> b0 :: rest = rune_bytes r ++ rest'.
Proof.
  intros H. destruct r as [g|b]; [exact (dec1_good _ _ _ _ H)|].
  cbn [rune_bytes app]. unfold dec1, in_rng, is_cont in H. cbv zeta in H.
  dec1_split H; inversion H; subst; reflexivity.
Qed.

Lemma decode_bytes s : flat_map rune_bytes (decode s) = s.
Proof.
  apply (decode_ind (fun s d => flat_map rune_bytes d = s)); [reflexivity|].
  intros b0 rest r rest' E IH. cbn [flat_map]. rewrite IH. symmetry. apply dec1_bytes, E.
Qed.

Lemma no124_decode s : ~ In 124 s -> no124 (decode s).
Proof.
  intros H r Hr Hin. apply H. rewrite <- (decode_bytes s). apply in_flat_map. exists r. split; assumption.
Qed.

Theorem skipDrive_neutral idna_raw c b1 b2 x base u0 ov : ~ In 124 (cleaned (c_acceptInvalid c) x u0) ->
  BasicParser idna_raw (with_skipDrive c b1) x base u0 ov = BasicParser idna_raw (with_skipDrive c b2) x base u0 ov.
Proof.
  intros H. apply BasicParser_lift_eq; try reflexivity. intros v i.
  apply skipDrive_neutral_run; [apply no124_decode, H|intros []].
Qed.

Corollary skipDrive_Parse idna_raw c b1 b2 x : ~ In 124 (clean_sv (c_acceptInvalid c) x) ->
  Parse idna_raw (with_skipDrive c b1) x = Parse idna_raw (with_skipDrive c b2) x.
Proof. intros H. apply to_pres_congr, skipDrive_neutral, H. Qed.
Corollary skipDrive_UrlParse idna_raw c b1 b2 bu x : ~ In 124 (clean_sv (c_acceptInvalid c) x) ->
  UrlParse idna_raw (with_skipDrive c b1) bu x = UrlParse idna_raw (with_skipDrive c b2) bu x.
Proof. intros H. apply to_pres_congr, skipDrive_neutral, H. Qed.
Print Assumptions skipDrive_neutral_run.
Print Assumptions skipDrive_neutral.

(* no premise on the base URL is needed: a base path "/C|/x" is never normalised *)
Example skipDrive_premise_ex : ~ In 124 (clean (bs "file:///C:/a/../b"%string)).
Proof. vm_compute. intuition discriminate. Qed.

(* the premise is needed *)
Lemma skipDrive_neutral_refuted : exists x,
  Parse id_idna (with_skipDrive default_cfg true) x <> Parse id_idna (with_skipDrive default_cfg false) x.
Proof. exists (bs "file:///C|/a"%string). vm_compute. discriminate. Qed.
