(* IPv6 parser: the model (Model/Host.v) refines the spec transcription (Spec/IPv6.v); bracket handling of parseHost. *)
From Verif Require Import Lib.Base Lib.Utf8 Lib.GoStr Model.Cfg Gen.Tables Model.Sets Model.Percent Model.Url Model.Host.
From Verif Require Gen.Options Spec.IPv6.
From Verif Require Import Spec.PercentSets Spec.IPv4.
From Coq Require Import Lia ZifyBool ZifyN ZifyNat.

Definition to_opt {A} (r : A + etype) : option A := match r with inl a => Some a | inr _ => None end.

(* ---------- character classes ---------- *)
Lemma isDigit_spec c : isDigit c = ascii_digit c.
Proof.
  unfold isDigit, bs_test, mem, bs_ASCIIDigit, ascii_digit. cbn [existsb]. lia.
Qed.
Lemma isHexDigit_spec c : isHexDigit c = ascii_hex_digit c.
Proof.
  unfold isHexDigit, bs_test, mem, bs_ASCIIHexDigit, ascii_hex_digit, ascii_upper_hex, ascii_digit. cbn [existsb]. lia.
Qed.
Lemma hex_val_digit c : ascii_digit c = true -> hex_val c = digit_value c.
Proof.
  unfold hex_val, digit_value, is_digit, ascii_digit. intros H. rewrite H. reflexivity.
Qed.
Lemma hex_val_hex c : ascii_hex_digit c = true -> hex_val c = digit_value c.
Proof.
  unfold hex_val, digit_value, is_digit, ascii_hex_digit, ascii_upper_hex, ascii_digit. intros H.
  destruct ((48 <=? c) && (c <=? 57)) eqn:E1; [reflexivity|].
  destruct ((65 <=? c) && (c <=? 70)) eqn:E2; [reflexivity|].
  destruct ((97 <=? c) && (c <=? 102)) eqn:E3; [reflexivity|].
  cbn in H. discriminate.
Qed.

(* ---------- address helpers ---------- *)
Lemma set_nth_upd : forall l i v, set_nth l i v = IPv6.upd l i v.
Proof. reflexivity. Qed.
Lemma get_nth_piece l i : get_nth l i = IPv6.piece l i.
Proof. reflexivity. Qed.
Lemma v6swap_swap : forall s a pi c, v6swap a pi c s = IPv6.swap_loop a pi c s.
Proof. reflexivity. Qed.

(* ---------- pointers as splittings of the input ---------- *)
Lemma cpt_app pre l : IPv6.cpt (pre ++ l) (length pre) = hd_error l.
Proof.
  unfold IPv6.cpt. rewrite nth_error_app2 by lia. rewrite Nat.sub_diag. destruct l; reflexivity.
Qed.
Lemma app_step {A} (pre : list A) ch rest : pre ++ ch :: rest = (pre ++ [ch]) ++ rest.
Proof. now rewrite <- app_assoc. Qed.
Lemma len_step {A} (pre : list A) ch : S (length pre) = length (pre ++ [ch]).
Proof. rewrite app_length. cbn. lia. Qed.

(* ---------- the dotted-decimal tail ---------- *)
Definition sp_after (f : nat) (input : list N) (r : option (nat * N)) (seen pi : nat) (addr : list N) :=
  match r with
  | None => None
  | Some (p', v) =>
      let addr := IPv6.upd addr pi (IPv6.piece addr pi * 256 + v) in
      let seen := S seen in
      let pi := if (Nat.eqb seen 2 || Nat.eqb seen 4)%bool then S pi else pi in
      IPv6.v4_parts f input p' seen pi addr
  end.
Definition sp_none (f : nat) (input : list N) (p seen pi : nat) (addr : list N) :=
  if negb (IPv6.is_dig (IPv6.cpt input p)) then None
  else sp_after f input (IPv6.v4_number (S (length input)) input p None) seen pi addr.

Lemma v4_parts_S f input p seen pi addr :
  IPv6.v4_parts (S f) input p seen pi addr =
  match IPv6.cpt input p with
  | None => Some (p, seen, pi, addr)
  | Some _ =>
      match (if (0 <? seen)%nat then
               if IPv6.is_cp (IPv6.cpt input p) 46 && (seen <? 4)%nat then Some (S p) else None
             else Some p) with
      | None => None
      | Some p => sp_none f input p seen pi addr
      end
  end.
Proof. reflexivity. Qed.

Lemma v4_number_S fn input p o :
  IPv6.v4_number (S fn) input p o =
  if IPv6.is_dig (IPv6.cpt input p) then
    let number := IPv6.val (IPv6.cpt input p) in
    match o with
    | None => IPv6.v4_number fn input (S p) (Some number)
    | Some 0 => None
    | Some v => let v' := v * 10 + number in
                if 255 <? v' then None else IPv6.v4_number fn input (S p) (Some v')
    end
  else match o with Some v => Some (p, v) | None => None end.
Proof. reflexivity. Qed.

Definition fin_s (comp : option nat) (r : option (nat*nat*nat*list N)) : option (nat * option nat * list N) :=
  match r with
  | None => None
  | Some (_, seen, pi', addr') => if Nat.eqb seen 4 then Some (pi', comp, addr') else None
  end.
Definition fin_m (comp : option nat) (r : (nat*nat*list N) + etype) : option (nat * option nat * list N) :=
  match r with
  | inr _ => None
  | inl (seen, pi', addr') => if Nat.eqb seen 4 then Some (pi', comp, addr') else None
  end.

Lemma v4_sim_both : forall l,
  (forall pre v seen pi addr fn f comp, (length l < fn)%nat -> (length l < f)%nat ->
     fin_s comp (sp_after f (pre ++ l) (IPv6.v4_number fn (pre ++ l) (length pre) (Some v)) seen pi addr)
     = fin_m comp (v4tail l seen (Some v) pi addr))
  /\
  (forall pre seen pi addr f comp, (length l <= f)%nat ->
     fin_s comp (sp_none f (pre ++ l) (length pre) seen pi addr)
     = fin_m comp (v4tail l seen None pi addr)).
Proof.
  induction l as [|ch rest [IHs IHn]]; split.
  - intros pre v seen pi addr fn f comp Hfn Hf.
    destruct fn as [|fn]; [cbn in Hfn; lia|]. destruct f as [|f]; [cbn in Hf; lia|].
    rewrite v4_number_S, cpt_app. cbn [hd_error IPv6.is_dig].
    cbv beta iota delta [sp_after]. rewrite v4_parts_S, cpt_app. cbn [hd_error].
    cbn [v4tail fin_s fin_m]. reflexivity.
  - intros pre seen pi addr f comp Hf.
    unfold sp_none. rewrite cpt_app. reflexivity.
  - intros pre v seen pi addr fn f comp Hfn Hf.
    destruct fn as [|fn]; [cbn in Hfn; lia|]. destruct f as [|f]; [cbn in Hf; lia|].
    cbn [length] in Hfn, Hf.
    rewrite v4_number_S, cpt_app. cbn [hd_error IPv6.is_dig IPv6.val v4tail].
    rewrite isDigit_spec. destruct (ascii_digit ch) eqn:Ed.
    + rewrite <- (hex_val_digit ch Ed).
      destruct v as [|vp]; [reflexivity|]. cbv zeta.
      change (N.pos vp =? 0) with false. cbv iota.
      destruct (255 <? N.pos vp * 10 + hex_val ch) eqn:E255; [reflexivity|].
      rewrite (app_step pre ch rest), (len_step pre ch). apply IHs; lia.
    + cbv beta iota zeta delta [sp_after]. rewrite v4_parts_S, cpt_app. cbn [hd_error].
      change (0 <? S seen)%nat with true. cbv iota. cbn [IPv6.is_cp].
      destruct ((ch =? 46) && (S seen <? 4)%nat) eqn:Edot; [|reflexivity].
      rewrite (app_step pre ch rest), (len_step pre ch). apply IHn. lia.
  - intros pre seen pi addr f comp Hf. cbn [length] in Hf.
    unfold sp_none. rewrite cpt_app. cbn [hd_error IPv6.is_dig v4tail].
    rewrite isDigit_spec. destruct (ascii_digit ch) eqn:Ed; [|reflexivity].
    cbn [negb]. cbv iota. rewrite v4_number_S, cpt_app. cbn [hd_error IPv6.is_dig IPv6.val].
    rewrite Ed. cbv iota zeta. rewrite <- (hex_val_digit ch Ed).
    rewrite (app_step pre ch rest), (len_step pre ch). apply IHs.
    + rewrite !app_length. cbn [length]. lia.
    + lia.
Qed.

(* top-level statement for the IPv4 tail *)
Lemma v4_sim l pre pi addr comp f : (length l <= f)%nat ->
  fin_s comp (IPv6.v4_parts (S f) (pre ++ l) (length pre) 0 pi addr) = fin_m comp (v4tail l 0 None pi addr).
Proof.
  intros Hf. rewrite v4_parts_S, cpt_app. destruct l as [|ch rest]; [reflexivity|].
  cbn [hd_error]. change (0 <? 0)%nat with false. cbv iota.
  apply (proj2 (v4_sim_both (ch :: rest))). exact Hf.
Qed.

(* ---------- the main loop ---------- *)
Definition sp_piece (f : nat) (input : list N) (r : nat * N * nat) (pieceIndex : nat) (compress : option nat) (addr : list N) :=
  let '(p', value, len) := r in
  if IPv6.is_cp (IPv6.cpt input p') 46 then
    if Nat.eqb len 0 then None
    else
      if (6 <? pieceIndex)%nat then None
      else fin_s compress (IPv6.v4_parts (S (length input)) input (p' - len)%nat 0 pieceIndex addr)
  else if IPv6.is_cp (IPv6.cpt input p') 58 then
    match IPv6.cpt input (S p') with
    | None => None
    | Some _ => IPv6.main_loop f input (S p') (S pieceIndex) compress (IPv6.upd addr pieceIndex value)
    end
  else match IPv6.cpt input p' with
       | Some _ => None
       | None => IPv6.main_loop f input p' (S pieceIndex) compress (IPv6.upd addr pieceIndex value)
       end.

Lemma main_loop_S f input p pi comp addr :
  IPv6.main_loop (S f) input p pi comp addr =
  match IPv6.cpt input p with
  | None => Some (pi, comp, addr)
  | Some c =>
      if Nat.eqb pi 8 then None
      else if c =? 58 then
        match comp with
        | Some _ => None
        | None => IPv6.main_loop f input (S p) (S pi) (Some (S pi)) addr
        end
      else sp_piece f input (IPv6.hex_piece 4 input p 0 0) pi comp addr
  end.
Proof. reflexivity. Qed.

Lemma hex_piece_S k input p v ln :
  IPv6.hex_piece (S k) input p v ln =
  if (ln <? 4)%nat && IPv6.is_hex (IPv6.cpt input p)
  then IPv6.hex_piece k input (S p) (v * 16 + IPv6.val (IPv6.cpt input p)) (S ln)
  else (p, v, ln).
Proof. reflexivity. Qed.

Lemma hex_piece_stop k input p v ln :
  (ln <? 4)%nat && IPv6.is_hex (IPv6.cpt input p) = false ->
  IPv6.hex_piece k input p v ln = (p, v, ln).
Proof. intros H. destruct k; [reflexivity|]. rewrite hex_piece_S, H. reflexivity. Qed.

Lemma fin_m_to_opt comp (r : (nat*nat*list N) + etype) :
  to_opt (match r with
          | inr e => inr e
          | inl (seen, pi', addr') =>
              if Nat.eqb seen 4 then inl (pi', comp, addr') else inr IPv4InIPv6TooFewParts
          end) = fin_m comp r.
Proof. destruct r as [[[seen pi'] addr']|e]; [|reflexivity]. cbn. destruct (Nat.eqb seen 4); reflexivity. Qed.

Definition MainStmt (l : list N) : Prop :=
  forall pre fuel pi comp addr, (length l < fuel)%nat ->
    IPv6.main_loop fuel (pre ++ l) (length pre) pi comp addr = to_opt (v6loop l pi comp addr None).

Lemma piece_sim : forall l,
  (forall l', (length l' < length l)%nat -> MainStmt l') ->
  forall pre0 digs v pi comp addr f k,
    (4 <= k + length digs)%nat -> (length l <= f)%nat -> (0 < f)%nat ->
    sp_piece f ((pre0 ++ digs) ++ l)
      (IPv6.hex_piece k ((pre0 ++ digs) ++ l) (length (pre0 ++ digs)) v (length digs)) pi comp addr
    = to_opt (v6loop l pi comp addr (Some (v, length digs, digs ++ l))).
Proof.
  induction l as [|ch rest IH]; intros IHmain pre0 digs v pi comp addr f k Hk Hf Hf0.
  - rewrite hex_piece_stop.
    2:{ rewrite cpt_app. cbn [hd_error IPv6.is_hex]. apply andb_false_r. }
    cbv beta iota delta [sp_piece]. rewrite cpt_app. cbn [hd_error IPv6.is_cp].
    destruct f as [|f]; [lia|]. rewrite main_loop_S, cpt_app. reflexivity.
  - cbn [v6loop andb].
    destruct ((length digs <? 4)%nat && isHexDigit ch) eqn:Ehex.
    + destruct k as [|k]; [lia|].
      rewrite hex_piece_S, cpt_app. cbn [hd_error IPv6.is_hex IPv6.val].
      rewrite isHexDigit_spec in Ehex. rewrite Ehex.
      apply andb_prop in Ehex. destruct Ehex as [Eln Eh].
      rewrite <- (hex_val_hex ch Eh).
      rewrite (app_step (pre0 ++ digs) ch rest), (len_step (pre0 ++ digs) ch).
      rewrite <- (app_assoc pre0 digs [ch]).
      rewrite (app_step digs ch rest).
      replace (S (length digs)) with (length (digs ++ [ch])) by (rewrite app_length; cbn; lia).
      apply IH.
      * intros l' Hl'. apply IHmain. cbn [length]. lia.
      * rewrite app_length. cbn [length]. lia.
      * cbn [length] in Hf. lia.
      * exact Hf0.
    + rewrite hex_piece_stop.
      2:{ rewrite cpt_app. cbn [hd_error IPv6.is_hex]. rewrite <- isHexDigit_spec. exact Ehex. }
      cbv beta iota delta [sp_piece]. rewrite cpt_app. cbn [hd_error IPv6.is_cp].
      destruct (ch =? 46) eqn:E46.
      * destruct (Nat.eqb (length digs) 0) eqn:E0; [reflexivity|].
        destruct (6 <? pi)%nat eqn:E6; [reflexivity|].
        rewrite fin_m_to_opt.
        replace (length (pre0 ++ digs) - length digs)%nat with (length pre0) by (rewrite app_length; lia).
        rewrite <- (app_assoc pre0 digs (ch :: rest)).
        apply v4_sim. rewrite !app_length. lia.
      * destruct (ch =? 58) eqn:E58; [|reflexivity].
        rewrite (app_step (pre0 ++ digs) ch rest), (len_step (pre0 ++ digs) ch), cpt_app.
        destruct rest as [|c2 rest2]; [reflexivity|]. cbn [hd_error].
        apply IHmain; cbn [length] in *; lia.
Qed.

Lemma v6loop_start ch rest pi comp addr :
  Nat.eqb pi 8 = false -> (ch =? 58) = false ->
  v6loop (ch :: rest) pi comp addr None = v6loop (ch :: rest) pi comp addr (Some (0, O, ch :: rest)).
Proof. intros E8 E58. cbn [v6loop andb]. rewrite E8, E58. reflexivity. Qed.

Lemma main_sim : forall n l, (length l < n)%nat -> MainStmt l.
Proof.
  induction n as [|n IHn]; intros l Hn; [lia|].
  intros pre fuel pi comp addr Hfuel.
  destruct fuel as [|f]; [lia|]. rewrite main_loop_S, cpt_app.
  destruct l as [|ch rest]; [reflexivity|]. cbn [hd_error].
  destruct (Nat.eqb pi 8) eqn:E8.
  { cbn [v6loop andb]. rewrite E8. reflexivity. }
  destruct (ch =? 58) eqn:E58.
  { cbn [v6loop andb]. rewrite E8, E58. destruct comp as [c|]; [reflexivity|].
    rewrite (app_step pre ch rest), (len_step pre ch).
    apply (IHn rest); cbn [length] in *; lia. }
  rewrite (v6loop_start ch rest pi comp addr E8 E58).
  pose proof (piece_sim (ch :: rest)) as HP.
  specialize (HP (fun l' Hl' => IHn l' ltac:(cbn [length] in *; lia))).
  specialize (HP pre [] 0 pi comp addr f 4%nat).
  cbn [length app] in HP. rewrite app_nil_r in HP. apply HP; cbn [length] in *; lia.
Qed.

(* ---------- the entry points ---------- *)
Definition m_finish (r : (nat * option nat * list N) + etype) : list N + etype :=
  match r with
  | inr e => inr e
  | inl (pi, Some comp, addr) => inl (v6swap addr 7 comp (pi - comp))
  | inl (pi, None, addr) => if Nat.eqb pi 8 then inl addr else inr IPv6TooFewPieces
  end.
Definition s_finish (r : option (nat * option nat * list N)) : option (list N) :=
  match r with
  | None => None
  | Some (pieceIndex, Some comp, addr) => Some (IPv6.swap_loop addr 7 comp (pieceIndex - comp))
  | Some (pieceIndex, None, addr) => if Nat.eqb pieceIndex 8 then Some addr else None
  end.

Lemma finish_agree r : to_opt (m_finish r) = s_finish (to_opt r).
Proof.
  destruct r as [[[pi [c|]] addr]|e]; try reflexivity.
  cbn. destruct (Nat.eqb pi 8); reflexivity.
Qed.

Lemma match58 {A} (a : N) (X Y : A) :
  (a =? 58) = false ->
  match a with 58 => X | _ => Y end = Y.
Proof.
  intros H. destruct a as [|p]; [reflexivity|].
  do 6 (destruct p as [p|p|]; try reflexivity). discriminate H.
Qed.

Lemma model_parse_other a l : (a =? 58) = false ->
  Verif.Model.Host.ipv6_parse (a :: l) = m_finish (v6loop (a :: l) 0 None zeros8 None).
Proof.
  intros H. destruct a as [|p]; [reflexivity|].
  do 6 (destruct p as [p|p|]; try reflexivity). discriminate H.
Qed.
Lemma spec_parse_other a l : (a =? 58) = false ->
  Verif.Spec.IPv6.ipv6_parse (a :: l) =
  s_finish (IPv6.main_loop (S (length (a :: l))) (a :: l) 0 0 None IPv6.zero8).
Proof.
  intros H. destruct a as [|p]; [reflexivity|].
  do 6 (destruct p as [p|p|]; try reflexivity). discriminate H.
Qed.
Lemma model_parse_58 b l : (b =? 58) = false ->
  Verif.Model.Host.ipv6_parse (58 :: b :: l) = inr IPv6InvalidCompression.
Proof.
  intros H. destruct b as [|p]; [reflexivity|].
  do 6 (destruct p as [p|p|]; try reflexivity). discriminate H.
Qed.
Lemma spec_parse_58 b l : (b =? 58) = false ->
  Verif.Spec.IPv6.ipv6_parse (58 :: b :: l) = None.
Proof.
  intros H. destruct b as [|p]; [reflexivity|].
  do 6 (destruct p as [p|p|]; try reflexivity). discriminate H.
Qed.

Theorem ipv6_parse_agree : forall l,
  (match Verif.Model.Host.ipv6_parse l with inl a => Some a | inr _ => None end)
  = Verif.Spec.IPv6.ipv6_parse l.
Proof.
  intros l. change (to_opt (Verif.Model.Host.ipv6_parse l) = Verif.Spec.IPv6.ipv6_parse l).
  destruct l as [|a l]; [reflexivity|].
  destruct (a =? 58) eqn:Ea.
  - apply N.eqb_eq in Ea. subst a.
    destruct l as [|b l]; [reflexivity|].
    destruct (b =? 58) eqn:Eb.
    + apply N.eqb_eq in Eb. subst b.
      change (to_opt (m_finish (v6loop l 1 (Some 1%nat) zeros8 None)) =
              s_finish (IPv6.main_loop (S (length (58 :: 58 :: l))) ([58; 58] ++ l) (length [58; 58]) 1 (Some 1%nat) IPv6.zero8)).
      rewrite finish_agree. f_equal. symmetry.
      apply (main_sim (S (length l))); cbn [length]; lia.
    + rewrite model_parse_58, spec_parse_58 by exact Eb. reflexivity.
  - rewrite model_parse_other, spec_parse_other by exact Ea.
    rewrite finish_agree. f_equal. symmetry.
    apply (main_sim (S (length (a :: l))) (a :: l) ltac:(lia) []). lia.
Qed.
Print Assumptions ipv6_parse_agree.

Example ipv6_parse_agree_ex :
  Verif.Model.Host.ipv6_parse [49;58;50;58;58;51] = inl [1;2;0;0;0;0;0;3]
  /\ Verif.Spec.IPv6.ipv6_parse [49;58;50;58;58;51] = Some [1;2;0;0;0;0;0;3]
  /\ Verif.Model.Host.ipv6_parse [58;58;49;46;50;46;51;46;52] = inl [0;0;0;0;0;0;258;772]
  /\ Verif.Spec.IPv6.ipv6_parse [58;58;49;46;50;46;51;46;52] = Some [0;0;0;0;0;0;258;772].
Proof. vm_compute. repeat split. Qed.

(* ---------- brackets in parseHost ---------- *)
Definition unclosed_err (u : url) : verr :=
  {| e_type := IPv6Unclosed; e_failure := true; e_url := u_input u |}.

Theorem parseHost_brackets : forall idna c u t isNotSpecial,
  apply_hostfun (c_pre c) (91 :: t) = 91 :: t ->
  parseHost idna c u (91 :: t) isNotSpecial =
    if has_suffix [93] (91 :: t) then parseIPv6 c u (drop_last t)
    else Er (if c_report c then set_verrs u (u_verrs u ++ [unclosed_err u]) else u) (unclosed_err u).
Proof.
  intros idna c u t isNotSpecial Hpre.
  unfold parseHost. rewrite Hpre. cbv zeta iota. cbn [tl].
  destruct (has_suffix [93] (91 :: t)); reflexivity.
Qed.
Print Assumptions parseHost_brackets.

Lemma has_suffix_93 s : has_suffix [93] s = true <-> exists s', s = s' ++ [93].
Proof.
  unfold has_suffix. cbn [rev app]. split.
  - intros H. destruct (rev s) as [|x r] eqn:E; [discriminate H|].
    cbn [has_prefix] in H. apply andb_prop in H. destruct H as [H _]. apply N.eqb_eq in H. subst x.
    exists (rev r). rewrite <- (rev_involutive s), E. reflexivity.
  - intros [s' ->]. rewrite rev_app_distr. reflexivity.
Qed.

(* exactly one pair of brackets is stripped *)
Corollary parseHost_brackets_closed : forall idna c u t' isNotSpecial,
  c_pre c = HF_none ->
  parseHost idna c u (91 :: t' ++ [93]) isNotSpecial = parseIPv6 c u t'.
Proof.
  intros idna c u t' isNotSpecial Hpre.
  rewrite parseHost_brackets by (rewrite Hpre; reflexivity).
  replace (has_suffix [93] (91 :: t' ++ [93])) with true.
  2:{ symmetry. apply has_suffix_93. exists (91 :: t'). reflexivity. }
  unfold drop_last. rewrite removelast_last. reflexivity.
Qed.

Corollary parseHost_brackets_unclosed : forall idna c u t isNotSpecial,
  c_pre c = HF_none -> has_suffix [93] (91 :: t) = false ->
  exists u', parseHost idna c u (91 :: t) isNotSpecial = Er u' (unclosed_err u).
Proof.
  intros idna c u t isNotSpecial Hpre Hs.
  rewrite parseHost_brackets by (rewrite Hpre; reflexivity). rewrite Hs. eexists. reflexivity.
Qed.

Example parseHost_brackets_ex :
  apply_hostfun (c_pre Options.default_cfg) [91;58;58;49;93] = [91;58;58;49;93].
Proof. reflexivity. Qed.
