(* Round trip, part 6 (S6): SERIALIZE-THEN-PARSE IS THE IDENTITY on well-formed, stable URL records.

     roundtrip : cfg_rt c = true -> Inv c u -> Stable idna_raw c u -> Href u false = Some s ->
                 Parse idna_raw c s = PUrl (rt_url u s)

   [rt_url u s] is [u] with input [s], no validation errors and no searchParams object; in particular
   [same_components (rt_url u s) u].  The stability conditions are exactly those that have a counterexample
   below ([*_needed]).  *)
From Verif Require Import Lib.Base Lib.Utf8 Lib.GoStr Model.Cfg Gen.Tables Gen.Options Model.Sets Model.Percent
  Model.Url Model.Host Model.Machine Model.Api Model.Preds.
From Verif Require Import Proofs.SetsProofs Proofs.Cleaning Proofs.PhaseLemmas Proofs.RecordInv Proofs.IPv6Host
  Proofs.MachineInv
  Proofs.RoundTripBase Proofs.RoundTripPhases Proofs.RoundTripOpaque Proofs.RoundTripHostless Proofs.RoundTripHostShape
  Proofs.RoundTripSpecial Proofs.RoundTripFile.
From Coq Require Import Lia ZifyBool ZifyN ZifyNat.

Local Arguments N.mul : simpl never.
Local Arguments N.add : simpl never.
Local Arguments N.sub : simpl never.
Local Arguments N.eqb : simpl never.
Local Arguments N.ltb : simpl never.
Local Arguments N.leb : simpl never.

(* the stability conditions: the boolean part, and the host being a fixed point of the host parser *)
Definition Stable (idna_raw : str -> str * bool) (c : cfg) (u : url) : Prop :=
  stable_b c u = true /\ host_fixed idna_raw c u.

Section Main.
  Variable idna_raw : str -> str * bool.
  Variable c : cfg.
  Hypothesis Hc : cfg_rt c = true.

  Let R : CfgRT c := cfg_rt_sound c Hc.

  Theorem roundtrip_strong u s :
    Inv c u -> Stable idna_raw c u -> Href u false = Some s -> Parse idna_raw c s = PUrl (rt_url u s).
  Proof.
    intros Hi [Hst Hfix] Hh.
    destruct (u_opaque u) eqn:Ho.
    - apply (roundtrip_opaque idna_raw c R u s Hi Ho Hst Hh).
    - destruct (u_host u) as [h|] eqn:Eh.
      + destruct (str_eqb (u_scheme u) s_file) eqn:Ef.
        * apply (roundtrip_file idna_raw c R u s Hi Ef Hst Hfix Hh).
        * apply (roundtrip_host_nonfile idna_raw c R u s Hi Ho); try assumption. rewrite Eh. discriminate.
      + apply (roundtrip_nonspecial_hostless idna_raw c R u s Hi Ho Eh Hst Hh).
  Qed.

  Theorem roundtrip u s :
    Inv c u -> Stable idna_raw c u -> Href u false = Some s ->
    exists u', Parse idna_raw c s = PUrl u' /\ same_components u' u.
  Proof.
    intros Hi Hs Hh. exists (rt_url u s). split; [apply roundtrip_strong; assumption|apply rt_url_same].
  Qed.

  (* a well-formed record always has a serialization *)
  Lemma Href_exists u : Inv c u -> exists s, Href u false = Some s.
  Proof.
    intros Hi. unfold Href, Pathname, path_string. destruct (u_opaque u) eqn:Ho.
    - destruct (I_opaque _ _ Hi Ho) as [_ [s0 [Hp _]]]. rewrite Hp. cbn [nth_opt]. eexists. reflexivity.
    - eexists. reflexivity.
  Qed.

  (* the serialization of the re-parsed record is the same string: Href is a fixed point of parse-then-serialize *)
  Corollary roundtrip_href u s :
    Inv c u -> Stable idna_raw c u -> Href u false = Some s ->
    exists u', Parse idna_raw c s = PUrl u' /\ Href u' false = Some s.
  Proof.
    intros Hi Hs Hh. exists (rt_url u s). split; [apply roundtrip_strong; assumption|].
    rewrite <- Hh. reflexivity.
  Qed.
End Main.

Print Assumptions roundtrip_strong.
Print Assumptions roundtrip.
Print Assumptions roundtrip_href.

(* ------------------------------------------------------------------------------------------ *)
(* hosts that are fixed points of the host parser                                               *)
(* ------------------------------------------------------------------------------------------ *)

(* a serialized IPv6 address *)
Lemma host_fixed_ipv6 idna_raw c u a :
  c_pre c = HF_none -> u_host u = Some ([91] ++ IPv6String a ++ [93]) ->
  length a = 8%nat -> Forall (fun p => p < 65536) a -> host_fixed idna_raw c u.
Proof.
  intros Hpre Hh Hl Ha h E u0. rewrite Hh in E. injection E as <-.
  apply parseHost_ipv6_idempotent; assumption.
Qed.

(* an opaque host (non-special scheme) all of whose bytes are printable ASCII other than the forbidden host
   code points: nothing to encode, nothing to reject *)
Lemma opaque_loop_id c (Hrep : c_report c = false) (Hfail : c_fail c = false) u input : forall l out,
  forallb (fun b => negb (isForbiddenHost b)) l = true -> none_in pes_C0 l = true ->
  opaque_loop c u input l out = Ok u (out ++ l).
Proof.
  induction l as [|ch l IH]; intros out H1 H2; [rewrite app_nil_r; reflexivity|].
  cbn [forallb] in H1. apply andb_true_iff in H1. destruct H1 as [Hf H1]. apply negb_true_iff in Hf.
  apply none_in_cons in H2. destruct H2 as [He H2].
  cbn [opaque_loop]. rewrite Hf.
  assert (Hq : forall t (k : url -> res str), herr c u t false k = k u).
  { intros t k. unfold herr. rewrite (handleError_quiet c Hrep Hfail). reflexivity. }
  destruct (negb (isURLCodePoint ch) && negb (ch =? 37)); destruct ((ch =? 37) && invalid_pct (ch :: l));
    rewrite ?Hq; rewrite (pe_id c _ ch He), (IH _ H1 H2), <- app_assoc; reflexivity.
Qed.

Lemma host_fixed_opaque idna_raw c u h :
  c_report c = false -> c_fail c = false -> c_pre c = HF_none ->
  IsSpecialScheme c u = false -> u_host u = Some h ->
  forallb (fun b => negb (isForbiddenHost b)) h = true -> none_in pes_C0 h = true ->
  host_fixed idna_raw c u.
Proof.
  intros Hrep Hfail Hpre Hsp Hh Hf Hn h' E u0. rewrite Hh in E. injection E as <-. rewrite Hsp. cbn [negb].
  rewrite (parseHost_eq idna_raw c u0 h true), Hpre. cbn [apply_hostfun].
  destruct h as [|x r]; [reflexivity|].
  assert (Hx : (x =? 91) = false).
  { cbn [forallb] in Hf. apply andb_true_iff in Hf. destruct Hf as [Hf _].
    destruct (x =? 91) eqn:E; [|reflexivity]. apply N.eqb_eq in E. subst x. discriminate Hf. }
  rewrite Hx. unfold parseOpaqueHost.
  assert (Hsm : Forall (fun b => b < 128) (x :: r)).
  { apply printable_small. apply (none_in_printable pes_C0); [reflexivity|exact Hn]. }
  rewrite (Utf8Proofs.runes_ascii _ Hsm). apply (opaque_loop_id c Hrep Hfail u0 (x :: r) (x :: r) [] Hf Hn).
Qed.

(* for a non-special scheme [Inv] already makes every host that is not bracketed a fixed point *)
Lemma host_fixed_nonspecial idna_raw c u :
  cfg_rt c = true -> Inv c u -> IsSpecialScheme c u = false ->
  (forall h, u_host u = Some h -> is_bracketed h = false) -> host_fixed idna_raw c u.
Proof.
  intros Hc Hi Hsp Hnb. pose proof (cfg_rt_sound c Hc) as R. intros h Hh.
  destruct (I_host _ _ Hi h Hh) as [Hok Hpr]. rewrite Hsp in Hok. unfold host_ok in Hok. rewrite (Hnb h Hh) in Hok.
  cbn [orb] in Hok.
  assert (Hn : none_in pes_C0 h = true).
  { unfold none_in. revert Hpr. apply forallb_impl. intros x Hx. apply negb_true_iff.
    unfold RuneShouldBeEncoded, printable in *. cbn [pes_C0 ab bits bs_test mem existsb]. lia. }
  exact (host_fixed_opaque idna_raw c u h (R_rep c R) (R_fail c R) (R_pre c R) Hsp Hh Hok Hn h Hh).
Qed.

Print Assumptions host_fixed_ipv6.
Print Assumptions host_fixed_opaque.
Print Assumptions host_fixed_nonspecial.

(* ------------------------------------------------------------------------------------------ *)
(* reportValidationErrors is irrelevant                                                         *)
(* ------------------------------------------------------------------------------------------ *)
From Verif Require Import Proofs.DiagBase Proofs.Diagnostics.

Lemma with_report_self c : with_report c (c_report c) = c.
Proof. destruct c. reflexivity. Qed.

Lemma Inv_with_report c b u : Inv c u -> Inv (with_report c b) u.
Proof. intros [H1 H2 H3 H4 H5 H6 H7 H8 H9 H10 H11 H12]. constructor; assumption. Qed.

(* the round trip for a parser that records validation errors: the same components (the parse result may carry
   validation errors, e.g. for a space in an opaque path) *)
Theorem roundtrip_reporting idna_raw c u s :
  cfg_rt (with_report c false) = true ->
  Inv c u -> stable_b c u = true -> host_fixed idna_raw (with_report c false) u -> Href u false = Some s ->
  exists u', Parse idna_raw c s = PUrl u' /\ same_components u' u.
Proof.
  intros Hc Hi Hst Hfix Hh.
  pose proof (roundtrip_strong idna_raw (with_report c false) Hc u s (Inv_with_report c false u Hi)
                (conj Hst Hfix) Hh) as Hp.
  pose proof (Parse_report_neutral idna_raw c (c_report c) false s) as Hn.
  rewrite with_report_self, Hp in Hn.
  destruct (Parse idna_raw c s) as [u'| | | |]; try contradiction Hn.
  exists u'. split; [reflexivity|]. unfold pres_eqv, eqv in Hn.
  assert (E : forall (f : url -> url) , f (set_verrs u' []) = f (set_verrs (rt_url u s) [])) by (intros f; rewrite Hn; reflexivity).
  unfold same_components. repeat split.
  - apply (f_equal u_scheme Hn).
  - apply (f_equal u_username Hn).
  - apply (f_equal u_password Hn).
  - apply (f_equal u_host Hn).
  - apply (f_equal u_port Hn).
  - apply (f_equal u_decodedPort Hn).
  - apply (f_equal u_path Hn).
  - apply (f_equal u_opaque Hn).
  - apply (f_equal u_query Hn).
  - apply (f_equal u_fragment Hn).
Qed.

Print Assumptions roundtrip_reporting.
