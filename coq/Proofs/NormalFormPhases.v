(* Normal form of ordinary web URLs, part 1: generalisations of the phase lemmas of RoundTripPhases.v
   (mixed-case schemes, arbitrary host parser results and failures, arbitrary digit strings as port, dot segments,
   queries and fragments that need encoding), and runs that end in an error. *)
From Verif Require Import Lib.Base Lib.Utf8 Lib.GoStr Model.Cfg Gen.Tables Gen.Options Model.Sets Model.Percent
  Model.Url Model.Host Model.Machine Model.Api Model.Preds.
From Verif Require Import Proofs.SetsProofs Proofs.Cleaning Proofs.PhaseLemmas Proofs.RecordInv Proofs.Termination
  Proofs.RoundTripBase Proofs.RoundTripDecimal Proofs.RoundTripPhases.
From Verif Require Proofs.Utf8Proofs.
From Coq Require Import Lia ZifyBool ZifyN ZifyNat.

Local Arguments N.mul : simpl never.
Local Arguments N.add : simpl never.
Local Arguments N.sub : simpl never.
Local Arguments N.eqb : simpl never.
Local Arguments N.ltb : simpl never.
Local Arguments N.leb : simpl never.

Lemma schemechar_small x : is_schemechar x = true -> x < 128 /\ ascii_lower x < 128.
Proof.
  intros H. assert (Hx : x < 128).
  { destruct (x <? 128) eqn:E; [lia|]. exfalso. unfold is_schemechar, isAlnum in H.
    rewrite (bs_test_small bs_ASCIIAlphanumeric x ltac:(vm_compute; reflexivity) ltac:(lia)) in H. lia. }
  split; [exact Hx|]. unfold ascii_lower, is_upper. destruct ((65 <=? x) && (x <=? 90)) eqn:E; lia.
Qed.

Lemma alpha_small x : isAlpha x = true -> x < 128 /\ ascii_lower x < 128.
Proof.
  intros H. assert (Hx : x < 128).
  { destruct (x <? 128) eqn:E; [lia|]. exfalso. unfold isAlpha in H.
    rewrite (bs_test_small bs_ASCIIAlpha x ltac:(vm_compute; reflexivity) ltac:(lia)) in H. discriminate. }
  split; [exact Hx|]. unfold ascii_lower, is_upper. destruct ((65 <=? x) && (x <=? 90)) eqn:E; lia.
Qed.

(* the text of a scheme, in any letter case *)
Definition scheme_text (s : str) : bool :=
  match s with a :: r => isAlpha a && forallb is_schemechar r | [] => false end.

(* the result of a parse with a query and a fragment that the machine encodes *)
Definition tail_res (c : cfg) (u : url) (oq of : option str) : url :=
  let u1 := match oq with Some q => set_query u (Some (enc_with c (queryset c u) q)) | None => u end in
  match of with Some f => set_fragment u1 (Some (enc_with c (fragset c u) f)) | None => u1 end.

Section NFPhases.
  Variable idna_raw : str -> str * bool.
  Variable c : cfg.
  Hypothesis Hrep : c_report c = false.
  Hypothesis Hfail : c_fail c = false.
  Variable inp : list rune.

  Notation n := (n_inp inp).
  Notation stepf := (step idna_raw c inp None None).
  Notation runf := (run idna_raw c inp None None).
  Notation cp := (cp_at inp).
  Notation rest := (rest_from inp).
  Notation reaches := (reaches idna_raw c inp).
  Notation finishes := (finishes idna_raw c inp).
  Notation rest_uncons := (rest_uncons inp).
  Notation rest_empty := (rest_empty inp).
  Notation rest_app := (rest_app inp).
  Notation reaches_refl := (reaches_refl idna_raw c Hrep Hfail inp).
  Notation reaches_trans := (reaches_trans idna_raw c Hrep Hfail inp).
  Notation reaches_step := (reaches_step idna_raw c Hrep Hfail inp).
  Notation reaches_eq := (reaches_eq idna_raw c Hrep Hfail inp).
  Notation finishes_step := (finishes_step idna_raw c Hrep Hfail inp).
  Notation reaches_finishes := (reaches_finishes idna_raw c Hrep Hfail inp).
  Notation finishes_eq := (finishes_eq idna_raw c Hrep Hfail inp).

  Ltac unfold_step :=
    cbv beta iota zeta delta [step mk m_state m_ptr m_eof m_buf m_at m_br m_pw m_url overridden is_some].

  (* ---------------- runs that end, with a record or with an error ---------------- *)
  Definition ends (m : mstate) (r : result) : Prop := exists k, runf k m = r /\ r <> ROutOfFuel.

  Lemma reaches_ends m m' r : reaches m m' -> ends m' r -> ends m r.
  Proof using Hrep Hfail. intros [k1 H1] [k2 [H2 H3]]. exists (k1 + k2)%nat. rewrite H1. auto. Qed.

  Lemma finishes_ends m u : finishes m u -> ends m (RUrl u).
  Proof using Hrep Hfail. intros [k H]. exists k. split; [exact H|discriminate]. Qed.

  Lemma ends_step_err m u e : stepf m = RetErr u e -> ends m (RErr u e).
  Proof using Hrep Hfail. intros H. exists 1%nat. split; [apply run_err; exact H|discriminate]. Qed.

  Lemma ends_fuel st0 u r :
    ends (mk st0 (-1) false [] false false false u) r ->
    runf (fuel_of (length inp)) (mk st0 (-1) false [] false false false u) = r.
  Proof using Hrep Hfail.
    intros [k [H Hr]].
    pose proof (run_never_out_of_fuel idna_raw c inp None None st0 u) as Hne.
    rewrite <- (run_mono idna_raw c inp None None _ k _ Hne).
    rewrite Nat.add_comm. rewrite run_mono by (rewrite H; exact Hr). exact H.
  Qed.

  (* ---------------- the scheme, in any letter case ---------------- *)
  Lemma scheme_loop_mixed : forall l p buf a br pw u tl,
    (-1 <= p)%Z -> rest (p + 1) = l ++ tl -> forallb is_schemechar l = true ->
    reaches (mk Scheme p false buf a br pw u) (mk Scheme (p + len l) false (buf ++ str_lower l) a br pw u).
  Proof using Hrep Hfail.
    induction l as [|x l IH]; intros p buf a br pw u tl Hp Hr Hl.
    - rewrite len_nil, Z.add_0_r. cbn [str_lower map]. rewrite app_nil_r. apply reaches_refl.
    - cbn [forallb] in Hl. apply andb_true_iff in Hl. destruct Hl as [Hx Hl].
      cbn [app] in Hr. destruct (rest_uncons (p + 1)%Z x _ ltac:(lia) Hr) as [Hc [Hr' Hn]].
      destruct (schemechar_small x Hx) as [F1 F2].
      eapply reaches_trans.
      + eapply reaches_step; [apply (step_scheme_char idna_raw c Hrep Hfail); rewrite Hc; exact Hx|reflexivity].
      + rewrite Hc. rewrite (Utf8Proofs.utf8_enc_ascii _ F2).
        eapply reaches_eq; [apply (IH (p + 1)%Z _ a br pw u tl ltac:(lia) Hr' Hl)|].
        rewrite len_cons, <- app_assoc. cbn [app str_lower map]. f_equal. lia.
  Qed.

  Theorem scheme_phase_mixed sch tl a br pw u :
    rest 0 = sch ++ 58 :: tl -> scheme_text sch = true ->
    reaches (mk SchemeStart (-1) false [] a br pw u) (mk Scheme (len sch - 1) false (str_lower sch) a br pw u).
  Proof using Hrep Hfail.
    intros Hr Hs. destruct sch as [|x sch]; [discriminate|]. unfold scheme_text in Hs.
    apply andb_true_iff in Hs. destruct Hs as [Hx Hs].
    cbn [app] in Hr. destruct (rest_uncons 0%Z x _ ltac:(lia) Hr) as [Hc [Hr' Hn]].
    destruct (alpha_small x Hx) as [F1 F2].
    eapply reaches_trans.
    - eapply reaches_step; [apply (step_schemestart_alpha idna_raw c Hrep Hfail); rewrite Hc; exact Hx|reflexivity].
    - rewrite Hc, (Utf8Proofs.utf8_enc_ascii _ F2). cbn [app].
      eapply reaches_eq; [apply (scheme_loop_mixed sch 0%Z [ascii_lower x] a br pw u (58 :: tl) ltac:(lia) Hr' Hs)|].
      rewrite len_cons. cbn [app str_lower map]. f_equal. lia.
  Qed.

  (* ---------------- the host: any result of the host parser, or its failure ---------------- *)
  Lemma step_host_colon_err p buf a pw u l u1 e :
    (-1 <= p)%Z -> rest (p + 1) = 58 :: l -> is_nil buf = false ->
    parseHost idna_raw c u buf (negb (IsSpecialScheme c u)) = Er u1 e ->
    stepf (mk HostSt p false buf a false pw u) = RetErr u1 e.
  Proof using Hrep Hfail.
    intros Hp Hr Hb Hph. destruct (rest_uncons (p + 1)%Z _ _ ltac:(lia) Hr) as [Hc [Hr' Hn]].
    unfold_step. replace (n <=? p + 1)%Z with false by lia. cbv beta iota. rewrite Hc.
    cbn [andb orb]. replace (58 =? 58) with true by reflexivity. cbn [andb negb]. rewrite Hb, Hph. reflexivity.
  Qed.

  Lemma step_host_end_err p buf a br pw u tl u1 e :
    (-1 <= p)%Z -> rest (p + 1) = tl -> at_end tl = true ->
    IsSpecialScheme c u && is_nil buf = false ->
    parseHost idna_raw c u buf (negb (IsSpecialScheme c u)) = Er u1 e ->
    stepf (mk HostSt p false buf a br pw u) = RetErr u1 e.
  Proof using Hrep Hfail.
    intros Hp Hr He Hb Hph. unfold_step. destruct tl as [|x l].
    - pose proof (rest_empty (p + 1)%Z ltac:(lia) Hr) as Hn.
      replace (n <=? p + 1)%Z with true by lia. cbv beta iota.
      replace (rune_error =? 58) with false by reflexivity. cbn [andb orb]. rewrite Hb, Hph. reflexivity.
    - destruct (rest_uncons (p + 1)%Z _ _ ltac:(lia) Hr) as [Hc [Hr' Hn]].
      replace (n <=? p + 1)%Z with false by lia. cbv beta iota. rewrite Hc.
      cbn [at_end] in He.
      assert (H58 : (x =? 58) = false) by lia. rewrite H58. cbn [andb orb]. rewrite He. cbn [orb].
      rewrite Hb, Hph. reflexivity.
  Qed.

  (* the port: no digit at all *)
  Lemma step_port_end_empty p a br pw u tl :
    (-1 <= p)%Z -> rest (p + 1) = tl -> at_end tl = true ->
    stepf (mk PortSt p false [] a br pw u) = Cont (mk PathStart (p + 1 - 1) false [] a br pw u).
  Proof using Hrep Hfail.
    intros Hp Hr He. unfold_step. destruct tl as [|x l].
    - pose proof (rest_empty (p + 1)%Z ltac:(lia) Hr) as Hn.
      replace (n <=? p + 1)%Z with true by lia. cbv beta iota.
      replace (isDigit rune_error) with false by reflexivity. reflexivity.
    - destruct (rest_uncons (p + 1)%Z _ _ ltac:(lia) Hr) as [Hc [Hr' Hn]].
      replace (n <=? p + 1)%Z with false by lia. cbv beta iota. rewrite Hc.
      cbn [at_end] in He.
      assert (Hd : isDigit x = false).
      { apply orb_true_iff in He. destruct He as [He|He]; [apply orb_true_iff in He; destruct He as [He|He]|];
          apply N.eqb_eq in He; subst x; reflexivity. }
      rewrite Hd. cbn [orb]. rewrite He. reflexivity.
  Qed.

  (* what the port state stores *)
  Definition port_upd (u : url) (op : option str) : url :=
    match op with
    | Some (x :: d) => cleanDefaultPort c (set_port u (Some (itoa (digits_val 10 (x :: d)))) (digits_val 10 (x :: d)))
    | _ => u
    end.

  Definition port_text_ok (op : option str) : Prop :=
    forall d, op = Some d -> forallb is_digit d = true /\ (digits_val 10 d <=? 65535) = true.

  (* from the authority state (after the credentials) to the end of the host text *)
  Lemma to_host_end p a pw u h op tl :
    all_good inp -> (-1 <= p)%Z -> rest (p + 1) = h ++ port_part op ++ tl -> at_end tl = true ->
    hscan (IsSpecialScheme c u) false h = true -> hbr false h = false -> mem 64 h = false ->
    forallb (fun x => x <? 128) h = true -> h <> [] -> port_text_ok op ->
    reaches (mk Authority p false [] a false pw u) (mk HostSt (p + len h) false h a false pw u).
  Proof using Hrep Hfail.
    intros Hgood Hp Hr He Hs Hbr H64 Hsm Hne Hport.
    set (sp := IsSpecialScheme c u) in *. set (X := h ++ port_part op).
    assert (HX : forallb (auth_char sp) X = true).
    { unfold X. rewrite forallb_app, (hscan_auth idna_raw c Hrep Hfail inp sp h false Hs H64 Hsm).
      destruct op as [d|]; [|reflexivity]. destruct (Hport d eq_refl) as [Hd _]. unfold port_part.
      rewrite (port_auth idna_raw c Hrep Hfail inp sp d Hd). reflexivity. }
    pose proof (auth_char_small idna_raw c Hrep Hfail inp sp X HX) as HXs.
    assert (Hr' : rest (p + 1) = X ++ tl) by (unfold X; rewrite <- app_assoc; exact Hr).
    pose proof (len_nonneg X) as HlX.
    eapply reaches_trans; [apply (auth_scan idna_raw c Hrep Hfail inp X p [] a false pw u tl Hp Hr' HX)|]. cbn [app].
    pose proof (rest_app (p + 1)%Z _ _ ltac:(blia) Hr') as Hr2.
    replace (p + 1 + len X)%Z with (p + len X + 1)%Z in Hr2 by ring.
    eapply reaches_trans.
    { eapply reaches_step.
      - apply (step_auth_end idna_raw c Hrep Hfail inp (p + len X)%Z X a false pw u tl ltac:(blia) Hr2 He).
        destruct a; [|reflexivity]. cbn [andb]. destruct X as [|x0 X0] eqn:EX; [|reflexivity].
        exfalso. unfold X in EX. apply app_eq_nil in EX. destruct EX as [Eh _]. exact (Hne Eh).
      - reflexivity. }
    rewrite (Utf8Proofs.runes_ascii X HXs).
    replace (p + len X + 1 - (len X + 1))%Z with p by ring.
    eapply reaches_eq; [apply (host_loop idna_raw c Hrep Hfail inp h p [] a false pw u _ Hgood Hp Hr Hs Hsm)|].
    cbn [app]. rewrite Hbr. reflexivity.
  Qed.

  Theorem host_port_reach p a pw u h h' op tl :
    all_good inp -> (-1 <= p)%Z -> rest (p + 1) = h ++ port_part op ++ tl -> at_end tl = true ->
    hscan (IsSpecialScheme c u) false h = true -> hbr false h = false -> mem 64 h = false ->
    forallb (fun x => x <? 128) h = true -> h <> [] -> port_text_ok op ->
    parseHost idna_raw c u h (negb (IsSpecialScheme c u)) = Ok u h' ->
    reaches (mk Authority p false [] a false pw u)
      (mk PathStart (p + len (h ++ port_part op)) false [] a false pw (port_upd (set_host u (Some h')) op)).
  Proof using Hrep Hfail.
    intros Hgood Hp Hr He Hs Hbr H64 Hsm Hne Hport Hph.
    eapply reaches_trans; [apply (to_host_end p a pw u h op tl); assumption|].
    pose proof (len_nonneg h) as Hlh.
    pose proof (rest_app (p + 1)%Z _ _ ltac:(blia) Hr) as Hr3.
    replace (p + 1 + len h)%Z with (p + len h + 1)%Z in Hr3 by ring.
    assert (Hhn : is_nil h = false) by (destruct h; [congruence|reflexivity]).
    destruct op as [d|]; cbn [port_part app] in Hr3.
    - destruct (Hport d eq_refl) as [Hdig Hv].
      eapply reaches_trans.
      { eapply reaches_step; [apply (step_host_colon idna_raw c Hrep Hfail inp (p + len h)%Z h a pw u _ h' ltac:(blia) Hr3 Hhn Hph)|reflexivity]. }
      destruct (rest_uncons (p + len h + 1)%Z _ _ ltac:(blia) Hr3) as [_ [Hr4 _]].
      eapply reaches_trans; [apply (port_loop idna_raw c Hrep Hfail inp d (p + len h + 1)%Z [] a false pw _ tl ltac:(blia) Hr4 Hdig)|].
      cbn [app]. pose proof (rest_app (p + len h + 1 + 1)%Z _ _ ltac:(blia) Hr4) as Hr5.
      pose proof (len_nonneg d) as Hld.
      replace (p + len h + 1 + 1 + len d)%Z with (p + len h + 1 + len d + 1)%Z in Hr5 by ring.
      destruct d as [|x d'].
      + eapply reaches_eq.
        * eapply reaches_step; [apply (step_port_end_empty (p + len h + 1 + len (@nil N))%Z a false pw _ tl ltac:(blia) Hr5 He)|reflexivity].
        * cbn [port_upd]. f_equal. unfold port_part. rewrite len_app, len_cons, !len_nil. ring.
      + eapply reaches_eq.
        * eapply reaches_step;
            [apply (step_port_end idna_raw c Hrep Hfail inp (p + len h + 1 + len (x :: d'))%Z (x :: d') a false pw _ tl
                      ltac:(blia) Hr5 He eq_refl); clear - Hv; lia|reflexivity].
        * cbn [port_upd]. f_equal. unfold port_part. rewrite len_app, (len_cons 58). ring.
    - rewrite app_nil_r. cbn [app] in Hr3.
      eapply reaches_eq.
      + eapply reaches_step;
          [apply (step_host_end idna_raw c Hrep Hfail inp (p + len h)%Z h a false pw u tl h' ltac:(blia) Hr3 He);
           [rewrite Hhn; apply andb_false_r|exact Hph]|reflexivity].
      + cbn [port_upd]. f_equal. ring.
  Qed.

  Theorem host_port_fail p a pw u h op tl u1 e :
    all_good inp -> (-1 <= p)%Z -> rest (p + 1) = h ++ port_part op ++ tl -> at_end tl = true ->
    hscan (IsSpecialScheme c u) false h = true -> hbr false h = false -> mem 64 h = false ->
    forallb (fun x => x <? 128) h = true -> h <> [] -> port_text_ok op ->
    parseHost idna_raw c u h (negb (IsSpecialScheme c u)) = Er u1 e ->
    ends (mk Authority p false [] a false pw u) (RErr u1 e).
  Proof using Hrep Hfail.
    intros Hgood Hp Hr He Hs Hbr H64 Hsm Hne Hport Hph.
    eapply reaches_ends; [apply (to_host_end p a pw u h op tl); assumption|].
    pose proof (len_nonneg h) as Hlh.
    pose proof (rest_app (p + 1)%Z _ _ ltac:(blia) Hr) as Hr3.
    replace (p + 1 + len h)%Z with (p + len h + 1)%Z in Hr3 by ring.
    assert (Hhn : is_nil h = false) by (destruct h; [congruence|reflexivity]).
    apply ends_step_err. destruct op as [d|]; cbn [port_part app] in Hr3.
    - apply (step_host_colon_err (p + len h)%Z h a pw u _ u1 e ltac:(blia) Hr3 Hhn Hph).
    - apply (step_host_end_err (p + len h)%Z h a false pw u tl u1 e ltac:(blia) Hr3 He); [rewrite Hhn; apply andb_false_r|exact Hph].
  Qed.

  (* ---------------- PathStart of a special URL, not at a '/' ---------------- *)
  Lemma step_pathstart_special p buf a br pw u tl :
    IsSpecialScheme c u = true -> c_skipTrailSlash c = false ->
    (-1 <= p)%Z -> rest (p + 1) = tl -> at_end tl = true -> has_prefix [47] tl = false ->
    stepf (mk PathStart p false buf a br pw u) = Cont (mk PathSt (p + 1 - 1) false buf a br pw u).
  Proof using Hrep Hfail.
    intros Hsp Hsk Hp Hr He Hns. unfold_step. rewrite Hsp, Hsk. cbn [negb andb]. destruct tl as [|x l].
    - pose proof (rest_empty (p + 1)%Z ltac:(lia) Hr) as Hn.
      replace (n <=? p + 1)%Z with true by lia. cbv beta iota.
      replace (rune_error =? 92) with false by reflexivity. replace (rune_error =? 47) with false by reflexivity. reflexivity.
    - destruct (rest_uncons (p + 1)%Z _ _ ltac:(lia) Hr) as [Hc [Hr' Hn]].
      replace (n <=? p + 1)%Z with false by lia. cbv beta iota. rewrite Hc.
      cbn [has_prefix] in Hns. rewrite andb_true_r, N.eqb_sym in Hns. cbn [at_end] in He.
      assert (H92 : (x =? 92) = false) by lia. rewrite H92, Hns. reflexivity.
  Qed.

  (* ---------------- query and fragment, with encoding ---------------- *)
  Lemma query_tail_gen p a br pw u q of :
    (-1 <= p)%Z -> rest (p + 1) = q ++ f_tail of -> u_query u = Some [] -> ~ In 35 q ->
    finishes (mk QuerySt p false [] a br pw u)
      (match of with
       | Some f => set_fragment (set_query u (Some (enc_with c (queryset c u) q))) (Some (enc_with c (fragset c u) f))
       | None => set_query u (Some (enc_with c (queryset c u) q))
       end).
  Proof using Hrep Hfail.
    intros Hp Hr Hq Hno. exists (length (rest (p + 1)) + 1)%nat.
    rewrite (query_phase idna_raw c Hrep Hfail inp None None _ p [] a br pw u [] eq_refl Hq Hp) by lia.
    rewrite Hr. unfold query_result. destruct of as [f|]; cbn [f_tail].
    - rewrite (query_split_hash q f Hno). reflexivity.
    - rewrite app_nil_r, (query_split_nohash q Hno). reflexivity.
  Qed.

  Lemma frag_tail_gen p a br pw u f :
    (-1 <= p)%Z -> rest (p + 1) = f ->
    finishes (mk FragmentSt p false [] a br pw u) (set_fragment u (Some (enc_with c (fragset c u) f))).
  Proof using Hrep Hfail.
    intros Hp Hr. exists (length (rest (p + 1)) + 1)%nat.
    rewrite (fragment_phase idna_raw c Hrep Hfail inp None None) by lia. rewrite Hr. reflexivity.
  Qed.

  (* ---------------- the path with dot segments ---------------- *)
  (* the buffer is committed at every '/' and at the end *)
  Fixpoint commits (u : url) (seg : str) (segs : list str) : url :=
    match segs with
    | [] => path_commit c u seg false
    | s' :: r => commits (path_commit c u seg true) s' r
    end.

  Lemma path_commit_scheme u buf sl : u_scheme (path_commit c u buf sl) = u_scheme u.
  Proof using.
    unfold path_commit. cbv zeta.
    repeat match goal with |- context [if ?b then _ else _] => destruct b end; reflexivity.
  Qed.

  Lemma path_commit_special u buf sl : IsSpecialScheme c (path_commit c u buf sl) = IsSpecialScheme c u.
  Proof using. unfold IsSpecialScheme. rewrite path_commit_scheme. reflexivity. Qed.

  Definition segs_text_ok (sp : bool) (segs : list str) : bool := forallb (forallb (path_char c sp)) segs.

  Theorem path_phase_gen : forall segs seg p a br pw u oq of,
    c_singlePct c = false ->
    (-1 <= p)%Z -> rest (p + 1) = seg ++ flat_map (fun s => 47 :: s) segs ++ q_tail oq ++ f_tail of ->
    segs_text_ok (IsSpecialScheme c u) (seg :: segs) = true ->
    (forall q, oq = Some q -> ~ In 35 q) ->
    finishes (mk PathSt p false [] a br pw u) (tail_res c (commits u seg segs) oq of).
  Proof using Hrep Hfail.
    induction segs as [|s1 segs IH]; intros seg p a br pw u oq of Hsp Hp Hr Hg Hq.
    - cbn [flat_map app] in Hr. unfold segs_text_ok in Hg. cbn [forallb] in Hg. rewrite andb_true_r in Hg.
      eapply reaches_finishes; [apply (seg_loop idna_raw c Hrep Hfail inp seg p [] a br pw u _ Hsp Hp Hr Hg)|].
      cbn [app commits]. pose proof (rest_app (p + 1)%Z _ _ ltac:(blia) Hr) as Hr'.
      replace (p + 1 + len seg)%Z with (p + len seg + 1)%Z in Hr' by ring.
      pose proof (len_nonneg seg) as Hl.
      set (u' := path_commit c u seg false).
      destruct oq as [q|]; cbn [q_tail app] in Hr'.
      + eapply reaches_finishes.
        * eapply reaches_step; [apply (step_path_q idna_raw c Hrep Hfail inp (p + len seg)%Z _ a br pw _ _ ltac:(blia) Hr')|reflexivity].
        * destruct (rest_uncons (p + len seg + 1)%Z _ _ ltac:(blia) Hr') as [_ [Hr2 _]]. fold u'.
          eapply finishes_eq;
            [apply (query_tail_gen (p + len seg + 1)%Z a br pw (set_query u' (Some [])) q of ltac:(blia) Hr2 eq_refl (Hq q eq_refl))|].
          unfold tail_res. destruct of; reflexivity.
      + destruct of as [f|]; cbn [f_tail] in Hr'.
        * eapply reaches_finishes.
          -- eapply reaches_step; [apply (step_path_h idna_raw c Hrep Hfail inp (p + len seg)%Z _ a br pw _ _ ltac:(blia) Hr')|reflexivity].
          -- destruct (rest_uncons (p + len seg + 1)%Z _ _ ltac:(blia) Hr') as [_ [Hr2 _]]. fold u'.
             eapply finishes_eq; [apply (frag_tail_gen (p + len seg + 1)%Z a br pw (set_fragment u' (Some [])) f ltac:(blia) Hr2)|]. reflexivity.
        * eapply finishes_eq.
          -- eapply finishes_step; [apply (step_path_eof idna_raw c Hrep Hfail inp (p + len seg)%Z _ a br pw _ ltac:(blia) Hr')|reflexivity].
          -- reflexivity.
    - cbn [flat_map] in Hr. rewrite <- !app_assoc in Hr. cbn [app] in Hr.
      unfold segs_text_ok in Hg. cbn [forallb] in Hg. apply andb_true_iff in Hg. destruct Hg as [Hch Hgs].
      eapply reaches_finishes; [apply (seg_loop idna_raw c Hrep Hfail inp seg p [] a br pw u _ Hsp Hp Hr Hch)|].
      cbn [app]. pose proof (rest_app (p + 1)%Z _ _ ltac:(blia) Hr) as Hr'.
      replace (p + 1 + len seg)%Z with (p + len seg + 1)%Z in Hr' by ring.
      pose proof (len_nonneg seg) as Hl.
      eapply reaches_finishes.
      + eapply reaches_step; [apply (step_path_slash idna_raw c Hrep Hfail inp (p + len seg)%Z _ a br pw _ _ ltac:(blia) Hr')|reflexivity].
      + destruct (rest_uncons (p + len seg + 1)%Z _ _ ltac:(blia) Hr') as [_ [Hr2 _]].
        cbn [commits].
        apply (IH s1 (p + len seg + 1)%Z a br pw (path_commit c u seg true) oq of Hsp ltac:(blia)).
        * rewrite Hr2, <- ?app_assoc. reflexivity.
        * rewrite path_commit_special. exact Hgs.
        * exact Hq.
  Qed.
End NFPhases.
