(* Generic lock-step simulation, continued: the loop, BasicParser and the public entry points. *)
From Verif Require Import Lib.Base Lib.Utf8 Lib.GoStr Model.Cfg Gen.Tables Model.Sets Model.Percent
  Model.Url Model.Host Model.Machine Model.Api Proofs.DiagBase Proofs.DiagStep.

Set Implicit Arguments.

(* ---------- one run: a property of the recorded errors that handleError preserves ---------- *)
Section RunEsc.
  Variable idna : str -> str * bool.
  Variable c : cfg.
  Variable EV : list verr -> Prop.
  Hypothesis H_ev : forall u t f, EV (u_verrs u) -> EV (u_verrs (fst (handleError c u t f))).

  Definition esc_result (r : result) : Prop :=
    match r with
    | RUrl u => EV (u_verrs u)
    | RNilNil u => EV (u_verrs u)
    | _ => True
    end.

  Let vr : list verr -> list verr -> Prop := fun _ v2 => EV v2.
  Let ep : url -> verr -> Prop := fun _ _ => True.
  Let ev : list verr -> Prop := fun _ => True.

  Lemma esc_EP : forall u t f e, snd (handleError c u t f) = Some e -> ep (fst (handleError c u t f)) e.
  Proof. intros; exact I. Qed.
  Lemma esc_he : forall u1 u2 t f, UR vr u1 u2 ->
    match snd (handleError c u1 t f), snd (handleError c u2 t f) with
    | None, None => vr (u_verrs (fst (handleError c u1 t f))) (u_verrs (fst (handleError c u2 t f)))
    | Some _, Some _ => True
    | Some _, None => False /\ ev (u_verrs (fst (handleError c u2 t f)))
    | None, Some _ => False
    end.
  Proof.
    intros u1 u2 t f [_ HV]. rewrite !handleError_snd.
    destruct (f || c_fail c); [exact I|]. apply H_ev, HV.
  Qed.
  Lemma esc_ev : forall u t f, ev (u_verrs u) -> ev (u_verrs (fst (handleError c u t f))).
  Proof. intros; exact I. Qed.

  Lemma step_esc inp base ov m :
    EV (u_verrs (m_url m)) -> esc_out EV (step idna c inp base ov m).
  Proof.
    intros HE.
    assert (HM : MR vr m m) by (repeat split; try reflexivity; exact HE).
    pose proof (@step_rel idna c c (cagree_refl c) vr ep False ev esc_EP esc_he esc_ev inp base ov m m HM) as HO.
    destruct (step idna c inp base ov m) as [m'|u|u e|u|]; cbn in HO |- *; try exact I; try apply HO.
  Qed.

  Lemma run_esc inp base ov fuel : forall m,
    EV (u_verrs (m_url m)) -> esc_result (run idna c inp base ov fuel m).
  Proof.
    induction fuel as [|fuel IH]; intros m HE; [exact I|].
    cbn [run]. pose proof (step_esc inp base ov m HE) as HS.
    destruct (step idna c inp base ov m) as [m'|u|u e|u|]; cbn in HS |- *; try exact I; try exact HS.
    destruct (m_eof m'); [exact HS|apply IH, HS].
  Qed.
End RunEsc.

Section RunSim.
  Variable idna : str -> str * bool.
  Variables c1 c2 : cfg.
  Hypothesis Hag : cagree c1 c2.
  Variable VR : list verr -> list verr -> Prop.
  Variable EP : url -> verr -> Prop.
  Variable EANY : Prop.
  Variable EV : list verr -> Prop.

  Notation UR := (UR VR).
  Notation MR := (MR VR).
  Notation OR := (OR VR EP EANY EV).
  Notation esc_result := (esc_result EV).

  Hypothesis H_EP : forall u t f e, snd (handleError c1 u t f) = Some e -> EP (fst (handleError c1 u t f)) e.
  Hypothesis H_he : forall u1 u2 t f, UR u1 u2 ->
    match snd (handleError c1 u1 t f), snd (handleError c2 u2 t f) with
    | None, None => VR (u_verrs (fst (handleError c1 u1 t f))) (u_verrs (fst (handleError c2 u2 t f)))
    | Some _, Some _ => True
    | Some _, None => EANY /\ EV (u_verrs (fst (handleError c2 u2 t f)))
    | None, Some _ => False
    end.
  Hypothesis H_ev : forall u t f, EV (u_verrs u) -> EV (u_verrs (fst (handleError c2 u t f))).

  (* ---------- the loop, BasicParser and the public entry points ---------- *)
  Definition RESR (r1 r2 : result) : Prop :=
    match r1 with
    | RUrl u1 => match r2 with RUrl u2 => UR u1 u2 | _ => False end
    | RErr u1 e1 =>
        EP u1 e1 /\
        ((EANY /\ esc_result r2) \/ match r2 with RErr u2 e2 => eqv u1 u2 /\ e1 = e2 | _ => False end)
    | RNilNil u1 => match r2 with RNilNil u2 => UR u1 u2 | _ => False end
    | RPanic => r2 = RPanic
    | ROutOfFuel => r2 = ROutOfFuel
    end.

  Theorem run_rel inp base ov fuel : forall m1 m2, MR m1 m2 ->
    RESR (run idna c1 inp base ov fuel m1) (run idna c2 inp base ov fuel m2).
  Proof.
    induction fuel as [|fuel IH]; intros m1 m2 HM; [reflexivity|].
    cbn [run].
    pose proof (@step_rel idna c1 c2 Hag VR EP EANY EV H_EP H_he H_ev inp base ov m1 m2 HM) as HO.
    destruct (step idna c1 inp base ov m1) as [m1'|v1|v1 e1|v1|].
    - destruct (step idna c2 inp base ov m2) as [m2'|v2|v2 e2|v2|]; cbn in HO; try contradiction.
      pose proof HO as (_&_&E3&_&_&_&_&HU). rewrite <- E3.
      destruct (m_eof m1'); [exact HU|apply IH, HO].
    - destruct (step idna c2 inp base ov m2) as [m2'|v2|v2 e2|v2|]; cbn in HO; try contradiction. exact HO.
    - destruct HO as [HE [[HA HS]|HX]].
      + split; [exact HE|]. left. split; [exact HA|].
        destruct (step idna c2 inp base ov m2) as [m2'|v2|v2 e2|v2|]; cbn in HS |- *; try exact I; try exact HS.
        destruct (m_eof m2'); [exact HS|]. apply (@run_esc idna c2 EV H_ev), HS.
      + destruct (step idna c2 inp base ov m2) as [m2'|v2|v2 e2|v2|]; try contradiction.
        split; [exact HE|right; exact HX].
    - destruct (step idna c2 inp base ov m2) as [m2'|v2|v2 e2|v2|]; cbn in HO; try contradiction. exact HO.
    - cbn in HO. rewrite HO. reflexivity.
  Qed.

  Lemma he_rel u1 u2 t f : UR u1 u2 ->
    match handleError c1 u1 t f, handleError c2 u2 t f with
    | (u1', Some e1), (u2', o2) =>
        EP u1' e1 /\ ((EANY /\ o2 = None /\ EV (u_verrs u2')) \/ (o2 = Some e1 /\ eqv u1' u2'))
    | (u1', None), (u2', None) => UR u1' u2'
    | (_, None), (_, Some _) => False
    end.
  Proof.
    intros HU.
    pose proof (H_he t f HU) as Hh.
    pose proof (@H_EP u1 t f) as He.
    pose proof (handleError_eqv c1 c2 t f (UR_eqv HU)) as Hq.
    pose proof (handleError_snd c1 u1 t f) as S1.
    pose proof (handleError_snd c2 u2 t f) as S2.
    destruct (handleError c1 u1 t f) as [u1' o1], (handleError c2 u2 t f) as [u2' o2].
    cbn [fst snd] in *.
    destruct o1 as [e1|], o2 as [e2|].
    - split; [apply He; reflexivity|]. right. split; [|exact Hq].
      destruct (f || c_fail c1), (f || c_fail c2); try discriminate.
      inversion S1; inversion S2; subst. f_equal. symmetry. apply mkerr_eqv, (UR_eqv HU).
    - split; [apply He; reflexivity|]. left. destruct Hh as [HA HV]. auto.
    - contradiction.
    - split; assumption.
  Qed.

  (* the pre-existing record (setters) or none (Parse) *)
  Definition U0R (o1 o2 : option url) : Prop :=
    match o1, o2 with
    | Some u1, Some u2 => UR u1 u2
    | None, None => VR [] []
    | _, _ => False
    end.

  Lemma EV_set_input u x : EV (u_verrs u) -> EV (u_verrs (set_input u x)).
  Proof. intros H; exact H. Qed.

  Theorem BasicParser_rel urlOrRef b1 b2 o1 o2 ov :
    option_map clone b1 = option_map clone b2 -> U0R o1 o2 ->
    RESR (BasicParser idna c1 urlOrRef b1 o1 ov) (BasicParser idna c2 urlOrRef b2 o2 ov).
  Proof.
    intros HB H0. unfold BasicParser. rewrite HB.
    assert (K : forall inp fuel u1 u2, UR u1 u2 ->
      RESR (run idna c1 inp (option_map clone b2) ov fuel
              (mk (match ov with Some s => s | None => SchemeStart end) (-1)%Z false [] false false false u1))
           (run idna c2 inp (option_map clone b2) ov fuel
              (mk (match ov with Some s => s | None => SchemeStart end) (-1)%Z false [] false false false u2))).
    { intros inp fuel u1 u2 HU. apply run_rel. repeat split; try reflexivity; apply HU. }
    assert (KE : forall inp fuel u2, EV (u_verrs u2) ->
      esc_result (run idna c2 inp (option_map clone b2) ov fuel
              (mk (match ov with Some s => s | None => SchemeStart end) (-1)%Z false [] false false false u2))).
    { intros inp fuel u2 HE. apply (@run_esc idna c2 EV H_ev). exact HE. }
    assert (UI : forall u1 u2 x, UR u1 u2 -> UR (set_input u1 x) (set_input u2 x)).
    { intros u1 u2 x [HA HV]. split; [apply eqv_set_input, HA|exact HV]. }
    assert (STE : forall u2, EV (u_verrs u2) ->
      esc_result
           (let '(i, changed) := remove_tabnl_sv (c_acceptInvalid c2) (u_input u2) in
            if changed then
              match handleError c2 u2 InvalidURLUnit false with
              | (u', Some e) => RErr u' e
              | (u', None) =>
                  run idna c2 (decode (u_input (set_input u' i))) (option_map clone b2) ov
                    (fuel_of (length (decode (u_input (set_input u' i)))))
                    (mk (match ov with Some s => s | None => SchemeStart end) (-1)%Z false [] false false false
                        (set_input u' i))
              end
            else run idna c2 (decode (u_input u2)) (option_map clone b2) ov
                   (fuel_of (length (decode (u_input u2))))
                   (mk (match ov with Some s => s | None => SchemeStart end) (-1)%Z false [] false false false u2))).
    { intros u2 HE. destruct (remove_tabnl_sv (c_acceptInvalid c2) (u_input u2)) as [i changed].
      destruct changed; [|apply KE, HE].
      pose proof (H_ev _ InvalidURLUnit false HE) as HH.
      destruct (handleError c2 u2 InvalidURLUnit false) as [u2' [e|]]; [exact I|].
      apply KE. exact HH. }
    assert (ST : forall u1 u2, UR u1 u2 ->
      RESR (let '(i, changed) := remove_tabnl_sv (c_acceptInvalid c1) (u_input u1) in
            if changed then
              match handleError c1 u1 InvalidURLUnit false with
              | (u', Some e) => RErr u' e
              | (u', None) =>
                  run idna c1 (decode (u_input (set_input u' i))) (option_map clone b2) ov
                    (fuel_of (length (decode (u_input (set_input u' i)))))
                    (mk (match ov with Some s => s | None => SchemeStart end) (-1)%Z false [] false false false
                        (set_input u' i))
              end
            else run idna c1 (decode (u_input u1)) (option_map clone b2) ov
                   (fuel_of (length (decode (u_input u1))))
                   (mk (match ov with Some s => s | None => SchemeStart end) (-1)%Z false [] false false false u1))
           (let '(i, changed) := remove_tabnl_sv (c_acceptInvalid c2) (u_input u2) in
            if changed then
              match handleError c2 u2 InvalidURLUnit false with
              | (u', Some e) => RErr u' e
              | (u', None) =>
                  run idna c2 (decode (u_input (set_input u' i))) (option_map clone b2) ov
                    (fuel_of (length (decode (u_input (set_input u' i)))))
                    (mk (match ov with Some s => s | None => SchemeStart end) (-1)%Z false [] false false false
                        (set_input u' i))
              end
            else run idna c2 (decode (u_input u2)) (option_map clone b2) ov
                   (fuel_of (length (decode (u_input u2))))
                   (mk (match ov with Some s => s | None => SchemeStart end) (-1)%Z false [] false false false u2))).
    { intros u1 u2 HU. rewrite <- (eqv_input (UR_eqv HU)), (ag_acceptInvalid Hag).
      destruct (remove_tabnl_sv (c_acceptInvalid c1) (u_input u1)) as [i changed].
      destruct changed; [|apply K, HU].
      cbn [u_input set_input].
      pose proof (he_rel InvalidURLUnit false HU) as HH.
      destruct (handleError c1 u1 InvalidURLUnit false) as [u1' [e1|]],
               (handleError c2 u2 InvalidURLUnit false) as [u2' x2].
      - destruct HH as [HE [(HA & -> & HV)|[-> HQ]]]; (split; [exact HE|]).
        + left. split; [exact HA|]. apply KE. exact HV.
        + right; split; [exact HQ|reflexivity].
      - destruct x2; [contradiction|]. apply K, UI, HH. }
    destruct o1 as [u1|], o2 as [u2|]; cbn in H0; try contradiction.
    - apply ST, UI, H0.
    - assert (HE : UR (empty_url urlOrRef) (empty_url urlOrRef)) by (split; [reflexivity|exact H0]).
      destruct (trim_c0space urlOrRef) as [i changed].
      destruct changed; [|apply ST, HE].
      pose proof (he_rel InvalidURLUnit false HE) as HH.
      destruct (handleError c1 (empty_url urlOrRef) InvalidURLUnit false) as [u1' [e1|]],
               (handleError c2 (empty_url urlOrRef) InvalidURLUnit false) as [u2' x2].
      + destruct HH as [HE' [(HA & -> & HV)|[-> HQ]]]; (split; [exact HE'|]).
        * left. split; [exact HA|]. apply STE. exact HV.
        * right; split; [exact HQ|reflexivity].
      + destruct x2; [contradiction|]. apply ST, UI, HH.
  Qed.

  Definition esc_pres (p : pres) : Prop :=
    match p with PUrl u => EV (u_verrs u) | _ => True end.

  Definition PR (p1 p2 : pres) : Prop :=
    match p1 with
    | PUrl u1 => match p2 with PUrl u2 => UR u1 u2 | _ => False end
    | PErr e1 => (exists u1, EP u1 e1) /\ ((EANY /\ esc_pres p2) \/ p2 = PErr e1)
    | PNilNil => p2 = PNilNil
    | PPanic => p2 = PPanic
    | PFuel => p2 = PFuel
    end.

  Lemma to_pres_rel r1 r2 : RESR r1 r2 -> PR (to_pres r1) (to_pres r2).
  Proof.
    destruct r1; cbn; intros H.
    - destruct r2; try contradiction; exact H.
    - destruct H as [HE [[HA HS]|HX]]; (split; [eexists; exact HE|]).
      + left. split; [exact HA|]. destruct r2; try exact I; exact HS.
      + destruct r2; try contradiction. right. destruct HX as [_ ->]. reflexivity.
    - destruct r2; try contradiction; reflexivity.
    - subst r2; reflexivity.
    - subst r2; reflexivity.
  Qed.

  Theorem Parse_rel i : VR [] [] -> PR (Parse idna c1 i) (Parse idna c2 i).
  Proof. intros H. apply to_pres_rel, BasicParser_rel; [reflexivity|exact H]. Qed.

  Theorem UrlParse_rel b1 b2 ref : VR [] [] -> eqv b1 b2 ->
    PR (UrlParse idna c1 b1 ref) (UrlParse idna c2 b2 ref).
  Proof.
    intros H HB. apply to_pres_rel, BasicParser_rel; [|exact H].
    cbn [option_map]. f_equal. exact HB.
  Qed.

  (* ParseRef parses the reference against a clone of the parsed base, which forgets what the
     base parse recorded: the escape clause needs EV to hold of every list *)
  Theorem ParseRef_rel raw ref : VR [] [] -> (forall v, EV v) ->
    PR (ParseRef idna c1 raw ref) (ParseRef idna c2 raw ref).
  Proof.
    intros H HEV. unfold ParseRef. destruct raw as [|x raw]; [apply Parse_rel, H|].
    pose proof (Parse_rel (x :: raw) H) as HP.
    destruct (Parse idna c1 (x :: raw)) as [b1|e1| | |].
    - destruct (Parse idna c2 (x :: raw)) as [b2|e2| | |]; cbn in HP; try contradiction.
      apply UrlParse_rel; [exact H|apply HP].
    - destruct HP as [HE [[HA HS]|HX]]; (split; [exact HE|]).
      + left. split; [exact HA|].
        destruct (Parse idna c2 (x :: raw)); try exact I.
        destruct (UrlParse idna c2 u ref); try exact I. apply HEV.
      + right. rewrite HX. reflexivity.
    - cbn in HP. rewrite HP. reflexivity.
    - cbn in HP. rewrite HP. reflexivity.
    - cbn in HP. rewrite HP. reflexivity.
  Qed.
End RunSim.
