(* Round trip, auxiliary: [itoa] inverts [digits_val 10] on canonical decimals (the port). *)
From Verif Require Import Lib.Base Lib.Utf8 Lib.GoStr Model.Preds.
From Coq Require Import Lia ZifyBool ZifyN ZifyNat.
Ltac Zify.zify_post_hook ::= Z.div_mod_to_equations.

Local Arguments N.mul : simpl never.
Local Arguments N.add : simpl never.
Local Arguments N.sub : simpl never.
Local Arguments N.div : simpl never.
Local Arguments N.modulo : simpl never.
Local Arguments N.pow : simpl never.
Local Arguments N.eqb : simpl never.
Local Arguments N.ltb : simpl never.
Local Arguments N.leb : simpl never.

Lemma digits_val_snoc r d x : digits_val r (d ++ [x]) = digits_val r d * r + hex_val x.
Proof. unfold digits_val. rewrite fold_left_app. reflexivity. Qed.

Lemma fold_digits_acc r t : forall acc,
  fold_left (fun a c => a * r + hex_val c) t acc
  = acc * r ^ N.of_nat (length t) + fold_left (fun a c => a * r + hex_val c) t 0.
Proof.
  induction t as [|x t IH]; intros acc; cbn [fold_left length].
  - change (N.of_nat 0) with 0. rewrite N.pow_0_r. lia.
  - rewrite IH, (IH (0 * r + hex_val x)). rewrite Nat2N.inj_succ, N.pow_succ_r'. ring.
Qed.

Lemma digits_val_pos a t : 1 <= hex_val a -> 1 <= digits_val 10 (a :: t).
Proof.
  intros H. unfold digits_val. cbn [fold_left]. rewrite fold_digits_acc.
  assert (1 <= 10 ^ N.of_nat (length t)).
  { pose proof (N.pow_nonzero 10 (N.of_nat (length t)) ltac:(lia)). lia. }
  nia.
Qed.

Lemma digit_hex_val x : is_digit x = true -> hex_val x = x - 48 /\ hex_val x < 10.
Proof. intros H. unfold hex_val. rewrite H. unfold is_digit in H. lia. Qed.

Lemma snoc_cases {A} (l : list A) : l = [] \/ exists l' x, l = l' ++ [x].
Proof.
  destruct l as [|a l]; [left; reflexivity|right].
  exists (removelast (a :: l)), (last (a :: l) a). apply app_removelast_last. discriminate.
Qed.

Lemma lead_ok a (t : str) : a <> 48 -> match a :: t with 48 :: _ :: _ => false | _ => true end = true.
Proof.
  intros H. destruct a as [|pa]; [reflexivity|].
  do 6 (destruct pa as [pa|pa|]; try reflexivity). contradiction H. reflexivity.
Qed.

Lemma single_digit d n :
  canonical_decimal d = true -> digits_val 10 d = n -> n < 10 -> [hex_lower n] = d.
Proof.
  intros Hc Hv Hn.
  unfold canonical_decimal in Hc. apply andb_true_iff in Hc. destruct Hc as [Hc H0].
  apply andb_true_iff in Hc. destruct Hc as [Hne Hd].
  destruct d as [|a [|b t]]; [discriminate Hne| |].
  - cbn [forallb] in Hd. rewrite andb_true_r in Hd. destruct (digit_hex_val a Hd) as [E1 E2].
    unfold digits_val in Hv. cbn [fold_left] in Hv. unfold hex_lower. replace (n <? 10) with true by lia.
    unfold is_digit in Hd. f_equal. lia.
  - exfalso. cbn [forallb] in Hd. apply andb_true_iff in Hd. destruct Hd as [Ha Hd].
    destruct (digit_hex_val a Ha) as [E1 E2].
    assert (Ha48 : a <> 48). { intros E. subst a. discriminate H0. }
    assert (H1 : 1 <= hex_val a) by (unfold is_digit in Ha; lia).
    unfold digits_val in Hv. cbn [fold_left] in Hv. rewrite fold_digits_acc in Hv.
    assert (1 <= 10 ^ N.of_nat (length t)).
    { pose proof (N.pow_nonzero 10 (N.of_nat (length t)) ltac:(lia)). lia. }
    nia.
Qed.

Lemma fmt_canonical : forall f d n,
  canonical_decimal d = true -> digits_val 10 d = n -> n < 10 ^ N.of_nat (Datatypes.S f) ->
  fmt_fuel 10 hex_lower (Datatypes.S f) n = d.
Proof.
  induction f as [|f IH]; intros d n Hc Hv Hn.
  - change (10 ^ N.of_nat 1) with 10 in Hn. cbn [fmt_fuel]. replace (n <? 10) with true by lia.
    apply single_digit; assumption.
  - cbn [fmt_fuel]. destruct (n <? 10) eqn:E.
    + apply single_digit; [assumption|assumption|lia].
    + (* at least two digits *)
      destruct (snoc_cases d) as [->|[d' [x ->]]]; [discriminate Hc|].
      rewrite digits_val_snoc in Hv.
      unfold canonical_decimal in Hc. apply andb_true_iff in Hc. destruct Hc as [Hc H0].
      apply andb_true_iff in Hc. destruct Hc as [_ Hd]. rewrite forallb_app in Hd.
      apply andb_true_iff in Hd. destruct Hd as [Hd' Hx]. cbn [forallb] in Hx. rewrite andb_true_r in Hx.
      destruct (digit_hex_val x Hx) as [E1 E2].
      assert (Hdiv : n / 10 = digits_val 10 d') by lia.
      assert (Hmod : n mod 10 = hex_val x) by lia.
      assert (Hd'ne : d' <> []). { intros E'. subst d'. unfold digits_val in Hv. cbn [fold_left app] in Hv. lia. }
      assert (Hc' : canonical_decimal d' = true).
      { unfold canonical_decimal. rewrite Hd'. destruct d' as [|a t]; [congruence|].
        cbn [is_nil negb andb]. destruct (N.eq_dec a 48) as [E48|N48].
        - subst a. destruct t as [|b t]; [reflexivity|]. cbn [app] in H0. discriminate H0.
        - apply lead_ok. exact N48. }
      change (fmt_fuel 10 hex_lower (Datatypes.S f) (n / 10) ++ [hex_lower (n mod 10)] = d' ++ [x]).
      rewrite (IH d' (n / 10) Hc' (eq_sym Hdiv)).
      * f_equal. rewrite Hmod. unfold hex_lower. replace (hex_val x <? 10) with true by lia.
        unfold is_digit in Hx. f_equal. lia.
      * rewrite Nat2N.inj_succ, N.pow_succ_r' in Hn. lia.
Qed.

Lemma itoa_fuel_bound : forall n, n < 10 ^ N.of_nat (Datatypes.S (N.size_nat n)).
Proof.
  intro n. rewrite Nat2N.inj_succ, N.pow_succ_r'.
  destruct n as [|p]; [cbn; lia|]. cbn [N.size_nat].
  assert (B : forall p, N.pos p < 2 ^ N.of_nat (Pos.size_nat p)).
  { induction p0 as [q IHq|q IHq|]; cbn [Pos.size_nat]; rewrite ?Nat2N.inj_succ, ?N.pow_succ_r'; lia. }
  pose proof (B p). pose proof (N.pow_le_mono_l 2 10 (N.of_nat (Pos.size_nat p)) ltac:(lia)).
  assert (0 < 10 ^ N.of_nat (Pos.size_nat p)) by (apply N.neq_0_lt_0; apply N.pow_nonzero; lia). lia.
Qed.

Theorem itoa_digits_val d : canonical_decimal d = true -> itoa (digits_val 10 d) = d.
Proof. intros H. unfold itoa. apply fmt_canonical; [exact H|reflexivity|apply itoa_fuel_bound]. Qed.

Print Assumptions itoa_digits_val.
