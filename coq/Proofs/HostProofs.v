(* C15-family: the default parser normalises DOMAIN hosts of special-scheme URLs consistently.
   Model/Host.v section Idna (url/hostparser.go parseHost, ToASCII wrapper) with the UTS #46
   processing kept abstract as [idna_raw : str -> str * bool]. *)
From Verif Require Import Lib.Base Lib.Utf8 Lib.GoStr Model.Cfg Gen.Tables Gen.Options Model.Sets
  Model.Percent Model.Url Model.Host Model.Machine.
From Verif Require Spec.PercentSets Spec.IPv4.
From Verif Require Import Proofs.Utf8Proofs Proofs.CodecProofs Proofs.SetsProofs.
From Verif Require Proofs.IPv4Proofs.
From Coq Require Import Lia ZifyBool ZifyN ZifyNat.
Ltac Zify.zify_post_hook ::= Z.div_mod_to_equations.

Module PS := Verif.Spec.PercentSets.
Module S4 := Verif.Spec.IPv4.

Local Arguments N.mul : simpl never.
Local Arguments N.add : simpl never.
Local Arguments N.sub : simpl never.
Local Arguments N.pow : simpl never.
Local Arguments N.div : simpl never.
Local Arguments N.modulo : simpl never.
Local Arguments N.ltb : simpl never.
Local Arguments N.leb : simpl never.
Local Arguments N.eqb : simpl never.

(* ================================================================== *)
(* 0. Vocabulary                                                       *)
(* ================================================================== *)
Definition ascii (s : str) : Prop := Forall (fun b => b < 128) s.
Definition asciib (s : str) : bool := forallb (fun b => b <? 128) s.

Lemma asciib_spec s : asciib s = true <-> ascii s.
Proof.
  unfold asciib, ascii. rewrite forallb_forall, Forall_forall.
  split; intros H x Hx; specialize (H x Hx); lia.
Qed.

(* "xn--" *)
Definition s_ace : str := [120; 110; 45; 45].
(* no label of [s] (labels are separated by U+002E) starts, ASCII-case-insensitively, with "xn--" *)
Definition no_ace (s : str) : bool :=
  forallb (fun l => negb (has_prefix s_ace l)) (split 46 (str_lower s)).

(* what a serialised domain must look like: ASCII, no upper-case letter, no forbidden domain code point *)
Definition clean_byte (b : N) : bool := (b <? 128) && negb (is_upper b) && negb (PS.forbidden_domain_cp b).
Definition clean (s : str) : Prop := Forall (fun b => clean_byte b = true) s.
(* what the oracle is expected to return: ASCII without upper-case letters *)
Definition lower_ascii (s : str) : Prop := Forall (fun b => b < 128 /\ is_upper b = false) s.

Definition not_bracket (h : str) : Prop := forall t, h <> 91 :: t.

(* ================================================================== *)
(* 1. ASCII lower-casing against UTF-8 decoding                        *)
(* ================================================================== *)
Lemma ascii_lower_small b : b < 128 -> ascii_lower b < 128.
Proof. unfold ascii_lower, is_upper. intros H. destruct ((65 <=? b) && (b <=? 90)) eqn:E; lia. Qed.

Lemma ascii_lower_high b : 128 <= b -> ascii_lower b = b.
Proof. unfold ascii_lower, is_upper. intros H. replace ((65 <=? b) && (b <=? 90)) with false by lia. reflexivity. Qed.

Lemma ascii_lower_small_inv b : ascii_lower b < 128 -> b < 128.
Proof. intros H. destruct (N.lt_ge_cases b 128) as [G|G]; [exact G|]. rewrite ascii_lower_high in H by exact G. lia. Qed.

Lemma ascii_lower_idem b : ascii_lower (ascii_lower b) = ascii_lower b.
Proof. unfold ascii_lower, is_upper. destruct ((65 <=? b) && (b <=? 90)) eqn:E; [|rewrite E; reflexivity].
  replace ((65 <=? b + 32) && (b + 32 <=? 90)) with false by lia. reflexivity. Qed.

Lemma ascii_lower_not_upper b : is_upper (ascii_lower b) = false.
Proof. unfold ascii_lower, is_upper. destruct ((65 <=? b) && (b <=? 90)) eqn:E; lia. Qed.

Lemma ascii_lower_fix b : is_upper b = false -> ascii_lower b = b.
Proof. unfold ascii_lower. intros ->. reflexivity. Qed.

Lemma str_lower_idem s : str_lower (str_lower s) = str_lower s.
Proof. unfold str_lower. rewrite map_map. apply map_ext. apply ascii_lower_idem. Qed.

Lemma str_lower_ascii s : ascii s -> ascii (str_lower s).
Proof. unfold ascii, str_lower. intros H. apply Forall_map. eapply Forall_impl; [|exact H]. apply ascii_lower_small. Qed.

Lemma str_lower_ascii_inv s : ascii (str_lower s) -> ascii s.
Proof.
  unfold ascii, str_lower. rewrite !Forall_forall. intros H x Hx.
  apply ascii_lower_small_inv. apply H. apply in_map. exact Hx.
Qed.

Lemma str_lower_nil s : str_lower s = [] -> s = [].
Proof. destruct s; [reflexivity|discriminate]. Qed.

(* rune_lower on an ASCII-lower-cased rune *)
Lemma rune_lower_ascii b : b < 128 -> rune_lower b = ascii_lower b.
Proof.
  intros H. unfold rune_lower, ascii_lower. destruct (is_upper b); [reflexivity|].
  replace (b =? 304) with false by lia. replace (b =? 8490) with false by lia. reflexivity.
Qed.

Lemma rune_lower_lower b : rune_lower (ascii_lower b) = rune_lower b.
Proof.
  unfold rune_lower, ascii_lower, is_upper. destruct ((65 <=? b) && (b <=? 90)) eqn:E; [|rewrite E; reflexivity].
  replace ((65 <=? b + 32) && (b + 32 <=? 90)) with false by lia.
  replace (b + 32 =? 304) with false by lia. replace (b + 32 =? 8490) with false by lia. reflexivity.
Qed.

(* lower-casing the ASCII code points of a decoded rune *)
Definition rl (r : rune) : rune := match r with Good c => Good (ascii_lower c) | Bad b => Bad b end.

Lemma in_rng_lower lo hi b : 128 <= lo -> in_rng lo hi (ascii_lower b) = in_rng lo hi b.
Proof.
  intros H. unfold in_rng. destruct (N.lt_ge_cases b 128) as [G|G].
  - pose proof (ascii_lower_small b G). lia.
  - rewrite ascii_lower_high by exact G. reflexivity.
Qed.

Lemma in_rng_high lo hi b : 128 <= lo -> in_rng lo hi b = true -> ascii_lower b = b.
Proof. intros H G. apply ascii_lower_high. unfold in_rng in G. lia. Qed.

Lemma is_cont_lower b : is_cont (ascii_lower b) = is_cont b.
Proof. apply (in_rng_lower 128 191 b). lia. Qed.
Lemma is_cont_high b : is_cont b = true -> ascii_lower b = b.
Proof. apply (in_rng_high 128 191 b). lia. Qed.

Lemma dec1_lower b0 rest :
  dec1 (ascii_lower b0) (str_lower rest) =
  (rl (fst (dec1 b0 rest)), str_lower (snd (dec1 b0 rest))).
Proof.
  destruct (N.lt_ge_cases b0 128) as [G|G].
  - pose proof (ascii_lower_small b0 G) as G'. unfold dec1.
    replace (b0 <? 128) with true by lia. replace (ascii_lower b0 <? 128) with true by lia. reflexivity.
  - rewrite (ascii_lower_high b0 G). unfold dec1.
    replace (b0 <? 128) with false by lia.
    destruct (in_rng 194 223 b0) eqn:E0.
    { destruct rest as [|b1 r1]; [reflexivity|]. cbn [str_lower map].
      rewrite is_cont_lower. destruct (is_cont b1) eqn:E1; [|reflexivity].
      rewrite (is_cont_high _ E1). cbn [fst snd rl].
      f_equal. f_equal. symmetry. apply ascii_lower_high. unfold in_rng, is_cont in *. lia. }
    destruct (in_rng 224 239 b0) eqn:E00.
    { destruct rest as [|b1 [|b2 r2]]; [reflexivity|reflexivity|]. cbn [str_lower map]. cbv zeta.
      set (lo := if b0 =? 224 then 160 else 128). set (hi := if b0 =? 237 then 159 else 191).
      assert (Hlo : 128 <= lo /\ (b0 = 224 -> 160 <= lo)) by (unfold lo; destruct (b0 =? 224) eqn:Eb; lia).
      destruct Hlo as [Hlo Hlo2].
      rewrite in_rng_lower by lia. rewrite is_cont_lower.
      destruct (in_rng lo hi b1) eqn:E1; [|reflexivity]. destruct (is_cont b2) eqn:E2; [|reflexivity].
      cbn [andb fst snd rl].
      rewrite (in_rng_high _ _ _ Hlo E1), (is_cont_high _ E2).
      f_equal. f_equal. symmetry. apply ascii_lower_high. clearbody lo hi. unfold in_rng, is_cont in *. lia. }
    destruct (in_rng 240 244 b0) eqn:E000.
    { destruct rest as [|b1 [|b2 [|b3 r3]]]; [reflexivity|reflexivity|reflexivity|]. cbn [str_lower map]. cbv zeta.
      set (lo := if b0 =? 240 then 144 else 128). set (hi := if b0 =? 244 then 143 else 191).
      assert (Hlo : 128 <= lo /\ (b0 = 240 -> 144 <= lo)) by (unfold lo; destruct (b0 =? 240) eqn:Eb; lia).
      destruct Hlo as [Hlo Hlo2].
      rewrite in_rng_lower by lia. rewrite !is_cont_lower.
      destruct (in_rng lo hi b1) eqn:E1; [|reflexivity]. destruct (is_cont b2) eqn:E2; [|reflexivity].
      destruct (is_cont b3) eqn:E3; [|reflexivity].
      cbn [andb fst snd rl].
      rewrite (in_rng_high _ _ _ Hlo E1), (is_cont_high _ E2), (is_cont_high _ E3).
      f_equal. f_equal. symmetry. apply ascii_lower_high. clearbody lo hi. unfold in_rng, is_cont in *. lia. }
    reflexivity.
Qed.

Lemma decode_lower s : decode (str_lower s) = map rl (decode s).
Proof.
  induction s as [s IH] using list_len_ind.
  destruct s as [|b0 rest]; [reflexivity|].
  destruct (dec1 b0 rest) as [r rest'] eqn:E.
  rewrite (decode_cons _ _ _ _ E).
  pose proof (dec1_lower b0 rest) as L. rewrite E in L. cbn [fst snd] in L.
  change (str_lower (b0 :: rest)) with (ascii_lower b0 :: str_lower rest).
  rewrite (decode_cons _ _ _ _ L). cbn [map]. f_equal.
  apply IH. apply dec1_len in E. cbn [length]. lia.
Qed.

Lemma forallb_map' {A B} (f : A -> B) (p : B -> bool) l : forallb p (map f l) = forallb (fun x => p (f x)) l.
Proof. induction l as [|x l IH]; [reflexivity|]. cbn [map forallb]. now rewrite IH. Qed.

Lemma forallb_ext'' {A} (f g : A -> bool) l : (forall x, f x = g x) -> forallb f l = forallb g l.
Proof. intros H. induction l as [|x l IH]; [reflexivity|]. cbn [forallb]. now rewrite H, IH. Qed.

(* ASCII case does not affect UTF-8 validity *)
Theorem valid_utf8_lower s : valid_utf8 (str_lower s) = valid_utf8 s.
Proof.
  unfold valid_utf8. rewrite decode_lower, forallb_map'. apply forallb_ext''.
  intros [c|b]; reflexivity.
Qed.

Corollary valid_utf8_case d1 d2 : str_lower d1 = str_lower d2 -> valid_utf8 d1 = valid_utf8 d2.
Proof. intros H. rewrite <- (valid_utf8_lower d1), <- (valid_utf8_lower d2), H. reflexivity. Qed.

(* ... nor the lower-cased code points the wrapper's fall-back test looks at *)
Lemma runes_lower_lower s : map rune_lower (runes (str_lower s)) = map rune_lower (runes s).
Proof.
  unfold runes. rewrite decode_lower, !map_map. apply map_ext.
  intros [c|b]; [|reflexivity]. cbn [rl rv]. apply rune_lower_lower.
Qed.

Lemma valid_utf8_ascii s : ascii s -> valid_utf8 s = true.
Proof.
  unfold valid_utf8. induction 1 as [|b s Hb Hs IH]; [reflexivity|].
  rewrite decode_ascii_cons by exact Hb. cbn [forallb]. exact IH.
Qed.

(* ================================================================== *)
(* 2. The wrapper's fall-back test                                     *)
(* ================================================================== *)

(* the test is insensitive to ASCII case *)
Theorem fallback_test_case d1 d2 : str_lower d1 = str_lower d2 ->
  containsOnlyASCIIOrMiscAndNoPunycode d1 = containsOnlyASCIIOrMiscAndNoPunycode d2.
Proof.
  intros H. unfold containsOnlyASCIIOrMiscAndNoPunycode.
  rewrite <- (runes_lower_lower d1), <- (runes_lower_lower d2), H. reflexivity.
Qed.

(* on an ASCII string the test looks at the lower-cased bytes *)
Lemma fallback_test_ascii d : ascii d ->
  containsOnlyASCIIOrMiscAndNoPunycode d = only_ascii_no_puny (str_lower d) 0.
Proof.
  intros H. unfold containsOnlyASCIIOrMiscAndNoPunycode. rewrite runes_ascii by exact H.
  f_equal. unfold str_lower. apply map_ext_in. intros b Hb. apply rune_lower_ascii.
  unfold ascii in H. rewrite Forall_forall in H. apply H. exact Hb.
Qed.

(* ---------- strings.Split one byte at a time ---------- *)
Lemma split_aux_cur s : forall cur,
  split_aux 46 s cur = match split_aux 46 s [] with x :: r => (rev cur ++ x) :: r | [] => [] end.
Proof.
  induction s as [|c s IH]; intros cur.
  - cbn [split_aux rev app]. rewrite app_nil_r. reflexivity.
  - cbn [split_aux]. destruct (c =? 46).
    + cbn [rev app]. rewrite app_nil_r. reflexivity.
    + rewrite (IH (c :: cur)), (IH [c]). destruct (split_aux 46 s []) as [|x r]; [reflexivity|].
      cbn [rev app]. rewrite <- app_assoc. reflexivity.
Qed.

Lemma split_nonnil s : split 46 s <> [].
Proof. unfold split. rewrite IPv4Proofs.split_aux_spec. apply IPv4Proofs.s_split_aux_nonnil. Qed.

Lemma split_cons b s :
  split 46 (b :: s) =
  if b =? 46 then [] :: split 46 s
  else match split 46 s with x :: r => (b :: x) :: r | [] => [] end.
Proof.
  unfold split. cbn [split_aux]. destruct (b =? 46); [reflexivity|].
  rewrite split_aux_cur. reflexivity.
Qed.

(* ---------- the automaton of the fall-back test = "no label starts with xn--" ---------- *)
Definition label_ok (l : str) : bool := negb (has_prefix s_ace l).
Definition pcond (p : Z) (x : str) : bool :=
  if (p =? 0)%Z then negb (has_prefix [120; 110; 45; 45] x)
  else if (p =? 1)%Z then negb (has_prefix [110; 45; 45] x)
  else if (p =? 2)%Z then negb (has_prefix [45; 45] x)
  else if (p =? 3)%Z then negb (has_prefix [45] x)
  else true.
Definition labels_ok (p : Z) (ls : list str) : bool :=
  match ls with x :: r => pcond p x && forallb label_ok r | [] => true end.

Lemma pcond_nil p : pcond p [] = true.
Proof. unfold pcond. destruct (p =? 0)%Z, (p =? 1)%Z, (p =? 2)%Z, (p =? 3)%Z; reflexivity. Qed.

Lemma labels_ok_0 ls : labels_ok 0 ls = forallb label_ok ls.
Proof. destruct ls; reflexivity. Qed.

Lemma automaton_split s : ascii s -> forall p, only_ascii_no_puny s p = labels_ok p (split 46 s).
Proof.
  induction 1 as [|b s Hb Hs IH]; intros p.
  - cbn [only_ascii_no_puny split split_aux rev labels_ok forallb]. rewrite pcond_nil. reflexivity.
  - cbn [only_ascii_no_puny]. replace (128 <=? b) with false by lia. cbn [andb].
    rewrite split_cons. destruct (b =? 46) eqn:E46.
    + rewrite IH, labels_ok_0. cbn [labels_ok]. rewrite pcond_nil. reflexivity.
    + pose proof (split_nonnil s) as Hne. pose proof (IH 1%Z) as I1. pose proof (IH 2%Z) as I2.
      pose proof (IH 3%Z) as I3. pose proof (IH (-1)%Z) as Im.
      destruct (split 46 s) as [|x r]; [congruence|].
      rewrite I1, I2, I3, Im. clear I1 I2 I3 Im IH Hne.
      unfold labels_ok, pcond. cbn [Z.eqb Pos.eqb has_prefix].
      rewrite (N.eqb_sym 120 b), (N.eqb_sym 110 b), (N.eqb_sym 45 b).
      destruct (Z.eq_dec p 0) as [->|N0].
      { cbn [Z.eqb andb]. destruct (b =? 120); reflexivity. }
      replace (p =? 0)%Z with false by lia. cbn [andb].
      destruct (Z.eq_dec p 1) as [->|N1].
      { cbn [Z.eqb Pos.eqb andb]. destruct (b =? 110); reflexivity. }
      replace (p =? 1)%Z with false by lia. cbn [andb].
      destruct (Z.eq_dec p 2) as [->|N2].
      { cbn [Z.eqb Pos.eqb andb]. destruct (b =? 45); reflexivity. }
      replace (p =? 2)%Z with false by lia. cbn [andb].
      destruct (Z.eq_dec p 3) as [->|N3].
      { cbn [Z.eqb Pos.eqb andb]. destruct (b =? 45); reflexivity. }
      replace (p =? 3)%Z with false by lia. reflexivity.
Qed.

(* on ASCII input the wrapper's fall-back test is exactly "no label starts with xn--" *)
Theorem fallback_test_no_ace d : ascii d -> containsOnlyASCIIOrMiscAndNoPunycode d = no_ace d.
Proof.
  intros H. rewrite fallback_test_ascii by exact H.
  rewrite automaton_split by (apply str_lower_ascii; exact H). apply labels_ok_0.
Qed.

(* ================================================================== *)
(* 3. parseHost of the default parser on a domain                      *)
(* ================================================================== *)
Lemma match_bracket {A} (b : N) (Y Z : A) : b <> 91 ->
  match b with 91 => Y | _ => Z end = Z.
Proof.
  intros H. destruct b as [|p]; [reflexivity|].
  do 7 (try (destruct p as [p|p|]; try reflexivity)). exfalso. apply H. reflexivity.
Qed.

Lemma not_bracket_cons b t : not_bracket (b :: t) -> b <> 91.
Proof. intros H E. subst b. apply (H t). reflexivity. Qed.

Lemma endsInANumber_url c u s : endsInANumber c u s = (u, S4.ends_in_a_number s).
Proof.
  rewrite <- (IPv4Proofs.endsInANumber_agree c u s).
  assert (G : fst (endsInANumber c u s) = u).
  { unfold endsInANumber.
    destruct (last_opt _) as [[|x t]|]; try reflexivity.
    destruct (all_in isDigit (x :: t)); [reflexivity|].
    unfold parseIPv4Number. destruct (parseIPv4Number_nonempty (x :: t)); reflexivity. }
  destruct (endsInANumber c u s) as [u1 b1]. cbn [fst snd] in *. subst u1. reflexivity.
Qed.

(* a failure error stops the host parser whatever the continuation *)
Definition fatal (c : cfg) (u : url) (t : etype) : res str := herr c u t true (fun u => Ok u []).

Lemma herr_true {A} c u t (k : url -> res A) :
  herr c u t true k =
  Er (if c_report c then set_verrs u (u_verrs u ++ [{| e_type := t; e_failure := true; e_url := u_input u |}]) else u)
     {| e_type := t; e_failure := true; e_url := u_input u |}.
Proof. reflexivity. Qed.

Lemma herr_fatal_any c u t (k : url -> res str) : herr c u t true k = fatal c u t.
Proof. reflexivity. Qed.

Lemma fatal_er c u t : exists u' e, fatal c u t = Er u' e /\ e_type e = t /\ e_failure e = true.
Proof. unfold fatal. rewrite herr_true. eexists. eexists. split; [reflexivity|]. split; reflexivity. Qed.

(* ---------- the hypotheses on the UTS #46 oracle ---------- *)
(* H1: ASCII transparency *)
Definition oracle_ascii_transparent (idna_raw : str -> str * bool) : Prop :=
  forall d, d <> [] -> ascii d -> no_ace d = true -> fst (idna_raw d) = str_lower d.
(* H2: ASCII-case invariance (only asked of the inputs the wrapper is called on) *)
Definition oracle_case_invariant (idna_raw : str -> str * bool) : Prop :=
  forall d1 d2, d1 <> [] -> valid_utf8 d1 = true -> str_lower d1 = str_lower d2 -> idna_raw d1 = idna_raw d2.
(* H3: lower-case ASCII output whenever the wrapper accepts the output *)
Definition oracle_lower_ascii_output (idna_raw : str -> str * bool) : Prop :=
  forall d, d <> [] -> valid_utf8 d = true ->
    (snd (idna_raw d) = false \/ containsOnlyASCIIOrMiscAndNoPunycode d = true) ->
    lower_ascii (fst (idna_raw d)).
(* the simple-minded form of H3 implies it *)
Lemma oracle_lower_ascii_output_simple idna_raw :
  (forall d, lower_ascii (fst (idna_raw d))) -> oracle_lower_ascii_output idna_raw.
Proof. intros H d _ _ _. apply H. Qed.

Lemma existsb_ext' {A} (f g : A -> bool) l : (forall x, f x = g x) -> existsb f l = existsb g l.
Proof. intros H. induction l as [|x l IH]; [reflexivity|]. cbn [existsb]. now rewrite H, IH. Qed.

Section Domain.
Variable idna_raw : str -> str * bool.
Variable c : cfg.
Hypothesis Hlax : c_lax c = false.
Hypothesis Hl1 : c_latin1 c = false.
Hypothesis Hpre : c_pre c = HF_none.
Hypothesis Hpost : c_post c = HF_none.

Notation D := (DecodePercentEncoded c).

Definition k_clean (u : url) (a : str) : res str :=
  if S4.ends_in_a_number a then parseIPv4 c u a else Ok u a.

Definition k_valid (u : url) (d : str) : res str :=
  match ToASCII idna_raw c d with
  | None => fatal c u DomainToASCII
  | Some a =>
      if existsb isForbiddenDomain (runes a) then fatal c u DomainInvalidCodePoint else k_clean u a
  end.

(* the host as a function of the percent-decoded input *)
Definition domain_host (u : url) (d : str) : res str :=
  if valid_utf8 d then k_valid u d else fatal c u DomainToASCII.

Lemma parseHost_domain u h : h <> [] -> not_bracket h ->
  parseHost idna_raw c u h false = domain_host u (D h).
Proof.
  intros Hne Hnb. destruct h as [|b t]; [congruence|]. apply not_bracket_cons in Hnb.
  unfold parseHost. rewrite Hpre. cbn [apply_hostfun]. rewrite (match_bracket b _ _ Hnb).
  unfold domain_host, k_valid, k_clean. rewrite Hlax, Hpost. cbn [apply_hostfun].
  destruct (valid_utf8 (D (b :: t))); cbn [negb]; [|apply herr_fatal_any].
  destruct (ToASCII idna_raw c (D (b :: t))) as [a|]; [|reflexivity].
  destruct (existsb isForbiddenDomain (runes a)); [apply herr_fatal_any|].
  rewrite endsInANumber_url. reflexivity.
Qed.

Lemma D_nonnil b s : D (b :: s) <> [].
Proof.
  cbn [DecodePercentEncoded]. destruct (b =? 37); [|discriminate].
  destruct s as [|x [|y s]]; try discriminate.
  destruct (isHexDigit x && isHexDigit y); [|discriminate]. rewrite Hl1. discriminate.
Qed.

Lemma D_nil_inv h : D h = [] -> h = [].
Proof. destruct h as [|b s]; [reflexivity|]. intros H. exfalso. exact (D_nonnil b s H). Qed.

(* ================================================================== *)
(* Theorem 1: ASCII hosts                                              *)
(* ================================================================== *)
Section H1.
Hypothesis H1 : oracle_ascii_transparent idna_raw.

(* the wrapper on an ASCII input without ACE label: the oracle's error flag is irrelevant *)
Lemma ToASCII_ascii d : d <> [] -> ascii d -> no_ace d = true ->
  ToASCII idna_raw c d = Some (str_lower d).
Proof.
  intros Hne Ha Hn. pose proof (H1 d Hne Ha Hn) as E.
  unfold ToASCII. destruct d as [|b d]; [congruence|]. rewrite Hl1, Hlax.
  destruct (idna_raw (b :: d)) as [a err]. cbn [fst] in E. subst a.
  rewrite fallback_test_no_ace by exact Ha. rewrite Hn.
  destruct err; reflexivity.
Qed.

Lemma ascii_host_cases u h :
  D h <> [] -> ascii (D h) -> no_ace (D h) = true -> not_bracket h ->
  parseHost idna_raw c u h false =
  if existsb PS.forbidden_domain_cp (str_lower (D h)) then fatal c u DomainInvalidCodePoint
  else k_clean u (str_lower (D h)).
Proof.
  intros Hne Ha Hn Hb.
  rewrite parseHost_domain; [|intros ->; apply Hne; reflexivity|exact Hb].
  unfold domain_host, k_valid. rewrite valid_utf8_ascii by exact Ha.
  rewrite ToASCII_ascii by assumption.
  rewrite runes_ascii by (apply str_lower_ascii; exact Ha).
  rewrite (existsb_ext' isForbiddenDomain PS.forbidden_domain_cp) by apply forbidden_domain_table.
  reflexivity.
Qed.

Lemma no_forbidden_not_bracket h :
  existsb PS.forbidden_domain_cp (str_lower (D h)) = false -> not_bracket h.
Proof.
  intros H t E. subst h. rewrite (D_ne c 91 t) in H by discriminate.
  cbn [str_lower map existsb] in H. vm_compute in H. discriminate.
Qed.

Theorem ascii_host_exact u h :
  D h <> [] -> ascii (D h) -> no_ace (D h) = true ->
  existsb PS.forbidden_domain_cp (str_lower (D h)) = false ->
  S4.ends_in_a_number (str_lower (D h)) = false ->
  parseHost idna_raw c u h false = Ok u (str_lower (D h)).
Proof.
  intros Hne Ha Hn Hf He.
  rewrite ascii_host_cases by (try assumption; apply no_forbidden_not_bracket; exact Hf).
  rewrite Hf. unfold k_clean. rewrite He. reflexivity.
Qed.

Theorem ascii_host_ipv4 u h :
  D h <> [] -> ascii (D h) -> no_ace (D h) = true ->
  existsb PS.forbidden_domain_cp (str_lower (D h)) = false ->
  S4.ends_in_a_number (str_lower (D h)) = true ->
  parseHost idna_raw c u h false = parseIPv4 c u (str_lower (D h)).
Proof.
  intros Hne Ha Hn Hf He.
  rewrite ascii_host_cases by (try assumption; apply no_forbidden_not_bracket; exact Hf).
  rewrite Hf. unfold k_clean. rewrite He. reflexivity.
Qed.

Theorem ascii_host_forbidden u h :
  D h <> [] -> ascii (D h) -> no_ace (D h) = true -> not_bracket h ->
  existsb PS.forbidden_domain_cp (str_lower (D h)) = true ->
  exists u' e, parseHost idna_raw c u h false = Er u' e /\ e_type e = DomainInvalidCodePoint /\ e_failure e = true.
Proof.
  intros Hne Ha Hn Hb Hf. rewrite ascii_host_cases by assumption. rewrite Hf. apply fatal_er.
Qed.

(* ================================================================== *)
(* Theorem 4: every spelling of localhost                              *)
(* ================================================================== *)
Theorem file_localhost_parse u h :
  str_lower (D h) = s_localhost -> parseHost idna_raw c u h false = Ok u s_localhost.
Proof.
  intros Hs. rewrite <- Hs. apply ascii_host_exact.
  - intros E. rewrite E in Hs. discriminate.
  - apply str_lower_ascii_inv. rewrite Hs. apply asciib_spec. reflexivity.
  - unfold no_ace. rewrite Hs. reflexivity.
  - rewrite Hs. reflexivity.
  - rewrite Hs. reflexivity.
Qed.
End H1.

(* ================================================================== *)
(* Theorem 3: the spelling of a domain does not matter                 *)
(* ================================================================== *)
Section H2.
Hypothesis H2 : oracle_case_invariant idna_raw.

Lemma ToASCII_case d1 d2 : valid_utf8 d1 = true -> str_lower d1 = str_lower d2 ->
  ToASCII idna_raw c d1 = ToASCII idna_raw c d2.
Proof.
  intros Hv Hs. unfold ToASCII. rewrite Hl1.
  destruct d1 as [|b1 t1].
  - symmetry in Hs. apply str_lower_nil in Hs. subst d2. reflexivity.
  - destruct d2 as [|b2 t2]; [discriminate Hs|].
    rewrite (H2 (b1 :: t1) (b2 :: t2)) by (try assumption; discriminate).
    rewrite (fallback_test_case (b1 :: t1) (b2 :: t2)) by exact Hs. reflexivity.
Qed.

Lemma domain_host_case u d1 d2 : str_lower d1 = str_lower d2 -> domain_host u d1 = domain_host u d2.
Proof.
  intros Hs. unfold domain_host. rewrite <- (valid_utf8_case d1 d2 Hs).
  destruct (valid_utf8 d1) eqn:Hv; [|reflexivity].
  unfold k_valid. rewrite (ToASCII_case d1 d2 Hv Hs). reflexivity.
Qed.

Theorem host_spelling_invariant u h1 h2 :
  not_bracket h1 -> not_bracket h2 ->
  str_lower (D h1) = str_lower (D h2) ->
  parseHost idna_raw c u h1 false = parseHost idna_raw c u h2 false.
Proof.
  intros Hb1 Hb2 Hs.
  destruct h1 as [|b1 t1].
  - change (str_lower (D [])) with (@nil N) in Hs. symmetry in Hs.
    apply str_lower_nil, D_nil_inv in Hs. subst h2. reflexivity.
  - destruct h2 as [|b2 t2].
    + change (str_lower (D [])) with (@nil N) in Hs.
      apply str_lower_nil, D_nil_inv in Hs. discriminate Hs.
    + rewrite !parseHost_domain by (try assumption; discriminate).
      apply domain_host_case. exact Hs.
Qed.
End H2.

(* ================================================================== *)
(* Theorem 2: what a successful parse of a domain returns              *)
(* ================================================================== *)
Definition ipv4_shape (r : str) : Prop := r = [] \/ exists n, r = IPv4String n.

Lemma herr_ok {A} u t f (k : url -> res A) u' r :
  herr c u t f k = Ok u' r -> exists u1, k u1 = Ok u' r.
Proof.
  unfold herr. destruct (handleError c u t f) as [u1 [e|]]; [discriminate|]. eauto.
Qed.

Lemma range_warn_ok ns : forall u k u' r,
  ipv4_range_warn c u ns k = Ok u' r -> exists u1, k u1 = Ok u' r.
Proof.
  induction ns as [|n ns IH]; intros u k u' r H; cbn [ipv4_range_warn] in H; [eauto|].
  destruct (255 <? n); [|eapply IH; exact H].
  apply herr_ok in H. destruct H as [u1 H]. eapply IH; exact H.
Qed.

Lemma m_tail_shape u ns u' r : IPv4Proofs.m_tail c u ns = Ok u' r -> ipv4_shape r.
Proof.
  unfold IPv4Proofs.m_tail. cbv zeta. destruct (existsb _ _); [rewrite herr_true; discriminate|].
  destruct (last_opt ns) as [lastn|].
  - destruct (_ <=? lastn); [rewrite herr_true; discriminate|].
    intros H. inversion H. right. eauto.
  - intros H. inversion H. left. reflexivity.
Qed.

Lemma after_empty_shape u parts u' r : IPv4Proofs.m_after_empty c u parts = Ok u' r -> ipv4_shape r.
Proof.
  unfold IPv4Proofs.m_after_empty.
  assert (G : forall u, match ipv4_numbers c u parts [] with
                        | Er u e => Er u e
                        | Ok u numbers => ipv4_range_warn c u numbers (fun u => IPv4Proofs.m_tail c u numbers)
                        end = Ok u' r -> ipv4_shape r).
  { intros u1 H. destruct (ipv4_numbers c u1 parts []) as [u2 ns|]; [|discriminate].
    apply range_warn_ok in H. destruct H as [u3 H]. eapply m_tail_shape; exact H. }
  destruct (4 <? len parts)%Z; [rewrite herr_true; discriminate|apply G].
Qed.

Lemma parseIPv4_shape u s u' r : parseIPv4 c u s = Ok u' r -> ipv4_shape r.
Proof.
  rewrite IPv4Proofs.parseIPv4_unfold. cbv zeta.
  destruct (last_opt (split 46 s)) as [[|x t]|]; try apply after_empty_shape.
  intros H. apply herr_ok in H. destruct H as [u1 H]. eapply after_empty_shape; exact H.
Qed.

Lemma fmt_fuel_digits fuel : forall n, Forall (fun b => 48 <= b <= 57) (fmt_fuel 10 hex_lower fuel n).
Proof.
  induction fuel as [|f IH]; intros n; cbn [fmt_fuel]; [constructor|].
  destruct (n <? 10) eqn:E.
  - constructor; [|constructor]. unfold hex_lower. rewrite E. lia.
  - apply Forall_app. split; [apply IH|]. constructor; [|constructor].
    unfold hex_lower. replace (n mod 10 <? 10) with true by lia. lia.
Qed.

Lemma clean_digit_dot b : (48 <= b <= 57 \/ b = 46) -> clean_byte b = true.
Proof.
  intros H. unfold clean_byte, is_upper, PS.forbidden_domain_cp, PS.forbidden_host_cp. lia.
Qed.

Lemma IPv4String_clean n : clean (IPv4String n).
Proof.
  assert (G : forall m, clean (itoa m)).
  { intros m. unfold itoa. eapply Forall_impl; [|apply fmt_fuel_digits].
    intros b Hb. apply clean_digit_dot. left. exact Hb. }
  assert (Hd : clean [46]) by (constructor; [reflexivity|constructor]).
  unfold IPv4String, clean. repeat (apply Forall_app; split); try apply G; exact Hd.
Qed.

Lemma ipv4_shape_clean r : ipv4_shape r -> clean r.
Proof. intros [->|[n ->]]; [constructor|apply IPv4String_clean]. Qed.

Lemma parseIPv6_bracket u s u' r : parseIPv6 c u s = Ok u' r -> exists t, r = 91 :: t.
Proof.
  unfold parseIPv6. destruct (ipv6_parse (runes s)) as [addr|t]; [|rewrite herr_true; discriminate].
  intros H. inversion H. cbn [app]. eauto.
Qed.

Section H3.
Hypothesis H3 : oracle_lower_ascii_output idna_raw.

Lemma ToASCII_output d a : valid_utf8 d = true -> ToASCII idna_raw c d = Some a -> lower_ascii a.
Proof.
  intros Hv H. unfold ToASCII in H. destruct d as [|b t].
  - inversion H. constructor.
  - rewrite Hl1, Hlax in H. pose proof (H3 (b :: t)) as G.
    destruct (idna_raw (b :: t)) as [a' err]. cbn [fst snd negb] in *.
    destruct err; cbn [andb] in H.
    + destruct (containsOnlyASCIIOrMiscAndNoPunycode (b :: t)); [|discriminate].
      inversion H; subst a'. apply G; [discriminate|exact Hv|right; reflexivity].
    + destruct (is_nil a'); [discriminate|]. inversion H; subst a'.
      apply G; [discriminate|exact Hv|left; reflexivity].
Qed.

Lemma lower_ascii_clean a : lower_ascii a -> existsb isForbiddenDomain (runes a) = false -> clean a.
Proof.
  intros Hl Hf. assert (Ha : ascii a) by (eapply Forall_impl; [|exact Hl]; intros b [Hb _]; exact Hb).
  rewrite runes_ascii in Hf by exact Ha.
  rewrite (existsb_ext' isForbiddenDomain PS.forbidden_domain_cp) in Hf by apply forbidden_domain_table.
  unfold clean, lower_ascii in *. rewrite Forall_forall in *. intros b Hb.
  destruct (Hl b Hb) as [G1 G2]. unfold clean_byte. rewrite G2.
  assert (G3 : PS.forbidden_domain_cp b = false).
  { destruct (PS.forbidden_domain_cp b) eqn:E; [|reflexivity].
    assert (existsb PS.forbidden_domain_cp a = true) by (apply existsb_exists; eauto). congruence. }
  rewrite G3. lia.
Qed.

Theorem domain_output_clean u h u' r :
  parseHost idna_raw c u h false = Ok u' r -> (forall t, r <> 91 :: t) -> clean r.
Proof.
  intros H Hr. destruct h as [|b t].
  - unfold parseHost in H. rewrite Hpre in H. cbn [apply_hostfun] in H. inversion H. constructor.
  - destruct (N.eq_dec b 91) as [->|Hb].
    + exfalso. unfold parseHost in H. rewrite Hpre in H. cbn [apply_hostfun] in H.
      destruct (negb (has_suffix [93] (91 :: t))).
      * rewrite herr_true in H. discriminate.
      * apply parseIPv6_bracket in H. destruct H as [t' E]. exact (Hr t' E).
    + rewrite parseHost_domain in H; [|discriminate|intros t' E; inversion E; congruence].
      unfold domain_host in H. destruct (valid_utf8 (D (b :: t))) eqn:Hv; [|unfold fatal in H; rewrite herr_true in H; discriminate].
      unfold k_valid in H. destruct (ToASCII idna_raw c (D (b :: t))) as [a|] eqn:Ea; [|unfold fatal in H; rewrite herr_true in H; discriminate].
      destruct (existsb isForbiddenDomain (runes a)) eqn:Ef; [unfold fatal in H; rewrite herr_true in H; discriminate|].
      unfold k_clean in H. destruct (S4.ends_in_a_number a).
      * apply ipv4_shape_clean. eapply parseIPv4_shape. exact H.
      * inversion H; subst. apply lower_ascii_clean; [|exact Ef]. eapply ToASCII_output; eassumption.
Qed.
End H3.

(* ================================================================== *)
(* Theorem 4, machine level: the FileHost state                        *)
(* ================================================================== *)
Section FileHostStep.
Hypothesis H1 : oracle_ascii_transparent idna_raw.
Variable inp : list rune.
Variable base : option url.
Variable override : option state.

Lemma localhost_not_drive buf : str_lower (D buf) = s_localhost -> isWindowsDriveLetter buf = false /\ is_nil buf = false.
Proof.
  intros H. assert (L : (length (D buf) = 9)%nat).
  { rewrite <- (map_length ascii_lower). fold (str_lower (D buf)). rewrite H. reflexivity. }
  destruct (D_length c Hl1 buf) as [G _]. rewrite L in G.
  destruct buf as [|a [|b [|x t]]]; cbn [length] in G; try lia. split; reflexivity.
Qed.

Theorem file_localhost_empty (m : mstate) :
  let p := (m_ptr m + 1)%Z in
  let eof := if (n_inp inp <=? p)%Z then true else m_eof m in
  let r := if (n_inp inp <=? p)%Z then rune_error else cp_at inp p in
  m_state m = FileHost ->
  eof || (r =? 47) || (r =? 92) || (r =? 63) || (r =? 35) = true ->
  IsSpecialScheme c (m_url m) = true ->
  str_lower (D (m_buf m)) = s_localhost ->
  step idna_raw c inp base override m =
    let u := set_host (m_url m) (Some []) in
    if is_some override then RetUrl u
    else Cont (mk PathStart (p - 1)%Z false [] (m_at m) (m_br m) (m_pw m) u).
Proof.
  intros p eof r Hst Hd Hsp Hs.
  destruct (localhost_not_drive _ Hs) as [Hw Hn].
  unfold step. rewrite Hst. cbv zeta. fold p. fold eof. fold r. rewrite Hd, Hw, Hn, Hsp.
  rewrite andb_false_r. cbn [negb]. rewrite (file_localhost_parse H1 _ _ Hs).
  reflexivity.
Qed.
End FileHostStep.
End Domain.

(* ================================================================== *)
(* 4. Percent-escapes are invisible to the decoder ... when they are   *)
(* ================================================================== *)
(* [a] does not end in the beginning of an escape ("%" or "%" hex) *)
Fixpoint no_pending (a : str) : bool :=
  match a with
  | [] => true
  | [x] => negb (x =? 37)
  | [x; y] => negb (y =? 37) && negb ((x =? 37) && is_hex y)
  | _ :: a' => no_pending a'
  end.

Lemma no_pending_tl x a : no_pending (x :: a) = true -> no_pending a = true.
Proof.
  destruct a as [|y [|z t]]; [reflexivity| |intros H; exact H].
  cbn [no_pending]. intros H. apply andb_true_iff in H. apply H.
Qed.

(* escape the bytes of [h] selected by [mask] *)
Fixpoint esc (mask : list bool) (h : str) : str :=
  match h with
  | [] => []
  | b :: t =>
      match mask with
      | m :: ms => (if m then pct_byte b else [b]) ++ esc ms t
      | [] => h
      end
  end.

Section Escapes.
Variable c : cfg.
Hypothesis Hl1 : c_latin1 c = false.
Notation D := (DecodePercentEncoded c).

Lemma D_app a : no_pending a = true -> forall x, D (a ++ x) = D a ++ D x.
Proof.
  induction a as [a IH] using list_len_ind. intros Hp x0.
  destruct a as [|x [|y [|z t]]].
  - reflexivity.
  - cbn [no_pending] in Hp. cbn [app]. rewrite !(D_ne c x) by lia. reflexivity.
  - cbn [no_pending] in Hp. cbn [app]. destruct (N.eq_dec x 37) as [->|Hx].
    + assert (Hy : is_hex y = false) by (change (37 =? 37) with true in Hp; destruct (is_hex y); [rewrite andb_false_r in Hp; discriminate|reflexivity]).
      rewrite !(D_nohex c) by (apply starts_hex2_head; exact Hy).
      rewrite !(D_ne c y) by lia. reflexivity.
    + rewrite !(D_ne c x) by exact Hx. rewrite !(D_ne c y) by lia. reflexivity.
  - destruct (N.eq_dec x 37) as [->|Hx].
    + destruct (is_hex y && is_hex z) eqn:E.
      * apply andb_true_iff in E. destruct E as [Ey Ez]. cbn [app].
        rewrite !(D_hex c Hl1) by assumption. cbn [app]. f_equal.
        apply IH; [cbn [length]; lia|].
        apply (no_pending_tl z), (no_pending_tl y), (no_pending_tl 37). exact Hp.
      * cbn [app]. rewrite !(D_nohex c) by exact E.
        change (y :: z :: t ++ x0) with ((y :: z :: t) ++ x0). cbn [app]. f_equal.
        apply (IH (y :: z :: t)); [cbn [length]; lia|]. apply (no_pending_tl 37). exact Hp.
    + change ((x :: y :: z :: t) ++ x0) with (x :: (y :: z :: t) ++ x0).
      rewrite !(D_ne c x) by exact Hx. cbn [app]. f_equal.
      apply (IH (y :: z :: t)); [cbn [length]; lia|]. apply (no_pending_tl x). exact Hp.
Qed.

(* replacing one byte by its escape: the exact side conditions *)
Theorem pct_escape_invisible a b z :
  no_pending a = true -> b < 256 -> (b <> 37 \/ starts_hex2 z = false) ->
  D (a ++ pct_byte b ++ z) = D (a ++ b :: z).
Proof.
  intros Hp Hb Hz. rewrite (D_app a Hp (pct_byte b ++ z)), (D_app a Hp (b :: z)). f_equal.
  rewrite (D_pct_byte c Hl1) by exact Hb.
  destruct (N.eq_dec b 37) as [->|Hne].
  - destruct Hz as [Hz|Hz]; [congruence|]. rewrite (D_nohex c) by exact Hz. reflexivity.
  - rewrite (D_ne c b) by exact Hne. reflexivity.
Qed.

(* a string without "%": any set of positions may be escaped *)
Theorem pct_escape_mask mask : forall h,
  Forall (fun b => b < 256) h -> ~ In 37 h -> D (esc mask h) = D h.
Proof.
  induction mask as [|m ms IH]; intros h Hb Hn.
  - destruct h; reflexivity.
  - destruct h as [|b t]; [reflexivity|]. inversion Hb as [|? ? Hb1 Hb2]; subst.
    assert (Hn' : ~ In 37 t) by (intros G; apply Hn; right; exact G).
    assert (Hb37 : b <> 37) by (intros G; apply Hn; left; exact G).
    cbn [esc]. rewrite (D_ne c b) by exact Hb37. destruct m.
    + rewrite (D_pct_byte c Hl1) by exact Hb1. f_equal. apply IH; assumption.
    + cbn [app]. rewrite (D_ne c b) by exact Hb37. f_equal. apply IH; assumption.
Qed.
(* the side condition on [a] is exact: a pending escape swallows what follows *)
Lemma no_pending_cons z t : z <> 37 -> no_pending t = true -> no_pending (z :: t) = true.
Proof.
  intros Hz Ht. destruct t as [|w [|v t]]; cbn [no_pending] in *.
  - replace (z =? 37) with false by lia. reflexivity.
  - rewrite Ht. replace (z =? 37) with false by lia. reflexivity.
  - exact Ht.
Qed.

Lemma D_pending_len a : no_pending a = false -> (length (D (a ++ [52; 49]%N)) < length (D a) + 2)%nat.
Proof.
  induction a as [a IH] using list_len_ind. intros Hp.
  assert (H52 : is_hex 52 = true) by reflexivity. assert (H49 : is_hex 49 = true) by reflexivity.
  destruct a as [|x [|y [|z t]]].
  - discriminate Hp.
  - cbn [no_pending] in Hp. assert (x = 37) by lia. subst x. cbn [app].
    rewrite (D_hex c Hl1) by assumption. rewrite (D_nohex c) by reflexivity. cbn [DecodePercentEncoded length]. lia.
  - cbn [no_pending] in Hp. cbn [app]. destruct (N.eq_dec x 37) as [->|Hx].
    + change (37 =? 37) with true in Hp. cbn [andb] in Hp. destruct (is_hex y) eqn:Ey.
      * rewrite (D_hex c Hl1) by assumption. rewrite (D_nohex c [y]) by reflexivity.
        assert (y <> 37) by (intros ->; discriminate Ey).
        rewrite !(D_ne c) by (try assumption; discriminate). cbn [DecodePercentEncoded length]. lia.
      * assert (y = 37) by (cbn [negb] in Hp; rewrite andb_true_r in Hp; lia). subst y.
        rewrite (D_nohex c (37 :: _)) by reflexivity. rewrite (D_hex c Hl1) by assumption.
        rewrite (D_nohex c [37]) by reflexivity. rewrite (D_nohex c []) by reflexivity.
        cbn [DecodePercentEncoded length]. lia.
    + replace (x =? 37) with false in Hp by lia. cbn [andb negb] in Hp. rewrite andb_true_r in Hp.
      assert (y = 37) by lia. subst y.
      rewrite !(D_ne c x) by exact Hx. rewrite (D_hex c Hl1) by assumption. rewrite (D_nohex c []) by reflexivity.
      cbn [DecodePercentEncoded length]. lia.
  - destruct (N.eq_dec x 37) as [->|Hx].
    + destruct (is_hex y && is_hex z) eqn:E.
      * apply andb_true_iff in E. destruct E as [Ey Ez]. cbn [app].
        rewrite !(D_hex c Hl1) by assumption. cbn [length].
        assert (Ht : no_pending t = false).
        { destruct (no_pending t) eqn:Et; [|reflexivity]. exfalso.
          assert (y <> 37) by (intros ->; discriminate Ey). assert (z <> 37) by (intros ->; discriminate Ez).
          apply (no_pending_cons z) in Et; [|assumption]. apply (no_pending_cons y) in Et; [|assumption].
          change (no_pending (37 :: y :: z :: t)) with (no_pending (y :: z :: t)) in Hp. congruence. }
        specialize (IH t). cbn [length] in IH. specialize (IH ltac:(lia) Ht). lia.
      * cbn [app]. rewrite !(D_nohex c) by exact E. cbn [length].
        specialize (IH (y :: z :: t)). cbn [length app] in IH.
        change (no_pending (37 :: y :: z :: t)) with (no_pending (y :: z :: t)) in Hp.
        specialize (IH ltac:(lia) Hp). lia.
    + change ((x :: y :: z :: t) ++ [52; 49]) with (x :: (y :: z :: t) ++ [52; 49]).
      rewrite !(D_ne c x) by exact Hx. cbn [length].
      change (no_pending (x :: y :: z :: t)) with (no_pending (y :: z :: t)) in Hp.
      specialize (IH (y :: z :: t)). cbn [length] in IH. specialize (IH ltac:(lia) Hp). lia.
Qed.

Theorem no_pending_exact a :
  no_pending a = true <-> forall x, D (a ++ x) = D a ++ D x.
Proof.
  split; [apply D_app|]. intros H. destruct (no_pending a) eqn:E; [reflexivity|]. exfalso.
  pose proof (D_pending_len a E) as L. rewrite (H [52; 49]), app_length in L.
  rewrite !(D_ne c) in L by discriminate. cbn [DecodePercentEncoded length] in L. lia.
Qed.
End Escapes.

(* ================================================================== *)
(* 5. laxHostParsing only changes failures                             *)
(* ================================================================== *)
(* the fields the host parser reads, apart from c_lax *)
Definition host_cfg_agree (c1 c2 : cfg) : Prop :=
  c_report c1 = c_report c2 /\ c_fail c1 = c_fail c2 /\ c_latin1 c1 = c_latin1 c2 /\
  c_pre c1 = c_pre c2 /\ c_post c1 = c_post c2.

Section Lax.
Variable idna_raw : str -> str * bool.
Variables c1 c2 : cfg.
Hypothesis Hag : host_cfg_agree c1 c2.
Hypothesis Hstrict : c_lax c1 = false.

Lemma handleError_agree u t f : handleError c1 u t f = handleError c2 u t f.
Proof. destruct Hag as [Hr [Hf _]]. unfold handleError. rewrite Hr, Hf. reflexivity. Qed.

Lemma herr_agree {A} u t f (k1 k2 : url -> res A) :
  (forall u, k1 u = k2 u) -> herr c1 u t f k1 = herr c2 u t f k2.
Proof.
  intros H. unfold herr. rewrite handleError_agree.
  destruct (handleError c2 u t f) as [u1 [e|]]; [reflexivity|apply H].
Qed.

Lemma herr_impl {A} u t f (k1 k2 : url -> res A) u' r :
  (forall u, k1 u = Ok u' r -> k2 u = Ok u' r) ->
  herr c1 u t f k1 = Ok u' r -> herr c2 u t f k2 = Ok u' r.
Proof.
  intros H. unfold herr. rewrite handleError_agree.
  destruct (handleError c2 u t f) as [u1 [e|]]; [discriminate|apply H].
Qed.

Lemma parseIPv4Number_agree u p : parseIPv4Number c1 u p = parseIPv4Number c2 u p.
Proof. unfold parseIPv4Number. destruct p; [|reflexivity]. rewrite handleError_agree. reflexivity. Qed.

Lemma ipv4_numbers_agree parts : forall u acc, ipv4_numbers c1 u parts acc = ipv4_numbers c2 u parts acc.
Proof.
  induction parts as [|p rest IH]; intros u acc; [reflexivity|].
  cbn [ipv4_numbers]. rewrite parseIPv4Number_agree.
  destruct (parseIPv4Number c2 u p) as [u1 [n ve|rg]].
  - destruct ve; [|apply IH]. apply herr_agree. intros u2. apply IH.
  - apply herr_agree. intros u2. apply IH.
Qed.

Lemma range_warn_agree ns : forall u (k1 k2 : url -> res str),
  (forall u, k1 u = k2 u) -> ipv4_range_warn c1 u ns k1 = ipv4_range_warn c2 u ns k2.
Proof.
  induction ns as [|n ns IH]; intros u k1 k2 H; cbn [ipv4_range_warn]; [apply H|].
  destruct (255 <? n); [|apply IH; exact H].
  apply herr_agree. intros u1. apply IH. exact H.
Qed.

Lemma m_tail_agree u ns : IPv4Proofs.m_tail c1 u ns = IPv4Proofs.m_tail c2 u ns.
Proof.
  unfold IPv4Proofs.m_tail. cbv zeta. destruct (existsb _ _); [apply herr_agree; reflexivity|].
  destruct (last_opt ns) as [lastn|]; [|reflexivity].
  destruct (_ <=? lastn); [apply herr_agree; reflexivity|reflexivity].
Qed.

Lemma after_empty_agree u parts : IPv4Proofs.m_after_empty c1 u parts = IPv4Proofs.m_after_empty c2 u parts.
Proof.
  unfold IPv4Proofs.m_after_empty.
  assert (G : forall u, match ipv4_numbers c1 u parts [] with
                        | Er u e => Er u e
                        | Ok u numbers => ipv4_range_warn c1 u numbers (fun u => IPv4Proofs.m_tail c1 u numbers)
                        end =
                        match ipv4_numbers c2 u parts [] with
                        | Er u e => Er u e
                        | Ok u numbers => ipv4_range_warn c2 u numbers (fun u => IPv4Proofs.m_tail c2 u numbers)
                        end).
  { intros u1. rewrite ipv4_numbers_agree. destruct (ipv4_numbers c2 u1 parts []) as [u2 ns|]; [|reflexivity].
    apply range_warn_agree. intros u3. apply m_tail_agree. }
  destruct (4 <? len parts)%Z; [apply herr_agree; exact G|apply G].
Qed.

Lemma parseIPv4_cfg u s : parseIPv4 c1 u s = parseIPv4 c2 u s.
Proof.
  rewrite !IPv4Proofs.parseIPv4_unfold. cbv zeta.
  destruct (last_opt (split 46 s)) as [[|x t]|]; try apply after_empty_agree.
  apply herr_agree. intros u1. apply after_empty_agree.
Qed.

Lemma parseIPv6_cfg u s : parseIPv6 c1 u s = parseIPv6 c2 u s.
Proof.
  unfold parseIPv6. destruct (ipv6_parse (runes s)); [reflexivity|apply herr_agree; reflexivity].
Qed.

Lemma D_cfg s : DecodePercentEncoded c1 s = DecodePercentEncoded c2 s.
Proof.
  destruct Hag as [_ [_ [Hl _]]].
  induction s as [s IH] using list_len_ind.
  destruct s as [|b s]; [reflexivity|]. cbn [DecodePercentEncoded]. rewrite Hl.
  destruct (b =? 37).
  - destruct s as [|h [|l s]]; [reflexivity|reflexivity|].
    destruct (isHexDigit h && isHexDigit l).
    + f_equal. apply IH. cbn [length]. lia.
    + f_equal. apply (IH (h :: l :: s)). cbn [length]. lia.
  - f_equal. apply IH. cbn [length]. lia.
Qed.

Lemma percentEncodeRune_cfg r tr : percentEncodeRune c1 r tr = percentEncodeRune c2 r tr.
Proof. destruct Hag as [_ [_ [Hl _]]]. unfold percentEncodeRune. rewrite Hl. reflexivity. Qed.

Lemma opaque_loop_lax input l : forall u out u' r,
  opaque_loop c1 u input l out = Ok u' r -> opaque_loop c2 u input l out = Ok u' r.
Proof.
  induction l as [|ch rest IH]; intros u out u' r H; [exact H|].
  cbn [opaque_loop] in *. cbv zeta in *.
  assert (K : forall u0,
    (if negb (isURLCodePoint ch) && negb (ch =? 37)
     then fun k => herr c1 u0 InvalidURLUnit false k else fun k => k u0)
      (fun u1 => (if (ch =? 37) && invalid_pct (ch :: rest)
                  then fun k => herr c1 u1 InvalidURLUnit false k else fun k => k u1)
                   (fun u2 => opaque_loop c1 u2 input rest (out ++ percentEncodeRune c1 ch (Some pes_C0)))) = Ok u' r ->
    (if negb (isURLCodePoint ch) && negb (ch =? 37)
     then fun k => herr c2 u0 InvalidURLUnit false k else fun k => k u0)
      (fun u1 => (if (ch =? 37) && invalid_pct (ch :: rest)
                  then fun k => herr c2 u1 InvalidURLUnit false k else fun k => k u1)
                   (fun u2 => opaque_loop c2 u2 input rest (out ++ percentEncodeRune c2 ch (Some pes_C0)))) = Ok u' r).
  { intros u0.
    assert (K2 : forall u1,
      (if (ch =? 37) && invalid_pct (ch :: rest)
       then fun k => herr c1 u1 InvalidURLUnit false k else fun k => k u1)
        (fun u2 => opaque_loop c1 u2 input rest (out ++ percentEncodeRune c1 ch (Some pes_C0))) = Ok u' r ->
      (if (ch =? 37) && invalid_pct (ch :: rest)
       then fun k => herr c2 u1 InvalidURLUnit false k else fun k => k u1)
        (fun u2 => opaque_loop c2 u2 input rest (out ++ percentEncodeRune c2 ch (Some pes_C0))) = Ok u' r).
    { intros u1. rewrite <- percentEncodeRune_cfg.
      destruct ((ch =? 37) && invalid_pct (ch :: rest)); [|apply IH].
      apply herr_impl. intros u2. apply IH. }
    destruct (negb (isURLCodePoint ch) && negb (ch =? 37)); [|apply K2].
    apply herr_impl. exact K2. }
  destruct (isForbiddenHost ch); [|apply K; exact H].
  rewrite Hstrict in H. rewrite herr_true in H. discriminate.
Qed.

Lemma ToASCII_lax d a : ToASCII idna_raw c1 d = Some a -> ToASCII idna_raw c2 d = Some a.
Proof.
  destruct Hag as [_ [_ [Hl _]]]. unfold ToASCII. destruct d as [|b t]; [auto|].
  rewrite Hl, Hstrict.
  destruct (idna_raw _) as [a' err].
  destruct (err && containsOnlyASCIIOrMiscAndNoPunycode _); [auto|].
  destruct err; cbn [andb negb]; [discriminate|auto].
Qed.

Theorem lax_conservative u h b u' r :
  parseHost idna_raw c1 u h b = Ok u' r -> parseHost idna_raw c2 u h b = Ok u' r.
Proof.
  destruct Hag as [_ [_ [_ [Hpre Hpost]]]].
  unfold parseHost. rewrite <- Hpre, <- Hpost. rewrite Hstrict.
  destruct (apply_hostfun (c_pre c1) h) as [|x t]; [auto|].
  destruct (N.eq_dec x 91) as [->|Hx].
  - destruct (negb (has_suffix [93] (91 :: t))).
    + rewrite herr_true. discriminate.
    + rewrite parseIPv6_cfg. auto.
  - rewrite !(match_bracket x _ _ Hx). destruct b.
    + unfold parseOpaqueHost. apply opaque_loop_lax.
    + rewrite <- D_cfg. set (d := DecodePercentEncoded c1 (x :: t)).
      destruct (valid_utf8 d); cbn [negb]; [|rewrite herr_true; discriminate].
      destruct (ToASCII idna_raw c1 d) as [a|] eqn:Ea; [|rewrite herr_true; discriminate].
      rewrite (ToASCII_lax d a Ea).
      destruct (existsb isForbiddenDomain (runes a)); [rewrite herr_true; discriminate|].
      rewrite !endsInANumber_url. rewrite parseIPv4_cfg. auto.
Qed.
End Lax.

(* ================================================================== *)
(* 6. The two variations of Theorem 3                                  *)
(* ================================================================== *)
Lemma is_hex_lower x : is_hex (ascii_lower x) = is_hex x.
Proof. unfold is_hex, is_digit, ascii_lower, is_upper. destruct ((65 <=? x) && (x <=? 90)) eqn:E; lia. Qed.

Lemma hex_val_lower x : hex_val (ascii_lower x) = hex_val x.
Proof.
  unfold ascii_lower, is_upper. destruct ((65 <=? x) && (x <=? 90)) eqn:E; [|reflexivity].
  unfold hex_val, is_digit. decide_ifs; lia.
Qed.

Lemma ascii_lower_eq_37 b : ascii_lower b = 37 -> b = 37.
Proof. unfold ascii_lower, is_upper. destruct ((65 <=? b) && (b <=? 90)) eqn:E; lia. Qed.

Lemma ascii_lower_eq_91 b : ascii_lower b = 91 -> b = 91.
Proof. unfold ascii_lower, is_upper. destruct ((65 <=? b) && (b <=? 90)) eqn:E; lia. Qed.

Lemma starts_hex2_case t1 t2 : str_lower t1 = str_lower t2 -> starts_hex2 t1 = starts_hex2 t2.
Proof.
  intros H. destruct t1 as [|x1 [|y1 s1]], t2 as [|x2 [|y2 s2]]; try discriminate H; try reflexivity.
  cbn [str_lower map] in H. inversion H as [[Hx Hy Hs]].
  cbn [starts_hex2]. rewrite <- (is_hex_lower x1), <- (is_hex_lower y1), Hx, Hy, !is_hex_lower. reflexivity.
Qed.

Section Variations.
Variable idna_raw : str -> str * bool.
Variable c : cfg.
Hypothesis Hlax : c_lax c = false.
Hypothesis Hl1 : c_latin1 c = false.
Hypothesis Hpre : c_pre c = HF_none.
Hypothesis Hpost : c_post c = HF_none.
Hypothesis H2 : oracle_case_invariant idna_raw.
Notation D := (DecodePercentEncoded c).

(* ASCII case of the raw input (including the case of hex digits in escapes) *)
Lemma D_case h1 : forall h2, str_lower h1 = str_lower h2 -> str_lower (D h1) = str_lower (D h2).
Proof.
  induction h1 as [h1 IH] using list_len_ind. intros h2 H.
  destruct h1 as [|b1 t1].
  - symmetry in H. apply str_lower_nil in H. subst h2. reflexivity.
  - destruct h2 as [|b2 t2]; [discriminate H|].
    cbn [str_lower map] in H. inversion H as [[Hb Ht]]. fold (str_lower t1) in Ht. fold (str_lower t2) in Ht.
    destruct (N.eq_dec b1 37) as [->|Hne].
    + symmetry in Hb. apply ascii_lower_eq_37 in Hb. subst b2.
      pose proof (starts_hex2_case t1 t2 Ht) as Hh.
      destruct (starts_hex2 t1) eqn:E1.
      * symmetry in Hh. apply starts_hex2_inv in E1, Hh.
        destruct E1 as [x1 [y1 [s1 [-> [Hx1 Hy1]]]]]. destruct Hh as [x2 [y2 [s2 [-> [Hx2 Hy2]]]]].
        cbn [str_lower map] in Ht. inversion Ht as [[Hx Hy Hs]].
        rewrite !(D_hex c Hl1) by assumption. cbn [str_lower map]. f_equal.
        -- rewrite <- (hex_val_lower x1), <- (hex_val_lower y1), Hx, Hy, !hex_val_lower. reflexivity.
        -- apply IH; [cbn [length]; lia|exact Hs].
      * rewrite !(D_nohex c) by congruence. cbn [str_lower map]. f_equal.
        apply IH; [cbn [length]; lia|exact Ht].
    + assert (Hne2 : b2 <> 37) by (intros ->; apply Hne; apply ascii_lower_eq_37; exact Hb).
      rewrite (D_ne c b1), (D_ne c b2) by assumption. cbn [str_lower map]. f_equal; [exact Hb|].
      apply IH; [cbn [length]; lia|exact Ht].
Qed.

Corollary host_case_invariant u h1 h2 :
  not_bracket h1 -> str_lower h1 = str_lower h2 ->
  parseHost idna_raw c u h1 false = parseHost idna_raw c u h2 false.
Proof.
  intros Hb Hs. apply (host_spelling_invariant idna_raw c Hlax Hl1 Hpre Hpost H2); [exact Hb| |apply D_case; exact Hs].
  intros t E. subst h2. destruct h1 as [|b t1]; [discriminate Hs|].
  cbn [str_lower map] in Hs. injection Hs as Hb1 Ht1. change (ascii_lower 91) with 91 in Hb1.
  apply ascii_lower_eq_91 in Hb1. subst b. exact (Hb t1 eq_refl).
Qed.

(* one byte replaced by its escape *)
Corollary host_escape_invariant u a b z :
  no_pending a = true -> b < 256 -> (b <> 37 \/ starts_hex2 z = false) ->
  not_bracket (a ++ b :: z) ->
  parseHost idna_raw c u (a ++ pct_byte b ++ z) false = parseHost idna_raw c u (a ++ b :: z) false.
Proof.
  intros Hp Hb Hz Hnb. apply (host_spelling_invariant idna_raw c Hlax Hl1 Hpre Hpost H2); [|exact Hnb|].
  - intros t E. destruct a as [|x a'].
    + cbn [app] in E. discriminate E.
    + cbn [app] in E. inversion E. subst x. apply (Hnb (a' ++ b :: z)). reflexivity.
  - f_equal. apply pct_escape_invisible; assumption.
Qed.

(* any set of positions of a %-free input replaced by escapes *)
Corollary host_escape_mask_invariant u mask h :
  Forall (fun b => b < 256) h -> ~ In 37 h -> not_bracket h ->
  parseHost idna_raw c u (esc mask h) false = parseHost idna_raw c u h false.
Proof.
  intros Hb Hn Hnb. apply (host_spelling_invariant idna_raw c Hlax Hl1 Hpre Hpost H2); [|exact Hnb|].
  - intros t E. destruct h as [|x h']; [destruct mask; discriminate E|].
    destruct mask as [|m ms]; [cbn [esc] in E; exact (Hnb _ E)|].
    cbn [esc] in E. destruct m; cbn [app pct_byte] in E; [discriminate E|].
    inversion E. subst x. exact (Hnb h' eq_refl).
  - f_equal. apply pct_escape_mask; assumption.
Qed.
End Variations.

Definition with_lax (c : cfg) (b : bool) : cfg :=
  {| c_report := c_report c; c_fail := c_fail c; c_lax := b; c_collapse := c_collapse c;
     c_acceptInvalid := c_acceptInvalid c; c_pre := c_pre c; c_post := c_post c; c_singlePct := c_singlePct c;
     c_allowPathNonBase := c_allowPathNonBase c; c_skipDrive := c_skipDrive c; c_special := c_special c;
     c_skipTrailSlash := c_skipTrailSlash c; c_latin1 := c_latin1 c; c_pathSet := c_pathSet c;
     c_squerySet := c_squerySet c; c_querySet := c_querySet c; c_sfragSet := c_sfragSet c;
     c_fragSet := c_fragSet c; c_skipEq := c_skipEq c |}.

Corollary lax_conservative_with_lax idna_raw c u h b u' r :
  parseHost idna_raw (with_lax c false) u h b = Ok u' r ->
  parseHost idna_raw (with_lax c true) u h b = Ok u' r.
Proof. apply lax_conservative; [repeat split|reflexivity]. Qed.

(* ================================================================== *)
(* 7. Closed statements, examples, refutations                         *)
(* ================================================================== *)
Print Assumptions valid_utf8_lower.
Print Assumptions fallback_test_case.
Print Assumptions fallback_test_no_ace.
Print Assumptions ascii_host_exact.
Print Assumptions ascii_host_ipv4.
Print Assumptions ascii_host_forbidden.
Print Assumptions domain_output_clean.
Print Assumptions host_spelling_invariant.
Print Assumptions host_case_invariant.
Print Assumptions host_escape_invariant.
Print Assumptions host_escape_mask_invariant.
Print Assumptions pct_escape_invisible.
Print Assumptions pct_escape_mask.
Print Assumptions no_pending_exact.
Print Assumptions file_localhost_parse.
Print Assumptions file_localhost_empty.
Print Assumptions lax_conservative.
Print Assumptions lax_conservative_with_lax.

(* the default parser satisfies the configuration premises *)
Example default_cfg_premises :
  c_lax default_cfg = false /\ c_latin1 default_cfg = false /\
  c_pre default_cfg = HF_none /\ c_post default_cfg = HF_none.
Proof. repeat split. Qed.

(* ---------- toy oracles ---------- *)
(* lower-cases ASCII, replaces every other byte by "x": satisfies H1, H2 and H3 together *)
Definition toy_byte (x : N) : N := if x <? 128 then x else 120.
Definition toy (s : str) : str * bool := (map toy_byte (str_lower s), false).
(* hostile: leaves the case alone *)
Definition hostile_upper (s : str) : str * bool := (s, false).
(* hostile: always reports an error and returns nothing *)
Definition hostile_empty (s : str) : str * bool := ([], true).

Example toy_H1 : oracle_ascii_transparent toy.
Proof.
  intros d _ Ha _. unfold toy. cbn [fst]. apply str_lower_ascii in Ha.
  induction Ha as [|b s Hb Hs IH]; [reflexivity|]. cbn [map]. rewrite IH.
  unfold toy_byte. replace (b <? 128) with true by lia. reflexivity.
Qed.
Example toy_H2 : oracle_case_invariant toy.
Proof. intros d1 d2 _ _ H. unfold toy. rewrite H. reflexivity. Qed.
Example toy_H3 : oracle_lower_ascii_output toy.
Proof.
  intros d _ _ _. unfold toy, lower_ascii. cbn [fst]. unfold str_lower. rewrite map_map.
  apply Forall_forall. intros y Hy. apply in_map_iff in Hy. destruct Hy as [b [<- _]].
  unfold toy_byte. destruct (ascii_lower b <? 128) eqn:E.
  - split; [lia|apply ascii_lower_not_upper].
  - split; [lia|reflexivity].
Qed.

Definition u0 : url := empty_url [].
Definition h_ex : str := [69;120;37;52;49;109;112;108;101;46;67;79;77].        (* "Ex%41mple.COM" *)
Definition h_ex2 : str := [37;52;53;88;65;77;80;76;69;46;99;111;109].          (* "%45XAMPLE.com" *)
Definition r_ex : str := [101;120;97;109;112;108;101;46;99;111;109].           (* "example.com" *)

Example ascii_host_exact_ex :
  parseHost toy default_cfg u0 h_ex false = Ok u0 r_ex.
Proof.
  apply (ascii_host_exact toy default_cfg eq_refl eq_refl eq_refl eq_refl toy_H1 u0 h_ex).
  - discriminate.
  - apply asciib_spec. reflexivity.
  - reflexivity.
  - reflexivity.
  - reflexivity.
Qed.

(* "0x7F.1" ends in a number: the IPv4 parser decides *)
Example ascii_host_ipv4_ex :
  parseHost toy default_cfg u0 [48;88;55;70;46;49] false = parseIPv4 default_cfg u0 [48;120;55;102;46;49]
  /\ parseIPv4 default_cfg u0 [48;120;55;102;46;49] = Ok u0 [49;50;55;46;48;46;48;46;49].
Proof.
  split; [|reflexivity].
  apply (ascii_host_ipv4 toy default_cfg eq_refl eq_refl eq_refl eq_refl toy_H1 u0 [48;88;55;70;46;49]).
  - discriminate.
  - apply asciib_spec. reflexivity.
  - reflexivity.
  - reflexivity.
  - reflexivity.
Qed.

(* "a%20B": a forbidden domain code point after decoding *)
Example ascii_host_forbidden_ex :
  exists u' e, parseHost toy default_cfg u0 [97;37;50;48;66] false = Er u' e
               /\ e_type e = DomainInvalidCodePoint /\ e_failure e = true.
Proof.
  apply (ascii_host_forbidden toy default_cfg eq_refl eq_refl eq_refl eq_refl toy_H1 u0 [97;37;50;48;66]).
  - discriminate.
  - apply asciib_spec. reflexivity.
  - reflexivity.
  - intros t E. discriminate E.
  - reflexivity.
Qed.

(* the wrapper ignores the oracle's error flag on such inputs: same result with an oracle that always errs *)
Definition toy_err (s : str) : str * bool := (fst (toy s), true).
Example toy_err_H1 : oracle_ascii_transparent toy_err.
Proof. intros d H1 H2 H3. exact (toy_H1 d H1 H2 H3). Qed.
Example ascii_host_exact_err_ex : parseHost toy_err default_cfg u0 h_ex false = Ok u0 r_ex.
Proof.
  apply (ascii_host_exact toy_err default_cfg eq_refl eq_refl eq_refl eq_refl toy_err_H1 u0 h_ex).
  - discriminate.
  - apply asciib_spec. reflexivity.
  - reflexivity.
  - reflexivity.
  - reflexivity.
Qed.
(* ... but not when a label starts with "xn--": the ACE premise of Theorem 1 is needed *)
Lemma ascii_host_exact_ace_needed :
  exists h, DecodePercentEncoded default_cfg h <> [] /\ ascii (DecodePercentEncoded default_cfg h) /\
    existsb PS.forbidden_domain_cp (str_lower (DecodePercentEncoded default_cfg h)) = false /\
    S4.ends_in_a_number (str_lower (DecodePercentEncoded default_cfg h)) = false /\
    parseHost toy_err default_cfg u0 h false <> Ok u0 (str_lower (DecodePercentEncoded default_cfg h)).
Proof.
  exists [88;78;45;45;97].   (* "XN--a" *)
  split; [discriminate|]. split; [apply asciib_spec; reflexivity|]. split; [reflexivity|]. split; [reflexivity|].
  vm_compute. discriminate.
Qed.

(* H1 is needed *)
Lemma ascii_host_exact_needs_H1 :
  exists h, DecodePercentEncoded default_cfg h <> [] /\ ascii (DecodePercentEncoded default_cfg h) /\
    no_ace (DecodePercentEncoded default_cfg h) = true /\
    existsb PS.forbidden_domain_cp (str_lower (DecodePercentEncoded default_cfg h)) = false /\
    S4.ends_in_a_number (str_lower (DecodePercentEncoded default_cfg h)) = false /\
    parseHost hostile_upper default_cfg u0 h false <> Ok u0 (str_lower (DecodePercentEncoded default_cfg h)).
Proof.
  exists [65]. split; [discriminate|]. split; [apply asciib_spec; reflexivity|].
  split; [reflexivity|]. split; [reflexivity|]. split; [reflexivity|]. vm_compute. discriminate.
Qed.

Example domain_output_clean_ex : clean r_ex.
Proof.
  apply (domain_output_clean toy default_cfg eq_refl eq_refl eq_refl eq_refl toy_H3 u0 h_ex u0 r_ex).
  - reflexivity.
  - intros t E. discriminate E.
Qed.

(* H3 is needed *)
Lemma domain_output_clean_needs_H3 :
  exists h u' r, parseHost hostile_upper default_cfg u0 h false = Ok u' r /\ (forall t, r <> 91 :: t) /\ ~ clean r.
Proof.
  exists [65], u0, [65]. split; [reflexivity|]. split; [intros t E; discriminate E|].
  intros H. inversion H as [|? ? Hb _]. vm_compute in Hb. discriminate.
Qed.

(* without the bracket premise of Theorem 2 the result is an IPv6 literal *)
Lemma domain_output_clean_bracket_needed :
  exists h u' r, parseHost toy default_cfg u0 h false = Ok u' r /\ ~ clean r.
Proof.
  exists [91;58;58;49;93], u0, [91;58;58;49;93]. split; [reflexivity|].
  intros H. inversion H as [|? ? Hb _]. vm_compute in Hb. discriminate.
Qed.

Example host_spelling_invariant_ex :
  parseHost toy default_cfg u0 h_ex false = parseHost toy default_cfg u0 h_ex2 false.
Proof.
  apply (host_spelling_invariant toy default_cfg eq_refl eq_refl eq_refl eq_refl toy_H2 u0 h_ex h_ex2).
  - intros t E. discriminate E.
  - intros t E. discriminate E.
  - reflexivity.
Qed.

(* H2 is needed *)
Lemma host_spelling_invariant_needs_H2 :
  exists h1 h2, not_bracket h1 /\ not_bracket h2 /\
    str_lower (DecodePercentEncoded default_cfg h1) = str_lower (DecodePercentEncoded default_cfg h2) /\
    parseHost hostile_upper default_cfg u0 h1 false <> parseHost hostile_upper default_cfg u0 h2 false.
Proof.
  exists [65], [97]. split; [intros t E; discriminate E|]. split; [intros t E; discriminate E|].
  split; [reflexivity|]. vm_compute. discriminate.
Qed.

(* Theorem 3 without the bracket premises is false: "[::1]" against "%5B::1]" *)
Lemma host_spelling_invariant_bracket_refuted :
  exists h1 h2, oracle_case_invariant toy /\
    str_lower (DecodePercentEncoded default_cfg h1) = str_lower (DecodePercentEncoded default_cfg h2) /\
    parseHost toy default_cfg u0 h1 false <> parseHost toy default_cfg u0 h2 false.
Proof.
  exists [91;58;58;49;93], [37;53;66;58;58;49;93]. split; [exact toy_H2|]. split; [reflexivity|].
  vm_compute. discriminate.
Qed.

(* the unconditional escape law is false: "%4" ++ "1" against "%4" ++ "%31" *)
Lemma pct_escape_unconditional_refuted :
  exists a b z, b < 256 /\ b <> 37 /\
    DecodePercentEncoded default_cfg (a ++ pct_byte b ++ z) <> DecodePercentEncoded default_cfg (a ++ b :: z).
Proof. exists [37;52], 49, []. split; [reflexivity|]. split; [discriminate|]. vm_compute. discriminate. Qed.

(* ... and so is escaping a "%" that starts an escape: "%2541" against "%41" *)
Lemma pct_escape_percent_refuted :
  exists a b z, no_pending a = true /\ b < 256 /\
    DecodePercentEncoded default_cfg (a ++ pct_byte b ++ z) <> DecodePercentEncoded default_cfg (a ++ b :: z).
Proof. exists [], 37, [52;49]. split; [reflexivity|]. split; [reflexivity|]. vm_compute. discriminate. Qed.

Example pct_escape_invisible_ex :
  DecodePercentEncoded default_cfg ([37;52;49;98] ++ pct_byte 233 ++ [99]) =
  DecodePercentEncoded default_cfg ([37;52;49;98] ++ 233 :: [99]).
Proof. apply pct_escape_invisible; [reflexivity|reflexivity|reflexivity|left; discriminate]. Qed.

Example host_escape_mask_invariant_ex :
  parseHost toy default_cfg u0 (esc [true;false;true] [65;46;98]) false = parseHost toy default_cfg u0 [65;46;98] false
  /\ esc [true;false;true] [65;46;98] = [37;52;49;46;37;54;50].
Proof.
  split; [|reflexivity].
  apply (host_escape_mask_invariant toy default_cfg eq_refl eq_refl eq_refl eq_refl toy_H2).
  - repeat constructor.
  - intros [H|[H|[H|[]]]]; discriminate H.
  - intros t E. discriminate E.
Qed.

(* "LOCAL%48ost" *)
Definition h_local : str := [76;79;67;65;76;37;52;56;111;115;116].
Example file_localhost_parse_ex : parseHost toy default_cfg u0 h_local false = Ok u0 s_localhost.
Proof. apply (file_localhost_parse toy default_cfg eq_refl eq_refl eq_refl eq_refl toy_H1). reflexivity. Qed.

(* the machine in state FileHost, buffer "LOCAL%48ost", looking at the "/" of "file://LOCAL%48ost/" *)
Definition inp_ex : list rune := decode ([102;105;108;101;58;47;47] ++ h_local ++ [47]).
Definition m_ex : mstate := mk FileHost 17 false h_local false false false (set_scheme u0 s_file).
Example file_localhost_empty_ex :
  step toy default_cfg inp_ex None None m_ex =
  Cont (mk PathStart 17 false [] false false false (set_host (set_scheme u0 s_file) (Some []))).
Proof.
  apply (file_localhost_empty toy default_cfg eq_refl eq_refl eq_refl eq_refl toy_H1 inp_ex None None m_ex);
    reflexivity.
Qed.

Example lax_conservative_ex :
  host_cfg_agree default_cfg opt_WithLaxHostParsing /\ c_lax default_cfg = false /\
  parseHost toy opt_WithLaxHostParsing u0 h_ex false = Ok u0 r_ex.
Proof.
  split; [repeat split|]. split; [reflexivity|].
  apply (lax_conservative toy default_cfg opt_WithLaxHostParsing); [repeat split|reflexivity|].
  exact ascii_host_exact_ex.
Qed.

(* the converse fails, as intended: lax parsing accepts "a b" *)
Lemma lax_accepts_more :
  exists h u' r, parseHost toy opt_WithLaxHostParsing u0 h false = Ok u' r /\
                 forall u'' r', parseHost toy default_cfg u0 h false <> Ok u'' r'.
Proof.
  exists [97;32;98], u0, [97;37;50;48;98]. split; [reflexivity|]. intros u'' r'. vm_compute. discriminate.
Qed.

(* Observation: on the fall-back path the wrapper does not apply its "empty result is a failure"
   test; an oracle that errs and returns nothing turns an ASCII host into the empty host.
   (Excluded by H1; recorded because the code's two paths differ.) *)
Lemma fallback_skips_empty_check :
  parseHost hostile_empty default_cfg u0 [97] false = Ok u0 [].
Proof. reflexivity. Qed.
