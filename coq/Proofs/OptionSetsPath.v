(* C16, path percent-encode set: when does a replaced path set change ONLY the spelling of the segments?
   If both path sets leave  % 2 E e  literal (dot_safe) and - for file URLs - leave the letters, ':' and '|'
   literal (drive_safe), the two results have the same number of segments and the segments are pairwise the
   two encodings of the same code points of the input (after a common prefix); the opaque flags agree.
   Each clause of the premise is necessary (witnesses: dot_safe_needed, drive_safe_needed below, and the
   pathSet_changes_... theorems of Proofs/OptionSets.v). *)
From Verif Require Import Lib.Base Lib.Utf8 Lib.GoStr Model.Cfg Gen.Tables Gen.Options Model.Sets Model.Percent Model.Url Model.Host
  Model.Machine Model.Api.
From Verif Require Import Proofs.Cleaning Proofs.OptionTable Proofs.OptionNeutralBase Proofs.PhaseLemmas Proofs.OptionSetsBase
  Proofs.OptionSetsDots Proofs.OptionSets.
From Verif Require Proofs.Utf8Proofs.
From Coq Require Import Lia ZifyBool ZifyN ZifyNat.

Local Arguments N.mul : simpl never.
Local Arguments N.add : simpl never.
Local Arguments N.sub : simpl never.
Local Arguments N.eqb : simpl never.
Local Arguments N.ltb : simpl never.
Local Arguments N.leb : simpl never.

(* ---------------------------------------------------------------------------------- *)
(* the end of a segment as a function of the path component                              *)
(* ---------------------------------------------------------------------------------- *)
Definition seg_path (collapse special skipDrive : bool) (scheme : str) (path : list str) (opq : bool)
    (buf : str) (sl : bool) : list str * bool :=
  let replaceLast := collapse && special && negb (is_nil path) && last_empty path in
  if isDoubleDotPathSegment buf then
    (if negb sl then (shortenPath scheme path ++ [[]], false) else (shortenPath scheme path, opq))
  else if isSingleDotPathSegment buf && negb sl then
    (if negb replaceLast then (path ++ [[]], false) else (path, opq))
  else if negb (isSingleDotPathSegment buf) then
    let buf' :=
      if str_eqb scheme s_file && (is_nil path || (replaceLast && (len path =? 1)%Z))
         && isWindowsDriveLetter buf && negb skipDrive
      then match buf with b0 :: _ => [b0; 58] | [] => buf end
      else buf in
    if negb replaceLast then (path ++ [buf'], false) else (replace_last path buf', opq)
  else (path, opq).

Lemma seg_end_path c u buf sl :
  (u_path (seg_end c u buf sl), u_opaque (seg_end c u buf sl)) =
  seg_path (c_collapse c) (IsSpecialScheme c u) (c_skipDrive c) (u_scheme u) (u_path u) (u_opaque u) buf sl.
Proof.
  unfold seg_end, seg_path. cbv zeta.
  destruct (isDoubleDotPathSegment buf).
  - destruct (negb sl); reflexivity.
  - destruct (isSingleDotPathSegment buf && negb sl).
    + destruct (negb _); reflexivity.
    + destruct (negb (isSingleDotPathSegment buf)); [|reflexivity].
      destruct (negb _); reflexivity.
Qed.

Lemma seg_end_scheme c u b sl : u_scheme (seg_end c u b sl) = u_scheme u.
Proof. rewrite seg_end_shape. reflexivity. Qed.

(* ---------------------------------------------------------------------------------- *)
(* list lemmas for a relation on segments                                                *)
(* ---------------------------------------------------------------------------------- *)
Section Lists.
  Variable SR : str -> str -> Prop.
  Hypothesis SR_nil : forall s1 s2, SR s1 s2 -> is_nil s1 = is_nil s2.

  Lemma F2_len p1 p2 : Forall2 SR p1 p2 -> length p1 = length p2.
  Proof. induction 1; cbn [length]; congruence. Qed.

  Lemma F2_is_nil p1 p2 : Forall2 SR p1 p2 -> is_nil p1 = is_nil p2.
  Proof. destruct 1; reflexivity. Qed.

  Lemma F2_last_empty p1 p2 : Forall2 SR p1 p2 -> last_empty p1 = last_empty p2.
  Proof.
    unfold last_empty. induction 1 as [|x1 x2 l1 l2 Hx Hl IH]; [reflexivity|].
    destruct Hl as [|y1 y2 m1 m2 Hy Hm]; [cbn [last_opt]; apply SR_nil, Hx|].
    change (last_opt (x1 :: y1 :: m1)) with (last_opt (y1 :: m1)).
    change (last_opt (x2 :: y2 :: m2)) with (last_opt (y2 :: m2)). exact IH.
  Qed.

  Lemma F2_removelast p1 p2 : Forall2 SR p1 p2 -> Forall2 SR (removelast p1) (removelast p2).
  Proof.
    induction 1 as [|x1 x2 l1 l2 Hx Hl IH]; [constructor|].
    destruct Hl as [|y1 y2 m1 m2 Hy Hm]; [constructor|].
    change (removelast (x1 :: y1 :: m1)) with (x1 :: removelast (y1 :: m1)).
    change (removelast (x2 :: y2 :: m2)) with (x2 :: removelast (y2 :: m2)). constructor; assumption.
  Qed.

  Lemma F2_replace_last p1 p2 x1 x2 : Forall2 SR p1 p2 -> SR x1 x2 -> Forall2 SR (replace_last p1 x1) (replace_last p2 x2).
  Proof.
    intros H Hx. induction H as [|y1 y2 l1 l2 Hy Hl IH]; [constructor|].
    destruct Hl as [|z1 z2 m1 m2 Hz Hm]; [repeat constructor; exact Hx|].
    change (replace_last (y1 :: z1 :: m1) x1) with (y1 :: replace_last (z1 :: m1) x1).
    change (replace_last (y2 :: z2 :: m2) x2) with (y2 :: replace_last (z2 :: m2) x2). constructor; assumption.
  Qed.

  Lemma F2_snoc p1 p2 x1 x2 : Forall2 SR p1 p2 -> SR x1 x2 -> Forall2 SR (p1 ++ [x1]) (p2 ++ [x2]).
  Proof. intros H Hx. apply Forall2_app; [exact H|repeat constructor; exact Hx]. Qed.

  Lemma F2_shorten sch p1 p2 :
    (str_eqb sch s_file = true -> forall s1 s2, SR s1 s2 -> isNormalizedWindowsDriveLetter s1 = isNormalizedWindowsDriveLetter s2) ->
    Forall2 SR p1 p2 -> Forall2 SR (shortenPath sch p1) (shortenPath sch p2).
  Proof.
    intros HN H. unfold shortenPath.
    destruct H as [|x1 x2 l1 l2 Hx Hl]; [constructor|].
    destruct Hl as [|y1 y2 m1 m2 Hy Hm].
    - destruct (str_eqb sch s_file) eqn:Ef; cbn [andb]; [|constructor].
      rewrite (HN eq_refl x1 x2 Hx). destruct (isNormalizedWindowsDriveLetter x2); repeat constructor; exact Hx.
    - unfold drop_last. apply F2_removelast. repeat constructor; assumption.
  Qed.

  Hypothesis SR_refl : forall s, SR s s.

  (* the end of a segment on related path components *)
  Lemma seg_path_rel collapse special skipDrive sch p1 p2 opq B1 B2 sl :
    Forall2 SR p1 p2 -> SR B1 B2 ->
    isDoubleDotPathSegment B1 = isDoubleDotPathSegment B2 -> isSingleDotPathSegment B1 = isSingleDotPathSegment B2 ->
    (str_eqb sch s_file = true -> forall s1 s2, SR s1 s2 -> isNormalizedWindowsDriveLetter s1 = isNormalizedWindowsDriveLetter s2) ->
    (str_eqb sch s_file = true -> isWindowsDriveLetter B1 = isWindowsDriveLetter B2 /\ (isWindowsDriveLetter B1 = true -> B1 = B2)) ->
    Forall2 SR (fst (seg_path collapse special skipDrive sch p1 opq B1 sl)) (fst (seg_path collapse special skipDrive sch p2 opq B2 sl)) /\
    snd (seg_path collapse special skipDrive sch p1 opq B1 sl) = snd (seg_path collapse special skipDrive sch p2 opq B2 sl).
  Proof.
    intros HF HB ED ES HN HW. unfold seg_path. cbv zeta.
    rewrite ED, ES, (F2_is_nil _ _ HF), (F2_last_empty _ _ HF).
    assert (EL : (len p1 =? 1)%Z = (len p2 =? 1)%Z) by (unfold len; rewrite (F2_len _ _ HF); reflexivity).
    rewrite EL.
    destruct (isDoubleDotPathSegment B2).
    - destruct (negb sl); cbn [fst snd]; (split; [|reflexivity]).
      + apply F2_snoc; [apply F2_shorten; assumption|apply SR_refl].
      + apply F2_shorten; assumption.
    - destruct (isSingleDotPathSegment B2 && negb sl).
      + destruct (negb _); cbn [fst snd]; (split; [|reflexivity]); [apply F2_snoc; [exact HF|apply SR_refl]|exact HF].
      + destruct (negb (isSingleDotPathSegment B2)); [|cbn [fst snd]; split; [exact HF|reflexivity]].
        set (rl := collapse && special && negb (is_nil p2) && last_empty p2).
        assert (HB' : SR
          (if str_eqb sch s_file && (is_nil p2 || rl && (len p2 =? 1)%Z) && isWindowsDriveLetter B1 && negb skipDrive
           then match B1 with [] => B1 | b0 :: _ => [b0; 58] end else B1)
          (if str_eqb sch s_file && (is_nil p2 || rl && (len p2 =? 1)%Z) && isWindowsDriveLetter B2 && negb skipDrive
           then match B2 with [] => B2 | b0 :: _ => [b0; 58] end else B2)).
        { destruct (str_eqb sch s_file) eqn:Ef; cbn [andb]; [|exact HB].
          destruct (HW eq_refl) as [W1 W2]. rewrite <- W1.
          destruct (is_nil p2 || rl && (len p2 =? 1)%Z); cbn [andb]; [|exact HB].
          destruct (isWindowsDriveLetter B1) eqn:EW; cbn [andb]; [|exact HB].
          destruct (negb skipDrive); [|exact HB]. rewrite <- (W2 eq_refl). apply SR_refl. }
        destruct (negb rl); cbn [fst snd]; (split; [|reflexivity]).
        * apply F2_snoc; assumption.
        * apply F2_replace_last; assumption.
  Qed.
End Lists.

(* ---------------------------------------------------------------------------------- *)
(* the instance of the path relation                                                     *)
(* ---------------------------------------------------------------------------------- *)
Lemma per_nonnil c r t : percentEncodeRune c r t <> [].
Proof.
  unfold percentEncodeRune.
  assert (E : (if c_latin1 c then pct_byte (fst (latin1_enc r)) else flat_map pct_byte (utf8_enc r)) <> []).
  { destruct (c_latin1 c); [discriminate|]. pose proof (Utf8Proofs.utf8_enc_nonempty r) as N.
    destruct (utf8_enc r); [contradiction|discriminate]. }
  destruct t as [t|]; [|exact E]. destruct (RuneShouldBeEncoded t r); [exact E|apply Utf8Proofs.utf8_enc_nonempty].
Qed.

Lemma encp_nil c w : encp c w = [] -> w = [].
Proof.
  destruct w as [|[r b] w]; [reflexivity|]. change ((r, b) :: w) with ([(r, b)] ++ w). rewrite encp_app, encp_one.
  intros H. apply app_eq_nil in H. destruct H as [H _]. exfalso.
  destruct b; [unfold percentEncodeInvalidRune in H; destruct (c_singlePct c)|]; exact (per_nonnil _ _ _ H).
Qed.

Section Struct.
  Variables c1 c2 : cfg.
  Hypothesis A : agree_nosets c1 c2.
  Variable inp : list rune.

  Definition psafe (u : url) : Prop :=
    dot_safe (c_pathSet c1) = true /\ dot_safe (c_pathSet c2) = true /\
    (str_eqb (u_scheme u) s_file = true -> drive_safe (c_pathSet c1) = true /\ drive_safe (c_pathSet c2) = true).

  Definition PRs (u1 u2 : url) : Prop :=
    psafe u1 -> Forall2 (SRp c1 c2 inp) (u_path u1) (u_path u2) /\ u_opaque u1 = u_opaque u2.

  Lemma SRp_refl s : SRp c1 c2 inp s s.
  Proof. exists s, 0%Z, 0%nat. cbn. rewrite app_nil_r. split; reflexivity. Qed.

  Lemma SRp_nil s1 s2 : SRp c1 c2 inp s1 s2 -> is_nil s1 = is_nil s2.
  Proof.
    intros (b0 & a & n & -> & ->). destruct b0 as [|x b0]; [|reflexivity]. cbn [app].
    destruct (encp c1 (cpsp inp a n)) eqn:E1.
    - apply encp_nil in E1. rewrite E1. reflexivity.
    - destruct (encp c2 (cpsp inp a n)) eqn:E2; [|reflexivity]. apply encp_nil in E2. rewrite E2 in E1. discriminate E1.
  Qed.

  Lemma PRs_refl u : PRs u u.
  Proof.
    intros _. split; [|reflexivity]. induction (u_path u); constructor; [apply SRp_refl|assumption].
  Qed.

  Lemma PRs_ext u1 u2 v1 v2 :
    u_scheme v1 = u_scheme u1 -> u_path v1 = u_path u1 -> u_opaque v1 = u_opaque u1 ->
    u_scheme v2 = u_scheme u2 -> u_path v2 = u_path u2 -> u_opaque v2 = u_opaque u2 -> PRs u1 u2 -> PRs v1 v2.
  Proof.
    intros S1 P1 O1 S2 P2 O2 H Hs. unfold psafe in Hs. rewrite S1 in Hs. destruct (H Hs) as [HF HO].
    rewrite P1, P2, O1, O2. split; assumption.
  Qed.

  Lemma PRs_seg u1 u2 b1 b2 sl : u_scheme u1 = u_scheme u2 -> PRs u1 u2 -> SRp c1 c2 inp b1 b2 ->
    PRs (seg_end c1 u1 b1 sl) (seg_end c2 u2 b2 sl).
  Proof.
    intros Hs H HB Hsafe. unfold psafe in Hsafe. rewrite seg_end_scheme in Hsafe.
    destruct (H Hsafe) as [HF HO]. destruct Hsafe as (D1 & D2 & HD).
    pose proof A as (_ & _ & _ & Hcol & _ & _ & _ & Hsp & Hdrv & Hspec & _ & Hlatin).
    pose proof (seg_end_path c1 u1 b1 sl) as E1. pose proof (seg_end_path c2 u2 b2 sl) as E2.
    assert (Ei : IsSpecialScheme c1 u1 = IsSpecialScheme c2 u2).
    { unfold IsSpecialScheme, isSpecialScheme, getSpecialScheme. rewrite Hspec, Hs. reflexivity. }
    rewrite Hcol, Ei, Hdrv, Hs, HO in E1.
    assert (ED : isSingleDotPathSegment b1 = isSingleDotPathSegment b2 /\ isDoubleDotPathSegment b1 = isDoubleDotPathSegment b2).
    { destruct HB as (b0 & a & n & -> & ->). apply dots_same; assumption. }
    destruct ED as [ES ED].
    assert (HN : str_eqb (u_scheme u2) s_file = true -> forall s1 s2, SRp c1 c2 inp s1 s2 ->
                 isNormalizedWindowsDriveLetter s1 = isNormalizedWindowsDriveLetter s2).
    { intros Ef s1 s2 (b0 & a & n & -> & ->). rewrite <- Hs in Ef. destruct (HD Ef) as [V1 V2].
      apply (DC_pred_same isNormalizedWindowsDriveLetter c1 c2 b0 _ isNWDL_DC V1 V2). }
    assert (HW : str_eqb (u_scheme u2) s_file = true ->
                 isWindowsDriveLetter b1 = isWindowsDriveLetter b2 /\ (isWindowsDriveLetter b1 = true -> b1 = b2)).
    { intros Ef. rewrite <- Hs in Ef. destruct (HD Ef) as [V1 V2]. destruct HB as (b0 & a & n & -> & ->).
      destruct (DC_pred_same isWindowsDriveLetter c1 c2 b0 (cpsp inp a n) isWDL_DC V1 V2) as [W1 W2].
      split; [exact W1|]. intros W. rewrite (W2 W). reflexivity. }
    destruct (seg_path_rel (SRp c1 c2 inp) SRp_nil SRp_refl (c_collapse c2) (IsSpecialScheme c2 u2) (c_skipDrive c2)
                (u_scheme u2) (u_path u1) (u_path u2) (u_opaque u2) b1 b2 sl HF HB ED ES HN HW) as [R1 R2].
    rewrite <- E1, <- E2 in R1, R2. cbn [fst snd] in R1, R2. split; assumption.
  Qed.
End Struct.

(* ---------------------------------------------------------------------------------- *)
(* the theorems                                                                          *)
(* ---------------------------------------------------------------------------------- *)
(* both path sets leave "% 2 E e" literal, and for a file URL also the letters, ':' and '|' *)
Definition path_sets_safe (c1 c2 : cfg) (scheme : str) : Prop :=
  dot_safe (c_pathSet c1) = true /\ dot_safe (c_pathSet c2) = true /\
  (str_eqb scheme s_file = true -> drive_safe (c_pathSet c1) = true /\ drive_safe (c_pathSet c2) = true).

(* two segments: the two encodings of the same code points of the input after a common prefix *)
Definition seg_rel (c1 c2 : cfg) (inp : list rune) (s1 s2 : str) : Prop :=
  exists b0 a n, s1 = b0 ++ encp c1 (cpsp inp a n) /\ s2 = b0 ++ encp c2 (cpsp inp a n).

Theorem sets_BasicParser_struct : forall idna_raw c1 c2, agree_nosets c1 c2 -> forall x b u0 ov,
  Rres c1 c2 (run_input c2 x u0) (PRs c1 c2 (run_input c2 x u0))
    (BasicParser idna_raw c1 x b u0 ov) (BasicParser idna_raw c2 x b u0 ov).
Proof.
  intros idna_raw c1 c2 A x b u0 ov.
  apply (sets_BasicParser_gen idna_raw c1 c2 A (PRs c1 c2)).
  - intros inp u. apply PRs_refl.
  - intros inp. apply PRs_ext.
  - intros inp. apply PRs_seg. exact A.
Qed.
Print Assumptions sets_BasicParser_struct.

Theorem pathSet_structure : forall idna_raw c1 c2, agree_nosets c1 c2 -> forall x u1 u2,
  Parse idna_raw c1 x = PUrl u1 -> Parse idna_raw c2 x = PUrl u2 ->
  path_sets_safe c1 c2 (u_scheme u1) ->
  Forall2 (seg_rel c1 c2 (run_input c2 x None)) (u_path u1) (u_path u2) /\ u_opaque u1 = u_opaque u2.
Proof.
  intros idna_raw c1 c2 A x u1 u2 E1 E2 Hs.
  pose proof (sets_BasicParser_struct idna_raw c1 c2 A x None None None) as H.
  unfold Parse in E1, E2.
  destruct (BasicParser idna_raw c1 x None None None) as [v1|v1 e1|v1| |]; try discriminate E1.
  destruct (BasicParser idna_raw c2 x None None None) as [v2|v2 e2|v2| |]; try discriminate E2.
  cbn [to_pres] in E1, E2. injection E1 as ->. injection E2 as ->.
  cbn [Rres] in H. destruct H as (_ & HP & _). exact (HP Hs).
Qed.
Print Assumptions pathSet_structure.

(* same number of segments *)
Corollary pathSet_same_length : forall idna_raw c1 c2, agree_nosets c1 c2 -> forall x u1 u2,
  Parse idna_raw c1 x = PUrl u1 -> Parse idna_raw c2 x = PUrl u2 ->
  path_sets_safe c1 c2 (u_scheme u1) -> length (u_path u1) = length (u_path u2).
Proof.
  intros idna_raw c1 c2 A x u1 u2 E1 E2 Hs.
  destruct (pathSet_structure idna_raw c1 c2 A x u1 u2 E1 E2 Hs) as [H _].
  induction H; cbn [length]; congruence.
Qed.

(* for the option: replacing the default path set by any safe set *)
Corollary with_pathSet_structure : forall idna_raw c s x u1 u2,
  Parse idna_raw (with_pathSet c s) x = PUrl u1 -> Parse idna_raw c x = PUrl u2 ->
  dot_safe s = true -> dot_safe (c_pathSet c) = true ->
  (str_eqb (u_scheme u1) s_file = true -> drive_safe s = true /\ drive_safe (c_pathSet c) = true) ->
  Forall2 (seg_rel (with_pathSet c s) c (run_input c x None)) (u_path u1) (u_path u2) /\ u_opaque u1 = u_opaque u2.
Proof.
  intros idna_raw c s x u1 u2 E1 E2 D1 D2 HD.
  apply (pathSet_structure idna_raw _ _ (agree_pathSet c s) x u1 u2 E1 E2).
  split; [exact D1|]. split; [exact D2|exact HD].
Qed.
Print Assumptions with_pathSet_structure.

(* the premises are satisfiable: the default path set is safe, and so is the default set plus '.', '~', '!' *)
Example path_sets_safe_default :
  dot_safe pes_Path = true /\ drive_safe pes_Path = true /\
  dot_safe (pes_set pes_Path [46;126;33]) = true /\ drive_safe (pes_set pes_Path [46;126;33]) = true.
Proof. repeat split; vm_compute; reflexivity. Qed.

(* "http://h/a/../b.c/./d!" under the default set and under the default set plus '.', '~', '!' *)
Example with_pathSet_structure_ex :
  exists u1 u2,
    Parse idna_id1 (with_pathSet default_cfg (pes_set pes_Path [46;126;33]))
      [104;116;116;112;58;47;47;104;47;97;47;46;46;47;98;46;99;47;46;47;100;33] = PUrl u1 /\
    Parse idna_id1 default_cfg [104;116;116;112;58;47;47;104;47;97;47;46;46;47;98;46;99;47;46;47;100;33] = PUrl u2 /\
    u_path u1 = [[98;37;50;69;99]; [100;37;50;49]] /\ u_path u2 = [[98;46;99]; [100;33]].
Proof. eexists. eexists. split; [vm_compute; reflexivity|]. split; [vm_compute; reflexivity|]. split; reflexivity. Qed.

(* each clause of the premise is needed: the unsafe sets of Proofs/OptionSets.v break the conclusion *)
Theorem dot_safe_needed :
  dot_safe (set_plus 37) = false /\
  exists x u1 u2, Parse idna_id1 (with_pathSet default_cfg (set_plus 37)) x = PUrl u1 /\ Parse idna_id1 default_cfg x = PUrl u2 /\
                  length (u_path u1) <> length (u_path u2).
Proof.
  split; [vm_compute; reflexivity|].
  exists [104;116;116;112;58;47;47;104;47;97;47;37;50;101;37;50;101;47;98]. eexists. eexists.
  split; [vm_compute; reflexivity|]. split; [vm_compute; reflexivity|]. cbn. discriminate.
Qed.

Theorem drive_safe_needed :
  dot_safe (set_plus 58) = true /\ drive_safe (set_plus 58) = false /\
  exists x u1 u2, Parse idna_id1 (with_pathSet default_cfg (set_plus 58)) x = PUrl u1 /\ Parse idna_id1 default_cfg x = PUrl u2 /\
                  length (u_path u1) <> length (u_path u2).
Proof.
  split; [vm_compute; reflexivity|]. split; [vm_compute; reflexivity|].
  exists [102;105;108;101;58;47;47;47;67;58;47;46;46;47;120]. eexists. eexists.
  split; [vm_compute; reflexivity|]. split; [vm_compute; reflexivity|]. cbn. discriminate.
Qed.

(* the other members of the two lists: '2', 'E', 'e';  '|' and a letter *)
Definition breaks (b : N) (x : str) : Prop :=
  exists u1 u2, Parse idna_id1 (with_pathSet default_cfg (set_plus b)) x = PUrl u1 /\ Parse idna_id1 default_cfg x = PUrl u2 /\
                length (u_path u1) <> length (u_path u2).

Theorem safe_lists_needed :
  (* "http://h/a/%2e%2e/b" for '2' and 'e', "http://h/a/%2E./b" for 'E' *)
  (dot_safe (set_plus 50) = false /\ breaks 50 [104;116;116;112;58;47;47;104;47;97;47;37;50;101;37;50;101;47;98]) /\
  (dot_safe (set_plus 101) = false /\ breaks 101 [104;116;116;112;58;47;47;104;47;97;47;37;50;101;37;50;101;47;98]) /\
  (dot_safe (set_plus 69) = false /\ breaks 69 [104;116;116;112;58;47;47;104;47;97;47;37;50;69;46;47;98]) /\
  (* "file:///C|/../x" for '|', "file:///C:/../x" for the letter 'C' *)
  (drive_safe (set_plus 124) = false /\ breaks 124 [102;105;108;101;58;47;47;47;67;124;47;46;46;47;120]) /\
  (drive_safe (set_plus 67) = false /\ breaks 67 [102;105;108;101;58;47;47;47;67;58;47;46;46;47;120]).
Proof.
  repeat split; try (vm_compute; reflexivity);
    (eexists; eexists; split; [vm_compute; reflexivity|split; [vm_compute; reflexivity|cbn; discriminate]]).
Qed.
Print Assumptions dot_safe_needed.
Print Assumptions drive_safe_needed.
Print Assumptions safe_lists_needed.
