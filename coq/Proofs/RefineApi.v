(* The refinement at the level of the public API: Parse / UrlParse / ParseRef and the nine setters of the model
   (Model/Api.v) against the API URL parser and the setters of the standard (Spec/Setters.v), on the code
   points of the model's input. Built on Proofs/RefineMachine.v (the parser refinement R8). *)
From Verif Require Import Lib.Base Lib.Utf8 Lib.GoStr Model.Cfg Gen.Tables Gen.Options Model.Sets Model.Percent
     Model.Url Model.Host Model.Machine Model.Api.
From Verif Require Spec.Url Spec.Host Spec.BasicParser Spec.Setters.
From Verif Require Import Spec.PercentSets Spec.PercentCodec.
From Verif Require Import Proofs.Utf8Proofs Proofs.SetsProofs Proofs.Cleaning Proofs.RefineUtf8 Proofs.RefineCodec
     Proofs.RefineClean Proofs.RefineHost Proofs.RefineMachineBase Proofs.RefineMachineTop Proofs.RefineMachine.
From Verif Require Proofs.RefineMachineHost.
From Coq Require Import Lia ZifyBool ZifyN ZifyNat.

Module SS := Verif.Spec.Setters.

(* ================================================================== *)
(* small facts                                                          *)
(* ================================================================== *)
Lemma R_set_sp u v su : R u su -> R (set_sp u v) su.
Proof. intros [H1 H2 H3 H4 H5 H6 H7 H8]. constructor; assumption. Qed.

Lemma runes_nil_iff s : runes s = [] <-> s = [].
Proof.
  split; [|intros ->; reflexivity]. destruct s as [|b s]; [reflexivity|].
  unfold runes. destruct (dec1 b s) as [r rest] eqn:E. rewrite (decode_cons _ _ _ _ E). discriminate.
Qed.

(* a leading ASCII byte is a leading code point and conversely *)
Lemma runes_head s a : a < 128 ->
  match runes s with x :: rest => if x =? a then Some rest else None | [] => None end =
  match s with x :: rest => if x =? a then Some (runes rest) else None | [] => None end.
Proof.
  intros Ha. destruct s as [|b s']; [reflexivity|].
  destruct (N.lt_ge_cases b 128) as [Hlt|Hge].
  - rewrite (runes_cons_ascii b s' Hlt). reflexivity.
  - unfold runes. destruct (dec1 b s') as [r rest'] eqn:D. rewrite (decode_cons _ _ _ _ D). cbn [map].
    pose proof (dec1_high _ _ _ _ D Hge).
    replace (rv r =? a) with false by lia. replace (b =? a) with false by lia. reflexivity.
Qed.

Lemma strip63 (l : list N) :
  match l with 63 :: rest => rest | _ => l end = match l with x :: rest => if x =? 63 then rest else l | [] => l end.
Proof.
  destruct l as [|x rest]; [reflexivity|]. destruct x as [|p]; [reflexivity|].
  do 7 (destruct p as [p|p|]; try reflexivity).
Qed.

Lemma strip35 (l : list N) :
  match l with 35 :: rest => rest | _ => l end = match l with x :: rest => if x =? 35 then rest else l | [] => l end.
Proof.
  destruct l as [|x rest]; [reflexivity|]. destruct x as [|p]; [reflexivity|].
  do 7 (destruct p as [p|p|]; try reflexivity).
Qed.

Lemma runes_trim_prefix1 a s : a < 128 ->
  runes (trim_prefix1 a s) = match runes s with x :: rest => if x =? a then rest else runes s | [] => runes s end.
Proof.
  intros Ha. pose proof (runes_head s a Ha) as H. unfold trim_prefix1.
  destruct s as [|b s']; [reflexivity|].
  destruct (runes (b :: s')) as [|x rest] eqn:E.
  - apply (proj1 (runes_nil_iff _)) in E. discriminate E.
  - destruct (b =? a), (x =? a); try discriminate H; [inversion H; reflexivity|exact E].
Qed.

(* ---------- trailing spaces of an opaque path ---------- *)
Lemma trim_right_snoc cut a b : trim_right cut (a ++ [b]) = if mem b cut then trim_right cut a else a ++ [b].
Proof.
  unfold trim_right. rewrite rev_app_distr. cbn [rev app trim_left].
  destruct (mem b cut); [reflexivity|]. cbn [rev]. rewrite rev_involutive. reflexivity.
Qed.

Lemma strip_trailing_snoc l x :
  SS.strip_trailing_spaces (l ++ [x]) = if x =? 32 then SS.strip_trailing_spaces l else l ++ [x].
Proof.
  unfold SS.strip_trailing_spaces. rewrite rev_app_distr. cbn [rev app].
  destruct (x =? 32) eqn:E.
  - apply N.eqb_eq in E. subst x. reflexivity.
  - assert (G : SS.strip_leading_spaces (x :: rev l) = x :: rev l).
    { cbn [SS.strip_leading_spaces]. destruct x as [|p]; [reflexivity|].
      do 6 (destruct p as [p|p|]; try reflexivity). discriminate E. }
    rewrite G. cbn [rev]. rewrite rev_involutive. reflexivity.
Qed.

Lemma utf8_enc_last_not_space x : (x =? 32) = false -> exists bs b, utf8_enc x = bs ++ [b] /\ mem b [32] = false.
Proof.
  intros Hx. destruct (N.lt_ge_cases x 128) as [Hlt|Hge].
  - rewrite (utf8_enc_ascii x Hlt). exists [], x. split; [reflexivity|]. unfold mem. cbn [existsb]. rewrite Hx. reflexivity.
  - pose proof (utf8_enc_high x Hge) as Hh. pose proof (utf8_enc_nonempty x) as Hn.
    destruct (exists_last Hn) as [bs [b E]]. exists bs, b. split; [exact E|].
    rewrite E in Hh. apply Forall_app in Hh. destruct Hh as [_ Hb]. inversion Hb; subst.
    unfold mem. cbn [existsb]. replace (b =? 32) with false by lia. reflexivity.
Qed.

Lemma trim_right_encode l : trim_right [32] (encode_runes l) = encode_runes (SS.strip_trailing_spaces l).
Proof.
  induction l as [|x l IH] using rev_ind; [reflexivity|].
  rewrite enc_runes_app, strip_trailing_snoc. unfold encode_runes at 2. cbn [flat_map]. rewrite app_nil_r.
  destruct (x =? 32) eqn:E.
  - apply N.eqb_eq in E. subst x. change (utf8_enc 32) with [32]. rewrite trim_right_snoc. exact IH.
  - destruct (utf8_enc_last_not_space x E) as [bs [b [Eb Hb]]].
    rewrite Eb, app_assoc, trim_right_snoc, Hb, <- app_assoc, <- Eb.
    rewrite enc_runes_app. unfold encode_runes at 3. cbn [flat_map]. rewrite app_nil_r. reflexivity.
Qed.

(* the model's stripTrailingSpacesIfOpaque against the standard's, when query and fragment are both null *)
Lemma strip_opaque_spec u su : R u su -> SU.u_query su = None -> SU.u_fragment su = None ->
  match strip_opaque u with
  | Some u' => R u' (SS.potentially_strip_trailing_spaces su)
  | None => False
  end.
Proof.
  intros HR Hq Hf. unfold strip_opaque, SS.potentially_strip_trailing_spaces. rewrite Hq, Hf. cbn [is_some].
  pose proof (RU.R_path u su HR) as P.
  destruct (SU.u_path su) as [s|segs] eqn:Ep.
  - destruct P as [Po Pp]. rewrite Po, Pp. rewrite trim_right_encode.
    apply R_set_path_opaque. exact HR.
  - destruct P as [Po _]. rewrite Po. exact HR.
Qed.

Lemma potentially_strip_same su : SU.u_query su <> None \/ SU.u_fragment su <> None ->
  SS.potentially_strip_trailing_spaces su = su.
Proof.
  intros H. unfold SS.potentially_strip_trailing_spaces. destruct (SU.u_path su); [|reflexivity].
  destruct (SU.u_fragment su); [reflexivity|]. destruct (SU.u_query su); [reflexivity|].
  destruct H as [H|H]; congruence.
Qed.

(* ---------- "cannot have a username/password/port" ---------- *)
Lemma no_host_or_file_spec u su : R u su -> no_host_or_file u = SU.cannot_have_username_password_port su.
Proof.
  intros HR. unfold no_host_or_file, SU.cannot_have_username_password_port.
  rewrite (RU.R_host u su HR), (R_scheme_file u su HR).
  destruct (SU.u_host su) as [h|]; cbn [option_map]; [|reflexivity].
  change (encode_runes (SU.host_serialize h)) with (host_bytes h).
  rewrite host_bytes_is_nil. reflexivity.
Qed.

(* ================================================================== *)
(* the relation on what an API call returns                             *)
(* ================================================================== *)
(* a setter of the model returns the new record (None = panic or out of fuel); the standard's returns Done *)
Definition setter_rel (mo : option url) (so : SB.outcome) : Prop :=
  so = SB.OutOfFuel \/
  match mo, so with
  | Some u', SB.Done su' => R u' su'
  | _, _ => False
  end.

Definition parse_rel (mp : pres) (so : SB.outcome) : Prop :=
  so = SB.OutOfFuel \/
  match mp, so with
  | PUrl u, SB.Done su => R u su
  | PErr _, SB.Failed _ => True
  | _, _ => False
  end.

Section Api.
  Variable idna_raw : str -> str * bool.
  Variable c : cfg.
  Hypothesis Hstd : std_cfg c.
  Hypothesis Horacle : oracle_ok idna_raw c.

  Notation dta := (dta idna_raw c).
  Let Hl1 := std_latin1 c Hstd.
  Let Hsp := std_singlePct c Hstd.

  (* ---------------------------------------------------------------- *)
  (* parsing                                                           *)
  (* ---------------------------------------------------------------- *)
  Lemma parse_rel_of x base sbase : base_rel base sbase -> base_wf sbase ->
    parse_rel (to_pres (BasicParser idna_raw c x base None None))
              (SB.basic_url_parse dta (runes x) sbase None None).
  Proof.
    intros Hb Hw. destruct (R8_parse idna_raw c Hstd Horacle x base sbase Hb Hw) as [E|H]; [left; exact E|].
    unfold parse_rel.
    destruct (BasicParser idna_raw c x base None None) as [u|u e|u| |];
      destruct (SB.basic_url_parse dta (runes x) sbase None None) as [su|su| |];
      cbn [result_rel to_pres] in *; try contradiction; try (right; exact H); try (left; reflexivity);
      try (right; exact I); try (destruct H as [H _]; discriminate H).
  Qed.

  Theorem Parse_refines s : parse_rel (Parse idna_raw c s) (SS.url_parse dta (runes s) None).
  Proof. apply parse_rel_of; [exact I|intros sb H; discriminate H]. Qed.

  Theorem UrlParse_refines b sb ref : R b sb -> base_wf (Some sb) ->
    parse_rel (UrlParse idna_raw c b ref) (SS.url_parse dta (runes ref) (Some sb)).
  Proof. intros HR Hw. apply parse_rel_of; [exact HR|exact Hw]. Qed.

  (* a special record without opaque path gives a well-formed base; true of every parsed record (RecordInv.Inv) *)
  Lemma base_wf_of b sb : R b sb -> (IsSpecialScheme c b = true -> u_opaque b = false) -> base_wf (Some sb).
  Proof.
    intros HR H sb' E Hs. inversion E; subst sb'. rewrite <- (RU.R_opaque b sb HR). apply H.
    rewrite (R_special c b sb (std_special_tab c Hstd) HR). exact Hs.
  Qed.

  (* the constructor URL(url, base) / the model's ParseRef, the base given as a string *)
  Definition api_rel (mp : pres) (sr : SS.api_result) : Prop :=
    sr = SS.ApiOutOfFuel \/
    match mp, sr with
    | PUrl u, SS.ApiOk su => R u su
    | PErr _, SS.ApiFailure => True
    | PErr _, SS.ApiBaseFailure => True
    | _, _ => False
    end.

  Theorem ParseRef_refines rawUrl ref :
    (forall b, Parse idna_raw c rawUrl = PUrl b -> IsSpecialScheme c b = true -> u_opaque b = false) ->
    api_rel (ParseRef idna_raw c rawUrl ref)
            (SS.api_url_parse dta (runes ref) (match rawUrl with [] => None | _ => Some (runes rawUrl) end)).
  Proof.
    intros Hinv. unfold ParseRef, SS.api_url_parse.
    destruct rawUrl as [|b0 raw'].
    - pose proof (Parse_refines ref) as H. unfold parse_rel, api_rel in *.
      destruct H as [E|H]; [left; rewrite E; reflexivity|].
      destruct (Parse idna_raw c ref), (SS.url_parse dta (runes ref) None); cbn [SS.api_of_outcome];
        try contradiction; right; exact H.
    - set (rawUrl := b0 :: raw') in *.
      pose proof (Parse_refines rawUrl) as H. unfold parse_rel, api_rel in *.
      destruct H as [E|H]; [left; rewrite E; reflexivity|].
      destruct (Parse idna_raw c rawUrl) as [b|e| | |] eqn:EP;
        destruct (SS.url_parse dta (runes rawUrl) None) as [pb|pb| |]; try contradiction.
      + (* the base parsed *)
        pose proof (UrlParse_refines b pb ref H (base_wf_of b pb H (Hinv b eq_refl))) as H2.
        unfold parse_rel in H2. destruct H2 as [E|H2]; [left; rewrite E; reflexivity|].
        destruct (UrlParse idna_raw c b ref), (SS.url_parse dta (runes ref) (Some pb)); cbn [SS.api_of_outcome];
          try contradiction; right; exact H2.
      + right. exact I.
  Qed.

  (* ---------------------------------------------------------------- *)
  (* setters that run the parser with a state override                 *)
  (* ---------------------------------------------------------------- *)
  Lemma override_setter x u su st :
    st_rel true None st (-1) [] u (SB.mkM su (st_map st) [] false false false 0) ->
    setter_rel (after (BasicParser idna_raw c x None (Some u) (Some st)))
               (SS.parse_with_override dta su (runes x) (st_map st)).
  Proof.
    intros Hst. unfold SS.parse_with_override, setter_rel.
    destruct (R8_override idna_raw c Hstd Horacle x None None u su st I (fun sb H => ltac:(discriminate H)) Hst)
      as [E|H]; [left; rewrite E; reflexivity|].
    destruct (BasicParser idna_raw c x None (Some u) (Some st)) as [u'|u' e|u'| |];
      destruct (SB.basic_url_parse dta (runes x) None (Some su) (Some (st_map st))) as [su'|su'| |];
      cbn [result_rel after] in *; try contradiction; try (right; exact H); try (left; reflexivity).
    - right. exact (proj2 H).
    - right. exact (proj2 H).
  Qed.

  Lemma setter_rel_done u' su' : R u' su' -> setter_rel (Some u') (SB.Done su').
  Proof. intros H. right. exact H. Qed.

  (* ---------- username, password ---------- *)
  Theorem SetUsername_refines u su s : R u su ->
    setter_rel (SetUsername c u s) (SS.set_username su (runes s)).
  Proof.
    intros HR. unfold SetUsername, SS.set_username. rewrite (no_host_or_file_spec u su HR).
    destruct (SU.cannot_have_username_password_port su); apply setter_rel_done; [exact HR|].
    rewrite (R1_string_userinfo c Hstd s). apply R_set_username. exact HR.
  Qed.

  Theorem SetPassword_refines u su s : R u su ->
    setter_rel (SetPassword c u s) (SS.set_password su (runes s)).
  Proof.
    intros HR. unfold SetPassword, SS.set_password. rewrite (no_host_or_file_spec u su HR).
    destruct (SU.cannot_have_username_password_port su); apply setter_rel_done; [exact HR|].
    rewrite (R1_string_userinfo c Hstd s). apply R_set_password. exact HR.
  Qed.

  (* ---------- host, hostname ---------- *)
  Theorem SetHost_refines u su s : R u su ->
    setter_rel (SetHost idna_raw c u s) (SS.set_host dta su (runes s)).
  Proof.
    intros HR. unfold SetHost, SS.set_host. rewrite (RU.R_opaque u su HR).
    destruct (SU.has_opaque_path su) eqn:Eo; [apply setter_rel_done; exact HR|].
    apply (override_setter s u su HostSt). cbn [st_rel SB.m_url SB.m_buffer].
    split; [reflexivity|]. split; [constructor|]. split; [exact HR|exact Eo].
  Qed.

  Theorem SetHostname_refines u su s : R u su ->
    setter_rel (SetHostname idna_raw c u s) (SS.set_hostname dta su (runes s)).
  Proof.
    intros HR. unfold SetHostname, SS.set_hostname. rewrite (RU.R_opaque u su HR).
    destruct (SU.has_opaque_path su) eqn:Eo; [apply setter_rel_done; exact HR|].
    apply (override_setter s u su HostnameSt). cbn [st_rel SB.m_url SB.m_buffer].
    split; [reflexivity|]. split; [constructor|]. split; [exact HR|exact Eo].
  Qed.

  (* ---------- port ---------- *)
  Theorem SetPort_refines u su s : R u su ->
    setter_rel (SetPort idna_raw c u s) (SS.set_port dta su (runes s)).
  Proof.
    intros HR. unfold SetPort, SS.set_port. rewrite (no_host_or_file_spec u su HR).
    destruct (SU.cannot_have_username_password_port su); [apply setter_rel_done; exact HR|].
    destruct s as [|b s'].
    - cbn [runes decode decode_fuel length map is_nil]. apply setter_rel_done. apply R_port_none. exact HR.
    - replace (is_nil (runes (b :: s'))) with false.
      2:{ symmetry. destruct (runes (b :: s')) eqn:E; [apply (proj1 (runes_nil_iff _)) in E; discriminate E|reflexivity]. }
      apply (override_setter (b :: s') u su PortSt). cbn [st_rel SB.m_url SB.m_buffer].
      split; [reflexivity|]. split; [reflexivity|]. split; [exact HR|]. intros H. discriminate H.
  Qed.

  (* ---------- pathname ---------- *)
  Theorem SetPathname_refines u su s : R u su ->
    setter_rel (SetPathname idna_raw c u s) (SS.set_pathname dta su (runes s)).
  Proof.
    intros HR. unfold SetPathname, SS.set_pathname. rewrite (RU.R_opaque u su HR).
    destruct (SU.has_opaque_path su) eqn:Eo; [apply setter_rel_done; exact HR|].
    apply (override_setter s (set_path u [] false) (SU.with_path su (SU.PList [])) PathStart).
    cbn [st_rel SB.m_url SB.m_buffer].
    split; [reflexivity|]. split; [reflexivity|]. split; [|reflexivity].
    exact (R_set_path_list u su [] HR).
  Qed.

  (* ---------- hash ---------- *)
  Theorem SetHash_refines u su s : R u su ->
    setter_rel (SetHash idna_raw c u s) (SS.set_hash dta su (runes s)).
  Proof.
    intros HR. unfold SetHash, SS.set_hash.
    destruct s as [|b s'].
    - cbn [runes decode decode_fuel length map].
      pose proof (R_set_fragment u su None HR) as HR1. cbn [option_map] in HR1.
      assert (Eq : is_some (u_query (set_fragment u None)) = is_some (SU.u_query (SU.with_fragment su None))).
      { cbn. rewrite (RU.R_query u su HR). destruct (SU.u_query su); reflexivity. }
      rewrite Eq. destruct (SU.u_query (SU.with_fragment su None)) as [q|] eqn:E; cbn [is_some negb].
      + rewrite potentially_strip_same by (left; rewrite E; discriminate). apply setter_rel_done. exact HR1.
      + pose proof (strip_opaque_spec _ _ HR1 E eq_refl) as G.
        destruct (strip_opaque (set_fragment u None)); [apply setter_rel_done; exact G|contradiction].
    - rewrite strip35, <- (runes_trim_prefix1 35 (b :: s')) by lia.
      destruct (runes (b :: s')) as [|x rest] eqn:E; [apply (proj1 (runes_nil_iff _)) in E; discriminate E|].
      apply (override_setter (trim_prefix1 35 (b :: s')) (set_fragment u (Some [])) (SU.with_fragment su (Some [])) FragmentSt).
      cbn [st_rel SB.m_url SB.m_buffer]. exists []. split; [reflexivity|]. split; [reflexivity|].
      apply R_Rf. exact (R_set_fragment u su (Some []) HR).
  Qed.

  (* ---------- search ---------- *)
  (* under a state override the query state never leaves: the result's query is non-null *)
  Lemma spec_query_run input : forall fuel m,
    SB.m_state m = SB.QueryState -> is_some (SU.u_query (SB.m_url m)) = true ->
    match SB.run_plain dta input None (Some SB.QueryState) fuel m with
    | SB.Done su' | SB.Failed su' => is_some (SU.u_query su') = true
    | SB.OutOfFuel => True
    | SB.AssertViolated => False
    end.
  Proof.
    induction fuel as [|fuel IH]; intros m Hs Hq; [exact I|].
    cbn [SB.run_plain]. unfold SB.step. rewrite Hs. unfold SB.query_state, SB.override_given. cbn [is_some negb andb orb].
    destruct (SB.c_of (SB.substring_from input (SB.m_pointer m))) as [x|]; cbn [SB.c_is_eof SB.c_is].
    - destruct m as [su st buf a b p ptr]. cbn [SB.append_to_buffer SB.set_buffer SB.m_pointer SB.m_url SB.m_state SB.m_buffer
        SB.m_atSignSeen SB.m_insideBrackets SB.m_passwordTokenSeen] in *.
      destruct (SB.points_to_eof input ptr); [exact Hq|]. apply IH; [exact Hs|exact Hq].
    - destruct (SU.u_query (SB.m_url m)) as [q|] eqn:Eq; [|discriminate Hq]. cbv zeta.
      destruct m as [su st buf a b p ptr]. cbn [SB.set_buffer SB.set_url SB.m_pointer SB.m_url SB.m_state SB.m_buffer
        SB.m_atSignSeen SB.m_insideBrackets SB.m_passwordTokenSeen] in *.
      destruct (SB.points_to_eof input ptr); [reflexivity|]. apply IH; [exact Hs|reflexivity].
  Qed.

  Theorem SetSearch_refines u su s : R u su ->
    setter_rel (SetSearch idna_raw c u s) (SS.set_search dta su (runes s)).
  Proof.
    intros HR. unfold SetSearch, SS.set_search.
    destruct s as [|b s'].
    - cbn [runes decode decode_fuel length map].
      pose proof (R_set_query u su None HR) as HR1. cbn [option_map] in HR1.
      set (u2 := match u_sp (set_query u None) with Some _ => set_sp (set_query u None) (Some []) | None => set_query u None end).
      assert (HR2 : R u2 (SU.with_query su None)).
      { unfold u2. destruct (u_sp (set_query u None)); [apply R_set_sp|]; exact HR1. }
      assert (Ef : is_some (u_fragment u2) = is_some (SU.u_fragment (SU.with_query su None))).
      { rewrite (RU.R_fragment u2 _ HR2). destruct (SU.u_fragment (SU.with_query su None)); reflexivity. }
      rewrite Ef. destruct (SU.u_fragment (SU.with_query su None)) as [f|] eqn:E; cbn [is_some negb].
      + rewrite potentially_strip_same by (right; rewrite E; discriminate). apply setter_rel_done. exact HR2.
      + pose proof (strip_opaque_spec _ _ HR2 eq_refl E) as G.
        destruct (strip_opaque u2); [apply setter_rel_done; exact G|contradiction].
    - rewrite strip63, <- (runes_trim_prefix1 63 (b :: s')) by lia.
      destruct (runes (b :: s')) as [|x rest] eqn:E; [apply (proj1 (runes_nil_iff _)) in E; discriminate E|].
      set (x0 := trim_prefix1 63 (b :: s')).
      assert (Hu1 : exists u1, u1 = match u_query u with None => set_query u (Some []) | Some _ => u end /\
                                is_some (u_query u1) = true /\ Rq u1 (SU.with_query su (Some []))).
      { destruct (u_query u) as [mq|] eqn:Equ; eexists; (split; [reflexivity|]); split.
        - rewrite Equ. reflexivity.
        - apply Rq_with_query, R_Rq, HR.
        - reflexivity.
        - apply (Rq_query u su (Some []) (Some [])). apply R_Rq. exact HR. }
      destruct Hu1 as [u1 [Eu1 [Hq1 HRq1]]]. rewrite <- Eu1.
      assert (Hst : st_rel true None QuerySt (-1) [] u1 (SB.mkM (SU.with_query su (Some [])) (st_map QuerySt) [] false false false 0)).
      { cbn [st_rel SB.m_url SB.m_buffer]. exists []. split; [reflexivity|]. split; [exact Hq1|].
        split; [reflexivity|exact HRq1]. }
      pose proof (override_setter x0 u1 (SU.with_query su (Some [])) QuerySt Hst) as H.
      unfold setter_rel in *. destruct H as [Eo|H]; [left; exact Eo|].
      (* the standard's result has a non-null query *)
      pose proof (spec_query_run (SB.remove_tab_newline (runes x0)) (SB.parser_fuel (SB.remove_tab_newline (runes x0)))
                    (SB.mkM (SU.with_query su (Some [])) SB.QueryState [] false false false 0) eq_refl eq_refl) as Hq.
      unfold SS.parse_with_override in *. rewrite SB.basic_url_parse_eq_plain in *.
      unfold SB.basic_url_parse_plain in *. cbn [st_map] in *.
      destruct (SB.run_plain dta (SB.remove_tab_newline (runes x0)) None (Some SB.QueryState)
                  (SB.parser_fuel (SB.remove_tab_newline (runes x0)))
                  (SB.mkM (SU.with_query su (Some [])) SB.QueryState [] false false false 0)) as [su'|su'| |];
        destruct (after (BasicParser idna_raw c x0 None (Some u1) (Some QuerySt))) as [u'|]; try contradiction;
        try (left; reflexivity).
      + right. rewrite (RU.R_query u' su' H). destruct (SU.u_query su') as [q|]; [|discriminate Hq].
        cbn [option_map]. apply R_set_sp. exact H.
      + right. rewrite (RU.R_query u' su' H). destruct (SU.u_query su') as [q|]; [|discriminate Hq].
        cbn [option_map]. apply R_set_sp. exact H.
  Qed.
End Api.

(* ================================================================== *)
(* the protocol setter                                                  *)
(* ================================================================== *)
(* The standard parses "value followed by ':'"; the model appends ':' only if value does not already end with
   one. Under the state override the scheme state returns (or fails) at the first ':' at the latest, so what
   follows a ':' is never read. *)
Lemma hd_skipn_app_gen (l : list N) : forall k (t : list N), (k <= length l)%nat ->
  hd_error (skipn k (l ++ 58 :: t)) = if (k <? length l)%nat then nth_error l k else Some 58.
Proof.
  induction l as [|x l IH]; intros k t Hk.
  - cbn [length] in Hk. assert (E : k = 0%nat) by lia. subst k. reflexivity.
  - destruct k as [|k]; [reflexivity|]. cbn [length] in Hk. cbn [app skipn nth_error].
    rewrite IH by lia. reflexivity.
Qed.

Section FirstColon.
  Variable dta0 : list N -> option (list N).
  Variable pre t1 t2 : list N.
  Let ov : option SB.pstate := Some SB.SchemeStartState.

  Lemma hd_skipn_app k (t : list N) : (k <= length pre)%nat ->
    hd_error (skipn k (pre ++ 58 :: t)) = if (k <? length pre)%nat then nth_error pre k else Some 58.
  Proof. apply hd_skipn_app_gen. Qed.

  Lemma c_of_indep p : (0 <= p)%Z -> (p <= Z.of_nat (length pre))%Z ->
    SB.c_of (SB.substring_from (pre ++ 58 :: t1) p) = SB.c_of (SB.substring_from (pre ++ 58 :: t2) p).
  Proof.
    intros H0 H1. unfold SB.c_of, SB.substring_from. rewrite !hd_skipn_app by lia. reflexivity.
  Qed.

  Lemma c_of_pre p x : (0 <= p)%Z -> (p <= Z.of_nat (length pre))%Z ->
    SB.c_of (SB.substring_from (pre ++ 58 :: t1) p) = Some x -> x <> 58 -> (p < Z.of_nat (length pre))%Z.
  Proof.
    intros H0 H1 E Hx. unfold SB.c_of, SB.substring_from in E. rewrite hd_skipn_app in E by lia.
    destruct (Z.to_nat p <? length pre)%nat eqn:El; [apply Nat.ltb_lt in El; lia|]. congruence.
  Qed.

  Definition in_scheme (m : SB.machine) : Prop :=
    SB.m_state m = SB.SchemeStartState \/ SB.m_state m = SB.SchemeState.

  (* one run: the same on both inputs; if it continues, the code point read was not ':' *)
  Lemma step_indep m : in_scheme m -> (0 <= SB.m_pointer m)%Z -> (SB.m_pointer m <= Z.of_nat (length pre))%Z ->
    SB.step dta0 None ov m (SB.substring_from (pre ++ 58 :: t1) (SB.m_pointer m)) =
    SB.step dta0 None ov m (SB.substring_from (pre ++ 58 :: t2) (SB.m_pointer m)) /\
    forall m', SB.step dta0 None ov m (SB.substring_from (pre ++ 58 :: t1) (SB.m_pointer m)) = SB.SCont m' ->
      in_scheme m' /\ SB.m_pointer m' = SB.m_pointer m /\ (SB.m_pointer m < Z.of_nat (length pre))%Z.
  Proof.
    intros Hin H0 H1. unfold SB.step.
    pose proof (c_of_indep (SB.m_pointer m) H0 H1) as Ec.
    pose proof (fun x => c_of_pre (SB.m_pointer m) x H0 H1) as Hlt.
    rewrite <- Ec.
    destruct (SB.c_of (SB.substring_from (pre ++ 58 :: t1) (SB.m_pointer m))) as [x|] eqn:Ex.
    - destruct Hin as [Hs|Hs]; rewrite Hs.
      + (* scheme start *)
        split; [reflexivity|]. unfold SB.scheme_start_state, SB.override_given, ov. cbn [is_some negb].
        destruct (ascii_alpha x) eqn:Ea; [|intros m' Hm; discriminate Hm].
        intros m' Hm. inversion Hm; subst m'. destruct m as [su st buf a b pw ptr].
        cbn [SB.m_state SB.m_pointer SB.set_state SB.append_to_buffer SB.set_buffer SB.m_url SB.m_buffer
             SB.m_atSignSeen SB.m_insideBrackets SB.m_passwordTokenSeen] in *.
        split; [right; reflexivity|]. split; [reflexivity|]. apply (Hlt x eq_refl).
        intros ->. discriminate Ea.
      + (* scheme *)
        unfold SB.scheme_state, SB.override_given, ov. cbn [is_some negb andb].
        destruct (ascii_alphanumeric x || (x =? 43) || (x =? 45) || (x =? 46)) eqn:Ea.
        * split; [reflexivity|]. intros m' Hm. inversion Hm; subst m'. destruct m as [su st buf a b pw ptr].
          cbn [SB.m_state SB.m_pointer SB.set_state SB.append_to_buffer SB.set_buffer SB.m_url SB.m_buffer
               SB.m_atSignSeen SB.m_insideBrackets SB.m_passwordTokenSeen] in *.
          split; [right; exact Hs|]. split; [reflexivity|]. apply (Hlt x eq_refl).
          intros ->. discriminate Ea.
        * destruct (x =? 58).
          -- destruct ((SU.is_special_scheme (SU.u_scheme (SB.m_url m)) && negb (SU.is_special_scheme (SB.m_buffer m))
               || negb (SU.is_special_scheme (SU.u_scheme (SB.m_url m))) && SU.is_special_scheme (SB.m_buffer m)
               || (SU.includes_credentials (SB.m_url m) || is_some (SU.u_port (SB.m_url m))) &&
                  SU.cps_eqb (SB.m_buffer m) SU.sc_file
               || SU.cps_eqb (SU.u_scheme (SB.m_url m)) SU.sc_file &&
                  match SU.u_host (SB.m_url m) with Some h => SU.host_is_empty h | None => false end)).
             ++ split; [reflexivity|]. intros m' Hm; discriminate Hm.
             ++ split; [reflexivity|]. intros m' Hm; discriminate Hm.
          -- split; [reflexivity|]. intros m' Hm; discriminate Hm.
    - (* the EOF code point cannot be read before the ':' *)
      exfalso. unfold SB.c_of, SB.substring_from in Ex. rewrite hd_skipn_app in Ex by lia.
      destruct (Z.to_nat (SB.m_pointer m) <? length pre)%nat eqn:El; [|discriminate Ex].
      apply Nat.ltb_lt in El. apply nth_error_None in Ex. lia.
  Qed.

  Lemma not_eof (t : list N) p : (p <= Z.of_nat (length pre))%Z -> SB.points_to_eof (pre ++ 58 :: t) p = false.
  Proof.
    intros H. unfold SB.points_to_eof, SB.input_length. rewrite app_length. cbn [length].
    destruct (0 <=? p)%Z; [|reflexivity]. cbn [andb]. apply Z.leb_gt. lia.
  Qed.

  Theorem run_first_colon : forall fuel m, in_scheme m -> (0 <= SB.m_pointer m)%Z ->
    (SB.m_pointer m <= Z.of_nat (length pre))%Z ->
    SB.run_plain dta0 (pre ++ 58 :: t1) None ov fuel m = SB.run_plain dta0 (pre ++ 58 :: t2) None ov fuel m.
  Proof.
    induction fuel as [|fuel IH]; intros m Hin H0 H1; [reflexivity|].
    cbn [SB.run_plain]. destruct (step_indep m Hin H0 H1) as [E Hc]. rewrite <- E.
    destruct (SB.step dta0 None ov m (SB.substring_from (pre ++ 58 :: t1) (SB.m_pointer m))) as [m'|u|u|];
      try reflexivity.
    destruct (Hc m' eq_refl) as [Hin' [Hp Hlt]].
    rewrite !not_eof by lia. apply IH.
    - destruct m'; exact Hin'.
    - destruct m'; cbn in *; lia.
    - destruct m'; cbn in *; lia.
  Qed.
End FirstColon.

Lemma split_first_58 (l : list N) : In 58 l -> exists pre t, l = pre ++ 58 :: t /\ ~ In 58 pre.
Proof.
  induction l as [|x l IH]; intros H; [destruct H|].
  destruct (N.eq_dec x 58) as [->|Hx].
  - exists [], l. split; [reflexivity|intros []].
  - destruct H as [H|H]; [congruence|]. destruct (IH H) as [pre [t [E Hn]]].
    exists (x :: pre), t. split; [rewrite E; reflexivity|]. intros [H1|H1]; [congruence|exact (Hn H1)].
Qed.

Lemma remove_tab_newline_app a b : SB.remove_tab_newline (a ++ b) = SB.remove_tab_newline a ++ SB.remove_tab_newline b.
Proof. unfold SB.remove_tab_newline. apply filter_app. Qed.

Lemma has_suffix1 a s : has_suffix [a] s = true -> exists s', s = s' ++ [a].
Proof.
  unfold has_suffix. cbn [rev app]. intros H. destruct (rev s) as [|x r] eqn:E; [discriminate H|].
  cbn [has_prefix] in H. apply andb_prop in H. destruct H as [H _]. apply N.eqb_eq in H. subst x.
  exists (rev r). rewrite <- (rev_involutive s), E. reflexivity.
Qed.

Section Protocol.
  Variable idna_raw : str -> str * bool.
  Variable c : cfg.
  Hypothesis Hstd : std_cfg c.
  Hypothesis Horacle : oracle_ok idna_raw c.
  Notation dta := (dta idna_raw c).

  Theorem SetProtocol_refines u su s : R u su -> file_host_ok su ->
    setter_rel (SetProtocol idna_raw c u s) (SS.set_protocol dta su (runes s)).
  Proof.
    intros HR Hfh. unfold SetProtocol, SS.set_protocol.
    assert (Hst : st_rel true None SchemeStart (-1) [] u
                    (SB.mkM su (st_map SchemeStart) [] false false false 0)).
    { cbn [st_rel SB.m_url SB.m_buffer]. split; [reflexivity|]. split; [reflexivity|]. split; [exact HR|].
      split; [intros H; discriminate H|exact Hfh]. }
    destruct (has_suffix [58] s) eqn:Esuf.
    - (* the value ends with ':' already: the standard parses value ++ "::" up to the first ':' only *)
      destruct (has_suffix1 58 s Esuf) as [s0 Es].
      set (A := SB.remove_tab_newline (runes s)).
      assert (EA : SB.remove_tab_newline (runes s ++ [58]) = A ++ [58]).
      { rewrite remove_tab_newline_app. reflexivity. }
      assert (HinA : In 58 A).
      { unfold A. rewrite Es, (runes_snoc_ascii s0 58) by lia. rewrite remove_tab_newline_app.
        apply in_or_app. right. left. reflexivity. }
      destruct (split_first_58 A HinA) as [pre [t [EApre Hpre]]].
      set (m0 := SB.mkM su SB.SchemeStartState [] false false false 0).
      unfold setter_rel, SS.parse_with_override. rewrite SB.basic_url_parse_eq_plain.
      unfold SB.basic_url_parse_plain. rewrite EA. fold m0.
      set (F := (SB.parser_fuel (A ++ [58%N]) + fuel_of (length (decode (fst (remove_tabnl_sv false s)))))%nat).
      pose proof (R8_override_run idna_raw c Hstd Horacle s None None u su SchemeStart F I
                    (fun sb H => ltac:(discriminate H)) Hst ltac:(unfold F; lia)) as Hrun.
      cbn [st_map] in Hrun. fold A m0 in Hrun.
      assert (Eind : SB.run_plain dta A None (Some SB.SchemeStartState) F m0 =
                     SB.run_plain dta (A ++ [58]) None (Some SB.SchemeStartState) F m0).
      { rewrite EApre, <- app_assoc. cbn [app].
        apply (run_first_colon dta pre t (t ++ [58]) F m0); [left; reflexivity|cbn; lia|cbn; lia]. }
      rewrite Eind in Hrun. unfold F in Hrun. clear Eind.
      destruct (SB.run_plain dta (A ++ [58]) None (Some SB.SchemeStartState) (SB.parser_fuel (A ++ [58])) m0)
        as [su'|su'| |] eqn:Er; try (left; reflexivity).
      + rewrite (spec_more_fuel dta (A ++ [58]) None (Some SB.SchemeStartState) (SB.parser_fuel (A ++ [58]))
                   (fuel_of (length (decode (fst (remove_tabnl_sv false s))))) m0) in Hrun by (rewrite Er; discriminate).
        rewrite Er in Hrun.
        destruct (BasicParser idna_raw c s None (Some u) (Some SchemeStart)) as [u'|u' e|u'| |];
          cbn [result_rel after] in *; try contradiction; right; try exact Hrun; exact (proj2 Hrun).
      + rewrite (spec_more_fuel dta (A ++ [58]) None (Some SB.SchemeStartState) (SB.parser_fuel (A ++ [58]))
                   (fuel_of (length (decode (fst (remove_tabnl_sv false s))))) m0) in Hrun by (rewrite Er; discriminate).
        rewrite Er in Hrun.
        destruct (BasicParser idna_raw c s None (Some u) (Some SchemeStart)) as [u'|u' e|u'| |];
          cbn [result_rel after] in *; try contradiction; right; exact Hrun.
      + rewrite (spec_more_fuel dta (A ++ [58]) None (Some SB.SchemeStartState) (SB.parser_fuel (A ++ [58]))
                   (fuel_of (length (decode (fst (remove_tabnl_sv false s))))) m0) in Hrun by (rewrite Er; discriminate).
        rewrite Er in Hrun.
        destruct (BasicParser idna_raw c s None (Some u) (Some SchemeStart)); cbn [result_rel] in Hrun; contradiction.
    - rewrite <- (runes_snoc_ascii s 58) by lia.
      exact (override_setter idna_raw c Hstd Horacle (s ++ [58]) u su SchemeStart Hst).
  Qed.
End Protocol.

Print Assumptions Parse_refines.
Print Assumptions UrlParse_refines.
Print Assumptions ParseRef_refines.
Print Assumptions SetUsername_refines.
Print Assumptions SetPassword_refines.
Print Assumptions SetHost_refines.
Print Assumptions SetHostname_refines.
Print Assumptions SetPort_refines.
Print Assumptions SetPathname_refines.
Print Assumptions SetSearch_refines.
Print Assumptions SetHash_refines.
Print Assumptions SetProtocol_refines.
