(* Round trip, part 2 (S2): URLs with an opaque path, "scheme:opaque?query#fragment". *)
From Verif Require Import Lib.Base Lib.Utf8 Lib.GoStr Model.Cfg Gen.Tables Gen.Options Model.Sets Model.Percent
  Model.Url Model.Host Model.Machine Model.Api Model.Preds.
From Verif Require Import Proofs.SetsProofs Proofs.Cleaning Proofs.PhaseLemmas Proofs.RecordInv
  Proofs.RoundTripBase Proofs.RoundTripPhases.
From Coq Require Import Lia ZifyBool ZifyN ZifyNat.

Local Arguments N.mul : simpl never.
Local Arguments N.add : simpl never.
Local Arguments N.sub : simpl never.
Local Arguments N.eqb : simpl never.
Local Arguments N.ltb : simpl never.
Local Arguments N.leb : simpl never.

Lemma scheme_ok_vis s : scheme_ok s = true -> s <> [] /\ forallb vis s = true /\ vis (hd 0 s) = true.
Proof.
  destruct s as [|a r]; [discriminate|]. unfold scheme_ok. intro H.
  apply andb_true_iff in H. destruct H as [H1 H2].
  assert (Ha : vis a = true) by (unfold is_lower in H1; unfold vis; lia).
  split; [discriminate|]. split; [|exact Ha]. cbn [forallb]. rewrite Ha. cbn [andb].
  revert H2. apply forallb_impl. intros x. unfold scheme_char, is_lower, is_digit, vis. lia.
Qed.

Lemma opq_chars s0 :
  none_in pes_C0 s0 = true -> forallb (fun x => negb (x =? 63) && negb (x =? 35)) s0 = true ->
  forallb opq_char s0 = true.
Proof.
  unfold none_in. intros H1 H2. rewrite forallb_forall in *. intros x Hx.
  unfold opq_char. rewrite (H1 x Hx), (H2 x Hx). reflexivity.
Qed.

Section Opaque.
  Variable idna_raw : str -> str * bool.
  Variable c : cfg.
  Hypothesis R : CfgRT c.

  Let Hrep := R_rep c R.
  Let Hfail := R_fail c R.

  Theorem roundtrip_opaque u s :
    Inv c u -> u_opaque u = true -> stable_b c u = true -> Href u false = Some s ->
    Parse idna_raw c s = PUrl (rt_url u s).
  Proof.
    intros Hi Ho Hst Hh.
    destruct (I_opaque _ _ Hi Ho) as [Hhost [s0 [Hpath [Hnoslash Hc0]]]].
    destruct (I_nocred _ _ Hi (or_introl Hhost)) as [Huser [Hpass Hport]].
    pose proof (I_scheme _ _ Hi) as Hsch.
    assert (Hnsp : isSpecialScheme c (u_scheme u) = false).
    { destruct (isSpecialScheme c (u_scheme u)) eqn:E; [|reflexivity].
      destruct (I_special _ _ Hi E) as [E' _]. congruence. }
    assert (Hnf : str_eqb (u_scheme u) s_file = false).
    { destruct (str_eqb (u_scheme u) s_file) eqn:E; [|reflexivity].
      apply str_eqb_eq in E. rewrite E, (R_file c R) in Hnsp. discriminate. }
    unfold stable_b in Hst. rewrite Ho in Hst. apply andb_true_iff in Hst. destruct Hst as [Hdp Hst].
    unfold dport_ok in Hdp. rewrite Hport in Hdp. apply N.eqb_eq in Hdp.
    unfold opq_stable in Hst. rewrite Hpath in Hst. apply andb_true_iff in Hst. destruct Hst as [Hqh Hsp].
    (* the serialization *)
    unfold Href, Pathname, path_string in Hh. rewrite Ho, Hpath, Hhost in Hh. cbn [nth_opt negb andb app] in Hh.
    injection Hh as Hs.
    set (oq := u_query u) in *. set (of := u_fragment u) in *.
    change (match oq with Some q => 63 :: q | None => [] end) with (q_tail oq) in Hs.
    change (match of with Some f => 35 :: f | None => [] end) with (f_tail of) in Hs.
    assert (Hq : forall q, oq = Some q -> none_in (queryset c u) q = true).
    { intros q E. apply (I_query _ _ Hi q E). }
    assert (Hf : forall f, of = Some f -> none_in (fragset c u) f = true).
    { intros f E. apply (I_frag _ _ Hi f E). }
    destruct (scheme_ok_vis _ Hsch) as [Sne [Svis Shd]].
    (* the input is clean *)
    assert (Hqv : forallb vis (q_tail oq) = true).
    { destruct oq as [q|]; [|reflexivity]. cbn [q_tail forallb]. rewrite (none_in_vis _ q (R_queryset_ab c u R) (Hq q eq_refl)). reflexivity. }
    assert (Hfv : forallb vis (f_tail of) = true).
    { destruct of as [f|]; [|reflexivity]. cbn [f_tail forallb]. rewrite (none_in_vis _ f (R_fragset_ab c u R) (Hf f eq_refl)). reflexivity. }
    assert (Hs0p : forallb printable s0 = true) by (apply (none_in_printable pes_C0); [reflexivity|exact Hc0]).
    assert (Hprint : forallb printable s = true).
    { rewrite <- Hs, forallb_app. cbn [forallb]. rewrite !forallb_app. rewrite (forallb_vis_printable _ Svis), Hs0p,
        (forallb_vis_printable _ Hqv), (forallb_vis_printable _ Hfv). reflexivity. }
    assert (Hne : s <> []). { rewrite <- Hs. destruct (u_scheme u); [congruence|discriminate]. }
    assert (Hhd : vis (hd 0 s) = true). { rewrite <- Hs. destruct (u_scheme u); [congruence|exact Shd]. }
    assert (Hlast : vis (last s 0) = true).
    { rewrite <- Hs. destruct of as [f|].
      - replace (u_scheme u ++ 58 :: s0 ++ q_tail oq ++ f_tail (Some f))
          with ((u_scheme u ++ 58 :: s0 ++ q_tail oq) ++ f_tail (Some f))
          by (rewrite <- app_assoc; cbn [app]; rewrite <- app_assoc; reflexivity).
        apply last_app_vis; [discriminate|exact Hfv].
      - cbn [f_tail]. rewrite app_nil_r. destruct oq as [q|].
        + replace (u_scheme u ++ 58 :: s0 ++ q_tail (Some q))
            with ((u_scheme u ++ 58 :: s0) ++ q_tail (Some q))
            by (rewrite <- app_assoc; reflexivity).
          apply last_app_vis; [discriminate|exact Hqv].
        + cbn [q_tail]. rewrite app_nil_r. cbn [is_some] in Hsp. rewrite !orb_false_r in Hsp.
          apply negb_true_iff in Hsp. destruct s0 as [|y s0'].
          * change (u_scheme u ++ [58]) with (u_scheme u ++ [58]). apply last_app_vis; [discriminate|reflexivity].
          * change (u_scheme u ++ 58 :: y :: s0') with (u_scheme u ++ [58] ++ y :: s0').
            rewrite app_assoc. rewrite last_app_ne by discriminate.
            assert (Hin : In (last (y :: s0') 0) (y :: s0')).
            { rewrite (app_removelast_last 0 (l := y :: s0')) at 2 by discriminate. apply in_or_app. right. left. reflexivity. }
            rewrite forallb_forall in Hs0p. apply Hs0p in Hin. apply printable_nonspace_vis; assumption. }
    apply (Parse_of_finishes idna_raw c s _ Hrep Hfail Hne Hprint Hhd Hlast).
    (* the run *)
    assert (Hr0 : rest_from (map Good s) 0 = u_scheme u ++ 58 :: s0 ++ q_tail oq ++ f_tail of).
    { rewrite rest_map_good, <- Hs. reflexivity. }
    pose proof (len_nonneg (u_scheme u)) as Hlen.
    assert (Hlen1 : (1 <= len (u_scheme u))%Z).
    { apply len_pos. exact Sne. }
    eapply (reaches_finishes idna_raw c Hrep Hfail).
    { apply (scheme_phase idna_raw c Hrep Hfail _ _ _ false false false _ Hr0 Hsch). }
    pose proof (rest_app _ 0%Z _ _ ltac:(blia) Hr0) as Hr1.
    replace (0 + len (u_scheme u))%Z with (len (u_scheme u) - 1 + 1)%Z in Hr1 by ring.
    eapply (reaches_finishes idna_raw c Hrep Hfail).
    { eapply (reaches_step idna_raw c Hrep Hfail).
      - rewrite (step_scheme_colon idna_raw c Hrep Hfail _ (len (u_scheme u) - 1)%Z _ _ _ _ _ _ ltac:(blia) Hr1).
        rewrite Hnf, Hnsp.
        replace (has_prefix [47] (s0 ++ q_tail oq ++ f_tail of)) with false; [reflexivity|].
        destruct s0 as [|y s0']; [|symmetry; exact Hnoslash].
        destruct oq; [reflexivity|]. destruct of; reflexivity.
      - reflexivity. }
    destruct (rest_uncons _ (len (u_scheme u) - 1 + 1)%Z _ _ ltac:(blia) Hr1) as [_ [Hr2 _]].
    eapply (finishes_eq idna_raw c Hrep Hfail).
    { apply (opaque_path_phase idna_raw c Hrep Hfail _ (len (u_scheme u) - 1 + 1)%Z false false false _ s0 oq of
               (R_sp c R)); try reflexivity.
      - apply (R_queryset c _ R).
      - blia.
      - exact Hr2.
      - apply opq_chars; assumption.
      - exact Hq.
      - exact Hf. }
    unfold rt_url. fold oq of. rewrite Huser, Hpass, Hhost, Hport, Hdp, Hpath, Ho.
    destruct oq, of; reflexivity.
  Qed.
End Opaque.

Print Assumptions roundtrip_opaque.
