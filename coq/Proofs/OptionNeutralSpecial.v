(* N7: the table of special schemes matters only at the schemes the parse looks up:
   the scheme of the input (the lower-cased prefix before its first ':'), the scheme of the base, "file",
   and (under a state override) the scheme of the URL being modified. *)
From Coq Require Import String.
From Verif Require Import Lib.Base Lib.Utf8 Lib.GoStr Model.Cfg Gen.Tables Gen.Options Model.Sets Model.Percent Model.Url Model.Host Model.Machine Model.Api.
From Verif Require Import Proofs.OptionTable Proofs.Utf8Proofs Proofs.Cleaning Proofs.OptionNeutralBase Proofs.OptionNeutral.
From Coq Require Import Lia ZifyBool ZifyN ZifyNat.

(* the scheme buffer after reading the code points l *)
Definition lowerenc (l : list N) : str := flat_map (fun r => utf8_enc (ascii_lower r)) l.
Definition agree (t1 t2 : list (str * str)) (s : str) : Prop := assoc s t1 = assoc s t2.

(* states in which the scheme of the URL record is meaningful (cf. scheme_read) *)
Definition sread (ov : option state) (st : state) : bool :=
  match st with
  | SchemeStart | Scheme => is_some ov
  | NoScheme | Relative | File => false
  | _ => true
  end.

Lemma scheme_read_sread ov st : scheme_read ov st = true -> sread ov st = true.
Proof. destruct st; cbn; auto; discriminate. Qed.

Lemma lowerenc_app l1 l2 : lowerenc (l1 ++ l2) = lowerenc l1 ++ lowerenc l2.
Proof. unfold lowerenc. apply flat_map_app. Qed.

Lemma firstn_snoc {A} (l : list A) : forall n x, nth_opt l n = Some x -> firstn (S n) l = firstn n l ++ [x].
Proof.
  induction l as [|y l IH]; intros n x H; [destruct n; discriminate|].
  destruct n; cbn [nth_opt] in H.
  - injection H as ->. reflexivity.
  - cbn [firstn app]. f_equal. apply IH, H.
Qed.

Lemma nth_opt_map {A B} (f : A -> B) l : forall n, nth_opt (map f l) n = option_map f (nth_opt l n).
Proof. induction l as [|y l IH]; intros n; destruct n; cbn; auto. Qed.

Lemma cp_in_range inp p r : (0 <= p)%Z -> cp_at inp p = r -> r <> rune_error ->
  nth_opt (map rv inp) (Z.to_nat p) = Some r.
Proof.
  intros Hp H Hr. unfold cp_at in H. destruct (p <? 0)%Z eqn:L; [lia|].
  rewrite nth_opt_map. destruct (nth_opt inp (Z.to_nat p)); cbn [option_map]; congruence.
Qed.

Lemma scheme_char_not_error r :
  isAlnum r || (r =? 43) || (r =? 45) || (r =? 46) = true -> r <> rune_error.
Proof. intros H ->. vm_compute in H. discriminate. Qed.
Lemma alpha_not_error r : isAlpha r = true -> r <> rune_error.
Proof. intros H ->. vm_compute in H. discriminate. Qed.

Lemma list_eqb_true (a : list N) : forall b, list_eqb N.eqb a b = true -> a = b.
Proof.
  induction a as [|x a IH]; intros [|y b] H; try discriminate H; [reflexivity|].
  cbn [list_eqb] in H. apply andb_true_iff in H as [H1 H2]. apply N.eqb_eq in H1. subst y. f_equal. apply IH, H2.
Qed.
Lemma str_eqb_true a b : str_eqb a b = true -> a = b.
Proof. apply list_eqb_true. Qed.

Lemma cdp_scheme c u : u_scheme (cleanDefaultPort c u) = u_scheme u.
Proof.
  unfold cleanDefaultPort. destruct (getSpecialScheme c (u_scheme u)); [|reflexivity].
  destruct (u_port u); [|reflexivity]. destruct (str_eqb s s0); reflexivity.
Qed.

Lemma seg_end_special c t1 t2 u buf sl : agree t1 t2 (u_scheme u) ->
  seg_end (with_special c t1) u buf sl = seg_end (with_special c t2) u buf sl.
Proof.
  intros H. unfold seg_end. cbv zeta.
  assert (E : IsSpecialScheme (with_special c t1) u = IsSpecialScheme (with_special c t2) u).
  { unfold IsSpecialScheme, isSpecialScheme, getSpecialScheme. cbn [c_special with_special]. rewrite H. reflexivity. }
  rewrite E. reflexivity.
Qed.

Ltac cbn_url :=
  cbn [u_path u_scheme set_input set_scheme set_username set_password set_host set_port set_path set_query
       set_fragment set_verrs set_sp addSegment copy_base_auth].
Ltac frame_hosts :=
  repeat match goal with
  | Hph : parseHost _ _ ?u _ _ = Ok ?u0 _ |- _ =>
      let v := fresh "v" in
      destruct (parseHost_ok_frame _ _ _ _ _ _ _ Hph) as [v ->]; clear Hph
  end.

Section N7.
  Variable idna_raw : str -> str * bool.
  Variable c : cfg.
  Variables t1 t2 : list (str * str).
  Notation c1 := (with_special c t1).
  Notation c2 := (with_special c t2).
  Notation R := (agree t1 t2).
  Variable inp : list rune.
  Variable base : option url.
  Variable ov : option state.
  Hypothesis Hbase : forall bu, base = Some bu -> R (u_scheme bu).
  (* the code points before the first ':' *)
  Hypothesis Hinp : forall k, (0 <= k)%Z -> cp_at inp k = 58 -> (forall j, (0 <= j < k)%Z -> cp_at inp j <> 58) ->
    R (lowerenc (firstn (Z.to_nat k) (map rv inp))).

  Definition J (m : mstate) : Prop :=
    (sread ov (m_state m) = true -> R (u_scheme (m_url m))) /\
    (m_state m = SchemeStart -> m_ptr m = (-1)%Z /\ m_buf m = []) /\
    (m_state m = Scheme -> (0 <= m_ptr m)%Z /\ m_buf m = lowerenc (firstn (Z.to_nat (m_ptr m + 1)) (map rv inp)) /\
                           forall j, (0 <= j <= m_ptr m)%Z -> cp_at inp j <> 58) /\
    (m_state m = File -> R s_file).

  Lemma gss_R s : R s -> getSpecialScheme c1 s = getSpecialScheme c2 s.
  Proof. intros H. exact H. Qed.

  Lemma special_step m : J m -> step idna_raw c1 inp base ov m = step idna_raw c2 inp base ov m.
  Proof.
    intros (J1 & J2 & J3 & _). apply step_congr_eq; try reflexivity.
    - intros b Hb. apply gss_R, Hbase, Hb.
    - intros H. apply gss_R, J1, scheme_read_sread, H.
    - intros E H58. apply gss_R. destruct (J3 E) as (Hp & -> & Hnc). apply Hinp; [lia|exact H58|].
      intros j Hj. apply Hnc. lia.
    - intros _ ns. apply parseHost_congr; reflexivity.
    - intros E u sl Hs _. apply seg_end_special. rewrite Hs. apply J1. rewrite E. reflexivity.
  Qed.

  Lemma lowerenc_step (p : Z) r :
    (0 <= p)%Z -> cp_at inp p = r -> r <> rune_error ->
    lowerenc (firstn (Z.to_nat p) (map rv inp)) ++ utf8_enc (ascii_lower r) =
    lowerenc (firstn (Z.to_nat (p + 1)) (map rv inp)).
  Proof.
    intros Hp Hr Hne. replace (Z.to_nat (p + 1)) with (S (Z.to_nat p)) by lia.
    rewrite (firstn_snoc _ _ _ (cp_in_range inp p r Hp Hr Hne)), lowerenc_app.
    unfold lowerenc at 3. cbn [flat_map]. rewrite app_nil_r. reflexivity.
  Qed.

  Ltac disc3 := split; [intros; discriminate|]; split; [intros; discriminate|]; intros; discriminate.
  (* first component: the scheme of the new record is one the tables agree on *)
  Ltac comp1 J1 :=
    cbn [sread]; intros Hs; frame_hosts; rewrite ?cdp_scheme; cbn_url;
    first [ assumption | apply Hbase; first [assumption|reflexivity] | apply J1; first [reflexivity|assumption]
          | discriminate Hs ].

  Lemma special_inv m m' : J m -> step idna_raw c1 inp base ov m = Cont m' -> J m'.
  Proof.
    intros (J1 & J2 & J3 & J4) H. destruct m as [st p0 e0 buf atF brF pwF u].
    unfold step, mherr, handleError in H. cbn [m_state m_ptr m_eof m_buf m_at m_br m_pw m_url] in *.
    rewrite !r_cp in H. cbn [orb] in H.
    set (p := (p0 + 1)%Z) in *.
    set (r := cp_at inp p) in *.
    destruct st; cbn [sread] in J1.
    1: { (* SchemeStart *)
      destruct (J2 eq_refl) as [Hp0 ->]. clear J2 J3 J4.
      step_crush H.
      all: injection H as <-; unfold J; cbn [m_state m_ptr m_buf m_url mk].
      all: try (split; [intros; discriminate|]; disc3).
      all: split; [exact J1|]; (split; [intros; discriminate|]); (split; [|intros; discriminate]); intros _; (split; [lia|]).
      all: split; [|intros j Hj; replace j with p by lia; fold r; intros E58; rewrite E58 in *; vm_compute in Heqb; discriminate Heqb].
      all: rewrite <- (lowerenc_step p r) by (try lia; try reflexivity; apply alpha_not_error; assumption).
      all: replace (Z.to_nat p) with O by lia; reflexivity. }
    1: { (* Scheme *)
      destruct (J3 eq_refl) as (Hp0 & Hb & Hnc). clear J2 J3 J4.
      assert (Hbuf : (r =? 58) = true -> R buf).
      { intros E. apply N.eqb_eq in E. rewrite Hb. apply Hinp; [lia|exact E|]. intros j Hj. apply Hnc. lia. }
      step_crush H.
      all: injection H as <-; unfold J; cbn [m_state m_ptr m_buf m_url mk].
      all: split; [try (cbn [sread]; intros Hs; frame_hosts; rewrite ?cdp_scheme; cbn_url;
                        first [ apply Hbuf; first [assumption|reflexivity] | apply J1; assumption | discriminate Hs ])|].
      all: split; [intros; discriminate|].
      all: split; [try (intros; discriminate)|].
      all: try (intros; discriminate).
      (* Scheme -> Scheme *)
      all: try (intros _; (split; [lia|]); split;
           [ rewrite Hb; apply lowerenc_step; [lia|reflexivity|apply scheme_char_not_error; assumption]
           | intros j Hj; destruct (Z.eq_dec j p) as [->|Hne]; [|apply Hnc; lia];
             fold r; intros E58; rewrite E58 in *;
             match goal with Hc : isAlnum 58 || _ || _ || _ = true |- _ => vm_compute in Hc; discriminate Hc end ]).
      (* Scheme -> File: the buffer is "file" *)
      all: intros _;
           match goal with Hq : str_eqb (u_scheme (set_scheme _ _)) s_file = true |- _ =>
             cbn [u_scheme set_scheme] in Hq; apply str_eqb_true in Hq; rewrite <- Hq; apply Hbuf; first [assumption|reflexivity] end. }
    all: clear J2 J3; try specialize (J1 eq_refl); try specialize (J4 eq_refl).
    all: step_crush H.
    all: injection H as <-; unfold J; cbn [m_state m_ptr m_buf m_url mk].
    all: split; [comp1 J1|].
    all: split; [intros; discriminate|].
    all: split; [intros; discriminate|].
    all: try (intros; discriminate).
    (* NoScheme -> File: the base scheme is "file" *)
    all: intros _; first [ assumption |
         match goal with Hq : negb (str_eqb (u_scheme ?b) s_file) = false |- _ =>
           apply negb_false_iff, str_eqb_true in Hq; rewrite <- Hq; apply Hbase; first [assumption|reflexivity] end ].
  Qed.

  Theorem special_neutral_run fuel m : J m ->
    run idna_raw c1 inp base ov fuel m = run idna_raw c2 inp base ov fuel m.
  Proof.
    apply (run_sim_eq idna_raw c1 c2 inp base ov J).
    - intros m0 m' Hm S _. exact (special_inv m0 m' Hm S).
    - intros m0 Hm. apply special_step, Hm.
  Qed.
End N7.
Print Assumptions special_neutral_run.

(* ---------- the scheme of the input: the code points before the first ':' ---------- *)
Fixpoint scheme_prefix (l : list N) : option (list N) :=
  match l with
  | [] => None
  | x :: t => if x =? 58 then Some [] else option_map (cons x) (scheme_prefix t)
  end.

Lemma scheme_prefix_nat l : forall n, nth_opt l n = Some 58 ->
  (forall j, (j < n)%nat -> nth_opt l j <> Some 58) -> scheme_prefix l = Some (firstn n l).
Proof.
  induction l as [|a l IH]; intros n H Hj; [destruct n; discriminate|].
  destruct n as [|n].
  - cbn [nth_opt] in H. injection H as ->. reflexivity.
  - cbn [scheme_prefix]. destruct (a =? 58) eqn:E.
    + exfalso. apply (Hj 0%nat); [lia|]. cbn [nth_opt]. apply N.eqb_eq in E. congruence.
    + cbn [nth_opt] in H. rewrite (IH n H); [reflexivity|]. intros j Hlt. apply (Hj (S j)). lia.
Qed.

Lemma cp_at_nth inp (j : Z) x : (0 <= j)%Z -> nth_opt (map rv inp) (Z.to_nat j) = Some x -> cp_at inp j = x.
Proof.
  intros Hj H. unfold cp_at. destruct (j <? 0)%Z eqn:L; [lia|].
  rewrite nth_opt_map in H. destruct (nth_opt inp (Z.to_nat j)); cbn [option_map] in H; congruence.
Qed.

Lemma scheme_prefix_spec inp (k : Z) : (0 <= k)%Z -> cp_at inp k = 58 ->
  (forall j, (0 <= j < k)%Z -> cp_at inp j <> 58) ->
  scheme_prefix (map rv inp) = Some (firstn (Z.to_nat k) (map rv inp)).
Proof.
  intros Hk H58 Hj. apply scheme_prefix_nat.
  - apply cp_in_range; [exact Hk|exact H58|discriminate].
  - intros j Hlt E. apply (Hj (Z.of_nat j)); [lia|]. apply cp_at_nth; [lia|]. rewrite Nat2Z.id. exact E.
Qed.

(* ---------- the parser ---------- *)
Section N7top.
  Variable idna_raw : str -> str * bool.
  Variable c : cfg.
  Variables t1 t2 : list (str * str).

  (* general form: any url argument and state override whose start state is not Scheme or File *)
  Theorem special_schemes_neutral_gen x base u0 ov :
    match ov with Some Scheme | Some File => False | _ => True end ->
    (is_some ov = true -> agree t1 t2 (u_scheme (start_url x u0))) ->
    (forall bu, base = Some bu -> agree t1 t2 (u_scheme bu)) ->
    (forall pre, scheme_prefix (runes (cleaned (c_acceptInvalid c) x u0)) = Some pre -> agree t1 t2 (lowerenc pre)) ->
    BasicParser idna_raw (with_special c t1) x base u0 ov = BasicParser idna_raw (with_special c t2) x base u0 ov.
  Proof.
    intros Hov Hu Hbase Hpre. apply BasicParser_lift_eq; try reflexivity. intros v i.
    apply special_neutral_run.
    - intros bu Hb. destruct base as [b0|]; [|discriminate]. cbn [option_map] in Hb. injection Hb as <-.
      unfold clone. cbn [u_scheme set_verrs]. apply Hbase. reflexivity.
    - intros k Hk H58 Hj. apply Hpre. apply scheme_prefix_spec; assumption.
    - unfold J, init_m. cbn [m_state m_ptr m_buf m_url mk]. repeat split.
      + intros Hs. cbn [u_scheme set_input set_verrs]. apply Hu.
        destruct ov as [st|]; [reflexivity|]. cbn [sread] in Hs. exact Hs.
      + destruct ov as [[]|]; intros; (reflexivity || discriminate || contradiction).
      + destruct ov as [[]|]; intros; (discriminate || contradiction).
      + destruct ov as [[]|]; intros; (discriminate || contradiction).
  Qed.

  (* Parse / UrlParse *)
  Theorem special_schemes_neutral x base :
    (forall bu, base = Some bu -> agree t1 t2 (u_scheme bu)) ->
    (forall pre, scheme_prefix (runes (clean_sv (c_acceptInvalid c) x)) = Some pre -> agree t1 t2 (lowerenc pre)) ->
    BasicParser idna_raw (with_special c t1) x base None None = BasicParser idna_raw (with_special c t2) x base None None.
  Proof.
    intros Hbase Hpre. apply special_schemes_neutral_gen; auto. discriminate.
  Qed.

  Corollary special_Parse x :
    (forall pre, scheme_prefix (runes (clean_sv (c_acceptInvalid c) x)) = Some pre -> agree t1 t2 (lowerenc pre)) ->
    Parse idna_raw (with_special c t1) x = Parse idna_raw (with_special c t2) x.
  Proof. intros H. apply to_pres_congr, special_schemes_neutral; [discriminate|exact H]. Qed.

  Corollary special_UrlParse bu x :
    agree t1 t2 (u_scheme bu) ->
    (forall pre, scheme_prefix (runes (clean_sv (c_acceptInvalid c) x)) = Some pre -> agree t1 t2 (lowerenc pre)) ->
    UrlParse idna_raw (with_special c t1) bu x = UrlParse idna_raw (with_special c t2) bu x.
  Proof. intros Hb H. apply to_pres_congr, special_schemes_neutral; [|exact H]. intros b0 [= <-]. exact Hb. Qed.

  (* SetProtocol: the scheme of the URL, and the new scheme *)
  Corollary special_SetProtocol u s :
    agree t1 t2 (u_scheme u) ->
    (forall pre, scheme_prefix (runes (cleaned (c_acceptInvalid c)
        (if has_suffix [58] s then s else s ++ [58]) (Some u))) = Some pre -> agree t1 t2 (lowerenc pre)) ->
    SetProtocol idna_raw (with_special c t1) u s = SetProtocol idna_raw (with_special c t2) u s.
  Proof.
    intros Hu H. unfold SetProtocol. f_equal.
    apply special_schemes_neutral_gen; [exact I | intros _; exact Hu | discriminate | exact H].
  Qed.
End N7top.
Print Assumptions special_schemes_neutral_gen.
Print Assumptions special_schemes_neutral.
Print Assumptions special_SetProtocol.

(* premises for a concrete non-trivial value: adding a scheme "gopher" to the table does not change how an http URL
   is resolved against an https base *)
Definition table_plus_gopher : list (str * str) := c_special default_cfg ++ [(bs "gopher"%string, bs "70"%string)].
Example special_premise_ex :
  let x := bs "  HtTp://h/p?q "%string in
  (forall pre, scheme_prefix (runes (clean x)) = Some pre -> agree (c_special default_cfg) table_plus_gopher (lowerenc pre)) /\
  agree (c_special default_cfg) table_plus_gopher (bs "https"%string).
Proof.
  cbv zeta. split; [|vm_compute; reflexivity].
  intros pre H. vm_compute in H. injection H as <-. vm_compute. reflexivity.
Qed.

(* the premise is needed: the tables differ on the scheme of the input *)
Lemma special_schemes_neutral_refuted : exists x,
  Parse id_idna (with_special default_cfg (c_special default_cfg)) x <>
  Parse id_idna (with_special default_cfg table_plus_gopher) x.
Proof. exists (bs "gopher://h:70/p"%string). vm_compute. discriminate. Qed.

(* ... or on the scheme of the base *)
Lemma special_schemes_neutral_base_refuted : exists bu x,
  scheme_prefix (runes (clean x)) = None /\
  UrlParse id_idna (with_special default_cfg (c_special default_cfg)) bu x <>
  UrlParse id_idna (with_special default_cfg table_plus_gopher) bu x.
Proof.
  destruct (Parse id_idna default_cfg (bs "gopher://h/a/b"%string)) as [bu| | | |] eqn:E; try (vm_compute in E; discriminate E).
  exists bu, (bs "\x"%string). vm_compute in E. injection E as <-. split; vm_compute; [reflexivity|discriminate].
Qed.
