(* C02 at the level of operation histories (Model/Obs.v): over any finite sequence of setter, resolve,
   clone and SearchParams operations, starting from any parse result, no operation panics or runs out
   of fuel (the model makes both explicit outcomes), and every URL held stays well-formed (so that
   every getter works). Built on Proofs/NoPanic.v. *)
From Verif Require Import Lib.Base Lib.Utf8 Lib.GoStr Model.Cfg Gen.Tables Model.Sets Model.Percent Model.Url Model.Host Model.Machine Model.Api Model.Canon Model.Obs.
From Verif Require Import Proofs.Termination Proofs.NoPanic.
From Coq Require Import Lia.

Section Total.
  Variable idna_raw : str -> str * bool.
  Variable c : cfg.
  Notation hstate := (option url * option url)%type.

  Definition slots_wf (s : hstate) : Prop := forall slot u, get s slot = Some u -> wf u.
  Definition panic_marker : list str := [[33]].

  Lemma verr_obs_not_marker e : verr_obs e <> [33].
  Proof.
    unfold verr_obs. intros A. apply (f_equal (@length N)) in A. rewrite !app_length in A. cbn [length] in A.
    destruct (e_failure e); cbn [b2s length] in A; lia.
  Qed.

  Lemma slots_wf_put s slot u : slots_wf s -> wf u -> slots_wf (put s slot (Some u)).
  Proof.
    intros Hs Hu sl v. destruct s as [a b], slot, sl; cbn; intros E; try (inversion E; subst; exact Hu).
    - apply (Hs false). exact E.
    - apply (Hs true). exact E.
  Qed.

  Lemma wf_set_sp u l : wf u -> wf (set_sp u l).
  Proof. exact (fun H => H). Qed.
  Lemma wf_set_query u q : wf u -> wf (set_query u q).
  Proof. exact (fun H => H). Qed.
  Lemma wf_sp_update u l : wf u -> wf (sp_update c u l).
  Proof. unfold sp_update. intros H. destruct (_ || _); exact H. Qed.
  Lemma wf_ensure_sp u : wf u -> wf (fst (ensure_sp c u)).
  Proof. unfold ensure_sp. intros H. destruct (u_sp u); exact H. Qed.
  Lemma wf_Clone u : wf u -> wf (Clone u).
  Proof. exact (fun H => H). Qed.

  Lemma setter_total w u v : wf u -> exists u', setter idna_raw c w u v = Some u' /\ wf u'.
  Proof.
    intros H. destruct (setter_wf idna_raw c u v H) as (H0 & H1 & H2 & H3 & H4 & H5 & H6 & H7 & H8).
    unfold setter.
    destruct w as [|p]; [exact H0|].
    do 8 (destruct p as [p|p|]; try solve [exact H1|exact H2|exact H3|exact H4|exact H5|exact H6|exact H7|exact H8]).
  Qed.

  Lemma with_sp_wf s slot f : slots_wf s -> slots_wf (with_sp c s slot f).
  Proof.
    intros Hs. unfold with_sp. destruct (get s slot) as [u|] eqn:E; [|exact Hs].
    pose proof (wf_ensure_sp u (Hs slot u E)) as Hw. destruct (ensure_sp c u) as [u' l]. cbn [fst] in Hw.
    apply slots_wf_put; [exact Hs|]. apply wf_sp_update, Hw.
  Qed.

  (* one operation: well-formedness is kept and the panic marker is never produced *)
  Theorem hstep_total (s : hstate) (o : op) :
    slots_wf s -> slots_wf (fst (hstep idna_raw c s o)) /\ snd (hstep idna_raw c s o) <> panic_marker.
  Proof.
    intros Hs. unfold panic_marker. destruct o; cbn [Obs.hstep].
    - destruct (get s slot) as [u|] eqn:E; [|cbn [fst snd]; split; [exact Hs|discriminate]].
      destruct (setter_total which u v (Hs slot u E)) as (u' & Eu & Hu). rewrite Eu. cbn [fst snd].
      split; [apply slots_wf_put; assumption|discriminate].
    - destruct (get s slot) as [u|] eqn:E; [|cbn [fst snd]; split; [exact Hs|discriminate]].
      pose proof (UrlParse_total idna_raw c u ref) as (Hp & Hf & Hn).
      destruct (UrlParse idna_raw c u ref) as [u'| e | | |] eqn:Eu; try contradiction.
      + cbn [fst snd]. split; [|discriminate]. apply slots_wf_put; [exact Hs|]. apply (UrlParse_wf idna_raw c u ref u' (Hs slot u E) Eu).
      + cbn [fst snd]. split; [exact Hs|]. intros A. inversion A as [A1]. apply (verr_obs_not_marker e A1).
    - destruct (fst s) as [u|] eqn:E; [|cbn [fst snd]; split; [exact Hs|discriminate]].
      assert (Hu : wf u) by (apply (Hs false); destruct s; exact E).
      pose proof (UrlParse_total idna_raw c u ref) as (Hp & Hf & Hn).
      destruct (UrlParse idna_raw c u ref) as [u'| e | | |] eqn:Eu; try contradiction.
      + cbn [fst snd]. split; [|discriminate]. apply slots_wf_put; [exact Hs|]. apply (UrlParse_wf idna_raw c u ref u' Hu Eu).
      + cbn [fst snd]. split; [exact Hs|]. intros A. inversion A as [A1]. apply (verr_obs_not_marker e A1).
    - destruct (get s from) as [u|] eqn:E; [|cbn [fst snd]; split; [exact Hs|discriminate]].
      cbn [fst snd]. split; [|discriminate]. apply slots_wf_put; [exact Hs|]. apply wf_Clone, (Hs from u E).
    - cbn [fst snd]. split; [apply with_sp_wf, Hs|discriminate].
    - cbn [fst snd]. split; [apply with_sp_wf, Hs|discriminate].
    - cbn [fst snd]. split; [apply with_sp_wf, Hs|discriminate].
    - cbn [fst snd]. split; [apply with_sp_wf, Hs|discriminate].
    - cbn [fst snd]. split; [apply with_sp_wf, Hs|discriminate].
    - destruct (get s slot) as [u|] eqn:E; [|cbn [fst snd]; split; [exact Hs|discriminate]].
      pose proof (wf_ensure_sp u (Hs slot u E)) as Hw. destruct (ensure_sp c u) as [u' l]. cbn [fst snd] in *.
      split; [apply slots_wf_put; assumption|].
      intros A. inversion A.
    - destruct (get s slot) as [u|] eqn:E; [|cbn [fst snd]; split; [exact Hs|discriminate]].
      cbn [fst snd]. split; [|discriminate]. apply slots_wf_put; [exact Hs|]. apply wf_ensure_sp, (Hs slot u E).
    - destruct (get s slot) as [u|] eqn:E; [|cbn [fst snd]; split; [exact Hs|discriminate]].
      destruct (get s (negb slot)) as [v|] eqn:Ev; [|cbn [fst snd]; split; [exact Hs|discriminate]].
      pose proof (wf_ensure_sp v (Hs (negb slot) v Ev)) as Hw. destruct (ensure_sp c v) as [v' l]. cbn [fst snd] in *.
      split; [|discriminate]. apply slots_wf_put; [apply slots_wf_put; assumption|].
      apply wf_sp_update, wf_ensure_sp, (Hs slot u E).
    - cbn [fst snd]. split; [apply with_sp_wf, Hs|discriminate].
  Qed.

  Fixpoint hfold (s : hstate) (ops : list op) : hstate :=
    match ops with [] => s | o :: rest => hfold (fst (hstep idna_raw c s o)) rest end.

  (* every finite history *)
  Theorem history_total (ops : list op) (s : hstate) :
    slots_wf s ->
    slots_wf (hfold s ops) /\
    Forall (fun r : list str * list str * list str => fst (fst r) <> panic_marker) (hrun idna_raw c s ops).
  Proof.
    revert s. induction ops as [|o ops IH]; intros s Hs; cbn [hfold hrun]; [split; [exact Hs|constructor]|].
    destruct (hstep_total s o Hs) as [H1 H2].
    destruct (hstep idna_raw c s o) as [s' extra] eqn:E. cbn [fst snd] in *.
    destruct (IH s' H1) as [I1 I2]. split; [exact I1|]. constructor; [exact H2|exact I2].
  Qed.

  (* starting from any parse (with or without base) *)
  Theorem parse_then_history_total (base : option str) (input : str) (ops : list op) u :
    (match base with Some b => ParseRef idna_raw c b input | None => Parse idna_raw c input end) = PUrl u ->
    slots_wf (hfold (Some u, None) ops) /\
    Forall (fun r : list str * list str * list str => fst (fst r) <> panic_marker) (hrun idna_raw c (Some u, None) ops).
  Proof.
    intros H. apply history_total. intros slot v. destruct slot; cbn; [discriminate|]. intros E. inversion E; subst.
    destruct base as [b|]; [apply (ParseRef_wf idna_raw c b input v H)|apply (Parse_wf idna_raw c input v H)].
  Qed.
End Total.
