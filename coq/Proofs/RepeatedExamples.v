(* Repeated percent-decoding: the alphabet of the grammar (unreserved characters), the bytes on which the encode
   sets of the parser and of decodeEncode differ, and the theorems R2 / R3 applied to concrete texts. *)
From Verif Require Import Lib.Base Lib.Utf8 Lib.GoStr Model.Cfg Gen.Tables Gen.Options Model.Sets Model.Percent
  Model.Url Model.Host Model.Machine Model.Api Model.Canon Model.Preds.
From Verif Require Import Proofs.SetsProofs Proofs.PhaseLemmas Proofs.RecordInv Proofs.MachineInv
  Proofs.CanonTotal Proofs.RoundTripBase Proofs.RoundTripPhases Proofs.NormalForm
  Proofs.SpellingProofs Proofs.SpellingDecode Proofs.RepeatedSteps Proofs.RepeatedIdem Proofs.RepeatedFixed.
From Coq Require Import Lia ZifyBool ZifyN ZifyNat.

Local Arguments N.eqb : simpl never.
Local Arguments N.ltb : simpl never.
Local Arguments N.leb : simpl never.

(* ------------------------------------------------------------------------------------------ *)
(* unreserved characters are literal everywhere                                                 *)
(* ------------------------------------------------------------------------------------------ *)
Definition unres (x : N) : bool := isAlnum x || (x =? 45) || (x =? 46) || (x =? 95) || (x =? 126).

(* the check on the configuration: no unreserved character is in an encode set of the parser *)
Definition cfg_unres (p : profile) : bool :=
  forallb (fun x => implb (unres x)
                      (plit p true x && qlit p (c_squerySet (p_cfg p)) x && flit (c_sfragSet (p_cfg p)) x)) below128.

Lemma mem_small l x : forallb (fun y => y <? 128) l = true -> mem x l = true -> x < 128.
Proof.
  unfold mem. intros Hl Hx. apply existsb_exists in Hx. destruct Hx as [y [Hy E]]. rewrite forallb_forall in Hl.
  specialize (Hl y Hy). lia.
Qed.

Lemma unres_small x : unres x = true -> x < 128.
Proof.
  unfold unres. intros H. destruct (isAlnum x) eqn:Ea; [|cbn [orb] in H; lia].
  apply (mem_small bs_ASCIIAlphanumeric x); [vm_compute; reflexivity|exact Ea].
Qed.

Lemma unres_lits p x : cfg_unres p = true -> unres x = true ->
  plit p true x = true /\ qlit p (c_squerySet (p_cfg p)) x = true /\ flit (c_sfragSet (p_cfg p)) x = true.
Proof.
  intros Hc Hx. pose proof (sweep128 _ Hc x (unres_small x Hx)) as S. cbv beta in S. rewrite Hx in S. cbn [implb] in S.
  apply andb_true_iff in S. destruct S as [S S3]. apply andb_true_iff in S. destruct S as [S1 S2]. auto.
Qed.

Lemma forallb_imp {A} (f g : A -> bool) l : (forall x, f x = true -> g x = true) -> forallb f l = true -> forallb g l = true.
Proof. intros H Hl. rewrite forallb_forall in *. intros x Hx. apply H. apply Hl. exact Hx. Qed.

(* the grammar of the property: every fully decoded segment, name, value and the fully decoded fragment consist
   of unreserved characters, and no decoded segment is a dot segment *)
Definition unres_comps (p : profile) (k : comps) : bool :=
  forallb (forallb unres) (map rd (norm_segs (k_segs k)))
  && forallb (fun s => negb (dotseg s)) (map rd (norm_segs (k_segs k)))
  && match nfq p k with
     | Some (x :: q) => forallb (fun nv => forallb unres (fst nv) && forallb unres (snd nv)) (dec_pairs p (x :: q))
     | _ => true end
  && match nff p k with Some (x :: f) => forallb unres (rd (x :: f)) | _ => true end.

Lemma rcomps_ok_unres p k h :
  cfg_unres p = true ->
  RuneShouldBeEncoded (c_squerySet (p_cfg p)) 61 = false -> RuneShouldBeEncoded (c_squerySet (p_cfg p)) 38 = false ->
  (is_v6 h || host_lit true h) = true -> unres_comps p k = true -> rcomps_ok p k h = true.
Proof.
  intros Hc H61 H38 Hh Hu. unfold unres_comps in Hu.
  apply andb_true_iff in Hu. destruct Hu as [Hu U4]. apply andb_true_iff in Hu. destruct Hu as [Hu U3].
  apply andb_true_iff in Hu. destruct Hu as [U1 U2].
  unfold rcomps_ok. rewrite H61, H38, Hh, U2. cbn [negb andb].
  rewrite (forallb_imp _ (forallb (plit p true)) _ (fun s => forallb_imp _ _ s (fun x Hx => proj1 (unres_lits p x Hc Hx))) U1).
  cbn [andb]. apply andb_true_iff. split.
  - destruct (nfq p k) as [[|x q]|]; try reflexivity. revert U3. apply forallb_imp. intros nv Hnv.
    apply andb_true_iff in Hnv. destruct Hnv as [A B]. unfold qpair.
    apply andb_true_iff. split; [revert A|revert B]; apply forallb_imp; intros y Hy; apply (unres_lits p y Hc Hy).
  - destruct (nff p k) as [[|x f]|]; try reflexivity. revert U4. apply forallb_imp. intros y Hy.
    apply (proj2 (proj2 (unres_lits p y Hc Hy))).
Qed.

(* ------------------------------------------------------------------------------------------ *)
(* where the encode sets differ (default configuration)                                         *)
(* ------------------------------------------------------------------------------------------ *)
(* the bytes that decodeEncode leaves literal in a fragment (table pes_Host plus the percent sign) and that the
   fragment state then percent-encodes: 34 (double quote), 60, 62 (angle brackets), 96 (backquote).  Conversely
   decodeEncode escapes 35 and 37 (number sign, percent sign), which the fragment state leaves alone.  On all other
   printable bytes SetHash after decodeEncode is the identity. *)
Example frag_sets_differ :
  filter (fun x => litb pes_Host x && RuneShouldBeEncoded (c_sfragSet default_cfg) x) below128 = [34; 60; 62; 96] /\
  filter (fun x => negb (litb pes_Host x) && negb (RuneShouldBeEncoded (c_sfragSet default_cfg) x) && (33 <=? x) && (x <=? 126)) below128 = [35; 37].
Proof. split; vm_compute; reflexivity. Qed.

(* the same for names and values: literal after decodeEncode (pes_RepeatedQuery plus the percent sign) but rewritten
   by the query serializer or by the query state of a special scheme: 34, 39 (apostrophe), 43 (plus), 60, 62 *)
Example query_sets_differ :
  filter (fun x => litb pes_RepeatedQuery x && negb (qlit copt_WithRepeatedPercentDecoding (c_squerySet default_cfg) x)) below128
  = [34; 39; 43; 60; 62].
Proof. vm_compute. reflexivity. Qed.

(* ... and for path segments (pes_LaxPath plus the percent sign against the path set and the delimiters):
   47 (slash), 60, 62, 92 (backslash) *)
Example path_sets_differ :
  filter (fun x => litb pes_LaxPath x && negb (plit copt_WithRepeatedPercentDecoding true x)) below128 = [47; 60; 62; 92].
Proof. vm_compute. reflexivity. Qed.

(* ------------------------------------------------------------------------------------------ *)
(* the theorems applied                                                                         *)
(* ------------------------------------------------------------------------------------------ *)
(* repeated decoding alone, and repeated decoding with the removals and the sort *)
Definition prof_rep : profile := copt_WithRepeatedPercentDecoding.
Definition prof_rep_all : profile :=
  {| p_cfg := default_cfg; p_removeUserInfo := true; p_removePort := true; p_removeFragment := false;
     p_sortQuery := SortKeys; p_repeated := true; p_defaultScheme := [] |}.

(* HTTP://U:p@H:81/%2561/./b%2Dc?%257a=%2562&c=%64#%2566   and   http://U:p@h:81/a/b%252dc?z=b&c=d#f *)
Definition rk1 : comps :=
  {| k_sch := [72;84;84;80]; k_user := [85]; k_pass := [112]; k_host := [72]; k_port := Some [56;49];
     k_segs := [[37;50;53;54;49]; [46]; [98;37;50;68;99]];
     k_query := Some [37;50;53;55;97;61;37;50;53;54;50;38;99;61;37;54;52]; k_frag := Some [37;50;53;54;54] |}.
Definition rk2 : comps :=
  {| k_sch := [104;116;116;112]; k_user := [85]; k_pass := [112]; k_host := [104]; k_port := Some [56;49];
     k_segs := [[97]; [98;37;50;53;50;100;99]];
     k_query := Some [122;61;98;38;99;61;100]; k_frag := Some [102] |}.

Example repeated_premises :
  forallb (fun p => cfg_rt (p_cfg p) && cfg_okm (p_cfg p) && negb (c_skipTrailSlash (p_cfg p)) && negb (c_latin1 (p_cfg p))
                    && negb (c_skipEq (p_cfg p)) && p_repeated p && cfg_unres p
                    && comps_ok (p_cfg p) rk1 && comps_ok (p_cfg p) rk2
                    && unres_comps p rk1 && unres_comps p rk2 && rcomps_ok p rk1 [104] && rcomps_ok p rk2 [104])
    [prof_rep; prof_rep_all] = true /\
  host_val idna_toy default_cfg (k_host rk1) = Some [104] /\ host_val idna_toy default_cfg [104] = Some [104] /\
  requiv idna_toy prof_rep rk1 rk2 /\ requiv idna_toy prof_rep_all rk1 rk2.
Proof.
  split; [vm_compute; reflexivity|]. split; [vm_compute; reflexivity|]. split; [vm_compute; reflexivity|].
  split; unfold requiv; repeat split; vm_compute; reflexivity.
Qed.

Lemma rep_ok_ex p k :
  cfg_rt (p_cfg p) = true -> comps_ok (p_cfg p) k = true -> rcomps_ok p k [104] = true ->
  host_val idna_toy (p_cfg p) [104] = Some [104] -> rep_ok idna_toy p (nf (p_cfg p) k [104]).
Proof.
  intros Hrt Hk Hr Hv. pose proof (cfg_rt_sound _ Hrt) as R. apply (rep_ok_nf idna_toy p k [104] Hk Hr). intros _.
  apply (host_val_fixed idna_toy (p_cfg p) [104] [104] (R_rep _ R) (R_fail _ R) Hv).
Qed.

(* R2 applied: the two texts have the same canonical form under both profiles *)
Example repeated_spelling_ex :
  same_cres (ProfileParse idna_toy prof_rep (text_of rk1)) (ProfileParse idna_toy prof_rep (text_of rk2)) /\
  same_cres (ProfileParse idna_toy prof_rep_all (text_of rk1)) (ProfileParse idna_toy prof_rep_all (text_of rk2)).
Proof.
  destruct repeated_premises as [_ [Hv1 [Hv [E1 E2]]]].
  split.
  - apply (repeated_spelling idna_toy prof_rep (cfg_rt_sound (p_cfg prof_rep) eq_refl) eq_refl eq_refl eq_refl eq_refl rk1 rk2 [104]);
      try (vm_compute; reflexivity); try exact E1; try exact Hv1;
      apply rep_ok_ex; try (vm_compute; reflexivity); exact Hv.
  - apply (repeated_spelling idna_toy prof_rep_all (cfg_rt_sound (p_cfg prof_rep_all) eq_refl) eq_refl eq_refl eq_refl eq_refl rk1 rk2 [104]);
      try (vm_compute; reflexivity); try exact E2; try exact Hv1;
      apply rep_ok_ex; try (vm_compute; reflexivity); exact Hv.
Qed.

(* R3 applied: the canonical string of the first text is a fixed point, under both profiles *)
Example repeated_fixed_point_ex :
  forall p, p = prof_rep \/ p = prof_rep_all ->
  exists u s u', ProfileParse idna_toy p (text_of rk1) = CUrl u /\ Href u false = Some s /\
                 ProfileParse idna_toy p s = CUrl u' /\ same_components u' u /\ Href u' false = Some s.
Proof.
  intros p Hp. destruct repeated_premises as [_ [Hv1 [Hv _]]].
  assert (Hc : p_cfg p = default_cfg) by (destruct Hp as [-> | ->]; reflexivity).
  assert (E : exists u s, ProfileParse idna_toy p (text_of rk1) = CUrl u /\ Href u false = Some s).
  { destruct Hp as [-> | ->]; eexists; eexists; split; vm_compute; reflexivity. }
  destruct E as [u [s [E1 E2]]]. exists u, s.
  assert (Hrt : cfg_rt (p_cfg p) = true) by (rewrite Hc; reflexivity).
  assert (Hok : rep_ok idna_toy p (nf (p_cfg p) rk1 [104])).
  { apply rep_ok_ex; [exact Hrt|rewrite Hc; vm_compute; reflexivity|destruct Hp as [-> | ->]; vm_compute; reflexivity|rewrite Hc; exact Hv]. }
  assert (H1 : cfg_okm (p_cfg p) = true) by (rewrite Hc; reflexivity).
  assert (H2 : c_latin1 (p_cfg p) = false) by (rewrite Hc; reflexivity).
  assert (H3' : c_skipEq (p_cfg p) = false) by (rewrite Hc; reflexivity).
  assert (H4 : p_repeated p = true) by (destruct Hp as [-> | ->]; reflexivity).
  assert (H5 : comps_ok (p_cfg p) rk1 = true) by (rewrite Hc; vm_compute; reflexivity).
  assert (H6 : host_val idna_toy (p_cfg p) (k_host rk1) = Some [104]) by (rewrite Hc; exact Hv1).
  assert (H7 : forall u0, parseHost idna_toy (p_cfg p) u0 [104] false = Ok u0 [104]).
  { apply (host_val_fixed idna_toy (p_cfg p) [104] [104]); rewrite Hc; [reflexivity|reflexivity|exact Hv]. }
  destruct (repeated_fixed_point idna_toy H3_toy p H1 Hrt H2 H3' H4 rk1 [104] u s H5 H6 Hok H7 E1 E2) as [u' [A [B C]]].
  exists u'. auto.
Qed.

(* the canonical strings of the example:
   http://U:p@h:81/a/b-c?z=b&c=d#f   and, with the removals and the sort,   http://h/a/b-c?c=d&z=b#f *)
Example repeated_ex_strings :
  (exists u, ProfileParse idna_toy prof_rep (text_of rk1) = CUrl u /\
     Href u false = Some [104;116;116;112;58;47;47;85;58;112;64;104;58;56;49;47;97;47;98;45;99;63;122;61;98;38;99;61;100;35;102]) /\
  (exists u, ProfileParse idna_toy prof_rep_all (text_of rk1) = CUrl u /\
     Href u false = Some [104;116;116;112;58;47;47;104;47;97;47;98;45;99;63;99;61;100;38;122;61;98;35;102]).
Proof. split; eexists; split; vm_compute; reflexivity. Qed.


(* ------------------------------------------------------------------------------------------ *)
(* the premise [is_nil q1 = is_nil q2] of query_step_same (and the [Some None] case of qkey)     *)
(* ------------------------------------------------------------------------------------------ *)
(* http://h/?  and  http://h/?&  have the same (empty) list of pairs; the query step leaves the first record alone
   and creates the (empty) searchParams object of the second: the records differ in u_sp, hence are not equal up to
   the input text; their canonical strings are the same *)
Example query_step_nil_needed :
  exists u1 u2 r1 r2 a b,
    Parse idna_toy default_cfg [104;116;116;112;58;47;47;104;47;63] = PUrl u1 /\
    Parse idna_toy default_cfg [104;116;116;112;58;47;47;104;47;63;38] = PUrl u2 /\
    u_sp u1 = None /\ u_sp u2 = None /\ u_query u1 = Some [] /\ u_query u2 = Some [38] /\
    eqi (set_query u1 None) (set_query u2 None) /\
    map rd2 (sp_init default_cfg []) = map rd2 (sp_init default_cfg [38]) /\
    query_step idna_toy prof_rep u1 = Some r1 /\ query_step idna_toy prof_rep u2 = Some r2 /\
    u_sp r1 = None /\ u_sp r2 = Some [] /\ ~ eqi r1 r2 /\
    ProfileParse idna_toy prof_rep [104;116;116;112;58;47;47;104;47;63] = CUrl a /\
    ProfileParse idna_toy prof_rep [104;116;116;112;58;47;47;104;47;63;38] = CUrl b /\
    Href a false = Href b false.
Proof.
  eexists. eexists. eexists. eexists. eexists. eexists.
  split; [vm_compute; reflexivity|]. split; [vm_compute; reflexivity|].
  split; [reflexivity|]. split; [reflexivity|]. split; [reflexivity|]. split; [reflexivity|].
  split; [reflexivity|]. split; [vm_compute; reflexivity|].
  split; [vm_compute; reflexivity|]. split; [vm_compute; reflexivity|].
  split; [reflexivity|]. split; [reflexivity|]. split; [unfold eqi; vm_compute; discriminate|].
  split; [vm_compute; reflexivity|]. split; [vm_compute; reflexivity|]. vm_compute. reflexivity.
Qed.
Print Assumptions query_step_nil_needed.

Print Assumptions rcomps_ok_unres.
Print Assumptions repeated_spelling_ex.
Print Assumptions repeated_fixed_point_ex.
