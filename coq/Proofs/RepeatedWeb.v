(* Repeated percent-decoding for configurations outside CfgRT (task G2, first part): the evaluation of the repeated
   block of RepeatedIdem.v under [CfgWeb], for records with a special scheme.  The options that CfgRT fixes are
   inert on such records when the decoded path has no empty segment but the last (c_collapse) and, with
   c_skipEq, no decoded pair is ("", ""); c_singlePct, c_latin1, c_acceptInvalid never matter because the decoded
   components are literal ASCII without '%'.  The definitions (plit, qlit, flit, rep_ok, CF, ...) are those of
   RepeatedIdem.v. *)
From Verif Require Import Lib.Base Lib.Utf8 Lib.GoStr Model.Cfg Gen.Tables Gen.Options Model.Sets Model.Percent
  Model.Url Model.Host Model.Machine Model.Api Model.Canon Model.Preds.
From Verif Require Import Proofs.SetsProofs Proofs.Cleaning Proofs.PhaseLemmas Proofs.RecordInv Proofs.MachineInv Proofs.SchemeKept
  Proofs.CodecProofs Proofs.SearchParamsProofs Proofs.CanonTotal Proofs.HostProofs Proofs.IPv4Proofs
  Proofs.RoundTripBase Proofs.RoundTripPhases Proofs.RoundTripSpecial Proofs.NormalFormPhases Proofs.NormalForm
  Proofs.SpellingProofs Proofs.SpellingDecode Proofs.RepeatedSteps Proofs.RepeatedIdem Proofs.WebCfg Proofs.WebSteps.
From Verif Require Proofs.Utf8Proofs.
From Coq Require Import Lia ZifyBool ZifyN ZifyNat.

Local Arguments N.mul : simpl never.
Local Arguments N.add : simpl never.
Local Arguments N.sub : simpl never.
Local Arguments N.eqb : simpl never.
Local Arguments N.ltb : simpl never.
Local Arguments N.leb : simpl never.

Section RepEvalW.
  Variable idna_raw : str -> str * bool.
  Variable p : profile.
  Notation c := (p_cfg p).
  Hypothesis W : CfgWeb c.

  Let Hrep := W_rep c W.
  Let Hfail := W_fail c W.

  Notation host_step := (RepeatedIdem.host_step idna_raw p).
  Notation host_ok := (RepeatedIdem.host_ok idna_raw p).
  Notation plit := (RepeatedIdem.plit p).
  Notation path_ok := (RepeatedIdem.path_ok p).
  Notation qlit := (RepeatedIdem.qlit p).
  Notation qpair := (RepeatedIdem.qpair p).
  Notation dec_pairs := (RepeatedIdem.dec_pairs p).
  Notation query_ok := (RepeatedIdem.query_ok p).
  Notation cf_query := (RepeatedIdem.cf_query p).
  Notation frag_ok := (RepeatedIdem.frag_ok p).
  Notation CF := (RepeatedIdem.CF p).
  Notation rep_ok := (RepeatedIdem.rep_ok idna_raw p).

  Definition pair_ne (nv : str * str) : bool := negb (is_nil (fst nv) && is_nil (snd nv)).

  (* ---------------- host ---------------- *)



  Lemma host_step_eqi_w a b : eqi a b -> orel (host_step a) (host_step b).
  Proof using All.
    intros Hab. rewrite (eqi_ex a b Hab). unfold RepeatedIdem.host_step.
    change (Hostname (set_input b (u_input a))) with (Hostname b). change (IsIPv6 (set_input b (u_input a))) with (IsIPv6 b).
    destruct (negb (is_nil (Hostname b)) && negb (IsIPv6 b)); [|apply eqi_input].
    destruct (decodeEncode (Hostname b) pes_HostDecode); [|exact I]. cbn [bind]. apply SetHostname_i.
  Qed.

  Lemma host_step_eval_w w :
    u_opaque w = false -> str_eqb (u_scheme w) s_file = false -> host_ok w ->
    exists r, host_step w = Some r /\ eqi r w.
  Proof using All.
    intros Ho Hnf Hh. unfold RepeatedIdem.host_step, Hostname, IsIPv6. unfold RepeatedIdem.host_ok in Hh.
    destruct (u_host w) as [h|] eqn:Eh; [|exists w; split; [reflexivity|apply eqi_refl]].
    destruct h as [|x t]; [exists w; split; [reflexivity|apply eqi_refl]|].
    destruct Hh as [Hh|[Hh|[Hl Hfix]]]; [discriminate Hh| |].
    - unfold is_v6 in Hh. cbn [is_nil negb andb]. rewrite Hh. exists w. split; [reflexivity|apply eqi_refl].
    - cbn [is_nil negb andb].
      match goal with |- context [if negb ?b then _ else _] => destruct b end; cbn [negb]; [exists w; split; [reflexivity|apply eqi_refl]|].
      unfold host_lit in Hl. apply andb_true_iff in Hl. destruct Hl as [Hl H3]. apply andb_true_iff in Hl. destruct Hl as [H1 H2].
      rewrite decodeEncode_de, (de_lit _ _ H1). cbn [bind].
      rewrite (SetHostname_eval idna_raw c Hrep Hfail w (x :: t) (x :: t) Ho Hnf ltac:(discriminate) H2 H3 (Hfix _)).
      eexists. split; [reflexivity|]. unfold eqi. destruct w. cbn in *. subst. reflexivity.
  Qed.

  (* ---------------- path ---------------- *)


  Lemma pathname_lit_w sp D : forallb (forallb (plit sp)) D = true -> forallb (litb pes_LaxPath) (pathname_of D) = true.
  Proof using All.
    induction D as [|s D IH]; intros H; [reflexivity|]. cbn [forallb] in H. apply andb_true_iff in H. destruct H as [Hs HD].
    change (pathname_of (s :: D)) with (47 :: s ++ pathname_of D). cbn [forallb]. rewrite forallb_app, (IH HD), andb_true_r.
    replace (litb pes_LaxPath 47) with true by (vm_compute; reflexivity). cbn [andb].
    rewrite forallb_forall in *. intros x Hx. specialize (Hs x Hx). unfold RepeatedIdem.plit in Hs. apply andb_true_iff in Hs. apply Hs.
  Qed.

  Lemma plit_text_w sp D : forallb (forallb (plit sp)) D = true -> segs_text_ok c sp D = true.
  Proof using All.
    unfold segs_text_ok. intros H. rewrite forallb_forall in *. intros s Hs. specialize (H s Hs). rewrite forallb_forall in *.
    intros x Hx. specialize (H x Hx). unfold RepeatedIdem.plit in H. apply andb_true_iff in H. apply H.
  Qed.

  Lemma path_step_eqi_w a b : eqi a b -> orel (path_step idna_raw c a) (path_step idna_raw c b).
  Proof using All.
    intros Hab. rewrite (eqi_ex a b Hab). unfold path_step. change (Pathname (set_input b (u_input a))) with (Pathname b).
    destruct (Pathname b) as [pn|]; [|exact I]. cbn [bind]. destruct (negb (is_nil pn)); [|apply eqi_input].
    destruct (decodeEncode pn pes_LaxPath); [|exact I]. cbn [bind]. apply SetPathname_i.
  Qed.

  Lemma path_step_eval_w w :
    u_opaque w = false -> str_eqb (u_scheme w) s_file = false -> path_ok w ->
    (c_collapse c = false \/ forallb nonempty (removelast (map rd (u_path w))) = true) ->
    exists r, path_step idna_raw c w = Some r /\ eqi r (set_path w (map rd (u_path w)) false).
  Proof using All.
    intros Ho Hnf [H1 H2] Hcq. unfold path_step, Pathname, path_string. rewrite Ho. cbn [bind].
    destruct (u_path w) as [|s0 P] eqn:EP.
    - cbn [flat_map is_nil negb map]. exists w. split; [reflexivity|]. unfold eqi. destruct w. cbn in *. subst. reflexivity.
    - fold (pathname_of (s0 :: P)). change (pathname_of (s0 :: P)) with (47 :: s0 ++ pathname_of P) at 1. cbn [is_nil negb].
      rewrite decodeEncode_de, de_rd, rd_pathname, (cpe_id _ _ (pathname_lit_w _ _ H1)). cbn [bind map].
      cbn [map] in H1, H2, Hcq.
      assert (Hpq : pq c (pathname_of (rd s0 :: map rd P))).
      { right. apply no37_pct_wf. apply (lit_no37 pes_LaxPath). apply (pathname_lit_w _ _ H1). }
      rewrite (SetPathname_eval_w idna_raw c Hrep Hfail w (rd s0) (map rd P) Hpq Hcq (W_path c W) Ho Hnf (plit_text_w _ _ H1)).
      rewrite (norm_segs_nodot (rd s0 :: map rd P) ltac:(discriminate) H2).
      eexists. split; [reflexivity|]. reflexivity.
  Qed.

  (* ---------------- query ---------------- *)



  Lemma qlit_parts_w t x : qlit t x = true ->
    litb pes_RepeatedQuery x = true /\ RuneShouldBeEncoded (c_querySet c) x = false /\ RuneShouldBeEncoded t x = false /\
    (x =? 32) = false /\ (x =? 43) = false /\ (x =? 38) = false /\ (x =? 61) = false /\ x <> 37.
  Proof using All.
    unfold RepeatedIdem.qlit. intros H. apply andb_true_iff in H. destruct H as [H H5]. apply andb_true_iff in H. destruct H as [H H4].
    apply andb_true_iff in H. destruct H as [H H3]. apply andb_true_iff in H. destruct H as [H1 H2].
    apply negb_true_iff in H2, H3, H4, H5. repeat split; try assumption.
    - destruct (x =? 38) eqn:E; [|reflexivity]. assert (x = 38) by lia. subst x. vm_compute in H1. discriminate H1.
    - destruct (x =? 61) eqn:E; [|reflexivity]. assert (x = 61) by lia. subst x. vm_compute in H1. discriminate H1.
    - apply (litb_not37 _ _ H1).
  Qed.

  Lemma QueryEscape_lit_w t s : forallb (qlit t) s = true -> QueryEscape c s = s.
  Proof using All.
    intros H. unfold QueryEscape.
    assert (Ha : Forall (fun b => b < 128) s).
    { rewrite Forall_forall. rewrite forallb_forall in H. intros x Hx. destruct (qlit_parts_w t x (H x Hx)) as [Hl _]. apply (litb_small _ _ Hl). }
    rewrite (Utf8Proofs.runes_ascii s Ha). induction s as [|x s IH]; [reflexivity|].
    cbn [forallb] in H. apply andb_true_iff in H. destruct H as [Hx Hs]. inversion Ha; subst. cbn [flat_map].
    rewrite (IH Hs) by assumption. destruct (qlit_parts_w t x Hx) as [_ [Hq [_ [E32 [E43 [E38 [E61 _]]]]]]].
    rewrite E32, E38, E61, E43. cbn [orb]. rewrite (pe_id c _ x Hq). reflexivity.
  Qed.

  Lemma ser_pair_lit_w t nv : qpair t nv = true ->
    ser_pair c nv = fst nv ++ (if negb (c_skipEq c) || negb (is_nil (snd nv)) then [61] else []) ++ snd nv.
  Proof using All.
    destruct nv as [n v]. unfold RepeatedIdem.qpair. cbn [fst snd]. intros H. apply andb_true_iff in H. destruct H as [Hn Hv].
    unfold ser_pair. rewrite (QueryEscape_lit_w t n Hn).
    destruct v as [|y v]; cbn [is_nil negb app]; [reflexivity|]. rewrite (QueryEscape_lit_w t _ Hv). reflexivity.
  Qed.

  Lemma qlit_none_w t s : forallb (qlit t) s = true -> none_in t s = true.
  Proof using All.
    unfold none_in. intros H. rewrite forallb_forall in *. intros x Hx. destruct (qlit_parts_w t x (H x Hx)) as [_ [_ [H3 _]]].
    rewrite H3. reflexivity.
  Qed.

  Lemma sp_string_lit_w t L :
    RuneShouldBeEncoded t 61 = false -> RuneShouldBeEncoded t 38 = false ->
    forallb (qpair t) L = true -> none_in t (sp_string c L) = true.
  Proof using All.
    intros H61 H38. rewrite sp_string_is. induction L as [|nv L IH]; intros H; [reflexivity|].
    cbn [forallb] in H. apply andb_true_iff in H. destruct H as [Hp HL]. specialize (IH HL).
    assert (Hs : none_in t (ser_pair c nv) = true).
    { rewrite (ser_pair_lit_w t nv Hp). unfold RepeatedIdem.qpair in Hp. apply andb_true_iff in Hp. destruct Hp as [Hn Hv].
      unfold none_in. rewrite !forallb_app. fold (none_in t (fst nv)). fold (none_in t (snd nv)).
      rewrite (qlit_none_w _ _ Hn), (qlit_none_w _ _ Hv).
      destruct (negb (c_skipEq c) || negb (is_nil (snd nv))); cbn [forallb]; rewrite ?H61; reflexivity. }
    destruct L as [|nv' L]; [exact Hs|].
    change (join [38] (map (ser_pair c) (nv :: nv' :: L))) with (ser_pair c nv ++ 38 :: join [38] (map (ser_pair c) (nv' :: L))).
    unfold none_in in *. rewrite forallb_app. cbn [forallb]. rewrite Hs, H38, IH. reflexivity.
  Qed.



  Lemma qstr_rd_w t s : forallb (qlit t) s = true -> rd s = s /\ de s pes_RepeatedQuery = s.
  Proof using All.
    intros H. assert (Hl : forallb (litb pes_RepeatedQuery) s = true).
    { rewrite forallb_forall in *. intros x Hx. apply (qlit_parts_w t x (H x Hx)). }
    split; [apply rd_id; apply c_decode_no37; apply (lit_no37 _ _ Hl)|apply (de_lit _ _ Hl)].
  Qed.

  (* the list of decoded pairs is what reencode_params computes, and it is a fixed point of it *)
  Lemma reenc_dec_w t l0 : forallb (qpair t) (map rd2 l0) = true -> reenc_list l0 = map rd2 l0.
  Proof using All.
    induction l0 as [|nv l0 IH]; intros H; [reflexivity|]. cbn [map forallb] in H. apply andb_true_iff in H. destruct H as [Hp Hl].
    unfold reenc_list in *. cbn [map]. rewrite (IH Hl). f_equal. unfold RepeatedIdem.qpair, rd2 in Hp. cbn [fst snd] in Hp.
    apply andb_true_iff in Hp. destruct Hp as [Hn Hv]. unfold rd2.
    assert (G : forall s, forallb (qlit t) (rd s) = true -> de s pes_RepeatedQuery = rd s).
    { intros s Hs. apply de_of_lit. rewrite forallb_forall in *. intros x Hx. apply (qlit_parts_w t x (Hs x Hx)). }
    rewrite (G _ Hn), (G _ Hv). reflexivity.
  Qed.

  Lemma reenc_lit_w t L : forallb (qpair t) L = true -> reenc_list L = L.
  Proof using All.
    induction L as [|nv L IH]; intros H; [reflexivity|]. cbn [forallb] in H. apply andb_true_iff in H. destruct H as [Hp Hl].
    unfold reenc_list in *. cbn [map]. rewrite (IH Hl). f_equal. unfold RepeatedIdem.qpair in Hp. apply andb_true_iff in Hp. destruct Hp as [Hn Hv].
    destruct (qstr_rd_w t _ Hn) as [_ ->]. destruct (qstr_rd_w t _ Hv) as [_ ->]. destruct nv; reflexivity.
  Qed.

  Lemma rd2_lit_w t L : forallb (qpair t) L = true -> map rd2 L = L.
  Proof using All.
    induction L as [|nv L IH]; intros H; [reflexivity|]. cbn [forallb] in H. apply andb_true_iff in H. destruct H as [Hp Hl].
    cbn [map]. rewrite (IH Hl). f_equal. unfold RepeatedIdem.qpair in Hp. apply andb_true_iff in Hp. destruct Hp as [Hn Hv].
    unfold rd2. destruct (qstr_rd_w t _ Hn) as [-> _]. destruct (qstr_rd_w t _ Hv) as [-> _]. destruct nv; reflexivity.
  Qed.

  Lemma qlit_litq_w t s : forallb (qlit t) s = true -> forallb litq s = true.
  Proof using All.
    intros H. rewrite forallb_forall in *. intros x Hx. destruct (qlit_parts_w t x (H x Hx)) as [Hl [_ [_ [_ [E43 [E38 [E61 E37]]]]]]].
    pose proof (litb_small _ _ Hl) as Hs. unfold litq. rewrite E43, E38, E61.
    assert (E : (x =? 37) = false) by (destruct (x =? 37) eqn:E; [exfalso; apply E37; lia|reflexivity]). rewrite E.
    replace (x <? 128) with true by lia. reflexivity.
  Qed.

  Lemma qpairs_lpair_w t L :
    forallb (qpair t) L = true -> (c_skipEq c = false \/ forallb pair_ne L = true) -> Forall (lpair c) L.
  Proof using All.
    intros H Hne. rewrite Forall_forall. intros nv Hin. rewrite forallb_forall in H. specialize (H nv Hin).
    unfold RepeatedIdem.qpair in H. apply andb_true_iff in H. destruct H as [Hn Hv].
    unfold lpair. split; [apply (qlit_litq_w t _ Hn)|]. split; [apply (qlit_litq_w t _ Hv)|].
    split; [apply (QueryEscape_lit_w t _ Hn)|]. split; [apply (QueryEscape_lit_w t _ Hv)|].
    destruct Hne as [Hne|Hne]; [left; exact Hne|right]. rewrite forallb_forall in Hne. specialize (Hne nv Hin).
    unfold pair_ne in Hne. intros E1 E2. rewrite E1, E2 in Hne. discriminate Hne.
  Qed.

  Lemma query_step_eqi_w a b : eqi a b -> orel (query_step idna_raw p a) (query_step idna_raw p b).
  Proof using All.
    intros Hab. rewrite (eqi_ex a b Hab). unfold query_step. change (Search (set_input b (u_input a))) with (Search b).
    destruct (negb (is_nil (Search b))); [|apply eqi_input]. apply orel_bind; [apply reencode_i|]. apply query_tail_step_eqi.
  Qed.

  Lemma query_step_eval_w w :
    u_sp w = None -> RuneShouldBeEncoded (queryset c w) 61 = false -> RuneShouldBeEncoded (queryset c w) 38 = false ->
    (33 <=? ab (queryset c w)) = true ->
    query_ok w ->
    (c_skipEq c = false \/ match u_query w with Some (x :: q) => forallb pair_ne (dec_pairs (x :: q)) = true | _ => True end) ->
    exists r, query_step idna_raw p w = Some r /\ eqi r (cf_query w).
  Proof using All.
    intros Hsp H61 H38 Hab Hq Hne. unfold query_step, Search, RepeatedIdem.cf_query. unfold RepeatedIdem.query_ok in Hq.
    destruct (u_query w) as [[|x q]|] eqn:EQ; try (exists w; split; [reflexivity|apply eqi_refl]).
    cbn [is_nil negb]. rewrite reencode_params_eq. cbn [bind].
    rewrite (ensure_sp_fresh c w Hsp). cbn [fst snd]. unfold Query. rewrite EQ.
    set (t := queryset c w) in *. set (L := dec_pairs (x :: q)) in *.
    rewrite (reenc_dec_w t _ Hq). fold (dec_pairs (x :: q)). fold L.
    set (qs := sp_string c L).
    assert (E1 : sp_update c (set_sp w (Some (sp_init c (x :: q)))) L = set_query (set_sp w (Some L)) (Some qs)).
    { unfold sp_update. cbv zeta. cbn [u_query set_sp]. rewrite EQ. cbn [is_some]. fold qs.
      destruct (is_nil qs); cbn [andb orb negb]; reflexivity. }
    rewrite E1. pose proof (sp_string_lit_w t L H61 H38 Hq) as Hnone. fold qs in Hnone.
    unfold query_tail_step, Search. cbn [u_query set_query]. destruct qs as [|y qs'] eqn:Eqs.
    - cbn [is_nil negb]. eexists. split; [reflexivity|]. reflexivity.
    - cbn [is_nil negb].
      assert (Hpr : forallb printable (y :: qs') = true).
      { apply forallb_vis_printable. apply (none_in_vis t); [exact Hab|exact Hnone]. }
      match goal with |- context [SetSearch ?i ?cc ?u ?s] =>
        rewrite (SetSearch_eval i cc Hrep Hfail u (y :: qs') (y :: qs') eq_refl Hpr : SetSearch i cc u s = _) end. cbn [bind].
      change (queryset c (set_query (set_sp w (Some L)) (Some (y :: qs')))) with t.
      rewrite (enc_with_id c t _ Hnone).
      assert (Ert : sp_init c (y :: qs') = L).
      { rewrite <- Eqs. unfold qs. apply sp_roundtrip_lit. apply (qpairs_lpair_w t L Hq).
        destruct Hne as [Hne|Hne]; [left; exact Hne|right; exact Hne]. }
      rewrite Ert.
      rewrite reencode_params_eq. unfold ensure_sp. cbn [u_sp set_sp fst snd]. rewrite (reenc_lit_w t L Hq).
      eexists. split; [reflexivity|].
      unfold sp_update. cbv zeta. cbn [u_query set_sp set_query set_input is_some]. fold qs. rewrite Eqs. cbn [is_nil andb orb negb].
      reflexivity.
  Qed.

  (* ---------------- fragment ---------------- *)



  Lemma frag_step_eqi_w a b : eqi a b -> orel (frag_step idna_raw p a) (frag_step idna_raw p b).
  Proof using All.
    intros Hab. rewrite (eqi_ex a b Hab). unfold frag_step. change (Hash (set_input b (u_input a))) with (Hash b).
    destruct (negb (is_nil (Hash b))); [|apply SetHash_i].
    destruct (decodeEncode (trim_prefix1 35 (Hash b)) pes_Host); [|exact I]. cbn [bind]. apply SetHash_i.
  Qed.

  Lemma frag_step_eval_w w :
    u_opaque w = false -> (33 <=? ab (fragset c w)) = true -> frag_ok w -> exists r, frag_step idna_raw p w = Some r /\ eqi r (cf_frag w).
  Proof using All.
    intros Ho Hab Hf. unfold frag_step, Hash, cf_frag. unfold RepeatedIdem.frag_ok in Hf.
    assert (E0 : SetHash idna_raw c w [] = Some (set_fragment w None)).
    { unfold SetHash. cbv zeta. destruct (negb (is_some (u_query (set_fragment w None)))); [|reflexivity].
      unfold strip_opaque. cbn [u_opaque set_fragment]. rewrite Ho. reflexivity. }
    destruct (u_fragment w) as [[|x f]|] eqn:EF; cbn [is_nil negb]; try (rewrite E0; eexists; split; [reflexivity|apply eqi_refl]).
    cbn [trim_prefix1]. replace (35 =? 35) with true by reflexivity. rewrite decodeEncode_de.
    set (t := fragset c w) in *.
    assert (Hl : forallb (litb pes_Host) (rd (x :: f)) = true).
    { rewrite forallb_forall in *. intros y Hy. specialize (Hf y Hy). unfold flit in Hf. apply andb_true_iff in Hf. apply Hf. }
    rewrite (de_of_lit _ _ Hl). cbn [bind].
    destruct (rd (x :: f)) as [|y g] eqn:Eg; [apply rd_nil_inv in Eg; discriminate Eg|].
    assert (Hy : (y =? 35) = false).
    { cbn [forallb] in Hl. apply andb_true_iff in Hl. destruct Hl as [Hl _]. destruct (y =? 35) eqn:E; [|reflexivity].
      assert (y = 35) by lia. subst y. vm_compute in Hl. discriminate Hl. }
    assert (Hnone : none_in t (y :: g) = true).
    { unfold none_in. rewrite forallb_forall in *. intros z Hz. specialize (Hf z Hz). unfold flit in Hf. apply andb_true_iff in Hf. apply Hf. }
    assert (Hpr : forallb printable (y :: g) = true).
    { apply forallb_vis_printable. apply (none_in_vis t); [exact Hab|exact Hnone]. }
    rewrite (SetHash_eval idna_raw c Hrep Hfail w y g Hy Hpr). fold t. rewrite (enc_with_id c t _ Hnone).
    eexists. split; [reflexivity|]. reflexivity.
  Qed.

  (* ---------------- the block ---------------- *)


  Lemma rep_block_steps_w w :
    p_repeated p = true ->
    rep_block idna_raw p w =
    bind (host_step w) (fun u => bind (path_step idna_raw c u) (fun u => bind (query_step idna_raw p u) (frag_step idna_raw p))).
  Proof using All.
    intros Hr. unfold rep_block. rewrite Hr. unfold RepeatedIdem.host_step, path_step, query_step, query_tail_step, frag_step.
    destruct (if negb (is_nil (Hostname w)) && negb (IsIPv6 w) then _ else _) as [u1|]; [|reflexivity]. cbn [bind].
    destruct (Pathname u1) as [pn|]; reflexivity.
  Qed.

  Record rep_ok_w (w : url) : Prop := {
    V_ok : rep_ok w;
    V_special : IsSpecialScheme c w = true;
    V_col : c_collapse c = false \/ forallb nonempty (removelast (map rd (u_path w))) = true;
    V_eq : c_skipEq c = false \/
           match u_query w with Some (x :: q) => forallb pair_ne (dec_pairs (x :: q)) = true | _ => True end
  }.

  Theorem rep_block_eval_w w :
    p_repeated p = true -> rep_ok_w w -> exists r, rep_block idna_raw p w = Some r /\ eqi r (CF w).
  Proof using All.
    intros Hr [K Hs Hcol Heq]. rewrite (rep_block_steps_w w Hr). destruct K as [Ho Hnf Hsp H61 H38 Hh Hp Hq Hf].
    assert (Eqs : queryset c w = c_squerySet c) by (unfold queryset; unfold IsSpecialScheme in Hs; rewrite Hs; reflexivity).
    assert (Efs : fragset c w = c_sfragSet c) by (unfold fragset; unfold IsSpecialScheme in Hs; rewrite Hs; reflexivity).
    assert (Habq : (33 <=? ab (queryset c w)) = true) by (rewrite Eqs; apply (W_squery c W)).
    assert (Habf : (33 <=? ab (fragset c w)) = true) by (rewrite Efs; apply (W_sfrag c W)).
    set (w2 := set_path w (map rd (u_path w)) false).
    apply (eval_chain host_step _ w w (CF w) (host_step_eval_w w Ho Hnf Hh)).
    { intros x y Hxy. apply orel_bind; [apply path_step_eqi_w; exact Hxy|]. intros x' y' Hxy'.
      apply orel_bind; [apply query_step_eqi_w; exact Hxy'|]. apply frag_step_eqi_w. }
    apply (eval_chain (path_step idna_raw c) _ w w2 (CF w) (path_step_eval_w w Ho Hnf Hp Hcol)).
    { intros x y Hxy. apply orel_bind; [apply query_step_eqi_w; exact Hxy|]. apply frag_step_eqi_w. }
    apply (eval_chain (query_step idna_raw p) _ w2 (cf_query w2) (CF w) (query_step_eval_w w2 Hsp H61 H38 Habq Hq Heq)).
    { apply frag_step_eqi_w. }
    apply frag_step_eval_w.
    - unfold RepeatedIdem.cf_query, w2. cbn [u_query set_path]. destruct (u_query w) as [[|x q]|]; reflexivity.
    - unfold RepeatedIdem.cf_query, w2. cbn [u_query set_path]. destruct (u_query w) as [[|x q]|]; exact Habf.
    - unfold RepeatedIdem.frag_ok, RepeatedIdem.cf_query, w2. cbn [u_query set_path]. unfold RepeatedIdem.frag_ok in Hf.
      destruct (u_query w) as [[|x q]|]; exact Hf.
  Qed.
End RepEvalW.

Print Assumptions rep_block_eval_w.
