(* Round trip, part 10 (F2): the URL states reached through setter calls.
   Every setter preserves [stable_b] and the provenance of the host, with one family of exceptions: the protocol
   setter switching to "file" while the first path segment is a drive letter written with '|' or the host is
   "localhost" (the standard's own algorithms do not round-trip there).  Hence every state of a setter history that
   starts from a parse result round-trips, unless such a step occurred (and up to the oracle residue of the host). *)
From Verif Require Import Lib.Base Lib.Utf8 Lib.GoStr Model.Cfg Gen.Tables Gen.Options Model.Sets Model.Percent
  Model.Url Model.Host Model.Machine Model.Api Model.Obs Model.Preds.
From Verif Require Import Proofs.SetsProofs Proofs.Cleaning Proofs.PhaseLemmas Proofs.RecordInv Proofs.SchemeKept
  Proofs.MachineInv Proofs.HostProofs
  Proofs.RoundTripBase Proofs.RoundTripPhases Proofs.RoundTrip Proofs.RoundTripStable Proofs.RoundTripParse
  Proofs.RoundTripHosts.
From Verif Require Proofs.Utf8Proofs.
From Coq Require Import Lia ZifyBool ZifyN ZifyNat.

Local Arguments N.mul : simpl never.
Local Arguments N.add : simpl never.
Local Arguments N.sub : simpl never.
Local Arguments N.eqb : simpl never.
Local Arguments N.ltb : simpl never.
Local Arguments N.leb : simpl never.

(* the lemmas of RoundTripStable.v that do not depend on the input, instantiated with the empty input *)
Lemma hlast_nil : forall q, (q + 1 = n_inp [])%Z -> cp_at [] q <> 32.
Proof. intros q H. unfold n_inp, len in H. cbn in H. unfold cp_at. replace (q <? 0)%Z with true by lia. discriminate. Qed.

Definition dummy_idna (s : str) : str * bool := (s, false).

Lemma B_commit' c (R : CfgRT c) u buf sl :
  Bb c u = true -> (IsSpecialScheme c u = true -> mem 92 buf = false) -> Bb c (path_commit c u buf sl) = true.
Proof. apply (B_commit dummy_idna c R [] hlast_nil). Qed.

Lemma enc_no92' c (R : CfgRT c) r t : (r =? 92) = false ->
  mem 92 (percentEncodeRune c r (Some t)) = false /\ mem 92 (percentEncodeInvalidRune c r t) = false.
Proof. apply (enc_no92 dummy_idna c R [] hlast_nil). Qed.

Lemma utf8_no92' r : (r =? 92) = false -> mem 92 (utf8_enc r) = false.
Proof.
  intros H. destruct (r <? 128) eqn:E.
  - rewrite (Utf8Proofs.utf8_enc_ascii r) by lia. unfold mem. cbn [existsb]. rewrite N.eqb_sym, H. reflexivity.
  - pose proof (Utf8Proofs.utf8_enc_high r ltac:(lia)) as F. unfold mem.
    induction F as [|x l Hx _ IH]; [reflexivity|]. cbn [existsb]. rewrite IH. replace (92 =? x) with false by lia. reflexivity.
Qed.

(* ------------------------------------------------------------------------------------------ *)
(* stability under the assignments the setters make                                             *)
(* ------------------------------------------------------------------------------------------ *)
Lemma stable_set_host c u h :
  stable_b c u = true -> u_opaque u = false ->
  (str_eqb (u_scheme u) s_file = true -> str_eqb h s_localhost = false) ->
  stable_b c (set_host u (Some h)) = true.
Proof.
  unfold stable_b. intros H Ho Hl. rewrite Ho in H. cbn [u_opaque set_host]. rewrite Ho.
  apply andb_true_iff in H. destruct H as [H1 H2]. change (dport_ok (set_host u (Some h))) with (dport_ok u). rewrite H1.
  cbn [andb]. unfold list_stable in *. cbn [u_path u_scheme u_host set_host opt_eqb].
  change (IsSpecialScheme c (set_host u (Some h))) with (IsSpecialScheme c u).
  change (drive_ok c (set_host u (Some h))) with (drive_ok c u).
  apply andb_true_iff in H2. destruct H2 as [H2 H3]. rewrite H2. cbn [andb].
  destruct (str_eqb (u_scheme u) s_file) eqn:Ef; [|reflexivity]. cbn [negb orb] in *.
  apply andb_true_iff in H3. destruct H3 as [H3 _]. rewrite H3, (Hl eq_refl). reflexivity.
Qed.

Lemma stable_clean_port c u x v : stable_b c u = true -> stable_b c (cleanDefaultPort c (set_port u (Some x) v)) = true.
Proof.
  intros H. unfold cleanDefaultPort. cbn [u_scheme set_port u_port].
  assert (G : forall po d, (po = None -> d = 0) -> stable_b c (set_port u po d) = true).
  { intros po d Hd. unfold stable_b in *. apply andb_true_iff in H. destruct H as [_ H2].
    apply andb_true_iff. split; [|exact H2]. unfold dport_ok. cbn [u_port u_decodedPort set_port].
    destruct po; [reflexivity|]. rewrite (Hd eq_refl). reflexivity. }
  destruct (getSpecialScheme c (u_scheme u)); [destruct (str_eqb s x)|]; apply G; try discriminate; reflexivity.
Qed.

Lemma stable_only_verrs c u v : stable_b c (set_verrs u v) = stable_b c u.
Proof. reflexivity. Qed.

(* ------------------------------------------------------------------------------------------ *)
(* the state machine under a state override                                                     *)
(* ------------------------------------------------------------------------------------------ *)
Section OverrideInv.
  Variable idna_raw : str -> str * bool.
  Variable c : cfg.
  Hypothesis R : CfgRT c.
  Variable inp : list rune.
  Variable ov : state.

  Let Hrep := R_rep c R.
  Let Hfail := R_fail c R.

  Notation stepO := (step idna_raw c inp None (Some ov)).
  Notation runO := (run idna_raw c inp None (Some ov)).
  Notation HPu := (HP idna_raw c).

  Definition SOu (u : url) : Prop := stable_b c u = true /\ HPu u.

  Definition SO (m : mstate) : Prop :=
    let u := m_url m in
    match m_state m with
    | HostSt | HostnameSt => SOu u /\ u_opaque u = false
    | FileHost => SOu u /\ u_opaque u = false /\ str_eqb (u_scheme u) s_file = true
    | PortSt => SOu u
    | PathStart => (Bb c u = true /\ HPu u) /\ mem 92 (m_buf m) = false
    | PathSt => (Bb c u = true /\ HPu u) /\ (IsSpecialScheme c u = true -> mem 92 (m_buf m) = false)
    | QuerySt => (BC c u /\ HPu u) /\ is_some (u_query u) = true
    | FragmentSt => (BC c u /\ HPu u) /\ is_some (u_fragment u) = true
    | _ => False
    end.

  Definition PostO (o : outcome) : Prop :=
    match o with
    | Cont m' => SO m'
    | RetUrl u | RetErr u _ | RetNilNil u => SOu u
    | Panic => True
    end.

  Lemma SO_final m : SO m -> SOu (m_url m).
  Proof using.
    unfold SO. destruct (m_state m); try contradiction; cbv zeta.
    - intros [H _]. exact H.
    - intros [H _]. exact H.
    - intros [H _]. exact H.
    - intros H. exact H.
    - intros [[H1 H2] _]. split; [apply Bb_stable; exact H1|exact H2].
    - intros [[H1 H2] _]. split; [apply Bb_stable; exact H1|exact H2].
    - intros [[H1 H2] H3]. split; [apply BC_stable_q; assumption|exact H2].
    - intros [[H1 H2] H3]. split; [apply BC_stable_f; assumption|exact H2].
  Qed.

  Ltac unfold_step :=
    cbv beta iota zeta delta [step mk m_state m_ptr m_eof m_buf m_at m_br m_pw m_url overridden is_some].

  Lemma mherr_fatalO u t k : SOu u -> PostO (mherr c u t true k).
  Proof using All. intros H. rewrite (PhaseLemmas.mherr_fatal c Hrep u t k). exact H. Qed.

  Ltac step_auto := repeat first
    [ match goal with |- context [mherr c ?u ?t false ?k] => rewrite (PhaseLemmas.mherr_quiet c Hrep Hfail u t k); cbv beta end
    | progress cbv beta
    | match goal with |- PostO (mherr _ _ _ true _) => apply mherr_fatalO end
    | match goal with |- PostO (if ?b then _ else _) => destruct b eqn:? end
    | match goal with |- PostO ((if ?b then _ else _) _) => destruct b eqn:? end
    | match goal with |- PostO (match ?x with _ => _ end) => destruct x eqn:? end ].

  Ltac open_state m H :=
    destruct m as [st p e buf a br pw u]; unfold SO; cbn [m_state m_url m_buf m_ptr m_eof];
    intros -> H ->; unfold_step; cbn [negb andb orb].

  Ltac fin := cbn [PostO]; unfold SO; cbn [m_state m_url m_buf].

  Lemma SOu_parse_err u input ns u1 e : SOu u -> parseHost idna_raw c u input ns = Er u1 e -> SOu u1.
  Proof using.
    intros H E. pose proof (parseHost_only idna_raw c u input ns) as O. rewrite E in O. cbn [res_url] in O.
    rewrite O. exact H.
  Qed.

  Lemma SOu_parsed u input h u1 :
    SOu u -> u_opaque u = false ->
    (str_eqb (u_scheme u) s_file = true -> str_eqb h s_localhost = false) ->
    parseHost idna_raw c u input (negb (IsSpecialScheme c u)) = Ok u1 h -> SOu (set_host u1 (Some h)).
  Proof using All.
    intros [H1 H2] Ho Hl E. split; [|apply (HP_parsed idna_raw c R inp u input h u1 E)].
    pose proof (parseHost_keeps idna_raw c Hrep u input (negb (IsSpecialScheme c u))) as K.
    rewrite E in K. cbn [keeps] in K. subst u1. apply stable_set_host; assumption.
  Qed.

  Lemma SOu_empty_host u : SOu u -> u_opaque u = false -> SOu (set_host u (Some [])).
  Proof using.
    intros [H1 H2] Ho. split; [apply stable_set_host; [assumption|assumption|reflexivity]|apply HP_empty].
  Qed.

  Lemma st_Host m : (m_state m = HostSt \/ m_state m = HostnameSt) -> SO m -> m_eof m = false -> PostO (stepO m).
  Proof using All.
    destruct m as [st p e buf a br pw u]; unfold SO; cbn [m_state m_url m_buf m_ptr m_eof].
    intros Hst H ->.
    assert (H' : SOu u /\ u_opaque u = false) by (destruct Hst as [-> | ->]; exact H). clear H.
    destruct H' as [H Ho].
    assert (Hst' : forall b' a' br' pw' p' e', SO (mk st p' e' b' a' br' pw' u)).
    { intros. unfold SO. cbn [mk m_state m_url]. destruct Hst as [-> | ->]; split; assumption. }
    destruct Hst as [-> | ->]; unfold_step; cbn [negb andb orb]; step_auto; try exact H; fin.
    all: try (split; [exact H|split; [exact Ho|assumption]]).
    all: try (eapply SOu_parse_err; eassumption).
    all: try (eapply SOu_parsed; try eassumption; intros Ef; rewrite Ef in *; discriminate).
    all: try (split; assumption).
  Qed.

  Lemma st_FileHost m : m_state m = FileHost -> SO m -> m_eof m = false -> PostO (stepO m).
  Proof using All.
    open_state m H. destruct H as [H [Ho Hf]]. step_auto; try exact H; fin.
    all: try (eapply SOu_parse_err; eassumption).
    - apply SOu_empty_host; assumption.
    - destruct (str_eqb a0 s_localhost) eqn:El.
      + match goal with E : parseHost _ _ _ _ _ = Ok ?u1 _ |- _ =>
          pose proof (parseHost_keeps idna_raw c Hrep u buf (negb (IsSpecialScheme c u))) as K; rewrite E in K;
          cbn [keeps] in K; subst u1 end.
        apply SOu_empty_host; assumption.
      + eapply SOu_parsed; try eassumption. intros _. exact El.
    - split; [exact H|split; assumption].
  Qed.

  Lemma st_PortSt m : m_state m = PortSt -> SO m -> m_eof m = false -> PostO (stepO m).
  Proof using All.
    open_state m H. rewrite ?orb_true_r. step_auto; try exact H; fin.
    destruct H as [H1 H2]. split; [apply stable_clean_port; exact H1|].
    apply (HP_ext idna_raw c u); [rewrite cleanDefaultPort_scheme; reflexivity|rewrite cleanDefaultPort_host; reflexivity|exact H2].
  Qed.

  Lemma Bb_addnil u : Bb c u = true -> Bb c (addSegment u []) = true.
  Proof using All.
    intros HB. destruct (Bb_parts c u HB) as [_ [_ HP]]. unfold addSegment. apply B_set_path; [exact HB|].
    apply pok_snoc; [exact HP|reflexivity|intros _; reflexivity|intros _ _; reflexivity].
  Qed.

  Lemma st_PathStart m : m_state m = PathStart -> SO m -> m_eof m = false -> PostO (stepO m).
  Proof using All.
    open_state m H. destruct H as [[H1 H2] H3]. step_auto; fin.
    all: try (split; [split; assumption|first [exact H3|intros _; exact H3]]).
    split; [split; [apply Bb_addnil; exact H1|]|exact H3].
    apply (HP_ext idna_raw c u); [reflexivity|reflexivity|exact H2].
  Qed.

  Ltac ifs := repeat match goal with |- context [if ?b then _ else _] => destruct b end.

  Lemma st_PathSt_commitO p buf a br pw u :
    let r := if (n_inp inp <=? p + 1)%Z then rune_error else cp_at inp (p + 1) in
    let eof := if (n_inp inp <=? p + 1)%Z then true else false in
    (eof || (r =? 47)) || isSpecialSchemeAndBackslash c u r = true ->
    stepO (mk PathSt p false buf a br pw u) =
    (let u' := path_commit c u buf ((r =? 47) || isSpecialSchemeAndBackslash c u r) in
     if r =? 63 then Cont (mk QuerySt (p + 1) eof [] a br pw (set_query u' (Some [])))
     else if r =? 35 then Cont (mk FragmentSt (p + 1) eof [] a br pw (set_fragment u' (Some [])))
     else Cont (mk PathSt (p + 1) eof [] a br pw u')).
  Proof using All.
    cbv zeta. intros Hc. unfold_step. cbn [negb andb]. rewrite orb_false_r, Hc.
    destruct (isSpecialSchemeAndBackslash c u (if (n_inp inp <=? p + 1)%Z then rune_error else cp_at inp (p + 1))) eqn:Es;
      cbv beta; rewrite ?(PhaseLemmas.mherr_quiet c Hrep Hfail); cbv beta; rewrite ?Es; reflexivity.
  Qed.

  Lemma st_PathSt m : m_state m = PathSt -> SO m -> m_eof m = false -> PostO (stepO m).
  Proof using All.
    destruct m as [st p e buf a br pw u]; unfold SO; cbn [m_state m_url m_buf m_ptr m_eof].
    intros -> [[HB HPh] H92] ->.
    set (r := if (n_inp inp <=? p + 1)%Z then rune_error else cp_at inp (p + 1)).
    set (eof := if (n_inp inp <=? p + 1)%Z then true else false).
    destruct ((eof || (r =? 47)) || isSpecialSchemeAndBackslash c u r) eqn:Ec.
    - pose proof (st_PathSt_commitO p buf a br pw u Ec) as Eq. unfold mk in Eq. rewrite Eq. clear Eq. cbv zeta. fold r eof.
      pose proof (B_commit' c R u buf ((r =? 47) || isSpecialSchemeAndBackslash c u r) HB H92) as HC.
      assert (HH : HPu (path_commit c u buf ((r =? 47) || isSpecialSchemeAndBackslash c u r))).
      { apply (HP_ext idna_raw c u); [unfold path_commit; cbv zeta; ifs; reflexivity|unfold path_commit; cbv zeta; ifs; reflexivity|exact HPh]. }
      destruct (r =? 63); [|destruct (r =? 35)]; fin.
      + split; [split; [left; exact HC|exact HH]|reflexivity].
      + split; [split; [left; exact HC|exact HH]|reflexivity].
      + split; [split; [exact HC|exact HH]|intros _; reflexivity].
    - unfold_step. cbn [negb andb]. fold r eof. rewrite orb_false_r, Ec.
      apply orb_false_iff in Ec. destruct Ec as [_ Esab].
      assert (G : IsSpecialScheme c u = true -> (r =? 92) = false).
      { intros E. unfold isSpecialSchemeAndBackslash in Esab. rewrite E in Esab. exact Esab. }
      step_auto; fin; (split; [split; assumption|]); intros E; apply mem_app_false; try (apply H92; exact E);
        apply (enc_no92' c R r (c_pathSet c) (G E)).
  Qed.

  Lemma st_QuerySt m : m_state m = QuerySt -> SO m -> m_eof m = false -> PostO (stepO m).
  Proof using All.
    open_state m H. destruct H as [[H1 H2] H3]. step_auto; fin.
    all: split; [split; [exact H1|exact H2]|first [reflexivity|exact H3]].
  Qed.

  Lemma st_FragmentSt m : m_state m = FragmentSt -> SO m -> m_eof m = false -> PostO (stepO m).
  Proof using All.
    open_state m H. destruct H as [[H1 H2] H3]. step_auto; fin.
    all: split; [split; [exact H1|exact H2]|first [reflexivity|exact H3]].
  Qed.

  Theorem step_SO m : SO m -> m_eof m = false -> PostO (stepO m).
  Proof using All.
    intros H E. destruct (m_state m) eqn:Es; try (exfalso; unfold SO in H; rewrite Es in H; exact H).
    - apply st_Host; [left|..]; assumption.
    - apply st_Host; [right|..]; assumption.
    - apply st_FileHost; assumption.
    - apply st_PortSt; assumption.
    - apply st_PathSt; assumption.
    - apply st_PathStart; assumption.
    - apply st_QuerySt; assumption.
    - apply st_FragmentSt; assumption.
  Qed.

  Theorem run_SO : forall fuel m u, SO m -> m_eof m = false -> after (runO fuel m) = Some u -> SOu u.
  Proof using All.
    induction fuel as [|f IH]; intros m u Hm He H; [discriminate H|].
    cbn [run] in H. pose proof (step_SO m Hm He) as HPo.
    destruct (stepO m) as [m'|u'|u' e|u'|] eqn:ES; cbn [after] in H; try discriminate H; cbn [PostO] in HPo.
    - destruct (m_eof m') eqn:He'.
      + cbn [after] in H. injection H as <-. apply SO_final. exact HPo.
      + apply (IH m' u HPo He' H).
    - injection H as <-. exact HPo.
    - injection H as <-. exact HPo.
    - injection H as <-. exact HPo.
  Qed.
End OverrideInv.

(* ------------------------------------------------------------------------------------------ *)
(* BasicParser on an existing record under a state override                                     *)
(* ------------------------------------------------------------------------------------------ *)
Section Setters.
  Variable idna_raw : str -> str * bool.
  Variable c : cfg.
  Hypothesis R : CfgRT c.

  Let Hrep := R_rep c R.
  Let Hfail := R_fail c R.
  Notation HPu := (HP idna_raw c).
  Notation SOu := (SOu idna_raw c).
  Notation SO := (SO idna_raw c).

  Lemma BP_override_SO s u0 ov u' :
    (forall x, SO (mk ov (-1)%Z false [] false false false (set_input u0 x))) ->
    after (BasicParser idna_raw c s None (Some u0) (Some ov)) = Some u' -> SOu u'.
  Proof using All.
    intros Hinit H. unfold BasicParser in H. cbn [option_map] in H.
    match type of H with after (match ?X with (_, _) => _ end) = _ => destruct X as [i changed] end.
    destruct changed.
    - rewrite (handleError_quiet c Hrep Hfail) in H.
      eapply (run_SO idna_raw c R); [| |exact H]; [|reflexivity]. exact (Hinit i).
    - eapply (run_SO idna_raw c R); [| |exact H]; [|reflexivity]. exact (Hinit s).
  Qed.

  (* ---------------- the setters that assign directly ---------------- *)
  Lemma SetUsername_SO u s u' : SOu u -> SetUsername c u s = Some u' -> SOu u'.
  Proof using. intros H E. unfold SetUsername in E. destruct (no_host_or_file u); injection E as <-; exact H. Qed.

  Lemma SetPassword_SO u s u' : SOu u -> SetPassword c u s = Some u' -> SOu u'.
  Proof using. intros H E. unfold SetPassword in E. destruct (no_host_or_file u); injection E as <-; exact H. Qed.

  Lemma stable_port_none u : stable_b c u = true -> stable_b c (set_port u None 0) = true.
  Proof using.
    unfold stable_b. intros H. apply andb_true_iff in H. destruct H as [_ H]. apply andb_true_iff. split; [reflexivity|exact H].
  Qed.

  (* ---------------- trailing spaces of an opaque path ---------------- *)
  Lemma trim_left_no_head s : match trim_left [32] s with x :: _ => x <> 32 | [] => True end.
  Proof using.
    induction s as [|b s IH]; [exact I|]. cbn [trim_left]. destruct (mem b [32]) eqn:E; [exact IH|].
    unfold mem in E. cbn [existsb] in E. intros ->. discriminate E.
  Qed.

  Lemma trim_left_suffix s : exists pre, s = pre ++ trim_left [32] s.
  Proof using.
    induction s as [|b s [pre IH]]; [exists []; reflexivity|]. cbn [trim_left]. destruct (mem b [32]).
    - exists (b :: pre). cbn [app]. rewrite <- IH. reflexivity.
    - exists []. reflexivity.
  Qed.

  Lemma trim_right_props s :
    (last (trim_right [32] s) 0 =? 32) = false /\ (forall f, forallb f s = true -> forallb f (trim_right [32] s) = true).
  Proof using.
    unfold trim_right. split.
    - pose proof (trim_left_no_head (rev s)) as H. destruct (trim_left [32] (rev s)) as [|x t]; [reflexivity|].
      cbn [rev]. rewrite last_last. apply N.eqb_neq. exact H.
    - intros f Hf. destruct (trim_left_suffix (rev s)) as [pre E].
      assert (Hr : forallb f (rev s) = true).
      { apply forallb_forall. intros x Hx. rewrite forallb_forall in Hf. apply Hf. apply (proj2 (in_rev _ x)). exact Hx. }
      rewrite E, forallb_app in Hr. apply andb_true_iff in Hr. destruct Hr as [_ Hr].
      apply forallb_forall. intros x Hx. rewrite forallb_forall in Hr. apply Hr. apply (proj2 (in_rev _ x)). exact Hx.
  Qed.

  (* removing the query (or the fragment) and stripping *)
  Lemma strip_SO u u' :
    u_opaque u = true -> dport_ok u = true -> (exists s0, u_path u = [s0] /\ noqh s0 = true) -> HPu u ->
    strip_opaque u = Some u' -> SOu u'.
  Proof using.
    intros Ho Hd [s0 [Hp Hn]] HH E. unfold strip_opaque in E. rewrite Ho, Hp in E. injection E as <-.
    destruct (trim_right_props s0) as [T1 T2]. split.
    - unfold stable_b, opq_stable. cbn [u_opaque set_path u_path]. change (dport_ok (set_path u [trim_right [32] s0] true)) with (dport_ok u).
      rewrite Hd, T1. cbn [negb orb andb]. rewrite andb_true_r. apply T2. exact Hn.
    - apply (HP_ext idna_raw c u); [reflexivity|reflexivity|exact HH].
  Qed.

  Lemma stable_opaque_parts u : stable_b c u = true -> u_opaque u = true ->
    dport_ok u = true /\ ((exists s0, u_path u = [s0] /\ noqh s0 = true) \/ forall s0, u_path u <> [s0]).
  Proof using.
    unfold stable_b, opq_stable. intros H Ho. rewrite Ho in H. apply andb_true_iff in H. destruct H as [H1 H2].
    split; [exact H1|]. destruct (u_path u) as [|s0 [|s1 r]].
    - right. intros s0 E. discriminate E.
    - left. exists s0. split; [reflexivity|]. apply andb_true_iff in H2. apply H2.
    - right. intros s E. discriminate E.
  Qed.

  (* a record whose opaque path is not a singleton is stable whatever its query and fragment *)
  Lemma stable_qf_any u q f : stable_b c u = true ->
    (u_opaque u = true -> (is_some q || is_some f = true) \/ (forall s0, u_path u <> [s0]) \/
                          (exists s0, u_path u = [s0] /\ (last s0 0 =? 32) = false)) ->
    stable_b c (set_fragment (set_query u q) f) = true.
  Proof using.
    unfold stable_b, opq_stable. intros H Hc.
    change (dport_ok (set_fragment (set_query u q) f)) with (dport_ok u).
    cbn [u_opaque u_path u_query u_fragment set_query set_fragment].
    apply andb_true_iff in H. destruct H as [H1 H2]. rewrite H1. cbn [andb].
    destruct (u_opaque u) eqn:Ho; [|exact H2].
    destruct (u_path u) as [|s0 [|s1 r]]; try reflexivity.
    apply andb_true_iff in H2. destruct H2 as [H2 _]. rewrite H2. cbn [andb].
    destruct (Hc eq_refl) as [E|[E|[s [E1 E2]]]].
    - rewrite <- orb_assoc, E. apply orb_true_r.
    - exfalso. apply (E s0). reflexivity.
    - injection E1 as <-. rewrite E2. reflexivity.
  Qed.
End Setters.

Section SetterThms.
  Variable idna_raw : str -> str * bool.
  Variable c : cfg.
  Hypothesis R : CfgRT c.

  Notation HPu := (HP idna_raw c).
  Notation SOu := (SOu idna_raw c).
  Notation SO := (SO idna_raw c).

  Lemma stable_Bb u : stable_b c u = true -> u_opaque u = false -> Bb c u = true.
  Proof using.
    unfold stable_b, Bb. intros H Ho. rewrite Ho in *. apply andb_true_iff in H. destruct H as [H1 H2]. rewrite H1, H2. reflexivity.
  Qed.

  Lemma stable_BC u : Inv c u -> stable_b c u = true -> BC c u.
  Proof using.
    intros Hi H. destruct (u_opaque u) eqn:Ho; [right|left; apply stable_Bb; assumption].
    destruct (stable_opaque_parts c u H Ho) as [Hd [Hs|Hs]].
    - split; [exact Ho|]. split; [exact Hd|exact Hs].
    - exfalso. destruct (I_opaque _ _ Hi Ho) as [_ [s0 [E _]]]. exact (Hs s0 E).
  Qed.

  Theorem SetHost_SO u s u' : SOu u -> SetHost idna_raw c u s = Some u' -> SOu u'.
  Proof using All.
    intros H E. unfold SetHost in E. destruct (u_opaque u) eqn:Ho; [injection E as <-; exact H|].
    apply (BP_override_SO idna_raw c R s u HostSt u'); [|exact E]. intros x. split; [exact H|exact Ho].
  Qed.

  Theorem SetHostname_SO u s u' : SOu u -> SetHostname idna_raw c u s = Some u' -> SOu u'.
  Proof using All.
    intros H E. unfold SetHostname in E. destruct (u_opaque u) eqn:Ho; [injection E as <-; exact H|].
    apply (BP_override_SO idna_raw c R s u HostnameSt u'); [|exact E]. intros x. split; [exact H|exact Ho].
  Qed.

  Theorem SetPort_SO u s u' : SOu u -> SetPort idna_raw c u s = Some u' -> SOu u'.
  Proof using All.
    intros H E. unfold SetPort in E. destruct (no_host_or_file u); [injection E as <-; exact H|].
    destruct s as [|x s].
    - injection E as <-. destruct H as [H1 H2]. split; [apply stable_port_none; exact H1|].
      apply (HP_ext idna_raw c u); [reflexivity|reflexivity|exact H2].
    - apply (BP_override_SO idna_raw c R (x :: s) u PortSt u'); [|exact E]. intros y. exact H.
  Qed.

  Theorem SetPathname_SO u s u' : SOu u -> SetPathname idna_raw c u s = Some u' -> SOu u'.
  Proof using All.
    intros H E. unfold SetPathname in E. destruct (u_opaque u) eqn:Ho; [injection E as <-; exact H|].
    apply (BP_override_SO idna_raw c R s (set_path u [] false) PathStart u'); [|exact E]. intros x.
    destruct H as [H1 H2]. split; [|reflexivity]. split.
    - apply (B_set_path c u []); [apply stable_Bb; assumption|].
      destruct (Bb_parts c u (stable_Bb u H1 Ho)) as [_ [_ HP0]]. destruct (pok_elim c u _ HP0) as [_ [_ P3]].
      apply pok_intro; [reflexivity|intros _; reflexivity|].
      intros Ef. destruct (P3 Ef) as [_ P4]. split; [reflexivity|exact P4].
    - apply (HP_ext idna_raw c u); [reflexivity|reflexivity|exact H2].
  Qed.

  Theorem SetSearch_SO u s u' : Inv c u -> SOu u -> SetSearch idna_raw c u s = Some u' -> SOu u'.
  Proof using All.
    intros Hi [H1 H2] E. destruct s as [|x s].
    - (* the query is removed *)
      unfold SetSearch in E.
      set (u1 := set_query u None) in E.
      set (u2 := match u_sp u1 with Some _ => set_sp u1 (Some []) | None => u1 end) in E.
      assert (E2 : forall (P : url -> Prop), P u1 -> (forall v, P (set_sp u1 v)) -> P u2).
      { intros P P1 P2. unfold u2. destruct (u_sp u1); [apply P2|exact P1]. }
      assert (HH2 : HPu u2).
      { apply E2; [|intros v]; apply (HP_ext idna_raw c u); try reflexivity; exact H2. }
      destruct (u_opaque u) eqn:Ho.
      + destruct (stable_opaque_parts c u H1 Ho) as [Hd [Hs|Hs]];
          [|exfalso; destruct (I_opaque _ _ Hi Ho) as [_ [s0 [E0 _]]]; exact (Hs s0 E0)].
        destruct (negb (is_some (u_fragment u2))) eqn:Ef.
        * apply (strip_SO idna_raw c u2 u'); try exact E; try exact HH2.
          -- apply E2; [|intros v]; exact Ho.
          -- apply E2; [|intros v]; exact Hd.
          -- apply E2; [|intros v]; exact Hs.
        * injection E as <-. split; [|exact HH2]. apply negb_false_iff in Ef.
          assert (Ef' : is_some (u_fragment u) = true).
          { revert Ef. apply E2; [|intros v]; intros X; exact X. }
          assert (G : stable_b c u1 = true).
          { apply (stable_qf_any c u None (u_fragment u) H1). intros _. left. rewrite Ef'. apply orb_true_r. }
          apply E2; [exact G|intros v; exact G].
      + assert (G : stable_b c u1 = true).
        { apply (stable_qf_any c u None (u_fragment u) H1). intros Ho'. congruence. }
        assert (G2 : stable_b c u2 = true) by (apply E2; [exact G|intros v; exact G]).
        assert (Es : strip_opaque u2 = Some u2).
        { unfold strip_opaque. replace (u_opaque u2) with false; [reflexivity|].
          symmetry. apply E2; [|intros v]; exact Ho. }
        destruct (negb (is_some (u_fragment u2))); [rewrite Es in E|]; injection E as <-; split; assumption.
    - (* a new query *)
      unfold SetSearch in E.
      set (u0 := match u_query u with None => set_query u (Some []) | Some _ => u end) in E.
      destruct (after (BasicParser idna_raw c (trim_prefix1 63 (x :: s)) None (Some u0) (Some QuerySt))) as [u3|] eqn:EB;
        [|discriminate E].
      assert (H3 : SOu u3).
      { apply (BP_override_SO idna_raw c R (trim_prefix1 63 (x :: s)) u0 QuerySt u3); [|exact EB]. intros y.
        pose proof (stable_BC u Hi H1) as HB.
        unfold u0. destruct (u_query u) eqn:Eq.
        - split; [split; [exact HB|]|cbn [m_url mk u_query set_input]; rewrite Eq; reflexivity].
          apply (HP_ext idna_raw c u); [reflexivity|reflexivity|exact H2].
        - split; [split|reflexivity].
          + destruct HB as [HB|HB]; [left|right]; exact HB.
          + apply (HP_ext idna_raw c u); [reflexivity|reflexivity|exact H2]. }
      destruct (u_query u3); [|discriminate E]. injection E as <-. exact H3.
  Qed.

  Theorem SetHash_SO u s u' : Inv c u -> SOu u -> SetHash idna_raw c u s = Some u' -> SOu u'.
  Proof using All.
    intros Hi [H1 H2] E. destruct s as [|x s].
    - unfold SetHash in E. set (u1 := set_fragment u None) in E.
      assert (HH1 : HPu u1) by (apply (HP_ext idna_raw c u); [reflexivity|reflexivity|exact H2]).
      destruct (u_opaque u) eqn:Ho.
      + destruct (stable_opaque_parts c u H1 Ho) as [Hd [Hs|Hs]];
          [|exfalso; destruct (I_opaque _ _ Hi Ho) as [_ [s0 [E0 _]]]; exact (Hs s0 E0)].
        destruct (negb (is_some (u_query u1))) eqn:Ef.
        * apply (strip_SO idna_raw c u1 u'); try exact E; try exact HH1; assumption.
        * injection E as <-. split; [|exact HH1]. apply negb_false_iff in Ef.
          assert (G : stable_b c (set_fragment (set_query u (u_query u)) None) = true).
          { apply (stable_qf_any c u (u_query u) None H1). intros _. left. change (is_some (u_query u) = true) in Ef. rewrite Ef. reflexivity. }
          exact G.
      + assert (G : stable_b c (set_fragment (set_query u (u_query u)) None) = true).
        { apply (stable_qf_any c u (u_query u) None H1). intros Ho'. congruence. }
        assert (Es : strip_opaque u1 = Some u1) by (unfold strip_opaque; cbn [u_opaque u1 set_fragment]; rewrite Ho; reflexivity).
        destruct (negb (is_some (u_query u1))); [rewrite Es in E|]; injection E as <-; split; assumption.
    - unfold SetHash in E.
      apply (BP_override_SO idna_raw c R (trim_prefix1 35 (x :: s)) (set_fragment u (Some [])) FragmentSt u'); [|exact E]. intros y.
      pose proof (stable_BC u Hi H1) as HB. split; [split|reflexivity].
      + destruct HB as [HB|HB]; [left|right]; exact HB.
      + apply (HP_ext idna_raw c u); [reflexivity|reflexivity|exact H2].
  Qed.
End SetterThms.

(* ------------------------------------------------------------------------------------------ *)
(* the protocol setter                                                                          *)
(* ------------------------------------------------------------------------------------------ *)
Section Protocol.
  Variable idna_raw : str -> str * bool.
  Variable c : cfg.
  Hypothesis R : CfgRT c.
  Variable inp : list rune.

  Let Hrep := R_rep c R.
  Let Hfail := R_fail c R.

  Notation stepP := (step idna_raw c inp None (Some SchemeStart)).
  Notation runP := (run idna_raw c inp None (Some SchemeStart)).

  (* what the protocol setter leaves behind: the record itself, or the record with a new scheme of the same
     kind (special or not) and the port dropped if it is the new default *)
  Definition proto_res (u0 x : url) : Prop :=
    x = u0 \/ exists buf, x = cleanDefaultPort c (set_scheme u0 buf) /\ isSpecialScheme c buf = isSpecialScheme c (u_scheme u0).

  Definition PRinv (u0 : url) (m : mstate) : Prop :=
    m_url m = u0 /\ (m_state m = SchemeStart \/ m_state m = Scheme).

  Definition PostP (u0 : url) (o : outcome) : Prop :=
    match o with
    | Cont m' => PRinv u0 m'
    | RetUrl x => proto_res u0 x
    | RetErr x _ => x = u0
    | RetNilNil _ => False
    | Panic => False
    end.

  Ltac unfold_step :=
    cbv beta iota zeta delta [step mk m_state m_ptr m_eof m_buf m_at m_br m_pw m_url overridden is_some].

  Theorem step_PR u0 m : PRinv u0 m -> m_eof m = false -> PostP u0 (stepP m).
  Proof using All.
    destruct m as [st p e buf a br pw u]. unfold PRinv. cbn [m_state m_url m_eof]. intros [-> Hst] ->.
    destruct Hst as [-> | ->]; unfold_step; cbn [negb andb orb].
    - destruct (isAlpha _); [cbn [PostP]; unfold PRinv; cbn [m_url m_state]; auto|].
      rewrite (PhaseLemmas.mherr_fatal c Hrep). reflexivity.
    - destruct (isAlnum _ || _ || _ || _); [cbn [PostP]; unfold PRinv; cbn [m_url m_state]; auto|].
      destruct (_ =? 58).
      + match goal with |- PostP _ (if ?b then _ else _) => destruct b eqn:Ee end; [left; reflexivity|].
        right. exists buf. split; [reflexivity|].
        apply orb_false_iff in Ee. destruct Ee as [Ee _]. apply orb_false_iff in Ee. destruct Ee as [Ee _].
        apply orb_false_iff in Ee. destruct Ee as [E1 E2].
        destruct (isSpecialScheme c buf), (isSpecialScheme c (u_scheme u0)); try reflexivity; discriminate.
      + rewrite (PhaseLemmas.mherr_fatal c Hrep). reflexivity.
  Qed.

  Theorem run_PR u0 : forall fuel m x, PRinv u0 m -> m_eof m = false -> after (runP fuel m) = Some x -> proto_res u0 x.
  Proof using All.
    induction fuel as [|f IH]; intros m x Hm He H; [discriminate H|].
    cbn [run] in H. pose proof (step_PR u0 m Hm He) as HPo.
    destruct (stepP m) as [m'|u'|u' e|u'|] eqn:ES; cbn [after] in H; try discriminate H; cbn [PostP] in HPo; try contradiction.
    - destruct (m_eof m') eqn:He'.
      + cbn [after] in H. injection H as <-. left. apply HPo.
      + apply (IH m' x HPo He' H).
    - injection H as <-. exact HPo.
    - injection H as <-. left. exact HPo.
  Qed.
End Protocol.

Section ProtocolThm.
  Variable idna_raw : str -> str * bool.
  Variable c : cfg.
  Hypothesis R : CfgRT c.

  Notation HPu := (HP idna_raw c).

  Lemma SetProtocol_res u s u' :
    SetProtocol idna_raw c u s = Some u' -> exists x, proto_res c (set_input u x) u'.
  Proof using All.
    unfold SetProtocol. set (s' := if has_suffix [58] s then s else s ++ [58]). intros H.
    unfold BasicParser in H. cbn [option_map] in H.
    match type of H with after (match ?X with (_, _) => _ end) = _ => destruct X as [i changed] end.
    destruct changed.
    - rewrite (handleError_quiet c (R_rep c R) (R_fail c R)) in H. exists i.
      eapply (run_PR idna_raw c R); [| |exact H]; [|reflexivity]. split; [reflexivity|left; reflexivity].
    - exists s'. eapply (run_PR idna_raw c R); [| |exact H]; [|reflexivity]. split; [reflexivity|left; reflexivity].
  Qed.

  (* the exceptional outcome: the scheme became "file" and the record is not stable *)
  Definition proto_exception (u u' : url) : Prop :=
    str_eqb (u_scheme u) s_file = false /\ str_eqb (u_scheme u') s_file = true /\
    (drive_ok c u' = false \/ u_host u' = Some s_localhost).

  Lemma stable_clean u : stable_b c u = true -> stable_b c (cleanDefaultPort c u) = true.
  Proof using.
    intros H. unfold cleanDefaultPort.
    assert (G : stable_b c (set_port u None 0) = true) by (apply stable_port_none; exact H).
    destruct (getSpecialScheme c (u_scheme u)); [|exact H]. destruct (u_port u); [|exact G].
    destruct (str_eqb s s0); [exact G|exact H].
  Qed.

  Lemma drive_ok_clean u : drive_ok c (cleanDefaultPort c u) = drive_ok c u.
  Proof using.
    unfold cleanDefaultPort. destruct (getSpecialScheme c (u_scheme u)); [|reflexivity].
    destruct (u_port u); [|reflexivity]. destruct (str_eqb s s0); reflexivity.
  Qed.

  Theorem SetProtocol_SO u s u' :
    stable_b c u = true -> HPu u -> SetProtocol idna_raw c u s = Some u' ->
    HPu u' /\ (stable_b c u' = true \/ proto_exception u u').
  Proof using All.
    intros H1 H2 E. destruct (SetProtocol_res u s u' E) as [x [->|[buf [-> Hsp]]]].
    - split; [apply (HP_ext idna_raw c u); [reflexivity|reflexivity|exact H2]|left; exact H1].
    - cbn [u_scheme set_input] in Hsp. split.
      + intros h Eh. rewrite cleanDefaultPort_host in Eh. cbn [u_host set_scheme set_input] in Eh.
        unfold IsSpecialScheme. rewrite cleanDefaultPort_scheme. cbn [u_scheme set_scheme]. rewrite Hsp. apply (H2 h Eh).
      + set (v := set_scheme (set_input u x) buf).
        assert (Hv : stable_b c v = true \/
                     (str_eqb (u_scheme u) s_file = false /\ str_eqb buf s_file = true /\
                      (drive_ok c u = false \/ u_host u = Some s_localhost))).
        { unfold stable_b in *. change (dport_ok v) with (dport_ok u). change (u_opaque v) with (u_opaque u).
          change (opq_stable v) with (opq_stable u).
          apply andb_true_iff in H1. destruct H1 as [Hd Hr]. rewrite Hd. cbn [andb].
          destruct (u_opaque u); [left; exact Hr|].
          unfold list_stable in *. change (u_path v) with (u_path u). change (u_host v) with (u_host u).
          change (u_scheme v) with buf. change (drive_ok c v) with (drive_ok c u).
          change (IsSpecialScheme c v) with (isSpecialScheme c buf). rewrite Hsp. fold (IsSpecialScheme c u).
          apply andb_true_iff in Hr. destruct Hr as [Hr Hf]. rewrite Hr. cbn [andb].
          destruct (str_eqb buf s_file) eqn:Eb; [|left; reflexivity]. cbn [negb orb].
          destruct (str_eqb (u_scheme u) s_file) eqn:Eu; [left; exact Hf|].
          destruct (drive_ok c u) eqn:Ed; [|right; auto].
          destruct (opt_eqb str_eqb (u_host u) (Some s_localhost)) eqn:El; [|left; reflexivity].
          right. split; [reflexivity|]. split; [reflexivity|]. right.
          destruct (u_host u) as [h|]; [|discriminate El]. cbn [opt_eqb] in El. apply str_eqb_eq in El. subst h. reflexivity. }
        destruct Hv as [Hv|[E1 [E2 E3]]]; [left; apply stable_clean; exact Hv|].
        right. split; [exact E1|]. split; [rewrite cleanDefaultPort_scheme; exact E2|].
        rewrite drive_ok_clean, cleanDefaultPort_host. exact E3.
  Qed.
End ProtocolThm.

(* ------------------------------------------------------------------------------------------ *)
(* every setter, and setter histories                                                           *)
(* ------------------------------------------------------------------------------------------ *)
Section History.
  Variable idna_raw : str -> str * bool.
  Hypothesis HH3 : H3 idna_raw.
  Variable c : cfg.
  Hypothesis Hokm : cfg_okm c = true.
  Hypothesis Hrt : cfg_rt c = true.

  Let R : CfgRT c := cfg_rt_sound c Hrt.
  Notation HPu := (HP idna_raw c).

  Theorem setter_SO w u v u' :
    Inv c u -> stable_b c u = true -> HPu u -> setter idna_raw c w u v = Some u' ->
    HPu u' /\ (stable_b c u' = true \/ (w = 0 /\ proto_exception c u u')).
  Proof using All.
    intros Hi H1 H2 E.
    assert (G : SOu idna_raw c u' -> HPu u' /\ (stable_b c u' = true \/ (w = 0 /\ proto_exception c u u'))).
    { intros [A B]. split; [exact B|left; exact A]. }
    unfold setter in E. destruct w as [|w].
    { destruct (SetProtocol_SO idna_raw c R u v u' H1 H2 E) as [A [B|B]]; split; auto. }
    do 3 (destruct w as [w|w|]; try (apply G; first
      [ apply (SetHash_SO idna_raw c R u v u' Hi (conj H1 H2) E)
      | apply (SetUsername_SO idna_raw c u v u' (conj H1 H2) E)
      | apply (SetPassword_SO idna_raw c u v u' (conj H1 H2) E)
      | apply (SetHost_SO idna_raw c R u v u' (conj H1 H2) E)
      | apply (SetHostname_SO idna_raw c R u v u' (conj H1 H2) E)
      | apply (SetPort_SO idna_raw c R u v u' (conj H1 H2) E)
      | apply (SetPathname_SO idna_raw c R u v u' (conj H1 H2) E)
      | apply (SetSearch_SO idna_raw c R u v u' Hi (conj H1 H2) E) ])).
  Qed.

  (* a history of setter calls (a call that panics ends it) *)
  Fixpoint run_setters (u : url) (ops : list (N * str)) : option url :=
    match ops with
    | [] => Some u
    | (w, v) :: r => match setter idna_raw c w u v with Some u' => run_setters u' r | None => None end
    end.

  (* an exceptional step occurs in the history *)
  Fixpoint exc_in (u : url) (ops : list (N * str)) : Prop :=
    match ops with
    | [] => False
    | (w, v) :: r =>
        match setter idna_raw c w u v with
        | Some u' => (w = 0 /\ proto_exception c u u') \/ exc_in u' r
        | None => False
        end
    end.

  Theorem history_SO : forall ops u uf,
    Inv c u -> stable_b c u = true -> HPu u -> run_setters u ops = Some uf ->
    Inv c uf /\ ((stable_b c uf = true /\ HPu uf) \/ exc_in u ops).
  Proof using All.
    induction ops as [|[w v] r IH]; intros u uf Hi H1 H2 E.
    - injection E as <-. split; [exact Hi|left; split; assumption].
    - cbn [run_setters exc_in] in *. destruct (setter idna_raw c w u v) as [u'|] eqn:Es; [|discriminate E].
      pose proof (setter_Inv idna_raw HH3 c Hokm (R_fail c R) w u v u' Hi Es) as Hi'.
      destruct (setter_SO w u v u' Hi H1 H2 Es) as [A [B|B]].
      + destruct (IH u' uf Hi' B A E) as [I1 [I2|I2]]; split; auto.
      + split; [|right; left; exact B].
        clear -HH3 Hokm Hi' E R. revert u' Hi' E. induction r as [|[w2 v2] r IHr]; intros u' Hi' E.
        * injection E as <-. exact Hi'.
        * cbn [run_setters] in E. destruct (setter idna_raw c w2 u' v2) as [u2|] eqn:Es2; [|discriminate E].
          apply (IHr u2 (setter_Inv idna_raw HH3 c Hokm (R_fail c R) w2 u' v2 u2 Hi' Es2) E).
  Qed.

  (* from a parse result *)
  Theorem parse_history_SO x u0 ops uf :
    Parse idna_raw c x = PUrl u0 -> run_setters u0 ops = Some uf ->
    Inv c uf /\ ((stable_b c uf = true /\ HPu uf) \/ exc_in u0 ops).
  Proof using All.
    intros H E. apply (history_SO ops u0 uf); [|apply (Parse_stable idna_raw c x u0 Hrt H)| |exact E].
    - apply (Parse_Inv idna_raw HH3 c Hokm x u0 H).
    - apply (Parse_host_prov idna_raw c x u0 Hrt H).
  Qed.

  Hypothesis HH1 : oracle_ascii_transparent idna_raw.
  Hypothesis Hl1 : c_latin1 c = false.

  (* every state of a history without exceptional step round-trips (up to the oracle residue of its host) *)
  Theorem history_roundtrip x u0 ops uf :
    Parse idna_raw c x = PUrl u0 -> run_setters u0 ops = Some uf -> ~ exc_in u0 ops ->
    ace_residue idna_raw c uf ->
    exists s u', Href uf false = Some s /\ Parse idna_raw c s = PUrl u' /\ same_components u' uf.
  Proof using All.
    intros H E Hne Hres. destruct (parse_history_SO x u0 ops uf H E) as [Hi [[H1 H2]|Hx]]; [|contradiction].
    destruct (Href_exists c uf Hi) as [s Hs]. exists s.
    assert (Hfix : host_fixed idna_raw c uf).
    { intros h Hh u1. destruct (cfg_okm_parts c Hokm) as [_ [_ [_ [_ [_ [_ [_ [Hlax [_ [_ [Hpost _]]]]]]]]]]].
      apply (prov_fixed idna_raw c R Hlax Hl1 Hpost HH3 HH1); [apply (H2 h Hh)|].
      intros En. apply (Hres h Hh). apply negb_false_iff. exact En. }
    destruct (roundtrip idna_raw c Hrt uf s Hi (conj H1 Hfix) Hs) as [u' [P1 P2]]. exists u'. auto.
  Qed.
End History.

Print Assumptions setter_SO.
Print Assumptions parse_history_SO.
Print Assumptions history_roundtrip.

(* ------------------------------------------------------------------------------------------ *)
(* the exceptions are real: protocol := "file" on http://h/C|/x and on http://localhost/x        *)
(* ------------------------------------------------------------------------------------------ *)
From Verif Require Import Proofs.RoundTripNeeded.

Definition ex_drive : str := [104;116;116;112;58;47;47;104;47;67;124;47;120].                (* http://h/C|/x *)
Definition ex_localhost : str := [104;116;116;112;58;47;47;108;111;99;97;108;104;111;115;116;47;120]. (* http://localhost/x *)

Definition exception_witness (x : str) : Prop :=
  exists u u', Parse idna_toy default_cfg x = PUrl u /\ stable_b default_cfg u = true /\
    SetProtocol idna_toy default_cfg u s_file = Some u' /\ proto_exception default_cfg u u' /\
    Inv default_cfg u' /\ stable_b default_cfg u' = false /\ rt_ok idna_toy default_cfg u' = false.

Example proto_exception_drive : exception_witness ex_drive.
Proof.
  eexists. eexists. split; [vm_compute; reflexivity|]. split; [vm_compute; reflexivity|].
  split; [vm_compute; reflexivity|]. split.
  - split; [reflexivity|]. split; [reflexivity|]. left. vm_compute. reflexivity.
  - split; [apply inv_b_sound; vm_compute; reflexivity|]. split; vm_compute; reflexivity.
Qed.

Example proto_exception_localhost : exception_witness ex_localhost.
Proof.
  eexists. eexists. split; [vm_compute; reflexivity|]. split; [vm_compute; reflexivity|].
  split; [vm_compute; reflexivity|]. split.
  - split; [reflexivity|]. split; [reflexivity|]. right. reflexivity.
  - split; [apply inv_b_sound; vm_compute; reflexivity|]. split; vm_compute; reflexivity.
Qed.

(* a history without exception: parse, then hostname, port, pathname (with a drive letter and dot segments),
   search, hash, username: the premises of [history_roundtrip] *)
Example history_ex :
  exists u0 uf,
    Parse idna_toy default_cfg [104;116;116;112;58;47;47;104;47;97] = PUrl u0 /\
    run_setters idna_toy default_cfg u0
      [ (4, [69;120;46;79;82;71]); (5, [56;48;56;48]); (6, [47;67;124;47;46;46;47;98;32;99]);
        (7, [63;113;61;49]); (8, [102;32]); (1, [117;64]) ] = Some uf /\
    stable_b default_cfg uf = true /\ rt_ok idna_toy default_cfg uf = true.
Proof. eexists. eexists. split; [vm_compute; reflexivity|]. split; [vm_compute; reflexivity|]. split; vm_compute; reflexivity. Qed.

Print Assumptions proto_exception_drive.
