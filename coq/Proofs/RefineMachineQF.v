(* R8: one-step simulation for the fragment state, the query state and the opaque path state. *)
From Verif Require Import Lib.Base Lib.Utf8 Lib.GoStr Model.Cfg Gen.Tables Gen.Options Model.Sets Model.Percent
     Model.Url Model.Host Model.Machine.
From Verif Require Spec.Url Spec.Host Spec.BasicParser.
From Verif Require Import Spec.PercentSets Spec.PercentCodec.
From Verif Require Import Proofs.Utf8Proofs Proofs.SetsProofs Proofs.RefineUtf8 Proofs.RefineCodec
     Proofs.RefineHost Proofs.RefineMachineBase.
From Coq Require Import Lia ZifyBool ZifyN ZifyNat.

Section States.
  Variable idna_raw : str -> str * bool.
  Variable c : cfg.
  Hypothesis Hstd : std_cfg c.
  Variable inp : list rune.
  Let input : list N := map rv inp.
  Variable base : option url.
  Variable sbase : option SU.surl.
  Variable override : option state.

  Let Hfail := std_fail c Hstd.
  Let Hl1 := std_latin1 c Hstd.
  Let Hsp := std_singlePct c Hstd.
  Let Hspecial := std_special_tab c Hstd.

  Notation sim_for := (step_sim_for idna_raw c inp base sbase override).

  Lemma is_some_map {A B} (f : A -> B) o : is_some (option_map f o) = is_some o.
  Proof. destruct o; reflexivity. Qed.

  (* ---------------------------------------------------------------- *)
  (* fragment state                                                    *)
  (* ---------------------------------------------------------------- *)
  Lemma frag_set u : (if isSpecialScheme c (u_scheme u) then c_sfragSet c else c_fragSet c) = pes_Fragment.
  Proof. rewrite (std_sfragSet c Hstd), (std_fragSet c Hstd). destruct (isSpecialScheme c (u_scheme u)); reflexivity. Qed.

  Lemma enc_fragment r : percentEncodeRune c r (Some pes_Fragment) = encode_runes (utf8_percent_encode_cp in_fragment_set r).
  Proof. apply R1_rune; [exact Hl1|exact sets_fragment]. Qed.

  Theorem sim_fragment : sim_for (fun st => st = FragmentSt).
  Proof.
    intros mm sm Hst [Hs Hp He Hlo Hhi Hfl Hb].
    rewrite Hst in Hs, Hb. cbn [st_map] in Hs. cbn [st_rel] in Hb. destruct Hb as [f [Hf [Hbuf HRf]]].
    unfold mstep, sstep, step, SB.step. rewrite Hst, <- Hs. cbv beta iota zeta. rewrite He, Hp.
    set (p := (m_ptr mm + 1)%Z).
    destruct (n_inp inp <=? p)%Z eqn:En.
    - (* the EOF code point *)
      unfold input. rewrite here_eof by lia. cbn [negb SB.c_of hd_error SB.fragment_state out_rel].
      constructor; unfold mk; cbn [m_state m_ptr m_eof m_buf m_at m_br m_pw m_url st_map st_rel].
      + exact Hs.
      + exact Hp.
      + lia.
      + rewrite points_to_eof_spec. lia.
      + exact Hfl.
      + exists f. split; [exact Hf|]. split; [exact Hbuf|].
        apply (Rf_fragment (m_url mm) (SB.m_url sm) (Some (m_buf mm)) (Some f)) in HRf.
        replace (SU.with_fragment (SB.m_url sm) (Some f)) with (SB.m_url sm) in HRf; [exact HRf|].
        destruct (SB.m_url sm); cbn in *; subst; reflexivity.
      + intros _. apply Rf_R.
        * apply (Rf_fragment (m_url mm) (SB.m_url sm) (Some (m_buf mm)) (Some f)) in HRf.
          replace (SU.with_fragment (SB.m_url sm) (Some f)) with (SB.m_url sm) in HRf; [exact HRf|].
          destruct (SB.m_url sm); cbn in *; subst; reflexivity.
        * cbn [set_fragment u_fragment]. rewrite Hf, Hbuf. reflexivity.
    - (* a code point *)
      unfold input. rewrite (here_cons inp p) by lia.
      cbn [negb SB.c_of hd_error]. unfold SB.fragment_state. rewrite Hf.
      set (r := cp_at inp p).
      assert (G : forall u, Rf u (SB.m_url sm) ->
        out_rel inp (is_some override) sbase
          (Cont (mk FragmentSt p false
             (m_buf mm ++ percentEncodeRune c r
                (Some (if isSpecialScheme c (u_scheme u) then c_sfragSet c else c_fragSet c)))
             (m_at mm) (m_br mm) (m_pw mm) u))
          (SB.SCont (SB.set_url sm (SU.with_fragment (SB.m_url sm)
             (Some (f ++ utf8_percent_encode_cp in_fragment_set r)))))).
      { intros u Hu. cbn [out_rel].
        constructor; unfold mk; cbn [m_state m_ptr m_eof m_buf m_at m_br m_pw m_url st_map st_rel].
        - destruct sm; exact Hs.
        - destruct sm; exact Hp.
        - lia.
        - rewrite points_to_eof_spec. lia.
        - destruct sm; exact Hfl.
        - exists (f ++ utf8_percent_encode_cp in_fragment_set r).
          split; [destruct sm; reflexivity|]. split.
          + rewrite frag_set, enc_fragment, Hbuf, enc_runes_app. reflexivity.
          + destruct sm. apply Rf_with_fragment. exact Hu.
        - discriminate. }
      destruct (negb (isURLCodePoint r) && negb (r =? 37));
        destruct (invalid_pct (rest_from inp p));
        rewrite ?mherr_warn by exact Hfail; apply G; repeat apply Rf_noted; exact HRf.
  Qed.

  (* ---------------------------------------------------------------- *)
  (* query state                                                       *)
  (* ---------------------------------------------------------------- *)
  Lemma query_set u su : Rq u su ->
    percentEncodeRune c = percentEncodeRune c ->
    forall r, percentEncodeRune c r (Some (if isSpecialScheme c (u_scheme u) then c_squerySet c else c_querySet c))
            = encode_runes (utf8_percent_encode_cp (qset su) r).
  Proof.
    intros HR _ r. rewrite (std_squerySet c Hstd), (std_querySet c Hstd).
    change (isSpecialScheme c (u_scheme u)) with (IsSpecialScheme c u).
    assert (E : IsSpecialScheme c u = SU.url_is_special su).
    { rewrite <- (R_special c _ su Hspecial HR). reflexivity. }
    rewrite E. unfold qset. destruct (SU.url_is_special su).
    - apply R1_rune; [exact Hl1|exact sets_special_query].
    - apply R1_rune; [exact Hl1|exact sets_query].
  Qed.

  Lemma qset_ascii su l : ascii (utf8_percent_encode (qset su) l).
  Proof.
    unfold qset. destruct (SU.url_is_special su).
    - apply (utf8_percent_encode_ascii c Hl1 pes_SpecialQuery); exact sets_special_query.
    - apply (utf8_percent_encode_ascii c Hl1 pes_Query); exact sets_query.
  Qed.

  Lemma qset_snoc su l x :
    utf8_percent_encode (qset su) (l ++ [x]) = utf8_percent_encode (qset su) l ++ utf8_percent_encode_cp (qset su) x.
  Proof.
    unfold qset. destruct (SU.url_is_special su).
    - rewrite (utf8_percent_encode_app in_special_query_set).
      rewrite (utf8_percent_encode_flat in_special_query_set [x]). cbn [flat_map]. rewrite app_nil_r. reflexivity.
    - rewrite (utf8_percent_encode_app in_query_set).
      rewrite (utf8_percent_encode_flat in_query_set [x]). cbn [flat_map]. rewrite app_nil_r. reflexivity.
  Qed.

  (* special-ness does not depend on the query / fragment *)
  Lemma qset_with_query su x : qset (SU.with_query su x) = qset su.
  Proof. reflexivity. Qed.

  Theorem sim_query : sim_for (fun st => st = QuerySt).
  Proof.
    intros mm sm Hst [Hs Hp He Hlo Hhi Hfl Hb].
    rewrite Hst in Hs, Hb. cbn [st_map] in Hs. cbn [st_rel] in Hb.
    destruct Hb as [q0 [Hq [Hsome [Hbuf HRq]]]].
    unfold mstep, sstep, step, SB.step. rewrite Hst, <- Hs. cbv beta iota zeta. rewrite He, Hp.
    set (p := (m_ptr mm + 1)%Z).
    unfold SB.query_state, SB.override_given, overridden. rewrite is_some_map.
    destruct (n_inp inp <=? p)%Z eqn:En.
    - (* the EOF code point *)
      unfold input. rewrite here_eof by lia. cbn [SB.c_of hd_error SB.c_is SB.c_is_eof].
      change (rune_error =? 35) with false. rewrite andb_false_r, orb_true_r. cbn [negb].
      rewrite Hq. cbv zeta. cbn [SB.c_is]. cbn [out_rel].
      fold (qset (SB.m_url sm)).
      constructor; unfold mk; cbn [m_state m_ptr m_eof m_buf m_at m_br m_pw m_url st_map st_rel].
      + destruct sm; exact Hs.
      + destruct sm; exact Hp.
      + lia.
      + rewrite points_to_eof_spec. lia.
      + destruct sm; exact Hfl.
      + exists (q0 ++ percent_encode_after_utf8 (qset (SB.m_url sm)) false (SB.m_buffer sm)).
        destruct sm as [su sst sbuf sa sbr spw sp]. cbn [SB.m_url SB.m_buffer SB.set_url SB.set_buffer] in *.
        split; [reflexivity|]. split; [reflexivity|]. split.
        * rewrite qset_with_query. unfold utf8_percent_encode at 1. cbn. rewrite app_nil_r. exact Hbuf.
        * apply Rq_query. exact HRq.
      + intros _. destruct sm as [su sst sbuf sa sbr spw sp]. cbn [SB.m_url SB.m_buffer SB.set_url SB.set_buffer] in *.
        apply Rq_R.
        * apply Rq_query. exact HRq.
        * cbn. rewrite Hbuf. reflexivity.
    - (* a code point *)
      unfold input. rewrite (here_cons inp p) by lia.
      cbn [SB.c_of hd_error SB.c_is SB.c_is_eof]. rewrite orb_false_r.
      set (r := cp_at inp p).
      destruct (negb (is_some override) && (r =? 35)) eqn:Eh.
      + (* '#' *)
        rewrite Hq. destruct (u_query (m_url mm)) as [mq|] eqn:Emq; [|discriminate Hsome].
        apply andb_true_iff in Eh. destruct Eh as [_ Eh]. rewrite Eh.
        cbn [out_rel]. fold (qset (SB.m_url sm)).
        constructor; unfold mk; cbn [m_state m_ptr m_eof m_buf m_at m_br m_pw m_url st_map st_rel].
        * destruct sm; reflexivity.
        * destruct sm; exact Hp.
        * lia.
        * rewrite points_to_eof_spec. lia.
        * destruct sm; exact Hfl.
        * exists []. destruct sm as [su sst sbuf sa sbr spw sp].
          cbn [SB.m_url SB.m_buffer SB.set_url SB.set_buffer SB.set_state] in *.
          split; [reflexivity|]. split; [reflexivity|].
          apply R_Rf.
          apply (R_set_fragment _ _ (Some [])).
          apply Rq_R.
          -- apply Rq_query. exact HRq.
          -- cbn. rewrite Hbuf. reflexivity.
        * discriminate.
      + (* any other code point *)
        cbn [negb].
        assert (G : forall u, Rq u (SB.m_url sm) -> is_some (u_query u) = true ->
          out_rel inp (is_some override) sbase
            (Cont (mk QuerySt p false
               (m_buf mm ++ percentEncodeRune c r
                  (Some (if isSpecialScheme c (u_scheme u) then c_squerySet c else c_querySet c)))
               (m_at mm) (m_br mm) (m_pw mm) u))
            (SB.SCont (SB.append_to_buffer sm r))).
        { intros u Hu Hus. cbn [out_rel].
          constructor; unfold mk; cbn [m_state m_ptr m_eof m_buf m_at m_br m_pw m_url st_map st_rel].
          - destruct sm; exact Hs.
          - destruct sm; exact Hp.
          - lia.
          - rewrite points_to_eof_spec. lia.
          - destruct sm; exact Hfl.
          - exists q0. destruct sm as [su sst sbuf sa sbr spw sp].
            cbn [SB.m_url SB.m_buffer SB.append_to_buffer SB.set_buffer] in *.
            split; [exact Hq|]. split; [exact Hus|]. split; [|exact Hu].
            rewrite (query_set u su Hu eq_refl), Hbuf, qset_snoc, <- enc_runes_app, app_assoc. reflexivity.
          - discriminate. }
        destruct (negb (isURLCodePoint r) && negb (r =? 37));
          destruct (invalid_pct (rest_from inp p));
          rewrite ?mherr_warn by exact Hfail;
          (apply G; [repeat apply Rq_noted; exact HRq | rewrite ?noted_query; exact Hsome]).
  Qed.

  (* ---------------------------------------------------------------- *)
  (* opaque path state                                                 *)
  (* ---------------------------------------------------------------- *)
  Lemma enc_C0 r : percentEncodeRune c r (Some pes_C0) = encode_runes (utf8_percent_encode_cp in_c0_control_set r).
  Proof. apply R1_rune; [exact Hl1|exact sets_C0]. Qed.

  Lemma R_opaque_append u su s x : R u su -> SU.u_path su = SU.POpaque s ->
    R (set_path u [encode_runes (s ++ x)] true) (SU.with_path su (SU.POpaque (s ++ x))).
  Proof. intros H _. apply R_set_path_opaque. exact H. Qed.

  Theorem sim_opaque_path : sim_for (fun st => st = OpaquePath).
  Proof.
    intros mm sm Hst [Hs Hp He Hlo Hhi Hfl Hb].
    rewrite Hst in Hs, Hb. cbn [st_map] in Hs. cbn [st_rel] in Hb.
    destruct Hb as [s [Hpath [Hbuf [Hsb HR]]]].
    unfold mstep, sstep, step, SB.step. rewrite Hst, <- Hs. cbv beta iota zeta. rewrite He, Hp.
    set (p := (m_ptr mm + 1)%Z).
    unfold SB.opaque_path_state.
    destruct (n_inp inp <=? p)%Z eqn:En.
    - (* the EOF code point *)
      unfold input. rewrite here_eof by lia. cbn [SB.c_of hd_error SB.c_is].
      change (rune_error =? 63) with false. change (rune_error =? 35) with false. cbn [negb out_rel].
      constructor; unfold mk; cbn [m_state m_ptr m_eof m_buf m_at m_br m_pw m_url st_map st_rel].
      + exact Hs.
      + exact Hp.
      + lia.
      + rewrite points_to_eof_spec. lia.
      + exact Hfl.
      + exists s. split; [exact Hpath|]. split; [exact Hbuf|]. split; [exact Hsb|exact HR].
      + intros _. exact HR.
    - (* a code point *)
      unfold input. rewrite (here_cons inp p) by lia.
      cbn [SB.c_of hd_error SB.c_is].
      set (r := cp_at inp p).
      destruct (r =? 63) eqn:E63.
      + (* '?' *)
        cbn [out_rel].
        constructor; unfold mk; cbn [m_state m_ptr m_eof m_buf m_at m_br m_pw m_url st_map st_rel].
        * destruct sm; reflexivity.
        * destruct sm; exact Hp.
        * lia.
        * rewrite points_to_eof_spec. lia.
        * destruct sm; exact Hfl.
        * exists []. destruct sm as [su sst sbuf sa sbr spw sp].
          cbn [SB.m_url SB.m_buffer SB.set_url SB.set_buffer SB.set_state] in *. subst sbuf.
          split; [reflexivity|]. split; [reflexivity|]. split; [reflexivity|].
          apply R_Rq. apply (R_set_query _ _ (Some [])). exact HR.
        * discriminate.
      + destruct (r =? 35) eqn:E35.
        * (* '#' *)
          cbn [out_rel].
          constructor; unfold mk; cbn [m_state m_ptr m_eof m_buf m_at m_br m_pw m_url st_map st_rel].
          -- destruct sm; reflexivity.
          -- destruct sm; exact Hp.
          -- lia.
          -- rewrite points_to_eof_spec. lia.
          -- destruct sm; exact Hfl.
          -- exists []. destruct sm as [su sst sbuf sa sbr spw sp].
             cbn [SB.m_url SB.m_buffer SB.set_url SB.set_buffer SB.set_state] in *.
             split; [reflexivity|]. split; [reflexivity|].
             apply R_Rf. apply (R_set_fragment _ _ (Some [])). exact HR.
          -- discriminate.
        * (* any other code point *)
          cbn [negb]. rewrite Hpath.
          assert (G : forall u, R u (SB.m_url sm) ->
            out_rel inp (is_some override) sbase
              (Cont (mk OpaquePath p false (m_buf mm ++ percentEncodeRune c r (Some pes_C0))
                 (m_at mm) (m_br mm) (m_pw mm)
                 (set_path u [m_buf mm ++ percentEncodeRune c r (Some pes_C0)] true)))
              (SB.SCont (SB.set_url sm (SU.with_path (SB.m_url sm)
                 (SU.POpaque (s ++ utf8_percent_encode_cp in_c0_control_set r)))))).
          { intros u Hu. cbn [out_rel].
            assert (Eb : m_buf mm ++ percentEncodeRune c r (Some pes_C0)
                         = encode_runes (s ++ utf8_percent_encode_cp in_c0_control_set r)).
            { rewrite enc_C0, Hbuf, enc_runes_app. reflexivity. }
            rewrite Eb.
            constructor; unfold mk; cbn [m_state m_ptr m_eof m_buf m_at m_br m_pw m_url st_map st_rel].
            - destruct sm; exact Hs.
            - destruct sm; exact Hp.
            - lia.
            - rewrite points_to_eof_spec. lia.
            - destruct sm; exact Hfl.
            - exists (s ++ utf8_percent_encode_cp in_c0_control_set r).
              destruct sm as [su sst sbuf sa sbr spw sp].
              cbn [SB.m_url SB.m_buffer SB.set_url] in *.
              split; [reflexivity|]. split; [reflexivity|]. split; [exact Hsb|].
              apply R_set_path_opaque. exact Hu.
            - discriminate. }
          rewrite !(percentEncodeInvalidRune_plain c pes_C0 Hsp).
          destruct (negb (isURLCodePoint r) && negb (r =? 37));
            destruct (invalid_pct (rest_from inp p));
            rewrite ?mherr_warn by exact Hfail; apply G; repeat apply R_noted; exact HR.
  Qed.
End States.

Print Assumptions sim_fragment.
Print Assumptions sim_query.
Print Assumptions sim_opaque_path.
