(* More laws of the UTF-8 model, needed to move between the model's byte strings and the standard's
   code-point strings: ASCII bytes are "synchronisation points" of the decoder. *)
From Verif Require Import Lib.Base Lib.Utf8.
From Verif Require Import Proofs.Utf8Proofs.
From Coq Require Import Lia ZifyBool ZifyN ZifyNat.
Ltac Zify.zify_post_hook ::= Z.div_mod_to_equations.

(* ---------- one decoding step, in more detail ---------- *)

Lemma dec1_bad b0 rest b rest' : dec1 b0 rest = (Bad b, rest') -> b = b0 /\ rest' = rest /\ 128 <= b0.
Proof.
  intros H. unfold dec1 in H. cbv zeta in H.
  dec1_split H; inversion H; subst; repeat split; lia.
Qed.

Lemma dec1_bytes b0 rest r rest' : dec1 b0 rest = (r, rest') -> b0 :: rest = rune_bytes r ++ rest'.
Proof.
  intros H. destruct r as [c|b].
  - cbn [rune_bytes]. apply dec1_good. exact H.
  - apply dec1_bad in H. destruct H as [-> [-> _]]. reflexivity.
Qed.

(* a non-ASCII first byte gives a non-ASCII rune *)
Lemma dec1_high b0 rest r rest' : dec1 b0 rest = (r, rest') -> 128 <= b0 -> 128 <= rv r.
Proof.
  intros H Hb. unfold dec1, in_rng, is_cont in H. cbv zeta in H.
  dec1_split H; inversion H; subst; cbn [rv]; unfold rune_error; lia.
Qed.

Lemma dec1_low b0 rest : b0 < 128 -> dec1 b0 rest = (Good b0, rest).
Proof. intros H. unfold dec1. replace (b0 <? 128) with true by lia. reflexivity. Qed.

(* an ASCII byte later in the input does not take part in the decoding of what precedes it *)
Lemma dec1_app_ascii b0 rest a t r rest' : a < 128 ->
  dec1 b0 rest = (r, rest') -> dec1 b0 (rest ++ a :: t) = (r, rest' ++ a :: t).
Proof.
  intros Ha H. unfold dec1, in_rng, is_cont in *. cbv zeta in *.
  destruct (b0 <? 128) eqn:E0.
  { inversion H; subst. reflexivity. }
  destruct ((194 <=? b0) && (b0 <=? 223)) eqn:E1.
  { destruct rest as [|b1 r1].
    - inversion H; subst. cbn [app]. replace ((128 <=? a) && (a <=? 191)) with false by lia. reflexivity.
    - cbn [app]. destruct ((128 <=? b1) && (b1 <=? 191)); inversion H; subst; reflexivity. }
  destruct ((224 <=? b0) && (b0 <=? 239)) eqn:E2.
  { destruct rest as [|b1 [|b2 r2]].
    - inversion H; subst. cbn [app]. destruct t as [|x t'].
      + reflexivity.
      + replace (((if b0 =? 224 then 160 else 128) <=? a) && (a <=? (if b0 =? 237 then 159 else 191))) with false
          by (destruct (b0 =? 224), (b0 =? 237); lia).
        reflexivity.
    - inversion H; subst. cbn [app].
      replace ((128 <=? a) && (a <=? 191)) with false by lia. rewrite andb_false_r. reflexivity.
    - cbn [app].
      destruct (((if b0 =? 224 then 160 else 128) <=? b1) && (b1 <=? (if b0 =? 237 then 159 else 191)) &&
                ((128 <=? b2) && (b2 <=? 191))); inversion H; subst; reflexivity. }
  destruct ((240 <=? b0) && (b0 <=? 244)) eqn:E3.
  { destruct rest as [|b1 [|b2 [|b3 r3]]].
    - inversion H; subst. cbn [app]. destruct t as [|x [|y t']]; try reflexivity.
      replace (((if b0 =? 240 then 144 else 128) <=? a) && (a <=? (if b0 =? 244 then 143 else 191))) with false
        by (destruct (b0 =? 240), (b0 =? 244); lia).
      reflexivity.
    - inversion H; subst. cbn [app]. destruct t as [|x t']; [reflexivity|].
      replace ((128 <=? a) && (a <=? 191)) with false by lia. rewrite andb_false_r. reflexivity.
    - inversion H; subst. cbn [app].
      replace ((128 <=? a) && (a <=? 191)) with false by lia. rewrite andb_false_r. reflexivity.
    - cbn [app].
      destruct (((if b0 =? 240 then 144 else 128) <=? b1) && (b1 <=? (if b0 =? 244 then 143 else 191)) &&
                ((128 <=? b2) && (b2 <=? 191)) && ((128 <=? b3) && (b3 <=? 191))); inversion H; subst; reflexivity. }
  inversion H; subst. reflexivity.
Qed.

Theorem decode_app_ascii s a t : a < 128 -> decode (s ++ a :: t) = decode s ++ decode (a :: t).
Proof.
  intros Ha. induction s as [s IH] using list_len_ind.
  destruct s as [|b0 rest]; [reflexivity|].
  destruct (dec1 b0 rest) as [r rest'] eqn:E.
  cbn [app]. rewrite (decode_cons _ _ _ _ (dec1_app_ascii _ _ a t _ _ Ha E)).
  rewrite (decode_cons _ _ _ _ E). cbn [app]. f_equal. apply IH.
  apply dec1_len in E. cbn [length]. lia.
Qed.

Corollary runes_app_ascii s a t : a < 128 -> runes (s ++ a :: t) = runes s ++ a :: runes t.
Proof.
  intros Ha. unfold runes. rewrite decode_app_ascii by exact Ha. rewrite map_app.
  rewrite decode_ascii_cons by exact Ha. reflexivity.
Qed.

Corollary runes_snoc_ascii s a : a < 128 -> runes (s ++ [a]) = runes s ++ [a].
Proof. intros Ha. rewrite runes_app_ascii by exact Ha. reflexivity. Qed.

Corollary runes_cons_ascii a t : a < 128 -> runes (a :: t) = a :: runes t.
Proof. intros Ha. unfold runes. rewrite decode_ascii_cons by exact Ha. reflexivity. Qed.

Corollary runes_app_ascii_l s t : Forall (fun b => b < 128) s -> runes (s ++ t) = s ++ runes t.
Proof.
  induction 1 as [|b s Hb Hs IH]; [reflexivity|].
  cbn [app]. rewrite runes_cons_ascii by exact Hb. rewrite IH. reflexivity.
Qed.

Corollary valid_app_ascii s a t : a < 128 -> valid_utf8 (s ++ a :: t) = valid_utf8 s && valid_utf8 t.
Proof.
  intros Ha. unfold valid_utf8. rewrite decode_app_ascii by exact Ha. rewrite forallb_app.
  rewrite decode_ascii_cons by exact Ha. reflexivity.
Qed.

(* ---------- the bytes of the decoded runes are the input ---------- *)
Theorem decode_bytes s : flat_map rune_bytes (decode s) = s.
Proof.
  apply (decode_ind (fun s d => flat_map rune_bytes d = s)); [reflexivity|].
  intros b0 rest r rest' E IH. cbn [flat_map]. rewrite IH. symmetry. apply dec1_bytes. exact E.
Qed.

Lemma decode_bad_high s b : In (Bad b) (decode s) -> 128 <= b.
Proof.
  apply (decode_ind (fun s d => In (Bad b) d -> 128 <= b)); [intros []|].
  intros b0 rest r rest' E IH [H|H]; [|exact (IH H)].
  subst r. apply dec1_bad in E. lia.
Qed.

(* ASCII code points of the decoded string are exactly its ASCII bytes *)
Lemma in_runes_low s c : c < 128 -> (In c (runes s) <-> In c s).
Proof.
  intros Hc. unfold runes.
  apply (decode_ind (fun s d => In c (map rv d) <-> In c s)); [reflexivity|].
  intros b0 rest r rest' E IH. rewrite (dec1_bytes _ _ _ _ E). cbn [map].
  rewrite in_app_iff. cbn [In]. rewrite IH.
  assert (G : rv r = c <-> In c (rune_bytes r)); [|tauto].
  destruct r as [x|b]; cbn [rv rune_bytes].
  - split.
    + intros ->. rewrite utf8_enc_ascii by exact Hc. left. reflexivity.
    + intros Hin. pose proof (utf8_enc_high_iff x c Hin) as G.
      assert (Hx : x < 128) by lia. rewrite utf8_enc_ascii in Hin by exact Hx.
      destruct Hin as [->|[]]. reflexivity.
  - apply dec1_bad in E. destruct E as [-> [_ Hb]]. unfold rune_error. split.
    + intros <-. lia.
    + intros [->|[]]. lia.
Qed.

(* all-ASCII decoded string = all-ASCII byte string *)
Lemma runes_low_iff s : Forall (fun c => c < 128) (runes s) <-> Forall (fun b => b < 128) s.
Proof.
  unfold runes.
  apply (decode_ind (fun s d => Forall (fun c => c < 128) (map rv d) <-> Forall (fun b => b < 128) s)).
  - split; constructor.
  - intros b0 rest r rest' E IH. cbn [map]. split.
    + intros H. inversion H as [|x l Hr Hl]; subst.
      destruct (N.lt_ge_cases b0 128) as [Hlt|Hge].
      * rewrite (dec1_low b0 rest Hlt) in E. inversion E; subst. constructor; [exact Hlt|]. apply IH. exact Hl.
      * pose proof (dec1_high _ _ _ _ E Hge). lia.
    + intros H. inversion H as [|x l Hb Hl]; subst.
      rewrite (dec1_low b0 rest Hb) in E. inversion E; subst. constructor; [exact Hb|]. apply IH. exact Hl.
Qed.

(* ---------- the last rune ---------- *)
Lemma last_opt_app_nonnil {A} (a b : list A) : b <> [] -> last_opt (a ++ b) = last_opt b.
Proof.
  intros Hb. induction a as [|x a IH]; [reflexivity|].
  cbn [app]. destruct (a ++ b) as [|y l] eqn:E.
  - destruct a; [cbn [app] in E; congruence|discriminate].
  - cbn [last_opt]. exact IH.
Qed.

Lemma last_opt_snoc {A} (a : list A) (x : A) : last_opt (a ++ [x]) = Some x.
Proof. rewrite last_opt_app_nonnil by discriminate. reflexivity. Qed.

Lemma last_opt_none {A} (l : list A) : last_opt l = None -> l = [].
Proof.
  induction l as [|x l IH]; [reflexivity|]. destruct l as [|y l]; [discriminate|].
  cbn [last_opt]. intros H. specialize (IH H). discriminate.
Qed.

Lemma last_opt_some_snoc {A} (l : list A) x : last_opt l = Some x -> exists l', l = l' ++ [x].
Proof.
  induction l as [|y l IH]; [discriminate|]. destruct l as [|z l].
  - cbn [last_opt]. intros [= ->]. exists []. reflexivity.
  - cbn [last_opt]. intros H. destruct (IH H) as [l' E]. exists (y :: l'). cbn [app]. rewrite <- E. reflexivity.
Qed.

(* the last rune of a non-empty string is the last byte if that is ASCII, and non-ASCII otherwise *)
Theorem last_rune s a : last_opt s = Some a ->
  exists r, last_opt (runes s) = Some r /\ (a < 128 -> r = a) /\ (128 <= a -> 128 <= r).
Proof.
  unfold runes. revert a.
  apply (decode_ind (fun s d => forall a, last_opt s = Some a ->
           exists r, last_opt (map rv d) = Some r /\ (a < 128 -> r = a) /\ (128 <= a -> 128 <= r))).
  - intros a H. discriminate.
  - intros b0 rest r rest' E IH a Ha. rewrite (dec1_bytes _ _ _ _ E) in Ha.
    destruct rest' as [|y rest''].
    + rewrite app_nil_r in Ha. rewrite decode_nil. cbn [map last_opt]. exists (rv r). split; [reflexivity|].
      destruct r as [c|b]; cbn [rune_bytes rv] in *.
      * destruct (last_opt_some_snoc _ _ Ha) as [l' El].
        assert (Hin : In a (utf8_enc c)) by (rewrite El; apply in_or_app; right; left; reflexivity).
        pose proof (utf8_enc_high_iff c a Hin) as G. split; [|lia].
        intros Hlt. assert (Hc : c < 128) by lia. rewrite utf8_enc_ascii in Hin by exact Hc.
        destruct Hin as [->|[]]. reflexivity.
      * apply dec1_bad in E. destruct E as [-> [_ Hb]]. cbn [last_opt] in Ha. inversion Ha; subst.
        unfold rune_error. split; lia.
    + rewrite last_opt_app_nonnil in Ha by discriminate.
      destruct (IH a Ha) as [r' [Hl Hr]]. exists r'. split; [|exact Hr].
      cbn [map]. destruct (map rv (decode (y :: rest''))) as [|z l] eqn:Em; [discriminate|].
      cbn [last_opt]. exact Hl.
Qed.

Corollary last_rune_ascii s a : a < 128 -> (last_opt (runes s) = Some a <-> last_opt s = Some a).
Proof.
  intros Ha. split; intros H.
  - destruct (last_opt s) as [b|] eqn:E.
    + destruct (last_rune s b E) as [r [Hr [H1 H2]]]. rewrite Hr in H. inversion H; subst.
      destruct (N.lt_ge_cases b 128) as [Hlt|Hge]; [rewrite H1 by exact Hlt; reflexivity|].
      specialize (H2 Hge). lia.
    + apply last_opt_none in E. subst s. discriminate.
  - destruct (last_rune s a H) as [r [Hr [H1 _]]]. rewrite Hr, H1 by exact Ha. reflexivity.
Qed.

(* ---------- ASCII-only removals commute with encoding ---------- *)
Section Filter.
  Variable p : N -> bool.
  Hypothesis p_high : forall b, 128 <= b -> p b = true.

  Lemma filter_all_true (l : list N) : (forall x, In x l -> p x = true) -> filter p l = l.
  Proof.
    induction l as [|x l IH]; intros H; [reflexivity|].
    cbn [filter]. rewrite (H x) by (left; reflexivity). f_equal. apply IH. intros y Hy. apply H. right. exact Hy.
  Qed.

  Lemma filter_encode_runes l : filter p (encode_runes l) = encode_runes (filter p l).
  Proof.
    unfold encode_runes. induction l as [|c l IH]; [reflexivity|].
    cbn [flat_map]. rewrite filter_app, IH.
    destruct (N.lt_ge_cases c 128) as [Hlt|Hge].
    - rewrite utf8_enc_ascii by exact Hlt. cbn [filter]. destruct (p c); [|reflexivity].
      cbn [flat_map]. rewrite utf8_enc_ascii by exact Hlt. reflexivity.
    - cbn [filter]. rewrite (p_high c Hge). cbn [flat_map]. f_equal.
      apply filter_all_true. intros x Hx. apply p_high.
      pose proof (utf8_enc_high c Hge) as G. rewrite Forall_forall in G. exact (G x Hx).
  Qed.

  Lemma Forall_filter {A} (P : A -> Prop) (f : A -> bool) l : Forall P l -> Forall P (filter f l).
  Proof.
    induction 1 as [|x l Hx Hl IH]; [constructor|]. cbn [filter]. destruct (f x); [constructor; assumption|exact IH].
  Qed.

  Theorem runes_filter_to_valid s : runes (filter p (to_valid s)) = filter p (runes s).
  Proof.
    unfold to_valid. rewrite filter_encode_runes. apply runes_encode_runes.
    apply Forall_filter. apply runes_scalar.
  Qed.

  (* when nothing is removed from the bytes, nothing is removed from the code points *)
  Theorem filter_runes_unchanged s : filter p s = s -> filter p (runes s) = runes s.
  Proof.
    intros H. apply filter_all_true. intros c Hc.
    destruct (N.lt_ge_cases c 128) as [Hlt|Hge]; [|apply p_high; exact Hge].
    apply (in_runes_low s c Hlt) in Hc. rewrite <- H in Hc. apply filter_In in Hc. tauto.
  Qed.
End Filter.

(* a predicate that holds only of ASCII values sees the same in the bytes and in the code points *)
Lemma existsb_runes_low (q : N -> bool) s : (forall b, 128 <= b -> q b = false) ->
  existsb q (runes s) = existsb q s.
Proof.
  intros Hq. apply eq_true_iff_eq. rewrite !existsb_exists. split; intros [x [Hin Hx]]; exists x; split; try exact Hx.
  - destruct (N.lt_ge_cases x 128) as [Hlt|Hge]; [apply (in_runes_low s x Hlt); exact Hin|].
    rewrite (Hq x Hge) in Hx. discriminate.
  - destruct (N.lt_ge_cases x 128) as [Hlt|Hge]; [apply (in_runes_low s x Hlt); exact Hin|].
    rewrite (Hq x Hge) in Hx. discriminate.
Qed.

Print Assumptions decode_app_ascii.
Print Assumptions last_rune.
Print Assumptions runes_filter_to_valid.
