(* Round trip, part 5 (S5): the scheme file, "file://host/path?query#fragment"; and the two corollaries of
   [roundtrip_host_nonfile] named in the plan (special non-file, non-special with a host). *)
From Verif Require Import Lib.Base Lib.Utf8 Lib.GoStr Model.Cfg Gen.Tables Gen.Options Model.Sets Model.Percent
  Model.Url Model.Host Model.Machine Model.Api Model.Preds.
From Verif Require Import Proofs.SetsProofs Proofs.Cleaning Proofs.PhaseLemmas Proofs.RecordInv
  Proofs.RoundTripBase Proofs.RoundTripPhases Proofs.RoundTripOpaque Proofs.RoundTripHostless Proofs.RoundTripSpecial.
From Coq Require Import Lia ZifyBool ZifyN ZifyNat.

Local Arguments N.mul : simpl never.
Local Arguments N.add : simpl never.
Local Arguments N.sub : simpl never.
Local Arguments N.eqb : simpl never.
Local Arguments N.ltb : simpl never.
Local Arguments N.leb : simpl never.

Lemma hscan_fh : forall h br, hscan true br h = true -> forallb (fun x => x <? 128) h = true -> forallb fh_char h = true.
Proof.
  induction h as [|x h IH]; intros br Hs Hl; [reflexivity|].
  cbn [hscan] in Hs. apply andb_true_iff in Hs. destruct Hs as [Hs Hs3].
  apply andb_true_iff in Hs. destruct Hs as [_ Hs2]. apply negb_true_iff in Hs2. cbn [andb] in Hs2.
  cbn [forallb] in Hl. apply andb_true_iff in Hl. destruct Hl as [Hx Hl].
  cbn [forallb]. rewrite (IH _ Hs3 Hl), andb_true_r. unfold fh_char. rewrite Hx, andb_true_r.
  apply negb_true_iff. clear - Hs2. lia.
Qed.

Lemma host_not_drive h : host_ok true h = true -> hscan true false h = true -> isWindowsDriveLetter h = false.
Proof.
  intros Hok Hs. destruct h as [|a [|b [|x r]]]; try reflexivity.
  unfold isWindowsDriveLetter. destruct (isAlpha a) eqn:Ea; [|reflexivity]. cbn [andb].
  assert (Ha91 : (a =? 91) = false).
  { destruct (a =? 91) eqn:E; [|reflexivity]. apply N.eqb_eq in E. subst a. discriminate Ea. }
  apply orb_false_iff. split.
  - cbn [hscan] in Hs. rewrite Ha91 in Hs.
    destruct (b =? 58) eqn:E; [|reflexivity]. exfalso.
    destruct (a =? 93); cbn [negb andb] in Hs; rewrite !andb_false_r in Hs; rewrite ?andb_false_l in Hs; discriminate Hs.
  - destruct (b =? 124) eqn:E; [|reflexivity]. exfalso. apply N.eqb_eq in E. subst b.
    unfold host_ok in Hok. apply orb_true_iff in Hok. destruct Hok as [Hb|Hf].
    + unfold is_bracketed in Hb. destruct a as [|pa]; [discriminate|].
      do 7 (destruct pa as [pa|pa|]; try discriminate Hb).
    + apply andb_true_iff in Hf. destruct Hf as [Hf _]. apply andb_true_iff in Hf. destruct Hf as [Hf _].
      cbn [forallb] in Hf. apply andb_true_iff in Hf. destruct Hf as [_ Hf]. discriminate Hf.
Qed.

Lemma step_filehost_end idna_raw c (Hrep : c_report c = false) (Hfail : c_fail c = false) inp p h a br pw u l :
  (-1 <= p)%Z -> rest_from inp (p + 1) = 47 :: l -> isWindowsDriveLetter h = false ->
  parseHost idna_raw c u h (negb (IsSpecialScheme c u)) = Ok u h -> str_eqb h s_localhost = false ->
  step idna_raw c inp None None (mk FileHost p false h a br pw u) =
  Cont (mk PathStart (p + 1 - 1) false [] a br pw (set_host u (Some h))).
Proof.
  intros Hp Hr Hd Hph Hl. destruct h as [|x h].
  - apply (step_filehost_empty idna_raw c Hrep Hfail inp p a br pw u l Hp Hr).
  - apply (step_filehost_host idna_raw c Hrep Hfail inp p (x :: h) a br pw u l (x :: h) Hp Hr Hd eq_refl Hph Hl).
Qed.

Section File.
  Variable idna_raw : str -> str * bool.
  Variable c : cfg.
  Hypothesis R : CfgRT c.

  Let Hrep := R_rep c R.
  Let Hfail := R_fail c R.

  Theorem roundtrip_file u s :
    Inv c u -> str_eqb (u_scheme u) s_file = true ->
    stable_b c u = true -> host_fixed idna_raw c u -> Href u false = Some s ->
    Parse idna_raw c s = PUrl (rt_url u s).
  Proof.
    intros Hi Hfile Hst Hfix Hh.
    pose proof Hfile as Esch. apply str_eqb_eq in Esch.
    assert (Hsp : IsSpecialScheme c u = true) by (unfold IsSpecialScheme; rewrite Esch; apply (R_file c R)).
    destruct (I_special _ _ Hi Hsp) as [Ho [Hpne [h [Eh _]]]].
    destruct (I_nocred _ _ Hi (or_intror (or_intror Hfile))) as [Huser [Hpass Hport]].
    pose proof (host_facts idna_raw c u h R Hi Ho Eh Hst Hfix) as HF.
    destruct (HF_file _ _ _ HF Hfile) as [Hdrive Hnl].
    pose proof (I_scheme _ _ Hi) as Hsch.
    destruct (I_host _ _ Hi h Eh) as [Hok _]. rewrite Hsp in Hok.
    pose proof (HF_scan _ _ _ HF) as Hscan. rewrite Hsp in Hscan.
    (* the serialization *)
    rewrite (Href_eq u false (flat_map (fun s => 47 :: s) (u_path u))) in Hh
      by (unfold Pathname, path_string; rewrite Ho; reflexivity).
    injection Hh as Hs. rewrite (auth_part_eq u h Eh), Huser, Hpass, Hport in Hs.
    cbn [cred_part port_part is_nil negb orb] in Hs.
    set (oq := u_query u) in *. set (of := u_fragment u) in *.
    change (q_part u) with (q_tail oq) in Hs. change (f_part u) with (f_tail of) in Hs.
    set (pn := flat_map (fun s => 47 :: s) (u_path u)) in *.
    assert (Hs' : s = u_scheme u ++ 58 :: 47 :: 47 :: h ++ pn ++ q_tail oq ++ f_tail of).
    { rewrite <- Hs. cbn [app]. rewrite app_nil_r. reflexivity. }
    clear Hs.
    assert (Hq : forall q, oq = Some q -> none_in (queryset c u) q = true).
    { intros q E. apply (I_query _ _ Hi q E). }
    assert (Hf : forall f, of = Some f -> none_in (fragset c u) f = true).
    { intros f E. apply (I_frag _ _ Hi f E). }
    destruct (scheme_ok_vis _ Hsch) as [Sne [Svis Shd]].
    (* the input is clean: the path is not empty *)
    assert (Hpnv : forallb vis pn = true) by apply (pathname_vis c _ R (I_path _ _ Hi Ho)).
    assert (Hqv : forallb vis (q_tail oq) = true) by apply (q_tail_vis c u R Hi).
    assert (Hfv : forallb vis (f_tail of) = true) by apply (f_tail_vis c u R Hi).
    assert (Hpnne : exists l, pn = 47 :: l).
    { unfold pn. destruct (u_path u) as [|s1 r]; [congruence|]. cbn [flat_map app]. eexists. reflexivity. }
    destruct Hpnne as [pl Epn].
    assert (Hprint : forallb printable s = true).
    { rewrite Hs', forallb_app. cbn [forallb]. rewrite !forallb_app.
      rewrite (forallb_vis_printable _ Svis), (HF_print _ _ _ HF), (forallb_vis_printable _ Hpnv),
        (forallb_vis_printable _ Hqv), (forallb_vis_printable _ Hfv). reflexivity. }
    assert (Hne : s <> []). { rewrite Hs'. destruct (u_scheme u); [congruence|discriminate]. }
    assert (Hhd : vis (hd 0 s) = true). { rewrite Hs'. destruct (u_scheme u); [congruence|exact Shd]. }
    assert (Hlast : vis (last s 0) = true).
    { rewrite Hs'.
      replace (u_scheme u ++ 58 :: 47 :: 47 :: h ++ pn ++ q_tail oq ++ f_tail of)
        with ((u_scheme u ++ 58 :: 47 :: 47 :: h) ++ (pn ++ q_tail oq ++ f_tail of))
        by (rewrite <- app_assoc; reflexivity).
      apply last_app_vis.
      - rewrite Epn. discriminate.
      - rewrite !forallb_app, Hpnv, Hqv, Hfv. reflexivity. }
    apply (Parse_of_finishes idna_raw c s _ Hrep Hfail Hne Hprint Hhd Hlast).
    (* the run *)
    assert (Hr0 : rest_from (map Good s) 0 = u_scheme u ++ 58 :: 47 :: 47 :: h ++ pn ++ q_tail oq ++ f_tail of).
    { rewrite rest_map_good. exact Hs'. }
    destruct (scheme_colon_reach idna_raw c Hrep Hfail _ _ _ (empty_url s) Hr0 Hsch) as [p [Hp [Hr1 Hreach]]].
    eapply (reaches_finishes idna_raw c Hrep Hfail); [exact Hreach|].
    destruct (rest_uncons _ (p + 1)%Z _ _ ltac:(blia) Hr1) as [_ [Hr2 _]].
    destruct (rest_uncons _ (p + 1 + 1)%Z _ _ ltac:(blia) Hr2) as [_ [Hr3 _]].
    destruct (rest_uncons _ (p + 1 + 1 + 1)%Z _ _ ltac:(blia) Hr3) as [_ [Hr4 _]].
    eapply (reaches_finishes idna_raw c Hrep Hfail).
    { eapply (reaches_step idna_raw c Hrep Hfail).
      - rewrite (step_scheme_colon idna_raw c Hrep Hfail _ p _ _ _ _ _ _ ltac:(blia) Hr1). rewrite Hfile. reflexivity.
      - reflexivity. }
    eapply (reaches_finishes idna_raw c Hrep Hfail).
    { eapply (reaches_step idna_raw c Hrep Hfail);
        [apply (step_file_slash idna_raw c Hrep Hfail _ (p + 1)%Z _ _ _ _ _ _ ltac:(blia) Hr2)|reflexivity]. }
    eapply (reaches_finishes idna_raw c Hrep Hfail).
    { eapply (reaches_step idna_raw c Hrep Hfail);
        [apply (step_fileslash_slash idna_raw c Hrep Hfail _ (p + 1 + 1)%Z _ _ _ _ _ _ ltac:(blia) Hr3)|reflexivity]. }
    set (u1 := set_host (set_scheme (set_scheme (empty_url s) (u_scheme u)) s_file) (Some [])) in *.
    eapply (reaches_finishes idna_raw c Hrep Hfail).
    { apply (filehost_loop idna_raw c Hrep Hfail _ h (p + 1 + 1 + 1)%Z [] false false false u1 _ ltac:(blia) Hr4).
      apply (hscan_fh h false Hscan (HF_small _ _ _ HF)). }
    cbn [app].
    pose proof (rest_app _ (p + 1 + 1 + 1 + 1)%Z h _ ltac:(blia) Hr4) as Hr5.
    pose proof (len_nonneg h) as Hlh.
    replace (p + 1 + 1 + 1 + 1 + len h)%Z with (p + 1 + 1 + 1 + len h + 1)%Z in Hr5 by ring.
    assert (Hsp1 : IsSpecialScheme c u1 = true) by apply (R_file c R).
    (* the end of the host *)
    assert (Hhost : reaches idna_raw c (map Good s) (mk FileHost (p + 1 + 1 + 1 + len h) false h false false false u1)
                      (mk PathStart (p + 1 + 1 + 1 + len h) false [] false false false (set_host u1 (Some h)))).
    { rewrite Epn in Hr5. cbn [app] in Hr5. eapply (reaches_eq idna_raw c Hrep Hfail).
      - eapply (reaches_step idna_raw c Hrep Hfail);
          [apply (step_filehost_end idna_raw c Hrep Hfail _ (p + 1 + 1 + 1 + len h)%Z h _ _ _ u1 _ ltac:(blia) Hr5
                    (host_not_drive _ Hok Hscan));
           [rewrite Hsp1; specialize (Hfix _ Eh u1); rewrite Hsp in Hfix; exact Hfix|exact Hnl]
          |reflexivity].
      - f_equal. ring. }
    eapply (reaches_finishes idna_raw c Hrep Hfail); [exact Hhost|]. clear Hhost.
    eapply (finishes_eq idna_raw c Hrep Hfail).
    { apply (pathstart_tail idna_raw c R _ (p + 1 + 1 + 1 + len h)%Z false false false _ (u_path u) oq of ltac:(blia) Hr5).
      - reflexivity.
      - reflexivity.
      - intros E. exfalso. exact (Hpne E).
      - change (IsSpecialScheme c (set_host u1 (Some h))) with (IsSpecialScheme c u1). rewrite Hsp1.
        pose proof (HF_segs _ _ _ HF) as Hg. rewrite Hsp in Hg. exact Hg.
      - intros seg r Epath _ E3 E4. unfold drive_ok in Hdrive. rewrite Epath, E3, E4 in Hdrive. exact Hdrive.
      - intros q E. replace (queryset c (set_host u1 (Some h))) with (queryset c u); [apply Hq; exact E|].
        unfold queryset. rewrite Esch. reflexivity.
      - intros f E. replace (fragset c (set_host u1 (Some h))) with (fragset c u); [apply Hf; exact E|].
        unfold fragset. rewrite Esch. reflexivity. }
    unfold rt_url. fold oq of. rewrite Eh, Ho, Huser, Hpass, Hport, (HF_dp _ _ _ HF Hport), Esch.
    destruct oq, of; reflexivity.
  Qed.

  (* S4 *)
  Theorem roundtrip_special u s :
    Inv c u -> IsSpecialScheme c u = true -> str_eqb (u_scheme u) s_file = false ->
    stable_b c u = true -> host_fixed idna_raw c u -> Href u false = Some s ->
    Parse idna_raw c s = PUrl (rt_url u s).
  Proof.
    intros Hi Hsp Hnf Hst Hfix Hh. destruct (I_special _ _ Hi Hsp) as [Ho [_ [h [Eh _]]]].
    apply (roundtrip_host_nonfile idna_raw c R u s Hi Ho); try assumption. rewrite Eh. discriminate.
  Qed.

  (* S5, first half *)
  Theorem roundtrip_nonspecial_host u s :
    Inv c u -> IsSpecialScheme c u = false -> u_host u <> None ->
    stable_b c u = true -> host_fixed idna_raw c u -> Href u false = Some s ->
    Parse idna_raw c s = PUrl (rt_url u s).
  Proof.
    intros Hi Hsp Hhost Hst Hfix Hh.
    assert (Ho : u_opaque u = false).
    { destruct (u_opaque u) eqn:E; [|reflexivity]. destruct (I_opaque _ _ Hi E) as [E' _]. congruence. }
    apply (roundtrip_host_nonfile idna_raw c R u s Hi Ho Hhost); try assumption.
    destruct (str_eqb (u_scheme u) s_file) eqn:E; [|reflexivity]. apply str_eqb_eq in E.
    unfold IsSpecialScheme in Hsp. rewrite E, (R_file c R) in Hsp. discriminate.
  Qed.
End File.

Print Assumptions roundtrip_file.
Print Assumptions roundtrip_special.
Print Assumptions roundtrip_nonspecial_host.
