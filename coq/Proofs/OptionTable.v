(* C16: which field of parserOptions each public option constructor writes, and nothing else.
   Gen/Options.v holds, regenerated from /repo on every run, the options struct that
   NewParser(<single option>) produces; each must be the default options with exactly the documented
   field replaced. A constructor writing the wrong field (or two fields) breaks an equation here. *)
From Verif Require Import Lib.Base Model.Cfg Gen.Tables Gen.Options.

Definition with_report (c : cfg) (v : bool) : cfg := {| c_report := v; c_fail := c_fail c; c_lax := c_lax c; c_collapse := c_collapse c; c_acceptInvalid := c_acceptInvalid c; c_pre := c_pre c; c_post := c_post c; c_singlePct := c_singlePct c; c_allowPathNonBase := c_allowPathNonBase c; c_skipDrive := c_skipDrive c; c_special := c_special c; c_skipTrailSlash := c_skipTrailSlash c; c_latin1 := c_latin1 c; c_pathSet := c_pathSet c; c_squerySet := c_squerySet c; c_querySet := c_querySet c; c_sfragSet := c_sfragSet c; c_fragSet := c_fragSet c; c_skipEq := c_skipEq c |}.
Definition with_fail (c : cfg) (v : bool) : cfg := {| c_report := c_report c; c_fail := v; c_lax := c_lax c; c_collapse := c_collapse c; c_acceptInvalid := c_acceptInvalid c; c_pre := c_pre c; c_post := c_post c; c_singlePct := c_singlePct c; c_allowPathNonBase := c_allowPathNonBase c; c_skipDrive := c_skipDrive c; c_special := c_special c; c_skipTrailSlash := c_skipTrailSlash c; c_latin1 := c_latin1 c; c_pathSet := c_pathSet c; c_squerySet := c_squerySet c; c_querySet := c_querySet c; c_sfragSet := c_sfragSet c; c_fragSet := c_fragSet c; c_skipEq := c_skipEq c |}.
Definition with_lax (c : cfg) (v : bool) : cfg := {| c_report := c_report c; c_fail := c_fail c; c_lax := v; c_collapse := c_collapse c; c_acceptInvalid := c_acceptInvalid c; c_pre := c_pre c; c_post := c_post c; c_singlePct := c_singlePct c; c_allowPathNonBase := c_allowPathNonBase c; c_skipDrive := c_skipDrive c; c_special := c_special c; c_skipTrailSlash := c_skipTrailSlash c; c_latin1 := c_latin1 c; c_pathSet := c_pathSet c; c_squerySet := c_squerySet c; c_querySet := c_querySet c; c_sfragSet := c_sfragSet c; c_fragSet := c_fragSet c; c_skipEq := c_skipEq c |}.
Definition with_collapse (c : cfg) (v : bool) : cfg := {| c_report := c_report c; c_fail := c_fail c; c_lax := c_lax c; c_collapse := v; c_acceptInvalid := c_acceptInvalid c; c_pre := c_pre c; c_post := c_post c; c_singlePct := c_singlePct c; c_allowPathNonBase := c_allowPathNonBase c; c_skipDrive := c_skipDrive c; c_special := c_special c; c_skipTrailSlash := c_skipTrailSlash c; c_latin1 := c_latin1 c; c_pathSet := c_pathSet c; c_squerySet := c_squerySet c; c_querySet := c_querySet c; c_sfragSet := c_sfragSet c; c_fragSet := c_fragSet c; c_skipEq := c_skipEq c |}.
Definition with_acceptInvalid (c : cfg) (v : bool) : cfg := {| c_report := c_report c; c_fail := c_fail c; c_lax := c_lax c; c_collapse := c_collapse c; c_acceptInvalid := v; c_pre := c_pre c; c_post := c_post c; c_singlePct := c_singlePct c; c_allowPathNonBase := c_allowPathNonBase c; c_skipDrive := c_skipDrive c; c_special := c_special c; c_skipTrailSlash := c_skipTrailSlash c; c_latin1 := c_latin1 c; c_pathSet := c_pathSet c; c_squerySet := c_squerySet c; c_querySet := c_querySet c; c_sfragSet := c_sfragSet c; c_fragSet := c_fragSet c; c_skipEq := c_skipEq c |}.
Definition with_pre (c : cfg) (v : hostfun) : cfg := {| c_report := c_report c; c_fail := c_fail c; c_lax := c_lax c; c_collapse := c_collapse c; c_acceptInvalid := c_acceptInvalid c; c_pre := v; c_post := c_post c; c_singlePct := c_singlePct c; c_allowPathNonBase := c_allowPathNonBase c; c_skipDrive := c_skipDrive c; c_special := c_special c; c_skipTrailSlash := c_skipTrailSlash c; c_latin1 := c_latin1 c; c_pathSet := c_pathSet c; c_squerySet := c_squerySet c; c_querySet := c_querySet c; c_sfragSet := c_sfragSet c; c_fragSet := c_fragSet c; c_skipEq := c_skipEq c |}.
Definition with_post (c : cfg) (v : hostfun) : cfg := {| c_report := c_report c; c_fail := c_fail c; c_lax := c_lax c; c_collapse := c_collapse c; c_acceptInvalid := c_acceptInvalid c; c_pre := c_pre c; c_post := v; c_singlePct := c_singlePct c; c_allowPathNonBase := c_allowPathNonBase c; c_skipDrive := c_skipDrive c; c_special := c_special c; c_skipTrailSlash := c_skipTrailSlash c; c_latin1 := c_latin1 c; c_pathSet := c_pathSet c; c_squerySet := c_squerySet c; c_querySet := c_querySet c; c_sfragSet := c_sfragSet c; c_fragSet := c_fragSet c; c_skipEq := c_skipEq c |}.
Definition with_singlePct (c : cfg) (v : bool) : cfg := {| c_report := c_report c; c_fail := c_fail c; c_lax := c_lax c; c_collapse := c_collapse c; c_acceptInvalid := c_acceptInvalid c; c_pre := c_pre c; c_post := c_post c; c_singlePct := v; c_allowPathNonBase := c_allowPathNonBase c; c_skipDrive := c_skipDrive c; c_special := c_special c; c_skipTrailSlash := c_skipTrailSlash c; c_latin1 := c_latin1 c; c_pathSet := c_pathSet c; c_squerySet := c_squerySet c; c_querySet := c_querySet c; c_sfragSet := c_sfragSet c; c_fragSet := c_fragSet c; c_skipEq := c_skipEq c |}.
Definition with_allowPathNonBase (c : cfg) (v : bool) : cfg := {| c_report := c_report c; c_fail := c_fail c; c_lax := c_lax c; c_collapse := c_collapse c; c_acceptInvalid := c_acceptInvalid c; c_pre := c_pre c; c_post := c_post c; c_singlePct := c_singlePct c; c_allowPathNonBase := v; c_skipDrive := c_skipDrive c; c_special := c_special c; c_skipTrailSlash := c_skipTrailSlash c; c_latin1 := c_latin1 c; c_pathSet := c_pathSet c; c_squerySet := c_squerySet c; c_querySet := c_querySet c; c_sfragSet := c_sfragSet c; c_fragSet := c_fragSet c; c_skipEq := c_skipEq c |}.
Definition with_skipDrive (c : cfg) (v : bool) : cfg := {| c_report := c_report c; c_fail := c_fail c; c_lax := c_lax c; c_collapse := c_collapse c; c_acceptInvalid := c_acceptInvalid c; c_pre := c_pre c; c_post := c_post c; c_singlePct := c_singlePct c; c_allowPathNonBase := c_allowPathNonBase c; c_skipDrive := v; c_special := c_special c; c_skipTrailSlash := c_skipTrailSlash c; c_latin1 := c_latin1 c; c_pathSet := c_pathSet c; c_squerySet := c_squerySet c; c_querySet := c_querySet c; c_sfragSet := c_sfragSet c; c_fragSet := c_fragSet c; c_skipEq := c_skipEq c |}.
Definition with_special (c : cfg) (v : list (str * str)) : cfg := {| c_report := c_report c; c_fail := c_fail c; c_lax := c_lax c; c_collapse := c_collapse c; c_acceptInvalid := c_acceptInvalid c; c_pre := c_pre c; c_post := c_post c; c_singlePct := c_singlePct c; c_allowPathNonBase := c_allowPathNonBase c; c_skipDrive := c_skipDrive c; c_special := v; c_skipTrailSlash := c_skipTrailSlash c; c_latin1 := c_latin1 c; c_pathSet := c_pathSet c; c_squerySet := c_squerySet c; c_querySet := c_querySet c; c_sfragSet := c_sfragSet c; c_fragSet := c_fragSet c; c_skipEq := c_skipEq c |}.
Definition with_skipTrailSlash (c : cfg) (v : bool) : cfg := {| c_report := c_report c; c_fail := c_fail c; c_lax := c_lax c; c_collapse := c_collapse c; c_acceptInvalid := c_acceptInvalid c; c_pre := c_pre c; c_post := c_post c; c_singlePct := c_singlePct c; c_allowPathNonBase := c_allowPathNonBase c; c_skipDrive := c_skipDrive c; c_special := c_special c; c_skipTrailSlash := v; c_latin1 := c_latin1 c; c_pathSet := c_pathSet c; c_squerySet := c_squerySet c; c_querySet := c_querySet c; c_sfragSet := c_sfragSet c; c_fragSet := c_fragSet c; c_skipEq := c_skipEq c |}.
Definition with_latin1 (c : cfg) (v : bool) : cfg := {| c_report := c_report c; c_fail := c_fail c; c_lax := c_lax c; c_collapse := c_collapse c; c_acceptInvalid := c_acceptInvalid c; c_pre := c_pre c; c_post := c_post c; c_singlePct := c_singlePct c; c_allowPathNonBase := c_allowPathNonBase c; c_skipDrive := c_skipDrive c; c_special := c_special c; c_skipTrailSlash := c_skipTrailSlash c; c_latin1 := v; c_pathSet := c_pathSet c; c_squerySet := c_squerySet c; c_querySet := c_querySet c; c_sfragSet := c_sfragSet c; c_fragSet := c_fragSet c; c_skipEq := c_skipEq c |}.
Definition with_pathSet (c : cfg) (v : peset) : cfg := {| c_report := c_report c; c_fail := c_fail c; c_lax := c_lax c; c_collapse := c_collapse c; c_acceptInvalid := c_acceptInvalid c; c_pre := c_pre c; c_post := c_post c; c_singlePct := c_singlePct c; c_allowPathNonBase := c_allowPathNonBase c; c_skipDrive := c_skipDrive c; c_special := c_special c; c_skipTrailSlash := c_skipTrailSlash c; c_latin1 := c_latin1 c; c_pathSet := v; c_squerySet := c_squerySet c; c_querySet := c_querySet c; c_sfragSet := c_sfragSet c; c_fragSet := c_fragSet c; c_skipEq := c_skipEq c |}.
Definition with_squerySet (c : cfg) (v : peset) : cfg := {| c_report := c_report c; c_fail := c_fail c; c_lax := c_lax c; c_collapse := c_collapse c; c_acceptInvalid := c_acceptInvalid c; c_pre := c_pre c; c_post := c_post c; c_singlePct := c_singlePct c; c_allowPathNonBase := c_allowPathNonBase c; c_skipDrive := c_skipDrive c; c_special := c_special c; c_skipTrailSlash := c_skipTrailSlash c; c_latin1 := c_latin1 c; c_pathSet := c_pathSet c; c_squerySet := v; c_querySet := c_querySet c; c_sfragSet := c_sfragSet c; c_fragSet := c_fragSet c; c_skipEq := c_skipEq c |}.
Definition with_querySet (c : cfg) (v : peset) : cfg := {| c_report := c_report c; c_fail := c_fail c; c_lax := c_lax c; c_collapse := c_collapse c; c_acceptInvalid := c_acceptInvalid c; c_pre := c_pre c; c_post := c_post c; c_singlePct := c_singlePct c; c_allowPathNonBase := c_allowPathNonBase c; c_skipDrive := c_skipDrive c; c_special := c_special c; c_skipTrailSlash := c_skipTrailSlash c; c_latin1 := c_latin1 c; c_pathSet := c_pathSet c; c_squerySet := c_squerySet c; c_querySet := v; c_sfragSet := c_sfragSet c; c_fragSet := c_fragSet c; c_skipEq := c_skipEq c |}.
Definition with_sfragSet (c : cfg) (v : peset) : cfg := {| c_report := c_report c; c_fail := c_fail c; c_lax := c_lax c; c_collapse := c_collapse c; c_acceptInvalid := c_acceptInvalid c; c_pre := c_pre c; c_post := c_post c; c_singlePct := c_singlePct c; c_allowPathNonBase := c_allowPathNonBase c; c_skipDrive := c_skipDrive c; c_special := c_special c; c_skipTrailSlash := c_skipTrailSlash c; c_latin1 := c_latin1 c; c_pathSet := c_pathSet c; c_squerySet := c_squerySet c; c_querySet := c_querySet c; c_sfragSet := v; c_fragSet := c_fragSet c; c_skipEq := c_skipEq c |}.
Definition with_fragSet (c : cfg) (v : peset) : cfg := {| c_report := c_report c; c_fail := c_fail c; c_lax := c_lax c; c_collapse := c_collapse c; c_acceptInvalid := c_acceptInvalid c; c_pre := c_pre c; c_post := c_post c; c_singlePct := c_singlePct c; c_allowPathNonBase := c_allowPathNonBase c; c_skipDrive := c_skipDrive c; c_special := c_special c; c_skipTrailSlash := c_skipTrailSlash c; c_latin1 := c_latin1 c; c_pathSet := c_pathSet c; c_squerySet := c_squerySet c; c_querySet := c_querySet c; c_sfragSet := c_sfragSet c; c_fragSet := v; c_skipEq := c_skipEq c |}.
Definition with_skipEq (c : cfg) (v : bool) : cfg := {| c_report := c_report c; c_fail := c_fail c; c_lax := c_lax c; c_collapse := c_collapse c; c_acceptInvalid := c_acceptInvalid c; c_pre := c_pre c; c_post := c_post c; c_singlePct := c_singlePct c; c_allowPathNonBase := c_allowPathNonBase c; c_skipDrive := c_skipDrive c; c_special := c_special c; c_skipTrailSlash := c_skipTrailSlash c; c_latin1 := c_latin1 c; c_pathSet := c_pathSet c; c_squerySet := c_squerySet c; c_querySet := c_querySet c; c_sfragSet := c_sfragSet c; c_fragSet := c_fragSet c; c_skipEq := v |}.

Definition pwith_removeUserInfo (p : profile) (v : bool) : profile := {| p_cfg := p_cfg p; p_removeUserInfo := v; p_removePort := p_removePort p; p_removeFragment := p_removeFragment p; p_sortQuery := p_sortQuery p; p_repeated := p_repeated p; p_defaultScheme := p_defaultScheme p |}.
Definition pwith_removePort (p : profile) (v : bool) : profile := {| p_cfg := p_cfg p; p_removeUserInfo := p_removeUserInfo p; p_removePort := v; p_removeFragment := p_removeFragment p; p_sortQuery := p_sortQuery p; p_repeated := p_repeated p; p_defaultScheme := p_defaultScheme p |}.
Definition pwith_removeFragment (p : profile) (v : bool) : profile := {| p_cfg := p_cfg p; p_removeUserInfo := p_removeUserInfo p; p_removePort := p_removePort p; p_removeFragment := v; p_sortQuery := p_sortQuery p; p_repeated := p_repeated p; p_defaultScheme := p_defaultScheme p |}.
Definition pwith_sortQuery (p : profile) (v : qsort) : profile := {| p_cfg := p_cfg p; p_removeUserInfo := p_removeUserInfo p; p_removePort := p_removePort p; p_removeFragment := p_removeFragment p; p_sortQuery := v; p_repeated := p_repeated p; p_defaultScheme := p_defaultScheme p |}.
Definition pwith_repeated (p : profile) (v : bool) : profile := {| p_cfg := p_cfg p; p_removeUserInfo := p_removeUserInfo p; p_removePort := p_removePort p; p_removeFragment := p_removeFragment p; p_sortQuery := p_sortQuery p; p_repeated := v; p_defaultScheme := p_defaultScheme p |}.
Definition pwith_defaultScheme (p : profile) (v : str) : profile := {| p_cfg := p_cfg p; p_removeUserInfo := p_removeUserInfo p; p_removePort := p_removePort p; p_removeFragment := p_removeFragment p; p_sortQuery := p_sortQuery p; p_repeated := p_repeated p; p_defaultScheme := v |}.

(* the default options are the standard's: the six special schemes with their default ports, the standard's sets, every relaxation off *)
Lemma default_cfg_is_standard :
  default_cfg = {| c_report := false; c_fail := false; c_lax := false; c_collapse := false; c_acceptInvalid := false;
     c_pre := HF_none; c_post := HF_none; c_singlePct := false; c_allowPathNonBase := false; c_skipDrive := false;
     c_special := [([102;105;108;101], []); ([102;116;112], [50;49]); ([104;116;116;112], [56;48]); ([104;116;116;112;115], [52;52;51]); ([119;115], [56;48]); ([119;115;115], [52;52;51])];
     c_skipTrailSlash := false; c_latin1 := false;
     c_pathSet := pes_Path; c_squerySet := pes_SpecialQuery; c_querySet := pes_Query; c_sfragSet := pes_Fragment; c_fragSet := pes_Fragment;
     c_skipEq := false |}.
Proof. reflexivity. Qed.

Lemma opt_WithReportValidationErrors_field : opt_WithReportValidationErrors = with_report default_cfg true.
Proof. reflexivity. Qed.
Lemma opt_WithFailOnValidationError_field : opt_WithFailOnValidationError = with_fail default_cfg true.
Proof. reflexivity. Qed.
Lemma opt_WithLaxHostParsing_field : opt_WithLaxHostParsing = with_lax default_cfg true.
Proof. reflexivity. Qed.
Lemma opt_WithCollapseConsecutiveSlashes_field : opt_WithCollapseConsecutiveSlashes = with_collapse default_cfg true.
Proof. reflexivity. Qed.
Lemma opt_WithAcceptInvalidCodepoints_field : opt_WithAcceptInvalidCodepoints = with_acceptInvalid default_cfg true.
Proof. reflexivity. Qed.
Lemma opt_WithPercentEncodeSinglePercentSign_field : opt_WithPercentEncodeSinglePercentSign = with_singlePct default_cfg true.
Proof. reflexivity. Qed.
Lemma opt_WithAllowSettingPathForNonBaseUrl_field : opt_WithAllowSettingPathForNonBaseUrl = with_allowPathNonBase default_cfg true.
Proof. reflexivity. Qed.
Lemma opt_WithSkipWindowsDriveLetterNormalization_field : opt_WithSkipWindowsDriveLetterNormalization = with_skipDrive default_cfg true.
Proof. reflexivity. Qed.
Lemma opt_WithSkipTrailingSlashNormalization_field : opt_WithSkipTrailingSlashNormalization = with_skipTrailSlash default_cfg true.
Proof. reflexivity. Qed.
Lemma opt_WithSkipEqualsForEmptySearchParamsValue_field : opt_WithSkipEqualsForEmptySearchParamsValue = with_skipEq default_cfg true.
Proof. reflexivity. Qed.
Lemma opt_WithEncodingOverride_field : opt_WithEncodingOverride = with_latin1 default_cfg true.
Proof. reflexivity. Qed.
Lemma opt_WithSpecialSchemes_field : opt_WithSpecialSchemes = with_special default_cfg [([120], [49])].
Proof. reflexivity. Qed.
Lemma opt_WithPathPercentEncodeSet_field : opt_WithPathPercentEncodeSet = with_pathSet default_cfg sentinel_set.
Proof. reflexivity. Qed.
Lemma opt_WithQueryPercentEncodeSet_field : opt_WithQueryPercentEncodeSet = with_querySet default_cfg sentinel_set.
Proof. reflexivity. Qed.
Lemma opt_WithSpecialQueryPercentEncodeSet_field : opt_WithSpecialQueryPercentEncodeSet = with_squerySet default_cfg sentinel_set.
Proof. reflexivity. Qed.
Lemma opt_WithFragmentPathPercentEncodeSet_field : opt_WithFragmentPathPercentEncodeSet = with_fragSet default_cfg sentinel_set.
Proof. reflexivity. Qed.
Lemma opt_WithSpecialFragmentPathPercentEncodeSet_field : opt_WithSpecialFragmentPathPercentEncodeSet = with_sfragSet default_cfg sentinel_set.
Proof. reflexivity. Qed.
Lemma opt_WithPreParseHostFunc_field : opt_WithPreParseHostFunc = with_pre default_cfg HF_gsb.
Proof. reflexivity. Qed.
Lemma opt_WithPostParseHostFunc_field : opt_WithPostParseHostFunc = with_post default_cfg HF_gsb.
Proof. reflexivity. Qed.

(* a profile built without options is the default parser with every canonicalization step off *)
Lemma prof_none_is_default :
  prof_none = {| p_cfg := default_cfg; p_removeUserInfo := false; p_removePort := false; p_removeFragment := false;
                 p_sortQuery := NoSort; p_repeated := false; p_defaultScheme := [] |}.
Proof. reflexivity. Qed.
Lemma prof_WhatWg_is_none : prof_WhatWg = prof_none.
Proof. reflexivity. Qed.
Lemma prof_WhatWgSortQuery_is : prof_WhatWgSortQuery = pwith_sortQuery prof_none SortKeys.
Proof. reflexivity. Qed.

Lemma copt_WithRemoveUserInfo_field : copt_WithRemoveUserInfo = pwith_removeUserInfo prof_none true.
Proof. reflexivity. Qed.
Lemma copt_WithRemovePort_field : copt_WithRemovePort = pwith_removePort prof_none true.
Proof. reflexivity. Qed.
Lemma copt_WithRemoveFragment_field : copt_WithRemoveFragment = pwith_removeFragment prof_none true.
Proof. reflexivity. Qed.
Lemma copt_WithRepeatedPercentDecoding_field : copt_WithRepeatedPercentDecoding = pwith_repeated prof_none true.
Proof. reflexivity. Qed.
Lemma copt_WithDefaultScheme_field : copt_WithDefaultScheme = pwith_defaultScheme prof_none [120].
Proof. reflexivity. Qed.
Lemma copt_WithSortQuery1_field : copt_WithSortQuery1 = pwith_sortQuery prof_none SortKeys.
Proof. reflexivity. Qed.
Lemma copt_WithSortQuery2_field : copt_WithSortQuery2 = pwith_sortQuery prof_none SortParameter.
Proof. reflexivity. Qed.

(* all equations at once *)
Definition option_table_ok : Prop :=
  opt_WithReportValidationErrors = with_report default_cfg true /\
  opt_WithFailOnValidationError = with_fail default_cfg true /\
  opt_WithLaxHostParsing = with_lax default_cfg true /\
  opt_WithCollapseConsecutiveSlashes = with_collapse default_cfg true /\
  opt_WithAcceptInvalidCodepoints = with_acceptInvalid default_cfg true /\
  opt_WithPercentEncodeSinglePercentSign = with_singlePct default_cfg true /\
  opt_WithAllowSettingPathForNonBaseUrl = with_allowPathNonBase default_cfg true /\
  opt_WithSkipWindowsDriveLetterNormalization = with_skipDrive default_cfg true /\
  opt_WithSkipTrailingSlashNormalization = with_skipTrailSlash default_cfg true /\
  opt_WithSkipEqualsForEmptySearchParamsValue = with_skipEq default_cfg true /\
  opt_WithEncodingOverride = with_latin1 default_cfg true /\
  opt_WithSpecialSchemes = with_special default_cfg [([120], [49])] /\
  opt_WithPathPercentEncodeSet = with_pathSet default_cfg sentinel_set /\
  opt_WithQueryPercentEncodeSet = with_querySet default_cfg sentinel_set /\
  opt_WithSpecialQueryPercentEncodeSet = with_squerySet default_cfg sentinel_set /\
  opt_WithFragmentPathPercentEncodeSet = with_fragSet default_cfg sentinel_set /\
  opt_WithSpecialFragmentPathPercentEncodeSet = with_sfragSet default_cfg sentinel_set /\
  opt_WithPreParseHostFunc = with_pre default_cfg HF_gsb /\
  opt_WithPostParseHostFunc = with_post default_cfg HF_gsb /\
  copt_WithRemoveUserInfo = pwith_removeUserInfo prof_none true /\
  copt_WithRemovePort = pwith_removePort prof_none true /\
  copt_WithRemoveFragment = pwith_removeFragment prof_none true /\
  copt_WithRepeatedPercentDecoding = pwith_repeated prof_none true /\
  copt_WithDefaultScheme = pwith_defaultScheme prof_none [120] /\
  copt_WithSortQuery1 = pwith_sortQuery prof_none SortKeys /\
  copt_WithSortQuery2 = pwith_sortQuery prof_none SortParameter.
Lemma option_table : option_table_ok.
Proof. unfold option_table_ok. repeat split; reflexivity. Qed.
