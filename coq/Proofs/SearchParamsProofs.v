(* SearchParams: the model of url/searchparams.go is an ordered multimap with the list semantics of
   the URL Standard (section 6.2, URLSearchParams), its sort is THE stable sort, the URL record and
   the list of pairs stay in sync, and the application/x-www-form-urlencoded round trip. *)
From Verif Require Import Lib.Base Lib.Utf8 Lib.GoStr Model.Cfg Gen.Tables Gen.Options Model.Sets Model.Percent
  Model.Url Model.Host Model.Machine Model.Api Model.Canon Model.Obs.
From Coq Require Import Lia ZifyBool ZifyN ZifyNat Permutation Sorted.

Local Arguments N.mul : simpl never.
Local Arguments N.add : simpl never.
Local Arguments N.sub : simpl never.
Local Arguments N.div : simpl never.
Local Arguments N.modulo : simpl never.
Local Arguments N.eqb : simpl never.
Local Arguments N.ltb : simpl never.
Local Arguments N.leb : simpl never.

(* ====================================================================================== *)
(* PART 1 - list semantics                                                                *)
(* ====================================================================================== *)

Lemma list_eqb_N_eq : forall a b : str, list_eqb N.eqb a b = true <-> a = b.
Proof.
  induction a as [|x a IH]; intros [|y b]; cbn [list_eqb]; split; intros H;
    try reflexivity; try discriminate.
  - apply andb_true_iff in H. destruct H as [H1 H2].
    apply N.eqb_eq in H1. apply IH in H2. congruence.
  - inversion H; subst. apply andb_true_iff. split; [apply N.eqb_refl | apply IH; reflexivity].
Qed.

Theorem str_eqb_eq : forall a b : str, str_eqb a b = true <-> a = b.
Proof. exact list_eqb_N_eq. Qed.

Lemma str_eqb_refl : forall a, str_eqb a a = true.
Proof. intros a. apply str_eqb_eq. reflexivity. Qed.

Lemma str_eqb_neq : forall a b : str, str_eqb a b = false <-> a <> b.
Proof.
  intros a b. split.
  - intros H E. apply str_eqb_eq in E. congruence.
  - intros H. destruct (str_eqb a b) eqn:E; [apply str_eqb_eq in E; contradiction | reflexivity].
Qed.

Definition str_eq_dec : forall a b : str, {a = b} + {a <> b} := list_eq_dec N.eq_dec.

Lemma str_eqb_dec : forall a b : str, str_eqb a b = if str_eq_dec a b then true else false.
Proof.
  intros a b. destruct (str_eq_dec a b) as [E|E]; [apply str_eqb_eq | apply str_eqb_neq]; exact E.
Qed.

(* ---------- the specification: the list operations of the URL Standard, written with
   propositional (decidable) equality on names and nothing else ---------- *)

Definition named (n : str) (p : pair) : bool := if str_eq_dec (fst p) n then true else false.

Definition spec_append (l : list pair) (n v : str) : list pair := l ++ [(n, v)].

(* "remove all tuples whose name is n" *)
Fixpoint spec_delete (l : list pair) (n : str) : list pair :=
  match l with
  | [] => []
  | p :: l' => if str_eq_dec (fst p) n then spec_delete l' n else p :: spec_delete l' n
  end.

(* "the value of the first tuple whose name is n, if there is such a tuple; otherwise null"
   (the Go API returns "" for null) *)
Fixpoint spec_get (l : list pair) (n : str) : str :=
  match l with
  | [] => []
  | p :: l' => if str_eq_dec (fst p) n then snd p else spec_get l' n
  end.

(* "the values of all tuples whose name is n, in list order" *)
Fixpoint spec_getall (l : list pair) (n : str) : list str :=
  match l with
  | [] => []
  | p :: l' => if str_eq_dec (fst p) n then snd p :: spec_getall l' n else spec_getall l' n
  end.

(* "true if there is a tuple whose name is n" *)
Definition spec_has (l : list pair) (n : str) : Prop := exists v, In (n, v) l.
Definition spec_hasb (l : list pair) (n : str) : bool := existsb (named n) l.

(* (before the first tuple named n, from that tuple on) *)
Fixpoint split_first (n : str) (l : list pair) : list pair * list pair :=
  match l with
  | [] => ([], [])
  | p :: l' => if str_eq_dec (fst p) n then ([], l)
               else let '(a, b) := split_first n l' in (p :: a, b)
  end.

(* "if the list contains tuples named n, set the value of the first such tuple to v and remove
   the others; otherwise append (n, v)" *)
Definition spec_set (l : list pair) (n v : str) : list pair :=
  if spec_hasb l n
  then let '(a, b) := split_first n l in a ++ (n, v) :: spec_delete (tl b) n
  else l ++ [(n, v)].

(* ---------- model = spec ---------- *)

Theorem sp_append_spec : forall l n v, sp_append l n v = spec_append l n v.
Proof. reflexivity. Qed.

Theorem sp_delete_spec : forall l n, sp_delete l n = spec_delete l n.
Proof.
  intros l n. unfold sp_delete. induction l as [|p l IH]; [reflexivity|].
  cbn [filter spec_delete]. rewrite str_eqb_dec.
  destruct (str_eq_dec (fst p) n); cbn [negb]; [exact IH | rewrite IH; reflexivity].
Qed.

Theorem sp_get_spec : forall l n, sp_get l n = spec_get l n.
Proof.
  intros l n. unfold sp_get. induction l as [|p l IH]; [reflexivity|].
  cbn [find spec_get]. rewrite str_eqb_dec. destruct (str_eq_dec (fst p) n); [reflexivity | exact IH].
Qed.

Theorem sp_getall_spec : forall l n, sp_getall l n = spec_getall l n.
Proof.
  intros l n. unfold sp_getall. induction l as [|p l IH]; [reflexivity|].
  cbn [filter spec_getall]. rewrite str_eqb_dec.
  destruct (str_eq_dec (fst p) n); cbn [map]; [rewrite IH; reflexivity | exact IH].
Qed.

Lemma sp_has_hasb : forall l n, sp_has l n = spec_hasb l n.
Proof.
  intros l n. unfold sp_has, spec_hasb. induction l as [|p l IH]; [reflexivity|].
  cbn [existsb]. unfold named at 1. rewrite str_eqb_dec, IH. reflexivity.
Qed.

Theorem sp_has_spec : forall l n, sp_has l n = true <-> spec_has l n.
Proof.
  intros l n. unfold sp_has, spec_has. rewrite existsb_exists. split.
  - intros [[k v] [HI HE]]. cbn [fst] in HE. apply str_eqb_eq in HE. subst k. exists v. exact HI.
  - intros [v HI]. exists (n, v). split; [exact HI | apply str_eqb_refl].
Qed.

Lemma spec_has_false : forall l n, sp_has l n = false <-> ~ spec_has l n.
Proof.
  intros l n. rewrite <- sp_has_spec. destruct (sp_has l n); split; congruence.
Qed.

(* the flag-passing single pass of the Go code *)
Lemma sp_set_aux_true : forall l n v, sp_set_aux l n v true = (spec_delete l n, true).
Proof.
  intros l n v. induction l as [|[k w] l IH]; [reflexivity|].
  cbn [sp_set_aux spec_delete fst]. rewrite str_eqb_dec.
  destruct (str_eq_dec k n); [exact IH | rewrite IH; reflexivity].
Qed.

Lemma sp_set_aux_false : forall l n v,
  sp_set_aux l n v false =
  if spec_hasb l n then (let '(a, b) := split_first n l in a ++ (n, v) :: spec_delete (tl b) n, true)
  else (l, false).
Proof.
  intros l n v. induction l as [|[k w] l IH]; [reflexivity|].
  cbn [sp_set_aux spec_hasb existsb split_first fst]. unfold named at 1. cbn [fst].
  rewrite str_eqb_dec. destruct (str_eq_dec k n) as [E|E].
  - subst k. rewrite sp_set_aux_true. cbn [orb tl app]. reflexivity.
  - rewrite IH. cbn [orb]. fold (spec_hasb l n). destruct (spec_hasb l n).
    + destruct (split_first n l) as [a b]. reflexivity.
    + reflexivity.
Qed.

Theorem sp_set_spec : forall l n v, sp_set l n v = spec_set l n v.
Proof.
  intros l n v. unfold sp_set, spec_set. rewrite sp_set_aux_false.
  destruct (spec_hasb l n); [destruct (split_first n l)|]; reflexivity.
Qed.

(* the spec of set, a third time, as a characterisation that mentions no function at all *)
Lemma split_first_correct : forall n l a b,
  split_first n l = (a, b) ->
  l = a ++ b /\ (forall p, In p a -> fst p <> n) /\
  (spec_hasb l n = true -> exists w b', b = (n, w) :: b') /\ (spec_hasb l n = false -> b = []).
Proof.
  intros n l. induction l as [|[k w] l IH]; intros a b H.
  - cbn in H. inversion H; subst. repeat split; try reflexivity; try discriminate.
    intros p [].
  - cbn [split_first fst] in H. cbn [spec_hasb existsb]. unfold named at 1 3. cbn [fst].
    destruct (str_eq_dec k n) as [E|E].
    + inversion H; subst. repeat split; try discriminate.
      * intros p [].
      * intros _. exists w, l. reflexivity.
    + destruct (split_first n l) as [a' b'] eqn:S. inversion H; subst.
      destruct (IH a' b eq_refl) as (H1 & H2 & H3 & H4). cbn [orb]. repeat split.
      * cbn [app]. congruence.
      * intros p [<-|HI]; [exact E | apply H2; exact HI].
      * exact H3.
      * exact H4.
Qed.

Theorem sp_set_present : forall l1 l2 n w v,
  (forall p, In p l1 -> fst p <> n) ->
  sp_set (l1 ++ (n, w) :: l2) n v = l1 ++ (n, v) :: spec_delete l2 n.
Proof.
  intros l1 l2 n w v H. rewrite sp_set_spec. unfold spec_set.
  assert (HS : split_first n (l1 ++ (n, w) :: l2) = (l1, (n, w) :: l2)).
  { induction l1 as [|p l1 IH].
    - cbn [app split_first fst]. destruct (str_eq_dec n n); [reflexivity | congruence].
    - cbn [app split_first]. destruct (str_eq_dec (fst p) n) as [E|E].
      + exfalso. apply (H p); [left; reflexivity | exact E].
      + rewrite IH; [reflexivity|]. intros q Hq. apply H. right. exact Hq. }
  assert (HB : spec_hasb (l1 ++ (n, w) :: l2) n = true).
  { unfold spec_hasb. rewrite existsb_app. cbn [existsb]. unfold named at 2. cbn [fst].
    destruct (str_eq_dec n n); [|congruence]. cbn [orb]. apply orb_true_r. }
  rewrite HB, HS. reflexivity.
Qed.

Theorem sp_set_absent : forall l n v,
  (forall p, In p l -> fst p <> n) -> sp_set l n v = l ++ [(n, v)].
Proof.
  intros l n v H. rewrite sp_set_spec. unfold spec_set.
  assert (HB : spec_hasb l n = false).
  { unfold spec_hasb. destruct (existsb (named n) l) eqn:E; [|reflexivity].
    apply existsb_exists in E. destruct E as [p [HI HE]]. unfold named in HE.
    destruct (str_eq_dec (fst p) n) as [E|E]; [|discriminate]. exfalso. exact (H p HI E). }
  rewrite HB. reflexivity.
Qed.

(* every list is of one of the two shapes: the two theorems above determine sp_set completely *)
Theorem sp_set_shapes : forall (l : list pair) n,
  (forall p, In p l -> fst p <> n) \/
  (exists l1 w l2, l = l1 ++ (n, w) :: l2 /\ forall p, In p l1 -> fst p <> n).
Proof.
  intros l n. destruct (split_first n l) as [a b] eqn:S.
  destruct (split_first_correct n l a b S) as (H1 & H2 & H3 & H4).
  destruct (spec_hasb l n) eqn:HB.
  - right. destruct (H3 eq_refl) as (w & b' & ->). exists a, w, b'. split; assumption.
  - left. rewrite (H4 eq_refl), app_nil_r in H1. subst a. exact H2.
Qed.

(* ---------- algebraic facts ---------- *)

Theorem sp_has_append : forall l n v, sp_has (sp_append l n v) n = true.
Proof.
  intros l n v. unfold sp_has, sp_append. rewrite existsb_app. cbn [existsb fst].
  rewrite str_eqb_refl. cbn [orb]. apply orb_true_r.
Qed.

Theorem sp_has_append_other : forall l n v m, m <> n -> sp_has (sp_append l n v) m = sp_has l m.
Proof.
  intros l n v m H. unfold sp_has, sp_append. rewrite existsb_app. cbn [existsb fst].
  assert (E : str_eqb n m = false) by (apply str_eqb_neq; congruence).
  rewrite E. cbn [orb]. apply orb_false_r.
Qed.

Theorem sp_getall_append : forall l n v, sp_getall (sp_append l n v) n = sp_getall l n ++ [v].
Proof.
  intros l n v. unfold sp_getall, sp_append. rewrite filter_app, map_app. cbn [filter fst].
  rewrite str_eqb_refl. reflexivity.
Qed.

Lemma spec_delete_none : forall l n p, In p (spec_delete l n) -> fst p <> n /\ In p l.
Proof.
  intros l n p. induction l as [|q l IH]; [intros []|].
  cbn [spec_delete]. destruct (str_eq_dec (fst q) n) as [E|E].
  - intros H. destruct (IH H). split; [assumption | right; assumption].
  - intros [<-|H]; [split; [exact E | left; reflexivity]|].
    destruct (IH H). split; [assumption | right; assumption].
Qed.

Theorem sp_has_delete : forall l n, sp_has (sp_delete l n) n = false.
Proof.
  intros l n. apply spec_has_false. intros [v H]. rewrite sp_delete_spec in H.
  apply spec_delete_none in H. cbn [fst] in H. destruct H as [H _]. congruence.
Qed.

Theorem sp_get_delete : forall l n, sp_get (sp_delete l n) n = [].
Proof.
  intros l n. rewrite sp_delete_spec, sp_get_spec. induction l as [|p l IH]; [reflexivity|].
  cbn [spec_delete]. destruct (str_eq_dec (fst p) n) as [E|E]; [exact IH|].
  cbn [spec_get]. destruct (str_eq_dec (fst p) n); [contradiction | exact IH].
Qed.

Theorem sp_getall_delete : forall l n, sp_getall (sp_delete l n) n = [].
Proof.
  intros l n. rewrite sp_delete_spec, sp_getall_spec. induction l as [|p l IH]; [reflexivity|].
  cbn [spec_delete]. destruct (str_eq_dec (fst p) n) as [E|E]; [exact IH|].
  cbn [spec_getall]. destruct (str_eq_dec (fst p) n); [contradiction | exact IH].
Qed.

(* delete keeps every pair with another name, in the original relative order *)
Theorem sp_delete_other : forall l n m, m <> n ->
  filter (fun p => str_eqb (fst p) m) (sp_delete l n) = filter (fun p => str_eqb (fst p) m) l.
Proof.
  intros l n m H. unfold sp_delete. induction l as [|p l IH]; [reflexivity|].
  cbn [filter]. destruct (str_eqb (fst p) n) eqn:E1; cbn [negb].
  - apply str_eqb_eq in E1. assert (E2 : str_eqb (fst p) m = false) by (apply str_eqb_neq; congruence).
    rewrite E2. exact IH.
  - cbn [filter]. rewrite IH. reflexivity.
Qed.

Theorem sp_delete_idem : forall l n, sp_delete (sp_delete l n) n = sp_delete l n.
Proof.
  intros l n. unfold sp_delete. induction l as [|p l IH]; [reflexivity|].
  cbn [filter]. destruct (str_eqb (fst p) n) eqn:E1; cbn [negb]; [exact IH|].
  cbn [filter]. rewrite E1. cbn [negb]. rewrite IH. reflexivity.
Qed.

Lemma spec_delete_app : forall l1 l2 n, spec_delete (l1 ++ l2) n = spec_delete l1 n ++ spec_delete l2 n.
Proof.
  intros l1 l2 n. induction l1 as [|p l1 IH]; [reflexivity|].
  cbn [app spec_delete]. destruct (str_eq_dec (fst p) n); [exact IH | cbn [app]; congruence].
Qed.

Lemma spec_delete_id : forall l n, (forall p, In p l -> fst p <> n) -> spec_delete l n = l.
Proof.
  intros l n H. induction l as [|p l IH]; [reflexivity|].
  cbn [spec_delete]. destruct (str_eq_dec (fst p) n) as [E|E].
  - exfalso. apply (H p); [left; reflexivity | exact E].
  - rewrite IH; [reflexivity|]. intros q Hq. apply H. right. exact Hq.
Qed.

Lemma spec_delete_idem : forall l n, spec_delete (spec_delete l n) n = spec_delete l n.
Proof. intros l n. rewrite <- !sp_delete_spec. apply sp_delete_idem. Qed.

(* set keeps every pair with another name, in the original relative order:
   filter (name <> n) (set l n v) = filter (name <> n) l *)
Theorem sp_set_others : forall l n v, sp_delete (sp_set l n v) n = sp_delete l n.
Proof.
  intros l n v. rewrite !sp_delete_spec.
  destruct (sp_set_shapes l n) as [H | (l1 & w & l2 & -> & H)].
  - rewrite sp_set_absent by exact H. rewrite spec_delete_app. cbn [spec_delete fst].
    destruct (str_eq_dec n n); [apply app_nil_r | congruence].
  - rewrite sp_set_present by exact H. rewrite !spec_delete_app. cbn [spec_delete fst].
    destruct (str_eq_dec n n); [|congruence]. rewrite spec_delete_idem. reflexivity.
Qed.

Lemma filter_name_delete : forall l n m, m <> n ->
  filter (fun p : pair => str_eqb (fst p) m) (spec_delete l n) = filter (fun p => str_eqb (fst p) m) l.
Proof. intros l n m H. rewrite <- sp_delete_spec. apply sp_delete_other. exact H. Qed.

Theorem sp_set_other : forall l n v m, m <> n ->
  filter (fun p => str_eqb (fst p) m) (sp_set l n v) = filter (fun p => str_eqb (fst p) m) l.
Proof.
  intros l n v m H.
  rewrite <- (filter_name_delete (sp_set l n v) n m H), <- (filter_name_delete l n m H).
  rewrite <- !sp_delete_spec, sp_set_others. reflexivity.
Qed.

Lemma find_filter_hd : forall (f : pair -> bool) l, find f l = hd_error (filter f l).
Proof.
  intros f l. induction l as [|p l IH]; [reflexivity|].
  cbn [find filter]. destruct (f p); [reflexivity | exact IH].
Qed.

Theorem sp_get_set_other : forall l n v m, m <> n -> sp_get (sp_set l n v) m = sp_get l m.
Proof.
  intros l n v m H. unfold sp_get. rewrite !find_filter_hd, sp_set_other by exact H. reflexivity.
Qed.

Theorem sp_getall_set_other : forall l n v m, m <> n -> sp_getall (sp_set l n v) m = sp_getall l m.
Proof. intros l n v m H. unfold sp_getall. rewrite sp_set_other by exact H. reflexivity. Qed.

Theorem sp_has_set_other : forall l n v m, m <> n -> sp_has (sp_set l n v) m = sp_has l m.
Proof.
  intros l n v m H. unfold sp_has.
  assert (G : forall l', existsb (fun p : pair => str_eqb (fst p) m) l' =
                         negb (is_nil (filter (fun p : pair => str_eqb (fst p) m) l'))).
  { induction l' as [|p l' IH]; [reflexivity|]. cbn [existsb filter].
    destruct (str_eqb (fst p) m); [reflexivity | exact IH]. }
  rewrite !G, sp_set_other by exact H. reflexivity.
Qed.

Lemma spec_getall_none : forall l n, (forall p, In p l -> fst p <> n) -> spec_getall l n = [].
Proof.
  intros l n H. induction l as [|p l IH]; [reflexivity|].
  cbn [spec_getall]. destruct (str_eq_dec (fst p) n) as [E|E].
  - exfalso. apply (H p); [left; reflexivity | exact E].
  - apply IH. intros q Hq. apply H. right. exact Hq.
Qed.

Lemma spec_getall_app : forall l1 l2 n, spec_getall (l1 ++ l2) n = spec_getall l1 n ++ spec_getall l2 n.
Proof.
  intros l1 l2 n. induction l1 as [|p l1 IH]; [reflexivity|].
  cbn [app spec_getall]. destruct (str_eq_dec (fst p) n); [cbn [app]; congruence | exact IH].
Qed.

Theorem sp_getall_set : forall l n v, sp_getall (sp_set l n v) n = [v].
Proof.
  intros l n v. rewrite sp_getall_spec.
  destruct (sp_set_shapes l n) as [H | (l1 & w & l2 & -> & H)].
  - rewrite sp_set_absent by exact H. rewrite spec_getall_app, spec_getall_none by exact H.
    cbn [spec_getall fst snd app]. destruct (str_eq_dec n n); [reflexivity | congruence].
  - rewrite sp_set_present by exact H. rewrite spec_getall_app, spec_getall_none by exact H.
    cbn [spec_getall fst snd app]. destruct (str_eq_dec n n); [|congruence].
    rewrite spec_getall_none; [reflexivity|]. intros p Hp. apply spec_delete_none in Hp. tauto.
Qed.

Lemma sp_get_hd_getall : forall l n, sp_get l n = hd [] (sp_getall l n).
Proof.
  intros l n. unfold sp_get, sp_getall. induction l as [|p l IH]; [reflexivity|].
  cbn [find filter]. destruct (str_eqb (fst p) n); [reflexivity | exact IH].
Qed.

Theorem sp_get_set : forall l n v, sp_get (sp_set l n v) n = v.
Proof. intros l n v. rewrite sp_get_hd_getall, sp_getall_set. reflexivity. Qed.

Theorem sp_has_set : forall l n v, sp_has (sp_set l n v) n = true.
Proof.
  intros l n v. unfold sp_has.
  pose proof (sp_getall_set l n v) as H. unfold sp_getall in H.
  induction (sp_set l n v) as [|p l' IH]; [discriminate|].
  cbn [existsb]. cbn [filter] in H. destruct (str_eqb (fst p) n); [reflexivity | exact (IH H)].
Qed.

Theorem sp_set_idem : forall l n v w, sp_set (sp_set l n v) n w = sp_set l n w.
Proof.
  intros l n v w.
  destruct (sp_set_shapes l n) as [H | (l1 & x & l2 & -> & H)].
  - rewrite (sp_set_absent l n v H), (sp_set_absent l n w H).
    rewrite sp_set_present by exact H. reflexivity.
  - rewrite (sp_set_present l1 l2 n x v H), (sp_set_present l1 l2 n x w H).
    rewrite sp_set_present by exact H. rewrite spec_delete_idem. reflexivity.
Qed.

(* every operation is a multimap operation: membership characterisations *)
Theorem sp_delete_In : forall l n p, In p (sp_delete l n) <-> In p l /\ fst p <> n.
Proof.
  intros l n p. unfold sp_delete. rewrite filter_In. rewrite negb_true_iff, str_eqb_neq. tauto.
Qed.

Theorem sp_getall_In : forall l n v, In v (sp_getall l n) <-> In (n, v) l.
Proof.
  intros l n v. unfold sp_getall. rewrite in_map_iff. split.
  - intros [[k w] [H1 H2]]. cbn [snd] in H1. subst w. apply filter_In in H2. destruct H2 as [H2 H3].
    cbn [fst] in H3. apply str_eqb_eq in H3. subst k. exact H2.
  - intros H. exists (n, v). split; [reflexivity|]. apply filter_In. split; [exact H | apply str_eqb_refl].
Qed.

Example sp_set_example :
  sp_set [([97],[49]); ([98],[50]); ([97],[51]); ([99],[52]); ([97],[53])] [97] [120]
  = [([97],[120]); ([98],[50]); ([99],[52])].
Proof. reflexivity. Qed.

Print Assumptions sp_set_spec.
Print Assumptions sp_set_others.
Print Assumptions sp_get_set.

(* ====================================================================================== *)
(* PART 2 - sort                                                                          *)
(* ====================================================================================== *)

(* Go's < on strings is a strict total order *)
Theorem str_ltb_irrefl : forall a, str_ltb a a = false.
Proof.
  induction a as [|x a IH]; cbn [str_ltb]; [reflexivity|]. rewrite N.ltb_irrefl. exact IH.
Qed.

Theorem str_ltb_trans : forall a b d,
  str_ltb a b = true -> str_ltb b d = true -> str_ltb a d = true.
Proof.
  induction a as [|x a IH]; intros [|y b] [|z d]; cbn [str_ltb]; intros H1 H2;
    try reflexivity; try discriminate.
  destruct (x <? y) eqn:E1; destruct (y <? x) eqn:E2; destruct (y <? z) eqn:E3;
  destruct (z <? y) eqn:E4; destruct (x <? z) eqn:E5; destruct (z <? x) eqn:E6;
    try reflexivity; try discriminate; try lia.
  exact (IH b d H1 H2).
Qed.

Theorem str_ltb_trichotomy : forall a b, str_ltb a b = false -> str_ltb b a = false -> a = b.
Proof.
  induction a as [|x a IH]; intros [|y b]; cbn [str_ltb]; intros H1 H2;
    try reflexivity; try discriminate.
  destruct (x <? y) eqn:E1; destruct (y <? x) eqn:E2; try discriminate.
  assert (x = y) by lia. subst y. f_equal. exact (IH b H1 H2).
Qed.

Theorem str_ltb_asym : forall a b, str_ltb a b = true -> str_ltb b a = false.
Proof.
  intros a b H. destruct (str_ltb b a) eqn:E; [|reflexivity].
  pose proof (str_ltb_trans a b a H E) as T. rewrite str_ltb_irrefl in T. discriminate.
Qed.

(* exactly one of a < b, a = b, b < a *)
Theorem str_ltb_total : forall a b,
  (str_ltb a b = true /\ a <> b /\ str_ltb b a = false) \/
  (str_ltb a b = false /\ a = b /\ str_ltb b a = false) \/
  (str_ltb a b = false /\ a <> b /\ str_ltb b a = true).
Proof.
  intros a b. destruct (str_ltb a b) eqn:E1.
  - left. split; [reflexivity|]. split; [|apply str_ltb_asym; exact E1].
    intros ->. rewrite str_ltb_irrefl in E1. discriminate.
  - right. destruct (str_ltb b a) eqn:E2.
    + right. split; [reflexivity|]. split; [|reflexivity].
      intros ->. rewrite str_ltb_irrefl in E2. discriminate.
    + left. split; [reflexivity|]. split; [|reflexivity]. apply str_ltb_trichotomy; assumption.
Qed.

(* <= (the negation of >) is transitive *)
Lemma str_nlt_trans : forall a b d,
  str_ltb b a = false -> str_ltb d b = false -> str_ltb d a = false.
Proof.
  intros a b d H1 H2. destruct (str_ltb d a) eqn:E; [|reflexivity].
  destruct (str_ltb a b) eqn:E2.
  - rewrite (str_ltb_trans d a b E E2) in H2. discriminate.
  - pose proof (str_ltb_trichotomy a b E2 H1). subst b. congruence.
Qed.

Section StableSort.
  Context {A : Type} (key : A -> str).

  Definition klt (a b : A) : bool := str_ltb (key a) (key b).
  (* a may stand before b *)
  Definition kle (a b : A) : Prop := klt b a = false.
  Definition has_key (k : str) (x : A) : bool := str_eqb (key x) k.

  Lemma insert_perm : forall x l, Permutation (x :: l) (insert_st klt x l).
  Proof.
    intros x l. induction l as [|y l IH]; [apply Permutation_refl|].
    cbn [insert_st]. destruct (klt y x).
    - eapply perm_trans; [apply perm_swap|]. apply perm_skip. exact IH.
    - apply Permutation_refl.
  Qed.

  (* (a) *)
  Theorem sort_stable_perm : forall l, Permutation l (sort_stable klt l).
  Proof.
    induction l as [|x l IH]; [apply perm_nil|].
    cbn [sort_stable fold_right]. fold (sort_stable klt l).
    eapply perm_trans; [apply perm_skip; exact IH | apply insert_perm].
  Qed.

  Lemma insert_sorted : forall x l, StronglySorted kle l -> StronglySorted kle (insert_st klt x l).
  Proof.
    intros x l H. induction H as [|y l HS IH HF].
    - cbn [insert_st]. constructor; constructor.
    - cbn [insert_st]. destruct (klt y x) eqn:E.
      + constructor; [exact IH|].
        rewrite Forall_forall in *. intros z Hz.
        apply (Permutation_in z (Permutation_sym (insert_perm x l))) in Hz.
        destruct Hz as [<-|Hz]; [|apply HF; exact Hz].
        unfold kle, klt in *. apply str_ltb_asym. exact E.
      + constructor; [constructor; assumption|].
        constructor; [exact E|].
        rewrite Forall_forall in *. intros z Hz. specialize (HF z Hz).
        unfold kle, klt in *. exact (str_nlt_trans (key x) (key y) (key z) E HF).
  Qed.

  (* (b) *)
  Theorem sort_stable_sorted : forall l, StronglySorted kle (sort_stable klt l).
  Proof.
    induction l as [|x l IH]; [constructor|].
    cbn [sort_stable fold_right]. fold (sort_stable klt l). apply insert_sorted. exact IH.
  Qed.

  Lemma insert_stable : forall k x l,
    filter (has_key k) (insert_st klt x l) = filter (has_key k) (x :: l).
  Proof.
    intros k x l. induction l as [|y l IH]; [reflexivity|].
    cbn [insert_st]. destruct (klt y x) eqn:E; [|reflexivity].
    cbn [filter] in *. rewrite IH.
    destruct (has_key k y) eqn:Ey; [|reflexivity].
    destruct (has_key k x) eqn:Ex; [|reflexivity].
    unfold has_key in Ey, Ex. apply str_eqb_eq in Ey, Ex. unfold klt in E.
    rewrite Ey, Ex, str_ltb_irrefl in E. discriminate.
  Qed.

  (* (c) elements with equal keys keep their relative order *)
  Theorem sort_stable_stable : forall k l,
    filter (has_key k) (sort_stable klt l) = filter (has_key k) l.
  Proof.
    intros k l. induction l as [|x l IH]; [reflexivity|].
    cbn [sort_stable fold_right]. fold (sort_stable klt l).
    rewrite insert_stable. cbn [filter]. rewrite IH. reflexivity.
  Qed.

  (* (d) a sorted list is determined by its elements and the order within each key class *)
  Theorem sorted_stable_unique : forall l1 l2,
    Permutation l1 l2 -> StronglySorted kle l1 -> StronglySorted kle l2 ->
    (forall k, filter (has_key k) l1 = filter (has_key k) l2) ->
    l1 = l2.
  Proof.
    induction l1 as [|x l1 IH]; intros l2 HP HS1 HS2 HF.
    - apply Permutation_nil in HP. congruence.
    - destruct l2 as [|y l2]; [apply Permutation_sym, Permutation_nil in HP; discriminate|].
      inversion HS1 as [|? ? HS1' HF1]; subst. inversion HS2 as [|? ? HS2' HF2]; subst.
      rewrite Forall_forall in HF1, HF2.
      assert (Hxy : klt y x = false).
      { assert (HI : In y (x :: l1)) by (apply (Permutation_in y (Permutation_sym HP)); left; reflexivity).
        destruct HI as [<-|HI]; [apply str_ltb_irrefl | apply HF1; exact HI]. }
      assert (Hyx : klt x y = false).
      { assert (HI : In x (y :: l2)) by (apply (Permutation_in x HP); left; reflexivity).
        destruct HI as [<-|HI]; [apply str_ltb_irrefl | apply HF2; exact HI]. }
      assert (HK : key x = key y) by (apply str_ltb_trichotomy; assumption).
      assert (Hx : has_key (key x) x = true) by apply str_eqb_refl.
      assert (Hy : has_key (key x) y = true) by (unfold has_key; rewrite HK; apply str_eqb_refl).
      pose proof (HF (key x)) as HFx. cbn [filter] in HFx. rewrite Hx, Hy in HFx.
      inversion HFx; subst y. f_equal.
      apply IH; try assumption.
      + exact (Permutation_cons_inv HP).
      + intros k. specialize (HF k). cbn [filter] in HF.
        destruct (has_key k x); [inversion HF; reflexivity | exact HF].
  Qed.

  (* any stable sort computes sort_stable *)
  Theorem any_stable_sort : forall l l',
    Permutation l l' -> StronglySorted kle l' ->
    (forall k, filter (has_key k) l' = filter (has_key k) l) ->
    l' = sort_stable klt l.
  Proof.
    intros l l' HP HS HF. apply sorted_stable_unique.
    - eapply perm_trans; [apply Permutation_sym; exact HP | apply sort_stable_perm].
    - exact HS.
    - apply sort_stable_sorted.
    - intros k. rewrite sort_stable_stable. apply HF.
  Qed.

  Theorem sorted_fixpoint : forall l, StronglySorted kle l -> sort_stable klt l = l.
  Proof.
    intros l HS. symmetry. apply any_stable_sort; [apply Permutation_refl | exact HS | reflexivity].
  Qed.

  (* (e) *)
  Theorem sort_stable_idem : forall l, sort_stable klt (sort_stable klt l) = sort_stable klt l.
  Proof. intros l. apply sorted_fixpoint, sort_stable_sorted. Qed.

  (* a multiset-level corollary: sorting forgets the order between classes only *)
  Theorem sort_stable_perm_invariant : forall l l',
    Permutation l l' -> (forall k, filter (has_key k) l = filter (has_key k) l') ->
    sort_stable klt l = sort_stable klt l'.
  Proof.
    intros l l' HP HF. apply any_stable_sort.
    - eapply perm_trans; [apply Permutation_sym; exact HP | apply sort_stable_perm].
    - apply sort_stable_sorted.
    - intros k. rewrite sort_stable_stable. exact (HF k).
  Qed.
End StableSort.

(* ---------- the two sorts of SearchParams ---------- *)
Definition key_name (p : pair) : str := fst p.
Definition key_abs (p : pair) : str := fst p ++ snd p.

Lemma sp_sort_is : forall l, sp_sort l = sort_stable (klt key_name) l.
Proof. reflexivity. Qed.
Lemma sp_sort_abs_is : forall l, sp_sort_abs l = sort_stable (klt key_abs) l.
Proof. reflexivity. Qed.

Theorem sp_sort_perm : forall l, Permutation l (sp_sort l).
Proof. intros l. apply (sort_stable_perm key_name). Qed.
Theorem sp_sort_sorted : forall l,
  StronglySorted (fun a b : pair => str_ltb (fst b) (fst a) = false) (sp_sort l).
Proof. intros l. apply (sort_stable_sorted key_name). Qed.
Theorem sp_sort_stable : forall n l,
  filter (fun p : pair => str_eqb (fst p) n) (sp_sort l) = filter (fun p => str_eqb (fst p) n) l.
Proof. intros n l. apply (sort_stable_stable key_name). Qed.
Theorem sp_sort_unique : forall l l',
  Permutation l l' ->
  StronglySorted (fun a b : pair => str_ltb (fst b) (fst a) = false) l' ->
  (forall n, filter (fun p : pair => str_eqb (fst p) n) l' = filter (fun p => str_eqb (fst p) n) l) ->
  l' = sp_sort l.
Proof. intros l l'. apply (any_stable_sort key_name). Qed.
Theorem sp_sort_idem : forall l, sp_sort (sp_sort l) = sp_sort l.
Proof. intros l. apply (sort_stable_idem key_name). Qed.

(* what a user sees: sorting does not change any name's values *)
Theorem sp_getall_sort : forall l n, sp_getall (sp_sort l) n = sp_getall l n.
Proof. intros l n. unfold sp_getall. rewrite sp_sort_stable. reflexivity. Qed.
Theorem sp_get_sort : forall l n, sp_get (sp_sort l) n = sp_get l n.
Proof. intros l n. rewrite !sp_get_hd_getall, sp_getall_sort. reflexivity. Qed.

Theorem sp_sort_abs_perm : forall l, Permutation l (sp_sort_abs l).
Proof. intros l. apply (sort_stable_perm key_abs). Qed.
Theorem sp_sort_abs_sorted : forall l,
  StronglySorted (fun a b : pair => str_ltb (fst b ++ snd b) (fst a ++ snd a) = false) (sp_sort_abs l).
Proof. intros l. apply (sort_stable_sorted key_abs). Qed.
Theorem sp_sort_abs_stable : forall k l,
  filter (fun p : pair => str_eqb (fst p ++ snd p) k) (sp_sort_abs l) =
  filter (fun p => str_eqb (fst p ++ snd p) k) l.
Proof. intros k l. apply (sort_stable_stable key_abs). Qed.
Theorem sp_sort_abs_unique : forall l l',
  Permutation l l' ->
  StronglySorted (fun a b : pair => str_ltb (fst b ++ snd b) (fst a ++ snd a) = false) l' ->
  (forall k, filter (fun p : pair => str_eqb (fst p ++ snd p) k) l' =
             filter (fun p => str_eqb (fst p ++ snd p) k) l) ->
  l' = sp_sort_abs l.
Proof. intros l l'. apply (any_stable_sort key_abs). Qed.
Theorem sp_sort_abs_idem : forall l, sp_sort_abs (sp_sort_abs l) = sp_sort_abs l.
Proof. intros l. apply (sort_stable_idem key_abs). Qed.

Example sp_sort_example :
  sp_sort [([98],[49]); ([97],[50]); ([98],[48]); ([97],[49]); ([],[55])]
  = [([],[55]); ([97],[50]); ([97],[49]); ([98],[49]); ([98],[48])].
Proof. reflexivity. Qed.

Example sp_sort_unique_premises :
  let l  : list pair := [([98],[49]); ([97],[50]); ([98],[51])] in
  let l' : list pair := [([97],[50]); ([98],[49]); ([98],[51])] in
  Permutation l l' /\
  StronglySorted (fun a b : pair => str_ltb (fst b) (fst a) = false) l' /\
  (forall n, filter (fun p : pair => str_eqb (fst p) n) l' = filter (fun p => str_eqb (fst p) n) l) /\
  l' = sp_sort l.
Proof.
  cbv zeta. split; [apply perm_swap|]. split.
  - repeat constructor.
  - split; [|reflexivity]. intros n. cbn [filter fst].
    destruct (str_eqb [98] n) eqn:E1; destruct (str_eqb [97] n) eqn:E2; try reflexivity.
    apply str_eqb_eq in E1, E2. congruence.
Qed.

Print Assumptions str_ltb_total.
Print Assumptions sp_sort_unique.
Print Assumptions sp_sort_abs_unique.
Print Assumptions sp_sort_idem.

(* ====================================================================================== *)
(* PART 3 - the URL and its list of pairs stay in sync                                   *)
(* ====================================================================================== *)

(* everything of a URL record except the query and the list of pairs *)
Definition same_but_query (u u' : url) : Prop :=
  u_input u' = u_input u /\ u_scheme u' = u_scheme u /\ u_username u' = u_username u /\
  u_password u' = u_password u /\ u_host u' = u_host u /\ u_port u' = u_port u /\
  u_decodedPort u' = u_decodedPort u /\ u_path u' = u_path u /\ u_opaque u' = u_opaque u /\
  u_fragment u' = u_fragment u /\ u_verrs u' = u_verrs u.

Lemma same_but_query_refl : forall u, same_but_query u u.
Proof. intros u. unfold same_but_query. repeat split. Qed.

Lemma same_but_query_trans : forall u1 u2 u3,
  same_but_query u1 u2 -> same_but_query u2 u3 -> same_but_query u1 u3.
Proof.
  unfold same_but_query. intros u1 u2 u3 H1 H2.
  destruct H1 as (A1&A2&A3&A4&A5&A6&A7&A8&A9&A10&A11).
  destruct H2 as (B1&B2&B3&B4&B5&B6&B7&B8&B9&B10&B11).
  repeat split; congruence.
Qed.

Section Sync.
  Variable c : cfg.

  (* ----- sp_update: what SearchParams.update leaves behind ----- *)
  Theorem sp_update_sp : forall u l, u_sp (sp_update c u l) = Some l.
  Proof.
    intros u l. unfold sp_update.
    destruct ((is_nil (sp_string c l) && is_some (u_query (set_sp u (Some l)))) || negb (is_nil (sp_string c l)));
      reflexivity.
  Qed.

  Theorem sp_update_u_query : forall u l,
    u_query (sp_update c u l) =
    if is_nil (sp_string c l) && negb (is_some (u_query u)) then None else Some (sp_string c l).
  Proof.
    intros u l. unfold sp_update. cbn [set_sp u_query].
    destruct (sp_string c l) as [|b q]; cbn [is_nil andb orb negb].
    - destruct (u_query u) eqn:E; cbn [is_some negb]; [reflexivity | exact E].
    - reflexivity.
  Qed.

  (* the query string of the URL is the serialization of the list: unconditionally *)
  Theorem sp_update_Query : forall u l, Query (sp_update c u l) = sp_string c l.
  Proof.
    intros u l. unfold Query. rewrite sp_update_u_query.
    destruct (sp_string c l) as [|b q]; cbn [is_nil andb].
    - destruct (negb (is_some (u_query u))); reflexivity.
    - reflexivity.
  Qed.

  Theorem sp_update_query_nonnull : forall u l,
    sp_string c l <> [] \/ u_query u <> None ->
    u_query (sp_update c u l) = Some (sp_string c l).
  Proof.
    intros u l H. rewrite sp_update_u_query.
    destruct (sp_string c l) as [|b q]; cbn [is_nil andb]; [|reflexivity].
    destruct (u_query u); cbn [is_some negb]; [reflexivity|]. destruct H as [H|H]; congruence.
  Qed.

  Theorem sp_update_Search : forall u l,
    Search (sp_update c u l) = if is_nil (sp_string c l) then [] else 63 :: sp_string c l.
  Proof.
    intros u l. unfold Search. rewrite sp_update_u_query.
    destruct (sp_string c l) as [|b q]; cbn [is_nil andb].
    - destruct (negb (is_some (u_query u))); reflexivity.
    - reflexivity.
  Qed.

  Theorem sp_update_frame : forall u l, same_but_query u (sp_update c u l).
  Proof.
    intros u l. unfold sp_update.
    destruct ((is_nil (sp_string c l) && is_some (u_query (set_sp u (Some l)))) || negb (is_nil (sp_string c l)));
      unfold same_but_query; cbn; repeat split.
  Qed.

  (* the serialized URL changes in its query component only *)
  Theorem sp_update_Href : forall u l x,
    Href (sp_update c u l) x = Href (set_query u (u_query (sp_update c u l))) x.
  Proof.
    intros u l x. destruct (sp_update_frame u l) as (A1&A2&A3&A4&A5&A6&A7&A8&A9&A10&A11).
    unfold Href, Pathname. cbn [set_query u_path u_opaque u_scheme u_host u_username u_password u_port u_query u_fragment].
    rewrite A2, A3, A4, A5, A6, A8, A9, A10. reflexivity.
  Qed.

  (* ----- ensure_sp: u.SearchParams() ----- *)
  Lemma sp_init_nil : sp_init c [] = [].
  Proof. reflexivity. Qed.

  Theorem ensure_sp_fresh : forall u, u_sp u = None ->
    ensure_sp c u = (set_sp u (Some (sp_init c (Query u))), sp_init c (Query u)).
  Proof.
    intros u H. unfold ensure_sp, Query. rewrite H. destruct (u_query u); reflexivity.
  Qed.

  Theorem ensure_sp_existing : forall u l, u_sp u = Some l -> ensure_sp c u = (u, l).
  Proof. intros u l H. unfold ensure_sp. rewrite H. reflexivity. Qed.

  Theorem ensure_sp_sp : forall u, u_sp (fst (ensure_sp c u)) = Some (snd (ensure_sp c u)).
  Proof. intros u. unfold ensure_sp. destruct (u_sp u) eqn:E; [exact E | reflexivity]. Qed.

  Theorem ensure_sp_query : forall u, u_query (fst (ensure_sp c u)) = u_query u.
  Proof. intros u. unfold ensure_sp. destruct (u_sp u); reflexivity. Qed.

  Theorem ensure_sp_frame : forall u, same_but_query u (fst (ensure_sp c u)).
  Proof.
    intros u. unfold ensure_sp. destruct (u_sp u); [apply same_but_query_refl|].
    unfold same_but_query. cbn. repeat split.
  Qed.

  Theorem ensure_sp_idem : forall u, ensure_sp c (fst (ensure_sp c u)) = ensure_sp c u.
  Proof.
    intros u. unfold ensure_sp at 2 3. destruct (u_sp u) eqn:E; cbn [fst].
    - apply ensure_sp_existing. exact E.
    - apply ensure_sp_existing. reflexivity.
  Qed.

  (* ----- the invariant: the list is either what the query parses to (it was created from the
     query and not modified since) or the query is what the list serializes to (it was modified) ----- *)
  Definition sp_synced (u : url) : Prop :=
    match u_sp u with
    | None => True
    | Some l => l = sp_init c (Query u) \/ Query u = sp_string c l
    end.

  Theorem ensure_sp_synced : forall u, sp_synced u -> sp_synced (fst (ensure_sp c u)).
  Proof.
    intros u H. destruct (u_sp u) as [l|] eqn:E.
    - rewrite (ensure_sp_existing u l E). exact H.
    - rewrite (ensure_sp_fresh u E). unfold sp_synced. cbn [fst set_sp u_sp]. left. reflexivity.
  Qed.

  Theorem sp_update_synced : forall u l, sp_synced (sp_update c u l).
  Proof. intros u l. unfold sp_synced. rewrite sp_update_sp. right. apply sp_update_Query. Qed.

  (* ----- with_sp: the shape of every SearchParams mutation ----- *)
  Theorem with_sp_slot : forall s slot f u, get s slot = Some u ->
    exists u', get (with_sp c s slot f) slot = Some u' /\
               u_sp u' = Some (f (snd (ensure_sp c u))) /\
               Query u' = sp_string c (f (snd (ensure_sp c u))) /\
               Search u' = (if is_nil (sp_string c (f (snd (ensure_sp c u)))) then []
                            else 63 :: sp_string c (f (snd (ensure_sp c u)))) /\
               same_but_query u u' /\ sp_synced u'.
  Proof.
    intros s slot f u H. unfold with_sp. rewrite H.
    destruct (ensure_sp c u) as [u1 l] eqn:E. cbn [snd].
    exists (sp_update c u1 (f l)). split; [|split; [|split; [|split; [|split]]]].
    - destruct slot; reflexivity.
    - apply sp_update_sp.
    - apply sp_update_Query.
    - apply sp_update_Search.
    - eapply same_but_query_trans; [|apply sp_update_frame].
      replace u1 with (fst (ensure_sp c u)) by (rewrite E; reflexivity). apply ensure_sp_frame.
    - apply sp_update_synced.
  Qed.

  Theorem with_sp_other : forall s slot f, get (with_sp c s slot f) (negb slot) = get s (negb slot).
  Proof.
    intros s slot f. unfold with_sp. destruct (get s slot) as [u|]; [|reflexivity].
    destruct (ensure_sp c u) as [u1 l]. destruct slot; reflexivity.
  Qed.

  Theorem with_sp_dead : forall s slot f, get s slot = None -> with_sp c s slot f = s.
  Proof. intros s slot f H. unfold with_sp. rewrite H. reflexivity. Qed.

  (* ----- SetSearch ----- *)
  Variable idna_raw : str -> str * bool.

  Theorem SetSearch_nonempty : forall u s u', s <> [] ->
    SetSearch idna_raw c u s = Some u' ->
    exists q, u_query u' = Some q /\ u_sp u' = Some (sp_init c q).
  Proof.
    intros u s u' Hs H. destruct s as [|b s]; [congruence|]. unfold SetSearch in H.
    match type of H with match after ?X with _ => _ end = _ => destruct (after X) as [u1|]; [|discriminate] end.
    destruct (u_query u1) as [q|] eqn:E; [|discriminate].
    inversion H; subst u'. exists q. split; [exact E | reflexivity].
  Qed.

  Theorem SetSearch_empty : forall u u',
    SetSearch idna_raw c u [] = Some u' ->
    u_query u' = None /\
    u_sp u' = match u_sp u with Some _ => Some [] | None => None end /\
    snd (ensure_sp c u') = [].
  Proof.
    intros u u' H. unfold SetSearch in H.
    set (u1 := set_query u None) in H.
    set (u2 := match u_sp u1 with Some _ => set_sp u1 (Some []) | None => u1 end) in H.
    assert (Q2 : u_query u2 = None) by (unfold u2; destruct (u_sp u1); reflexivity).
    assert (S2 : u_sp u2 = match u_sp u with Some _ => Some [] | None => None end).
    { unfold u2. change (u_sp u1) with (u_sp u). destruct (u_sp u) eqn:E; [reflexivity|].
      change (u_sp u1) with (u_sp u). exact E. }
    assert (G : u_query u' = u_query u2 /\ u_sp u' = u_sp u2).
    { destruct (negb (is_some (u_fragment u2))).
      - unfold strip_opaque in H. destruct (u_opaque u2).
        + destruct (u_path u2); [discriminate|]. inversion H; subst u'. split; reflexivity.
        + inversion H; subst u'. split; reflexivity.
      - inversion H; subst u'. split; reflexivity. }
    destruct G as [G1 G2]. rewrite G1, G2, Q2, S2. split; [reflexivity|]. split; [reflexivity|].
    unfold ensure_sp. rewrite G2, S2, G1, Q2. destruct (u_sp u); reflexivity.
  Qed.

  Theorem SetSearch_synced : forall u s u', SetSearch idna_raw c u s = Some u' -> sp_synced u'.
  Proof.
    intros u s u' H. destruct s as [|b s].
    - destruct (SetSearch_empty u u' H) as (H1 & H2 & _). unfold sp_synced, Query. rewrite H2, H1.
      destruct (u_sp u); [left; reflexivity | exact I].
    - destruct (SetSearch_nonempty u (b :: s) u' ltac:(discriminate) H) as (q & H1 & H2).
      unfold sp_synced, Query. rewrite H2, H1. left. reflexivity.
  Qed.

  (* ----- histories: every SearchParams operation and SetSearch keep both slots in sync ----- *)
  Definition hstate_synced (s : hstate) : Prop :=
    forall slot u, get s slot = Some u -> sp_synced u.

  Definition is_sp_op (o : op) : bool :=
    match o with
    | OSet _ w _ => w =? 7
    | OSpAppend _ _ _ | OSpDelete _ _ | OSpSet _ _ _ | OSpSort _ | OSpSortAbs _ | OSpQuery _ _ | OSpTouch _
    | OSpAdopt _ | OSpIterate _ _ => true
    | _ => false
    end.

  Lemma get_put_same : forall s slot x, get (put s slot x) slot = x.
  Proof. intros s [|] x; reflexivity. Qed.
  Lemma get_put_other : forall s slot x, get (put s slot x) (negb slot) = get s (negb slot).
  Proof. intros s [|] x; reflexivity. Qed.

  Lemma put_synced : forall s slot x, hstate_synced s ->
    (forall u, x = Some u -> sp_synced u) -> hstate_synced (put s slot x).
  Proof.
    intros s slot x HS HX slot' u H.
    destruct (Bool.bool_dec slot' slot) as [->|N].
    - rewrite get_put_same in H. apply HX. exact H.
    - assert (slot' = negb slot) by (destruct slot', slot; try reflexivity; congruence). subst slot'.
      rewrite get_put_other in H. exact (HS _ _ H).
  Qed.

  Lemma with_sp_synced : forall s slot f, hstate_synced s -> hstate_synced (with_sp c s slot f).
  Proof.
    intros s slot f HS. unfold with_sp. destruct (get s slot) as [u|] eqn:E; [|exact HS].
    destruct (ensure_sp c u) as [u1 l]. apply put_synced; [exact HS|].
    intros u' H. inversion H; subst u'. apply sp_update_synced.
  Qed.

  Theorem hstep_synced : forall s o, is_sp_op o = true ->
    hstate_synced s -> hstate_synced (fst (hstep idna_raw c s o)).
  Proof.
    intros s o Ho HS. destruct o as [slot w v| | | |slot n v|slot n|slot n v|slot|slot|slot n|slot|slot|slot md];
      cbn [is_sp_op] in Ho; try discriminate; cbn [hstep fst];
      try (apply with_sp_synced; exact HS).
    - apply N.eqb_eq in Ho. subst w. destruct (get s slot) as [u|] eqn:E; [|exact HS].
      change (setter idna_raw c 7 u v) with (SetSearch idna_raw c u v).
      destruct (SetSearch idna_raw c u v) as [u'|] eqn:E2; cbn [fst].
      + apply put_synced; [exact HS|]. intros u0 H. inversion H; subst u0.
        exact (SetSearch_synced u v u' E2).
      + apply put_synced; [exact HS|]. discriminate.
    - destruct (get s slot) as [u|] eqn:E; [|exact HS].
      destruct (ensure_sp c u) as [u1 l] eqn:E2. cbn [fst].
      apply put_synced; [exact HS|]. intros u0 H. inversion H; subst u0.
      replace u1 with (fst (ensure_sp c u)) by (rewrite E2; reflexivity).
      apply ensure_sp_synced. exact (HS _ _ E).
    - destruct (get s slot) as [u|] eqn:E; [|exact HS]. cbn [fst].
      apply put_synced; [exact HS|]. intros u0 H. inversion H; subst u0.
      apply ensure_sp_synced. exact (HS _ _ E).
    - (* SetSearchParams: the other URL is left as by SearchParams(), the adopting one as by a mutation *)
      destruct (get s slot) as [u|] eqn:E; [|exact HS].
      destruct (get s (negb slot)) as [v|] eqn:Ev; [|exact HS].
      destruct (ensure_sp c v) as [v1 l] eqn:E2. cbn [fst].
      apply put_synced.
      + apply put_synced; [exact HS|]. intros u0 H. inversion H; subst u0.
        replace v1 with (fst (ensure_sp c v)) by (rewrite E2; reflexivity).
        apply ensure_sp_synced. exact (HS _ _ Ev).
      + intros u0 H. inversion H; subst u0. apply sp_update_synced.
  Qed.
End Sync.

Definition idna_id (s : str) : str * bool := (s, false).
Example SetSearch_premise_nonempty :
  exists u', SetSearch idna_id default_cfg (empty_url []) [63;97;61;98;38;99] = Some u' /\
             u_query u' = Some [97;61;98;38;99] /\ u_sp u' = Some [([97],[98]); ([99],[])].
Proof. eexists. split; [vm_compute; reflexivity | split; reflexivity]. Qed.
Example SetSearch_premise_empty :
  exists u', SetSearch idna_id default_cfg (set_query (empty_url []) (Some [120])) [] = Some u' /\ u_query u' = None.
Proof. eexists. split; [vm_compute; reflexivity | reflexivity]. Qed.

Example with_sp_example :
  let s : hstate := (Some (set_query (empty_url []) (Some [120;61;49])), None) in
  exists u', get (with_sp default_cfg s false (fun l => sp_append l [97;32] [38])) false = Some u' /\
             u_sp u' = Some [([120],[49]); ([97;32],[38])] /\
             Query u' = [120;61;49;38;97;43;61;37;50;54].
Proof. eexists. split; [vm_compute; reflexivity | split; reflexivity]. Qed.

Print Assumptions sp_update_Query.
Print Assumptions with_sp_slot.
Print Assumptions SetSearch_nonempty.
Print Assumptions SetSearch_empty.
Print Assumptions hstep_synced.

(* ====================================================================================== *)
(* PART 4 - application/x-www-form-urlencoded round trip                                  *)
(* ====================================================================================== *)


(* ---------- UTF-8: decoding a valid string and encoding it again ---------- *)
Ltac Zify.zify_post_hook ::= Z.div_mod_to_equations.

Lemma utf8_enc_bytes : forall r b, In b (utf8_enc r) -> b < 256.
Proof.
  intros r b. unfold utf8_enc, is_surrogate.
  destruct (r <? 128) eqn:E1; [intros [<-|[]]; lia|].
  destruct (r <? 2048) eqn:E2; [intros [<-|[<-|[]]]; lia|].
  destruct ((55296 <=? r) && (r <=? 57343) || (1114111 <? r)) eqn:E3; [intros [<-|[<-|[<-|[]]]]; lia|].
  destruct (r <? 65536) eqn:E4; [intros [<-|[<-|[<-|[]]]]; lia|].
  intros [<-|[<-|[<-|[<-|[]]]]]; lia.
Qed.

Lemma utf8_enc_ascii : forall r, r < 128 -> utf8_enc r = [r].
Proof. intros r H. unfold utf8_enc. destruct (r <? 128) eqn:E; [reflexivity | lia]. Qed.

Lemma utf8_enc_nonempty : forall r, exists b bs, utf8_enc r = b :: bs.
Proof.
  intros r. unfold utf8_enc.
  destruct (r <? 128); [eauto|]. destruct (r <? 2048); [eauto|].
  destruct (is_surrogate r || (1114111 <? r)); [eauto|]. destruct (r <? 65536); eauto.
Qed.

Lemma dec1_good : forall b0 rest cp rest',
  dec1 b0 rest = (Good cp, rest') -> utf8_enc cp ++ rest' = b0 :: rest.
Proof.
  intros b0 rest cp rest' H. unfold dec1 in H.
  destruct (b0 <? 128) eqn:E0.
  { inversion H; subst. rewrite utf8_enc_ascii by lia. reflexivity. }
  destruct (in_rng 194 223 b0) eqn:E1.
  { destruct rest as [|b1 r1]; [discriminate|].
    destruct (is_cont b1) eqn:C1; [|discriminate]. inversion H; subst. clear H.
    unfold in_rng, is_cont in *. unfold utf8_enc.
    destruct ((b0 - 192) * 64 + (b1 - 128) <? 128) eqn:F1; [lia|].
    destruct ((b0 - 192) * 64 + (b1 - 128) <? 2048) eqn:F2; [|lia].
    cbn [app]. f_equal; [lia|]. f_equal. lia. }
  destruct (in_rng 224 239 b0) eqn:E2.
  { destruct rest as [|b1 [|b2 r2]]; try discriminate.
    match type of H with (if ?X then _ else _) = _ => destruct X eqn:C1; [|discriminate] end.
    inversion H; subst. clear H.
    unfold in_rng, is_cont in *. unfold utf8_enc, is_surrogate.
    destruct (b0 =? 224) eqn:G1; destruct (b0 =? 237) eqn:G2; try lia;
    set (cp := (b0 - 224) * 4096 + (b1 - 128) * 64 + (b2 - 128)) in *;
    (assert (K1 : 2048 <= cp) by (unfold cp; lia));
    (assert (K2 : cp < 65536) by (unfold cp; lia));
    (assert (K3 : cp < 55296 \/ 57343 < cp) by (unfold cp; lia));
    (assert (K4 : 224 + cp / 4096 = b0) by (unfold cp; lia));
    (assert (K5 : 128 + (cp / 64) mod 64 = b1) by (unfold cp; lia));
    (assert (K6 : 128 + cp mod 64 = b2) by (unfold cp; lia));
    clearbody cp;
    (destruct (cp <? 128) eqn:F1; [lia|]);
    (destruct (cp <? 2048) eqn:F2; [lia|]);
    (destruct ((55296 <=? cp) && (cp <=? 57343) || (1114111 <? cp)) eqn:F3; [lia|]);
    (destruct (cp <? 65536) eqn:F4; [|lia]);
    cbn [app]; congruence. }
  destruct (in_rng 240 244 b0) eqn:E3; [|discriminate].
  destruct rest as [|b1 [|b2 [|b3 r3]]]; try discriminate.
  match type of H with (if ?X then _ else _) = _ => destruct X eqn:C1; [|discriminate] end.
  inversion H; subst. clear H.
  unfold in_rng, is_cont in *. unfold utf8_enc, is_surrogate.
  destruct (b0 =? 240) eqn:G1; destruct (b0 =? 244) eqn:G2; try lia;
  set (cp := (b0 - 240) * 262144 + (b1 - 128) * 4096 + (b2 - 128) * 64 + (b3 - 128)) in *;
  (assert (K1 : 65536 <= cp) by (unfold cp; lia));
  (assert (K2 : cp <= 1114111) by (unfold cp; lia));
  (assert (K4 : 240 + cp / 262144 = b0) by (unfold cp; lia));
  (assert (K5 : 128 + (cp / 4096) mod 64 = b1) by (unfold cp; lia));
  (assert (K6 : 128 + (cp / 64) mod 64 = b2) by (unfold cp; lia));
  (assert (K7 : 128 + cp mod 64 = b3) by (unfold cp; lia));
  clearbody cp;
  (destruct (cp <? 128) eqn:F1; [lia|]);
  (destruct (cp <? 2048) eqn:F2; [lia|]);
  (destruct ((55296 <=? cp) && (cp <=? 57343) || (1114111 <? cp)) eqn:F3; [lia|]);
  (destruct (cp <? 65536) eqn:F4; [lia|]);
  cbn [app]; congruence.
Qed.


Definition is_good (r : rune) : bool := match r with Good _ => true | Bad _ => false end.

Lemma valid_utf8_is : forall s, valid_utf8 s = forallb is_good (decode s).
Proof. reflexivity. Qed.

Lemma decode_fuel_roundtrip : forall fuel s, (length s <= fuel)%nat ->
  forallb is_good (decode_fuel fuel s) = true ->
  flat_map utf8_enc (map rv (decode_fuel fuel s)) = s.
Proof.
  induction fuel as [|f IH]; intros s HL HV.
  - destruct s; [reflexivity | cbn [length] in HL; lia].
  - destruct s as [|b0 rest]; [reflexivity|].
    cbn [decode_fuel] in *. destruct (dec1 b0 rest) as [r rest'] eqn:E.
    cbn [forallb map flat_map] in *. apply andb_true_iff in HV. destruct HV as [HG HV].
    destruct r as [cp|b]; [|discriminate]. cbn [rv].
    pose proof (dec1_good b0 rest cp rest' E) as HD.
    assert (HL' : (length rest' <= f)%nat).
    { apply (f_equal (@length N)) in HD. rewrite app_length in HD. cbn [length] in HD, HL.
      destruct (utf8_enc_nonempty cp) as (x & xs & Hx). rewrite Hx in HD. cbn [length] in HD. lia. }
    rewrite (IH rest' HL' HV). exact HD.
Qed.

Theorem valid_utf8_roundtrip : forall s, valid_utf8 s = true -> encode_runes (runes s) = s.
Proof.
  intros s H. unfold encode_runes, runes, decode. apply decode_fuel_roundtrip; [apply le_n | exact H].
Qed.

Lemma runes_nonempty : forall b s, exists r rs, runes (b :: s) = r :: rs.
Proof.
  intros b s. unfold runes, decode. cbn [length decode_fuel].
  destruct (dec1 b s) as [r rest']. cbn [map]. eauto.
Qed.

(* ---------- bytes, hex digits ---------- *)
Definition bytes256 : list N := map N.of_nat (seq 0 256).

Lemma in_bytes256 : forall b, b < 256 -> In b bytes256.
Proof.
  intros b H. unfold bytes256. rewrite <- (N2Nat.id b). apply in_map. apply in_seq. lia.
Qed.

Lemma pct_byte_sweep :
  forallb (fun b => isHexDigit (hex_upper (b / 16)) && isHexDigit (hex_upper (b mod 16)) &&
                    (hex_val (hex_upper (b / 16)) * 16 + hex_val (hex_upper (b mod 16)) =? b)) bytes256 = true.
Proof. vm_compute. reflexivity. Qed.

Lemma pct_byte_hex : forall b, b < 256 ->
  isHexDigit (hex_upper (b / 16)) && isHexDigit (hex_upper (b mod 16)) = true /\
  hex_val (hex_upper (b / 16)) * 16 + hex_val (hex_upper (b mod 16)) = b.
Proof.
  intros b H. pose proof pct_byte_sweep as S. rewrite forallb_forall in S.
  specialize (S b (in_bytes256 b H)). apply andb_true_iff in S. destruct S as [S1 S2].
  split; [exact S1 | apply N.eqb_eq; exact S2].
Qed.

Lemma hex_upper_clean : forall n, hex_upper n <> 38 /\ hex_upper n <> 61 /\ hex_upper n <> 43.
Proof. intros n. unfold hex_upper. destruct (n <? 10) eqn:E; lia. Qed.

Lemma pct_byte_clean : forall x b, In b (pct_byte x) -> b <> 38 /\ b <> 61 /\ b <> 43.
Proof.
  intros x b [<-|[<-|[<-|[]]]]; [lia | apply hex_upper_clean | apply hex_upper_clean].
Qed.

Lemma pct_bytes_clean : forall xs b, In b (flat_map pct_byte xs) -> b <> 38 /\ b <> 61 /\ b <> 43.
Proof.
  intros xs b H. apply in_flat_map in H. destruct H as (x & _ & H). exact (pct_byte_clean x b H).
Qed.

Lemma hexdigit_lt128 : forall h, isHexDigit h = true -> h < 128.
Proof.
  intros h H. unfold isHexDigit, bs_test, mem in H. apply existsb_exists in H.
  destruct H as (x & HI & HE). apply N.eqb_eq in HE. subst x.
  assert (S : forallb (fun x => x <? 128) bs_ASCIIHexDigit = true) by reflexivity.
  rewrite forallb_forall in S. specialize (S h HI). lia.
Qed.

Lemma hexdigit_not : forall h, isHexDigit h = true -> h <> 37 /\ h <> 32 /\ h <> 43.
Proof.
  intros h H. repeat split; intros ->; discriminate H.
Qed.


(* ---------- strings.Split / SplitN / Join ---------- *)
Lemma split_aux_app : forall sep a s cur, ~ In sep a ->
  split_aux sep (a ++ s) cur = split_aux sep s (rev a ++ cur).
Proof.
  intros sep a. induction a as [|x a IH]; intros s cur H; [reflexivity|].
  cbn [app split_aux]. destruct (x =? sep) eqn:E.
  - exfalso. apply H. left. lia.
  - rewrite IH by (intros HI; apply H; right; exact HI). cbn [rev]. rewrite <- app_assoc. reflexivity.
Qed.

Lemma split_cons : forall sep a s, ~ In sep a -> split sep (a ++ sep :: s) = a :: split sep s.
Proof.
  intros sep a s H. unfold split. rewrite split_aux_app by exact H.
  cbn [split_aux]. rewrite N.eqb_refl, app_nil_r, rev_involutive. reflexivity.
Qed.

Lemma split_single : forall sep a, ~ In sep a -> split sep a = [a].
Proof.
  intros sep a H. unfold split. rewrite <- (app_nil_r a) at 1. rewrite split_aux_app by exact H.
  cbn [split_aux]. rewrite app_nil_r, rev_involutive. reflexivity.
Qed.

Lemma cut_aux_app : forall sep a s cur, ~ In sep a ->
  cut_aux sep (a ++ s) cur = cut_aux sep s (rev a ++ cur).
Proof.
  intros sep a. induction a as [|x a IH]; intros s cur H; [reflexivity|].
  cbn [app cut_aux]. destruct (x =? sep) eqn:E.
  - exfalso. apply H. left. lia.
  - rewrite IH by (intros HI; apply H; right; exact HI). cbn [rev]. rewrite <- app_assoc. reflexivity.
Qed.

Lemma cut_found : forall sep a s, ~ In sep a -> cut sep (a ++ sep :: s) = (a, Some s).
Proof.
  intros sep a s H. unfold cut. rewrite cut_aux_app by exact H.
  cbn [cut_aux]. rewrite N.eqb_refl, app_nil_r, rev_involutive. reflexivity.
Qed.

Lemma cut_none : forall sep a, ~ In sep a -> cut sep a = (a, None).
Proof.
  intros sep a H. unfold cut. rewrite <- (app_nil_r a) at 1. rewrite cut_aux_app by exact H.
  cbn [cut_aux]. rewrite app_nil_r, rev_involutive. reflexivity.
Qed.

Lemma plus_to_space_id : forall s, ~ In 43 s -> plus_to_space s = s.
Proof.
  intros s H. unfold plus_to_space. induction s as [|x s IH]; [reflexivity|].
  cbn [map]. destruct (x =? 43) eqn:E.
  - exfalso. apply H. left. lia.
  - rewrite IH by (intros HI; apply H; right; exact HI). reflexivity.
Qed.

Lemma plus_to_space_app : forall a b, plus_to_space (a ++ b) = plus_to_space a ++ plus_to_space b.
Proof. intros a b. apply map_app. Qed.

(* ---------- %HH triples ---------- *)
Definition starts_hh (s : list N) : bool :=
  match s with h :: l :: _ => isHexDigit h && isHexDigit l | _ => false end.

(* no '%' is followed by two hex digits *)
Fixpoint no_pct_hex (s : list N) : bool :=
  match s with
  | [] => true
  | b :: s' => negb ((b =? 37) && starts_hh s') && no_pct_hex s'
  end.

Lemma no_pct_hex_suffix : forall a b, no_pct_hex (a ++ b) = true -> no_pct_hex b = true.
Proof.
  induction a as [|x a IH]; intros b H; [exact H|].
  cbn [app no_pct_hex] in H. apply andb_true_iff in H. apply IH. apply H.
Qed.

Lemma no_pct_hex_runes : forall rs, no_pct_hex (flat_map utf8_enc rs) = true -> no_pct_hex rs = true.
Proof.
  induction rs as [|r rs IH]; intros H; [reflexivity|].
  cbn [flat_map] in H. cbn [no_pct_hex]. apply andb_true_iff. split.
  - apply negb_true_iff. destruct (r =? 37) eqn:E; [|reflexivity]. cbn [andb].
    destruct (starts_hh rs) eqn:S; [|reflexivity]. exfalso.
    destruct rs as [|h [|l rs]]; try discriminate S. cbn [starts_hh] in S.
    apply andb_true_iff in S. destruct S as [S1 S2].
    assert (r = 37) by lia. subst r.
    cbn [flat_map] in H.
    rewrite (utf8_enc_ascii 37), (utf8_enc_ascii h), (utf8_enc_ascii l) in H
      by (first [lia | apply hexdigit_lt128; assumption]).
    cbn [app no_pct_hex starts_hh] in H. rewrite S1, S2 in H. discriminate H.
  - apply IH. exact (no_pct_hex_suffix _ _ H).
Qed.

Section Codec.
  Variable c : cfg.
  Hypothesis Hlatin : c_latin1 c = false.

  Notation D := (DecodePercentEncoded c).
  Notation P := plus_to_space.

  (* one code point of QueryEscape *)
  Definition qe_chunk (b : N) : str :=
    if b =? 32 then [43]
    else if (b =? 38) || (b =? 61) || (b =? 43) then percentEncodeRune c b None
    else percentEncodeRune c b (Some (c_querySet c)).

  Lemma QueryEscape_chunks : forall s, QueryEscape c s = flat_map qe_chunk (runes s).
  Proof. reflexivity. Qed.

  Lemma qe_chunk_cases : forall r,
    (r = 32 /\ qe_chunk r = [43]) \/
    (r <> 32 /\ qe_chunk r = flat_map pct_byte (utf8_enc r)) \/
    (qe_chunk r = [r] /\ r <> 32 /\ r <> 43 /\ r <> 38 /\ r <> 61 /\ r < 127 /\
     RuneShouldBeEncoded (c_querySet c) r = false).
  Proof.
    intros r. unfold qe_chunk, percentEncodeRune. rewrite Hlatin.
    destruct (r =? 32) eqn:E1; [left; split; [lia | reflexivity]|].
    destruct ((r =? 38) || (r =? 61) || (r =? 43)) eqn:E2; [right; left; split; [lia | reflexivity]|].
    destruct (RuneShouldBeEncoded (c_querySet c) r) eqn:E3; [right; left; split; [lia | reflexivity]|].
    right; right. assert (L : r < 127).
    { unfold RuneShouldBeEncoded in E3. apply orb_false_iff in E3. destruct E3 as [E3 _].
      apply orb_false_iff in E3. destruct E3 as [_ E3]. lia. }
    rewrite utf8_enc_ascii by lia. repeat split; try lia.
  Qed.

  Lemma qe_chunk_nonempty : forall r, exists b bs, qe_chunk r = b :: bs.
  Proof.
    intros r. destruct (qe_chunk_cases r) as [[_ H]|[[_ H]|[H _]]]; rewrite H; eauto.
    destruct (utf8_enc_nonempty r) as (x & xs & ->). cbn [flat_map pct_byte app]. eauto.
  Qed.

  (* the escaped form contains neither '&' nor '=', and '+' only for a space *)
  Lemma qe_chunk_clean : forall r b, In b (qe_chunk r) -> b <> 38 /\ b <> 61.
  Proof.
    intros r b H. destruct (qe_chunk_cases r) as [[_ E]|[[_ E]|[E K]]]; rewrite E in H.
    - destruct H as [<-|[]]. lia.
    - apply pct_bytes_clean in H. tauto.
    - destruct H as [<-|[]]. lia.
  Qed.

  Theorem QueryEscape_clean : forall s b, In b (QueryEscape c s) -> b <> 38 /\ b <> 61.
  Proof.
    intros s b H. rewrite QueryEscape_chunks in H. apply in_flat_map in H.
    destruct H as (r & _ & H). exact (qe_chunk_clean r b H).
  Qed.

  Lemma QueryEscape_nonempty : forall s, s <> [] -> QueryEscape c s <> [].
  Proof.
    intros s H. destruct s as [|b s]; [congruence|]. rewrite QueryEscape_chunks.
    destruct (runes_nonempty b s) as (r & rs & ->). cbn [flat_map].
    destruct (qe_chunk_nonempty r) as (x & xs & ->). discriminate.
  Qed.

  (* ----- percent-decoding ----- *)
  Lemma D_other : forall b X, b <> 37 -> D (b :: X) = b :: D X.
  Proof.
    intros b X H. cbn [DecodePercentEncoded]. destruct (b =? 37) eqn:E; [lia | reflexivity].
  Qed.

  Lemma D_pct : forall h l X,
    D (37 :: h :: l :: X) =
    if isHexDigit h && isHexDigit l then (hex_val h * 16 + hex_val l) :: D X else 37 :: D (h :: l :: X).
  Proof.
    intros h l X. cbn [DecodePercentEncoded]. change (37 =? 37) with true. cbv iota.
    rewrite Hlatin. reflexivity.
  Qed.

  Lemma D_37_nohex : forall X, starts_hh X = false -> D (37 :: X) = 37 :: D X.
  Proof.
    intros X H. destruct X as [|h [|l X]]; try reflexivity.
    rewrite D_pct. cbn [starts_hh] in H. rewrite H. reflexivity.
  Qed.

  Lemma D_pct_byte : forall b X, b < 256 -> D (pct_byte b ++ X) = b :: D X.
  Proof.
    intros b X H. unfold pct_byte. cbn [app]. rewrite D_pct.
    destruct (pct_byte_hex b H) as [H1 H2]. rewrite H1, H2. reflexivity.
  Qed.

  Lemma D_pct_bytes : forall bs X, (forall b, In b bs -> b < 256) ->
    D (flat_map pct_byte bs ++ X) = bs ++ D X.
  Proof.
    induction bs as [|b bs IH]; intros X H; [reflexivity|].
    cbn [flat_map]. rewrite <- app_assoc. rewrite D_pct_byte by (apply H; left; reflexivity).
    rewrite IH by (intros x Hx; apply H; right; exact Hx). reflexivity.
  Qed.

  Lemma P_pct_bytes : forall bs, P (flat_map pct_byte bs) = flat_map pct_byte bs.
  Proof.
    intros bs. apply plus_to_space_id. intros H. apply pct_bytes_clean in H. lia.
  Qed.

  (* the first byte of an escaped string is a hex digit only if it is an unescaped hex digit *)
  Lemma chunk_head : forall r Y, exists x T,
    P (qe_chunk r ++ Y) = x :: T /\ (isHexDigit x = true -> isHexDigit r = true /\ T = P Y).
  Proof.
    intros r Y. rewrite plus_to_space_app.
    destruct (qe_chunk_cases r) as [[_ E]|[[_ E]|[E K]]]; rewrite E.
    - exists 32, (P Y). split; [reflexivity|]. intros H. discriminate H.
    - rewrite P_pct_bytes. destruct (utf8_enc_nonempty r) as (b & bs & ->).
      cbn [flat_map pct_byte app]. eexists 37, _. split; [reflexivity|]. intros H. discriminate H.
    - exists r, (P Y). split.
      + rewrite plus_to_space_id; [reflexivity|]. intros [H|[]]. lia.
      + intros H. split; [exact H | reflexivity].
  Qed.

  Lemma starts_hh_chunks : forall rs, starts_hh (P (flat_map qe_chunk rs)) = true -> starts_hh rs = true.
  Proof.
    intros rs H. destruct rs as [|r1 rs]; [discriminate H|].
    cbn [flat_map] in H. destruct (chunk_head r1 (flat_map qe_chunk rs)) as (x & T & E & K).
    rewrite E in H. destruct T as [|l T]; [discriminate H|]. cbn [starts_hh] in H.
    apply andb_true_iff in H. destruct H as [H1 H2]. destruct (K H1) as [K1 K2].
    destruct rs as [|r2 rs]; [discriminate K2|].
    cbn [flat_map] in K2. destruct (chunk_head r2 (flat_map qe_chunk rs)) as (x2 & T2 & E2 & K').
    rewrite E2 in K2. inversion K2; subst x2 T2. destruct (K' H2) as [K3 _].
    cbn [starts_hh]. rewrite K1, K3. reflexivity.
  Qed.

  (* '%' is left alone by the serializer unless the query set contains it *)
  Definition pct_ok (s : list N) : bool := RuneShouldBeEncoded (c_querySet c) 37 || no_pct_hex s.

  Lemma pct_ok_tail : forall r rs, pct_ok (r :: rs) = true -> pct_ok rs = true.
  Proof.
    intros r rs H. unfold pct_ok in *. destruct (RuneShouldBeEncoded (c_querySet c) 37); [reflexivity|].
    cbn [orb no_pct_hex] in *. apply andb_true_iff in H. apply H.
  Qed.

  Lemma decode_escape_runes : forall rs, pct_ok rs = true ->
    D (P (flat_map qe_chunk rs)) = flat_map utf8_enc rs.
  Proof.
    induction rs as [|r rs IH]; intros H; [reflexivity|].
    specialize (IH (pct_ok_tail r rs H)). cbn [flat_map]. rewrite plus_to_space_app.
    destruct (qe_chunk_cases r) as [[E0 E]|[[_ E]|[E K]]]; rewrite E.
    - subst r. change (P [43]) with [32]. cbn [app]. rewrite D_other by lia.
      rewrite IH. rewrite utf8_enc_ascii by lia. reflexivity.
    - rewrite P_pct_bytes. rewrite D_pct_bytes by (apply utf8_enc_bytes). rewrite IH. reflexivity.
    - destruct K as (K1 & K2 & K3 & K4 & K5 & K6).
      rewrite plus_to_space_id by (intros [HH|[]]; lia). rewrite utf8_enc_ascii by lia. cbn [app].
      destruct (N.eq_dec r 37) as [->|N37].
      + rewrite D_37_nohex; [rewrite IH; reflexivity|].
        unfold pct_ok in H. rewrite K6 in H. cbn [orb no_pct_hex] in H.
        apply andb_true_iff in H. destruct H as [H _]. apply negb_true_iff in H.
        change (37 =? 37) with true in H. cbn [andb] in H.
        destruct (starts_hh (P (flat_map qe_chunk rs))) eqn:S; [|reflexivity].
        apply starts_hh_chunks in S. congruence.
      + rewrite D_other by exact N37. rewrite IH. reflexivity.
  Qed.

  Lemma pct_ok_runes : forall s, valid_utf8 s = true -> pct_ok s = true -> pct_ok (runes s) = true.
  Proof.
    intros s HV H. unfold pct_ok in *. destruct (RuneShouldBeEncoded (c_querySet c) 37); [reflexivity|].
    cbn [orb] in *. apply no_pct_hex_runes. fold (encode_runes (runes s)).
    rewrite valid_utf8_roundtrip by exact HV. exact H.
  Qed.

  (* escape, then '+' to space, then percent-decode: the identity on valid UTF-8 without %HH *)
  Theorem QueryEscape_decode : forall s, valid_utf8 s = true -> pct_ok s = true ->
    sp_scalar c (D (P (QueryEscape c s))) = s.
  Proof.
    intros s HV H. rewrite QueryEscape_chunks, decode_escape_runes by (apply pct_ok_runes; assumption).
    fold (encode_runes (runes s)). rewrite valid_utf8_roundtrip by exact HV.
    unfold sp_scalar. rewrite HV, orb_true_r. reflexivity.
  Qed.

  (* ----- one pair ----- *)
  Definition ser_pair (nv : pair) : str :=
    let '(n, v) := nv in
    QueryEscape c n ++ (if negb (c_skipEq c) || negb (is_nil v) then [61] else []) ++
    (if negb (is_nil v) then QueryEscape c v else []).

  Definition init_elem (q : str) : list pair :=
    match q with
    | [] => []
    | _ => let '(k, v) := cut 61 q in
           [(sp_scalar c (D (P k)),
             match v with Some v => sp_scalar c (D (P v)) | None => [] end)]
    end.

  Lemma sp_string_is : forall l, sp_string c l = join [38] (map ser_pair l).
  Proof. reflexivity. Qed.
  Lemma sp_init_is : forall q, sp_init c q = flat_map init_elem (split 38 q).
  Proof. reflexivity. Qed.

  Definition pair_ok (nv : pair) : bool :=
    valid_utf8 (fst nv) && valid_utf8 (snd nv) && pct_ok (fst nv) && pct_ok (snd nv) &&
    (negb (c_skipEq c) || negb (is_nil (fst nv) && is_nil (snd nv))).

  Lemma ser_pair_no_amp : forall p, ~ In 38 (ser_pair p).
  Proof.
    intros [n v] H. unfold ser_pair in H. apply in_app_or in H. destruct H as [H|H].
    - apply QueryEscape_clean in H. lia.
    - apply in_app_or in H. destruct H as [H|H].
      + destruct (negb (c_skipEq c) || negb (is_nil v)); [destruct H as [H|[]]; lia | destruct H].
      + destruct (negb (is_nil v)); [apply QueryEscape_clean in H; lia | destruct H].
  Qed.

  Lemma no61 : forall s, ~ In 61 (QueryEscape c s).
  Proof. intros s H. apply QueryEscape_clean in H. lia. Qed.

  Lemma sp_scalar_nil : sp_scalar c [] = [].
  Proof. unfold sp_scalar. destruct (c_acceptInvalid c || valid_utf8 []); reflexivity. Qed.

  Lemma init_elem_cons : forall b q, init_elem (b :: q) =
    let '(k, v) := cut 61 (b :: q) in
    [(sp_scalar c (D (P k)), match v with Some v => sp_scalar c (D (P v)) | None => [] end)].
  Proof. reflexivity. Qed.

  Lemma init_ser_pair : forall p, pair_ok p = true -> init_elem (ser_pair p) = [p].
  Proof.
    intros [n v] H. unfold pair_ok in H. cbn [fst snd] in H.
    apply andb_true_iff in H. destruct H as [H H5].
    apply andb_true_iff in H. destruct H as [H H4].
    apply andb_true_iff in H. destruct H as [H H3].
    apply andb_true_iff in H. destruct H as [H1 H2].
    pose proof (QueryEscape_decode n H1 H3) as Rn.
    pose proof (QueryEscape_decode v H2 H4) as Rv.
    unfold ser_pair. destruct v as [|vb v].
    - cbn [is_nil negb]. rewrite orb_false_r, app_nil_r.
      destruct (c_skipEq c) eqn:SE; cbn [negb].
      + rewrite app_nil_r. cbn [negb orb andb is_nil] in H5.
        assert (NN : n <> []) by (destruct n; [discriminate H5 | discriminate]).
        pose proof (QueryEscape_nonempty n NN) as NE.
        destruct (QueryEscape c n) as [|qb qn] eqn:EQ; [congruence|].
        rewrite init_elem_cons. rewrite <- EQ in *. rewrite cut_none by apply no61.
        rewrite Rn. reflexivity.
      + destruct (QueryEscape c n ++ [61]) as [|qb qn] eqn:EQ.
        { apply app_eq_nil in EQ. destruct EQ; discriminate. }
        rewrite init_elem_cons. rewrite <- EQ. rewrite cut_found by apply no61.
        rewrite Rn. change (P []) with (@nil N). change (D []) with (@nil N). rewrite sp_scalar_nil. reflexivity.
    - cbn [is_nil negb]. rewrite orb_true_r.
      destruct (QueryEscape c n ++ [61] ++ QueryEscape c (vb :: v)) as [|qb qn] eqn:EQ.
      { apply app_eq_nil in EQ. destruct EQ as [_ EQ]; discriminate. }
      rewrite init_elem_cons. rewrite <- EQ. cbn [app]. rewrite cut_found by apply no61.
      rewrite Rn, Rv. reflexivity.
  Qed.

  (* ----- the round trip ----- *)
  Theorem sp_roundtrip_gen : forall l, forallb pair_ok l = true -> sp_init c (sp_string c l) = l.
  Proof.
    intros l. rewrite sp_string_is. induction l as [|p l IH]; intros H; [reflexivity|].
    cbn [forallb] in H. apply andb_true_iff in H. destruct H as [Hp Hl]. specialize (IH Hl).
    destruct l as [|p' l].
    - cbn [map join]. rewrite sp_init_is, split_single by apply ser_pair_no_amp.
      cbn [flat_map]. rewrite init_ser_pair by exact Hp. reflexivity.
    - change (join [38] (map ser_pair (p :: p' :: l)))
        with (ser_pair p ++ 38 :: join [38] (map ser_pair (p' :: l))).
      rewrite sp_init_is, split_cons by apply ser_pair_no_amp.
      cbn [flat_map]. rewrite <- sp_init_is, IH. rewrite init_ser_pair by exact Hp. reflexivity.
  Qed.
End Codec.

(* ---------- the theorem ---------- *)
(* For every configuration without the Latin-1 encoding override and every list of pairs whose
   names and values are valid UTF-8 and (unless the configured query set escapes '%') contain no
   "%HH" triple, and (if skipEqualsForEmptySearchParamsValue is on) no pair is ("",""):
   parsing the serialization gives the list back. Nothing is assumed about the query
   percent-encode set, about acceptInvalidCodepoints, or about names being non-empty. *)
Theorem sp_roundtrip : forall c l,
  c_latin1 c = false -> forallb (pair_ok c) l = true -> sp_init c (sp_string c l) = l.
Proof. intros c l H1 H2. apply sp_roundtrip_gen; assumption. Qed.

(* the statement for the default query set, with the side conditions spelled out *)
Definition str_ok (s : str) : bool := valid_utf8 s && no_pct_hex s.

Theorem sp_roundtrip_default : forall c l,
  c_latin1 c = false -> c_skipEq c = false -> c_querySet c = pes_Query ->
  forallb (fun nv : pair => str_ok (fst nv) && str_ok (snd nv)) l = true ->
  sp_init c (sp_string c l) = l.
Proof.
  intros c l H1 H2 H3 H4. apply sp_roundtrip; [exact H1|].
  rewrite forallb_forall in *. intros [n v] HI. specialize (H4 _ HI). cbn [fst snd] in H4.
  unfold str_ok in H4. apply andb_true_iff in H4. destruct H4 as [Hn Hv].
  apply andb_true_iff in Hn. destruct Hn as [Hn1 Hn2].
  apply andb_true_iff in Hv. destruct Hv as [Hv1 Hv2].
  unfold pair_ok, pct_ok. cbn [fst snd]. rewrite Hn1, Hv1, Hn2, Hv2, H2, !orb_true_r. reflexivity.
Qed.

(* the mutation/reparse law that ties parts 3 and 4 together: after any SearchParams mutation
   the query of the URL parses back to the list *)
Theorem sp_update_reparse : forall c u l,
  c_latin1 c = false -> forallb (pair_ok c) l = true ->
  sp_init c (Query (sp_update c u l)) = l.
Proof. intros c u l H1 H2. rewrite sp_update_Query. apply sp_roundtrip; assumption. Qed.

(* premises are satisfiable: "a&b =+%" -> "é%%4", "" -> "", "" -> "x", "%4" -> "1" *)
Example sp_roundtrip_premises :
  c_latin1 default_cfg = false /\
  forallb (pair_ok default_cfg)
    [([97;38;98;32;61;43;37], [195;169;37;37;52]); ([], []); ([], [120]); ([37;52], [49])] = true.
Proof. split; vm_compute; reflexivity. Qed.

Example sp_roundtrip_instance :
  sp_string default_cfg [([97;38;98;32;61;43;37], [195;169;37;37;52]); ([], []); ([], [120]); ([37;52], [49])]
  = [97;37;50;54;98;43;37;51;68;37;50;66;37;61;37;67;51;37;65;57;37;37;52;38;61;38;61;120;38;37;52;61;49].
Proof. vm_compute. reflexivity. Qed.

(* ---------- every side condition is necessary ---------- *)
Definition cfg_with (c : cfg) (acceptInvalid latin1 skipEq : bool) : cfg :=
  {| c_report := c_report c; c_fail := c_fail c; c_lax := c_lax c; c_collapse := c_collapse c;
     c_acceptInvalid := acceptInvalid; c_pre := c_pre c; c_post := c_post c; c_singlePct := c_singlePct c;
     c_allowPathNonBase := c_allowPathNonBase c; c_skipDrive := c_skipDrive c; c_special := c_special c;
     c_skipTrailSlash := c_skipTrailSlash c; c_latin1 := latin1; c_pathSet := c_pathSet c;
     c_squerySet := c_squerySet c; c_querySet := c_querySet c; c_sfragSet := c_sfragSet c;
     c_fragSet := c_fragSet c; c_skipEq := skipEq |}.

(* D8b: the serializer does not escape '%': ("%41","") comes back as ("A","") *)
Theorem sp_roundtrip_refuted :
  exists l, forallb (fun nv : pair => valid_utf8 (fst nv) && valid_utf8 (snd nv)) l = true /\
            sp_init default_cfg (sp_string default_cfg l) <> l.
Proof. exists [([37;52;49], [])]. split; [reflexivity | vm_compute; discriminate]. Qed.

Example sp_roundtrip_refuted_value :
  sp_string default_cfg [([37;52;49], [])] = [37;52;49;61] /\
  sp_init default_cfg [37;52;49;61] = [([65], [])].
Proof. split; vm_compute; reflexivity. Qed.

(* invalid UTF-8 does not survive, even when the parser accepts invalid code points *)
Theorem sp_roundtrip_invalid_utf8_refuted :
  exists l, forallb (fun nv : pair => no_pct_hex (fst nv) && no_pct_hex (snd nv)) l = true /\
            sp_init default_cfg (sp_string default_cfg l) <> l /\
            sp_init (cfg_with default_cfg true false false) (sp_string (cfg_with default_cfg true false false) l) <> l.
Proof. exists [([255], [])]. split; [reflexivity | split; vm_compute; discriminate]. Qed.

(* with the Latin-1 override code points above U+00FF are lost (serialized as %1A) *)
Theorem sp_roundtrip_latin1_refuted :
  exists l, forallb (pair_ok (cfg_with default_cfg false true false)) l = true /\
            sp_init (cfg_with default_cfg false true false) (sp_string (cfg_with default_cfg false true false) l) <> l.
Proof. exists [([196;128], [])]. split; [vm_compute; reflexivity | vm_compute; discriminate]. Qed.

(* with skipEqualsForEmptySearchParamsValue the pair ("","") serializes to nothing *)
Theorem sp_roundtrip_skipEq_refuted :
  exists l, forallb (fun nv : pair => str_ok (fst nv) && str_ok (snd nv)) l = true /\
            sp_init (cfg_with default_cfg false false true) (sp_string (cfg_with default_cfg false false true) l) <> l.
Proof. exists [([], [])]. split; [reflexivity | vm_compute; discriminate]. Qed.

Print Assumptions valid_utf8_roundtrip.
Print Assumptions QueryEscape_decode.
Print Assumptions sp_roundtrip.
Print Assumptions sp_roundtrip_default.
Print Assumptions sp_update_reparse.
Print Assumptions sp_roundtrip_refuted.
Print Assumptions sp_roundtrip_invalid_utf8_refuted.
Print Assumptions sp_roundtrip_latin1_refuted.
Print Assumptions sp_roundtrip_skipEq_refuted.
