(* R8: one-step simulation for the scheme start state, the scheme state and the no scheme state. *)
From Verif Require Import Lib.Base Lib.Utf8 Lib.GoStr Model.Cfg Gen.Tables Gen.Options Model.Sets Model.Percent
     Model.Url Model.Host Model.Machine.
From Verif Require Spec.Url Spec.Host Spec.BasicParser.
From Verif Require Import Spec.PercentSets Spec.PercentCodec.
From Verif Require Import Proofs.Utf8Proofs Proofs.SetsProofs Proofs.RefineUtf8 Proofs.RefineCodec
     Proofs.RefineHost Proofs.RefineMachineBase.
From Coq Require Import Lia ZifyBool ZifyN ZifyNat.

(* ------------------------------------------------------------------ *)
(* small facts                                                          *)
(* ------------------------------------------------------------------ *)
Lemma is_some_map_s {A B} (f : A -> B) o : is_some (option_map f o) = is_some o.
Proof. destruct o; reflexivity. Qed.

Lemma str_eqb_sym a b : str_eqb a b = str_eqb b a.
Proof.
  apply Bool.eq_true_iff_eq. rewrite !str_eqb_true. split; intros H; symmetry; exact H.
Qed.

Lemma cps_eqb_sym a b : SU.cps_eqb a b = SU.cps_eqb b a.
Proof.
  apply Bool.eq_true_iff_eq. rewrite !cps_eqb_true. split; intros H; symmetry; exact H.
Qed.

Lemma alpha_lt r : ascii_alpha r = true -> r < 128.
Proof. unfold ascii_alpha. lia. Qed.

Lemma lower_lt r : r < 128 -> ascii_lower r < 128.
Proof. unfold ascii_lower, is_upper. destruct ((65 <=? r) && (r <=? 90)) eqn:E; lia. Qed.

Lemma scheme_char_lt r : ascii_alphanumeric r || (r =? 43) || (r =? 45) || (r =? 46) = true -> r < 128.
Proof. unfold ascii_alphanumeric, ascii_digit, ascii_alpha. lia. Qed.

(* the byte appended to the model's buffer and the code point appended to the standard's *)
Lemma buf_snoc sbuf r : ascii sbuf -> r < 128 ->
  encode_runes sbuf ++ utf8_enc (ascii_lower r) = encode_runes (sbuf ++ [SB.ascii_lowercase r]) /\
  ascii (sbuf ++ [SB.ascii_lowercase r]).
Proof.
  intros Hs Hr. change (SB.ascii_lowercase r) with (ascii_lower r). pose proof (lower_lt r Hr) as Hl. split.
  - rewrite enc_runes_app. f_equal. rewrite (enc_runes_ascii [ascii_lower r]) by (repeat constructor; exact Hl).
    apply utf8_enc_ascii. exact Hl.
  - unfold ascii. apply Forall_app. split; [exact Hs|]. repeat constructor. exact Hl.
Qed.

Section States.
  Variable idna_raw : str -> str * bool.
  Variable c : cfg.
  Hypothesis Hstd : std_cfg c.
  Variable inp : list rune.
  Let input : list N := map rv inp.
  Variable base : option url.
  Variable sbase : option SU.surl.
  Variable override : option state.
  Hypothesis Hbase : base_rel base sbase.
  Hypothesis Hwf : base_wf sbase.

  Let Hfail := std_fail c Hstd.
  Let Hspecial := std_special_tab c Hstd.

  Notation sim_for := (step_sim_for idna_raw c inp base sbase override).

  (* ---------------------------------------------------------------- *)
  (* scheme start state                                                *)
  (* ---------------------------------------------------------------- *)
  Theorem sim_scheme_start : sim_for (fun st => st = SchemeStart).
  Proof.
    intros mm sm Hst [Hs Hp He Hlo Hhi Hfl Hb].
    rewrite Hst in Hs, Hb. cbn [st_map] in Hs. cbn [st_rel] in Hb.
    destruct Hb as [Hbuf [Hsb [HR [Hlp Hfh]]]].
    unfold mstep, sstep, step, SB.step. rewrite Hst, <- Hs. cbv beta iota zeta. rewrite He, Hp.
    set (p := (m_ptr mm + 1)%Z).
    unfold SB.scheme_start_state, SB.override_given, overridden. rewrite is_some_map_s.
    (* what happens when c is not an ASCII alpha *)
    assert (G : forall e,
      out_rel inp (is_some override) sbase
        (if negb (is_some override) then Cont (mk NoScheme (p - 1) false (m_buf mm) (m_at mm) (m_br mm) (m_pw mm) (m_url mm))
         else mherr c (m_url mm) InvalidURLUnit true
                (fun u' => Cont (mk SchemeStart p e (m_buf mm) (m_at mm) (m_br mm) (m_pw mm) u')))
        (if negb (is_some override) then SB.SCont (SB.decrease_pointer (SB.set_state sm SB.NoSchemeState) 1)
         else SB.SFail (SB.m_url sm))).
    { intros e. destruct (is_some override) eqn:Eo; cbn [negb].
      - destruct (mherr_fatal c (m_url mm) InvalidURLUnit
                   (fun u' => Cont (mk SchemeStart p e (m_buf mm) (m_at mm) (m_br mm) (m_pw mm) u'))) as [er ->].
        cbn [out_rel]. apply R_noted. exact HR.
      - cbn [out_rel].
        constructor; unfold mk; cbn [m_state m_ptr m_eof m_buf m_at m_br m_pw m_url st_map st_rel].
        + destruct sm; reflexivity.
        + destruct sm; cbn in *; lia.
        + lia.
        + rewrite points_to_eof_spec. lia.
        + destruct sm; exact Hfl.
        + destruct sm as [su sst sbuf sa sbr spw sp]. cbn in *.
          split; [exact Hbuf|]. split; [exact Hsb|]. split; [exact HR|]. apply Hlp. reflexivity.
        + discriminate. }
    destruct (n_inp inp <=? p)%Z eqn:En.
    - (* the EOF code point *)
      unfold input. rewrite here_eof by lia. cbn [SB.c_of hd_error].
      change (isAlpha rune_error) with false. cbv iota. apply G.
    - unfold input. rewrite (here_cons inp p) by lia. cbn [SB.c_of hd_error].
      set (r := cp_at inp p).
      rewrite alpha_table.
      destruct (ascii_alpha r) eqn:Ea; [|apply G].
      cbn [out_rel].
      destruct (buf_snoc [] r ltac:(constructor) (alpha_lt r Ea)) as [E1 E2].
      constructor; unfold mk; cbn [m_state m_ptr m_eof m_buf m_at m_br m_pw m_url st_map st_rel].
      + destruct sm; reflexivity.
      + destruct sm; exact Hp.
      + lia.
      + rewrite points_to_eof_spec. lia.
      + destruct sm; exact Hfl.
      + destruct sm as [su sst sbuf sa sbr spw sp]. cbn in *. subst sbuf.
        rewrite Hbuf. split; [exact E1|]. split; [exact E2|]. split; [exact HR|]. split; [exact Hlp|exact Hfh].
      + discriminate.
  Qed.


  (* ---------------------------------------------------------------- *)
  (* scheme state                                                      *)
  (* ---------------------------------------------------------------- *)
  Lemma eof_not_scheme_char :
    isAlnum rune_error || (rune_error =? 43) || (rune_error =? 45) || (rune_error =? 46) = false.
  Proof. vm_compute. reflexivity. Qed.

  Theorem sim_scheme : sim_for (fun st => st = Scheme).
  Proof.
    intros mm sm Hst [Hs Hp He Hlo Hhi Hfl Hb].
    rewrite Hst in Hs, Hb. cbn [st_map] in Hs. cbn [st_rel] in Hb.
    destruct Hb as [Hbuf [Hasc [HR [Hlp Hfh]]]].
    destruct sm as [su sst sbuf sa sbr spw sp].
    cbn [SB.m_url SB.m_buffer SB.m_state SB.m_pointer] in *. subst sst sp.
    unfold mstep, sstep, step, SB.step. cbn [SB.m_state SB.m_pointer]. rewrite Hst. cbv beta iota zeta. rewrite He.
    set (p := (m_ptr mm + 1)%Z).
    unfold SB.scheme_state, SB.override_given, overridden. rewrite is_some_map_s.
    cbn [SB.m_url SB.m_buffer].
    set (sm := SB.mkM su SB.SchemeState sbuf sa sbr spw p).
    (* steps 3 and 4: neither a scheme character nor ':' *)
    assert (G34 : forall e,
      out_rel inp (is_some override) sbase
        (if negb (is_some override) then Cont (mk NoScheme (-1) false [] (m_at mm) (m_br mm) (m_pw mm) (m_url mm))
         else mherr c (m_url mm) InvalidURLUnit true
                (fun u' => Cont (mk Scheme p e (m_buf mm) (m_at mm) (m_br mm) (m_pw mm) u')))
        (if negb (is_some override)
         then SB.SCont (SB.set_pointer (SB.set_state (SB.set_buffer sm []) SB.NoSchemeState) (-1))
         else SB.SFail su)).
    { intros e. destruct (is_some override) eqn:Eo; cbn [negb].
      - destruct (mherr_fatal c (m_url mm) InvalidURLUnit
                   (fun u' => Cont (mk Scheme p e (m_buf mm) (m_at mm) (m_br mm) (m_pw mm) u'))) as [er ->].
        cbn [out_rel]. apply R_noted. exact HR.
      - cbn [out_rel].
        constructor; unfold mk; cbn [m_state m_ptr m_eof m_buf m_at m_br m_pw m_url st_map st_rel].
        + reflexivity.
        + reflexivity.
        + lia.
        + rewrite points_to_eof_spec. reflexivity.
        + exact Hfl.
        + cbn. split; [reflexivity|]. split; [reflexivity|]. split; [exact HR|]. apply Hlp. reflexivity.
        + discriminate. }
    destruct (n_inp inp <=? p)%Z eqn:En.
    - (* the EOF code point *)
      unfold input. rewrite here_eof by lia. cbn [SB.c_of hd_error].
      rewrite eof_not_scheme_char. change (rune_error =? 58) with false. cbv iota. apply G34.
    - unfold input. rewrite (here_cons inp p) by lia. cbn [SB.c_of hd_error].
      set (r := cp_at inp p).
      rewrite alnum_table.
      destruct (ascii_alphanumeric r || (r =? 43) || (r =? 45) || (r =? 46)) eqn:Esc.
      { (* a scheme character *)
        cbn [out_rel].
        destruct (buf_snoc sbuf r Hasc (scheme_char_lt r Esc)) as [E1 E2].
        constructor; unfold mk; cbn [m_state m_ptr m_eof m_buf m_at m_br m_pw m_url st_map st_rel].
        + reflexivity.
        + reflexivity.
        + lia.
        + rewrite points_to_eof_spec. lia.
        + exact Hfl.
        + cbn [SB.m_url SB.m_buffer SB.append_to_buffer SB.set_buffer sm].
          rewrite Hbuf. split; [exact E1|]. split; [exact E2|]. split; [exact HR|]. split; [exact Hlp|exact Hfh].
        + discriminate. }
      destruct (r =? 58) eqn:E58; [|apply G34].
      (* ':' *)
      set (u := m_url mm) in *. rewrite Hbuf.
      assert (Esu : isSpecialScheme c (u_scheme u) = SU.is_special_scheme (SU.u_scheme su)).
      { rewrite (RU.R_scheme u su HR). apply special_scheme_spec. exact Hspecial. }
      assert (Esb : isSpecialScheme c (encode_runes sbuf) = SU.is_special_scheme sbuf).
      { apply special_scheme_spec. exact Hspecial. }
      assert (E4 : str_eqb (u_scheme u) s_file && match u_host u with Some h => is_nil h | None => true end =
                   SU.cps_eqb (SU.u_scheme su) SU.sc_file &&
                   match SU.u_host su with Some h => SU.host_is_empty h | None => false end).
      { rewrite (R_scheme_file u su HR). destruct (SU.cps_eqb (SU.u_scheme su) SU.sc_file) eqn:Ef; [|reflexivity].
        cbn [andb]. apply R_host_empty; [exact HR|]. apply Hfh. exact Ef. }
      rewrite Esu, Esb, E4, (RU.R_includes_credentials u su HR), (R_port_some u su HR), RP.str_eqb_encode_file.
      destruct (is_some override &&
                (SU.is_special_scheme (SU.u_scheme su) && negb (SU.is_special_scheme sbuf)
                 || negb (SU.is_special_scheme (SU.u_scheme su)) && SU.is_special_scheme sbuf
                 || (SU.includes_credentials su || is_some (SU.u_port su)) && SU.cps_eqb sbuf SU.sc_file
                 || SU.cps_eqb (SU.u_scheme su) SU.sc_file &&
                    match SU.u_host su with Some h => SU.host_is_empty h | None => false end)) eqn:Eearly.
      { cbn [out_rel]. exact HR. }
      pose proof (R_set_scheme u su sbuf HR) as HR'.
      destruct (is_some override) eqn:Eo.
      { cbn [out_rel]. exact (R_cleanDefaultPort c _ _ Hspecial HR'). }
      specialize (Hlp eq_refl).
      cbn [set_scheme u_scheme SU.with_scheme SU.u_scheme].
      change (IsSpecialScheme c (set_scheme u (encode_runes sbuf))) with (isSpecialScheme c (encode_runes sbuf)).
      rewrite RP.str_eqb_encode_file, Esb.
      change (SU.url_is_special (SU.with_scheme su sbuf)) with (SU.is_special_scheme sbuf).
      fold (SU.with_scheme su sbuf). fold (set_scheme u (encode_runes sbuf)).
      set (u' := set_scheme u (encode_runes sbuf)) in *. set (su' := SU.with_scheme su sbuf) in *.
      assert (Hlp' : list_path su') by exact Hlp.
      (* the comparison of the base's scheme *)
      set (mb := match base with Some b => str_eqb (u_scheme b) (encode_runes sbuf) | None => false end).
      set (sb_ := match sbase with Some b => SU.cps_eqb (SU.u_scheme b) sbuf | None => false end).
      assert (Emb : mb = sb_).
      { unfold mb, sb_. destruct base as [b|], sbase as [sb|]; cbn [base_rel] in Hbase; try contradiction; [|reflexivity].
        rewrite (RU.R_scheme b sb Hbase), (enc_runes_ascii sbuf Hasc). apply RP.str_eqb_encode_cps. exact Hasc. }
      assert (Hbnf : SU.cps_eqb sbuf SU.sc_file = false -> SU.is_special_scheme sbuf = true -> sb_ = true ->
                     base_not_file sbase).
      { unfold sb_. intros Ef Esp Eq. destruct sbase as [sb|]; [|discriminate Eq].
        apply cps_eqb_true in Eq. exists sb. split; [reflexivity|]. rewrite Eq. split; [exact Ef|].
        apply (Hwf sb eq_refl). unfold SU.url_is_special. rewrite Eq. exact Esp. }
      rewrite Emb. clearbody mb sb_. clear Emb mb.
      (* the five ways to go on *)
      assert (GC : forall st' uu, R uu su' ->
        match st' with File | SpecialAuthoritySlashes => True
                     | SpecialRelativeOrAuthority => base_not_file sbase | _ => False end ->
        out_rel inp false sbase (Cont (mk st' p false [] (m_at mm) (m_br mm) (m_pw mm) uu))
          (SB.SCont (SB.set_state (SB.set_buffer (SB.set_url sm su') []) (st_map st')))).
      { intros st' uu Huu Hst'. cbn [out_rel].
        constructor; unfold mk; cbn [m_state m_ptr m_eof m_buf m_at m_br m_pw m_url].
        - reflexivity.
        - reflexivity.
        - lia.
        - rewrite points_to_eof_spec. lia.
        - exact Hfl.
        - destruct st'; try contradiction; cbn;
            (split; [reflexivity|]; split; [reflexivity|]; split; [exact Huu|]; try split; assumption).
        - discriminate. }
  Show. Abort.
End States.
