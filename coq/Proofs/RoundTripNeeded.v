(* Round trip: every stability condition and every condition on the configuration (except c_report) is needed.
   For each one a record (and configuration) that satisfies [Inv], the fixed-point condition on the host and all
   the OTHER conditions, but whose serialization does not parse back to the same components.
   Also positive examples: the premises of [roundtrip] hold for concrete, non-trivial records. *)
From Verif Require Import Lib.Base Lib.Utf8 Lib.GoStr Model.Cfg Gen.Tables Gen.Options Model.Sets Model.Percent
  Model.Url Model.Host Model.Machine Model.Api Model.Preds.
From Verif Require Import Proofs.RecordInv Proofs.RoundTripBase Proofs.RoundTrip.
From Coq Require Import Lia.

Definition idl (s : str) : str * bool := (str_lower s, false).

(* ---------- the conclusion of the theorem as a boolean ---------- *)
Definition same_b (u' u : url) : bool :=
  str_eqb (u_scheme u') (u_scheme u) && str_eqb (u_username u') (u_username u) && str_eqb (u_password u') (u_password u)
  && opt_eqb str_eqb (u_host u') (u_host u) && opt_eqb str_eqb (u_port u') (u_port u)
  && N.eqb (u_decodedPort u') (u_decodedPort u) && strs_eqb (u_path u') (u_path u) && Bool.eqb (u_opaque u') (u_opaque u)
  && opt_eqb str_eqb (u_query u') (u_query u) && opt_eqb str_eqb (u_fragment u') (u_fragment u).

Lemma opt_str_eqb_refl o : opt_eqb str_eqb o o = true.
Proof. destruct o; [apply str_eqb_refl|reflexivity]. Qed.

Lemma strs_eqb_refl l : strs_eqb l l = true.
Proof. induction l as [|x l IH]; [reflexivity|]. unfold strs_eqb in *. cbn [list_eqb]. rewrite str_eqb_refl, IH. reflexivity. Qed.

Lemma same_components_b u' u : same_components u' u -> same_b u' u = true.
Proof.
  intros [H1 [H2 [H3 [H4 [H5 [H6 [H7 [H8 [H9 H10]]]]]]]]]. unfold same_b.
  rewrite H1, H2, H3, H4, H5, H6, H7, H8, H9, H10.
  rewrite !str_eqb_refl, !opt_str_eqb_refl, N.eqb_refl, strs_eqb_refl, eqb_reflx. reflexivity.
Qed.

Definition rt_ok (idna_raw : str -> str * bool) (c : cfg) (u : url) : bool :=
  match Href u false with
  | None => false
  | Some s => match Parse idna_raw c s with PUrl u' => same_b u' u | _ => false end
  end.

(* [rt_ok = false] refutes the conclusion of [roundtrip] *)
Lemma rt_ok_false idna_raw c u : rt_ok idna_raw c u = false ->
  ~ exists s u', Href u false = Some s /\ Parse idna_raw c s = PUrl u' /\ same_components u' u.
Proof.
  intros H [s [u' [H1 [H2 H3]]]]. unfold rt_ok in H. rewrite H1, H2, (same_components_b _ _ H3) in H. discriminate.
Qed.

(* ---------- the clauses of [stable_b] ---------- *)
Definition cl_dport (u : url) : bool := dport_ok u.
Definition cl_opq_delim (u : url) : bool :=
  negb (u_opaque u) || match u_path u with [s0] => forallb (fun x => negb (x =? 63) && negb (x =? 35)) s0 | _ => true end.
Definition cl_opq_space (u : url) : bool :=
  negb (u_opaque u)
  || match u_path u with [s0] => negb (last s0 0 =? 32) || is_some (u_query u) || is_some (u_fragment u) | _ => true end.
Definition cl_dots (u : url) : bool := u_opaque u || forallb (fun s => negb (dotseg s)) (u_path u).
Definition cl_backslash (c : cfg) (u : url) : bool :=
  u_opaque u || negb (IsSpecialScheme c u) || forallb (fun s => negb (mem 92 s)) (u_path u).
Definition cl_drive (c : cfg) (u : url) : bool := u_opaque u || negb (str_eqb (u_scheme u) s_file) || drive_ok c u.
Definition cl_localhost (u : url) : bool :=
  u_opaque u || negb (str_eqb (u_scheme u) s_file) || negb (opt_eqb str_eqb (u_host u) (Some s_localhost)).

Lemma stable_b_clauses c u :
  stable_b c u = cl_dport u && cl_opq_delim u && cl_opq_space u && cl_dots u && cl_backslash c u && cl_drive c u && cl_localhost u.
Proof.
  unfold stable_b, cl_dport, cl_opq_delim, cl_opq_space, cl_dots, cl_backslash, cl_drive, cl_localhost, opq_stable, list_stable.
  destruct (dport_ok u); [|reflexivity]. destruct (u_opaque u); cbn [negb orb andb].
  - destruct (u_path u) as [|s0 [|s1 r]]; rewrite ?andb_true_r; reflexivity.
  - destruct (forallb (fun s => negb (dotseg s)) (u_path u)); [|reflexivity].
    destruct (negb (IsSpecialScheme c u) || forallb (fun s => negb (mem 92 s)) (u_path u)); [|reflexivity].
    destruct (str_eqb (u_scheme u) s_file); cbn [negb orb andb]; [|reflexivity].
    reflexivity.
Qed.

(* ---------- building records ---------- *)
Definition mku (sch user pass : str) (host port : option str) (dp : N) (path : list str) (opq : bool) (q f : option str) : url :=
  {| u_input := []; u_scheme := sch; u_username := user; u_password := pass; u_host := host; u_port := port;
     u_decodedPort := dp; u_path := path; u_opaque := opq; u_query := q; u_fragment := f; u_verrs := []; u_sp := None |}.
Definition sc : str := [115; 99].
Definition http : str := [104; 116; 116; 112].
Definition D := default_cfg.

(* the form of each witness: everything but [others] ... holds, the clause fails, the round trip fails *)
Definition witness (c : cfg) (u : url) (clause others : bool) : Prop :=
  cfg_rt c = true /\ Inv c u /\ host_fixed idl c u /\ others = true /\ clause = false /\ rt_ok idl c u = false.

Ltac host_fixed_tac := let h := fresh in let E := fresh in let u0 := fresh in
  intros h E u0; cbn in E; first [discriminate E | injection E as <-; vm_compute; reflexivity].
Ltac witness_tac :=
  split; [vm_compute; reflexivity|]; split; [apply inv_b_sound; vm_compute; reflexivity|];
  split; [host_fixed_tac|]; split; [vm_compute; reflexivity|]; split; vm_compute; reflexivity.

(* (dp) port None but a stale decodedPort: "sc://h/a" parses to decodedPort 0 *)
Example dport_needed :
  let u := mku sc [] [] (Some [104]) None 7 [[97]] false None None in
  witness D u (cl_dport u) (cl_opq_delim u && cl_opq_space u && cl_dots u && cl_backslash D u && cl_drive D u && cl_localhost u).
Proof. witness_tac. Qed.

(* (v) opaque path containing '?': "sc:a?b" parses to path "a", query "b" *)
Example opaque_question_needed :
  let u := mku sc [] [] None None 0 [[97; 63; 98]] true None None in
  witness D u (cl_opq_delim u) (cl_dport u && cl_opq_space u && cl_dots u && cl_backslash D u && cl_drive D u && cl_localhost u).
Proof. witness_tac. Qed.

Example opaque_hash_needed :
  let u := mku sc [] [] None None 0 [[97; 35; 98]] true None None in
  witness D u (cl_opq_delim u) (cl_dport u && cl_opq_space u && cl_dots u && cl_backslash D u && cl_drive D u && cl_localhost u).
Proof. witness_tac. Qed.

(* (v) opaque path ending in a space, no query, no fragment: "sc:a " is trimmed to "sc:a" *)
Example opaque_trailing_space_needed :
  let u := mku sc [] [] None None 0 [[97; 32]] true None None in
  witness D u (cl_opq_space u) (cl_dport u && cl_opq_delim u && cl_dots u && cl_backslash D u && cl_drive D u && cl_localhost u).
Proof. witness_tac. Qed.

(* ... with a query the space is kept: the round trip works *)
Example opaque_space_query_ok :
  let u := mku sc [] [] None None 0 [[97; 32]] true (Some [113]) None in
  inv_b D u = true /\ stable_b D u = true /\ rt_ok idl D u = true.
Proof. vm_compute. repeat split; reflexivity. Qed.

(* (iii) a dot segment: "sc:/./a" parses to the path ["a"]; "sc:/a/%2E." to ["", ""]... *)
Example dot_segment_needed :
  let u := mku sc [] [] None None 0 [[46]; [97]] false None None in
  witness D u (cl_dots u) (cl_dport u && cl_opq_delim u && cl_opq_space u && cl_backslash D u && cl_drive D u && cl_localhost u).
Proof. witness_tac. Qed.

Example double_dot_segment_needed :
  let u := mku sc [] [] None None 0 [[97]; [37; 50; 69; 46]] false None None in
  witness D u (cl_dots u) (cl_dport u && cl_opq_delim u && cl_opq_space u && cl_backslash D u && cl_drive D u && cl_localhost u).
Proof. witness_tac. Qed.

(* a backslash in a segment of a special URL: "http://h/a\b" parses to the path ["a"; "b"] *)
Example backslash_needed :
  let u := mku http [] [] (Some [104]) None 0 [[97; 92; 98]] false None None in
  witness D u (cl_backslash D u) (cl_dport u && cl_opq_delim u && cl_opq_space u && cl_dots u && cl_drive D u && cl_localhost u).
Proof. witness_tac. Qed.

(* (ii) file, first segment "C|" (reachable: SetProtocol "file" on "sc:///C|"): parses to "C:" *)
Example drive_letter_needed :
  let u := mku s_file [] [] (Some []) None 0 [[67; 124]] false None None in
  witness D u (cl_drive D u) (cl_dport u && cl_opq_delim u && cl_opq_space u && cl_dots u && cl_backslash D u && cl_localhost u).
Proof. witness_tac. Qed.

(* (ii) file with host "localhost": parses to the empty host *)
Example localhost_needed :
  let u := mku s_file [] [] (Some s_localhost) None 0 [[97]] false None None in
  witness D u (cl_localhost u) (cl_dport u && cl_opq_delim u && cl_opq_space u && cl_dots u && cl_backslash D u && cl_drive D u).
Proof. witness_tac. Qed.

(* (i) a host that is not a fixed point of the host parser: "http://0x7f.1/a" parses to the host 127.0.0.1 *)
Example host_fixed_needed :
  let u := mku http [] [] (Some [48; 120; 55; 102; 46; 49]) None 0 [[97]] false None None in
  cfg_rt D = true /\ Inv D u /\ stable_b D u = true /\ ~ host_fixed idl D u /\ rt_ok idl D u = false.
Proof.
  split; [vm_compute; reflexivity|]. split; [apply inv_b_sound; vm_compute; reflexivity|].
  split; [vm_compute; reflexivity|]. split; [|vm_compute; reflexivity].
  intros H. specialize (H _ eq_refl (empty_url [])). vm_compute in H. discriminate H.
Qed.

(* ---------- the conditions on the configuration ---------- *)
Definition cw (c : cfg) (fail sp col : bool) (pre post : hostfun) (special : list (str * str)) (ps sq qs sf fs : peset) : cfg :=
  {| c_report := c_report c; c_fail := fail; c_lax := c_lax c; c_collapse := col; c_acceptInvalid := c_acceptInvalid c;
     c_pre := pre; c_post := post; c_singlePct := sp; c_allowPathNonBase := c_allowPathNonBase c; c_skipDrive := c_skipDrive c;
     c_special := special; c_skipTrailSlash := c_skipTrailSlash c; c_latin1 := c_latin1 c;
     c_pathSet := ps; c_squerySet := sq; c_querySet := qs; c_sfragSet := sf; c_fragSet := fs; c_skipEq := c_skipEq c |}.
Definition ab32 (p : peset) : peset := {| ab := 32; bits := bits p |}.
Definition without (x : N) (p : peset) : peset := {| ab := ab p; bits := filter (fun b => negb (N.eqb b x)) (bits p) |}.

(* a configuration that fails [cfg_rt] and a record for which all the other premises hold *)
Definition cfg_witness (c : cfg) (u : url) : Prop :=
  cfg_rt c = false /\ Inv c u /\ stable_b c u = true /\ host_fixed idl c u /\ rt_ok idl c u = false.
Ltac cfg_witness_tac :=
  split; [vm_compute; reflexivity|]; split; [apply inv_b_sound; vm_compute; reflexivity|];
  split; [vm_compute; reflexivity|]; split; [host_fixed_tac|vm_compute; reflexivity].

(* failOnValidationError: the space in "sc:a b" is a validation error *)
Example cfg_fail_needed :
  cfg_witness (cw D true false false HF_none HF_none (c_special D) (c_pathSet D) (c_squerySet D) (c_querySet D) (c_sfragSet D) (c_fragSet D))
              (mku sc [] [] None None 0 [[97; 32; 98]] true None None).
Proof. cfg_witness_tac. Qed.

(* percentEncodeSinglePercentSign: "sc:/%zz" parses to "%25zz" *)
Example cfg_singlePct_needed :
  cfg_witness (cw D false true false HF_none HF_none (c_special D) (c_pathSet D) (c_squerySet D) (c_querySet D) (c_sfragSet D) (c_fragSet D))
              (mku sc [] [] None None 0 [[37; 122; 122]] false None None).
Proof. cfg_witness_tac. Qed.

(* collapseConsecutiveSlashes: "http://h/a//b" parses to ["a"; "b"] *)
Example cfg_collapse_needed :
  cfg_witness (cw D false false true HF_none HF_none (c_special D) (c_pathSet D) (c_squerySet D) (c_querySet D) (c_sfragSet D) (c_fragSet D))
              (mku http [] [] (Some [104]) None 0 [[97]; []; [98]] false None None).
Proof. cfg_witness_tac. Qed.

(* host pre/post-processing functions: with pre = const "example", post = const "[/]" the host "[/]" is a fixed point
   of the host parser and is accepted by Inv (bracketed), but "http://[/]/a" does not parse *)
Example cfg_pre_needed :
  cfg_witness (cw D false false false (HF_fun (fun _ => [101; 120; 97; 109; 112; 108; 101])) (HF_fun (fun _ => [91; 47; 93]))
                  (c_special D) (c_pathSet D) (c_squerySet D) (c_querySet D) (c_sfragSet D) (c_fragSet D))
              (mku http [] [] (Some [91; 47; 93]) None 0 [[97]] false None None).
Proof. cfg_witness_tac. Qed.

(* "file" not special: the record file:x (opaque path) satisfies Inv, but "file:x" parses to file:///x *)
Example cfg_file_special_needed :
  cfg_witness (cw D false false false HF_none HF_none (tl (c_special D)) (c_pathSet D) (c_squerySet D) (c_querySet D) (c_sfragSet D) (c_fragSet D))
              (mku s_file [] [] None None 0 [[120]] true None None).
Proof. cfg_witness_tac. Qed.

(* the encode sets must contain the space: otherwise a trailing space is trimmed *)
Example cfg_pathSet_space_needed :
  cfg_witness (cw D false false false HF_none HF_none (c_special D) (ab32 (c_pathSet D)) (c_squerySet D) (c_querySet D) (c_sfragSet D) (c_fragSet D))
              (mku sc [] [] None None 0 [[97; 32]] false None None).
Proof. cfg_witness_tac. Qed.
Example cfg_squerySet_space_needed :
  cfg_witness (cw D false false false HF_none HF_none (c_special D) (c_pathSet D) (ab32 (c_squerySet D)) (c_querySet D) (c_sfragSet D) (c_fragSet D))
              (mku http [] [] (Some [104]) None 0 [[97]] false (Some [113; 32]) None).
Proof. cfg_witness_tac. Qed.
Example cfg_querySet_space_needed :
  cfg_witness (cw D false false false HF_none HF_none (c_special D) (c_pathSet D) (c_squerySet D) (ab32 (c_querySet D)) (c_sfragSet D) (c_fragSet D))
              (mku sc [] [] None None 0 [[97]] false (Some [113; 32]) None).
Proof. cfg_witness_tac. Qed.
Example cfg_sfragSet_space_needed :
  cfg_witness (cw D false false false HF_none HF_none (c_special D) (c_pathSet D) (c_squerySet D) (c_querySet D) (ab32 (c_sfragSet D)) (c_fragSet D))
              (mku http [] [] (Some [104]) None 0 [[97]] false None (Some [102; 32])).
Proof. cfg_witness_tac. Qed.
Example cfg_fragSet_space_needed :
  cfg_witness (cw D false false false HF_none HF_none (c_special D) (c_pathSet D) (c_squerySet D) (c_querySet D) (c_sfragSet D) (ab32 (c_fragSet D)))
              (mku sc [] [] None None 0 [[97]] false None (Some [102; 32])).
Proof. cfg_witness_tac. Qed.

(* the path set must contain '?' and '#', the query sets '#' *)
Example cfg_pathSet_question_needed :
  cfg_witness (cw D false false false HF_none HF_none (c_special D) (without 63 (c_pathSet D)) (c_squerySet D) (c_querySet D) (c_sfragSet D) (c_fragSet D))
              (mku sc [] [] None None 0 [[97; 63; 98]] false None None).
Proof. cfg_witness_tac. Qed.
Example cfg_pathSet_hash_needed :
  cfg_witness (cw D false false false HF_none HF_none (c_special D) (without 35 (c_pathSet D)) (c_squerySet D) (c_querySet D) (c_sfragSet D) (c_fragSet D))
              (mku sc [] [] None None 0 [[97; 35; 98]] false None None).
Proof. cfg_witness_tac. Qed.
Example cfg_squerySet_hash_needed :
  cfg_witness (cw D false false false HF_none HF_none (c_special D) (c_pathSet D) (without 35 (c_squerySet D)) (c_querySet D) (c_sfragSet D) (c_fragSet D))
              (mku http [] [] (Some [104]) None 0 [[97]] false (Some [97; 35; 98]) None).
Proof. cfg_witness_tac. Qed.
Example cfg_querySet_hash_needed :
  cfg_witness (cw D false false false HF_none HF_none (c_special D) (c_pathSet D) (c_squerySet D) (without 35 (c_querySet D)) (c_sfragSet D) (c_fragSet D))
              (mku sc [] [] None None 0 [[97]] false (Some [97; 35; 98]) None).
Proof. cfg_witness_tac. Qed.

(* ---------- positive examples: the premises of [roundtrip] hold ---------- *)
Definition premises (u : url) : Prop := cfg_rt D = true /\ Inv D u /\ Stable idl D u.
Ltac premises_tac :=
  split; [vm_compute; reflexivity|]; split; [apply inv_b_sound; vm_compute; reflexivity|];
  split; [vm_compute; reflexivity|host_fixed_tac].

(* "http://u:p@h:81/a/?#" *)
Example roundtrip_ex_special :
  premises (mku http [117] [112] (Some [104]) (Some [56; 49]) 81 [[97]; []] false (Some []) (Some [])).
Proof. premises_tac. Qed.
(* "sc:/.//x" (the guard) *)
Example roundtrip_ex_guard : premises (mku sc [] [] None None 0 [[]; [120]] false None None).
Proof. premises_tac. Qed.
(* "sc://:pw@[::1]#f" *)
Example roundtrip_ex_ipv6 : premises (mku sc [] [112; 119] (Some [91; 58; 58; 49; 93]) None 0 [] false None (Some [102])).
Proof. premises_tac. Qed.
(* "file:///C:/x" *)
Example roundtrip_ex_file : premises (mku s_file [] [] (Some []) None 0 [[67; 58]; [120]] false None None).
Proof. premises_tac. Qed.
(* "sc:a b ?q#f" *)
Example roundtrip_ex_opaque : premises (mku sc [] [] None None 0 [[97; 32; 98; 32]] true (Some [113]) (Some [102])).
Proof. premises_tac. Qed.

(* and the theorem applied to one of them *)
Example roundtrip_ex_applied :
  let u := mku http [117] [112] (Some [104]) (Some [56; 49]) 81 [[97]; []] false (Some []) (Some []) in
  exists s u', Href u false = Some s /\ Parse idl D s = PUrl u' /\ same_components u' u.
Proof.
  cbv zeta. destruct roundtrip_ex_special as [Hc [Hi Hs]].
  eexists. destruct (roundtrip idl D Hc _ _ Hi Hs eq_refl) as [u' [H1 H2]]. exists u'. split; [reflexivity|]. split; assumption.
Qed.

Print Assumptions dport_needed.
Print Assumptions host_fixed_needed.
Print Assumptions cfg_pre_needed.
Print Assumptions roundtrip_ex_applied.
