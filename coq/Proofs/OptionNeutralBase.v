(* Infrastructure for the option-neutrality theorems (OptionNeutral*.v):
   - congruence of every helper of the machine in the configuration fields it reads,
   - a restatement of the PathSt branch of `step` with the segment update factored out,
   - `step_congr`: two configurations that agree on what `step` reads at a machine state take the same step,
   - `run_sim`: lock-step simulation of two runs under an invariant. *)
From Verif Require Import Lib.Base Lib.Utf8 Lib.GoStr Model.Cfg Gen.Tables Model.Sets Model.Percent Model.Url Model.Host Model.Machine Model.Api.
From Coq Require Import Lia ZifyBool ZifyN ZifyNat.

(* ------------------------------------------------------------------ *)
(* parseHost with the literal pattern `91 :: _` replaced by a test     *)
(* ------------------------------------------------------------------ *)
Section HostShape.
  Variable idna_raw : str -> str * bool.

  Definition host_v6 (c : cfg) (u : url) (input : str) : res str :=
    (if negb (has_suffix [93] input) then (fun k => herr c u IPv6Unclosed true k) else (fun k => k u))
      (fun u => parseIPv6 c u (drop_last (tl input))).

  Definition host_clean (c : cfg) (u : url) (asciiDomain : str) : res str :=
    match endsInANumber c u asciiDomain with
    | (u, true) => parseIPv4 c u asciiDomain
    | (u, false) => Ok u (apply_hostfun (c_post c) asciiDomain)
    end.

  Definition host_valid (c : cfg) (domain : str) (u : url) : res str :=
    match ToASCII idna_raw c domain with
    | None =>
        if c_lax c then Ok u domain
        else herr c u DomainToASCII true (fun u => Ok u [])
    | Some asciiDomain =>
        if existsb isForbiddenDomain (runes asciiDomain) then
          if c_lax c then Ok u (PercentEncodeString c asciiDomain pes_Host)
          else herr c u DomainInvalidCodePoint true (fun u => host_clean c u asciiDomain)
        else host_clean c u asciiDomain
    end.

  Definition host_domain (c : cfg) (u : url) (input : str) : res str :=
    let domain := DecodePercentEncoded c input in
    if negb (valid_utf8 domain) then
      if c_lax c then Ok u (percentEncodeBytes input pes_Host)
      else herr c u DomainToASCII true (host_valid c domain)
    else host_valid c domain u.

  Lemma parseHost_unfold c u input0 ns :
    parseHost idna_raw c u input0 ns =
    let input := apply_hostfun (c_pre c) input0 in
    match input with
    | [] => Ok u []
    | x :: _ =>
        if x =? 91 then host_v6 c u input
        else if ns then parseOpaqueHost c u input else host_domain c u input
    end.
  Proof.
    unfold parseHost. cbv zeta.
    destruct (apply_hostfun (c_pre c) input0) as [|x r]; [reflexivity|].
    destruct x as [|p]; [reflexivity|].
    do 7 (destruct p as [p|p|]; try reflexivity).
  Qed.
End HostShape.

(* ------------------------------------------------------------------ *)
(* Congruence of the helpers                                           *)
(* ------------------------------------------------------------------ *)
Section Congr.
  Variable idna_raw : str -> str * bool.
  Variables c1 c2 : cfg.
  Hypothesis Hrep : c_report c1 = c_report c2.
  Hypothesis Hfail : c_fail c1 = c_fail c2.
  Hypothesis Hlatin : c_latin1 c1 = c_latin1 c2.

  Lemma per_congr r tr : percentEncodeRune c1 r tr = percentEncodeRune c2 r tr.
  Proof. unfold percentEncodeRune. rewrite Hlatin. reflexivity. Qed.

  Lemma peir_congr r tr : c_singlePct c1 = c_singlePct c2 ->
    percentEncodeInvalidRune c1 r tr = percentEncodeInvalidRune c2 r tr.
  Proof. intros H. unfold percentEncodeInvalidRune. rewrite H, !per_congr. reflexivity. Qed.

  Lemma pes_loop_congr tr l : c_singlePct c1 = c_singlePct c2 -> pes_loop c1 tr l = pes_loop c2 tr l.
  Proof.
    intros H. induction l as [|r l IH]; [reflexivity|].
    cbn [pes_loop]. rewrite H, IH, !per_congr. reflexivity.
  Qed.

  Lemma PES_congr s tr : c_singlePct c1 = c_singlePct c2 -> PercentEncodeString c1 s tr = PercentEncodeString c2 s tr.
  Proof. intros H. unfold PercentEncodeString. apply pes_loop_congr, H. Qed.

  Lemma dpe_congr s : DecodePercentEncoded c1 s = DecodePercentEncoded c2 s.
  Proof.
    clear idna_raw Hrep Hfail.
    assert (H : forall n s, (length s <= n)%nat -> DecodePercentEncoded c1 s = DecodePercentEncoded c2 s).
    { induction n as [|n IH]; intros t Hl.
      - destruct t; [reflexivity|cbn [length] in Hl; lia].
      - destruct t as [|b t]; [reflexivity|]. cbn [length] in Hl.
        cbn [DecodePercentEncoded]. rewrite Hlatin.
        assert (E : DecodePercentEncoded c1 t = DecodePercentEncoded c2 t) by (apply IH; lia).
        destruct (b =? 37); [|rewrite E; reflexivity].
        destruct t as [|h [|l t']]; try (rewrite E; reflexivity).
        rewrite E. rewrite (IH t') by (cbn [length] in Hl; lia). reflexivity. }
    apply (H (length s)). lia.
  Qed.

  Lemma he_congr u t f : handleError c1 u t f = handleError c2 u t f.
  Proof. unfold handleError. rewrite Hrep, Hfail. reflexivity. Qed.

  Lemma herr_congr {A} u t f (k1 k2 : url -> res A) :
    (forall u', k1 u' = k2 u') -> herr c1 u t f k1 = herr c2 u t f k2.
  Proof.
    intros H. unfold herr. rewrite he_congr. destruct (handleError c2 u t f) as [u' [e|]]; [reflexivity|apply H].
  Qed.

  Lemma pin_congr u s : parseIPv4Number c1 u s = parseIPv4Number c2 u s.
  Proof. unfold parseIPv4Number. destruct s; [rewrite he_congr|]; reflexivity. Qed.

  Lemma ein_congr u s : endsInANumber c1 u s = endsInANumber c2 u s.
  Proof.
    unfold endsInANumber. cbv zeta.
    match goal with |- match last_opt ?P with _ => _ end = _ => destruct (last_opt P) as [[|x l]|] end; try reflexivity.
  Qed.

  Lemma ipv4_numbers_congr parts : forall u acc, ipv4_numbers c1 u parts acc = ipv4_numbers c2 u parts acc.
  Proof.
    induction parts as [|p rest IH]; intros u acc; [reflexivity|].
    cbn [ipv4_numbers]. rewrite pin_congr.
    destruct (parseIPv4Number c2 u p) as [u1 [n ve|rg]].
    - destruct ve; [apply herr_congr; intros; apply IH|apply IH].
    - apply herr_congr; intros; apply IH.
  Qed.

  Lemma ipv4_range_warn_congr ns : forall u k1 k2, (forall u', k1 u' = k2 u') ->
    ipv4_range_warn c1 u ns k1 = ipv4_range_warn c2 u ns k2.
  Proof.
    induction ns as [|n rest IH]; intros u k1 k2 H; cbn [ipv4_range_warn]; [apply H|].
    destruct (255 <? n); [apply herr_congr; intros; apply IH, H|apply IH, H].
  Qed.

  Lemma parseIPv4_congr u s : parseIPv4 c1 u s = parseIPv4 c2 u s.
  Proof.
    unfold parseIPv4.
    assert (A : forall u parts,
      (if (4 <? len parts)%Z then (fun k => herr c1 u IPv4TooManyParts true k) else (fun k => k u))
        (fun u => match ipv4_numbers c1 u parts [] with
           | Er u e => Er u e
           | Ok u numbers =>
             ipv4_range_warn c1 u numbers (fun u =>
               let init := drop_last numbers in
               if existsb (fun n => 255 <? n) init then herr c1 u IPv4OutOfRangePart true (fun u => Ok u [])
               else match last_opt numbers with
                    | None => Ok u []
                    | Some lastn =>
                        if 256 ^ (5 - N.of_nat (length numbers)) <=? lastn
                        then herr c1 u IPv4OutOfRangePart true (fun u => Ok u [])
                        else Ok u (IPv4String (lastn + ipv4_sum init 0))
                    end)
           end) =
      (if (4 <? len parts)%Z then (fun k => herr c2 u IPv4TooManyParts true k) else (fun k => k u))
        (fun u => match ipv4_numbers c2 u parts [] with
           | Er u e => Er u e
           | Ok u numbers =>
             ipv4_range_warn c2 u numbers (fun u =>
               let init := drop_last numbers in
               if existsb (fun n => 255 <? n) init then herr c2 u IPv4OutOfRangePart true (fun u => Ok u [])
               else match last_opt numbers with
                    | None => Ok u []
                    | Some lastn =>
                        if 256 ^ (5 - N.of_nat (length numbers)) <=? lastn
                        then herr c2 u IPv4OutOfRangePart true (fun u => Ok u [])
                        else Ok u (IPv4String (lastn + ipv4_sum init 0))
                    end)
           end)).
    { intros v parts.
      assert (B : forall v, match ipv4_numbers c1 v parts [] with
           | Er u e => Er u e
           | Ok u numbers =>
             ipv4_range_warn c1 u numbers (fun u =>
               let init := drop_last numbers in
               if existsb (fun n => 255 <? n) init then herr c1 u IPv4OutOfRangePart true (fun u => Ok u [])
               else match last_opt numbers with
                    | None => Ok u []
                    | Some lastn =>
                        if 256 ^ (5 - N.of_nat (length numbers)) <=? lastn
                        then herr c1 u IPv4OutOfRangePart true (fun u => Ok u [])
                        else Ok u (IPv4String (lastn + ipv4_sum init 0))
                    end)
           end = match ipv4_numbers c2 v parts [] with
           | Er u e => Er u e
           | Ok u numbers =>
             ipv4_range_warn c2 u numbers (fun u =>
               let init := drop_last numbers in
               if existsb (fun n => 255 <? n) init then herr c2 u IPv4OutOfRangePart true (fun u => Ok u [])
               else match last_opt numbers with
                    | None => Ok u []
                    | Some lastn =>
                        if 256 ^ (5 - N.of_nat (length numbers)) <=? lastn
                        then herr c2 u IPv4OutOfRangePart true (fun u => Ok u [])
                        else Ok u (IPv4String (lastn + ipv4_sum init 0))
                    end)
           end).
      { intros w. rewrite ipv4_numbers_congr. destruct (ipv4_numbers c2 w parts []) as [w' numbers|w' e]; [|reflexivity].
        apply ipv4_range_warn_congr. intros u'. cbv zeta.
        destruct (existsb (fun n => 255 <? n) (drop_last numbers)); [apply herr_congr; reflexivity|].
        destruct (last_opt numbers); [|reflexivity].
        destruct (256 ^ (5 - N.of_nat (length numbers)) <=? n); [apply herr_congr; reflexivity|reflexivity]. }
      destruct (4 <? len parts)%Z; [apply herr_congr; intros; apply B|apply B]. }
    destruct (last_opt (split 46 s)) as [[|x l]|]; try apply A.
    apply herr_congr. intros; apply A.
  Qed.

  Lemma parseIPv6_congr u s : parseIPv6 c1 u s = parseIPv6 c2 u s.
  Proof. unfold parseIPv6. destruct (ipv6_parse (runes s)); [reflexivity|apply herr_congr; reflexivity]. Qed.

  Lemma host_v6_congr u s : host_v6 c1 u s = host_v6 c2 u s.
  Proof.
    unfold host_v6. destruct (negb (has_suffix [93] s)); [apply herr_congr; intros|]; apply parseIPv6_congr.
  Qed.

  Lemma host_clean_congr u s : c_post c1 = c_post c2 -> host_clean c1 u s = host_clean c2 u s.
  Proof.
    intros Hpost. unfold host_clean. rewrite ein_congr, Hpost.
    destruct (endsInANumber c2 u s) as [u' [|]]; [apply parseIPv4_congr|reflexivity].
  Qed.

  Section Lax.
    Hypothesis Hlax : c_lax c1 = c_lax c2.
    Hypothesis Hpre : c_pre c1 = c_pre c2.
    Hypothesis Hpost : c_post c1 = c_post c2.
    Hypothesis Hsp : c_lax c1 = true -> c_singlePct c1 = c_singlePct c2.

    Lemma opaque_loop_congr input l : forall u out, opaque_loop c1 u input l out = opaque_loop c2 u input l out.
    Proof.
      induction l as [|ch rest IH]; intros u out; [reflexivity|].
      cbn [opaque_loop]. rewrite Hlax.
      assert (K : forall u,
        (if negb (isURLCodePoint ch) && negb (ch =? 37)
         then (fun k => herr c1 u InvalidURLUnit false k) else (fun k => k u))
        (fun u =>
          (if (ch =? 37) && invalid_pct (ch :: rest)
           then (fun k => herr c1 u InvalidURLUnit false k) else (fun k => k u))
          (fun u => opaque_loop c1 u input rest (out ++ percentEncodeRune c1 ch (Some pes_C0)))) =
        (if negb (isURLCodePoint ch) && negb (ch =? 37)
         then (fun k => herr c2 u InvalidURLUnit false k) else (fun k => k u))
        (fun u =>
          (if (ch =? 37) && invalid_pct (ch :: rest)
           then (fun k => herr c2 u InvalidURLUnit false k) else (fun k => k u))
          (fun u => opaque_loop c2 u input rest (out ++ percentEncodeRune c2 ch (Some pes_C0))))).
      { intros v.
        assert (K2 : forall v,
          (if (ch =? 37) && invalid_pct (ch :: rest)
           then (fun k => herr c1 v InvalidURLUnit false k) else (fun k => k v))
          (fun u => opaque_loop c1 u input rest (out ++ percentEncodeRune c1 ch (Some pes_C0))) =
          (if (ch =? 37) && invalid_pct (ch :: rest)
           then (fun k => herr c2 v InvalidURLUnit false k) else (fun k => k v))
          (fun u => opaque_loop c2 u input rest (out ++ percentEncodeRune c2 ch (Some pes_C0)))).
        { intros w. rewrite per_congr.
          destruct ((ch =? 37) && invalid_pct (ch :: rest)); [apply herr_congr; intros|]; apply IH. }
        destruct (negb (isURLCodePoint ch) && negb (ch =? 37)); [apply herr_congr; intros|]; apply K2. }
      destruct (isForbiddenHost ch); [|apply K].
      destruct (c_lax c2); [reflexivity|]. apply herr_congr. intros; apply K.
    Qed.

    Lemma ToASCII_congr s : ToASCII idna_raw c1 s = ToASCII idna_raw c2 s.
    Proof. unfold ToASCII. rewrite Hlatin, Hlax. reflexivity. Qed.

    Lemma host_valid_congr d u : host_valid idna_raw c1 d u = host_valid idna_raw c2 d u.
    Proof.
      unfold host_valid. rewrite ToASCII_congr.
      destruct (ToASCII idna_raw c2 d) as [a|].
      - destruct (existsb isForbiddenDomain (runes a)); [|apply host_clean_congr, Hpost].
        rewrite Hlax. destruct (bool_dec (c_lax c2) true) as [L|L]; [|apply not_true_is_false in L]; rewrite L.
        + rewrite PES_congr by (apply Hsp; rewrite Hlax; exact L). reflexivity.
        + apply herr_congr. intros; apply host_clean_congr, Hpost.
      - rewrite Hlax. destruct (c_lax c2); [reflexivity|]. apply herr_congr. reflexivity.
    Qed.

    Lemma host_domain_congr u s : host_domain idna_raw c1 u s = host_domain idna_raw c2 u s.
    Proof.
      unfold host_domain. cbv zeta. rewrite dpe_congr, Hlax.
      destruct (negb (valid_utf8 (DecodePercentEncoded c2 s))); [|apply host_valid_congr].
      destruct (bool_dec (c_lax c2) true) as [L|L]; [|apply not_true_is_false in L]; rewrite L; [reflexivity|].
      apply herr_congr. intros; apply host_valid_congr.
    Qed.

    Lemma parseHost_congr u s ns : parseHost idna_raw c1 u s ns = parseHost idna_raw c2 u s ns.
    Proof.
      rewrite !parseHost_unfold. cbv zeta. rewrite Hpre.
      destruct (apply_hostfun (c_pre c2) s) as [|x r]; [reflexivity|].
      destruct (x =? 91); [apply host_v6_congr|].
      destruct ns; [apply opaque_loop_congr|apply host_domain_congr].
    Qed.
  End Lax.
End Congr.

(* ------------------------------------------------------------------ *)
(* The PathSt branch of `step`, with the segment update factored out   *)
(* ------------------------------------------------------------------ *)
Definition last_empty (path : list str) : bool :=
  match last_opt path with Some s => is_nil s | None => false end.

(* what PathSt does to the URL when a segment ends (buffer buf; slashlike = the terminator is a separator) *)
Definition seg_end (c : cfg) (u : url) (buf : str) (slashlike : bool) : url :=
  let path := u_path u in
  let replaceLast := c_collapse c && IsSpecialScheme c u && negb (is_nil path) && last_empty path in
  if isDoubleDotPathSegment buf then
    let u := set_path u (shortenPath (u_scheme u) path) (u_opaque u) in
    if negb slashlike then addSegment u [] else u
  else if isSingleDotPathSegment buf && negb slashlike then
    if negb replaceLast then addSegment u [] else u
  else if negb (isSingleDotPathSegment buf) then
    let buf' :=
      if str_eqb (u_scheme u) s_file && (is_nil path || (replaceLast && (len path =? 1)%Z))
         && isWindowsDriveLetter buf && negb (c_skipDrive c)
      then match buf with b0 :: _ => [b0; 58] | [] => buf end
      else buf in
    if negb replaceLast then addSegment u buf' else set_path u (replace_last path buf') (u_opaque u)
  else u.

Definition unit_checks (c : cfg) (inp : list rune) (p : Z) (r : N) (u : url) (k : bool -> url -> outcome) : outcome :=
  (if negb (isURLCodePoint r) && negb (r =? 37)
   then (fun k' => mherr c u InvalidURLUnit false k') else (fun k' => k' u))
  (fun u => if invalid_pct (rest_from inp p) then mherr c u InvalidURLUnit false (k true) else k false u).

Definition step_path (c : cfg) (inp : list rune) (ov : option state) (m : mstate) : outcome :=
  let buf := m_buf m in
  let atF := m_at m in
  let brF := m_br m in
  let pwF := m_pw m in
  let u := m_url m in
  let p := (m_ptr m + 1)%Z in
  let eof := if (n_inp inp <=? p)%Z then true else m_eof m in
  let r := if (n_inp inp <=? p)%Z then rune_error else cp_at inp p in
  if (eof || (r =? 47)) || isSpecialSchemeAndBackslash c u r || (negb (is_some ov) && ((r =? 63) || (r =? 35))) then
    (if isSpecialSchemeAndBackslash c u r then (fun k => mherr c u InvalidReverseSolidus false k) else (fun k => k u))
    (fun u =>
       let u := seg_end c u buf ((r =? 47) || isSpecialSchemeAndBackslash c u r) in
       if r =? 63 then Cont (mk QuerySt p eof [] atF brF pwF (set_query u (Some [])))
       else if r =? 35 then Cont (mk FragmentSt p eof [] atF brF pwF (set_fragment u (Some [])))
       else Cont (mk PathSt p eof [] atF brF pwF u))
  else
    unit_checks c inp p r u (fun inv u =>
      let enc := if inv then percentEncodeInvalidRune c r (c_pathSet c) else percentEncodeRune c r (Some (c_pathSet c)) in
      Cont (mk PathSt p eof (buf ++ enc) atF brF pwF u)).

Lemma step_PathSt idna_raw c inp base ov m :
  m_state m = PathSt -> step idna_raw c inp base ov m = step_path c inp ov m.
Proof. destruct m as [st p e b a br pw u]. cbn [m_state]. intros ->. reflexivity. Qed.

(* ------------------------------------------------------------------ *)
(* handleError only touches the list of recorded validation errors     *)
(* ------------------------------------------------------------------ *)
Lemma set_verrs_eta u : set_verrs u (u_verrs u) = u.
Proof. destruct u; reflexivity. Qed.

Lemma handleError_shape c u t f : exists v, fst (handleError c u t f) = set_verrs u v.
Proof.
  unfold handleError. cbn [fst]. destruct (c_report c).
  - eexists; reflexivity.
  - exists (u_verrs u). symmetry; apply set_verrs_eta.
Qed.

Lemma mherr_failure c u t k :
  mherr c u t true k = RetErr (fst (handleError c u t true)) {| e_type := t; e_failure := true; e_url := u_input u |}.
Proof. unfold mherr, handleError. cbn [orb fst]. reflexivity. Qed.

Lemma nth_opt_none {A} (l : list A) : forall n, (length l <= n)%nat -> nth_opt l n = None.
Proof.
  induction l as [|x l IH]; intros n H; [destruct n; reflexivity|].
  destruct n; cbn [length] in H; [lia|]. cbn [nth_opt]. apply IH. lia.
Qed.

(* the code point read by a step is cp_at at the new position, also at and beyond the end of the input *)
Lemma r_cp inp p : (if (n_inp inp <=? p)%Z then rune_error else cp_at inp p) = cp_at inp p.
Proof.
  destruct (n_inp inp <=? p)%Z eqn:E; [|reflexivity].
  unfold cp_at. destruct (p <? 0)%Z; [reflexivity|].
  rewrite nth_opt_none; [reflexivity|]. unfold n_inp, len in E. lia.
Qed.

(* which states consult the scheme of the URL record before overwriting it *)
Definition scheme_read (ov : option state) (st : state) : bool :=
  match st with
  | SchemeStart | NoScheme | Relative | File => false
  | Scheme => is_some ov
  | _ => true
  end.

Section StepCongr.
  Variable idna_raw : str -> str * bool.
  Variables c1 c2 : cfg.
  Variable inp : list rune.
  Variable base : option url.
  Variable ov : option state.
  Hypothesis Hrep : c_report c1 = c_report c2.
  Hypothesis Hfail : c_fail c1 = c_fail c2.
  Hypothesis Hlatin : c_latin1 c1 = c_latin1 c2.
  Hypothesis Hsts : c_skipTrailSlash c1 = c_skipTrailSlash c2.
  Hypothesis HpathSet : c_pathSet c1 = c_pathSet c2.
  Hypothesis Hsq : c_squerySet c1 = c_squerySet c2.
  Hypothesis Hq : c_querySet c1 = c_querySet c2.
  Hypothesis Hsf : c_sfragSet c1 = c_sfragSet c2.
  Hypothesis Hf : c_fragSet c1 = c_fragSet c2.
  Hypothesis Hs_base : forall b, base = Some b -> getSpecialScheme c1 (u_scheme b) = getSpecialScheme c2 (u_scheme b).

  Lemma mherr_congr u t f k1 k2 :
    (forall v, k1 (set_verrs u v) = k2 (set_verrs u v)) -> mherr c1 u t f k1 = mherr c2 u t f k2.
  Proof.
    intros H. unfold mherr. rewrite (he_congr c1 c2 Hrep Hfail).
    destruct (handleError_shape c2 u t f) as [v Hv].
    destruct (handleError c2 u t f) as [u' [e|]]; [reflexivity|]. cbn [fst] in Hv. subst u'. apply H.
  Qed.

  Lemma mherr_fail_congr u t k1 k2 : mherr c1 u t true k1 = mherr c2 u t true k2.
  Proof. rewrite !mherr_failure, (he_congr c1 c2 Hrep Hfail). reflexivity. Qed.

  Lemma iss_congr s : getSpecialScheme c1 s = getSpecialScheme c2 s -> isSpecialScheme c1 s = isSpecialScheme c2 s.
  Proof. intros H. unfold isSpecialScheme. rewrite H. reflexivity. Qed.

  Lemma cdp_congr u : getSpecialScheme c1 (u_scheme u) = getSpecialScheme c2 (u_scheme u) ->
    cleanDefaultPort c1 u = cleanDefaultPort c2 u.
  Proof. intros H. unfold cleanDefaultPort. rewrite H. reflexivity. Qed.

  Lemma cred_congr l : forall pw us pa, cred_loop c1 l pw us pa = cred_loop c2 l pw us pa.
  Proof.
    induction l as [|ch l IH]; intros pw us pa; [reflexivity|].
    cbn [cred_loop]. rewrite (per_congr c1 c2 Hlatin), !IH. reflexivity.
  Qed.

  Ltac sc :=
    cbn [u_scheme u_path set_input set_scheme set_username set_password set_host set_port set_path set_query
         set_fragment set_verrs set_sp copy_base_auth addSegment];
    solve [assumption | congruence | auto].

  Ltac norm1 :=
    match goal with
    | |- context [isSpecialScheme c1 ?S] => rewrite (iss_congr S) by sc
    | |- context [cleanDefaultPort c1 ?X] => rewrite (cdp_congr X) by sc
    | |- context [percentEncodeRune c1 ?r ?t] => rewrite (per_congr c1 c2 Hlatin r t)
    | H : _ -> c_singlePct c1 = c_singlePct c2 |- context [percentEncodeInvalidRune c1 ?r ?t] =>
        rewrite (peir_congr c1 c2 Hlatin r t) by (apply H; first [assumption | reflexivity])
    | |- context [cred_loop c1 ?l ?a ?b ?c] => rewrite (cred_congr l a b c)
    | |- context [c_pathSet c1] => rewrite HpathSet
    | |- context [c_squerySet c1] => rewrite Hsq
    | |- context [c_querySet c1] => rewrite Hq
    | |- context [c_sfragSet c1] => rewrite Hsf
    | |- context [c_fragSet c1] => rewrite Hf
    | |- context [c_skipTrailSlash c1] => rewrite Hsts
    | H : forall (u0 : url) (sl : bool), _ -> _ -> seg_end c1 u0 _ sl = seg_end c2 u0 _ sl |- context [seg_end c1 ?u ?b ?sl] =>
        rewrite (H u sl) by sc
    end.
  Ltac norm := try unfold isSpecialSchemeAndBackslash; try unfold IsSpecialScheme; repeat norm1.

  Ltac desc :=
    norm;
    lazymatch goal with
    | |- mherr c1 ?u ?t true _ = mherr c2 ?u ?t true _ => apply mherr_fail_congr
    | |- mherr c1 ?u ?t ?f _ = mherr c2 ?u ?t ?f _ => apply mherr_congr; intros ?v; cbn beta
    | |- (if ?b then _ else _) _ = (if ?b then _ else _) _ => destruct b eqn:?; cbn beta
    | |- (if ?b then _ else _) = (if ?b then _ else _) => destruct b eqn:?
    | |- match ?o with Some _ => _ | None => _ end = match ?o with Some _ => _ | None => _ end => destruct o eqn:?
    | |- ?X = ?Y => reflexivity
    end.

  Ltac dd :=
    lazymatch goal with
    | |- (if ?b then _ else _) _ = _ \/ _ => destruct b eqn:?; cbn beta; norm
    | |- (if ?b then _ else _) = _ \/ _ => destruct b eqn:?; norm
    end.
  Ltac ph Hhost :=
    lazymatch goal with
    | |- match parseHost idna_raw c1 ?u ?b ?ns with _ => _ end = _ \/ _ =>
        let Heq := fresh "Heq" in let Her := fresh "Her" in
        let HQ := fresh "HQ" in
        destruct (Hhost ns) as [Heq|[HQ [? [? Her]]]];
        [left; rewrite Heq; reflexivity | right; split; [exact HQ|rewrite Her; eauto]]
    end.

  Lemma step_congr (Q : Prop) (m : mstate) :
    (scheme_read ov (m_state m) = true ->
       getSpecialScheme c1 (u_scheme (m_url m)) = getSpecialScheme c2 (u_scheme (m_url m))) ->
    (m_state m = Scheme -> cp_at inp (m_ptr m + 1) = 58 ->
       getSpecialScheme c1 (m_buf m) = getSpecialScheme c2 (m_buf m)) ->
    (m_state m = HostSt \/ m_state m = HostnameSt \/ m_state m = FileHost -> forall ns,
       parseHost idna_raw c1 (m_url m) (m_buf m) ns = parseHost idna_raw c2 (m_url m) (m_buf m) ns
       \/ (Q /\ exists u e, parseHost idna_raw c1 (m_url m) (m_buf m) ns = Er u e)) ->
    (forall b, rune_at inp (m_ptr m + 1) = Some (Bad b) -> c_acceptInvalid c1 = c_acceptInvalid c2) ->
    (invalid_pct (rest_from inp (m_ptr m + 1)) = true -> c_singlePct c1 = c_singlePct c2) ->
    (m_state m = PathSt -> forall u sl, u_scheme u = u_scheme (m_url m) -> u_path u = u_path (m_url m) ->
       seg_end c1 u (m_buf m) sl = seg_end c2 u (m_buf m) sl) ->
    step idna_raw c1 inp base ov m = step idna_raw c2 inp base ov m
    \/ (Q /\ exists u e, step idna_raw c1 inp base ov m = RetErr u e).
  Proof.
    intros Hs_u Hs_buf Hhost Hacc Hpct Hseg.
    destruct (state_eqb (m_state m) PathSt) eqn:EP.
    { assert (E : m_state m = PathSt) by (destruct (m_state m); try discriminate; reflexivity).
      left. rewrite !(step_PathSt _ _ _ _ _ _ E). specialize (Hseg E). specialize (Hs_u ltac:(rewrite E; reflexivity)).
      clear Hs_buf Hhost Hacc EP E.
      destruct m as [st p0 e0 buf atF brF pwF u]. cbn [m_state m_ptr m_eof m_buf m_at m_br m_pw m_url] in *.
      unfold step_path, unit_checks. cbn [m_state m_ptr m_eof m_buf m_at m_br m_pw m_url].
      set (p := (p0 + 1)%Z) in *.
      set (r := if (n_inp inp <=? p)%Z then rune_error else cp_at inp p).
      set (eof := if (n_inp inp <=? p)%Z then true else e0).
      repeat desc. }
    destruct m as [st p0 e0 buf atF brF pwF u]. cbn [m_state m_ptr m_eof m_buf m_at m_br m_pw m_url] in *.
    unfold step. cbn [m_state m_ptr m_eof m_buf m_at m_br m_pw m_url].
    set (p := (p0 + 1)%Z) in *.
    set (r := if (n_inp inp <=? p)%Z then rune_error else cp_at inp p).
    set (eof := if (n_inp inp <=? p)%Z then true else e0).
    destruct st; try discriminate EP; clear EP Hseg;
      try specialize (Hs_u eq_refl); try specialize (Hs_buf eq_refl).
    all: try solve [left; repeat desc].
    - (* Scheme *)
      left. unfold overridden. cbn [scheme_read] in Hs_u.
      match goal with |- (if ?b then _ else _) = _ => destruct b eqn:? end; [reflexivity|].
      destruct (r =? 58) eqn:E58.
      + assert (Hb : getSpecialScheme c1 buf = getSpecialScheme c2 buf).
        { apply Hs_buf. apply N.eqb_eq in E58. rewrite <- E58. unfold r. symmetry. apply r_cp. }
        clear Hs_buf. destruct (is_some ov) eqn:Eov; cbn [andb negb]; [specialize (Hs_u eq_refl)|]; repeat desc.
      + clear Hs_buf. repeat desc.
    - (* HostSt *)
      specialize (Hhost (or_introl eq_refl)). norm.
      dd; [left; reflexivity|].
      dd.
      + dd; cbn beta; [left; apply mherr_fail_congr|].
        dd; [left; reflexivity|]. ph Hhost.
      + dd.
        * dd; [left; repeat desc|]. dd; [left; reflexivity|]. ph Hhost.
        * left. destruct (rune_at inp p) as [[g|b]|] eqn:Er; try reflexivity.
          rewrite (Hacc b eq_refl). reflexivity.
    - (* HostnameSt *)
      specialize (Hhost (or_intror (or_introl eq_refl))). norm.
      dd; [left; reflexivity|].
      dd.
      + dd; cbn beta; [left; apply mherr_fail_congr|].
        dd; [left; reflexivity|]. ph Hhost.
      + dd.
        * dd; [left; repeat desc|]. dd; [left; reflexivity|]. ph Hhost.
        * left. destruct (rune_at inp p) as [[g|b]|] eqn:Er; try reflexivity.
          rewrite (Hacc b eq_refl). reflexivity.
    - (* FileHost *)
      specialize (Hhost (or_intror (or_intror eq_refl))). norm.
      dd; [|left; reflexivity].
      dd; [left; repeat desc|].
      dd; [left; reflexivity|].
      ph Hhost.
  Qed.

  (* the same with equal host parsing: the steps are equal *)
  Lemma step_congr_eq (m : mstate) :
    (scheme_read ov (m_state m) = true ->
       getSpecialScheme c1 (u_scheme (m_url m)) = getSpecialScheme c2 (u_scheme (m_url m))) ->
    (m_state m = Scheme -> cp_at inp (m_ptr m + 1) = 58 ->
       getSpecialScheme c1 (m_buf m) = getSpecialScheme c2 (m_buf m)) ->
    (m_state m = HostSt \/ m_state m = HostnameSt \/ m_state m = FileHost -> forall ns,
       parseHost idna_raw c1 (m_url m) (m_buf m) ns = parseHost idna_raw c2 (m_url m) (m_buf m) ns) ->
    (forall b, rune_at inp (m_ptr m + 1) = Some (Bad b) -> c_acceptInvalid c1 = c_acceptInvalid c2) ->
    (invalid_pct (rest_from inp (m_ptr m + 1)) = true -> c_singlePct c1 = c_singlePct c2) ->
    (m_state m = PathSt -> forall u sl, u_scheme u = u_scheme (m_url m) -> u_path u = u_path (m_url m) ->
       seg_end c1 u (m_buf m) sl = seg_end c2 u (m_buf m) sl) ->
    step idna_raw c1 inp base ov m = step idna_raw c2 inp base ov m.
  Proof.
    intros Hs_u Hs_buf Hhost Hacc Hpct Hseg.
    destruct (step_congr False m Hs_u Hs_buf) as [E|[[] _]]; auto.
  Qed.
End StepCongr.

(* ------------------------------------------------------------------ *)
(* Lock-step simulation of two runs                                    *)
(* ------------------------------------------------------------------ *)
(* r1 ~ r2: equal, or the first run returned an error *)
Definition res_le (r1 r2 : result) : Prop := r1 = r2 \/ exists u e, r1 = RErr u e.

Section RunSim.
  Variable idna_raw : str -> str * bool.
  Variables c1 c2 : cfg.
  Variable inp : list rune.
  Variable base : option url.
  Variable ov : option state.
  Variable I : mstate -> Prop.
  Notation step1 := (step idna_raw c1 inp base ov).
  Notation step2 := (step idna_raw c2 inp base ov).
  Hypothesis Hinv : forall m m', I m -> step1 m = Cont m' -> m_eof m' = false -> I m'.

  Lemma run_sim :
    (forall m, I m -> step1 m = step2 m \/ exists u e, step1 m = RetErr u e) ->
    forall fuel m, I m ->
      res_le (run idna_raw c1 inp base ov fuel m) (run idna_raw c2 inp base ov fuel m).
  Proof.
    intros Hstep. induction fuel as [|f IH]; intros m Hm; [left; reflexivity|].
    cbn [run]. destruct (Hstep m Hm) as [E|[u [e E]]].
    - rewrite <- E. destruct (step1 m) as [m'| | | |] eqn:S; try (left; reflexivity).
      destruct (m_eof m') eqn:Ee; [left; reflexivity|]. apply IH. apply (Hinv m m' Hm S Ee).
    - rewrite E. right. eauto.
  Qed.

  Lemma run_sim_eq :
    (forall m, I m -> step1 m = step2 m) ->
    forall fuel m, I m -> run idna_raw c1 inp base ov fuel m = run idna_raw c2 inp base ov fuel m.
  Proof.
    intros Hstep. induction fuel as [|f IH]; intros m Hm; [reflexivity|].
    cbn [run]. rewrite <- (Hstep m Hm). destruct (step1 m) as [m'| | | |] eqn:S; try reflexivity.
    destruct (m_eof m') eqn:Ee; [reflexivity|]. apply IH. apply (Hinv m m' Hm S Ee).
  Qed.
End RunSim.

(* ------------------------------------------------------------------ *)
(* BasicParser: the machine is run on the cleaned input                *)
(* ------------------------------------------------------------------ *)
From Verif Require Import Proofs.Cleaning.

(* the byte string handed to the tab/newline removal: the trimmed input when no url argument is given *)
Definition pre_input (x : str) (u0 : option url) : str :=
  match u0 with Some _ => x | None => fst (trim_c0space x) end.
(* the byte string the machine runs on; a = c_acceptInvalid *)
Definition cleaned (a : bool) (x : str) (u0 : option url) : str := fst (remove_tabnl_sv a (pre_input x u0)).
Definition start_url (x : str) (u0 : option url) : url :=
  match u0 with Some u => u | None => empty_url x end.
Definition init_m (ov : option state) (u : url) : mstate :=
  mk (match ov with Some s => s | None => SchemeStart end) (-1)%Z false [] false false false u.

Lemma cleaned_clean_sv a x : cleaned a x None = clean_sv a x.
Proof. reflexivity. Qed.

Lemma url_eta u : set_input (set_verrs u (u_verrs u)) (u_input u) = u.
Proof. destruct u; reflexivity. Qed.

Section BP.
  Variable idna_raw : str -> str * bool.
  Variable b : option url.
  Variable ov : option state.

  Definition machine_run (c : cfg) (i : str) (u : url) : result :=
    run idna_raw c (decode i) (option_map clone b) ov (fuel_of (length (decode i))) (init_m ov u).

  Definition bp_start (c : cfg) (u : url) : result :=
    let '(i, changed) := remove_tabnl_sv (c_acceptInvalid c) (u_input u) in
    let k (u : url) : result := machine_run c (u_input u) u in
    if changed then
      match handleError c u InvalidURLUnit false with
      | (u', Some e) => RErr u' e
      | (u', None) => k (set_input u' i)
      end
    else k u.

  Lemma BasicParser_start c x u0 :
    BasicParser idna_raw c x b u0 ov =
    match u0 with
    | Some u => bp_start c (set_input u x)
    | None =>
        let u := empty_url x in
        let '(i, changed) := trim_c0space x in
        if changed then
          match handleError c u InvalidURLUnit false with
          | (u', Some e) => RErr u' e
          | (u', None) => bp_start c (set_input u' i)
          end
        else bp_start c u
    end.
  Proof. reflexivity. Qed.

  (* the shape of a BasicParser call depends on the configuration only through c_report, c_fail and
     what the tab/newline removal makes of the (trimmed) input j *)
  Definition same_front (c c' : cfg) (j : str) : Prop :=
    c_report c' = c_report c /\ c_fail c' = c_fail c /\
    remove_tabnl_sv (c_acceptInvalid c') j = remove_tabnl_sv (c_acceptInvalid c) j.

  Definition bp_shape (F : cfg -> result) (c : cfg) (s : url) (j : str) : Prop :=
    let i := fst (remove_tabnl_sv (c_acceptInvalid c) j) in
    (exists u e, forall c', same_front c c' j -> F c' = RErr u e)
    \/ (exists v, forall c', same_front c c' j -> F c' = machine_run c' i (set_input (set_verrs s v) i)).

  Lemma handleError_dep c c' u t f : c_report c' = c_report c -> c_fail c' = c_fail c ->
    handleError c' u t f = handleError c u t f.
  Proof. intros H1 H2. unfold handleError. rewrite H1, H2. reflexivity. Qed.

  Lemma bp_start_shape c s v j :
    bp_shape (fun c' => bp_start c' (set_input (set_verrs s v) j)) c s j.
  Proof.
    unfold bp_shape, bp_start. cbn [u_input set_input]. cbv zeta.
    destruct (remove_tabnl_sv (c_acceptInvalid c) j) as [i ch] eqn:Er. cbn [fst].
    destruct ch.
    - destruct (handleError c (set_input (set_verrs s v) j) InvalidURLUnit false) as [u' [e|]] eqn:He.
      + left. exists u', e. intros c' (H1 & H2 & H3). rewrite H3, Er, (handleError_dep c c' _ _ _ H1 H2), He. reflexivity.
      + right. destruct (handleError_shape c (set_input (set_verrs s v) j) InvalidURLUnit false) as [w Hw].
        rewrite He in Hw. cbn [fst] in Hw. exists w. intros c' (H1 & H2 & H3).
        rewrite H3, Er, (handleError_dep c c' _ _ _ H1 H2), He. subst u'. reflexivity.
    - right. exists v. intros c' (_ & _ & H3). rewrite H3, Er.
      pose proof (remove_sv_unchanged (c_acceptInvalid c) j) as H. rewrite Er in H. cbn [fst snd] in H.
      rewrite (H eq_refl). reflexivity.
  Qed.

  Lemma BasicParser_shape c x u0 :
    bp_shape (fun c' => BasicParser idna_raw c' x b u0 ov) c (start_url x u0) (pre_input x u0).
  Proof.
    destruct u0 as [u|]; cbn [start_url pre_input].
    - pose proof (bp_start_shape c u (u_verrs u) x) as H.
      unfold bp_shape in *. cbv zeta in *. destruct H as [[u' [e H]]|[v H]].
      + left. exists u', e. intros c' Hc. rewrite BasicParser_start. rewrite <- (H c' Hc). reflexivity.
      + right. exists v. intros c' Hc. rewrite BasicParser_start. rewrite <- (H c' Hc). reflexivity.
    - destruct (trim_c0space x) as [i ch] eqn:Et. cbn [fst].
      destruct ch.
      + destruct (handleError c (empty_url x) InvalidURLUnit false) as [u' [e|]] eqn:He.
        * left. exists u', e. intros c' (H1 & H2 & H3). rewrite BasicParser_start. cbv zeta. rewrite Et.
          rewrite (handleError_dep c c' _ _ _ H1 H2), He. reflexivity.
        * destruct (handleError_shape c (empty_url x) InvalidURLUnit false) as [w Hw].
          rewrite He in Hw. cbn [fst] in Hw. subst u'.
          pose proof (bp_start_shape c (empty_url x) w i) as H.
          unfold bp_shape in *. cbv zeta in *. destruct H as [[u' [e H]]|[v H]].
          -- left. exists u', e. intros c' Hc. pose proof Hc as (H1 & H2 & H3).
             rewrite BasicParser_start. cbv zeta. rewrite Et.
             rewrite (handleError_dep c c' _ _ _ H1 H2), He. apply (H c' Hc).
          -- right. exists v. intros c' Hc. pose proof Hc as (H1 & H2 & H3).
             rewrite BasicParser_start. cbv zeta. rewrite Et.
             rewrite (handleError_dep c c' _ _ _ H1 H2), He. apply (H c' Hc).
      + pose proof (trim_unchanged x) as Hx. rewrite Et in Hx. cbn [fst snd] in Hx. specialize (Hx eq_refl). subst i.
        pose proof (bp_start_shape c (empty_url x) [] x) as H.
        unfold bp_shape in *. cbv zeta in *. destruct H as [[u' [e H]]|[v H]].
        * left. exists u', e. intros c' Hc. rewrite BasicParser_start. cbv zeta. rewrite Et. apply (H c' Hc).
        * right. exists v. intros c' Hc. rewrite BasicParser_start. cbv zeta. rewrite Et. apply (H c' Hc).
  Qed.

  (* lifting a relation between runs to BasicParser *)
  Lemma BasicParser_lift_gen c1 c2 x u0 :
    same_front c2 c1 (pre_input x u0) ->
    (forall v, let i := cleaned (c_acceptInvalid c2) x u0 in
       res_le (machine_run c1 i (set_input (set_verrs (start_url x u0) v) i))
              (machine_run c2 i (set_input (set_verrs (start_url x u0) v) i))) ->
    res_le (BasicParser idna_raw c1 x b u0 ov) (BasicParser idna_raw c2 x b u0 ov).
  Proof.
    intros Hf H. assert (Hr : same_front c2 c2 (pre_input x u0)) by (repeat split).
    destruct (BasicParser_shape c2 x u0) as [[u [e S]]|[v S]].
    - left. rewrite (S c1 Hf), (S c2 Hr). reflexivity.
    - rewrite (S c1 Hf), (S c2 Hr). apply H.
  Qed.

  Lemma BasicParser_lift_eq_gen c1 c2 x u0 :
    same_front c2 c1 (pre_input x u0) ->
    (forall v, let i := cleaned (c_acceptInvalid c2) x u0 in
       machine_run c1 i (set_input (set_verrs (start_url x u0) v) i) =
       machine_run c2 i (set_input (set_verrs (start_url x u0) v) i)) ->
    BasicParser idna_raw c1 x b u0 ov = BasicParser idna_raw c2 x b u0 ov.
  Proof.
    intros Hf H. assert (Hr : same_front c2 c2 (pre_input x u0)) by (repeat split).
    destruct (BasicParser_shape c2 x u0) as [[u [e S]]|[v S]].
    - rewrite (S c1 Hf), (S c2 Hr). reflexivity.
    - rewrite (S c1 Hf), (S c2 Hr). apply H.
  Qed.

  (* the usual case: c_acceptInvalid is the same on both sides *)
  Lemma BasicParser_lift c1 c2 x u0 :
    c_report c1 = c_report c2 -> c_fail c1 = c_fail c2 -> c_acceptInvalid c1 = c_acceptInvalid c2 ->
    (forall v, let i := cleaned (c_acceptInvalid c2) x u0 in
       res_le (machine_run c1 i (set_input (set_verrs (start_url x u0) v) i))
              (machine_run c2 i (set_input (set_verrs (start_url x u0) v) i))) ->
    res_le (BasicParser idna_raw c1 x b u0 ov) (BasicParser idna_raw c2 x b u0 ov).
  Proof.
    intros H1 H2 H3. apply BasicParser_lift_gen. repeat split; try assumption. rewrite H3. reflexivity.
  Qed.

  Lemma BasicParser_lift_eq c1 c2 x u0 :
    c_report c1 = c_report c2 -> c_fail c1 = c_fail c2 -> c_acceptInvalid c1 = c_acceptInvalid c2 ->
    (forall v, let i := cleaned (c_acceptInvalid c2) x u0 in
       machine_run c1 i (set_input (set_verrs (start_url x u0) v) i) =
       machine_run c2 i (set_input (set_verrs (start_url x u0) v) i)) ->
    BasicParser idna_raw c1 x b u0 ov = BasicParser idna_raw c2 x b u0 ov.
  Proof.
    intros H1 H2 H3. apply BasicParser_lift_eq_gen. repeat split; try assumption. rewrite H3. reflexivity.
  Qed.
End BP.

(* ------------------------------------------------------------------ *)
(* The common case: the two configurations agree on every field that    *)
(* is not the subject of one of the neutrality theorems                 *)
(* ------------------------------------------------------------------ *)
Definition agree_core (c1 c2 : cfg) : Prop :=
  c_report c1 = c_report c2 /\ c_fail c1 = c_fail c2 /\ c_latin1 c1 = c_latin1 c2 /\
  c_skipTrailSlash c1 = c_skipTrailSlash c2 /\ c_pathSet c1 = c_pathSet c2 /\ c_squerySet c1 = c_squerySet c2 /\
  c_querySet c1 = c_querySet c2 /\ c_sfragSet c1 = c_sfragSet c2 /\ c_fragSet c1 = c_fragSet c2 /\
  c_pre c1 = c_pre c2 /\ c_post c1 = c_post c2.

Lemma step_eq_simple idna_raw c1 c2 inp base ov m :
  agree_core c1 c2 -> c_special c1 = c_special c2 -> c_lax c1 = c_lax c2 ->
  (c_lax c1 = true -> c_singlePct c1 = c_singlePct c2) ->
  (forall b, rune_at inp (m_ptr m + 1) = Some (Bad b) -> c_acceptInvalid c1 = c_acceptInvalid c2) ->
  (invalid_pct (rest_from inp (m_ptr m + 1)) = true -> c_singlePct c1 = c_singlePct c2) ->
  (m_state m = PathSt -> forall u sl, u_scheme u = u_scheme (m_url m) -> u_path u = u_path (m_url m) ->
     seg_end c1 u (m_buf m) sl = seg_end c2 u (m_buf m) sl) ->
  step idna_raw c1 inp base ov m = step idna_raw c2 inp base ov m.
Proof.
  intros (Hrep & Hfail & Hlatin & Hsts & Hps & Hsq & Hq & Hsf & Hf & Hpre & Hpost) Hspec Hlax Hlsp Hacc Hpct Hseg.
  assert (G : forall s, getSpecialScheme c1 s = getSpecialScheme c2 s)
    by (intros s; unfold getSpecialScheme; rewrite Hspec; reflexivity).
  apply step_congr_eq; auto.
  intros _ ns. apply parseHost_congr; assumption.
Qed.

(* ------------------------------------------------------------------ *)
(* Case analysis of one step, and how the buffer evolves               *)
(* ------------------------------------------------------------------ *)
(* H : step ... = Cont m'  with `step` unfolded: split along every test until the result is explicit *)
Ltac step_crush H :=
  repeat (cbv beta iota in H;
          match type of H with
          | context [match ?x with _ => _ end] => destruct x eqn:?
          end);
  cbv beta iota in H; try discriminate H.

(* what one step can append to the buffer; p is the position of the code point read *)
Definition chunk (c : cfg) (inp : list rune) (p : Z) (e : str) : Prop :=
  let r := if (n_inp inp <=? p)%Z then rune_error else cp_at inp p in
  e = [] \/ e = utf8_enc r \/ e = utf8_enc (ascii_lower r) \/
  (exists b, rune_at inp p = Some (Bad b) /\ e = [b]) \/
  (exists tr, e = percentEncodeRune c r (Some tr)).

Ltac buf_leaf :=
  cbn [m_buf mk];
  first
    [ left; reflexivity
    | right; eexists; split;
      [ first [reflexivity | symmetry; apply app_nil_r]
      | unfold chunk; cbv zeta;
        first
          [ left; reflexivity
          | right; left; reflexivity
          | right; right; left; reflexivity
          | right; right; right; left; eexists; split; [eassumption|reflexivity]
          | right; right; right; right; eexists; reflexivity
          | right; right; right; right; unfold percentEncodeInvalidRune;
            match goal with |- context [c_singlePct ?c] => destruct (c_singlePct c) end; eexists; reflexivity ] ] ].

Lemma step_buf idna_raw c inp base ov m m' :
  step idna_raw c inp base ov m = Cont m' ->
  m_buf m' = [] \/ exists e, m_buf m' = m_buf m ++ e /\ chunk c inp (m_ptr m + 1) e.
Proof.
  intros H. destruct m as [st p0 e0 buf atF brF pwF u].
  unfold step, mherr in H. cbn [m_state m_ptr m_eof m_buf m_at m_br m_pw m_url] in *.
  set (p := (p0 + 1)%Z) in *.
  set (r := if (n_inp inp <=? p)%Z then rune_error else cp_at inp p) in *.
  set (eof := if (n_inp inp <=? p)%Z then true else e0) in *.
  destruct st.
  all: step_crush H.
  all: injection H as <-; buf_leaf.
Qed.

(* ------------------------------------------------------------------ *)
(* Frame: host parsing only appends to the recorded validation errors  *)
(* ------------------------------------------------------------------ *)
Definition vext (u u' : url) : Prop := exists v, u' = set_verrs u v.

Lemma vext_refl u : vext u u.
Proof. exists (u_verrs u). symmetry; apply set_verrs_eta. Qed.
Lemma vext_trans u1 u2 u3 : vext u1 u2 -> vext u2 u3 -> vext u1 u3.
Proof. intros [v ->] [w ->]. exists w. reflexivity. Qed.
Lemma vext_he c u t f : vext u (fst (handleError c u t f)).
Proof. destruct (handleError_shape c u t f) as [v ->]. exists v; reflexivity. Qed.

Definition res_frame {A} (u : url) (r : res A) : Prop :=
  match r with Ok u' _ => vext u u' | Er u' _ => vext u u' end.

Lemma res_frame_trans {A} u u' (r : res A) : vext u u' -> res_frame u' r -> res_frame u r.
Proof. intros H. destruct r; cbn [res_frame]; apply vext_trans, H. Qed.

Section HostFrame.
  Variable idna_raw : str -> str * bool.
  Variable c : cfg.

  Lemma herr_frame {A} u t f (k : url -> res A) :
    (forall u', vext u u' -> res_frame u' (k u')) -> res_frame u (herr c u t f k).
  Proof.
    intros H. unfold herr. pose proof (vext_he c u t f) as V.
    destruct (handleError c u t f) as [u' [e|]]; cbn [fst] in V; [exact V|].
    apply (res_frame_trans u u'); [exact V|apply H, V].
  Qed.

  Lemma pin_frame u s : vext u (fst (parseIPv4Number c u s)).
  Proof.
    unfold parseIPv4Number. destruct s; [|apply vext_refl].
    pose proof (vext_he c u IPv4EmptyPart true) as V. destruct (handleError c u IPv4EmptyPart true). exact V.
  Qed.

  Lemma ein_frame u s : vext u (fst (endsInANumber c u s)).
  Proof.
    unfold endsInANumber. cbv zeta.
    match goal with |- context [match last_opt ?P with _ => _ end] => destruct (last_opt P) as [[|x l]|] end;
      try apply vext_refl.
    destruct (all_in isDigit (x :: l)); [apply vext_refl|].
    pose proof (pin_frame u (x :: l)) as V. destruct (parseIPv4Number c u (x :: l)) as [u' [n ve|rg]]; exact V.
  Qed.

  Lemma ipv4_numbers_frame parts : forall u acc, res_frame u (ipv4_numbers c u parts acc).
  Proof.
    induction parts as [|p rest IH]; intros u acc; [apply vext_refl|].
    cbn [ipv4_numbers]. pose proof (pin_frame u p) as V.
    destruct (parseIPv4Number c u p) as [u1 [n ve|rg]]; cbn [fst] in V.
    - destruct ve.
      + apply (res_frame_trans u u1 _ V). apply herr_frame. intros; apply IH.
      + apply (res_frame_trans u u1 _ V). apply IH.
    - apply (res_frame_trans u u1 _ V). apply herr_frame. intros; apply IH.
  Qed.

  Lemma ipv4_range_warn_frame ns : forall u k, (forall u', res_frame u' (k u')) -> res_frame u (ipv4_range_warn c u ns k).
  Proof.
    induction ns as [|n rest IH]; intros u k H; cbn [ipv4_range_warn]; [apply H|].
    destruct (255 <? n); [apply herr_frame; intros; apply IH, H|apply IH, H].
  Qed.

  Lemma parseIPv4_frame u s : res_frame u (parseIPv4 c u s).
  Proof.
    unfold parseIPv4.
    assert (A : forall u parts, res_frame u
      ((if (4 <? len parts)%Z then (fun k => herr c u IPv4TooManyParts true k) else (fun k => k u))
        (fun u => match ipv4_numbers c u parts [] with
           | Er u e => Er u e
           | Ok u numbers =>
             ipv4_range_warn c u numbers (fun u =>
               let init := drop_last numbers in
               if existsb (fun n => 255 <? n) init then herr c u IPv4OutOfRangePart true (fun u => Ok u [])
               else match last_opt numbers with
                    | None => Ok u []
                    | Some lastn =>
                        if 256 ^ (5 - N.of_nat (length numbers)) <=? lastn
                        then herr c u IPv4OutOfRangePart true (fun u => Ok u [])
                        else Ok u (IPv4String (lastn + ipv4_sum init 0))
                    end)
           end))).
    { intros v parts.
      assert (B : forall v, res_frame v (match ipv4_numbers c v parts [] with
           | Er u e => Er u e
           | Ok u numbers =>
             ipv4_range_warn c u numbers (fun u =>
               let init := drop_last numbers in
               if existsb (fun n => 255 <? n) init then herr c u IPv4OutOfRangePart true (fun u => Ok u [])
               else match last_opt numbers with
                    | None => Ok u []
                    | Some lastn =>
                        if 256 ^ (5 - N.of_nat (length numbers)) <=? lastn
                        then herr c u IPv4OutOfRangePart true (fun u => Ok u [])
                        else Ok u (IPv4String (lastn + ipv4_sum init 0))
                    end)
           end)).
      { intros w. pose proof (ipv4_numbers_frame parts w []) as V.
        destruct (ipv4_numbers c w parts []) as [w' numbers|w' e]; [|exact V].
        cbn [res_frame] in V. apply (res_frame_trans w w' _ V).
        apply ipv4_range_warn_frame. intros u'. cbv zeta.
        destruct (existsb (fun n => 255 <? n) (drop_last numbers)); [apply herr_frame; intros; apply vext_refl|].
        destruct (last_opt numbers); [|apply vext_refl].
        destruct (256 ^ (5 - N.of_nat (length numbers)) <=? n); [apply herr_frame; intros|]; apply vext_refl. }
      destruct (4 <? len parts)%Z; [apply herr_frame; intros; apply B|apply B]. }
    destruct (last_opt (split 46 s)) as [[|x l]|]; try apply A.
    apply herr_frame. intros; apply A.
  Qed.

  Lemma parseIPv6_frame u s : res_frame u (parseIPv6 c u s).
  Proof.
    unfold parseIPv6. destruct (ipv6_parse (runes s)); [apply vext_refl|apply herr_frame; intros; apply vext_refl].
  Qed.

  Lemma opaque_loop_frame input l : forall u out, res_frame u (opaque_loop c u input l out).
  Proof.
    induction l as [|ch rest IH]; intros u out; [apply vext_refl|].
    cbn [opaque_loop].
    assert (K : forall u, res_frame u
        ((if negb (isURLCodePoint ch) && negb (ch =? 37)
          then (fun k => herr c u InvalidURLUnit false k) else (fun k => k u))
         (fun u =>
           (if (ch =? 37) && invalid_pct (ch :: rest)
            then (fun k => herr c u InvalidURLUnit false k) else (fun k => k u))
           (fun u => opaque_loop c u input rest (out ++ percentEncodeRune c ch (Some pes_C0)))))).
    { intros v.
      assert (K2 : forall v, res_frame v
          ((if (ch =? 37) && invalid_pct (ch :: rest)
            then (fun k => herr c v InvalidURLUnit false k) else (fun k => k v))
           (fun u => opaque_loop c u input rest (out ++ percentEncodeRune c ch (Some pes_C0))))).
      { intros w. destruct ((ch =? 37) && invalid_pct (ch :: rest)); [apply herr_frame; intros|]; apply IH. }
      destruct (negb (isURLCodePoint ch) && negb (ch =? 37)); [apply herr_frame; intros|]; apply K2. }
    destruct (isForbiddenHost ch); [|apply K].
    destruct (c_lax c); [apply vext_refl|]. apply herr_frame. intros; apply K.
  Qed.

  Lemma host_clean_frame u a : res_frame u (host_clean c u a).
  Proof.
    unfold host_clean. pose proof (ein_frame u a) as V.
    destruct (endsInANumber c u a) as [u' [|]]; cbn [fst] in V.
    - apply (res_frame_trans u u' _ V), parseIPv4_frame.
    - exact V.
  Qed.

  Lemma host_valid_frame d u : res_frame u (host_valid idna_raw c d u).
  Proof.
    unfold host_valid. destruct (ToASCII idna_raw c d) as [a|].
    - destruct (existsb isForbiddenDomain (runes a)); [|apply host_clean_frame].
      destruct (c_lax c); [apply vext_refl|]. apply herr_frame. intros; apply host_clean_frame.
    - destruct (c_lax c); [apply vext_refl|]. apply herr_frame. intros; apply vext_refl.
  Qed.

  Theorem parseHost_frame u s ns : res_frame u (parseHost idna_raw c u s ns).
  Proof.
    rewrite parseHost_unfold. cbv zeta.
    destruct (apply_hostfun (c_pre c) s) as [|x r]; [apply vext_refl|].
    destruct (x =? 91).
    - unfold host_v6. destruct (negb (has_suffix [93] (x :: r))); [apply herr_frame; intros|]; apply parseIPv6_frame.
    - destruct ns; [apply opaque_loop_frame|].
      unfold host_domain. cbv zeta.
      destruct (negb (valid_utf8 (DecodePercentEncoded c (x :: r)))); [|apply host_valid_frame].
      destruct (c_lax c); [apply vext_refl|]. apply herr_frame. intros; apply host_valid_frame.
  Qed.

  Corollary parseHost_ok_frame u s ns u' h : parseHost idna_raw c u s ns = Ok u' h -> exists v, u' = set_verrs u v.
  Proof. intros H. pose proof (parseHost_frame u s ns) as F. rewrite H in F. exact F. Qed.
End HostFrame.
