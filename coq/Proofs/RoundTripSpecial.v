(* Round trip, part 4 (S4): special schemes other than file,
   "scheme://[user[:password]@]host[:port]/path?query#fragment".
   Also what is shared by all the cases with a host: the clean-input facts and the path after the authority. *)
From Verif Require Import Lib.Base Lib.Utf8 Lib.GoStr Model.Cfg Gen.Tables Gen.Options Model.Sets Model.Percent
  Model.Url Model.Host Model.Machine Model.Api Model.Preds.
From Verif Require Import Proofs.SetsProofs Proofs.Cleaning Proofs.PhaseLemmas Proofs.RecordInv
  Proofs.RoundTripBase Proofs.RoundTripPhases Proofs.RoundTripOpaque Proofs.RoundTripHostless Proofs.RoundTripHostShape.
From Coq Require Import Lia ZifyBool ZifyN ZifyNat.

Local Arguments N.mul : simpl never.
Local Arguments N.add : simpl never.
Local Arguments N.sub : simpl never.
Local Arguments N.eqb : simpl never.
Local Arguments N.ltb : simpl never.
Local Arguments N.leb : simpl never.

(* ------------------------------------------------------------------------------------------ *)
(* shared by the cases with a host                                                              *)
(* ------------------------------------------------------------------------------------------ *)

Lemma all_good_map s : all_good (map Good s).
Proof.
  intros q b. unfold rune_at. destruct (q <? 0)%Z; [discriminate|].
  generalize (Z.to_nat q). intros k. revert k. induction s as [|x s IH]; intros [|k]; cbn [map nth_opt]; try discriminate.
  apply IH.
Qed.

(* the last byte of a host accepted by [Inv] is not a blank *)
Lemma not_forbidden_vis x : printable x = true -> (isForbiddenHost x = false \/ isForbiddenDomain x = false) -> vis x = true.
Proof.
  intros Hp H. assert (Hx : x < 128) by (unfold printable in Hp; lia).
  pose proof (sweep128 (fun x => implb (printable x && (negb (isForbiddenHost x) || negb (isForbiddenDomain x))) (vis x))
                ltac:(vm_compute; reflexivity) x Hx) as S.
  cbv beta in S. rewrite Hp in S. destruct H as [H|H]; rewrite H in S; cbn [negb andb orb implb] in S.
  - exact S.
  - rewrite orb_true_r in S. exact S.
Qed.

Lemma has_suffix_last (l : str) : l <> [] -> has_suffix [93] l = true -> last l 0 = 93.
Proof.
  intros Hne Hs. rewrite (app_removelast_last 0 Hne) in Hs. unfold has_suffix in Hs.
  rewrite rev_app_distr in Hs. cbn [rev app has_prefix] in Hs.
  rewrite andb_true_r in Hs. apply N.eqb_eq in Hs. symmetry. exact Hs.
Qed.

Lemma host_last_vis sp h : host_ok sp h = true -> forallb printable h = true -> h <> [] -> vis (last h 0) = true.
Proof.
  intros Hok Hp Hne. unfold host_ok in Hok. apply orb_true_iff in Hok. destruct Hok as [Hb|Hnf].
  - unfold is_bracketed in Hb. destruct h as [|x h']; [discriminate|].
    assert (Hs : has_suffix [93] (x :: h') = true).
    { destruct x as [|px]; [discriminate|]. do 7 (destruct px as [px|px|]; try discriminate Hb). exact Hb. }
    rewrite (has_suffix_last _ Hne Hs). reflexivity.
  - assert (Hin : In (last h 0) h).
    { rewrite (app_removelast_last 0 Hne) at 2. apply in_or_app. right. left. reflexivity. }
    rewrite forallb_forall in Hp. pose proof (Hp _ Hin) as Hpl.
    apply not_forbidden_vis; [exact Hpl|]. destruct sp.
    + right. apply andb_true_iff in Hnf. destruct Hnf as [Hnf _]. apply andb_true_iff in Hnf. destruct Hnf as [Hnf _].
      rewrite forallb_forall in Hnf. apply negb_true_iff. apply Hnf. exact Hin.
    + left. rewrite forallb_forall in Hnf. apply negb_true_iff. apply Hnf. exact Hin.
Qed.

Lemma printable_lt128 h : forallb printable h = true -> forallb (fun x => x <? 128) h = true.
Proof. apply forallb_impl. intros x. unfold printable. lia. Qed.

Lemma canonical_vis d : canonical_decimal d = true -> d <> [] /\ forallb vis d = true /\ forallb is_digit d = true.
Proof.
  unfold canonical_decimal. intros H. apply andb_true_iff in H. destruct H as [H _]. apply andb_true_iff in H.
  destruct H as [H1 H2]. split; [destruct d; [discriminate|discriminate]|]. split; [|exact H2].
  revert H2. apply forallb_impl. intros x. unfold is_digit, vis. lia.
Qed.

Lemma userinfo_vis l : none_in pes_UserInfo l = true -> forallb vis l = true.
Proof. apply none_in_vis. reflexivity. Qed.

Lemma cred_part_printable user pass :
  none_in pes_UserInfo user = true -> none_in pes_UserInfo pass = true -> forallb vis (cred_part user pass) = true.
Proof.
  intros Hu Hp. unfold cred_part, cred_str. destruct (negb (is_nil user) || negb (is_nil pass)); [|reflexivity].
  rewrite !forallb_app, (userinfo_vis _ Hu). destruct (negb (is_nil pass)); cbn [forallb]; rewrite ?(userinfo_vis _ Hp); reflexivity.
Qed.

(* the serializer's authority, in the vocabulary of the phase lemmas *)
Lemma auth_part_eq u h :
  u_host u = Some h ->
  auth_part u = [47; 47] ++ cred_part (u_username u) (u_password u) ++ h ++ port_part (u_port u).
Proof.
  intros Hh. unfold auth_part, cred_part, cred_str, port_part. rewrite Hh.
  destruct (negb (is_nil (u_username u)) || negb (is_nil (u_password u))).
  - rewrite <- !app_assoc. reflexivity.
  - reflexivity.
Qed.

Section HostShared.
  Variable idna_raw : str -> str * bool.
  Variable c : cfg.
  Hypothesis R : CfgRT c.
  Variable inp : list rune.

  Let Hrep := R_rep c R.
  Let Hfail := R_fail c R.

  (* after the authority: the path (if any), the query, the fragment *)
  Lemma pathstart_tail p a br pw u path oq of :
    (-1 <= p)%Z ->
    rest_from inp (p + 1) = flat_map (fun s => 47 :: s) path ++ q_tail oq ++ f_tail of ->
    u_path u = [] -> u_opaque u = false ->
    (path = [] -> IsSpecialScheme c u = false) ->
    forallb (seg_good c (IsSpecialScheme c u)) path = true ->
    (forall seg r, path = seg :: r -> str_eqb (u_scheme u) s_file = true -> isWindowsDriveLetter seg = true ->
                   c_skipDrive c = false -> isNormalizedWindowsDriveLetter seg = true) ->
    (forall q, oq = Some q -> none_in (queryset c u) q = true) ->
    (forall f, of = Some f -> none_in (fragset c u) f = true) ->
    finishes idna_raw c inp (mk PathStart p false [] a br pw u) (with_f (with_q (set_path u path false) oq) of).
  Proof using R.
    intros Hp Hr Hpath Hopq Hnil Hg Hdrv Hq Hf.
    assert (H35 : RuneShouldBeEncoded (queryset c u) 35 = true) by apply (R_queryset c _ R).
    destruct path as [|seg segs].
    - cbn [flat_map app] in Hr. specialize (Hnil eq_refl).
      erewrite set_path_eta; [|exact Hpath|exact Hopq].
      destruct oq as [q|]; cbn [q_tail with_q app] in *.
      + eapply (reaches_finishes idna_raw c Hrep Hfail).
        * eapply (reaches_step idna_raw c Hrep Hfail);
            [apply (step_pathstart_q idna_raw c Hrep Hfail inp p [] a br pw u _ Hp Hr Hnil)|reflexivity].
        * destruct (rest_uncons inp (p + 1)%Z _ _ ltac:(blia) Hr) as [_ [Hr2 _]].
          eapply (finishes_eq idna_raw c Hrep Hfail);
            [apply (query_tail idna_raw c Hrep Hfail inp (p + 1)%Z a br pw _ q of ltac:(blia) Hr2);
             [reflexivity|exact H35|apply Hq; reflexivity|exact Hf]|].
          destruct of; reflexivity.
      + destruct of as [f|]; cbn [f_tail with_f] in *.
        * eapply (reaches_finishes idna_raw c Hrep Hfail).
          -- eapply (reaches_step idna_raw c Hrep Hfail);
               [apply (step_pathstart_h idna_raw c Hrep Hfail inp p [] a br pw u _ Hp Hr Hnil)|reflexivity].
          -- destruct (rest_uncons inp (p + 1)%Z _ _ ltac:(blia) Hr) as [_ [Hr2 _]].
             eapply (finishes_eq idna_raw c Hrep Hfail);
               [apply (frag_tail idna_raw c Hrep Hfail inp (p + 1)%Z a br pw _ f ltac:(blia) Hr2); apply Hf; reflexivity|].
             reflexivity.
        * eapply (finishes_eq idna_raw c Hrep Hfail).
          -- eapply (finishes_step idna_raw c Hrep Hfail);
               [apply (step_pathstart_eof idna_raw c Hrep Hfail inp p [] a br pw u Hp Hr Hnil)|reflexivity].
          -- reflexivity.
    - cbn [flat_map] in Hr. rewrite <- app_assoc in Hr. cbn [app] in Hr.
      eapply (reaches_finishes idna_raw c Hrep Hfail).
      + eapply (reaches_step idna_raw c Hrep Hfail);
          [apply (step_pathstart_slash idna_raw c Hrep Hfail inp p [] a br pw u _ Hp Hr)|reflexivity].
      + destruct (rest_uncons inp (p + 1)%Z _ _ ltac:(blia) Hr) as [_ [Hr2 _]].
        eapply (finishes_eq idna_raw c Hrep Hfail).
        * apply (path_phase idna_raw c Hrep Hfail inp segs seg (p + 1)%Z a br pw u oq of (R_sp c R) (R_col c R) H35
                   ltac:(blia) Hr2 Hg).
          -- intros E1 _ E3 E4. apply (Hdrv seg segs eq_refl E1 E3 E4).
          -- exact Hq.
          -- exact Hf.
        * rewrite Hpath. reflexivity.
  Qed.
End HostShared.

(* what [Inv] and [stable_b] say about a URL with a host and a list path *)
Record HostFacts (c : cfg) (u : url) (h : str) : Prop := {
  HF_dp : u_port u = None -> u_decodedPort u = 0;
  HF_scan : hscan (IsSpecialScheme c u) false h = true;
  HF_br : hbr false h = false;
  HF_64 : mem 64 h = false;
  HF_small : forallb (fun x => x <? 128) h = true;
  HF_print : forallb printable h = true;
  HF_last : h <> [] -> vis (last h 0) = true;
  HF_segs : forallb (seg_good c (IsSpecialScheme c u)) (u_path u) = true;
  HF_file : str_eqb (u_scheme u) s_file = true -> drive_ok c u = true /\ str_eqb h s_localhost = false
}.

Lemma host_facts idna_raw c u h : CfgRT c -> Inv c u -> u_opaque u = false -> u_host u = Some h ->
  stable_b c u = true -> host_fixed idna_raw c u -> HostFacts c u h.
Proof.
  intros R Hi Ho Hh Hst Hfix.
  destruct (host_scan_derived idna_raw c u h (R_pre c R) Hi Hh Hfix) as [Hscan [Hbr H64]].
  unfold stable_b in Hst. rewrite Ho in Hst. apply andb_true_iff in Hst. destruct Hst as [Hdp Hst].
  unfold list_stable in Hst.
  apply andb_true_iff in Hst. destruct Hst as [Hst Hfile]. apply andb_true_iff in Hst. destruct Hst as [Hdots Hbs].
  destruct (I_host _ _ Hi h Hh) as [Hok Hpr].
  constructor.
  - intros Hp. unfold dport_ok in Hdp. rewrite Hp in Hdp. apply N.eqb_eq in Hdp. exact Hdp.
  - exact Hscan.
  - exact Hbr.
  - exact H64.
  - apply printable_lt128. exact Hpr.
  - exact Hpr.
  - intros Hne. apply (host_last_vis _ h Hok Hpr Hne).
  - pose proof (I_path _ _ Hi Ho) as Hpath. rewrite forallb_forall in *. intros x Hx.
    apply (seg_good_of c _ x R (Hpath x Hx)).
    + intros Hsp. rewrite Hsp in Hbs. cbn [negb orb] in Hbs. rewrite forallb_forall in Hbs.
      apply negb_true_iff. apply (Hbs x Hx).
    + apply negb_true_iff. apply (Hdots x Hx).
  - intros Hf. rewrite Hf in Hfile. cbn [negb orb] in Hfile. apply andb_true_iff in Hfile. destruct Hfile as [F1 F2].
    split; [exact F1|]. rewrite Hh in F2. cbn [opt_eqb] in F2. apply negb_true_iff in F2. exact F2.
Qed.

Lemma auth_first user pass h tl :
  none_in pes_UserInfo user = true -> none_in pes_UserInfo pass = true -> hscan true false h = true -> h <> [] ->
  exists x l, cred_part user pass ++ h ++ tl = x :: l /\ (x =? 47) = false /\ (x =? 92) = false.
Proof.
  intros Hu Hp Hs Hne. unfold cred_part, cred_str.
  destruct (negb (is_nil user) || negb (is_nil pass)) eqn:E.
  - destruct user as [|x user'].
    + destruct pass as [|y pass']; [discriminate E|]. cbn [is_nil negb app].
      eexists _, _. split; [reflexivity|]. split; reflexivity.
    + cbn [app]. eexists _, _. split; [reflexivity|]. apply none_in_cons in Hu. destruct Hu as [Hx _].
      assert (Hx' : x < 128).
      { unfold RuneShouldBeEncoded in Hx. destruct (bs_test (bits pes_UserInfo) x); [rewrite orb_true_r in Hx; discriminate|]. lia. }
      pose proof (sweep128 (fun x => implb (negb (RuneShouldBeEncoded pes_UserInfo x)) (negb (x =? 47) && negb (x =? 92)))
                    ltac:(vm_compute; reflexivity) x Hx') as S.
      cbv beta in S. rewrite Hx in S. cbn [negb implb] in S. apply andb_true_iff in S. destruct S as [S1 S2].
      apply negb_true_iff in S1, S2. auto.
  - destruct h as [|x h']; [congruence|]. cbn [app]. eexists _, _. split; [reflexivity|].
    cbn [hscan] in Hs. apply andb_true_iff in Hs. destruct Hs as [Hs _]. apply andb_true_iff in Hs. destruct Hs as [_ Hs].
    apply negb_true_iff in Hs. apply orb_false_iff in Hs. destruct Hs as [Hs1 Hs2].
    apply orb_false_iff in Hs1. destruct Hs1 as [Hs1 _]. apply orb_false_iff in Hs1. destruct Hs1 as [Hs1 _].
    cbn [andb] in Hs2. auto.
Qed.

Lemma at_end_tail path oq of : at_end (flat_map (fun s => 47 :: s) path ++ q_tail oq ++ f_tail of) = true.
Proof. destruct path; [|reflexivity]. destruct oq; [reflexivity|]. destruct of; reflexivity. Qed.

(* ------------------------------------------------------------------------------------------ *)
(* a host, a scheme other than file: S4 and the first half of S5                                *)
(* ------------------------------------------------------------------------------------------ *)
Section HostNonFile.
  Variable idna_raw : str -> str * bool.
  Variable c : cfg.
  Hypothesis R : CfgRT c.

  Let Hrep := R_rep c R.
  Let Hfail := R_fail c R.

  Theorem roundtrip_host_nonfile u s :
    Inv c u -> u_opaque u = false -> u_host u <> None -> str_eqb (u_scheme u) s_file = false ->
    stable_b c u = true -> host_fixed idna_raw c u -> Href u false = Some s ->
    Parse idna_raw c s = PUrl (rt_url u s).
  Proof.
    intros Hi Ho Hhost Hnf Hst Hfix Hh.
    destruct (u_host u) as [h|] eqn:Eh; [clear Hhost|congruence].
    pose proof (host_facts idna_raw c u h R Hi Ho Eh Hst Hfix) as HF.
    pose proof (I_scheme _ _ Hi) as Hsch.
    pose proof (I_user _ _ Hi) as Huser. pose proof (I_pass _ _ Hi) as Hpass.
    set (sp := IsSpecialScheme c u) in *.
    (* an empty host: non-special, no credentials, no port *)
    assert (Hnil : h = [] -> sp = false /\ u_username u = [] /\ u_password u = [] /\ u_port u = None).
    { intros ->. split.
      - destruct sp eqn:E; [|reflexivity]. destruct (I_special _ _ Hi E) as [_ [_ [h' [E1 [E2|E2]]]]].
        + rewrite E2 in Hnf. discriminate.
        + rewrite Eh in E1. injection E1 as <-. congruence.
      - apply (I_nocred _ _ Hi). right. left. exact Eh. }
    assert (Hport : forall d, u_port u = Some d -> canonical_decimal d = true /\ (digits_val 10 d <=? 65535) = true /\
                                                 getSpecialScheme c (u_scheme u) <> Some d).
    { intros d E. destruct (I_port _ _ Hi d E) as [P1 [P2 [_ P4]]]. auto. }
    (* the serialization *)
    rewrite (Href_eq u false (flat_map (fun s => 47 :: s) (u_path u))) in Hh
      by (unfold Pathname, path_string; rewrite Ho; reflexivity).
    injection Hh as Hs. rewrite (auth_part_eq u h Eh) in Hs.
    set (oq := u_query u) in *. set (of := u_fragment u) in *.
    change (q_part u) with (q_tail oq) in Hs. change (f_part u) with (f_tail of) in Hs.
    set (pn := flat_map (fun s => 47 :: s) (u_path u)) in *.
    set (A := cred_part (u_username u) (u_password u) ++ h ++ port_part (u_port u)) in *.
    assert (Hs' : s = u_scheme u ++ 58 :: 47 :: 47 :: A ++ pn ++ q_tail oq ++ f_tail of).
    { rewrite <- Hs. unfold A. cbn [app]. rewrite <- !app_assoc. reflexivity. }
    clear Hs.
    assert (Hq : forall q, oq = Some q -> none_in (queryset c u) q = true).
    { intros q E. apply (I_query _ _ Hi q E). }
    assert (Hf : forall f, of = Some f -> none_in (fragset c u) f = true).
    { intros f E. apply (I_frag _ _ Hi f E). }
    destruct (scheme_ok_vis _ Hsch) as [Sne [Svis Shd]].
    (* the input is clean *)
    assert (Hpnv : forallb vis pn = true) by apply (pathname_vis c _ R (I_path _ _ Hi Ho)).
    assert (Hqv : forallb vis (q_tail oq) = true) by apply (q_tail_vis c u R Hi).
    assert (Hfv : forallb vis (f_tail of) = true) by apply (f_tail_vis c u R Hi).
    assert (Hportp : forallb vis (port_part (u_port u)) = true).
    { destruct (u_port u) as [d|] eqn:E; [|reflexivity]. destruct (Hport d eq_refl) as [P1 _].
      destruct (canonical_vis d P1) as [_ [P _]]. cbn [port_part forallb]. rewrite P. reflexivity. }
    assert (HAp : forallb printable A = true).
    { unfold A. rewrite !forallb_app, (forallb_vis_printable _ (cred_part_printable _ _ Huser Hpass)),
        (HF_print _ _ _ HF), (forallb_vis_printable _ Hportp). reflexivity. }
    assert (Hprint : forallb printable s = true).
    { rewrite Hs', forallb_app. cbn [forallb]. rewrite !forallb_app.
      rewrite (forallb_vis_printable _ Svis), HAp, (forallb_vis_printable _ Hpnv),
        (forallb_vis_printable _ Hqv), (forallb_vis_printable _ Hfv). reflexivity. }
    assert (Hne : s <> []). { rewrite Hs'. destruct (u_scheme u); [congruence|discriminate]. }
    assert (Hhd : vis (hd 0 s) = true). { rewrite Hs'. destruct (u_scheme u); [congruence|exact Shd]. }
    assert (Hlast : vis (last s 0) = true).
    { (* the last non-empty component is free of blanks *)
      assert (HT : forall pre T, T <> [] -> forallb vis T = true -> s = pre ++ T -> vis (last s 0) = true).
      { intros pre T H1 H2 ->. apply last_app_vis; assumption. }
      destruct of as [f|] eqn:Ef.
      { apply (HT (u_scheme u ++ 58 :: 47 :: 47 :: A ++ pn ++ q_tail oq) (f_tail (Some f))); [discriminate| |].
        - exact Hfv.
        - rewrite Hs'. rewrite <- !app_assoc. cbn [app]. rewrite <- !app_assoc. reflexivity. }
      cbn [f_tail] in Hs'. rewrite app_nil_r in Hs'.
      destruct oq as [q|] eqn:Eq.
      { apply (HT (u_scheme u ++ 58 :: 47 :: 47 :: A ++ pn) (q_tail (Some q))); [discriminate| |].
        - exact Hqv.
        - rewrite Hs'. rewrite <- !app_assoc. cbn [app]. rewrite <- !app_assoc. reflexivity. }
      cbn [q_tail] in Hs'. rewrite app_nil_r in Hs'.
      destruct pn as [|x0 pn0] eqn:Epn.
      2:{ apply (HT (u_scheme u ++ 58 :: 47 :: 47 :: A) (x0 :: pn0)); [discriminate|exact Hpnv|].
          rewrite Hs'. rewrite <- !app_assoc. cbn [app]. reflexivity. }
      rewrite app_nil_r in Hs'.
      destruct (u_port u) as [d|] eqn:Ep.
      { apply (HT (u_scheme u ++ 58 :: 47 :: 47 :: cred_part (u_username u) (u_password u) ++ h) (port_part (Some d)));
          [discriminate|exact Hportp|].
        rewrite Hs'. unfold A. rewrite <- !app_assoc. cbn [app]. rewrite <- !app_assoc. reflexivity. }
      unfold A in Hs'. cbn [port_part] in Hs'. rewrite app_nil_r in Hs'.
      destruct h as [|x1 h1] eqn:Eh1.
      - destruct (Hnil eq_refl) as [_ [E1 [E2 _]]]. rewrite E1, E2 in Hs'. cbn [cred_part is_nil negb orb app] in Hs'.
        apply (HT (u_scheme u ++ [58; 47]) [47]); [discriminate|reflexivity|].
        rewrite Hs'. rewrite <- app_assoc. reflexivity.
      - rewrite Hs'.
        replace (u_scheme u ++ 58 :: 47 :: 47 :: cred_part (u_username u) (u_password u) ++ x1 :: h1)
          with ((u_scheme u ++ 58 :: 47 :: 47 :: cred_part (u_username u) (u_password u)) ++ x1 :: h1)
          by (rewrite <- app_assoc; reflexivity).
        rewrite last_app_ne by discriminate. apply (HF_last _ _ _ HF). discriminate. }
    apply (Parse_of_finishes idna_raw c s _ Hrep Hfail Hne Hprint Hhd Hlast).
    (* the run: scheme, colon *)
    assert (Hr0 : rest_from (map Good s) 0 = u_scheme u ++ 58 :: 47 :: 47 :: A ++ pn ++ q_tail oq ++ f_tail of).
    { rewrite rest_map_good. exact Hs'. }
    destruct (scheme_colon_reach idna_raw c Hrep Hfail _ _ _ (empty_url s) Hr0 Hsch) as [p [Hp [Hr1 Hreach]]].
    eapply (reaches_finishes idna_raw c Hrep Hfail); [exact Hreach|].
    set (u0 := set_scheme (empty_url s) (u_scheme u)) in *.
    destruct (rest_uncons _ (p + 1)%Z _ _ ltac:(blia) Hr1) as [_ [Hr2 _]].
    destruct (rest_uncons _ (p + 1 + 1)%Z _ _ ltac:(blia) Hr2) as [_ [Hr3 _]].
    destruct (rest_uncons _ (p + 1 + 1 + 1)%Z _ _ ltac:(blia) Hr3) as [_ [Hr4 _]].
    (* to the authority state, pointer at the second '/' *)
    assert (Hto : reaches idna_raw c (map Good s) (mk Scheme p false (u_scheme u) false false false (empty_url s))
                    (mk Authority (p + 1 + 1 + 1) false [] false false false u0)).
    { destruct sp eqn:Esp.
      - eapply (reaches_trans idna_raw c Hrep Hfail).
        { eapply (reaches_step idna_raw c Hrep Hfail).
          - rewrite (step_scheme_colon idna_raw c Hrep Hfail _ p _ _ _ _ _ _ ltac:(blia) Hr1).
            rewrite Hnf. unfold sp, IsSpecialScheme in Esp. rewrite Esp. reflexivity.
          - reflexivity. }
        eapply (reaches_trans idna_raw c Hrep Hfail).
        { eapply (reaches_step idna_raw c Hrep Hfail);
            [apply (step_sas idna_raw c Hrep Hfail _ (p + 1)%Z _ _ _ _ _ _ ltac:(blia) Hr2)|reflexivity]. }
        assert (Hhne : h <> []). { intros E. destruct (Hnil E) as [E' _]. discriminate E'. }
        pose proof (HF_scan _ _ _ HF) as Hscan. fold sp in Hscan. rewrite Esp in Hscan.
        destruct (auth_first (u_username u) (u_password u) h (port_part (u_port u) ++ pn ++ q_tail oq ++ f_tail of)
                    Huser Hpass Hscan Hhne) as [x [l [E1 [E2 E3]]]].
        assert (Hr4' : rest_from (map Good s) (p + 1 + 1 + 1 + 1) = x :: l).
        { rewrite Hr4. unfold A. rewrite <- !app_assoc. exact E1. }
        eapply (reaches_eq idna_raw c Hrep Hfail).
        { eapply (reaches_step idna_raw c Hrep Hfail);
            [apply (step_sais idna_raw c Hrep Hfail _ (p + 1 + 1 + 1)%Z _ _ _ _ _ _ _ ltac:(blia) Hr4' E2 E3)|reflexivity]. }
        f_equal. ring.
      - eapply (reaches_trans idna_raw c Hrep Hfail).
        { eapply (reaches_step idna_raw c Hrep Hfail).
          - rewrite (step_scheme_colon idna_raw c Hrep Hfail _ p _ _ _ _ _ _ ltac:(blia) Hr1).
            rewrite Hnf. unfold sp, IsSpecialScheme in Esp. rewrite Esp. reflexivity.
          - reflexivity. }
        eapply (reaches_step idna_raw c Hrep Hfail);
          [apply (step_poa_auth idna_raw c Hrep Hfail _ (p + 1 + 1)%Z _ _ _ _ _ _ ltac:(blia) Hr3)|reflexivity]. }
    eapply (reaches_finishes idna_raw c Hrep Hfail); [exact Hto|]. clear Hto.
    (* the authority *)
    assert (Hr4' : rest_from (map Good s) (p + 1 + 1 + 1 + 1) =
                   cred_part (u_username u) (u_password u) ++ h ++ port_part (u_port u) ++ (pn ++ q_tail oq ++ f_tail of)).
    { rewrite Hr4. unfold A. rewrite <- !app_assoc. reflexivity. }
    destruct (authority_phase idna_raw c Hrep Hfail _ (p + 1 + 1 + 1)%Z u0 (u_username u) (u_password u) h (u_port u)
                (pn ++ q_tail oq ++ f_tail of) (all_good_map s) ltac:(blia) Hr4' (at_end_tail _ _ _) eq_refl eq_refl
                Huser Hpass (HF_scan _ _ _ HF) (HF_br _ _ _ HF) (HF_64 _ _ _ HF) (HF_small _ _ _ HF) Hnil
                (Hfix h Eh) Hport) as [a [pw Hauth]].
    eapply (reaches_finishes idna_raw c Hrep Hfail); [exact Hauth|]. clear Hauth.
    (* the path, the query, the fragment *)
    pose proof (rest_app _ (p + 1 + 1 + 1 + 1)%Z A _ ltac:(blia) Hr4) as Hr5.
    pose proof (len_nonneg A) as HlA.
    replace (p + 1 + 1 + 1 + 1 + len A)%Z with (p + 1 + 1 + 1 + len A + 1)%Z in Hr5 by ring.
    fold A.
    eapply (finishes_eq idna_raw c Hrep Hfail).
    { apply (pathstart_tail idna_raw c R _ (p + 1 + 1 + 1 + len A)%Z a false pw _ (u_path u) oq of ltac:(blia) Hr5).
      - destruct (u_port u); reflexivity.
      - destruct (u_port u); reflexivity.
      - intros Epath. assert (Esp : sp = false).
        { destruct sp eqn:Esp; [|reflexivity]. destruct (I_special _ _ Hi Esp) as [_ [E _]]. exfalso. exact (E Epath). }
        destruct (u_port u); exact Esp.
      - destruct (u_port u); exact (HF_segs _ _ _ HF).
      - intros seg r _ E. exfalso. destruct (u_port u); cbn in E; rewrite Hnf in E; discriminate E.
      - destruct (u_port u); exact Hq.
      - destruct (u_port u); exact Hf. }
    unfold rt_url. fold oq of. rewrite Eh, Ho.
    destruct (u_port u) as [d|] eqn:Ep.
    - destruct (I_port _ _ Hi d Ep) as [_ [_ [P3 _]]]. rewrite P3. destruct oq, of; reflexivity.
    - rewrite (HF_dp _ _ _ HF Ep). destruct oq, of; reflexivity.
  Qed.
End HostNonFile.

Print Assumptions roundtrip_host_nonfile.
