(* Round trip, part 4 (S4): special schemes other than file,
   "scheme://[user[:password]@]host[:port]/path?query#fragment".
   Also what is shared by all the cases with a host: the clean-input facts and the path after the authority. *)
From Verif Require Import Lib.Base Lib.Utf8 Lib.GoStr Model.Cfg Gen.Tables Gen.Options Model.Sets Model.Percent
  Model.Url Model.Host Model.Machine Model.Api Model.Preds.
From Verif Require Import Proofs.SetsProofs Proofs.Cleaning Proofs.PhaseLemmas Proofs.RecordInv
  Proofs.RoundTripBase Proofs.RoundTripPhases Proofs.RoundTripOpaque Proofs.RoundTripHostless.
From Coq Require Import Lia ZifyBool ZifyN ZifyNat.

Local Arguments N.mul : simpl never.
Local Arguments N.add : simpl never.
Local Arguments N.sub : simpl never.
Local Arguments N.eqb : simpl never.
Local Arguments N.ltb : simpl never.
Local Arguments N.leb : simpl never.

(* ------------------------------------------------------------------------------------------ *)
(* shared by the cases with a host                                                              *)
(* ------------------------------------------------------------------------------------------ *)

Lemma all_good_map s : all_good (map Good s).
Proof.
  intros q b. unfold rune_at. destruct (q <? 0)%Z; [discriminate|].
  generalize (Z.to_nat q). intros k. revert k. induction s as [|x s IH]; intros [|k]; cbn [map nth_opt]; try discriminate.
  apply IH.
Qed.

(* the last byte of a host accepted by [Inv] is not a blank *)
Lemma not_forbidden_vis x : printable x = true -> (isForbiddenHost x = false \/ isForbiddenDomain x = false) -> vis x = true.
Proof.
  intros Hp H. assert (Hx : x < 128) by (unfold printable in Hp; lia).
  pose proof (sweep128 (fun x => implb (printable x && (negb (isForbiddenHost x) || negb (isForbiddenDomain x))) (vis x))
                ltac:(vm_compute; reflexivity) x Hx) as S.
  cbv beta in S. rewrite Hp in S. destruct H as [H|H]; rewrite H in S; cbn [negb andb orb implb] in S.
  - exact S.
  - rewrite orb_true_r in S. exact S.
Qed.

Lemma has_suffix_last (l : str) : l <> [] -> has_suffix [93] l = true -> last l 0 = 93.
Proof.
  intros Hne Hs. rewrite (app_removelast_last 0 Hne) in Hs. unfold has_suffix in Hs.
  rewrite rev_app_distr in Hs. cbn [rev app has_prefix] in Hs.
  rewrite andb_true_r in Hs. apply N.eqb_eq in Hs. symmetry. exact Hs.
Qed.

Lemma host_last_vis sp h : host_ok sp h = true -> forallb printable h = true -> h <> [] -> vis (last h 0) = true.
Proof.
  intros Hok Hp Hne. unfold host_ok in Hok. apply orb_true_iff in Hok. destruct Hok as [Hb|Hnf].
  - unfold is_bracketed in Hb. destruct h as [|x h']; [discriminate|].
    assert (Hs : has_suffix [93] (x :: h') = true).
    { destruct x as [|px]; [discriminate|]. do 7 (destruct px as [px|px|]; try discriminate Hb). exact Hb. }
    rewrite (has_suffix_last _ Hne Hs). reflexivity.
  - assert (Hin : In (last h 0) h).
    { rewrite (app_removelast_last 0 Hne) at 2. apply in_or_app. right. left. reflexivity. }
    rewrite forallb_forall in Hp. pose proof (Hp _ Hin) as Hpl.
    apply not_forbidden_vis; [exact Hpl|]. destruct sp.
    + right. apply andb_true_iff in Hnf. destruct Hnf as [Hnf _]. apply andb_true_iff in Hnf. destruct Hnf as [Hnf _].
      rewrite forallb_forall in Hnf. apply negb_true_iff. apply Hnf. exact Hin.
    + left. rewrite forallb_forall in Hnf. apply negb_true_iff. apply Hnf. exact Hin.
Qed.

Lemma printable_lt128 h : forallb printable h = true -> forallb (fun x => x <? 128) h = true.
Proof. apply forallb_impl. intros x. unfold printable. lia. Qed.

Lemma canonical_vis d : canonical_decimal d = true -> d <> [] /\ forallb vis d = true /\ forallb is_digit d = true.
Proof.
  unfold canonical_decimal. intros H. apply andb_true_iff in H. destruct H as [H _]. apply andb_true_iff in H.
  destruct H as [H1 H2]. split; [destruct d; [discriminate|discriminate]|]. split; [|exact H2].
  revert H2. apply forallb_impl. intros x. unfold is_digit, vis. lia.
Qed.

Lemma userinfo_vis l : none_in pes_UserInfo l = true -> forallb vis l = true.
Proof. apply none_in_vis. reflexivity. Qed.

Lemma cred_part_printable user pass :
  none_in pes_UserInfo user = true -> none_in pes_UserInfo pass = true -> forallb vis (cred_part user pass) = true.
Proof.
  intros Hu Hp. unfold cred_part, cred_str. destruct (negb (is_nil user) || negb (is_nil pass)); [|reflexivity].
  rewrite !forallb_app, (userinfo_vis _ Hu). destruct (negb (is_nil pass)); cbn [forallb]; rewrite ?(userinfo_vis _ Hp); reflexivity.
Qed.

(* the serializer's authority, in the vocabulary of the phase lemmas *)
Lemma auth_part_eq u h :
  u_host u = Some h ->
  auth_part u = [47; 47] ++ cred_part (u_username u) (u_password u) ++ h ++ port_part (u_port u).
Proof.
  intros Hh. unfold auth_part, cred_part, cred_str, port_part. rewrite Hh.
  destruct (negb (is_nil (u_username u)) || negb (is_nil (u_password u))).
  - rewrite <- !app_assoc. reflexivity.
  - reflexivity.
Qed.

Section HostShared.
  Variable idna_raw : str -> str * bool.
  Variable c : cfg.
  Hypothesis R : CfgRT c.
  Variable inp : list rune.

  Let Hrep := R_rep c R.
  Let Hfail := R_fail c R.

  (* after the authority: the path (if any), the query, the fragment *)
  Lemma pathstart_tail p a br pw u path oq of :
    (-1 <= p)%Z ->
    rest_from inp (p + 1) = flat_map (fun s => 47 :: s) path ++ q_tail oq ++ f_tail of ->
    u_path u = [] -> u_opaque u = false ->
    (path = [] -> IsSpecialScheme c u = false) ->
    forallb (seg_good c (IsSpecialScheme c u)) path = true ->
    (forall seg r, path = seg :: r -> str_eqb (u_scheme u) s_file = true -> isWindowsDriveLetter seg = true ->
                   c_skipDrive c = false -> isNormalizedWindowsDriveLetter seg = true) ->
    (forall q, oq = Some q -> none_in (queryset c u) q = true) ->
    (forall f, of = Some f -> none_in (fragset c u) f = true) ->
    finishes idna_raw c inp (mk PathStart p false [] a br pw u) (with_f (with_q (set_path u path false) oq) of).
  Proof using R.
    intros Hp Hr Hpath Hopq Hnil Hg Hdrv Hq Hf.
    assert (H35 : RuneShouldBeEncoded (queryset c u) 35 = true) by apply (R_queryset c _ R).
    destruct path as [|seg segs].
    - cbn [flat_map app] in Hr. specialize (Hnil eq_refl).
      erewrite set_path_eta; [|exact Hpath|exact Hopq].
      destruct oq as [q|]; cbn [q_tail with_q app] in *.
      + eapply (reaches_finishes idna_raw c Hrep Hfail).
        * eapply (reaches_step idna_raw c Hrep Hfail);
            [apply (step_pathstart_q idna_raw c Hrep Hfail inp p [] a br pw u _ Hp Hr Hnil)|reflexivity].
        * destruct (rest_uncons inp (p + 1)%Z _ _ ltac:(blia) Hr) as [_ [Hr2 _]].
          eapply (finishes_eq idna_raw c Hrep Hfail);
            [apply (query_tail idna_raw c Hrep Hfail inp (p + 1)%Z a br pw _ q of ltac:(blia) Hr2);
             [reflexivity|exact H35|apply Hq; reflexivity|exact Hf]|].
          destruct of; reflexivity.
      + destruct of as [f|]; cbn [f_tail with_f] in *.
        * eapply (reaches_finishes idna_raw c Hrep Hfail).
          -- eapply (reaches_step idna_raw c Hrep Hfail);
               [apply (step_pathstart_h idna_raw c Hrep Hfail inp p [] a br pw u _ Hp Hr Hnil)|reflexivity].
          -- destruct (rest_uncons inp (p + 1)%Z _ _ ltac:(blia) Hr) as [_ [Hr2 _]].
             eapply (finishes_eq idna_raw c Hrep Hfail);
               [apply (frag_tail idna_raw c Hrep Hfail inp (p + 1)%Z a br pw _ f ltac:(blia) Hr2); apply Hf; reflexivity|].
             reflexivity.
        * eapply (finishes_eq idna_raw c Hrep Hfail).
          -- eapply (finishes_step idna_raw c Hrep Hfail);
               [apply (step_pathstart_eof idna_raw c Hrep Hfail inp p [] a br pw u Hp Hr Hnil)|reflexivity].
          -- reflexivity.
    - cbn [flat_map] in Hr. rewrite <- app_assoc in Hr. cbn [app] in Hr.
      eapply (reaches_finishes idna_raw c Hrep Hfail).
      + eapply (reaches_step idna_raw c Hrep Hfail);
          [apply (step_pathstart_slash idna_raw c Hrep Hfail inp p [] a br pw u _ Hp Hr)|reflexivity].
      + destruct (rest_uncons inp (p + 1)%Z _ _ ltac:(blia) Hr) as [_ [Hr2 _]].
        eapply (finishes_eq idna_raw c Hrep Hfail).
        * apply (path_phase idna_raw c Hrep Hfail inp segs seg (p + 1)%Z a br pw u oq of (R_sp c R) (R_col c R) H35
                   ltac:(blia) Hr2 Hg).
          -- intros E1 _ E3 E4. apply (Hdrv seg segs eq_refl E1 E3 E4).
          -- exact Hq.
          -- exact Hf.
        * rewrite Hpath. reflexivity.
  Qed.
End HostShared.
