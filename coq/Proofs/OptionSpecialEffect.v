(* C16, special-schemes: a scheme of the table passed to the option gets default-port elision and
   special-scheme parsing.
   - special_normal_form is the normal-form theorem of Proofs/WebCfg.v (normal_form_web) instantiated with the
     replaced table: the exact record returned for   sch://[user[:pw]@]host[:port][/seg...][?q][#f] ;
   - special_port_effect reads the clauses of the task off that record (port elided exactly when its value is the
     table's port, any other port kept in canonical decimal, no path becomes "/", special-scheme flags);
   - special_all_inputs is a corollary of the record invariant (Proofs/RecordInv.v, established for every parse by
     Proofs/MachineInv.v Parse_Inv): for EVERY input whose result has a scheme of the table - host required,
     path not empty, port never the table's port;
   - findings with witnesses at the end: the option REPLACES the table (http stops being special), and a table
     port that is not a canonical decimal is never elided. *)
From Verif Require Import Lib.Base Lib.Utf8 Lib.GoStr Model.Cfg Gen.Tables Gen.Options Model.Sets Model.Percent Model.Url Model.Host
  Model.Machine Model.Api Model.Preds.
From Verif Require Import Proofs.OptionTable Proofs.RecordInv Proofs.MachineInv Proofs.RoundTripBase Proofs.RoundTripPhases
  Proofs.NormalFormPhases Proofs.NormalForm Proofs.WebCfg.
From Coq Require Import Lia ZifyBool ZifyN ZifyNat.

Local Arguments N.mul : simpl never.
Local Arguments N.add : simpl never.
Local Arguments N.sub : simpl never.
Local Arguments N.eqb : simpl never.
Local Arguments N.ltb : simpl never.
Local Arguments N.leb : simpl never.

(* ---------------------------------------------------------------------------------- *)
(* the table of the option                                                              *)
(* ---------------------------------------------------------------------------------- *)
Lemma getSpecial_with c t s : getSpecialScheme (with_special c t) s = assoc s t.
Proof. reflexivity. Qed.

Lemma isSpecial_with c t s : isSpecialScheme (with_special c t) s = is_some (assoc s t).
Proof. reflexivity. Qed.

(* in the machine "special" is tested next to every test for '/': for a scheme of the table a backslash is a separator *)
Lemma sab_with c t u dp r : assoc (u_scheme u) t = Some dp ->
  isSpecialSchemeAndBackslash (with_special c t) u r = (r =? 92).
Proof. intros H. unfold isSpecialSchemeAndBackslash, IsSpecialScheme. rewrite isSpecial_with, H. reflexivity. Qed.

Lemma CfgWeb_with_special c t : CfgWeb c -> CfgWeb (with_special c t).
Proof. intros W. constructor; cbn; apply W. Qed.

(* ---------------------------------------------------------------------------------- *)
(* the normal form under the replaced table                                             *)
(* ---------------------------------------------------------------------------------- *)
Theorem special_normal_form : forall idna_raw c t k,
  CfgWeb c -> comps_ok (with_special c t) k = true -> pq c (text_of k) ->
  (c_collapse c = false \/ forallb nonempty (removelast (k_segs k)) = true) ->
  Parse idna_raw (with_special c t) (text_of k) =
  match parseHost idna_raw (with_special c t) (pre_host (with_special c t) k) (k_host k) false with
  | Ok _ h => PUrl (nf (with_special c t) k h)
  | Er _ e => PErr e
  end.
Proof.
  intros idna_raw c t k W Hok Hpq Hcol.
  apply (normal_form_web idna_raw (with_special c t) (CfgWeb_with_special c t W) k Hok); assumption.
Qed.
Print Assumptions special_normal_form.

(* what the port component of the input becomes *)
Definition port_result (dp : str) (op : option str) : option str :=
  match op with
  | Some (x :: d) => let v := itoa (digits_val 10 (x :: d)) in if str_eqb dp v then None else Some v
  | _ => None
  end.

Theorem special_port_effect : forall idna_raw c t k dp u,
  CfgWeb c -> comps_ok (with_special c t) k = true -> pq c (text_of k) ->
  (c_collapse c = false \/ forallb nonempty (removelast (k_segs k)) = true) ->
  assoc (str_lower (k_sch k)) t = Some dp ->
  Parse idna_raw (with_special c t) (text_of k) = PUrl u ->
  (* treated as special *)
  u_scheme u = str_lower (k_sch k) /\ IsSpecialScheme (with_special c t) u = true /\
  (forall r, isSpecialSchemeAndBackslash (with_special c t) u r = (r =? 92)) /\
  (* default-port elision: exactly the table's port is elided, any other port is kept (in canonical decimal) *)
  u_port u = port_result dp (k_port k) /\
  Port u = match port_result dp (k_port k) with Some v => v | None => [] end /\
  (* a host is present, the path is the normalised list of segments; no path at all is the path "/" *)
  (exists h, u_host u = Some h) /\ u_opaque u = false /\ u_path u = norm_segs (k_segs k) /\
  (k_segs k = [] -> Pathname u = Some [47]).
Proof.
  intros idna_raw c t k dp u W Hok Hpq Hcol Hdp HP.
  rewrite (special_normal_form idna_raw c t k W Hok Hpq Hcol) in HP.
  destruct (parseHost idna_raw (with_special c t) (pre_host (with_special c t) k) (k_host k) false) as [u0 h|u0 e];
    [|discriminate HP].
  injection HP as <-.
  assert (EP : fst (nf_port (with_special c t) (str_lower (k_sch k)) (k_port k)) = port_result dp (k_port k)).
  { unfold nf_port, port_result. rewrite getSpecial_with, Hdp. destruct (k_port k) as [[|x d]|]; try reflexivity.
    cbv zeta. cbn [opt_eqb]. destruct (str_eqb dp (itoa (digits_val 10 (x :: d)))); reflexivity. }
  assert (ES : assoc (u_scheme (nf (with_special c t) k h)) t = Some dp) by exact Hdp.
  split; [reflexivity|].
  split; [unfold IsSpecialScheme; rewrite isSpecial_with, ES; reflexivity|].
  split; [intros r; apply (sab_with c t _ dp r ES)|].
  split; [exact EP|].
  split; [unfold Port; cbn [nf u_port]; rewrite EP; reflexivity|].
  split; [exists h; reflexivity|]. split; [reflexivity|]. split; [reflexivity|].
  intros E. unfold Pathname, path_string. cbn [nf u_path u_opaque]. rewrite E. reflexivity.
Qed.
Print Assumptions special_port_effect.

(* ---------------------------------------------------------------------------------- *)
(* every input (corollary of the record invariant)                                      *)
(* ---------------------------------------------------------------------------------- *)
Theorem special_all_inputs : forall idna_raw c t x u dp,
  H3 idna_raw -> cfg_okm (with_special c t) = true ->
  Parse idna_raw (with_special c t) x = PUrl u -> assoc (u_scheme u) t = Some dp ->
  IsSpecialScheme (with_special c t) u = true /\
  (* host required (file may have the empty host), a list path that is not empty: the pathname starts with '/' *)
  u_opaque u = false /\ u_path u <> [] /\
  (exists h, u_host u = Some h /\ (str_eqb (u_scheme u) s_file = true \/ h <> [])) /\
  (* the port is never the table's port of the scheme *)
  u_port u <> Some dp /\ (dp <> [] -> Port u <> dp).
Proof.
  intros idna_raw c t x u dp HH Hc HP Hdp.
  pose proof (Parse_Inv idna_raw HH (with_special c t) Hc x u HP) as Hi.
  assert (Hs : IsSpecialScheme (with_special c t) u = true)
    by (unfold IsSpecialScheme; rewrite isSpecial_with, Hdp; reflexivity).
  destruct (I_special _ _ Hi Hs) as (Ho & Hp & h & Hh & Hne).
  assert (Hport : u_port u <> Some dp).
  { intros E. destruct (I_port _ _ Hi dp E) as (_ & _ & _ & N). apply N. rewrite getSpecial_with. exact Hdp. }
  split; [exact Hs|]. split; [exact Ho|]. split; [exact Hp|]. split; [exists h; split; assumption|].
  split; [exact Hport|]. intros Hne' E. unfold Port in E. destruct (u_port u) as [p|]; [|congruence]. congruence.
Qed.
Print Assumptions special_all_inputs.

(* ---------------------------------------------------------------------------------- *)
(* examples: premises are satisfiable                                                   *)
(* ---------------------------------------------------------------------------------- *)
Definition idna_id2 (s : str) : str * bool := (s, false).
(* the table of the generated option instance (Gen/Options.v): scheme "x", port "1" *)
Definition cfg_x : cfg := with_special default_cfg [([120], [49])].
(* the default table with ("x","1") added *)
Definition cfg_plus_x : cfg := with_special default_cfg (c_special default_cfg ++ [([120], [49])]).

Example cfg_x_is_option : cfg_x = opt_WithSpecialSchemes.
Proof. reflexivity. Qed.

(* "x://h:1/", "x://h:01", "x://h:2/" *)
Definition k_x (d : str) (segs : list str) : comps :=
  {| k_sch := [120]; k_user := []; k_pass := []; k_host := [104]; k_port := Some d; k_segs := segs;
     k_query := None; k_frag := None |}.

Example special_port_effect_premises :
  CfgWeb default_cfg /\ comps_ok cfg_x (k_x [49] [[]]) = true /\ pq default_cfg (text_of (k_x [49] [[]])) /\
  c_collapse default_cfg = false /\ assoc (str_lower (k_sch (k_x [49] [[]]))) [([120], [49])] = Some [49] /\
  text_of (k_x [49] [[]]) = [120;58;47;47;104;58;49;47] /\
  (exists u, Parse idna_id2 cfg_x (text_of (k_x [49] [[]])) = PUrl u /\ Port u = [] /\ Href u false = Some [120;58;47;47;104;47]) /\
  (exists u, Parse idna_id2 cfg_x (text_of (k_x [48;49] [])) = PUrl u /\ Port u = [] /\ Href u false = Some [120;58;47;47;104;47]) /\
  (exists u, Parse idna_id2 cfg_x (text_of (k_x [50] [[]])) = PUrl u /\ Port u = [50] /\
             Href u false = Some [120;58;47;47;104;58;50;47]).
Proof.
  split; [exact CfgWeb_default|]. split; [vm_compute; reflexivity|]. split; [left; reflexivity|].
  split; [reflexivity|]. split; [reflexivity|]. split; [reflexivity|].
  split; [eexists; split; [vm_compute; reflexivity|split; vm_compute; reflexivity]|].
  split; [eexists; split; [vm_compute; reflexivity|split; vm_compute; reflexivity]|].
  eexists; split; [vm_compute; reflexivity|split; vm_compute; reflexivity].
Qed.

(* the invariant-based statement needs "file" in the table (cfg_okm); the default table plus ("x","1") qualifies *)
Example special_all_inputs_premises :
  cfg_okm cfg_plus_x = true /\ cfg_okm cfg_x = false /\
  (exists u, Parse idna_id2 cfg_plus_x [120;58;47;47;104;58;49] = PUrl u /\ assoc (u_scheme u) (c_special cfg_plus_x) = Some [49] /\
             Port u = [] /\ u_path u = [[]]).
Proof.
  split; [vm_compute; reflexivity|]. split; [vm_compute; reflexivity|].
  eexists. split; [vm_compute; reflexivity|]. split; [reflexivity|]. split; reflexivity.
Qed.

(* backslash acts as slash, host required: "x:\\h\a\b" and "x://" under the table {x:1} and under the default table *)
Example special_backslash_and_host :
  (exists u, Parse idna_id2 cfg_x [120;58;92;92;104;92;97;92;98] = PUrl u /\ u_host u = Some [104] /\ u_path u = [[97]; [98]] /\
             Href u false = Some [120;58;47;47;104;47;97;47;98]) /\
  (exists u, Parse idna_id2 default_cfg [120;58;92;92;104;92;97;92;98] = PUrl u /\ u_host u = None /\
             u_path u = [[92;92;104;92;97;92;98]] /\ u_opaque u = true) /\
  Parse idna_id2 cfg_x [120;58;47;47] = PErr {| e_type := HostMissing; e_failure := true; e_url := [120;58;47;47] |} /\
  (exists u, Parse idna_id2 default_cfg [120;58;47;47] = PUrl u /\ u_host u = Some [] /\ u_path u = []).
Proof.
  split; [eexists; split; [vm_compute; reflexivity|repeat split; vm_compute; reflexivity]|].
  split; [eexists; split; [vm_compute; reflexivity|repeat split; vm_compute; reflexivity]|].
  split; [vm_compute; reflexivity|].
  eexists; split; [vm_compute; reflexivity|split; reflexivity].
Qed.

(* the same input under the default table: the port 1 is kept and no path stays no path *)
Example not_special_contrast :
  exists u, Parse idna_id2 default_cfg [120;58;47;47;104;58;49] = PUrl u /\ Port u = [49] /\ u_path u = [] /\
            Href u false = Some [120;58;47;47;104;58;49].
Proof. eexists. split; [vm_compute; reflexivity|repeat split; vm_compute; reflexivity]. Qed.

(* ---------------------------------------------------------------------------------- *)
(* FINDINGS                                                                             *)
(* ---------------------------------------------------------------------------------- *)
(* 1. the option REPLACES the table: under the table {x:1} "http://h:80" keeps its port and gets no path,
      and "file" is no longer special either (so cfg_okm / CfgRT do not hold for such a table) *)
Theorem special_table_replaces_defaults :
  exists u, Parse idna_id2 cfg_x [104;116;116;112;58;47;47;104;58;56;48] = PUrl u /\
            IsSpecialScheme cfg_x u = false /\ Port u = [56;48] /\ u_path u = [] /\
            isSpecialScheme cfg_x s_file = false.
Proof. eexists. split; [vm_compute; reflexivity|repeat split; vm_compute; reflexivity]. Qed.

(* 2. elision compares the table's port TEXT with the canonical decimal of the parsed port: a table port that is
      not a canonical decimal ("01") is never elided, neither for "x://h:1/" nor for "x://h:01/" *)
Definition cfg_x01 : cfg := with_special default_cfg [([120], [48;49])].
Theorem special_noncanonical_port_never_elided :
  (exists u, Parse idna_id2 cfg_x01 [120;58;47;47;104;58;49;47] = PUrl u /\ IsSpecialScheme cfg_x01 u = true /\ Port u = [49]) /\
  (exists u, Parse idna_id2 cfg_x01 [120;58;47;47;104;58;48;49;47] = PUrl u /\ IsSpecialScheme cfg_x01 u = true /\ Port u = [49]).
Proof.
  split; eexists; (split; [vm_compute; reflexivity|split; vm_compute; reflexivity]).
Qed.

(* in general: the port is elided iff the table's port is the canonical decimal of the value *)
Theorem special_elision_iff : forall dp x d,
  port_result dp (Some (x :: d)) = None <-> dp = itoa (digits_val 10 (x :: d)).
Proof.
  intros dp x d. unfold port_result. cbv zeta.
  destruct (str_eqb dp (itoa (digits_val 10 (x :: d)))) eqn:E.
  - split; [intros _; apply RecordInv.str_eqb_eq; exact E|reflexivity].
  - split; [discriminate|]. intros ->. rewrite RecordInv.str_eqb_refl in E. discriminate.
Qed.

Print Assumptions special_table_replaces_defaults.
Print Assumptions special_noncanonical_port_never_elided.
Print Assumptions special_elision_iff.
