(* Phase lemmas for the BasicParser state machine (Model/Machine.v) with diagnostics off
   (c_report = false, c_fail = false): validation errors are no-ops, and the FragmentSt / QuerySt
   self loops compute a percent-encoding of the remaining code points.  Also the single steps of the
   states SchemeStart, Scheme, NoScheme, Relative, File that reference resolution goes through.
   Used by Proofs/ResolveProofs.v. *)
From Verif Require Import Lib.Base Lib.Utf8 Lib.GoStr Model.Cfg Gen.Tables Model.Sets Model.Percent Model.Url Model.Host Model.Machine Model.Api.
From Verif Require Import Proofs.Cleaning.
From Coq Require Import Lia ZifyBool ZifyN ZifyNat.

Local Arguments N.mul : simpl never.
Local Arguments N.add : simpl never.
Local Arguments N.sub : simpl never.
Local Arguments N.eqb : simpl never.
Local Arguments N.ltb : simpl never.
Local Arguments N.leb : simpl never.

(* ------------------------------------------------------------------------------------------ *)
(* 0. lists                                                                                     *)
(* ------------------------------------------------------------------------------------------ *)

Lemma nth_opt_lt {A} (l : list A) : forall i, (i < length l)%nat -> exists x, nth_opt l i = Some x.
Proof.
  induction l as [|y l IH]; intros i H; cbn [length] in H; [lia|].
  destruct i as [|i]; cbn [nth_opt]; [eexists; reflexivity|]. apply IH. lia.
Qed.

Lemma nth_opt_ge {A} (l : list A) : forall i, (length l <= i)%nat -> nth_opt l i = None.
Proof.
  induction l as [|y l IH]; intros i H; [destruct i; reflexivity|].
  cbn [length] in H. destruct i as [|i]; [lia|]. cbn [nth_opt]. apply IH. lia.
Qed.

Lemma nth_opt_skipn {A} (l : list A) : forall i x, nth_opt l i = Some x -> skipn i l = x :: skipn (Datatypes.S i) l.
Proof.
  induction l as [|y l IH]; intros i x H; [destruct i; discriminate|].
  destruct i as [|i]; cbn [nth_opt] in H.
  - injection H as ->. reflexivity.
  - cbn [skipn]. rewrite (IH i x H). reflexivity.
Qed.

Lemma str_eqb_true_eq (a : str) : forall b, str_eqb a b = true -> a = b.
Proof.
  unfold str_eqb. induction a as [|x a IH]; intros [|y b] H; cbn [list_eqb] in H; try discriminate; [reflexivity|].
  apply andb_true_iff in H. destruct H as [H1 H2]. apply N.eqb_eq in H1. subst y. f_equal. apply IH, H2.
Qed.

(* decoding an ASCII byte *)
Lemma decode_low_cons (b : N) (rest : str) : b <? 128 = true -> decode (b :: rest) = Good b :: decode rest.
Proof.
  intros H. unfold decode. cbn [length decode_fuel]. unfold dec1. rewrite H. reflexivity.
Qed.

(* the query phase stops at the first '#' *)
Fixpoint query_split (l : list N) : list N * option (list N) :=
  match l with
  | [] => ([], None)
  | r :: l' => if r =? 35 then ([], Some l') else let '(q, f) := query_split l' in (r :: q, f)
  end.

Lemma query_split_nohash l : ~ In 35 l -> query_split l = (l, None).
Proof.
  induction l as [|r l IH]; intros H; [reflexivity|]. cbn [query_split].
  destruct (r =? 35) eqn:E; [exfalso; apply H; left; lia|].
  rewrite IH; [reflexivity|]. intros Hin. apply H. right. exact Hin.
Qed.

Lemma query_split_hash q f : ~ In 35 q -> query_split (q ++ 35 :: f) = (q, Some f).
Proof.
  induction q as [|r q IH]; intros H; [reflexivity|]. cbn [query_split app].
  destruct (r =? 35) eqn:E; [exfalso; apply H; left; lia|].
  rewrite IH; [reflexivity|]. intros Hin. apply H. right. exact Hin.
Qed.

(* ------------------------------------------------------------------------------------------ *)
(* 1. diagnostics off                                                                           *)
(* ------------------------------------------------------------------------------------------ *)

Section Quiet.
  Variable idna_raw : str -> str * bool.
  Variable c : cfg.
  Hypothesis Hrep : c_report c = false.
  Hypothesis Hfail : c_fail c = false.

  (* a validation error that is not a failure is a no-op *)
  Lemma mherr_quiet u t k : mherr c u t false k = k u.
  Proof. unfold mherr. rewrite (handleError_quiet c Hrep Hfail). reflexivity. Qed.

  (* a failure is returned; the record is left as it was *)
  Lemma mherr_fatal u t k :
    mherr c u t true k = RetErr u {| e_type := t; e_failure := true; e_url := u_input u |}.
  Proof. unfold mherr, handleError. rewrite Hrep. reflexivity. Qed.

  (* the shape of `url_unit_checks` in [step]: it reduces to its continuation *)
  Lemma unit_checks_quiet (b1 b2 : bool) u t1 t2 (k : bool -> url -> outcome) :
    (if b1 then (fun k' => mherr c u t1 false k') else (fun k' => k' u))
      (fun u => if b2 then mherr c u t2 false (k true) else k false u) = k b2 u.
  Proof. destruct b1, b2; rewrite ?mherr_quiet; reflexivity. Qed.

  (* the sets the two phases encode with *)
  Definition fragset (u : url) : peset := if isSpecialScheme c (u_scheme u) then c_sfragSet c else c_fragSet c.
  Definition queryset (u : url) : peset := if isSpecialScheme c (u_scheme u) then c_squerySet c else c_querySet c.
  Definition enc_with (t : peset) (l : list N) : str := flat_map (fun r => percentEncodeRune c r (Some t)) l.

  Lemma enc_with_cons t r l : enc_with t (r :: l) = percentEncodeRune c r (Some t) ++ enc_with t l.
  Proof. reflexivity. Qed.

  Section Run.
    Variable inp : list rune.
    Variable base : option url.
    Variable override : option state.

    Notation n := (n_inp inp).
    Notation stepf := (step idna_raw c inp base override).
    Notation runf := (run idna_raw c inp base override).
    Notation cp := (cp_at inp).
    Notation rest := (rest_from inp).

    Lemma n_nonneg : (0 <= n)%Z.
    Proof. unfold n_inp, len. lia. Qed.

    Lemma cp_oob p : (n <= p)%Z -> cp p = rune_error.
    Proof.
      intros H. unfold cp_at. destruct (p <? 0)%Z; [reflexivity|].
      rewrite nth_opt_ge; [reflexivity|]. unfold n_inp, len in H. lia.
    Qed.

    (* the code point read by nextCodePoint is cp_at p also at the end of the input *)
    Lemma r_eq p : (if (n <=? p)%Z then rune_error else cp p) = cp p.
    Proof. destruct (n <=? p)%Z eqn:E; [|reflexivity]. symmetry. apply cp_oob. lia. Qed.

    Lemma cp_in_range p x : cp p = x -> x <> rune_error -> (0 <= p < n)%Z.
    Proof.
      intros H Hx. split.
      - destruct (p <? 0)%Z eqn:E; [|lia]. unfold cp_at in H. rewrite E in H. congruence.
      - destruct (n <=? p)%Z eqn:E; [|lia]. rewrite cp_oob in H by lia. congruence.
    Qed.

    Lemma rest_cons q : (0 <= q < n)%Z -> rest q = cp q :: rest (q + 1).
    Proof.
      intros H. unfold rest_from, cp_at, n_inp, len in *.
      destruct (q <? 0)%Z eqn:E; [lia|].
      destruct (nth_opt_lt inp (Z.to_nat q)) as [x Hx]; [lia|].
      rewrite Hx, (nth_opt_skipn _ _ _ Hx). cbn [map]. f_equal.
      replace (Z.to_nat (q + 1)) with (Datatypes.S (Z.to_nat q)) by lia. reflexivity.
    Qed.

    Lemma rest_nil q : (n <= q)%Z -> rest q = [].
    Proof.
      intros H. unfold rest_from, n_inp, len in *. rewrite skipn_all2; [reflexivity|]. lia.
    Qed.

    Lemma rest_length q : (0 <= q)%Z -> length (rest q) = Z.to_nat (n - q).
    Proof. intros H. unfold rest_from, n_inp, len. rewrite map_length, skipn_length. lia. Qed.

    Lemma rest_0 : rest 0 = map rv inp.
    Proof. reflexivity. Qed.

    (* one iteration of the loop *)
    Lemma run_cont f m m' : stepf m = Cont m' -> m_eof m' = false -> runf (Datatypes.S f) m = runf f m'.
    Proof. intros H E. cbn [run]. rewrite H, E. reflexivity. Qed.

    Lemma run_last f m m' : stepf m = Cont m' -> m_eof m' = true -> runf (Datatypes.S f) m = RUrl (m_url m').
    Proof. intros H E. cbn [run]. rewrite H, E. reflexivity. Qed.

    Lemma run_err f m u e : stepf m = RetErr u e -> runf (Datatypes.S f) m = RErr u e.
    Proof. intros H. cbn [run]. rewrite H. reflexivity. Qed.

    (* a run that ended is not changed by more fuel *)
    Lemma run_mono : forall f k m, runf f m <> ROutOfFuel -> runf (f + k) m = runf f m.
    Proof.
      induction f as [|f IH]; intros k m H; [cbn in H; congruence|].
      cbn [run Nat.add] in *. destruct (stepf m) as [m'| | | |]; try reflexivity.
      destruct (m_eof m'); [reflexivity|]. apply IH. assumption.
    Qed.

    Ltac unfold_step :=
      cbv beta iota zeta delta [step mk m_state m_ptr m_eof m_buf m_at m_br m_pw m_url].

    Ltac quiet_checks :=
      match goal with |- (if ?b1 then _ else _) _ = _ => destruct b1 end;
      match goal with |- context [if invalid_pct ?l then _ else _] => destruct (invalid_pct l) end;
      cbv beta; repeat (rewrite mherr_quiet; cbv beta); reflexivity.

    (* ---------------- FragmentSt ---------------- *)
    Lemma step_fragment_mid p buf a br pw u :
      (p + 1 < n)%Z ->
      stepf (mk FragmentSt p false buf a br pw u) =
      Cont (mk FragmentSt (p + 1) false (buf ++ percentEncodeRune c (cp (p + 1)) (Some (fragset u))) a br pw u).
    Proof.
      intros H. unfold_step.
      replace (n <=? p + 1)%Z with false by lia. cbv beta iota. cbn [negb].
      quiet_checks.
    Qed.

    Lemma step_fragment_end p buf a br pw u :
      (n <= p + 1)%Z ->
      stepf (mk FragmentSt p false buf a br pw u) =
      Cont (mk FragmentSt (p + 1) true buf a br pw (set_fragment u (Some buf))).
    Proof.
      intros H. unfold_step.
      replace (n <=? p + 1)%Z with true by lia. cbv beta iota. cbn [negb]. reflexivity.
    Qed.

    (* L1 *)
    Theorem fragment_phase : forall fuel p buf a br pw u,
      (-1 <= p)%Z -> (length (rest (p + 1)) + 1 <= fuel)%nat ->
      runf fuel (mk FragmentSt p false buf a br pw u) =
      RUrl (set_fragment u (Some (buf ++ enc_with (fragset u) (rest (p + 1))))).
    Proof.
      induction fuel as [|f IH]; intros p buf a br pw u Hp Hf; [lia|].
      destruct (n <=? p + 1)%Z eqn:E.
      - rewrite (run_last f _ _ (step_fragment_end p buf a br pw u ltac:(lia))) by reflexivity.
        rewrite rest_nil by lia. cbn [mk m_url enc_with flat_map]. rewrite app_nil_r. reflexivity.
      - rewrite (run_cont f _ _ (step_fragment_mid p buf a br pw u ltac:(lia))) by reflexivity.
        rewrite (rest_cons (p + 1)) in Hf |- * by lia. cbn [length] in Hf.
        rewrite IH by lia. rewrite enc_with_cons, app_assoc. reflexivity.
    Qed.

    (* ---------------- QuerySt ---------------- *)
    Lemma step_query_mid p buf a br pw u :
      (p + 1 < n)%Z -> negb (overridden override) && (cp (p + 1) =? 35) = false ->
      stepf (mk QuerySt p false buf a br pw u) =
      Cont (mk QuerySt (p + 1) false (buf ++ percentEncodeRune c (cp (p + 1)) (Some (queryset u))) a br pw u).
    Proof.
      intros H H35. unfold_step.
      replace (n <=? p + 1)%Z with false by lia. cbv beta iota. rewrite H35. cbn [negb].
      quiet_checks.
    Qed.

    Lemma step_query_hash p buf a br pw u q0 :
      override = None -> cp (p + 1) = 35 -> u_query u = Some q0 ->
      stepf (mk QuerySt p false buf a br pw u) =
      Cont (mk FragmentSt (p + 1) false [] a br pw (set_fragment (set_query u (Some buf)) (Some []))).
    Proof.
      intros Hov H35 Hq. unfold_step. rewrite r_eq, H35, Hov, Hq.
      destruct (cp_in_range _ _ H35 ltac:(discriminate)) as [_ Hn].
      replace (n <=? p + 1)%Z with false by lia. reflexivity.
    Qed.

    Lemma step_query_end p buf a br pw u :
      (n <= p + 1)%Z ->
      stepf (mk QuerySt p false buf a br pw u) =
      Cont (mk QuerySt (p + 1) true buf a br pw (set_query u (Some buf))).
    Proof.
      intros H. unfold_step.
      replace (n <=? p + 1)%Z with true by lia. cbv beta iota.
      replace (rune_error =? 35) with false by reflexivity. rewrite andb_false_r. reflexivity.
    Qed.

    (* what the query phase returns *)
    Definition query_result (u : url) (buf : str) (l : list N) : url :=
      let '(q, f) := query_split l in
      let u1 := set_query u (Some (buf ++ enc_with (queryset u) q)) in
      match f with
      | None => u1
      | Some f => set_fragment u1 (Some (enc_with (fragset u) f))
      end.

    (* L2 *)
    Theorem query_phase : forall fuel p buf a br pw u q0,
      override = None -> u_query u = Some q0 ->
      (-1 <= p)%Z -> (length (rest (p + 1)) + 1 <= fuel)%nat ->
      runf fuel (mk QuerySt p false buf a br pw u) = RUrl (query_result u buf (rest (p + 1))).
    Proof.
      induction fuel as [|f IH]; intros p buf a br pw u q0 Hov Hq Hp Hf; [lia|].
      destruct (n <=? p + 1)%Z eqn:E.
      - rewrite (run_last f _ _ (step_query_end p buf a br pw u ltac:(lia))) by reflexivity.
        rewrite rest_nil by lia. unfold query_result. cbn [mk m_url query_split enc_with flat_map].
        rewrite app_nil_r. reflexivity.
      - rewrite (rest_cons (p + 1)) in Hf |- * by lia. cbn [length] in Hf.
        unfold query_result. cbn [query_split].
        destruct (cp (p + 1) =? 35) eqn:E35.
        + assert (H35 : cp (p + 1) = 35) by lia.
          rewrite (run_cont f _ _ (step_query_hash p buf a br pw u q0 Hov H35 Hq)) by reflexivity.
          rewrite fragment_phase by lia.
          cbn [enc_with flat_map]. rewrite app_nil_r. cbn [app].
          unfold fragset. cbn [set_query u_scheme].
          unfold set_fragment. cbn [set_query u_input u_scheme u_username u_password u_host u_port u_decodedPort
            u_path u_opaque u_query u_fragment u_verrs u_sp]. reflexivity.
        + rewrite (run_cont f _ _ (step_query_mid p buf a br pw u ltac:(lia) ltac:(rewrite E35; apply andb_false_r)))
            by reflexivity.
          rewrite (IH _ _ _ _ _ _ q0 Hov Hq) by lia.
          unfold query_result.
          destruct (query_split (rest (p + 1 + 1))) as [q f0].
          rewrite enc_with_cons, app_assoc. reflexivity.
    Qed.

    (* the special case wanted most often: no '#' in the remaining input *)
    Corollary query_phase_nohash fuel p buf a br pw u q0 :
      override = None -> u_query u = Some q0 -> ~ In 35 (rest (p + 1)) ->
      (-1 <= p)%Z -> (length (rest (p + 1)) + 1 <= fuel)%nat ->
      runf fuel (mk QuerySt p false buf a br pw u) =
      RUrl (set_query u (Some (buf ++ enc_with (queryset u) (rest (p + 1))))).
    Proof.
      intros Hov Hq Hno Hp Hf. rewrite (query_phase fuel p buf a br pw u q0 Hov Hq Hp Hf).
      unfold query_result. rewrite (query_split_nohash _ Hno). reflexivity.
    Qed.

    (* ---------------- SchemeStart / Scheme: the scan for "scheme:" ---------------- *)
    Definition is_schemechar (r : N) : bool := isAlnum r || (r =? 43) || (r =? 45) || (r =? 46).

    (* a run of scheme characters followed by ':' *)
    Fixpoint scheme_scan (l : list N) : bool :=
      match l with
      | [] => false
      | r :: l' => if is_schemechar r then scheme_scan l' else r =? 58
      end.
    (* the code points start with  alpha (alnum | + | - | .)* ':'  *)
    Definition has_scheme_prefix (l : list N) : bool :=
      match l with
      | [] => false
      | r :: l' => isAlpha r && scheme_scan l'
      end.

    Lemma isAlpha_error : isAlpha rune_error = false.
    Proof. vm_compute. reflexivity. Qed.
    Lemma schemechar_error : is_schemechar rune_error = false.
    Proof. vm_compute. reflexivity. Qed.

    Lemma step_schemestart_nonalpha buf a br pw u :
      override = None -> isAlpha (cp 0) = false ->
      stepf (mk SchemeStart (-1) false buf a br pw u) = Cont (mk NoScheme (-1) false buf a br pw u).
    Proof.
      intros Hov Ha. unfold_step. change (-1 + 1)%Z with 0%Z. rewrite r_eq, Ha, Hov. reflexivity.
    Qed.

    Lemma step_schemestart_alpha buf a br pw u :
      isAlpha (cp 0) = true ->
      stepf (mk SchemeStart (-1) false buf a br pw u) =
      Cont (mk Scheme 0 false (buf ++ utf8_enc (ascii_lower (cp 0))) a br pw u).
    Proof.
      intros Ha. unfold_step. change (-1 + 1)%Z with 0%Z. rewrite r_eq, Ha.
      assert (Hn : (0 <= 0 < n)%Z).
      { apply (cp_in_range 0 (cp 0) eq_refl). intros E. rewrite E, isAlpha_error in Ha. discriminate. }
      replace (n <=? 0)%Z with false by lia. reflexivity.
    Qed.

    Lemma step_scheme_char p buf a br pw u :
      is_schemechar (cp (p + 1)) = true ->
      stepf (mk Scheme p false buf a br pw u) =
      Cont (mk Scheme (p + 1) false (buf ++ utf8_enc (ascii_lower (cp (p + 1)))) a br pw u).
    Proof.
      intros Ha. unfold_step. rewrite r_eq. unfold is_schemechar in Ha. rewrite Ha.
      destruct (n <=? p + 1)%Z eqn:E; [|reflexivity].
      rewrite cp_oob in Ha by lia. fold (is_schemechar rune_error) in Ha. rewrite schemechar_error in Ha. discriminate.
    Qed.

    Lemma step_scheme_fail p buf a br pw u :
      override = None -> is_schemechar (cp (p + 1)) = false -> (cp (p + 1) =? 58) = false ->
      stepf (mk Scheme p false buf a br pw u) = Cont (mk NoScheme (-1) false [] a br pw u).
    Proof.
      intros Hov Ha H58. unfold_step. rewrite r_eq. unfold is_schemechar in Ha. rewrite Ha, H58, Hov. reflexivity.
    Qed.

    (* the Scheme self loop on a scan that fails: the pointer is reset, the buffer emptied *)
    Lemma scheme_scan_fails : forall p buf a br pw u,
      override = None -> (-1 <= p)%Z -> scheme_scan (rest (p + 1)) = false ->
      exists k, (1 <= k <= length (rest (p + 1)) + 1)%nat /\ forall fuel,
        runf (k + fuel) (mk Scheme p false buf a br pw u) = runf fuel (mk NoScheme (-1) false [] a br pw u).
    Proof.
      intros p buf a br pw u Hov Hp.
      remember (length (rest (p + 1))) as len eqn:Hlen.
      revert p buf Hp Hlen. induction len as [|len IH]; intros p buf Hp Hlen Hscan.
      - assert (Hn : (n <= p + 1)%Z) by (rewrite rest_length in Hlen by lia; lia).
        exists 1%nat. split; [lia|]. intros fuel. cbn [Nat.add].
        apply run_cont; [|reflexivity].
        apply step_scheme_fail; [exact Hov| |]; rewrite cp_oob by lia; reflexivity.
      - assert (Hn : (p + 1 < n)%Z) by (rewrite rest_length in Hlen by lia; lia).
        rewrite (rest_cons (p + 1)) in Hlen, Hscan by lia. cbn [length] in Hlen. cbn [scheme_scan] in Hscan.
        destruct (is_schemechar (cp (p + 1))) eqn:Ec.
        + destruct (IH (p + 1)%Z (buf ++ utf8_enc (ascii_lower (cp (p + 1)))) ltac:(lia) ltac:(lia) Hscan) as [k [Hk Hr]].
          exists (Datatypes.S k). split; [lia|]. intros fuel. cbn [Nat.add].
          rewrite (run_cont _ _ _ (step_scheme_char p buf a br pw u Ec)) by reflexivity. apply Hr.
        + exists 1%nat. split; [lia|]. intros fuel. cbn [Nat.add].
          apply run_cont; [|reflexivity]. apply step_scheme_fail; assumption.
    Qed.

    (* from the start state, an input without a "scheme:" prefix reaches NoScheme with the input rewound,
       after at most (number of code points + 1) iterations *)
    Theorem no_scheme_phase a br pw u :
      override = None -> has_scheme_prefix (map rv inp) = false ->
      exists k, (1 <= k <= length inp + 1)%nat /\ forall fuel,
        runf (k + fuel) (mk SchemeStart (-1) false [] a br pw u) = runf fuel (mk NoScheme (-1) false [] a br pw u).
    Proof.
      intros Hov Hpre. rewrite <- rest_0 in Hpre.
      destruct (isAlpha (cp 0)) eqn:Ea.
      - assert (Hn : (0 <= 0 < n)%Z).
        { apply (cp_in_range 0 (cp 0) eq_refl). intros E. rewrite E, isAlpha_error in Ea. discriminate. }
        rewrite (rest_cons 0) in Hpre by lia. cbn [has_scheme_prefix] in Hpre. rewrite Ea in Hpre. cbn [andb] in Hpre.
        destruct (scheme_scan_fails 0 ([] ++ utf8_enc (ascii_lower (cp 0))) a br pw u Hov ltac:(lia) Hpre)
          as [k [Hk Hr]].
        exists (Datatypes.S k). split.
        + rewrite rest_length in Hk by lia. unfold n_inp, len in *. lia.
        + intros fuel. cbn [Nat.add].
          rewrite (run_cont _ _ _ (step_schemestart_alpha [] a br pw u Ea)) by reflexivity. apply Hr.
      - exists 1%nat. split; [lia|]. intros fuel. cbn [Nat.add].
        apply run_cont; [|reflexivity]. apply step_schemestart_nonalpha; assumption.
    Qed.

    (* ---------------- NoScheme ---------------- *)
    Lemma step_noscheme_opaque_err b buf a br pw u :
      base = Some b -> u_opaque b = true -> (cp 0 =? 35) = false ->
      stepf (mk NoScheme (-1) false buf a br pw u) =
      RetErr u {| e_type := MissingSchemeNonRelativeURL; e_failure := true; e_url := u_input u |}.
    Proof.
      intros Hb Ho H35. unfold_step. change (-1 + 1)%Z with 0%Z. rewrite r_eq, Hb, Ho, H35. cbn [negb andb].
      apply mherr_fatal.
    Qed.

    Lemma step_noscheme_opaque_hash b buf a br pw u :
      base = Some b -> u_opaque b = true -> cp 0 = 35 ->
      stepf (mk NoScheme (-1) false buf a br pw u) =
      Cont (mk FragmentSt 0 false buf a br pw
              (set_fragment (set_query (set_path (set_scheme u (u_scheme b)) (u_path b) true) (u_query b)) (Some []))).
    Proof.
      intros Hb Ho H35. unfold_step. change (-1 + 1)%Z with 0%Z. rewrite r_eq, Hb, Ho, H35.
      destruct (cp_in_range _ _ H35 ltac:(discriminate)) as [_ Hn].
      replace (n <=? 0)%Z with false by lia. reflexivity.
    Qed.

    Lemma step_noscheme_relative b buf a br pw u :
      base = Some b -> u_opaque b = false -> str_eqb (u_scheme b) s_file = false ->
      stepf (mk NoScheme (-1) false buf a br pw u) = Cont (mk Relative (-1) false buf a br pw u).
    Proof.
      intros Hb Ho Hf. unfold_step. change (-1 + 1)%Z with 0%Z. rewrite Hb, Ho, Hf. reflexivity.
    Qed.

    Lemma step_noscheme_file b buf a br pw u :
      base = Some b -> u_opaque b = false -> str_eqb (u_scheme b) s_file = true ->
      stepf (mk NoScheme (-1) false buf a br pw u) = Cont (mk File (-1) false buf a br pw u).
    Proof.
      intros Hb Ho Hf. unfold_step. change (-1 + 1)%Z with 0%Z. rewrite Hb, Ho, Hf. reflexivity.
    Qed.

    (* ---------------- Relative ---------------- *)
    (* the record after the base's components were copied *)
    Definition rel_copy (u b : url) : url :=
      set_query (set_path (copy_base_auth (set_scheme u (u_scheme b)) b) (u_path b) (u_opaque b)) (u_query b).

    Lemma step_relative_hash b buf a br pw u :
      base = Some b -> cp 0 = 35 ->
      stepf (mk Relative (-1) false buf a br pw u) =
      Cont (mk FragmentSt 0 false buf a br pw (set_fragment (rel_copy u b) (Some []))).
    Proof.
      intros Hb H35. unfold_step. change (-1 + 1)%Z with 0%Z. rewrite r_eq, Hb, H35.
      destruct (cp_in_range _ _ H35 ltac:(discriminate)) as [_ Hn].
      replace (n <=? 0)%Z with false by lia.
      unfold isSpecialSchemeAndBackslash. replace (35 =? 92) with false by reflexivity. rewrite andb_false_r.
      reflexivity.
    Qed.

    Lemma step_relative_question b buf a br pw u :
      base = Some b -> cp 0 = 63 ->
      stepf (mk Relative (-1) false buf a br pw u) =
      Cont (mk QuerySt 0 false buf a br pw (set_query (rel_copy u b) (Some []))).
    Proof.
      intros Hb H63. unfold_step. change (-1 + 1)%Z with 0%Z. rewrite r_eq, Hb, H63.
      destruct (cp_in_range _ _ H63 ltac:(discriminate)) as [_ Hn].
      replace (n <=? 0)%Z with false by lia.
      unfold isSpecialSchemeAndBackslash. replace (63 =? 92) with false by reflexivity. rewrite andb_false_r.
      reflexivity.
    Qed.

    Lemma step_relative_eof b buf a br pw u :
      base = Some b -> n = 0%Z ->
      stepf (mk Relative (-1) false buf a br pw u) = Cont (mk Relative 0 true buf a br pw (rel_copy u b)).
    Proof.
      intros Hb Hn. unfold_step. change (-1 + 1)%Z with 0%Z. rewrite Hb, Hn. cbv beta iota.
      unfold isSpecialSchemeAndBackslash. replace (rune_error =? 92) with false by reflexivity. rewrite andb_false_r.
      reflexivity.
    Qed.

    (* ---------------- File ---------------- *)
    Definition file_copy (u b : url) : url :=
      set_query (set_path (set_host (set_host (set_scheme u s_file) (Some [])) (u_host b)) (u_path b) (u_opaque b)) (u_query b).

    Lemma step_file_hash b buf a br pw u :
      base = Some b -> str_eqb (u_scheme b) s_file = true -> cp 0 = 35 ->
      stepf (mk File (-1) false buf a br pw u) =
      Cont (mk FragmentSt 0 false buf a br pw (set_fragment (file_copy u b) (Some []))).
    Proof.
      intros Hb Hf H35. unfold_step. change (-1 + 1)%Z with 0%Z. rewrite r_eq, Hb, Hf, H35.
      destruct (cp_in_range _ _ H35 ltac:(discriminate)) as [_ Hn].
      replace (n <=? 0)%Z with false by lia. reflexivity.
    Qed.

    Lemma step_file_question b buf a br pw u :
      base = Some b -> str_eqb (u_scheme b) s_file = true -> cp 0 = 63 ->
      stepf (mk File (-1) false buf a br pw u) =
      Cont (mk QuerySt 0 false buf a br pw (set_query (file_copy u b) (Some []))).
    Proof.
      intros Hb Hf H63. unfold_step. change (-1 + 1)%Z with 0%Z. rewrite r_eq, Hb, Hf, H63.
      destruct (cp_in_range _ _ H63 ltac:(discriminate)) as [_ Hn].
      replace (n <=? 0)%Z with false by lia. reflexivity.
    Qed.

    Lemma step_file_eof b buf a br pw u :
      base = Some b -> str_eqb (u_scheme b) s_file = true -> n = 0%Z ->
      stepf (mk File (-1) false buf a br pw u) = Cont (mk File 0 true buf a br pw (file_copy u b)).
    Proof.
      intros Hb Hf Hn. unfold_step. change (-1 + 1)%Z with 0%Z. rewrite Hb, Hf, Hn. reflexivity.
    Qed.
  End Run.
End Quiet.

(* what the scan predicate means: a letter, a run of scheme characters, a colon *)
Lemma schemechar_colon : is_schemechar 58 = false.
Proof. vm_compute. reflexivity. Qed.

Lemma scheme_scan_spec l :
  scheme_scan l = true <-> exists s rest, l = s ++ 58 :: rest /\ forallb is_schemechar s = true.
Proof.
  split.
  - induction l as [|r l IH]; cbn [scheme_scan]; [discriminate|].
    destruct (is_schemechar r) eqn:E; intros H.
    + destruct (IH H) as [s [rest [-> Hs]]]. exists (r :: s), rest. split; [reflexivity|].
      cbn [forallb]. rewrite E, Hs. reflexivity.
    + assert (r = 58) by lia. subst r. exists [], l. split; reflexivity.
  - intros [s [rest [-> Hs]]]. induction s as [|r s IH]; cbn [app scheme_scan].
    + rewrite schemechar_colon. reflexivity.
    + cbn [forallb] in Hs. apply andb_true_iff in Hs. destruct Hs as [Hr Hs]. rewrite Hr. apply IH, Hs.
Qed.

Theorem has_scheme_prefix_spec l :
  has_scheme_prefix l = true <->
  exists a s rest, l = a :: s ++ 58 :: rest /\ isAlpha a = true /\ forallb is_schemechar s = true.
Proof.
  destruct l as [|a l]; cbn [has_scheme_prefix].
  - split; [discriminate|]. intros [a [s [rest [H _]]]]. discriminate H.
  - rewrite andb_true_iff, scheme_scan_spec. split.
    + intros [Ha [s [rest [-> Hs]]]]. exists a, s, rest. auto.
    + intros [a' [s [rest [H [Ha Hs]]]]]. injection H as -> ->. split; [exact Ha|]. exists s, rest. auto.
Qed.

Print Assumptions fragment_phase.
Print Assumptions query_phase.
Print Assumptions no_scheme_phase.
Print Assumptions has_scheme_prefix_spec.
