(* The error kinds a step of the model machine raises in state s are those of the Go clause `case s:` of the state switch
   of BasicParser (Gen/Transitions.v, go_state_errors, REGENERATED from /repo/url/parser.go on every run), plus the kinds
   that come out of the functions the clause calls.
   - step_errors_allowed: errors_of (step m) ⊆ direct_errors (m_state m) ++ called_errors (m_state m), all 21 states;
   - step_verrs_extend: the record a step leaves behind carries the old validation errors as a prefix (so the suffix that
     errors_of reads is exactly what this step appended);
   - direct_errors_realised / called_errors_realised: every listed kind is raised by some concrete step in that state, so
     both tables are exact. *)
From Verif Require Import Lib.Base Lib.Utf8 Lib.GoStr Model.Cfg Gen.Tables Model.Sets Model.Percent Model.Url Model.Host Model.Machine.
From Verif Require Import Gen.Transitions.
From Coq Require Import Lia.

Local Open Scope N_scope.

(* ------------------------------------------------------------------------------------------ *)
(* 0. Error kinds: decidable membership                                                        *)
(* ------------------------------------------------------------------------------------------ *)

Definition etype_eqb (a b : etype) : bool := etype_index a =? etype_index b.
Lemma etype_eqb_eq a b : etype_eqb a b = true <-> a = b.
Proof.
  unfold etype_eqb. split.
  - intros H. apply N.eqb_eq in H. destruct a, b; try reflexivity; vm_compute in H; discriminate.
  - intros ->. apply N.eqb_refl.
Qed.
Definition inb (t : etype) (l : list etype) : bool := existsb (etype_eqb t) l.
Lemma inb_In t l : inb t l = true -> In t l.
Proof.
  unfold inb. rewrite existsb_exists. intros [x [Hx E]]. apply etype_eqb_eq in E. subst. exact Hx.
Qed.
Lemma In_inb t l : In t l -> inb t l = true.
Proof.
  unfold inb. rewrite existsb_exists. intros H. exists t. split; [exact H|]. apply etype_eqb_eq. reflexivity.
Qed.

(* ------------------------------------------------------------------------------------------ *)
(* 1. The two tables                                                                           *)
(* ------------------------------------------------------------------------------------------ *)

Fixpoint lookup_state (s : state) (l : list (state * list etype)) : list etype :=
  match l with
  | [] => []
  | (s', ts) :: l' => if state_eqb s s' then ts else lookup_state s l'
  end.

(* the kinds the Go clause passes directly to handleError* (generated) *)
Definition direct_errors (s : state) : list etype := lookup_state s go_state_errors.

(* the kinds of url/hostparser.go (parseHost and what it calls) *)
Definition ipv6_kinds : list etype :=
  [IPv6InvalidCompression; IPv6TooManyPieces; IPv6MultipleCompression; IPv6InvalidCodePoint; IPv6TooFewPieces;
   IPv4InIPv6TooManyPieces; IPv4InIPv6InvalidCodePoint; IPv4InIPv6OutOfRangePart; IPv4InIPv6TooFewParts].
Definition host_kinds : list etype :=
  [DomainToASCII; DomainInvalidCodePoint; HostInvalidCodePoint; IPv4EmptyPart; IPv4TooManyParts; IPv4NonNumericPart;
   IPv4NonDecimalPart; IPv4OutOfRangePart; IPv6Unclosed; InvalidURLUnit] ++ ipv6_kinds.

(* the kinds that come out of what the clause calls: the host parser in the three host states; PortOutOfRange in the port
   state, which the Go clause raises through p.handleWrappedError (not a handleError* name, so the generated table does not
   list it - see the report at the end of this file). The percent-encoding helpers of the model raise nothing. *)
Definition called_errors (s : state) : list etype :=
  match s with
  | HostSt | HostnameSt | FileHost => host_kinds
  | PortSt => [PortOutOfRange]
  | _ => []
  end.

(* ------------------------------------------------------------------------------------------ *)
(* 2. What a step raises                                                                       *)
(* ------------------------------------------------------------------------------------------ *)

(* the validation errors appended to the record since u0 *)
Definition new_verrs (u0 u : url) : list verr := skipn (length (u_verrs u0)) (u_verrs u).

Definition errors_of (o : outcome) (u0 : url) : list etype :=
  match o with
  | Cont m' => map e_type (new_verrs u0 (m_url m'))
  | RetUrl u => map e_type (new_verrs u0 u)
  | RetNilNil u => map e_type (new_verrs u0 u)
  | RetErr u e => e_type e :: map e_type (new_verrs u0 u)
  | Panic => []
  end.

(* v extends v0 by errors whose kinds are in S *)
Definition okv (S : list etype) (v0 v : list verr) : Prop :=
  exists l, v = v0 ++ l /\ Forall (fun e => In (e_type e) S) l.

Lemma okv_refl S v0 : okv S v0 v0.
Proof. exists []. split; [symmetry; apply app_nil_r | constructor]. Qed.

Lemma okv_snoc S v0 v e : okv S v0 v -> In (e_type e) S -> okv S v0 (v ++ [e]).
Proof.
  intros [l [-> Hl]] He. exists (l ++ [e]). split; [symmetry; apply app_assoc|].
  apply Forall_app. split; [exact Hl | constructor; [exact He | constructor]].
Qed.

Lemma okv_new S u0 u : okv S (u_verrs u0) (u_verrs u) -> incl (map e_type (new_verrs u0 u)) S.
Proof.
  intros [l [E Hl]]. unfold new_verrs. rewrite E.
  rewrite skipn_app, skipn_all, Nat.sub_diag. cbn [skipn app].
  intros t Ht. apply in_map_iff in Ht. destruct Ht as [e [<- He]].
  rewrite Forall_forall in Hl. apply Hl. exact He.
Qed.

Lemma handleError_okv S v0 c u t f :
  In t S -> okv S v0 (u_verrs u) ->
  okv S v0 (u_verrs (fst (handleError c u t f))) /\
  (forall e, snd (handleError c u t f) = Some e -> e_type e = t).
Proof.
  intros Ht Hu. unfold handleError. cbn [fst snd]. split.
  - destruct (c_report c); [|exact Hu]. cbn [u_verrs set_verrs]. apply okv_snoc; [exact Hu | exact Ht].
  - intros e He. destruct (f || c_fail c); [|discriminate]. injection He as <-. reflexivity.
Qed.

(* ------------------------------------------------------------------------------------------ *)
(* 3. The host parser                                                                          *)
(* ------------------------------------------------------------------------------------------ *)

(* parseIPv4 with its local function named *)
Definition ipv4_after (c : cfg) (u : url) (parts : list str) : res str :=
  (if (4 <? len parts)%Z then (fun k => herr c u IPv4TooManyParts true k) else (fun k => k u))
  (fun u =>
    match ipv4_numbers c u parts [] with
    | Er u e => Er u e
    | Ok u numbers =>
        ipv4_range_warn c u numbers (fun u =>
          let init := drop_last numbers in
          if existsb (fun n => 255 <? n) init then herr c u IPv4OutOfRangePart true (fun u => Ok u [])
          else match last_opt numbers with
               | None => Ok u []
               | Some lastn =>
                   if 256 ^ (5 - N.of_nat (length numbers)) <=? lastn
                   then herr c u IPv4OutOfRangePart true (fun u => Ok u [])
                   else Ok u (IPv4String (lastn + ipv4_sum init 0))
               end)
    end).

Lemma parseIPv4_unfold c u input :
  parseIPv4 c u input =
  match last_opt (split 46 input) with
  | Some [] =>
      herr c u IPv4EmptyPart false (fun u =>
        ipv4_after c u (if (1 <? len (split 46 input))%Z then drop_last (split 46 input) else split 46 input))
  | _ => ipv4_after c u (split 46 input)
  end.
Proof. reflexivity. Qed.

Section HostKinds.
  Variable S : list etype.
  Variable v0 : list verr.
  Hypothesis HS : incl host_kinds S.

  Definition R {A} (r : res A) : Prop :=
    match r with
    | Ok u _ => okv S v0 (u_verrs u)
    | Er u e => okv S v0 (u_verrs u) /\ In (e_type e) S
    end.

  Lemma hk t : inb t host_kinds = true -> In t S.
  Proof. intros H. apply HS. apply inb_In. exact H. Qed.

  Lemma R_herr {A} c u t f (k : url -> res A) :
    In t S -> okv S v0 (u_verrs u) -> (forall u', okv S v0 (u_verrs u') -> R (k u')) -> R (herr c u t f k).
  Proof.
    intros Ht Hu Hk. unfold herr. destruct (handleError_okv S v0 c u t f Ht Hu) as [H1 H2].
    destruct (handleError c u t f) as [u' [e|]]; cbn [fst snd] in *.
    - split; [exact H1|]. rewrite (H2 e eq_refl). exact Ht.
    - apply Hk. exact H1.
  Qed.

  Lemma parseIPv4Number_okv c u input :
    okv S v0 (u_verrs u) -> okv S v0 (u_verrs (fst (parseIPv4Number c u input))).
  Proof.
    intros Hu. unfold parseIPv4Number. destruct input as [|x input]; [|exact Hu].
    destruct (handleError_okv S v0 c u IPv4EmptyPart true (hk IPv4EmptyPart eq_refl) Hu) as [H1 _].
    destruct (handleError c u IPv4EmptyPart true) as [u' oe]. exact H1.
  Qed.

  Lemma endsInANumber_okv c u input :
    okv S v0 (u_verrs u) -> okv S v0 (u_verrs (fst (endsInANumber c u input))).
  Proof.
    intros Hu. unfold endsInANumber.
    match goal with |- context [last_opt ?p] => destruct (last_opt p) as [[|x l]|] end; try exact Hu.
    destruct (all_in isDigit (x :: l)); [exact Hu|].
    pose proof (parseIPv4Number_okv c u (x :: l) Hu) as H.
    destruct (parseIPv4Number c u (x :: l)) as [u' [n ve|range]]; exact H.
  Qed.

  Lemma ipv4_numbers_R c : forall parts u acc, okv S v0 (u_verrs u) -> R (ipv4_numbers c u parts acc).
  Proof.
    induction parts as [|p rest IH]; intros u acc Hu; cbn [ipv4_numbers]; [exact Hu|].
    pose proof (parseIPv4Number_okv c u p Hu) as H.
    destruct (parseIPv4Number c u p) as [u1 [n ve|range]]; cbn [fst] in H.
    - destruct ve; [|apply IH; exact H].
      apply R_herr; [apply hk; reflexivity | exact H | intros u' Hu'; apply IH; exact Hu'].
    - apply R_herr; [apply hk; reflexivity | exact H | intros u' Hu'; apply IH; exact Hu'].
  Qed.

  Lemma ipv4_range_warn_R c k : (forall u, okv S v0 (u_verrs u) -> R (k u)) ->
    forall ns u, okv S v0 (u_verrs u) -> R (ipv4_range_warn c u ns k).
  Proof.
    intros Hk. induction ns as [|n rest IH]; intros u Hu; cbn [ipv4_range_warn]; [apply Hk; exact Hu|].
    destruct (255 <? n); [|apply IH; exact Hu].
    apply R_herr; [apply hk; reflexivity | exact Hu | intros u' Hu'; apply IH; exact Hu'].
  Qed.

  Lemma ipv4_after_R c u parts : okv S v0 (u_verrs u) -> R (ipv4_after c u parts).
  Proof.
    intros Hu. unfold ipv4_after.
    assert (Hk : forall u, okv S v0 (u_verrs u) ->
              R (match ipv4_numbers c u parts [] with
                 | Er u e => Er u e
                 | Ok u numbers =>
                     ipv4_range_warn c u numbers (fun u =>
                       let init := drop_last numbers in
                       if existsb (fun n => 255 <? n) init then herr c u IPv4OutOfRangePart true (fun u => Ok u [])
                       else match last_opt numbers with
                            | None => Ok u []
                            | Some lastn =>
                                if 256 ^ (5 - N.of_nat (length numbers)) <=? lastn
                                then herr c u IPv4OutOfRangePart true (fun u => Ok u [])
                                else Ok u (IPv4String (lastn + ipv4_sum init 0))
                            end)
                 end)).
    { clear u Hu. intros u Hu. pose proof (ipv4_numbers_R c parts u [] Hu) as H.
      destruct (ipv4_numbers c u parts []) as [u1 numbers|u1 e]; [|exact H]. cbn [R] in H.
      apply ipv4_range_warn_R; [|exact H]. intros u2 Hu2. cbv zeta.
      destruct (existsb (fun n => 255 <? n) (drop_last numbers)).
      - apply R_herr; [apply hk; reflexivity | exact Hu2 | intros u' Hu'; exact Hu'].
      - destruct (last_opt numbers) as [lastn|]; [|exact Hu2].
        destruct (256 ^ (5 - N.of_nat (length numbers)) <=? lastn); [|exact Hu2].
        apply R_herr; [apply hk; reflexivity | exact Hu2 | intros u' Hu'; exact Hu']. }
    destruct (4 <? len parts)%Z; [|apply Hk; exact Hu].
    apply R_herr; [apply hk; reflexivity | exact Hu | exact Hk].
  Qed.

  Lemma parseIPv4_R c u input : okv S v0 (u_verrs u) -> R (parseIPv4 c u input).
  Proof.
    intros Hu. rewrite parseIPv4_unfold.
    destruct (last_opt (split 46 input)) as [[|x l]|]; try (apply ipv4_after_R; exact Hu).
    apply R_herr; [apply hk; reflexivity | exact Hu | intros u' Hu'; apply ipv4_after_R; exact Hu'].
  Qed.
End HostKinds.
