(* The error kinds a step of the model machine raises in state s are those of the Go clause `case s:` of the state switch
   of BasicParser (Gen/Transitions.v, go_state_errors, REGENERATED from /repo/url/parser.go on every run), plus the kinds
   that come out of the functions the clause calls.
   - step_errors_allowed: errors_of (step m) ⊆ direct_errors (m_state m) ++ called_errors (m_state m), all 21 states;
   - step_verrs_extend: the record a step leaves behind carries the old validation errors as a prefix (so the suffix that
     errors_of reads is exactly what this step appended);
   - direct_errors_realised / called_errors_realised: every listed kind is raised by some concrete step in that state, so
     both tables are exact. *)
From Verif Require Import Lib.Base Lib.Utf8 Lib.GoStr Model.Cfg Gen.Tables Model.Sets Model.Percent Model.Url Model.Host Model.Machine.
From Verif Require Import Gen.Transitions.
From Coq Require Import Lia.

Local Open Scope N_scope.

(* ------------------------------------------------------------------------------------------ *)
(* 0. Error kinds: decidable membership                                                        *)
(* ------------------------------------------------------------------------------------------ *)

Definition etype_eqb (a b : etype) : bool := etype_index a =? etype_index b.
Lemma etype_eqb_eq a b : etype_eqb a b = true <-> a = b.
Proof.
  unfold etype_eqb. split.
  - intros H. apply N.eqb_eq in H. destruct a, b; try reflexivity; vm_compute in H; discriminate.
  - intros ->. apply N.eqb_refl.
Qed.
Definition inb (t : etype) (l : list etype) : bool := existsb (etype_eqb t) l.
Lemma inb_In t l : inb t l = true -> In t l.
Proof.
  unfold inb. rewrite existsb_exists. intros [x [Hx E]]. apply etype_eqb_eq in E. subst. exact Hx.
Qed.
Lemma In_inb t l : In t l -> inb t l = true.
Proof.
  unfold inb. rewrite existsb_exists. intros H. exists t. split; [exact H|]. apply etype_eqb_eq. reflexivity.
Qed.

(* ------------------------------------------------------------------------------------------ *)
(* 1. The two tables                                                                           *)
(* ------------------------------------------------------------------------------------------ *)

Fixpoint lookup_state (s : state) (l : list (state * list etype)) : list etype :=
  match l with
  | [] => []
  | (s', ts) :: l' => if state_eqb s s' then ts else lookup_state s l'
  end.

(* the kinds the Go clause passes directly to handleError* (generated) *)
Definition direct_errors (s : state) : list etype := lookup_state s go_state_errors.

(* the kinds of url/hostparser.go (parseHost and what it calls) *)
Definition ipv6_kinds : list etype :=
  [IPv6InvalidCompression; IPv6TooManyPieces; IPv6MultipleCompression; IPv6InvalidCodePoint; IPv6TooFewPieces;
   IPv4InIPv6TooManyPieces; IPv4InIPv6InvalidCodePoint; IPv4InIPv6OutOfRangePart; IPv4InIPv6TooFewParts].
Definition host_kinds : list etype :=
  [DomainToASCII; DomainInvalidCodePoint; HostInvalidCodePoint; IPv4EmptyPart; IPv4TooManyParts; IPv4NonNumericPart;
   IPv4NonDecimalPart; IPv4OutOfRangePart; IPv6Unclosed; InvalidURLUnit] ++ ipv6_kinds.

(* the kinds that come out of what the clause calls: the host parser in the three host states. (PortOutOfRange is raised in
   the Go port clause itself through p.handleWrappedError; the translator reads every handle*Error* call, so the generated
   table lists it - the first version of the translator matched the prefix "handleError" only and missed it, which this
   development found: see the note at the end of this file.) The percent-encoding helpers of the model raise nothing. *)
Definition called_errors (s : state) : list etype :=
  match s with
  | HostSt | HostnameSt | FileHost => host_kinds
  | _ => []
  end.

(* ------------------------------------------------------------------------------------------ *)
(* 2. What a step raises                                                                       *)
(* ------------------------------------------------------------------------------------------ *)

(* the validation errors appended to the record since u0 *)
Definition new_verrs (u0 u : url) : list verr := skipn (length (u_verrs u0)) (u_verrs u).

Definition errors_of (o : outcome) (u0 : url) : list etype :=
  match o with
  | Cont m' => map e_type (new_verrs u0 (m_url m'))
  | RetUrl u => map e_type (new_verrs u0 u)
  | RetNilNil u => map e_type (new_verrs u0 u)
  | RetErr u e => e_type e :: map e_type (new_verrs u0 u)
  | Panic => []
  end.

(* v extends v0 by errors whose kinds are in S *)
Definition okv (S : list etype) (v0 v : list verr) : Prop :=
  exists l, v = v0 ++ l /\ Forall (fun e => In (e_type e) S) l.

Lemma okv_refl S v0 : okv S v0 v0.
Proof. exists []. split; [symmetry; apply app_nil_r | constructor]. Qed.

Lemma okv_snoc S v0 v e : okv S v0 v -> In (e_type e) S -> okv S v0 (v ++ [e]).
Proof.
  intros [l [-> Hl]] He. exists (l ++ [e]). split; [symmetry; apply app_assoc|].
  apply Forall_app. split; [exact Hl | constructor; [exact He | constructor]].
Qed.

Lemma okv_new S u0 u : okv S (u_verrs u0) (u_verrs u) -> incl (map e_type (new_verrs u0 u)) S.
Proof.
  intros [l [E Hl]]. unfold new_verrs. rewrite E.
  rewrite skipn_app, skipn_all, Nat.sub_diag. cbn [skipn app].
  intros t Ht. apply in_map_iff in Ht. destruct Ht as [e [<- He]].
  rewrite Forall_forall in Hl. apply Hl. exact He.
Qed.

Lemma handleError_okv S v0 c u t f :
  In t S -> okv S v0 (u_verrs u) ->
  okv S v0 (u_verrs (fst (handleError c u t f))) /\
  (forall e, snd (handleError c u t f) = Some e -> e_type e = t).
Proof.
  intros Ht Hu. unfold handleError. cbn [fst snd]. split.
  - destruct (c_report c); [|exact Hu]. cbn [u_verrs set_verrs]. apply okv_snoc; [exact Hu | exact Ht].
  - intros e He. destruct (f || c_fail c); [|discriminate]. injection He as <-. reflexivity.
Qed.

(* ------------------------------------------------------------------------------------------ *)
(* 3. The host parser                                                                          *)
(* ------------------------------------------------------------------------------------------ *)

(* the kinds the IPv6 parser can return *)
Lemma v4tail_kinds : forall l seen piece pi addr t,
  v4tail l seen piece pi addr = inr t -> inb t ipv6_kinds = true.
Proof.
  induction l as [|ch rest IH]; intros seen piece pi addr t H; cbn [v4tail] in H.
  - destruct piece; [discriminate|]. injection H as <-. reflexivity.
  - destruct piece as [p|].
    + destruct (isDigit ch).
      * destruct (p =? 0); [injection H as <-; reflexivity|].
        destruct (255 <? p * 10 + hex_val ch); [injection H as <-; reflexivity|].
        eapply IH; exact H.
      * destruct ((ch =? 46) && (S seen <? 4)%nat); [eapply IH; exact H | injection H as <-; reflexivity].
    + destruct (isDigit ch); [eapply IH; exact H | injection H as <-; reflexivity].
Qed.

Lemma v6loop_kinds : forall l pi comp addr cur t,
  v6loop l pi comp addr cur = inr t -> inb t ipv6_kinds = true.
Proof.
  induction l as [|ch rest IH]; intros pi comp addr cur t H; cbn [v6loop] in H.
  - destruct cur as [[[v ln] ps]|]; discriminate.
  - destruct cur as [[[v ln] ps]|]; cbn [andb] in H.
    + destruct ((ln <? 4)%nat && isHexDigit ch); [eapply IH; exact H|].
      destruct (ch =? 46).
      * destruct (Nat.eqb ln 0); [injection H as <-; reflexivity|].
        destruct (6 <? pi)%nat; [injection H as <-; reflexivity|].
        destruct (v4tail ps 0 None pi addr) as [[[seen pi'] addr']|e] eqn:Ev.
        -- destruct (Nat.eqb seen 4); [discriminate | injection H as <-; reflexivity].
        -- injection H as <-. eapply v4tail_kinds; exact Ev.
      * destruct (ch =? 58); [|injection H as <-; reflexivity].
        destruct rest; [injection H as <-; reflexivity | eapply IH; exact H].
    + destruct (Nat.eqb pi 8); [injection H as <-; reflexivity|].
      destruct (ch =? 58).
      * destruct comp; [injection H as <-; reflexivity | eapply IH; exact H].
      * destruct ((0 <? 4)%nat && isHexDigit ch); [eapply IH; exact H|].
        destruct (ch =? 46); [injection H as <-; reflexivity|]. injection H as <-; reflexivity.
Qed.

Lemma ipv6_parse_kinds l t : ipv6_parse l = inr t -> inb t ipv6_kinds = true.
Proof.
  unfold ipv6_parse. intros H.
  match type of H with match ?r with _ => _ end = _ => destruct r as [[[pi [comp|]] addr]|e] eqn:Er end.
  - discriminate.
  - destruct (Nat.eqb pi 8); [discriminate | injection H as <-; reflexivity].
  - injection H as <-.
    destruct l as [|a l]; [eapply v6loop_kinds; exact Er|].
    destruct (N.eq_dec a 58) as [->|Ha].
    + destruct l as [|b l]; [injection Er as <-; reflexivity|].
      destruct (N.eq_dec b 58) as [->|Hb]; [eapply v6loop_kinds; exact Er|].
      destruct b as [|b]; [injection Er as <-; reflexivity|].
      do 6 (destruct b as [b|b|]; try (injection Er as <-; reflexivity)). congruence.
    + destruct a as [|a]; [eapply v6loop_kinds; exact Er|].
      do 6 (destruct a as [a|a|]; try (eapply v6loop_kinds; exact Er)). congruence.
Qed.

(* parseIPv4 with its local function named *)
Definition ipv4_after (c : cfg) (u : url) (parts : list str) : res str :=
  (if (4 <? len parts)%Z then (fun k => herr c u IPv4TooManyParts true k) else (fun k => k u))
  (fun u =>
    match ipv4_numbers c u parts [] with
    | Er u e => Er u e
    | Ok u numbers =>
        ipv4_range_warn c u numbers (fun u =>
          let init := drop_last numbers in
          if existsb (fun n => 255 <? n) init then herr c u IPv4OutOfRangePart true (fun u => Ok u [])
          else match last_opt numbers with
               | None => Ok u []
               | Some lastn =>
                   if 256 ^ (5 - N.of_nat (length numbers)) <=? lastn
                   then herr c u IPv4OutOfRangePart true (fun u => Ok u [])
                   else Ok u (IPv4String (lastn + ipv4_sum init 0))
               end)
    end).

Lemma parseIPv4_unfold c u input :
  parseIPv4 c u input =
  match last_opt (split 46 input) with
  | Some [] =>
      herr c u IPv4EmptyPart false (fun u =>
        ipv4_after c u (if (1 <? len (split 46 input))%Z then drop_last (split 46 input) else split 46 input))
  | _ => ipv4_after c u (split 46 input)
  end.
Proof. reflexivity. Qed.

Section HostKinds.
  Variable S : list etype.
  Variable v0 : list verr.
  Hypothesis HS : incl host_kinds S.

  Definition R {A} (r : res A) : Prop :=
    match r with
    | Ok u _ => okv S v0 (u_verrs u)
    | Er u e => okv S v0 (u_verrs u) /\ In (e_type e) S
    end.

  Lemma hk t : inb t host_kinds = true -> In t S.
  Proof. intros H. apply HS. apply inb_In. exact H. Qed.

  Lemma R_herr {A} c u t f (k : url -> res A) :
    In t S -> okv S v0 (u_verrs u) -> (forall u', okv S v0 (u_verrs u') -> R (k u')) -> R (herr c u t f k).
  Proof.
    intros Ht Hu Hk. unfold herr. destruct (handleError_okv S v0 c u t f Ht Hu) as [H1 H2].
    destruct (handleError c u t f) as [u' [e|]]; cbn [fst snd] in *.
    - split; [exact H1|]. rewrite (H2 e eq_refl). exact Ht.
    - apply Hk. exact H1.
  Qed.

  Lemma parseIPv4Number_okv c u input :
    okv S v0 (u_verrs u) -> okv S v0 (u_verrs (fst (parseIPv4Number c u input))).
  Proof.
    intros Hu. unfold parseIPv4Number. destruct input as [|x input]; [|exact Hu].
    destruct (handleError_okv S v0 c u IPv4EmptyPart true (hk IPv4EmptyPart eq_refl) Hu) as [H1 _].
    destruct (handleError c u IPv4EmptyPart true) as [u' oe]. exact H1.
  Qed.

  Lemma endsInANumber_okv c u input :
    okv S v0 (u_verrs u) -> okv S v0 (u_verrs (fst (endsInANumber c u input))).
  Proof.
    intros Hu. unfold endsInANumber.
    destruct (last_opt _) as [[|x l]|]; try exact Hu.
    destruct (all_in isDigit (x :: l)); [exact Hu|].
    pose proof (parseIPv4Number_okv c u (x :: l) Hu) as H.
    destruct (parseIPv4Number c u (x :: l)) as [u' [n ve|range]]; exact H.
  Qed.

  Lemma ipv4_numbers_R c : forall parts u acc, okv S v0 (u_verrs u) -> R (ipv4_numbers c u parts acc).
  Proof.
    induction parts as [|p rest IH]; intros u acc Hu; cbn [ipv4_numbers]; [exact Hu|].
    pose proof (parseIPv4Number_okv c u p Hu) as H.
    destruct (parseIPv4Number c u p) as [u1 [n ve|range]]; cbn [fst] in H.
    - destruct ve; [|apply IH; exact H].
      apply R_herr; [apply hk; reflexivity | exact H | intros u' Hu'; apply IH; exact Hu'].
    - apply R_herr; [apply hk; reflexivity | exact H | intros u' Hu'; apply IH; exact Hu'].
  Qed.

  Lemma ipv4_range_warn_R c k : (forall u, okv S v0 (u_verrs u) -> R (k u)) ->
    forall ns u, okv S v0 (u_verrs u) -> R (ipv4_range_warn c u ns k).
  Proof.
    intros Hk. induction ns as [|n rest IH]; intros u Hu; cbn [ipv4_range_warn]; [apply Hk; exact Hu|].
    destruct (255 <? n); [|apply IH; exact Hu].
    apply R_herr; [apply hk; reflexivity | exact Hu | intros u' Hu'; apply IH; exact Hu'].
  Qed.

  Lemma ipv4_after_R c u parts : okv S v0 (u_verrs u) -> R (ipv4_after c u parts).
  Proof.
    intros Hu. unfold ipv4_after.
    assert (Hk : forall u, okv S v0 (u_verrs u) ->
              R (match ipv4_numbers c u parts [] with
                 | Er u e => Er u e
                 | Ok u numbers =>
                     ipv4_range_warn c u numbers (fun u =>
                       let init := drop_last numbers in
                       if existsb (fun n => 255 <? n) init then herr c u IPv4OutOfRangePart true (fun u => Ok u [])
                       else match last_opt numbers with
                            | None => Ok u []
                            | Some lastn =>
                                if 256 ^ (5 - N.of_nat (length numbers)) <=? lastn
                                then herr c u IPv4OutOfRangePart true (fun u => Ok u [])
                                else Ok u (IPv4String (lastn + ipv4_sum init 0))
                            end)
                 end)).
    { clear u Hu. intros u Hu. pose proof (ipv4_numbers_R c parts u [] Hu) as H.
      destruct (ipv4_numbers c u parts []) as [u1 numbers|u1 e]; [|exact H]. cbn [R] in H.
      apply ipv4_range_warn_R; [|exact H]. intros u2 Hu2. cbv zeta.
      destruct (existsb (fun n => 255 <? n) (drop_last numbers)).
      - apply R_herr; [apply hk; reflexivity | exact Hu2 | intros u' Hu'; exact Hu'].
      - destruct (last_opt numbers) as [lastn|]; [|exact Hu2].
        destruct (256 ^ (5 - N.of_nat (length numbers)) <=? lastn); [|exact Hu2].
        apply R_herr; [apply hk; reflexivity | exact Hu2 | intros u' Hu'; exact Hu']. }
    destruct (4 <? len parts)%Z; [|apply Hk; exact Hu].
    apply R_herr; [apply hk; reflexivity | exact Hu | exact Hk].
  Qed.

  Lemma parseIPv4_R c u input : okv S v0 (u_verrs u) -> R (parseIPv4 c u input).
  Proof.
    intros Hu. rewrite parseIPv4_unfold.
    destruct (last_opt (split 46 input)) as [[|x l]|]; try (apply ipv4_after_R; exact Hu).
    apply R_herr; [apply hk; reflexivity | exact Hu | intros u' Hu'; apply ipv4_after_R; exact Hu'].
  Qed.
  Lemma ipv6_in_host t : inb t ipv6_kinds = true -> inb t host_kinds = true.
  Proof. intros H. apply In_inb. unfold host_kinds. apply in_or_app. right. apply inb_In. exact H. Qed.

  Lemma parseIPv6_R c u input : okv S v0 (u_verrs u) -> R (parseIPv6 c u input).
  Proof.
    intros Hu. unfold parseIPv6. destruct (ipv6_parse (runes input)) as [addr|t] eqn:E; [exact Hu|].
    apply R_herr; [|exact Hu|intros u' Hu'; exact Hu'].
    apply hk. apply ipv6_in_host. eapply ipv6_parse_kinds. exact E.
  Qed.

  Lemma opaque_loop_R c input : forall l u out, okv S v0 (u_verrs u) -> R (opaque_loop c u input l out).
  Proof.
    induction l as [|ch rest IH]; intros u out Hu; cbn [opaque_loop]; [exact Hu|].
    assert (Hk1 : forall u, okv S v0 (u_verrs u) ->
      R ((if negb (isURLCodePoint ch) && negb (ch =? 37)
          then (fun k => herr c u InvalidURLUnit false k) else (fun k => k u))
         (fun u =>
           (if (ch =? 37) && invalid_pct (ch :: rest)
            then (fun k => herr c u InvalidURLUnit false k) else (fun k => k u))
           (fun u => opaque_loop c u input rest (out ++ percentEncodeRune c ch (Some pes_C0)))))).
    { clear u Hu. intros u Hu.
      assert (Hk2 : forall u, okv S v0 (u_verrs u) ->
        R ((if (ch =? 37) && invalid_pct (ch :: rest)
            then (fun k => herr c u InvalidURLUnit false k) else (fun k => k u))
           (fun u => opaque_loop c u input rest (out ++ percentEncodeRune c ch (Some pes_C0))))).
      { clear u Hu. intros u Hu. destruct ((ch =? 37) && invalid_pct (ch :: rest)); [|apply IH; exact Hu].
        apply R_herr; [apply hk; reflexivity | exact Hu | intros u' Hu'; apply IH; exact Hu']. }
      destruct (negb (isURLCodePoint ch) && negb (ch =? 37)); [|apply Hk2; exact Hu].
      apply R_herr; [apply hk; reflexivity | exact Hu | exact Hk2]. }
    destruct (isForbiddenHost ch); [|apply Hk1; exact Hu].
    destruct (c_lax c); [exact Hu|].
    apply R_herr; [apply hk; reflexivity | exact Hu | exact Hk1].
  Qed.

  Lemma parseHost_R idna c u input ns : okv S v0 (u_verrs u) -> R (parseHost idna c u input ns).
  Proof.
    intros Hu. unfold parseHost.
    destruct (apply_hostfun (c_pre c) input) as [|b0 inp'] eqn:Einp; [exact Hu|].
    set (inp := b0 :: inp') in *.
    assert (Hdom : R (if ns then parseOpaqueHost c u inp
      else
        let domain := DecodePercentEncoded c inp in
        let k_valid (u : url) : res str :=
          match ToASCII idna c domain with
          | None =>
              if c_lax c then Ok u domain
              else herr c u DomainToASCII true (fun u => Ok u [])
          | Some asciiDomain =>
              let forbidden := existsb isForbiddenDomain (runes asciiDomain) in
              let k_clean (u : url) : res str :=
                match endsInANumber c u asciiDomain with
                | (u, true) => parseIPv4 c u asciiDomain
                | (u, false) => Ok u (apply_hostfun (c_post c) asciiDomain)
                end in
              if forbidden then
                if c_lax c then Ok u (PercentEncodeString c asciiDomain pes_Host)
                else herr c u DomainInvalidCodePoint true k_clean
              else k_clean u
          end in
        if negb (valid_utf8 domain) then
          if c_lax c then Ok u (percentEncodeBytes inp pes_Host)
          else herr c u DomainToASCII true k_valid
        else k_valid u)).
    { destruct ns; [apply opaque_loop_R; exact Hu|]. cbv zeta.
      assert (Hkv : forall u, okv S v0 (u_verrs u) ->
        R (match ToASCII idna c (DecodePercentEncoded c inp) with
           | None =>
               if c_lax c then Ok u (DecodePercentEncoded c inp)
               else herr c u DomainToASCII true (fun u => Ok u [])
           | Some asciiDomain =>
               if existsb isForbiddenDomain (runes asciiDomain) then
                 if c_lax c then Ok u (PercentEncodeString c asciiDomain pes_Host)
                 else herr c u DomainInvalidCodePoint true (fun u =>
                   match endsInANumber c u asciiDomain with
                   | (u, true) => parseIPv4 c u asciiDomain
                   | (u, false) => Ok u (apply_hostfun (c_post c) asciiDomain)
                   end)
               else
                 match endsInANumber c u asciiDomain with
                 | (u, true) => parseIPv4 c u asciiDomain
                 | (u, false) => Ok u (apply_hostfun (c_post c) asciiDomain)
                 end
           end)).
      { clear u Hu. intros u Hu. destruct (ToASCII idna c (DecodePercentEncoded c inp)) as [ad|].
        - assert (Hkc : forall u, okv S v0 (u_verrs u) ->
            R (match endsInANumber c u ad with
               | (u, true) => parseIPv4 c u ad
               | (u, false) => Ok u (apply_hostfun (c_post c) ad)
               end)).
          { clear u Hu. intros u Hu. pose proof (endsInANumber_okv c u ad Hu) as H.
            destruct (endsInANumber c u ad) as [u1 [|]]; cbn [fst] in H; [apply parseIPv4_R; exact H | exact H]. }
          destruct (existsb isForbiddenDomain (runes ad)); [|apply Hkc; exact Hu].
          destruct (c_lax c); [exact Hu|].
          apply R_herr; [apply hk; reflexivity | exact Hu | exact Hkc].
        - destruct (c_lax c); [exact Hu|].
          apply R_herr; [apply hk; reflexivity | exact Hu | intros u' Hu'; exact Hu']. }
      destruct (negb (valid_utf8 (DecodePercentEncoded c inp))); [|apply Hkv; exact Hu].
      destruct (c_lax c); [exact Hu|].
      apply R_herr; [apply hk; reflexivity | exact Hu | exact Hkv]. }
    assert (H6 : R ((if negb (has_suffix [93] inp) then (fun k => herr c u IPv6Unclosed true k) else (fun k => k u))
                    (fun u => parseIPv6 c u (drop_last (tl inp))))).
    { destruct (negb (has_suffix [93] inp)); [|apply parseIPv6_R; exact Hu].
      apply R_herr; [apply hk; reflexivity | exact Hu | intros u' Hu'; apply parseIPv6_R; exact Hu']. }
    subst inp.
    destruct b0 as [|b0]; [exact Hdom|].
    do 7 (destruct b0 as [b0|b0|]; try exact Hdom). exact H6.
  Qed.
End HostKinds.

(* ------------------------------------------------------------------------------------------ *)
(* 4. The machine: one lemma per state                                                         *)
(* ------------------------------------------------------------------------------------------ *)

(* what a step started with the record u0 guarantees, for an allowed set S *)
Definition A (S : list etype) (v0 : list verr) (o : outcome) : Prop :=
  match o with
  | Cont m' => okv S v0 (u_verrs (m_url m'))
  | RetUrl u => okv S v0 (u_verrs u)
  | RetNilNil u => okv S v0 (u_verrs u)
  | RetErr u e => okv S v0 (u_verrs u) /\ In (e_type e) S
  | Panic => True
  end.

Lemma A_errors_of S u0 o : A S (u_verrs u0) o -> incl (errors_of o u0) S.
Proof.
  destruct o as [m'|u|u e|u|]; cbn [A errors_of].
  - apply okv_new.
  - apply okv_new.
  - intros [H He] t [<-|Ht]; [exact He | eapply okv_new; eassumption].
  - apply okv_new.
  - intros _ t [].
Qed.

Lemma A_mherr S v0 c u t f k :
  inb t S = true -> okv S v0 (u_verrs u) -> (forall u', okv S v0 (u_verrs u') -> A S v0 (k u')) ->
  A S v0 (mherr c u t f k).
Proof.
  intros Ht Hu Hk. apply inb_In in Ht. unfold mherr. destruct (handleError_okv S v0 c u t f Ht Hu) as [H1 H2].
  destruct (handleError c u t f) as [u' [e|]]; cbn [fst snd] in *.
  - split; [exact H1|]. rewrite (H2 e eq_refl). exact Ht.
  - apply Hk. exact H1.
Qed.

Lemma verrs_cleanDefaultPort c u : u_verrs (cleanDefaultPort c u) = u_verrs u.
Proof.
  unfold cleanDefaultPort. destruct (getSpecialScheme c (u_scheme u)); [|reflexivity].
  destruct (u_port u); [|reflexivity]. destruct (str_eqb s s0); reflexivity.
Qed.

Definition allowed (s : state) : list etype := direct_errors s ++ called_errors s.

Lemma inclb_incl l S : forallb (fun t => inb t S) l = true -> incl l S.
Proof. intros H t Ht. rewrite forallb_forall in H. apply inb_In. apply H. exact Ht. Qed.

Section Allowed.
  Variable idna_raw : str -> str * bool.
  Variable c : cfg.
  Variable inp : list rune.
  Variable base : option url.
  Variable override : option state.

  Notation stepf := (step idna_raw c inp base override).

  Ltac vs :=
    repeat rewrite verrs_cleanDefaultPort;
    cbn [u_verrs set_input set_scheme set_username set_password set_host set_port set_path set_query set_fragment set_sp
         m_url mk addSegment copy_base_auth];
    repeat rewrite verrs_cleanDefaultPort;
    try assumption.

  Ltac walk :=
    repeat first
      [ progress cbv beta
      | match goal with
        | |- A _ _ (mherr _ _ _ _ _) =>
            apply A_mherr; [reflexivity | solve [vs] | let u' := fresh "u'" in let Hu' := fresh "Hu'" in intros u' Hu']
        | |- A ?S ?v0 (match parseHost ?i ?cc ?u ?b ?n with _ => _ end) =>
            let H := fresh "HpH" in
            assert (H : R S v0 (parseHost i cc u b n))
              by (apply parseHost_R; [apply inclb_incl; reflexivity | solve [vs]]);
            let u' := fresh "u'" in
            destruct (parseHost i cc u b n) as [u' ?host|u' ?e]; cbn [R] in H
        | |- A _ _ ((if ?b then _ else _) _) => destruct b
        | |- A _ _ (if ?b then _ else _) => destruct b
        | |- A _ _ (match ?x with _ => _ end) => destruct x
        end ].

  Ltac fin :=
    try exact I; unfold A;
    first [ solve [vs]
          | solve [vs; repeat (match goal with
                               | |- okv _ _ (u_verrs (if ?b then _ else _)) => destruct b
                               | |- okv _ _ (u_verrs (match ?x with _ => _ end)) => destruct x
                               end; vs)] ].

  Ltac start m Hst s :=
    destruct m as [st p e buf aF brF pwF u]; cbn [m_state m_url] in Hst |- *; subst st;
    pose proof (okv_refl (allowed s) (u_verrs u)) as Hu0;
    cbv beta iota zeta delta [step mk m_state m_ptr m_eof m_buf m_at m_br m_pw m_url].

  Lemma al_SchemeStart m : m_state m = SchemeStart -> A (allowed SchemeStart) (u_verrs (m_url m)) (stepf m).
  Proof. intros Hst. start m Hst SchemeStart; walk; fin. Qed.
  Lemma al_Scheme m : m_state m = Scheme -> A (allowed Scheme) (u_verrs (m_url m)) (stepf m).
  Proof. intros Hst. start m Hst Scheme; walk; fin. Qed.
  Lemma al_NoScheme m : m_state m = NoScheme -> A (allowed NoScheme) (u_verrs (m_url m)) (stepf m).
  Proof. intros Hst. start m Hst NoScheme; walk; fin. Qed.
  Lemma al_OpaquePath m : m_state m = OpaquePath -> A (allowed OpaquePath) (u_verrs (m_url m)) (stepf m).
  Proof. intros Hst. start m Hst OpaquePath; walk; fin. Qed.
  Lemma al_SpecialRelativeOrAuthority m :
    m_state m = SpecialRelativeOrAuthority -> A (allowed SpecialRelativeOrAuthority) (u_verrs (m_url m)) (stepf m).
  Proof. intros Hst. start m Hst SpecialRelativeOrAuthority; walk; fin. Qed.
  Lemma al_SpecialAuthoritySlashes m :
    m_state m = SpecialAuthoritySlashes -> A (allowed SpecialAuthoritySlashes) (u_verrs (m_url m)) (stepf m).
  Proof. intros Hst. start m Hst SpecialAuthoritySlashes; walk; fin. Qed.
  Lemma al_SpecialAuthorityIgnoreSlashes m :
    m_state m = SpecialAuthorityIgnoreSlashes -> A (allowed SpecialAuthorityIgnoreSlashes) (u_verrs (m_url m)) (stepf m).
  Proof. intros Hst. start m Hst SpecialAuthorityIgnoreSlashes; walk; fin. Qed.
  Lemma al_PathOrAuthority m : m_state m = PathOrAuthority -> A (allowed PathOrAuthority) (u_verrs (m_url m)) (stepf m).
  Proof. intros Hst. start m Hst PathOrAuthority; walk; fin. Qed.
  Lemma al_Authority m : m_state m = Authority -> A (allowed Authority) (u_verrs (m_url m)) (stepf m).
  Proof. intros Hst. start m Hst Authority; walk; fin. Qed.
  Lemma al_HostSt m : m_state m = HostSt -> A (allowed HostSt) (u_verrs (m_url m)) (stepf m).
  Proof. intros Hst. start m Hst HostSt; walk; fin. Qed.
  Lemma al_HostnameSt m : m_state m = HostnameSt -> A (allowed HostnameSt) (u_verrs (m_url m)) (stepf m).
  Proof. intros Hst. start m Hst HostnameSt; walk; fin. Qed.
  Lemma al_File m : m_state m = File -> A (allowed File) (u_verrs (m_url m)) (stepf m).
  Proof. intros Hst. start m Hst File; walk; fin. Qed.
  Lemma al_FileHost m : m_state m = FileHost -> A (allowed FileHost) (u_verrs (m_url m)) (stepf m).
  Proof. intros Hst. start m Hst FileHost; walk; fin. Qed.
  Lemma al_FileSlash m : m_state m = FileSlash -> A (allowed FileSlash) (u_verrs (m_url m)) (stepf m).
  Proof. intros Hst. start m Hst FileSlash; walk; fin. Qed.
  Lemma al_PortSt m : m_state m = PortSt -> A (allowed PortSt) (u_verrs (m_url m)) (stepf m).
  Proof. intros Hst. start m Hst PortSt; walk; fin. Qed.
  Lemma al_PathSt m : m_state m = PathSt -> A (allowed PathSt) (u_verrs (m_url m)) (stepf m).
  Proof. intros Hst. start m Hst PathSt; walk; fin. Qed.
  Lemma al_PathStart m : m_state m = PathStart -> A (allowed PathStart) (u_verrs (m_url m)) (stepf m).
  Proof. intros Hst. start m Hst PathStart; walk; fin. Qed.
  Lemma al_QuerySt m : m_state m = QuerySt -> A (allowed QuerySt) (u_verrs (m_url m)) (stepf m).
  Proof. intros Hst. start m Hst QuerySt; walk; fin. Qed.
  Lemma al_FragmentSt m : m_state m = FragmentSt -> A (allowed FragmentSt) (u_verrs (m_url m)) (stepf m).
  Proof. intros Hst. start m Hst FragmentSt; walk; fin. Qed.
  Lemma al_Relative m : m_state m = Relative -> A (allowed Relative) (u_verrs (m_url m)) (stepf m).
  Proof. intros Hst. start m Hst Relative; walk; fin. Qed.
  Lemma al_RelativeSlash m : m_state m = RelativeSlash -> A (allowed RelativeSlash) (u_verrs (m_url m)) (stepf m).
  Proof. intros Hst. start m Hst RelativeSlash; walk; fin. Qed.

  Lemma step_A m : A (allowed (m_state m)) (u_verrs (m_url m)) (stepf m).
  Proof.
    destruct (m_state m) eqn:Est;
      eauto using al_SchemeStart, al_Scheme, al_NoScheme, al_OpaquePath, al_SpecialRelativeOrAuthority,
        al_SpecialAuthoritySlashes, al_SpecialAuthorityIgnoreSlashes, al_PathOrAuthority, al_Authority,
        al_HostSt, al_HostnameSt, al_File, al_FileHost, al_FileSlash, al_PortSt, al_PathSt,
        al_PathStart, al_QuerySt, al_FragmentSt, al_Relative, al_RelativeSlash.
  Qed.
End Allowed.

Notation "a ⊆ b" := (incl a b) (at level 70).

Theorem step_errors_allowed : forall idna_raw c inp base ov m,
  errors_of (step idna_raw c inp base ov m) (m_url m) ⊆ direct_errors (m_state m) ++ called_errors (m_state m).
Proof. intros. apply A_errors_of. apply step_A. Qed.
Print Assumptions step_errors_allowed.

(* the old validation errors are a prefix of the record a step leaves behind: the suffix read by errors_of is what the
   step appended *)
Definition outcome_url (o : outcome) : option url :=
  match o with
  | Cont m' => Some (m_url m')
  | RetUrl u => Some u
  | RetErr u _ => Some u
  | RetNilNil u => Some u
  | Panic => None
  end.

Theorem step_verrs_extend : forall idna_raw c inp base ov m u',
  outcome_url (step idna_raw c inp base ov m) = Some u' ->
  u_verrs u' = u_verrs (m_url m) ++ new_verrs (m_url m) u'.
Proof.
  intros idna_raw c inp base ov m u' H.
  pose proof (step_A idna_raw c inp base ov m) as HA.
  assert (Hok : okv (allowed (m_state m)) (u_verrs (m_url m)) (u_verrs u')).
  { destruct (step idna_raw c inp base ov m) as [m'|u|u e|u|]; cbn [outcome_url A] in H, HA;
      try discriminate; injection H as <-; try exact HA. destruct HA as [HA _]. exact HA. }
  destruct Hok as [l [E _]]. unfold new_verrs. rewrite E.
  rewrite skipn_app, skipn_all, Nat.sub_diag. reflexivity.
Qed.
Print Assumptions step_verrs_extend.

(* ------------------------------------------------------------------------------------------ *)
(* 5. Every listed kind is raised by a concrete step (the tables are exact)                    *)
(* ------------------------------------------------------------------------------------------ *)

Definition raises (s : state) (t : etype) : Prop :=
  exists idna_raw c inp base ov m,
    m_state m = s /\ In t (errors_of (step idna_raw c inp base ov m) (m_url m)).

(* the (state, kind) pairs of the iterations of `run` *)
Fixpoint etrace (idna_raw : str -> str * bool) (c : cfg) (inp : list rune) (base : option url) (ov : option state)
    (fuel : nat) (m : mstate) : list (state * etype) :=
  match fuel with
  | O => []
  | Datatypes.S f =>
      let o := step idna_raw c inp base ov m in
      map (fun t => (m_state m, t)) (errors_of o (m_url m)) ++
      match o with
      | Cont m' => if m_eof m' then [] else etrace idna_raw c inp base ov f m'
      | _ => []
      end
  end.

Lemma etrace_sound idna_raw c inp base ov : forall fuel m s t,
  In (s, t) (etrace idna_raw c inp base ov fuel m) -> raises s t.
Proof.
  induction fuel as [|f IH]; intros m s t H; [destruct H|].
  cbn [etrace] in H. apply in_app_or in H. destruct H as [H|H].
  - apply in_map_iff in H. destruct H as [t' [E Ht]]. injection E as <- <-.
    exists idna_raw, c, inp, base, ov, m. split; [reflexivity | exact Ht].
  - destruct (step idna_raw c inp base ov m) as [m'| | | |]; try destruct H.
    destruct (m_eof m'); [destruct H|]. eapply IH; exact H.
Qed.

From Verif Require Import Gen.Options Model.Api.
From Coq Require Import String.
Local Open Scope string_scope.

Definition se_idna (s : str) : str * bool := (s, false).
Definition se_cfg : cfg := opt_WithReportValidationErrors.

(* one concrete run: input, base (as a string to parse), state override, start state, start record *)
Record se_run := { sr_inp : string; sr_base : option string; sr_ov : option state; sr_st : state; sr_url : url }.

Definition se_base (b : option string) : option url :=
  match b with
  | None => None
  | Some s => match Parse se_idna default_cfg (bs s) with PUrl u => Some u | _ => None end
  end.

Definition se_trace (r : se_run) : list (state * etype) :=
  let inp := decode (bs (sr_inp r)) in
  etrace se_idna se_cfg inp (se_base (sr_base r)) (sr_ov r) (fuel_of (List.length inp))
    (mk (sr_st r) (-1)%Z false [] false false false (sr_url r)).

Definition u_none : url := empty_url [].
Definition u_http : url := set_scheme (empty_url []) (bs "http").
Definition u_foo : url := set_scheme (empty_url []) (bs "foo").
Definition plain (i : string) (b : option string) : se_run :=
  {| sr_inp := i; sr_base := b; sr_ov := None; sr_st := SchemeStart; sr_url := u_none |}.
Definition from (s : state) (u : url) (i : string) : se_run :=
  {| sr_inp := i; sr_base := None; sr_ov := None; sr_st := s; sr_url := u |}.
Definition over (s : state) (u : url) (i : string) : se_run :=
  {| sr_inp := i; sr_base := None; sr_ov := Some s; sr_st := s; sr_url := u |}.

(* runs for the kinds the clauses raise directly *)
Definition se_direct_runs : list se_run :=
  [ over SchemeStart u_none "1";
    over SchemeStart u_none "a/";
    plain "file:a" None;
    plain "x" None;
    plain "http:x" (Some "http://h/a");
    plain "\x" (Some "http://h/a");
    plain "/\x" (Some "http://h/a");
    plain "http:x" None;
    plain "http:///x" None;
    plain "http://u@h/" None;
    plain "http://" None;
    from HostnameSt u_http "/";
    plain "http://h:8a/" None;
    over PortSt u_http "";
    plain "file:c:/x" (Some "file:///a/b");
    plain "file:\x" None;
    plain "file:/\x" None;
    plain "file://c:/x" None;
    plain "http://h\x" None;
    plain "http://h/a\b" None;
    plain "http://h/a b" None;
    plain "foo:a b" None;
    plain "foo:a?b c" None;
    plain "foo:a#b c" None;
    plain "http://h:99999/" None ].

(* host inputs for the kinds of the host parser: (record, input) *)
Definition se_host_inputs : list (url * string) :=
  [ (u_http, "%ff/"); (u_http, "a^b/"); (u_foo, "a^b/"); (u_http, "1.2./"); (u_http, "1.2.3.4.5/"); (u_http, "a.1/");
    (u_http, "0x1/"); (u_http, "1.2.3.256/"); (u_http, "[::1/"); (u_foo, "a""b/");
    (u_http, "[:1]/"); (u_http, "[1:2:3:4:5:6:7:8:9]/"); (u_http, "[1::2::3]/"); (u_http, "[1:g]/"); (u_http, "[1:2]/");
    (u_http, "[1:2:3:4:5:6:7:1.2.3.4]/"); (u_http, "[::1.a]/"); (u_http, "[::256.1.1.1]/"); (u_http, "[::1.2]/") ].

Definition se_called_runs : list se_run :=
  plain "http://h:99999/" None ::
  flat_map (fun s => map (fun ui => from s (fst ui) (snd ui)) se_host_inputs) [HostSt; HostnameSt; FileHost].

Definition se_seen (runs : list se_run) : list (state * etype) := flat_map se_trace runs.

Definition pair_eqb (a b : state * etype) : bool := state_eqb (fst a) (fst b) && etype_eqb (snd a) (snd b).
Definition all_states : list state :=
  [SchemeStart; Scheme; NoScheme; OpaquePath; SpecialRelativeOrAuthority; SpecialAuthoritySlashes;
   SpecialAuthorityIgnoreSlashes; PathOrAuthority; Authority; HostSt; HostnameSt; File; FileHost; FileSlash;
   PortSt; PathSt; PathStart; QuerySt; FragmentSt; Relative; RelativeSlash].
Definition missing (tbl : state -> list etype) (runs : list se_run) : list (state * etype) :=
  let seen := se_seen runs in
  flat_map (fun s => flat_map (fun t => if existsb (pair_eqb (s, t)) seen then [] else [(s, t)]) (tbl s)) all_states.


Lemma all_states_complete : forall s : state, In s all_states.
Proof. intros s. destruct s; vm_compute; tauto. Qed.

Lemma flat_map_nil {X Y} (f : X -> list Y) l : flat_map f l = [] -> forall x, In x l -> f x = [].
Proof.
  induction l as [|a l IH]; intros H x Hx; [destruct Hx|].
  cbn [flat_map] in H. apply app_eq_nil in H. destruct H as [Ha Hl].
  destruct Hx as [<-|Hx]; [exact Ha | apply IH; assumption].
Qed.

Lemma missing_nil_raises tbl runs : missing tbl runs = [] -> forall s t, In t (tbl s) -> raises s t.
Proof.
  intros H s t Ht. unfold missing in H. cbv zeta in H.
  pose proof (flat_map_nil _ _ H s (all_states_complete s)) as H1. cbv beta in H1.
  pose proof (flat_map_nil _ _ H1 t Ht) as H2. cbv beta in H2.
  destruct (existsb (pair_eqb (s, t)) (se_seen runs)) eqn:E; [|discriminate].
  apply existsb_exists in E. destruct E as [[s' t'] [Hseen Heq]].
  unfold pair_eqb in Heq. cbn [fst snd] in Heq. apply andb_true_iff in Heq. destruct Heq as [Hs Ht'].
  apply etype_eqb_eq in Ht'. subst t'.
  assert (s = s') by (destruct s, s'; try reflexivity; discriminate). subst s'.
  unfold se_seen in Hseen. apply in_flat_map in Hseen. destruct Hseen as [r [_ Hr]].
  unfold se_trace in Hr. eapply etrace_sound. exact Hr.
Qed.

Lemma se_direct_covers : missing direct_errors se_direct_runs = [].
Proof. vm_compute. reflexivity. Qed.
Lemma se_called_covers : missing called_errors se_called_runs = [].
Proof. vm_compute. reflexivity. Qed.

(* each kind the Go clause of state s passes to handleError* is raised by a concrete step of the model in state s: a
   handleError call added to a clause of /repo/url/parser.go that the model does not have breaks this obligation *)
Theorem direct_errors_realised : forall s t, In t (direct_errors s) -> raises s t.
Proof. exact (missing_nil_raises _ _ se_direct_covers). Qed.
Print Assumptions direct_errors_realised.

(* called_errors is minimal as well *)
Theorem called_errors_realised : forall s t, In t (called_errors s) -> raises s t.
Proof. exact (missing_nil_raises _ _ se_called_covers). Qed.
Print Assumptions called_errors_realised.

(* both directions: the kinds a step can raise in state s are exactly direct_errors s ++ called_errors s *)
Corollary allowed_exact : forall s t, In t (direct_errors s ++ called_errors s) <-> raises s t.
Proof.
  intros s t. split.
  - intros H. apply in_app_or in H. destruct H as [H|H]; [apply direct_errors_realised | apply called_errors_realised]; exact H.
  - intros (idna_raw & c & inp & base & ov & m & <- & H). eapply step_errors_allowed. exact H.
Qed.
Print Assumptions allowed_exact.

(* the two tables do not overlap, and the generated table has exactly one entry per state *)
Lemma direct_called_disjoint : forall s t, In t (direct_errors s) -> ~ In t (called_errors s).
Proof.
  assert (H : forallb (fun s => forallb (fun t => negb (inb t (called_errors s))) (direct_errors s)) all_states = true)
    by (vm_compute; reflexivity).
  intros s t Hd Hc. rewrite forallb_forall in H. specialize (H s (all_states_complete s)).
  rewrite forallb_forall in H. specialize (H t Hd). rewrite (In_inb _ _ Hc) in H. discriminate.
Qed.

Lemma go_state_errors_one_clause_per_state :
  forallb (fun s => Nat.eqb (List.length (filter (state_eqb s) (map fst go_state_errors))) 1) all_states = true.
Proof. vm_compute. reflexivity. Qed.

(* NOTE. The first version of the translator (harness/cmd/gentrans) collected calls whose method name starts with
   "handleError" and so missed p.handleWrappedError(url, errors.PortOutOfRange, true, err) in the Go port clause; the exactness
   theorems of this file exposed the gap (PortOutOfRange was raised by the model's port clause but absent from the generated
   table). The translator now reads every handle*Error* call and the table lists the kind as a direct one: *)
Theorem PortOutOfRange_is_direct : In PortOutOfRange (direct_errors PortSt) /\ raises PortSt PortOutOfRange.
Proof.
  split.
  - vm_compute. tauto.
  - apply direct_errors_realised. vm_compute. tauto.
Qed.
Print Assumptions PortOutOfRange_is_direct.

(* a concrete step for the main theorem: "http://h/a b" in the path state at the space raises InvalidURLUnit, and nothing else *)
Example step_errors_allowed_example :
  let inp := decode (bs "http://h/a b") in
  let m := mk PathSt 9%Z false (bs "a") false false false (set_path (set_host u_http (Some (bs "h"))) [] false) in
  errors_of (step se_idna se_cfg inp None None m) (m_url m) = [InvalidURLUnit] /\
  In InvalidURLUnit (direct_errors (m_state m) ++ called_errors (m_state m)).
Proof. vm_compute. split; [reflexivity | tauto]. Qed.
