(* L2 (Model/Heap.v) refines L1 (Model/Api.v) under the separation invariant Sep; every operation
   writes at most the objects of the handle it is applied to (frame); clones and resolution results
   are fresh and share nothing; SearchParams handles stay valid; the buggy variants break the frame. *)
From Verif Require Import Lib.Base Lib.Utf8 Lib.GoStr Model.Cfg Gen.Tables Gen.Options Model.Sets Model.Percent Model.Url Model.Host Model.Machine Model.Api Model.Canon Model.Obs Model.Heap.

(* ---------- stores ---------- *)
Lemma rd_upd {A} (s : store A) k v l : rd (upd s k v) l = if Nat.eqb l k then v else rd s l.
Proof. reflexivity. Qed.
Lemma rd_alloc {A} (s : store A) v l : rd (alloc s v) l = if Nat.eqb l (next s) then Some v else rd s l.
Proof. reflexivity. Qed.
Lemma next_upd {A} (s : store A) k v : next (upd s k v) = next s.
Proof. reflexivity. Qed.
Lemma next_alloc {A} (s : store A) v : next (alloc s v) = Datatypes.S (next s).
Proof. reflexivity. Qed.

(* decide the Nat.eqb tests in the goal and the hypotheses *)
Ltac eqs :=
  repeat match goal with
  | |- context [Nat.eqb ?x ?y] => destruct (Nat.eqb_spec x y); try subst; try lia
  | H : context [Nat.eqb ?x ?y] |- _ => destruct (Nat.eqb_spec x y); try subst; try lia
  end.
Ltac stores := repeat (rewrite ?rd_upd, ?rd_alloc, ?next_upd, ?next_alloc in * ).

Lemma val_obj u pl sl : val_of (obj_of u pl sl) (path_of u) (u_sp u) = u.
Proof. destruct u; reflexivity. Qed.

Lemma option_loc_dec (x : option loc) (l : loc) : {x = Some l} + {x <> Some l}.
Proof.
  destruct x as [k|]; [|right; discriminate].
  destruct (Nat.eq_dec k l) as [->|N]; [left; reflexivity|right; intros E; injection E as E; exact (N E)].
Qed.

(* a live cell lies below the allocation pointer *)
Lemma live_u h a o : Sep h -> rd (hu h) a = Some o -> (a < next (hu h))%nat.
Proof.
  intros S H. destruct (Nat.lt_ge_cases a (next (hu h))) as [L|L]; [exact L|].
  rewrite (wf_u h S a L) in H. discriminate.
Qed.
Lemma live_p h l : Sep h -> rd (hp h) l <> None -> (l < next (hp h))%nat.
Proof.
  intros S H. destruct (Nat.lt_ge_cases l (next (hp h))) as [L|L]; [exact L|].
  elim H. apply (wf_p h S l L).
Qed.
Lemma live_s h l s : Sep h -> rd (hs h) l = Some s -> (l < next (hs h))%nat.
Proof.
  intros S H. destruct (Nat.lt_ge_cases l (next (hs h))) as [L|L]; [exact L|].
  rewrite (wf_s h S l L) in H. discriminate.
Qed.

(* under Sep a live Url handle has an L1 value *)
Lemma abs_live h a o : Sep h -> rd (hu h) a = Some o -> exists u, abs h a = Some u.
Proof.
  intros S H. unfold abs. rewrite H.
  destruct (rd (hp h) (o_path o)) as [p|] eqn:P; [|elim (sep_path h S a o H P)].
  destruct (o_sp o) as [sl|] eqn:E; [|eauto].
  destruct (sep_sp h S a o sl H E) as (s & Hs & _). rewrite Hs. eauto.
Qed.
Lemma abs_some_live h a u : abs h a = Some u -> exists o, rd (hu h) a = Some o.
Proof. unfold abs. destruct (rd (hu h) a); [eauto|discriminate]. Qed.

(* two Urls with the same SearchParams pointer are the same Url *)
Lemma sp_inj h a b oa ob sl : Sep h -> rd (hu h) a = Some oa -> rd (hu h) b = Some ob ->
  o_sp oa = Some sl -> o_sp ob = Some sl -> a = b.
Proof.
  intros S Ha Hb Ea Eb.
  destruct (sep_sp h S a oa sl Ha Ea) as (s & Hs & Os).
  destruct (sep_sp h S b ob sl Hb Eb) as (s' & Hs' & Os').
  rewrite Hs in Hs'. injection Hs' as <-. rewrite Os in Os'. injection Os' as <-. reflexivity.
Qed.

(* ---------- footprint 1: an operation that writes only the objects of handle a ---------- *)
Definition inplace (h h' : heap) (a : loc) (o o' : urlobj) : Prop :=
  rd (hu h) a = Some o /\ rd (hu h') a = Some o' /\ o_path o' = o_path o /\
  (forall b, b <> a -> rd (hu h') b = rd (hu h) b) /\
  next (hu h') = next (hu h) /\
  (forall l, l <> o_path o -> rd (hp h') l = rd (hp h) l) /\
  rd (hp h') (o_path o) <> None /\
  next (hp h') = next (hp h) /\
  (forall l, (next (hs h') <= l)%nat -> rd (hs h') l = None) /\
  (forall l, o_sp o <> Some l -> o_sp o' <> Some l -> rd (hs h') l = rd (hs h) l) /\
  (forall l, o_sp o' = Some l ->
     (o_sp o = Some l \/ (next (hs h) <= l)%nat) /\ exists s, rd (hs h') l = Some s /\ s_owner s = Some a) /\
  (forall l, o_sp o = Some l -> o_sp o' <> Some l -> rd (hs h') l = None).

(* the SearchParams object of another Url is not touched *)
Lemma inplace_other_sp h h' a o o' b ob sl : Sep h -> inplace h h' a o o' -> b <> a ->
  rd (hu h) b = Some ob -> o_sp ob = Some sl -> rd (hs h') sl = rd (hs h) sl.
Proof.
  intros S (Ha & Ha' & Hp & Hu & Nu & Hpo & Hpl & Np & Ws & Hso & Hsn & Hsf) Hb Hob Esl.
  apply Hso.
  - intros E. apply Hb. exact (sp_inj h b a ob o sl S Hob Ha Esl E).
  - intros E. destruct (Hsn sl E) as ([E1|L] & _).
    + apply Hb. exact (sp_inj h b a ob o sl S Hob Ha Esl E1).
    + destruct (sep_sp h S b ob sl Hob Esl) as (s & Hs & _). pose proof (live_s h sl s S Hs). lia.
Qed.

Theorem inplace_frame h h' a o o' b : Sep h -> inplace h h' a o o' -> b <> a -> abs h' b = abs h b.
Proof.
  intros S I Hb. pose proof I as (Ha & Ha' & Hp & Hu & Nu & Hpo & Hpl & Np & Ws & Hso & Hsn & Hsf).
  unfold abs. rewrite (Hu b Hb). destruct (rd (hu h) b) as [ob|] eqn:Hob; [|reflexivity].
  assert (Pne : o_path ob <> o_path o).
  { intros E. apply Hb. exact (sep_inj h S b a ob o Hob Ha E). }
  rewrite (Hpo _ Pne). destruct (rd (hp h) (o_path ob)); [|reflexivity].
  destruct (o_sp ob) as [sl|] eqn:Esl; [|reflexivity].
  rewrite (inplace_other_sp h h' a o o' b ob sl S I Hb Hob Esl). reflexivity.
Qed.

Theorem inplace_Sep h h' a o o' : Sep h -> inplace h h' a o o' -> Sep h'.
Proof.
  intros S I. pose proof I as (Ha & Ha' & Hp & Hu & Nu & Hpo & Hpl & Np & Ws & Hso & Hsn & Hsf).
  pose proof (live_u h a o S Ha) as La.
  pose proof (live_p h (o_path o) S (sep_path h S a o Ha)) as Lp.
  (* every live Url of h' has a live Url of h with the same path at the same handle *)
  assert (Old : forall b ob', rd (hu h') b = Some ob' ->
            exists ob, rd (hu h) b = Some ob /\ o_path ob' = o_path ob /\ (b <> a -> ob' = ob)).
  { intros b ob' H. destruct (Nat.eq_dec b a) as [->|Nb].
    - rewrite Ha' in H. injection H as <-. exists o. repeat split; [exact Ha|exact Hp|intros N; elim N; reflexivity].
    - rewrite (Hu b Nb) in H. exists ob'. repeat split; exact H. }
  constructor.
  - intros l L. rewrite Nu in L. rewrite Hu by lia. apply (wf_u h S l L).
  - intros l L. rewrite Np in L. rewrite Hpo by lia. apply (wf_p h S l L).
  - exact Ws.
  - intros b ob' H. destruct (Old b ob' H) as (ob & Hob & Ep & _). rewrite Ep.
    destruct (Nat.eq_dec (o_path ob) (o_path o)) as [E|N].
    + rewrite E. exact Hpl.
    + rewrite (Hpo _ N). exact (sep_path h S b ob Hob).
  - intros b1 b2 o1 o2 H1 H2 E.
    destruct (Old b1 o1 H1) as (p1 & G1 & E1 & _). destruct (Old b2 o2 H2) as (p2 & G2 & E2 & _).
    apply (sep_inj h S b1 b2 p1 p2 G1 G2). congruence.
  - intros b ob' sl H E. destruct (Nat.eq_dec b a) as [->|Nb].
    + rewrite Ha' in H. injection H as <-. exact (proj2 (Hsn sl E)).
    + rewrite (Hu b Nb) in H. rewrite (inplace_other_sp h h' a o o' b ob' sl S I Nb H E).
      exact (sep_sp h S b ob' sl H E).
  - intros sl s b H Ow.
    destruct (option_loc_dec (o_sp o') sl) as [E|N'].
    + destruct (proj2 (Hsn sl E)) as (s2 & H2 & O2). rewrite H in H2. injection H2 as <-.
      rewrite Ow in O2. injection O2 as ->. exists o'. split; [exact Ha'|exact E].
    + destruct (option_loc_dec (o_sp o) sl) as [E|N].
      * rewrite (Hsf sl E N') in H. discriminate.
      * rewrite (Hso sl N N') in H. destruct (sep_owner h S sl s b H Ow) as (ob & Hob & Eob).
        assert (Nb : b <> a). { intros ->. rewrite Ha in Hob. injection Hob as <-. exact (N Eob). }
        exists ob. rewrite (Hu b Nb). split; assumption.
Qed.

(* ---------- footprint 2: an operation that only allocates: one new Url r with its own new objects ---------- *)
Definition extends (h h' : heap) (r : loc) (o : urlobj) : Prop :=
  (forall l, (l < next (hu h))%nat -> rd (hu h') l = rd (hu h) l) /\
  (forall l, (l < next (hp h))%nat -> rd (hp h') l = rd (hp h) l) /\
  (forall l, (l < next (hs h))%nat -> rd (hs h') l = rd (hs h) l) /\
  (forall l, (next (hu h') <= l)%nat -> rd (hu h') l = None) /\
  (forall l, (next (hp h') <= l)%nat -> rd (hp h') l = None) /\
  (forall l, (next (hs h') <= l)%nat -> rd (hs h') l = None) /\
  (next (hu h) <= r)%nat /\ rd (hu h') r = Some o /\
  (forall l, (next (hu h) <= l)%nat -> l <> r -> rd (hu h') l = None) /\
  (next (hp h) <= o_path o)%nat /\ rd (hp h') (o_path o) <> None /\
  (forall sl, o_sp o = Some sl ->
     (next (hs h) <= sl)%nat /\ exists s, rd (hs h') sl = Some s /\ s_owner s = Some r) /\
  (forall sl, (next (hs h) <= sl)%nat -> o_sp o <> Some sl -> rd (hs h') sl = None).

Theorem extends_frame h h' r o b : Sep h -> extends h h' r o -> b <> r -> abs h' b = abs h b.
Proof.
  intros S (Eu & Ep & Es & Wu & Wp & Ws & Lr & Hr & Hn & Lp & Hp & Hsp & Hsn) Nb.
  unfold abs. destruct (Nat.lt_ge_cases b (next (hu h))) as [L|L].
  - rewrite (Eu b L). destruct (rd (hu h) b) as [ob|] eqn:Hob; [|reflexivity].
    pose proof (live_p h _ S (sep_path h S b ob Hob)) as L2. rewrite (Ep _ L2).
    destruct (rd (hp h) (o_path ob)); [|reflexivity].
    destruct (o_sp ob) as [sl|] eqn:E; [|reflexivity].
    destruct (sep_sp h S b ob sl Hob E) as (s & Hs & _).
    rewrite (Es _ (live_s h sl s S Hs)). reflexivity.
  - rewrite (Hn b L Nb). rewrite (wf_u h S b L). reflexivity.
Qed.

Theorem extends_Sep h h' r o : Sep h -> extends h h' r o -> Sep h'.
Proof.
  intros S (Eu & Ep & Es & Wu & Wp & Ws & Lr & Hr & Hn & Lp & Hp & Hsp & Hsn).
  (* a live Url of h' is r or a live Url of h *)
  assert (Old : forall b ob, rd (hu h') b = Some ob -> (b = r /\ ob = o) \/ ((b < next (hu h))%nat /\ rd (hu h) b = Some ob)).
  { intros b ob H. destruct (Nat.lt_ge_cases b (next (hu h))) as [L|L].
    - right. rewrite (Eu b L) in H. split; assumption.
    - left. destruct (Nat.eq_dec b r) as [->|N].
      + rewrite Hr in H. injection H as <-. split; reflexivity.
      + rewrite (Hn b L N) in H. discriminate. }
  constructor.
  - exact Wu.
  - exact Wp.
  - exact Ws.
  - intros b ob H. destruct (Old b ob H) as [[-> ->]|[L G]]; [exact Hp|].
    pose proof (live_p h _ S (sep_path h S b ob G)) as L2. rewrite (Ep _ L2). exact (sep_path h S b ob G).
  - intros b1 b2 o1 o2 H1 H2 E.
    destruct (Old b1 o1 H1) as [[-> ->]|[L1 G1]]; destruct (Old b2 o2 H2) as [[-> ->]|[L2 G2]].
    + reflexivity.
    + pose proof (live_p h _ S (sep_path h S b2 o2 G2)). lia.
    + pose proof (live_p h _ S (sep_path h S b1 o1 G1)). lia.
    + exact (sep_inj h S b1 b2 o1 o2 G1 G2 E).
  - intros b ob sl H E. destruct (Old b ob H) as [[-> ->]|[L G]].
    + exact (proj2 (Hsp sl E)).
    + destruct (sep_sp h S b ob sl G E) as (s & Hs & Ow). exists s.
      rewrite (Es _ (live_s h sl s S Hs)). split; assumption.
  - intros sl s b H Ow. destruct (Nat.lt_ge_cases sl (next (hs h))) as [L|L].
    + rewrite (Es sl L) in H. destruct (sep_owner h S sl s b H Ow) as (ob & Hob & E).
      exists ob. rewrite (Eu b (live_u h b ob S Hob)). split; assumption.
    + destruct (option_loc_dec (o_sp o) sl) as [E|N].
      * destruct (proj2 (Hsp sl E)) as (s2 & H2 & O2). rewrite H in H2. injection H2 as <-.
        rewrite Ow in O2. injection O2 as ->. exists o. split; assumption.
      * rewrite (Hsn sl L N) in H. discriminate.
Qed.

