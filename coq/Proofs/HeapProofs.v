(* L2 (Model/Heap.v) refines L1 (Model/Api.v) under the separation invariant Sep; every operation
   writes at most the objects of the handle it is applied to (frame); clones and resolution results
   are fresh and share nothing; SearchParams handles stay valid; the buggy variants break the frame. *)
From Coq Require Import Permutation.
From Verif Require Import Lib.Base Lib.Utf8 Lib.GoStr Model.Cfg Gen.Tables Gen.Options Model.Sets Model.Percent Model.Url Model.Host Model.Machine Model.Api Model.Canon Model.Obs Model.Heap.

(* ---------- stores ---------- *)
Lemma rd_upd {A} (s : store A) k v l : rd (upd s k v) l = if Nat.eqb l k then v else rd s l.
Proof. reflexivity. Qed.
Lemma rd_alloc {A} (s : store A) v l : rd (alloc s v) l = if Nat.eqb l (next s) then Some v else rd s l.
Proof. reflexivity. Qed.
Lemma next_upd {A} (s : store A) k v : next (upd s k v) = next s.
Proof. reflexivity. Qed.
Lemma next_alloc {A} (s : store A) v : next (alloc s v) = Datatypes.S (next s).
Proof. reflexivity. Qed.

(* decide the Nat.eqb tests in the goal and the hypotheses *)
Ltac eqs :=
  repeat match goal with
  | |- context [Nat.eqb ?x ?y] => destruct (Nat.eqb_spec x y); try subst; try lia
  | H : context [Nat.eqb ?x ?y] |- _ => destruct (Nat.eqb_spec x y); try subst; try lia
  end.
Ltac stores := repeat (rewrite ?rd_upd, ?rd_alloc, ?next_upd, ?next_alloc in * ).

Lemma val_obj u pl sl : val_of (obj_of u pl sl) (path_of u) (u_sp u) = u.
Proof. destruct u; reflexivity. Qed.

Lemma option_loc_dec (x : option loc) (l : loc) : {x = Some l} + {x <> Some l}.
Proof.
  destruct x as [k|]; [|right; discriminate].
  destruct (Nat.eq_dec k l) as [->|N]; [left; reflexivity|right; intros E; injection E as E; exact (N E)].
Qed.

(* a live cell lies below the allocation pointer *)
Lemma live_u h a o : Sep h -> rd (hu h) a = Some o -> (a < next (hu h))%nat.
Proof.
  intros S H. destruct (Nat.lt_ge_cases a (next (hu h))) as [L|L]; [exact L|].
  rewrite (wf_u h S a L) in H. discriminate.
Qed.
Lemma live_p h l : Sep h -> rd (hp h) l <> None -> (l < next (hp h))%nat.
Proof.
  intros S H. destruct (Nat.lt_ge_cases l (next (hp h))) as [L|L]; [exact L|].
  elim H. apply (wf_p h S l L).
Qed.
Lemma live_s h l s : Sep h -> rd (hs h) l = Some s -> (l < next (hs h))%nat.
Proof.
  intros S H. destruct (Nat.lt_ge_cases l (next (hs h))) as [L|L]; [exact L|].
  rewrite (wf_s h S l L) in H. discriminate.
Qed.

(* under Sep a live Url handle has an L1 value *)
Lemma abs_live h a o : Sep h -> rd (hu h) a = Some o -> exists u, abs h a = Some u.
Proof.
  intros S H. unfold abs. rewrite H.
  destruct (rd (hp h) (o_path o)) as [p|] eqn:P; [|elim (sep_path h S a o H P)].
  destruct (o_sp o) as [sl|] eqn:E; [|eauto].
  destruct (sep_sp h S a o sl H E) as (s & Hs & _). rewrite Hs. eauto.
Qed.
Lemma abs_some_live h a u : abs h a = Some u -> exists o, rd (hu h) a = Some o.
Proof. unfold abs. destruct (rd (hu h) a); [eauto|discriminate]. Qed.

(* two Urls with the same SearchParams pointer are the same Url *)
Lemma sp_inj h a b oa ob sl : Sep h -> rd (hu h) a = Some oa -> rd (hu h) b = Some ob ->
  o_sp oa = Some sl -> o_sp ob = Some sl -> a = b.
Proof.
  intros S Ha Hb Ea Eb.
  destruct (sep_sp h S a oa sl Ha Ea) as (s & Hs & Os).
  destruct (sep_sp h S b ob sl Hb Eb) as (s' & Hs' & Os').
  rewrite Hs in Hs'. injection Hs' as <-. rewrite Os in Os'. injection Os' as <-. reflexivity.
Qed.

(* ---------- footprint 1: an operation that writes only the objects of handle a ---------- *)
Definition inplace (h h' : heap) (a : loc) (o o' : urlobj) : Prop :=
  rd (hu h) a = Some o /\ rd (hu h') a = Some o' /\ o_path o' = o_path o /\
  (forall b, b <> a -> rd (hu h') b = rd (hu h) b) /\
  next (hu h') = next (hu h) /\
  (forall l, l <> o_path o -> rd (hp h') l = rd (hp h) l) /\
  rd (hp h') (o_path o) <> None /\
  next (hp h') = next (hp h) /\
  (forall l, (next (hs h') <= l)%nat -> rd (hs h') l = None) /\
  (forall l, o_sp o <> Some l -> o_sp o' <> Some l -> rd (hs h') l = rd (hs h) l) /\
  (forall l, o_sp o' = Some l ->
     (o_sp o = Some l \/ (next (hs h) <= l)%nat) /\ exists s, rd (hs h') l = Some s /\ s_owner s = Some a) /\
  (forall l, o_sp o = Some l -> o_sp o' <> Some l -> rd (hs h') l = None).

(* the SearchParams object of another Url is not touched *)
Lemma inplace_other_sp h h' a o o' b ob sl : Sep h -> inplace h h' a o o' -> b <> a ->
  rd (hu h) b = Some ob -> o_sp ob = Some sl -> rd (hs h') sl = rd (hs h) sl.
Proof.
  intros S (Ha & Ha' & Hp & Hu & Nu & Hpo & Hpl & Np & Ws & Hso & Hsn & Hsf) Hb Hob Esl.
  apply Hso.
  - intros E. apply Hb. exact (sp_inj h b a ob o sl S Hob Ha Esl E).
  - intros E. destruct (Hsn sl E) as ([E1|L] & _).
    + apply Hb. exact (sp_inj h b a ob o sl S Hob Ha Esl E1).
    + destruct (sep_sp h S b ob sl Hob Esl) as (s & Hs & _). pose proof (live_s h sl s S Hs). lia.
Qed.

Theorem inplace_frame h h' a o o' b : Sep h -> inplace h h' a o o' -> b <> a -> abs h' b = abs h b.
Proof.
  intros S I Hb. pose proof I as (Ha & Ha' & Hp & Hu & Nu & Hpo & Hpl & Np & Ws & Hso & Hsn & Hsf).
  unfold abs. rewrite (Hu b Hb). destruct (rd (hu h) b) as [ob|] eqn:Hob; [|reflexivity].
  assert (Pne : o_path ob <> o_path o).
  { intros E. apply Hb. exact (sep_inj h S b a ob o Hob Ha E). }
  rewrite (Hpo _ Pne). destruct (rd (hp h) (o_path ob)); [|reflexivity].
  destruct (o_sp ob) as [sl|] eqn:Esl; [|reflexivity].
  rewrite (inplace_other_sp h h' a o o' b ob sl S I Hb Hob Esl). reflexivity.
Qed.

Theorem inplace_Sep h h' a o o' : Sep h -> inplace h h' a o o' -> Sep h'.
Proof.
  intros S I. pose proof I as (Ha & Ha' & Hp & Hu & Nu & Hpo & Hpl & Np & Ws & Hso & Hsn & Hsf).
  pose proof (live_u h a o S Ha) as La.
  pose proof (live_p h (o_path o) S (sep_path h S a o Ha)) as Lp.
  (* every live Url of h' has a live Url of h with the same path at the same handle *)
  assert (Old : forall b ob', rd (hu h') b = Some ob' ->
            exists ob, rd (hu h) b = Some ob /\ o_path ob' = o_path ob /\ (b <> a -> ob' = ob)).
  { intros b ob' H. destruct (Nat.eq_dec b a) as [->|Nb].
    - rewrite Ha' in H. injection H as <-. exists o. repeat split; [exact Ha|exact Hp|intros N; elim N; reflexivity].
    - rewrite (Hu b Nb) in H. exists ob'. repeat split; exact H. }
  constructor.
  - intros l L. rewrite Nu in L. rewrite Hu by lia. apply (wf_u h S l L).
  - intros l L. rewrite Np in L. rewrite Hpo by lia. apply (wf_p h S l L).
  - exact Ws.
  - intros b ob' H. destruct (Old b ob' H) as (ob & Hob & Ep & _). rewrite Ep.
    destruct (Nat.eq_dec (o_path ob) (o_path o)) as [E|N].
    + rewrite E. exact Hpl.
    + rewrite (Hpo _ N). exact (sep_path h S b ob Hob).
  - intros b1 b2 o1 o2 H1 H2 E.
    destruct (Old b1 o1 H1) as (p1 & G1 & E1 & _). destruct (Old b2 o2 H2) as (p2 & G2 & E2 & _).
    apply (sep_inj h S b1 b2 p1 p2 G1 G2). congruence.
  - intros b ob' sl H E. destruct (Nat.eq_dec b a) as [->|Nb].
    + rewrite Ha' in H. injection H as <-. exact (proj2 (Hsn sl E)).
    + rewrite (Hu b Nb) in H. rewrite (inplace_other_sp h h' a o o' b ob' sl S I Nb H E).
      exact (sep_sp h S b ob' sl H E).
  - intros sl s b H Ow.
    destruct (option_loc_dec (o_sp o') sl) as [E|N'].
    + destruct (proj2 (Hsn sl E)) as (s2 & H2 & O2). rewrite H in H2. injection H2 as <-.
      rewrite Ow in O2. injection O2 as ->. exists o'. split; [exact Ha'|exact E].
    + destruct (option_loc_dec (o_sp o) sl) as [E|N].
      * rewrite (Hsf sl E N') in H. discriminate.
      * rewrite (Hso sl N N') in H. destruct (sep_owner h S sl s b H Ow) as (ob & Hob & Eob).
        assert (Nb : b <> a). { intros ->. rewrite Ha in Hob. injection Hob as <-. exact (N Eob). }
        exists ob. rewrite (Hu b Nb). split; assumption.
Qed.

(* ---------- footprint 2: an operation that only allocates: one new Url r with its own new objects ---------- *)
Definition extends (h h' : heap) (r : loc) (o : urlobj) : Prop :=
  (forall l, (l < next (hu h))%nat -> rd (hu h') l = rd (hu h) l) /\
  (forall l, (l < next (hp h))%nat -> rd (hp h') l = rd (hp h) l) /\
  (forall l, (l < next (hs h))%nat -> rd (hs h') l = rd (hs h) l) /\
  (forall l, (next (hu h') <= l)%nat -> rd (hu h') l = None) /\
  (forall l, (next (hp h') <= l)%nat -> rd (hp h') l = None) /\
  (forall l, (next (hs h') <= l)%nat -> rd (hs h') l = None) /\
  (next (hu h) <= r)%nat /\ rd (hu h') r = Some o /\
  (forall l, (next (hu h) <= l)%nat -> l <> r -> rd (hu h') l = None) /\
  (next (hp h) <= o_path o)%nat /\ rd (hp h') (o_path o) <> None /\
  (forall sl, o_sp o = Some sl ->
     (next (hs h) <= sl)%nat /\ exists s, rd (hs h') sl = Some s /\ s_owner s = Some r) /\
  (forall sl, (next (hs h) <= sl)%nat -> o_sp o <> Some sl -> rd (hs h') sl = None).

Theorem extends_frame h h' r o b : Sep h -> extends h h' r o -> b <> r -> abs h' b = abs h b.
Proof.
  intros S (Eu & Ep & Es & Wu & Wp & Ws & Lr & Hr & Hn & Lp & Hp & Hsp & Hsn) Nb.
  unfold abs. destruct (Nat.lt_ge_cases b (next (hu h))) as [L|L].
  - rewrite (Eu b L). destruct (rd (hu h) b) as [ob|] eqn:Hob; [|reflexivity].
    pose proof (live_p h _ S (sep_path h S b ob Hob)) as L2. rewrite (Ep _ L2).
    destruct (rd (hp h) (o_path ob)); [|reflexivity].
    destruct (o_sp ob) as [sl|] eqn:E; [|reflexivity].
    destruct (sep_sp h S b ob sl Hob E) as (s & Hs & _).
    rewrite (Es _ (live_s h sl s S Hs)). reflexivity.
  - rewrite (Hn b L Nb). rewrite (wf_u h S b L). reflexivity.
Qed.

Theorem extends_Sep h h' r o : Sep h -> extends h h' r o -> Sep h'.
Proof.
  intros S (Eu & Ep & Es & Wu & Wp & Ws & Lr & Hr & Hn & Lp & Hp & Hsp & Hsn).
  (* a live Url of h' is r or a live Url of h *)
  assert (Old : forall b ob, rd (hu h') b = Some ob -> (b = r /\ ob = o) \/ ((b < next (hu h))%nat /\ rd (hu h) b = Some ob)).
  { intros b ob H. destruct (Nat.lt_ge_cases b (next (hu h))) as [L|L].
    - right. rewrite (Eu b L) in H. split; assumption.
    - left. destruct (Nat.eq_dec b r) as [->|N].
      + rewrite Hr in H. injection H as <-. split; reflexivity.
      + rewrite (Hn b L N) in H. discriminate. }
  constructor.
  - exact Wu.
  - exact Wp.
  - exact Ws.
  - intros b ob H. destruct (Old b ob H) as [[-> ->]|[L G]]; [exact Hp|].
    pose proof (live_p h _ S (sep_path h S b ob G)) as L2. rewrite (Ep _ L2). exact (sep_path h S b ob G).
  - intros b1 b2 o1 o2 H1 H2 E.
    destruct (Old b1 o1 H1) as [[-> ->]|[L1 G1]]; destruct (Old b2 o2 H2) as [[-> ->]|[L2 G2]].
    + reflexivity.
    + pose proof (live_p h _ S (sep_path h S b2 o2 G2)). lia.
    + pose proof (live_p h _ S (sep_path h S b1 o1 G1)). lia.
    + exact (sep_inj h S b1 b2 o1 o2 G1 G2 E).
  - intros b ob sl H E. destruct (Old b ob H) as [[-> ->]|[L G]].
    + exact (proj2 (Hsp sl E)).
    + destruct (sep_sp h S b ob sl G E) as (s & Hs & Ow). exists s.
      rewrite (Es _ (live_s h sl s S Hs)). split; assumption.
  - intros sl s b H Ow. destruct (Nat.lt_ge_cases sl (next (hs h))) as [L|L].
    + rewrite (Es sl L) in H. destruct (sep_owner h S sl s b H Ow) as (ob & Hob & E).
      exists ob. rewrite (Eu b (live_u h b ob S Hob)). split; assumption.
    + destruct (option_loc_dec (o_sp o) sl) as [E|N].
      * destruct (proj2 (Hsp sl E)) as (s2 & H2 & O2). rewrite H in H2. injection H2 as <-.
        rewrite Ow in O2. injection O2 as ->. exists o. split; assumption.
      * rewrite (Hsn sl L N) in H. discriminate.
Qed.


(* ---------- the operations meet their footprints ---------- *)
Ltac inj :=
  repeat match goal with
  | H : Some ?x = Some ?y |- _ => first [is_var x; injection H as -> | is_var y; injection H as <- | injection H as H]
  end.
Ltac fin := intros; cbn [o_sp o_path obj_of with_ptrs with_query with_verrs s_owner s_params] in *; stores; inj; eqs; inj; try congruence; try (exfalso; lia); try (left; congruence); try (right; lia);
            try (eexists; split; [reflexivity|cbn [s_owner]; congruence]);
            try match goal with W : forall l : nat, (next _ <= l)%nat -> rd _ l = None |- _ => apply W; lia end;
            try (exfalso; match goal with N : ?x <> ?y |- _ => apply N; reflexivity end).
Ltac absred :=
  unfold abs;
  repeat progress (cbn [hu hp hs o_path o_sp obj_of with_ptrs with_query with_verrs s_owner s_params]; stores; rewrite ?Nat.eqb_refl).
Section OpsProofs.
  Variable idna_raw : str -> str * bool.
  Variable c : cfg.

  Lemma commit_spec h a o u' : Sep h -> rd (hu h) a = Some o ->
    exists o', inplace h (commit h a u') a o o' /\ abs (commit h a u') a = Some u' /\
               (u_sp u' <> None -> o_sp o <> None -> o_sp o' = o_sp o).
  Proof.
    intros S Ha. pose proof (live_u h a o S Ha) as La. pose proof (sep_path h S a o Ha) as Pl.
    pose proof (wf_s h S) as Ws.
    unfold commit. rewrite Ha.
    destruct (u_sp u') as [l|] eqn:Eu; destruct (o_sp o) as [sl|] eqn:Eo.
    - destruct (sep_sp h S a o sl Ha Eo) as (s & Hs & Ow). rewrite Hs.
      pose proof (live_s h sl s S Hs) as Ls.
      eexists. split; [|split].
      + unfold inplace. cbn [hu hp hs o_path o_sp obj_of]. stores. rewrite Nat.eqb_refl.
        repeat split; try reflexivity; try assumption; fin.
      + absred.
        rewrite <- Eu. rewrite val_obj. reflexivity.
      + reflexivity.
    - eexists. split; [|split].
      + unfold inplace. cbn [hu hp hs o_path o_sp obj_of]. stores. rewrite Nat.eqb_refl.
        repeat split; try reflexivity; try assumption; fin.
      + absred.
        rewrite <- Eu. rewrite val_obj. reflexivity.
      + intros _ N. elim N; reflexivity.
    - pose proof (sep_sp h S a o sl Ha Eo) as (s & Hs & Ow). pose proof (live_s h sl s S Hs) as Ls.
      eexists. split; [|split].
      + unfold inplace. cbn [hu hp hs o_path o_sp obj_of]. stores. rewrite Nat.eqb_refl.
        repeat split; try reflexivity; try assumption; fin.
      + absred.
        rewrite <- Eu. rewrite val_obj. reflexivity.
      + intros N; elim N; reflexivity.
    - eexists. split; [|split].
      + unfold inplace. cbn [hu hp hs o_path o_sp obj_of]. stores. rewrite Nat.eqb_refl.
        repeat split; try reflexivity; try assumption; fin.
      + absred.
        rewrite <- Eu. rewrite val_obj. reflexivity.
      + intros N; elim N; reflexivity.
  Qed.
End OpsProofs.

Lemma eqb_S_n n : Nat.eqb (Datatypes.S n) n = false.
Proof. apply Nat.eqb_neq. lia. Qed.
Lemma eqb_n_S n : Nat.eqb n (Datatypes.S n) = false.
Proof. apply Nat.eqb_neq. lia. Qed.
Ltac ext_goal :=
  unfold extends; cbn [hu hp hs]; stores; rewrite ?Nat.eqb_refl, ?eqb_S_n, ?eqb_n_S;
  repeat split; try reflexivity; try assumption; fin.

Lemma new_url_spec h u : Sep h ->
  exists o, extends h (fst (new_url h u)) (snd (new_url h u)) o /\
            abs (fst (new_url h u)) (snd (new_url h u)) = Some u /\ snd (new_url h u) = next (hu h) /\
            next (hu (fst (new_url h u))) = Datatypes.S (next (hu h)).
Proof.
  intros S. pose proof (wf_u h S) as Wu. pose proof (wf_p h S) as Wp. pose proof (wf_s h S) as Ws.
  unfold new_url. destruct (u_sp u) as [l|] eqn:Eu; cbn [fst snd].
  - eexists. split; [|split; [|split]].
    + ext_goal.
    + absred. rewrite <- Eu. rewrite val_obj. reflexivity.
    + reflexivity.
    + reflexivity.
  - eexists. split; [|split; [|split]].
    + ext_goal.
    + absred. rewrite <- Eu. rewrite val_obj. reflexivity.
    + reflexivity.
    + reflexivity.
Qed.

Lemma abs_inv h a u : abs h a = Some u ->
  exists o p, rd (hu h) a = Some o /\ rd (hp h) (o_path o) = Some p /\
    match o_sp o with
    | None => u = val_of o p None
    | Some sl => exists s, rd (hs h) sl = Some s /\ u = val_of o p (Some (s_params s))
    end.
Proof.
  unfold abs. destruct (rd (hu h) a) as [o|]; [|discriminate].
  destruct (rd (hp h) (o_path o)) as [p|] eqn:P; [|discriminate].
  intros H. exists o, p. split; [reflexivity|split; [exact P|]].
  destruct (o_sp o) as [sl|]; [|congruence].
  destruct (rd (hs h) sl) as [s|]; [|discriminate]. exists s. split; congruence.
Qed.

Lemma h_clone_spec h a u : Sep h -> abs h a = Some u ->
  exists h' o, h_clone h a = Some (h', next (hu h)) /\ extends h h' (next (hu h)) o /\
               abs h' (next (hu h)) = Some (Clone u) /\ next (hu h') = Datatypes.S (next (hu h)).
Proof.
  intros S A. pose proof (wf_u h S) as Wu. pose proof (wf_p h S) as Wp. pose proof (wf_s h S) as Ws.
  destruct (abs_inv h a u A) as (o & p & Ho & Hp & Hsp). unfold h_clone. rewrite Ho, Hp.
  destruct (o_sp o) as [sl|] eqn:Eo.
  - destruct Hsp as (s & Hs & ->). rewrite Hs. eexists. eexists. split; [reflexivity|split; [|split]].
    + ext_goal.
    + absred. reflexivity.
    + reflexivity.
  - subst u. eexists. eexists. split; [reflexivity|split; [|split]].
    + ext_goal.
    + absred. reflexivity.
    + reflexivity.
Qed.

Lemma h_clone_none h a : Sep h -> abs h a = None -> h_clone h a = None.
Proof.
  intros S A. unfold h_clone. destruct (rd (hu h) a) as [o|] eqn:Ho; [|reflexivity].
  destruct (abs_live h a o S Ho) as (u & Hu). congruence.
Qed.

Ltac absred2 :=
  unfold abs;
  repeat progress (cbn [hu hp hs o_path o_sp obj_of with_ptrs with_query with_verrs s_owner s_params]; stores;
                   rewrite ?Nat.eqb_refl; eqs).
Section R.
  Variable idna_raw : str -> str * bool.
  Variable c : cfg.
Lemma h_resolve_spec share h b ref vb u : Sep h -> abs h b = Some vb -> UrlParse idna_raw c vb ref = PUrl u ->
  exists h' o, h_resolve idna_raw c share h b ref = LOk h' (Datatypes.S (next (hu h))) /\
               extends h h' (Datatypes.S (next (hu h))) o /\
               abs h' (Datatypes.S (next (hu h))) = Some u /\
               next (hu h') = Datatypes.S (Datatypes.S (next (hu h))).
Proof.
  intros S A P. pose proof (wf_u h S) as Wu. pose proof (wf_p h S) as Wp. pose proof (wf_s h S) as Ws.
  destruct (abs_inv h b vb A) as (o & p & Ho & Hp & Hsp). unfold h_resolve, h_clone. rewrite A, Ho, Hp.
  destruct (o_sp o) as [sl|] eqn:Eo.
  - destruct Hsp as (s & Hs & ->). rewrite Hs. rewrite P. unfold new_url.
    destruct (u_sp u) as [l|] eqn:Eu; cbn [hu hp hs]; stores; rewrite ?Nat.eqb_refl; cbn [Nat.eqb];
      rewrite ?Nat.eqb_refl; destruct share; cbn [o_sp o_path with_ptrs obj_of].
    all: (eexists; eexists; split; [reflexivity|split; [|split]];
          [ext_goal | absred2; rewrite <- Eu; rewrite val_obj; reflexivity | reflexivity]).
  - subst vb. rewrite P. unfold new_url.
    destruct (u_sp u) as [l|] eqn:Eu; cbn [hu hp hs]; stores; rewrite ?Nat.eqb_refl; cbn [Nat.eqb];
      rewrite ?Nat.eqb_refl; destruct share; cbn [o_sp o_path with_ptrs obj_of].
    all: (eexists; eexists; split; [reflexivity|split; [|split]];
          [ext_goal | absred2; rewrite <- Eu; rewrite val_obj; reflexivity | reflexivity]).
Qed.
End R.

Lemma inplace_refl h a o : Sep h -> rd (hu h) a = Some o -> inplace h h a o o.
Proof.
  intros S Ha. unfold inplace. repeat split; try reflexivity; try assumption.
  - exact (sep_path h S a o Ha).
  - exact (wf_s h S).
  - destruct (sep_sp h S a o l Ha H) as (s & _). left. exact H.
  - exact (sep_sp h S a o l Ha H).
  - intros. contradiction.
Qed.

Section SP.
  Variable c : cfg.

  Lemma h_searchparams_spec h a o u : Sep h -> rd (hu h) a = Some o -> abs h a = Some u ->
    exists h' sl o', h_searchparams c h a = Some (h', sl) /\ inplace h h' a o o' /\
      abs h' a = Some (fst (ensure_sp c u)) /\ o_sp o' = Some sl /\
      (forall sl0, o_sp o = Some sl0 -> sl0 = sl /\ h' = h) /\
      exists s, rd (hs h') sl = Some s /\ s_owner s = Some a /\ s_params s = snd (ensure_sp c u).
  Proof.
    intros S Ha A. pose proof (wf_s h S) as Ws. pose proof (sep_path h S a o Ha) as Pl.
    destruct (abs_inv h a u A) as (o1 & p & Ho & Hp & Hsp). rewrite Ha in Ho. injection Ho as <-.
    unfold h_searchparams, ensure_sp. rewrite Ha. destruct (o_sp o) as [sl|] eqn:Eo.
    - destruct Hsp as (s & Hs & ->). cbn [u_sp val_of fst snd]. exists h, sl, o.
      split; [reflexivity|]. split; [apply inplace_refl; assumption|]. split; [exact A|]. split; [exact Eo|].
      split; [intros sl0 E; injection E as ->; split; reflexivity|].
      exists s. destruct (sep_sp h S a o sl Ha Eo) as (s' & Hs' & Ow). rewrite Hs in Hs'. injection Hs' as <-.
      repeat split; assumption.
    - subst u. cbn [u_sp val_of fst snd u_query]. eexists. eexists. eexists.
      split; [reflexivity|]. split; [|split; [|split; [|split]]].
      + unfold inplace. cbn [hu hp hs o_path o_sp with_ptrs]. stores. rewrite Nat.eqb_refl.
        repeat split; try reflexivity; try assumption; fin.
      + absred. rewrite Hp. reflexivity.
      + reflexivity.
      + intros sl0 E. discriminate.
      + cbn [hs]. stores. rewrite Nat.eqb_refl. eexists. repeat split.
  Qed.
End SP.

Section SP2.
  Variable c : cfg.

  (* a mutation through a SearchParams handle owned by a *)
  Lemma h_sp_mutate_spec f h sl s a : Sep h -> rd (hs h) sl = Some s -> s_owner s = Some a ->
    exists o u h' o', rd (hu h) a = Some o /\ abs h a = Some u /\ u_sp u = Some (s_params s) /\
      h_sp_mutate c f h sl = Some h' /\ inplace h h' a o o' /\
      abs h' a = Some (sp_update c u (f (s_params s))) /\ o_sp o' = Some sl /\ o_sp o = Some sl.
  Proof.
    intros S Hs Ow. pose proof (wf_s h S) as Ws.
    destruct (sep_owner h S sl s a Hs Ow) as (o & Ha & Eo).
    pose proof (sep_path h S a o Ha) as Pl. pose proof (live_s h sl s S Hs) as Ls.
    destruct (rd (hp h) (o_path o)) as [p|] eqn:Hp; [|elim Pl; reflexivity].
    assert (A : abs h a = Some (val_of o p (Some (s_params s)))).
    { unfold abs. rewrite Ha, Hp, Eo, Hs. reflexivity. }
    exists o, (val_of o p (Some (s_params s))).
    unfold h_sp_mutate, sp_update. rewrite Hs, Ow, Ha. cbn [u_query set_sp val_of].
    destruct ((is_nil (sp_string c (f (s_params s))) && is_some (o_query o)) || negb (is_nil (sp_string c (f (s_params s))))).
    - eexists. eexists. split; [reflexivity|]. split; [exact A|]. split; [reflexivity|]. split; [reflexivity|].
      split; [|split; [|split]].
      + unfold inplace. cbn [hu hp hs o_path o_sp with_query]. stores. rewrite Nat.eqb_refl.
        repeat split; try reflexivity; try assumption; fin.
      + absred. rewrite Hp, Eo. stores. rewrite Nat.eqb_refl. reflexivity.
      + exact Eo.
      + exact Eo.
    - exists {| hu := hu h; hp := hp h; hs := upd (hs h) sl (Some {| s_owner := Some a; s_params := f (s_params s) |}) |}, o.
      split; [reflexivity|]. split; [exact A|]. split; [reflexivity|]. split; [reflexivity|].
      split; [|split; [|split]].
      + unfold inplace. cbn [hu hp hs]. stores.
        repeat split; try reflexivity; try assumption; fin.
      + absred. rewrite Ha, Hp, Eo. stores. rewrite Nat.eqb_refl. reflexivity.
      + exact Eo.
      + exact Eo.
  Qed.

  (* ... and through an ownerless one (update() returns early): no Url changes *)
  Lemma h_sp_mutate_orphan f h sl s : Sep h -> rd (hs h) sl = Some s -> s_owner s = None ->
    exists h', h_sp_mutate c f h sl = Some h' /\ Sep h' /\ hu h' = hu h /\ forall b, abs h' b = abs h b.
  Proof.
    intros S Hs Ow. unfold h_sp_mutate. rewrite Hs, Ow. eexists. split; [reflexivity|].
    assert (NoPtr : forall b ob, rd (hu h) b = Some ob -> o_sp ob <> Some sl).
    { intros b ob Hb E. destruct (sep_sp h S b ob sl Hb E) as (s' & Hs' & Ow'). congruence. }
    split; [|split; [reflexivity|]].
    - pose proof (live_s h sl s S Hs) as Ls. pose proof (wf_s h S) as Ws.
      destruct S. constructor; cbn [hu hp hs]; try assumption.
      + fin.
      + intros b ob sl' Hb E. stores. destruct (Nat.eqb_spec sl' sl) as [->|N]; [elim (NoPtr b ob Hb E)|eauto].
      + intros sl' s' b. stores. destruct (Nat.eqb_spec sl' sl) as [->|N]; [|eauto].
        intros E. injection E as <-. cbn [s_owner]. discriminate.
    - intros b. unfold abs. cbn [hu hp hs]. destruct (rd (hu h) b) as [ob|] eqn:Hb; [|reflexivity].
      destruct (rd (hp h) (o_path ob)); [|reflexivity]. destruct (o_sp ob) as [sl'|] eqn:E; [|reflexivity].
      stores. destruct (Nat.eqb_spec sl' sl) as [->|N]; [elim (NoPtr b ob Hb E)|reflexivity].
  Qed.
End SP2.

(* ---------- handles: liveness and the searchParams pointer under the two footprints ---------- *)
Lemma inplace_live h h' a o o' b : inplace h h' a o o' -> rd (hu h) b <> None -> rd (hu h') b <> None.
Proof.
  intros (Ha & Ha' & _ & Hu & _) L. destruct (Nat.eq_dec b a) as [->|N]; [rewrite Ha'; discriminate|].
  rewrite (Hu b N). exact L.
Qed.
Lemma inplace_sp_of h h' a o o' b sl : inplace h h' a o o' -> (o_sp o <> None -> o_sp o' = o_sp o) ->
  sp_of h b = Some sl -> sp_of h' b = Some sl.
Proof.
  intros (Ha & Ha' & _ & Hu & _) K. unfold sp_of. destruct (Nat.eq_dec b a) as [->|N].
  - rewrite Ha, Ha'. intros E. rewrite K; [exact E|]. rewrite E. discriminate.
  - rewrite (Hu b N). intros E; exact E.
Qed.
Lemma extends_live h h' r o b : Sep h -> extends h h' r o -> rd (hu h) b <> None -> rd (hu h') b <> None.
Proof.
  intros S (Eu & _) L. destruct (rd (hu h) b) as [ob|] eqn:Hb; [|elim L; reflexivity].
  rewrite (Eu b (live_u h b ob S Hb)). rewrite Hb. discriminate.
Qed.
Lemma extends_sp_of h h' r o b sl : Sep h -> extends h h' r o -> sp_of h b = Some sl -> sp_of h' b = Some sl.
Proof.
  intros S (Eu & _). unfold sp_of. destruct (rd (hu h) b) as [ob|] eqn:Hb; [|discriminate].
  rewrite (Eu b (live_u h b ob S Hb)). rewrite Hb. intros E; exact E.
Qed.
Lemma extends_fresh h h' r o : Sep h -> extends h h' r o -> abs h r = None.
Proof.
  intros S (_ & _ & _ & _ & _ & _ & Lr & _). unfold abs. rewrite (wf_u h S r Lr). reflexivity.
Qed.

Section Main.
  Variable idna_raw : str -> str * bool.
  Variable c : cfg.
  Notation h_step := (h_step idna_raw c).
  Notation l1_step := (l1_step idna_raw c).
  Notation setter := (setter idna_raw c).

  Definition R (h : heap) (st : l1state) : Prop := (forall a, abs h a = fst st a) /\ snd st = next (hu h).

  Lemma R_put_inplace h h' a o o' m n v : Sep h -> R h (m, n) -> inplace h h' a o o' -> abs h' a = v ->
    R h' (put m a v, n).
  Proof.
    intros S [Rm Rn] I A. cbn [fst snd] in *. split; cbn [fst snd].
    - intros b. unfold put. destruct (Nat.eqb_spec b a) as [->|N]; [exact A|].
      rewrite (inplace_frame h h' a o o' b S I N). apply Rm.
    - destruct I as (_ & _ & _ & _ & Nu & _). congruence.
  Qed.
  Lemma R_put_extends h h' r o m n v n' : Sep h -> R h (m, n) -> extends h h' r o -> abs h' r = v ->
    next (hu h') = n' -> R h' (put m r v, n').
  Proof.
    intros S [Rm Rn] I A Nn. cbn [fst snd] in *. split; cbn [fst snd].
    - intros b. unfold put. destruct (Nat.eqb_spec b r) as [->|N]; [exact A|].
      rewrite (extends_frame h h' r o b S I N). apply Rm.
    - congruence.
  Qed.

  (* Theorems 1, 2, 3 and 6 in one statement: an L2 step is simulated by the L1 step on the finite
     map, the invariant is kept, and the two agree on stopping *)
  Theorem step_sim h st op : Sep h -> R h st ->
    match h_step h op with
    | Some h' => exists st', l1_step st (l1_of h op) = Some st' /\ R h' st' /\ Sep h'
    | None => l1_step st (l1_of h op) = None
    end.
  Proof.
    intros S HR. destruct st as [m n]. pose proof HR as [Rm Rn]. cbn [fst snd] in Rm, Rn.
    destruct op as [s|share b ref|a|a w v|a|a mu|sl mu|a b]; cbn [Heap.h_step l1_of Heap.l1_step].
    - (* parse *)
      unfold h_parse. destruct (Parse idna_raw c s) as [u| | | |]; try reflexivity; try (eexists; split; [reflexivity|split; assumption]).
      destruct (new_url_spec h u S) as (o & E & A & Er & En). destruct (new_url h u) as [h' r]. cbn [fst snd] in *.
      eexists. split; [reflexivity|]. subst r. rewrite Rn. split.
      + exact (R_put_extends h h' _ o m n _ _ S HR E A En).
      + exact (extends_Sep h h' _ o S E).
    - (* resolve *)
      rewrite <- Rm. destruct (abs h b) as [vb|] eqn:A.
      + destruct (UrlParse idna_raw c vb ref) as [u| | | |] eqn:P.
        * destruct (h_resolve_spec idna_raw c share h b ref vb u S A P) as (h' & o & E1 & E2 & E3 & E4). rewrite E1.
          eexists. split; [reflexivity|]. rewrite Rn. split.
          -- exact (R_put_extends h h' _ o m n _ _ S HR E2 E3 E4).
          -- exact (extends_Sep h h' _ o S E2).
        * destruct (h_clone_spec h b vb S A) as (h1 & o1 & C1 & _). unfold h_resolve. rewrite A, C1, P.
          eexists; split; [reflexivity|split; assumption].
        * destruct (h_clone_spec h b vb S A) as (h1 & o1 & C1 & _). unfold h_resolve. rewrite A, C1, P.
          eexists; split; [reflexivity|split; assumption].
        * destruct (h_clone_spec h b vb S A) as (h1 & o1 & C1 & _). unfold h_resolve. rewrite A, C1, P. reflexivity.
        * destruct (h_clone_spec h b vb S A) as (h1 & o1 & C1 & _). unfold h_resolve. rewrite A, C1, P. reflexivity.
      + unfold h_resolve. rewrite A. reflexivity.
    - (* clone *)
      rewrite <- Rm. destruct (abs h a) as [u|] eqn:A.
      + destruct (h_clone_spec h a u S A) as (h' & o & E1 & E2 & E3 & E4). rewrite E1.
        eexists. split; [reflexivity|]. rewrite Rn. split.
        * exact (R_put_extends h h' _ o m n _ _ S HR E2 E3 E4).
        * exact (extends_Sep h h' _ o S E2).
      + rewrite (h_clone_none h a S A). reflexivity.
    - (* setters *)
      unfold h_set. rewrite <- Rm. destruct (abs h a) as [u|] eqn:A; [|reflexivity].
      destruct (setter w u v) as [u'|]; [|reflexivity].
      destruct (abs_some_live h a u A) as (o & Ha). destruct (commit_spec h a o u' S Ha) as (o' & I & A' & _).
      eexists. split; [reflexivity|]. split.
      + exact (R_put_inplace h _ a o o' m n _ S HR I A').
      + exact (inplace_Sep h _ a o o' S I).
    - (* u.SearchParams() *)
      rewrite <- Rm. destruct (abs h a) as [u|] eqn:A.
      + destruct (abs_some_live h a u A) as (o & Ha).
        destruct (h_searchparams_spec c h a o u S Ha A) as (h' & sl & o' & E & I & A' & _). rewrite E.
        eexists. split; [reflexivity|]. split.
        * exact (R_put_inplace h _ a o o' m n _ S HR I A').
        * exact (inplace_Sep h _ a o o' S I).
      + unfold h_searchparams. destruct (rd (hu h) a) as [o|] eqn:Ha; [|reflexivity].
        destruct (abs_live h a o S Ha) as (u & Hu). congruence.
    - (* u.SearchParams().m() *)
      unfold h_sp_via. rewrite <- Rm. destruct (abs h a) as [u|] eqn:A.
      + destruct (abs_some_live h a u A) as (o & Ha).
        destruct (h_searchparams_spec c h a o u S Ha A) as (h1 & sl & o1 & E & I & A1 & Eo1 & _ & s & Hs & Ow & Ps). rewrite E.
        pose proof (inplace_Sep h h1 a o o1 S I) as S1.
        destruct (h_sp_mutate_spec c (spmut_fun mu) h1 sl s a S1 Hs Ow) as (o1' & u1 & h' & o' & Ha1 & Au1 & _ & E2 & I2 & A2 & _).
        rewrite E2. rewrite A1 in Au1. injection Au1 as <-. rewrite Ps in A2.
        destruct (ensure_sp c u) as [u1 l]. cbn [fst snd] in *.
        eexists. split; [reflexivity|].
        assert (R1 : R h1 (put m a (Some u1), n)) by exact (R_put_inplace h _ a o o1 m n _ S HR I A1).
        split.
        * pose proof (R_put_inplace h1 h' a o1' o' _ n _ S1 R1 I2 A2) as [Q1 Q2]. split; [|exact Q2].
          intros b. rewrite Q1. cbn [fst]. unfold put. destruct (Nat.eqb b a); reflexivity.
        * exact (inplace_Sep h1 _ a o1' o' S1 I2).
      + unfold h_searchparams. destruct (rd (hu h) a) as [o|] eqn:Ha; [|reflexivity].
        destruct (abs_live h a o S Ha) as (u & Hu). congruence.
    - (* p.m() through a handle *)
      destruct (rd (hs h) sl) as [s|] eqn:Hs.
      + destruct (s_owner s) as [a|] eqn:Ow.
        * destruct (h_sp_mutate_spec c (spmut_fun mu) h sl s a S Hs Ow) as (o & u & h' & o' & Ha & A & Eu & E & I & A' & _).
          rewrite E. cbn [Heap.l1_step]. rewrite <- Rm, A. unfold ensure_sp. rewrite Eu.
          eexists. split; [reflexivity|]. split.
          -- exact (R_put_inplace h _ a o o' m n _ S HR I A').
          -- exact (inplace_Sep h _ a o o' S I).
        * destruct (h_sp_mutate_orphan c (spmut_fun mu) h sl s S Hs Ow) as (h' & E & S' & Eh & F). rewrite E.
          eexists. split; [reflexivity|]. split; [|exact S']. split; cbn [fst snd].
          -- intros b. rewrite F. apply Rm.
          -- rewrite Eh. exact Rn.
      + unfold h_sp_mutate. rewrite Hs. reflexivity.
    - (* a.SetSearchParams(b.SearchParams()): touch b, touch a, then a mutation of a's own object *)
      unfold h_adopt. rewrite <- Rm. destruct (abs h b) as [v|] eqn:Ab.
      + destruct (abs_some_live h b v Ab) as (ob & Hb).
        destruct (h_searchparams_spec c h b ob v S Hb Ab) as (h1 & slb & ob1 & E1 & I1 & A1 & Eob1 & _ & sb & Hsb & Owb & Psb).
        rewrite E1.
        pose proof (inplace_Sep h h1 b ob ob1 S I1) as S1.
        pose proof I1 as (_ & Hb1 & _).
        destruct (ensure_sp c v) as [v' l]. cbn [fst snd] in A1, Psb. cbv zeta.
        assert (R1 : R h1 (put m b (Some v'), n)) by exact (R_put_inplace h _ b ob ob1 m n _ S HR I1 A1).
        pose proof R1 as [Rm1 _]. cbn [fst] in Rm1. rewrite <- Rm1.
        destruct (abs h1 a) as [u|] eqn:Aa.
        * destruct (abs_some_live h1 a u Aa) as (oa & Ha).
          destruct (h_searchparams_spec c h1 a oa u S1 Ha Aa) as (h2 & sla & oa2 & E2 & I2 & A2 & Eoa2 & K2 & sa & Hsa & Owa & Psa).
          rewrite E2.
          pose proof (inplace_Sep h1 h2 a oa oa2 S1 I2) as S2.
          (* b's object is still there with b's list: it is a's own object (a = b) or another Url's *)
          assert (Hsb2 : rd (hs h2) slb = Some sb).
          { destruct (Nat.eq_dec b a) as [Eab|Nab].
            - subst b. rewrite Hb1 in Ha. injection Ha as <-. destruct (K2 slb Eob1) as [_ ->]. exact Hsb.
            - rewrite (inplace_other_sp h1 h2 a oa oa2 b ob1 slb S1 I2 Nab Hb1 Eob1). exact Hsb. }
          rewrite Hsb2.
          destruct (h_sp_mutate_spec c (fun _ => s_params sb) h2 sla sa a S2 Hsa Owa) as (oa3 & u3 & h' & oa' & Ha3 & Au3 & _ & E3 & I3 & A3 & _).
          rewrite E3. rewrite A2 in Au3. injection Au3 as <-. rewrite Psb in A3.
          eexists. split; [reflexivity|].
          assert (R2 : R h2 (put (put m b (Some v')) a (Some (fst (ensure_sp c u))), n))
            by exact (R_put_inplace h1 _ a oa oa2 _ n _ S1 R1 I2 A2).
          split.
          -- pose proof (R_put_inplace h2 h' a oa3 oa' _ n _ S2 R2 I3 A3) as [Q1 Q2]. split; [|exact Q2].
             intros x. rewrite Q1. cbn [fst]. unfold put. destruct (Nat.eqb x a); reflexivity.
          -- exact (inplace_Sep h2 _ a oa3 oa' S2 I3).
        * unfold h_searchparams. destruct (rd (hu h1) a) as [oa|] eqn:Ha; [|reflexivity].
          destruct (abs_live h1 a oa S1 Ha) as (u & Hu). congruence.
      + unfold h_searchparams. destruct (rd (hu h) b) as [ob|] eqn:Hb; [|reflexivity].
        destruct (abs_live h b ob S Hb) as (u & Hu). congruence.
  Qed.

  (* ----- Theorem 1: every operation preserves the invariant ----- *)
  Theorem Sep_preserved h op h' : Sep h -> h_step h op = Some h' -> Sep h'.
  Proof.
    intros S E. assert (HR : R h (abs h, next (hu h))) by (split; intros; reflexivity).
    pose proof (step_sim h _ op S HR) as X. rewrite E in X. destruct X as (st' & _ & _ & S'). exact S'.
  Qed.

  (* ----- Theorem 3: frame - no handle but the target of the operation changes its value ----- *)
  Lemma l1_step_frame m n o m' n' : l1_step (m, n) o = Some (m', n') ->
    forall b,
      match o with
      | L1Parse _ | L1Clone _ => b <> n
      | L1Resolve _ _ => b <> Datatypes.S n
      | L1Set a _ _ | L1Touch a | L1Sp a _ => b <> a
      | L1Adopt a a2 => b <> a /\ b <> a2
      | L1Nop | L1Stop => True
      end -> m' b = m b.
  Proof.
    intros E b Hb. destruct o as [s|b0 ref|a|a w v|a|a m0|a a2| |]; cbn [Heap.l1_step] in E.
    - destruct (Parse idna_raw c s); try discriminate; injection E as <- <-; try reflexivity.
      unfold put. apply Nat.eqb_neq in Hb. rewrite Hb. reflexivity.
    - destruct (m b0); [|discriminate].
      destruct (UrlParse idna_raw c u ref); try discriminate; injection E as <- <-; try reflexivity.
      unfold put. apply Nat.eqb_neq in Hb. rewrite Hb. reflexivity.
    - destruct (m a); [|discriminate]. injection E as <- <-. unfold put. apply Nat.eqb_neq in Hb. rewrite Hb. reflexivity.
    - destruct (m a); [|discriminate]. destruct (setter w u v); [|discriminate]. injection E as <- <-.
      unfold put. apply Nat.eqb_neq in Hb. rewrite Hb. reflexivity.
    - destruct (m a); [|discriminate]. injection E as <- <-. unfold put. apply Nat.eqb_neq in Hb. rewrite Hb. reflexivity.
    - destruct (m a); [|discriminate]. destruct (ensure_sp c u). injection E as <- <-.
      unfold put. apply Nat.eqb_neq in Hb. rewrite Hb. reflexivity.
    - destruct (m a2) as [v|]; [|discriminate]. destruct (ensure_sp c v) as [v' l]. cbv zeta in E.
      destruct (put m a2 (Some v') a); [|discriminate]. injection E as <- <-.
      destruct Hb as [H1 H2]. unfold put. apply Nat.eqb_neq in H1, H2. rewrite H1, H2. reflexivity.
    - injection E as <- <-. reflexivity.
    - discriminate.
  Qed.

  (* (HAdopt a b' has a second handle it may write: its ARGUMENT b', whose SearchParams object is created if
     it does not exist yet; hence the premise on arg_of, vacuous for every other operation.  What happens to
     the argument is adopt_spec below: exactly what HTouch b' does.) *)
  Theorem frame h op h' b : Sep h -> h_step h op = Some h' -> target h op <> Some b -> arg_of op <> Some b ->
    abs h' b = abs h b.
  Proof.
    intros S E T TA. assert (HR : R h (abs h, next (hu h))) by (split; intros; reflexivity).
    pose proof (step_sim h _ op S HR) as X. rewrite E in X. destruct X as ([m' n'] & L & [Rm _] & _).
    rewrite Rm. cbn [fst]. apply (l1_step_frame _ _ _ _ _ L).
    destruct op as [s|share b0 ref|a|a w v|a|a mu|sl mu|a a2]; cbn [l1_of target arg_of] in *;
      try (intros ->; apply T; reflexivity).
    - destruct (rd (hs h) sl) as [s|]; [|exact I]. destruct (s_owner s) as [a|]; [|exact I].
      intros ->. apply T; reflexivity.
    - split; intros ->; [apply T|apply TA]; reflexivity.
  Qed.

  (* ----- SetSearchParams (the repaired operation) ----- *)
  Lemma ensure_sp_fst_idem u : fst (ensure_sp c (fst (ensure_sp c u))) = fst (ensure_sp c u).
  Proof. unfold ensure_sp. destruct (u_sp u) as [l|] eqn:E; cbn [fst]; [rewrite E; reflexivity|reflexivity]. Qed.

  (* a.SetSearchParams(b.SearchParams()) on the object graph is the L1 operation: a holds (a copy of) b's
     list and the query it serializes to, b is as b.SearchParams() alone leaves it, every other Url is
     untouched, the heap stays separated.  Also for a = b. *)
  Theorem adopt_spec h a b h' : Sep h -> h_step h (HAdopt a b) = Some h' ->
    exists u v, abs h a = Some u /\ abs h b = Some v /\
      abs h' a = Some (sp_update c (fst (ensure_sp c u)) (snd (ensure_sp c v))) /\
      (b <> a -> abs h' b = Some (fst (ensure_sp c v))) /\
      (forall x, x <> a -> x <> b -> abs h' x = abs h x) /\ Sep h'.
  Proof.
    intros S E. assert (HR : R h (abs h, next (hu h))) by (split; intros; reflexivity).
    pose proof (step_sim h _ (HAdopt a b) S HR) as X. rewrite E in X. destruct X as ([m' n'] & L & [Rm _] & S').
    cbn [fst] in Rm. cbn [l1_of Heap.l1_step] in L.
    destruct (abs h b) as [v|] eqn:Ab; [|discriminate].
    pose proof (ensure_sp_fst_idem v) as Idem.
    destruct (ensure_sp c v) as [v' l] eqn:Ev. cbv zeta in L. cbn [fst snd] in *.
    destruct (put (abs h) b (Some v') a) as [u0|] eqn:Pa; [|discriminate]. injection L as <- <-.
    unfold put in Pa. destruct (Nat.eqb_spec a b) as [Eab|Nab].
    - subst b. injection Pa as <-. exists v, v. rewrite Ev. cbn [fst snd].
      split; [exact Ab|]. split; [reflexivity|]. split; [|split; [|split]].
      + rewrite Rm. unfold put. rewrite Nat.eqb_refl. rewrite Idem. reflexivity.
      + intros N; elim N; reflexivity.
      + intros x N1 _. rewrite Rm. unfold put. apply Nat.eqb_neq in N1. rewrite N1. reflexivity.
      + exact S'.
    - exists u0, v. rewrite Ev. cbn [fst snd]. split; [exact Pa|]. split; [reflexivity|]. split; [|split; [|split]].
      + rewrite Rm. unfold put. rewrite Nat.eqb_refl. reflexivity.
      + intros N. rewrite Rm. unfold put. apply Nat.eqb_neq in N. rewrite N, Nat.eqb_refl. reflexivity.
      + intros x N1 N2. rewrite Rm. unfold put. apply Nat.eqb_neq in N1, N2. rewrite N1, N2. reflexivity.
      + exact S'.
  Qed.

  (* the L1 step it refines IS the step of the two-slot histories (Obs.hstep, the value model the
     differential harness runs against the Go code) when the two handles are the two slots *)
  Definition slot_loc (slot : bool) : loc := if slot then 1%nat else 0%nat.
  Theorem l1_adopt_is_OSpAdopt m n slot st' :
    l1_step (m, n) (L1Adopt (slot_loc slot) (slot_loc (negb slot))) = Some st' ->
    fst (hstep idna_raw c (m 0%nat, m 1%nat) (OSpAdopt slot)) = (fst st' 0%nat, fst st' 1%nat) /\ snd st' = n.
  Proof.
    cbn [Heap.l1_step hstep]. unfold Obs.get, Obs.put.
    destruct slot; cbn [slot_loc negb fst snd].
    - destruct (m 0%nat) as [v|]; [|discriminate]. destruct (ensure_sp c v) as [v' l]. cbv zeta.
      unfold put at 1. cbn [Nat.eqb]. destruct (m 1%nat) as [u|]; [|discriminate].
      intros E. injection E as <-. cbn [fst snd]. unfold put. cbn [Nat.eqb]. split; reflexivity.
    - destruct (m 1%nat) as [v|]; [|discriminate]. destruct (ensure_sp c v) as [v' l]. cbv zeta.
      unfold put at 1. cbn [Nat.eqb]. destruct (m 0%nat) as [u|]; [|discriminate].
      intros E. injection E as <-. cbn [fst snd]. unfold put. cbn [Nat.eqb]. split; reflexivity.
  Qed.
End Main.

Section Named.
  Variable idna_raw : str -> str * bool.
  Variable c : cfg.
  Notation h_step := (h_step idna_raw c).
  Notation h_run := (h_run idna_raw c).
  Notation l1_step := (l1_step idna_raw c).
  Notation l1_run := (l1_run idna_raw c).
  Notation l1_run0 := (l1_run0 idna_raw c).
  Notation setter := (setter idna_raw c).
  Notation h_set := (h_set idna_raw c).
  Notation h_resolve := (h_resolve idna_raw c).
  Notation h_parse := (h_parse idna_raw c).

  (* ----- Theorem 2: a setter on handle a computes the L1 setter on the value of a ----- *)
  Theorem refines_L1 h a w v h' : Sep h -> h_set h a w v = Some h' ->
    exists u u', abs h a = Some u /\ setter w u v = Some u' /\ abs h' a = Some u' /\
                 Sep h' /\ forall b, b <> a -> abs h' b = abs h b.
  Proof.
    intros S E. unfold Heap.h_set in E. destruct (abs h a) as [u|] eqn:A; [|discriminate].
    destruct (setter w u v) as [u'|] eqn:W; [|discriminate]. injection E as <-.
    destruct (abs_some_live h a u A) as (o & Ha). destruct (commit_spec h a o u' S Ha) as (o' & I & A' & _).
    exists u, u'. split; [reflexivity|]. split; [exact W|]. split; [exact A'|].
    split; [exact (inplace_Sep h _ a o o' S I)|].
    intros b N. exact (inplace_frame h _ a o o' b S I N).
  Qed.

  (* a setter stops exactly when the handle is invalid or the L1 setter panics *)
  Theorem h_set_stops h a w v : h_set h a w v = None <->
    abs h a = None \/ exists u, abs h a = Some u /\ setter w u v = None.
  Proof.
    unfold Heap.h_set. destruct (abs h a) as [u|]; [|split; [left; reflexivity|reflexivity]].
    destruct (setter w u v) eqn:W; split.
    - discriminate.
    - intros [E|(x & E & W0)]; [discriminate|]. injection E as <-. congruence.
    - intros _. right. exists u. split; [reflexivity|exact W].
    - reflexivity.
  Qed.

  (* ----- Theorem 4: clones and resolution results are fresh, the source is unchanged ----- *)
  Theorem clone_fresh h a u : Sep h -> abs h a = Some u ->
    exists h' cl, h_clone h a = Some (h', cl) /\
      abs h cl = None /\                                (* the handle is new *)
      abs h' cl = Some (Clone u) /\                      (* it holds the L1 clone *)
      Sep h' /\                                          (* it shares nothing *)
      abs h' a = Some u /\                               (* the original is as it was *)
      forall b, b <> cl -> abs h' b = abs h b.           (* and so is every other Url *)
  Proof.
    intros S A. destruct (h_clone_spec h a u S A) as (h' & o & E1 & E2 & E3 & E4).
    exists h', (next (hu h)). pose proof (extends_fresh h h' _ o S E2) as Fr.
    split; [exact E1|]. split; [exact Fr|]. split; [exact E3|]. split; [exact (extends_Sep h h' _ o S E2)|]. split.
    - rewrite <- A. apply (extends_frame h h' _ o a S E2). intros ->. congruence.
    - intros b N. exact (extends_frame h h' _ o b S E2 N).
  Qed.

  Theorem resolve_fresh share h b ref vb : Sep h -> abs h b = Some vb ->
    match UrlParse idna_raw c vb ref with
    | PUrl u =>
        exists h' r, h_resolve share h b ref = LOk h' r /\
          abs h r = None /\ abs h' r = Some u /\ Sep h' /\
          abs h' b = Some vb /\                            (* the base is never modified *)
          forall x, x <> r -> abs h' x = abs h x
    | PErr e => h_resolve share h b ref = LErr h e
    | PNilNil => h_resolve share h b ref = LNil h
    | PPanic | PFuel => h_resolve share h b ref = LPanic
    end.
  Proof.
    intros S A. destruct (UrlParse idna_raw c vb ref) as [u| | | |] eqn:P.
    - destruct (h_resolve_spec idna_raw c share h b ref vb u S A P) as (h' & o & E1 & E2 & E3 & E4).
      exists h', (Datatypes.S (next (hu h))). pose proof (extends_fresh h h' _ o S E2) as Fr.
      split; [exact E1|]. split; [exact Fr|]. split; [exact E3|]. split; [exact (extends_Sep h h' _ o S E2)|]. split.
      + rewrite <- A. apply (extends_frame h h' _ o b S E2). intros ->. congruence.
      + intros x N. exact (extends_frame h h' _ o x S E2 N).
    - destruct (h_clone_spec h b vb S A) as (h1 & o1 & C1 & _). unfold Heap.h_resolve. rewrite A, C1, P. reflexivity.
    - destruct (h_clone_spec h b vb S A) as (h1 & o1 & C1 & _). unfold Heap.h_resolve. rewrite A, C1, P. reflexivity.
    - destruct (h_clone_spec h b vb S A) as (h1 & o1 & C1 & _). unfold Heap.h_resolve. rewrite A, C1, P. reflexivity.
    - destruct (h_clone_spec h b vb S A) as (h1 & o1 & C1 & _). unfold Heap.h_resolve. rewrite A, C1, P. reflexivity.
  Qed.

  Theorem parse_fresh h s u : Sep h -> Parse idna_raw c s = PUrl u ->
    exists h' r, h_parse h s = LOk h' r /\ abs h r = None /\ abs h' r = Some u /\ Sep h' /\
                 forall x, x <> r -> abs h' x = abs h x.
  Proof.
    intros S P. unfold Heap.h_parse. rewrite P.
    destruct (new_url_spec h u S) as (o & E & A & Er & En). destruct (new_url h u) as [h' r]. cbn [fst snd] in *.
    exists h', r. pose proof (extends_fresh h h' _ o S E) as Fr.
    split; [reflexivity|]. split; [exact Fr|]. split; [exact A|]. split; [exact (extends_Sep h h' _ o S E)|].
    intros x N. exact (extends_frame h h' _ o x S E N).
  Qed.

  (* ----- Theorem 6: operation sequences ----- *)
  Theorem run_sim ops : forall h st, Sep h -> R h st ->
    match h_run h ops with
    | Some h' => exists st', l1_run h st ops = Some st' /\ R h' st' /\ Sep h'
    | None => l1_run h st ops = None
    end.
  Proof.
    induction ops as [|o rest IH]; intros h st S HR; cbn [Heap.h_run Heap.l1_run].
    - exists st. split; [reflexivity|]. split; assumption.
    - pose proof (step_sim idna_raw c h st o S HR) as X. destruct (h_step h o) as [h1|].
      + destruct X as (st1 & L & R1 & S1). specialize (IH h1 st1 S1 R1).
        destruct (h_run h1 rest); rewrite L; exact IH.
      + reflexivity.
  Qed.

  Corollary run_Sep ops h h' : Sep h -> h_run h ops = Some h' -> Sep h'.
  Proof.
    intros S E. assert (HR : R h (abs h, next (hu h))) by (split; intros; reflexivity).
    pose proof (run_sim ops h _ S HR) as X. rewrite E in X. destruct X as (st' & _ & _ & S'). exact S'.
  Qed.

  (* a handle no operation of the sequence targets keeps its value *)
  Theorem run_frame b ops : forall h h', Sep h -> h_run h ops = Some h' ->
    (forall h1 o, In o ops -> target h1 o <> Some b /\ arg_of o <> Some b) -> abs h' b = abs h b.
  Proof.
    induction ops as [|o rest IH]; intros h h' S E T; cbn [Heap.h_run] in E.
    - injection E as <-. reflexivity.
    - destruct (h_step h o) as [h1|] eqn:E1; [|discriminate].
      rewrite (IH h1 h' (Sep_preserved idna_raw c h o h1 S E1) E (fun h2 o2 I => T h2 o2 (or_intror I))).
      destruct (T h o (or_introl eq_refl)) as [T1 T2].
      exact (frame idna_raw c h o h1 b S E1 T1 T2).
  Qed.

  (* without operations through old SearchParams handles the L1 run is independent of the heap *)
  Lemma l1_of_pure h o : no_via o = true -> l1_of h o = l1_of empty_heap o.
  Proof. destruct o; try reflexivity. discriminate. Qed.

  Theorem run_sim_pure ops : forall h st, Sep h -> R h st -> forallb no_via ops = true ->
    match h_run h ops with
    | Some h' => exists st', l1_run0 st ops = Some st' /\ R h' st' /\ Sep h'
    | None => l1_run0 st ops = None
    end.
  Proof.
    induction ops as [|o rest IH]; intros h st S HR NV; cbn [Heap.h_run Heap.l1_run0].
    - exists st. split; [reflexivity|]. split; assumption.
    - cbn [forallb] in NV. apply andb_true_iff in NV as [N1 N2].
      pose proof (step_sim idna_raw c h st o S HR) as X. rewrite <- (l1_of_pure h o N1).
      destruct (h_step h o) as [h1|].
      + destruct X as (st1 & L & R1 & S1). specialize (IH h1 st1 S1 R1 N2).
        destruct (h_run h1 rest); rewrite L; exact IH.
      + rewrite X. reflexivity.
  Qed.
End Named.

(* ---------- an L1 fact: BasicParser never touches the parameter list ---------- *)
Definition res_sp {A} (x : option (list (str * str))) (r : res A) : Prop :=
  match r with Ok u _ | Er u _ => u_sp u = x end.

Lemma handleError_sp c u t f : u_sp (fst (handleError c u t f)) = u_sp u.
Proof. unfold handleError. destruct (c_report c); reflexivity. Qed.

Lemma herr_sp {A} x c u t f (k : url -> res A) :
  u_sp u = x -> (forall u1, u_sp u1 = x -> res_sp x (k u1)) -> res_sp x (herr c u t f k).
Proof.
  intros Hu Hk. unfold herr. pose proof (handleError_sp c u t f) as H.
  destruct (handleError c u t f) as [u' [e|]]; cbn [fst] in H.
  - cbn. congruence.
  - apply Hk. congruence.
Qed.

Lemma parseIPv4Number_sp c u input : u_sp (fst (parseIPv4Number c u input)) = u_sp u.
Proof.
  unfold parseIPv4Number. destruct input; [|reflexivity].
  pose proof (handleError_sp c u IPv4EmptyPart true) as H. destruct (handleError c u IPv4EmptyPart true). exact H.
Qed.

Lemma endsInANumber_sp c u input : u_sp (fst (endsInANumber c u input)) = u_sp u.
Proof.
  unfold endsInANumber.
  match goal with |- context [last_opt ?p] => destruct (last_opt p) as [[|x l]|] end; try reflexivity.
  destruct (all_in isDigit (x :: l)); [reflexivity|].
  pose proof (parseIPv4Number_sp c u (x :: l)) as H. destruct (parseIPv4Number c u (x :: l)) as [u' [n v|r]]; exact H.
Qed.

Lemma ipv4_numbers_sp c parts : forall u acc x, u_sp u = x -> res_sp x (ipv4_numbers c u parts acc).
Proof.
  induction parts as [|p rest IH]; intros u acc x Hu; cbn [ipv4_numbers].
  - exact Hu.
  - pose proof (parseIPv4Number_sp c u p) as H. destruct (parseIPv4Number c u p) as [u1 [n ve|r]]; cbn [fst] in H.
    + destruct ve.
      * apply herr_sp; [congruence|]. intros u2 H2. apply IH. exact H2.
      * apply IH. congruence.
    + apply herr_sp; [congruence|]. intros u2 H2. apply IH. exact H2.
Qed.

Lemma ipv4_range_warn_sp c ns : forall u k x, u_sp u = x -> (forall u1, u_sp u1 = x -> res_sp x (k u1)) ->
  res_sp x (ipv4_range_warn c u ns k).
Proof.
  induction ns as [|n rest IH]; intros u k x Hu Hk; cbn [ipv4_range_warn].
  - apply Hk. exact Hu.
  - destruct (255 <? n).
    + apply herr_sp; [exact Hu|]. intros u1 H1. apply IH; assumption.
    + apply IH; assumption.
Qed.

Lemma parseIPv4_sp c u input x : u_sp u = x -> res_sp x (parseIPv4 c u input).
Proof.
  intros Hu. unfold parseIPv4.
  assert (AE : forall u1 parts, u_sp u1 = x ->
     res_sp x ((if (4 <? len parts)%Z then (fun k => herr c u1 IPv4TooManyParts true k) else (fun k => k u1))
       (fun u =>
         match ipv4_numbers c u parts [] with
         | Er u e => Er u e
         | Ok u numbers =>
             ipv4_range_warn c u numbers (fun u =>
               let init := drop_last numbers in
               if existsb (fun n => 255 <? n) init then herr c u IPv4OutOfRangePart true (fun u => Ok u [])
               else match last_opt numbers with
                    | None => Ok u []
                    | Some lastn =>
                        if 256 ^ (5 - N.of_nat (length numbers)) <=? lastn
                        then herr c u IPv4OutOfRangePart true (fun u => Ok u [])
                        else Ok u (IPv4String (lastn + ipv4_sum init 0))
                    end)
         end))).
  { intros u1 parts H1.
    assert (K : forall u2, u_sp u2 = x -> res_sp x
      match ipv4_numbers c u2 parts [] with
      | Er u e => Er u e
      | Ok u numbers =>
             ipv4_range_warn c u numbers (fun u =>
               let init := drop_last numbers in
               if existsb (fun n => 255 <? n) init then herr c u IPv4OutOfRangePart true (fun u => Ok u [])
               else match last_opt numbers with
                    | None => Ok u []
                    | Some lastn =>
                        if 256 ^ (5 - N.of_nat (length numbers)) <=? lastn
                        then herr c u IPv4OutOfRangePart true (fun u => Ok u [])
                        else Ok u (IPv4String (lastn + ipv4_sum init 0))
                    end)
      end).
    { intros u2 H2. pose proof (ipv4_numbers_sp c parts u2 [] x H2) as H.
      destruct (ipv4_numbers c u2 parts []) as [u3 ns|u3 e]; [|exact H].
      apply ipv4_range_warn_sp; [exact H|]. intros u4 H4. cbv zeta.
      destruct (existsb (fun n => 255 <? n) (drop_last ns)).
      - apply herr_sp; [exact H4|]. intros u5 H5; exact H5.
      - destruct (last_opt ns) as [lastn|]; [|exact H4].
        destruct (256 ^ (5 - N.of_nat (length ns)) <=? lastn); [|exact H4].
        apply herr_sp; [exact H4|]. intros u5 H5; exact H5. }
    destruct (4 <? len parts)%Z.
    - apply herr_sp; [exact H1|]. exact K.
    - apply K. exact H1. }
  cbv zeta. destruct (last_opt (split 46 input)) as [[|a l]|].
  - apply herr_sp; [exact Hu|]. intros u1 H1. apply AE. exact H1.
  - apply AE. exact Hu.
  - apply AE. exact Hu.
Qed.

Lemma parseIPv6_sp c u input x : u_sp u = x -> res_sp x (parseIPv6 c u input).
Proof.
  intros Hu. unfold parseIPv6. destruct (ipv6_parse (runes input)); [exact Hu|].
  apply herr_sp; [exact Hu|]. intros u1 H1; exact H1.
Qed.

Lemma opaque_loop_sp c input l : forall u out x, u_sp u = x -> res_sp x (opaque_loop c u input l out).
Proof.
  induction l as [|ch rest IH]; intros u out x Hu; cbn [opaque_loop].
  - exact Hu.
  - cbv zeta.
    assert (K1 : forall u1, u_sp u1 = x -> res_sp x
      ((if negb (isURLCodePoint ch) && negb (ch =? 37)
         then (fun k => herr c u1 InvalidURLUnit false k) else (fun k => k u1))
        (fun u =>
          (if (ch =? 37) && invalid_pct (ch :: rest)
           then (fun k => herr c u InvalidURLUnit false k) else (fun k => k u))
          (fun u => opaque_loop c u input rest (out ++ percentEncodeRune c ch (Some pes_C0)))))).
    { intros u1 H1.
      assert (K2 : forall u2, u_sp u2 = x -> res_sp x
        ((if (ch =? 37) && invalid_pct (ch :: rest)
           then (fun k => herr c u2 InvalidURLUnit false k) else (fun k => k u2))
          (fun u => opaque_loop c u input rest (out ++ percentEncodeRune c ch (Some pes_C0))))).
      { intros u2 H2. destruct ((ch =? 37) && invalid_pct (ch :: rest)).
        - apply herr_sp; [exact H2|]. intros u3 H3. apply IH. exact H3.
        - apply IH. exact H2. }
      destruct (negb (isURLCodePoint ch) && negb (ch =? 37)).
      - apply herr_sp; [exact H1|]. exact K2.
      - apply K2. exact H1. }
    destruct (isForbiddenHost ch).
    + destruct (c_lax c); [exact Hu|]. apply herr_sp; [exact Hu|]. exact K1.
    + apply K1. exact Hu.
Qed.

Lemma parseHost_sp idna_raw c u input ns x : u_sp u = x -> res_sp x (parseHost idna_raw c u input ns).
Proof.
  intros Hu. unfold parseHost. cbv zeta.
  destruct (apply_hostfun (c_pre c) input) as [|b rest] eqn:EI; [exact Hu|].
  assert (V6 : res_sp x ((if negb (has_suffix [93] (b :: rest)) then (fun k => herr c u IPv6Unclosed true k) else (fun k => k u))
        (fun u => parseIPv6 c u (drop_last (tl (b :: rest)))))).
  { destruct (negb (has_suffix [93] (b :: rest))).
    - apply herr_sp; [exact Hu|]. intros u1 H1. apply parseIPv6_sp. exact H1.
    - apply parseIPv6_sp. exact Hu. }
  assert (Rest : res_sp x
    (if ns then parseOpaqueHost c u (b :: rest)
      else
        let domain := DecodePercentEncoded c (b :: rest) in
        let k_valid (u : url) : res str :=
          match ToASCII idna_raw c domain with
          | None =>
              if c_lax c then Ok u domain
              else herr c u DomainToASCII true (fun u => Ok u [])
          | Some asciiDomain =>
              let forbidden := existsb isForbiddenDomain (runes asciiDomain) in
              let k_clean (u : url) : res str :=
                match endsInANumber c u asciiDomain with
                | (u, true) => parseIPv4 c u asciiDomain
                | (u, false) => Ok u (apply_hostfun (c_post c) asciiDomain)
                end in
              if forbidden then
                if c_lax c then Ok u (PercentEncodeString c asciiDomain pes_Host)
                else herr c u DomainInvalidCodePoint true k_clean
              else k_clean u
          end in
        if negb (valid_utf8 domain) then
          if c_lax c then Ok u (percentEncodeBytes (b :: rest) pes_Host)
          else herr c u DomainToASCII true k_valid
        else k_valid u)).
  { destruct ns; [apply opaque_loop_sp; exact Hu|]. cbv zeta.
    assert (KV : forall u1, u_sp u1 = x -> res_sp x
          match ToASCII idna_raw c (DecodePercentEncoded c (b :: rest)) with
          | None =>
              if c_lax c then Ok u1 (DecodePercentEncoded c (b :: rest))
              else herr c u1 DomainToASCII true (fun u => Ok u [])
          | Some asciiDomain =>
              if existsb isForbiddenDomain (runes asciiDomain) then
                if c_lax c then Ok u1 (PercentEncodeString c asciiDomain pes_Host)
                else herr c u1 DomainInvalidCodePoint true (fun u =>
                  match endsInANumber c u asciiDomain with
                  | (u, true) => parseIPv4 c u asciiDomain
                  | (u, false) => Ok u (apply_hostfun (c_post c) asciiDomain)
                  end)
              else match endsInANumber c u1 asciiDomain with
                  | (u, true) => parseIPv4 c u asciiDomain
                  | (u, false) => Ok u (apply_hostfun (c_post c) asciiDomain)
                  end
          end).
    { intros u1 H1. destruct (ToASCII idna_raw c (DecodePercentEncoded c (b :: rest))) as [ad|].
      - assert (KC : forall u2, u_sp u2 = x -> res_sp x
                  match endsInANumber c u2 ad with
                  | (u, true) => parseIPv4 c u ad
                  | (u, false) => Ok u (apply_hostfun (c_post c) ad)
                  end).
        { intros u2 H2. pose proof (endsInANumber_sp c u2 ad) as H. destruct (endsInANumber c u2 ad) as [u3 [|]]; cbn [fst] in H.
          - apply parseIPv4_sp. congruence.
          - cbn. congruence. }
        destruct (existsb isForbiddenDomain (runes ad)).
        + destruct (c_lax c); [exact H1|]. apply herr_sp; [exact H1|]. exact KC.
        + apply KC. exact H1.
      - destruct (c_lax c); [exact H1|]. apply herr_sp; [exact H1|]. intros u2 H2; exact H2. }
    destruct (negb (valid_utf8 (DecodePercentEncoded c (b :: rest)))).
    - destruct (c_lax c); [exact Hu|]. apply herr_sp; [exact Hu|]. exact KV.
    - apply KV. exact Hu. }
  destruct (N.eq_dec b 91) as [->|N].
  - exact V6.
  - destruct b as [|p]; [exact Rest|].
    do 7 (destruct p as [p|p|]; try exact Rest). 
    exact V6.
Qed.

Definition out_sp (x : option (list (str * str))) (o : outcome) : Prop :=
  match o with
  | Cont m => u_sp (m_url m) = x
  | RetUrl u | RetErr u _ | RetNilNil u => u_sp u = x
  | Panic => True
  end.

Lemma mherr_sp x c u t f k : u_sp u = x -> (forall u1, u_sp u1 = x -> out_sp x (k u1)) -> out_sp x (mherr c u t f k).
Proof.
  intros Hu Hk. unfold mherr. pose proof (handleError_sp c u t f) as H.
  destruct (handleError c u t f) as [u' [e|]]; cbn [fst] in H.
  - cbn. congruence.
  - apply Hk. congruence.
Qed.

Lemma cleanDefaultPort_sp c u : u_sp (cleanDefaultPort c u) = u_sp u.
Proof.
  unfold cleanDefaultPort. destruct (getSpecialScheme c (u_scheme u)); [|reflexivity].
  destruct (u_port u); [|reflexivity]. match goal with |- context [str_eqb ?a ?b] => destruct (str_eqb a b) end; reflexivity.
Qed.

Ltac leaf :=
  cbn [out_sp m_url mk u_sp set_input set_scheme set_username set_password set_host set_port set_path set_query
       set_fragment set_verrs addSegment copy_base_auth];
  rewrite ?cleanDefaultPort_sp;
  cbn [out_sp m_url mk u_sp set_input set_scheme set_username set_password set_host set_port set_path set_query
       set_fragment set_verrs addSegment copy_base_auth];
  try assumption; try exact I.

Ltac sp1 idna :=
  lazymatch goal with
  | |- out_sp _ (mherr _ _ _ _ _) => apply mherr_sp; [leaf | let u := fresh "u" in let H := fresh "Hu" in intros u H]
  | |- out_sp _ (if ?b then _ else _) => destruct b
  | |- out_sp _ ((if ?b then _ else _) _) => destruct b
  | |- out_sp ?x (match parseHost ?i ?c ?u ?b ?n with _ => _ end) =>
      let H := fresh "PH" in
      assert (H : res_sp x (parseHost i c u b n)) by (apply parseHost_sp; leaf);
      destruct (parseHost i c u b n); cbn [res_sp] in H
  | |- out_sp _ (match ?y with _ => _ end) => destruct y
  | |- out_sp _ (let '(_, _) := ?y in _) => destruct y
  | |- u_sp (if ?b then _ else _) = _ => destruct b
  | |- u_sp (match ?y with _ => _ end) = _ => destruct y
  | |- _ => progress leaf
  end.

Section M.
  Variable idna_raw : str -> str * bool.
  Variable c : cfg.
  Variable inp : list rune.
  Variable base : option url.
  Variable override : option state.

  Lemma step_sp m x : u_sp (m_url m) = x -> out_sp x (step idna_raw c inp base override m).
  Proof.
    intros Hu. destruct m as [st p e b a br pw u]. cbn [m_url] in Hu.
    unfold step. cbn [m_state m_ptr m_eof m_buf m_at m_br m_pw m_url]. cbv zeta.
    destruct st.
    all: repeat sp1 idna_raw.
  Qed.

  Definition result_sp (x : option (list (str * str))) (r : result) : Prop :=
    match r with RUrl u | RErr u _ | RNilNil u => u_sp u = x | RPanic | ROutOfFuel => True end.

  Lemma run_sp fuel : forall m x, u_sp (m_url m) = x -> result_sp x (run idna_raw c inp base override fuel m).
  Proof.
    induction fuel as [|f IH]; intros m x Hu; cbn [run]; [exact I|].
    pose proof (step_sp m x Hu) as H. destruct (step idna_raw c inp base override m) as [m'|u|u e|u|]; cbn [out_sp] in H; try exact H.
    destruct (m_eof m'); [exact H|]. apply IH. exact H.
  Qed.
End M.

Section B.
  Variable idna_raw : str -> str * bool.
  Variable c : cfg.

  Lemma BasicParser_sp s b u ov : result_sp (u_sp u) (BasicParser idna_raw c s b (Some u) ov).
  Proof.
    unfold BasicParser.
    destruct (remove_tabnl_sv (c_acceptInvalid c) (u_input (set_input u s))) as [i changed]. destruct changed.
    - pose proof (handleError_sp c (set_input u s) InvalidURLUnit false) as H.
      destruct (handleError c (set_input u s) InvalidURLUnit false) as [u' [e|]]; cbn [fst] in H.
      + exact H.
      + apply run_sp. exact H.
    - apply run_sp. reflexivity.
  Qed.

  Lemma after_BP_sp s b u ov u' : after (BasicParser idna_raw c s b (Some u) ov) = Some u' -> u_sp u' = u_sp u.
  Proof.
    intros E. pose proof (BasicParser_sp s b u ov) as H.
    destruct (BasicParser idna_raw c s b (Some u) ov); cbn [after result_sp] in *; try discriminate; congruence.
  Qed.

  (* a parse result has no parameter list *)
  Lemma BasicParser_fresh_sp s b ov : result_sp None (BasicParser idna_raw c s b None ov).
  Proof.
    unfold BasicParser. destruct (trim_c0space s) as [i changed].
    assert (K : forall u, u_sp u = None ->
      result_sp None (let '(i0, changed0) := remove_tabnl_sv (c_acceptInvalid c) (u_input u) in
        let k := fun u0 : url => run idna_raw c (decode (u_input u0)) (option_map clone b) ov
                   (fuel_of (length (decode (u_input u0)))) (mk match ov with Some s0 => s0 | None => SchemeStart end (-1) false [] false false false u0) in
        if changed0 then match handleError c u InvalidURLUnit false with
                         | (u', Some e) => RErr u' e | (u', None) => k (set_input u' i0) end
        else k u)).
    { intros u Hu. destruct (remove_tabnl_sv (c_acceptInvalid c) (u_input u)) as [i0 ch0]. destruct ch0.
      - pose proof (handleError_sp c u InvalidURLUnit false) as H.
        destruct (handleError c u InvalidURLUnit false) as [u' [e|]]; cbn [fst] in H.
        + cbn. congruence.
        + apply run_sp. cbn. congruence.
      - apply run_sp. exact Hu. }
    destruct changed.
    - pose proof (handleError_sp c (empty_url s) InvalidURLUnit false) as H.
      destruct (handleError c (empty_url s) InvalidURLUnit false) as [u' [e|]]; cbn [fst] in H.
      + exact H.
      + apply K. exact H.
    - apply K. reflexivity.
  Qed.

  (* a setter other than SetSearch leaves the parameter list exactly as it is *)
  Theorem setter_sp_frame w u v u' : w <> 7 -> setter idna_raw c w u v = Some u' -> u_sp u' = u_sp u.
  Proof.
    intros W7 E. unfold setter in E.
    assert (BPc : forall s b u0 ov, after (BasicParser idna_raw c s b (Some u0) ov) = Some u' -> u_sp u0 = u_sp u -> u_sp u' = u_sp u).
    { intros s b u0 ov H H0. rewrite (after_BP_sp s b u0 ov u' H). exact H0. }
    assert (SO : forall u0, u_sp u0 = u_sp u -> strip_opaque u0 = Some u' -> u_sp u' = u_sp u).
    { intros u0 H0 H. unfold strip_opaque in H. destruct (u_opaque u0); [|injection H as <-; exact H0].
      destruct (u_path u0); [discriminate|]. injection H as <-. exact H0. }
    assert (Hash : SetHash idna_raw c u v = Some u' -> u_sp u' = u_sp u).
    { unfold SetHash. destruct v; [|intros H; exact (BPc _ _ _ _ H eq_refl)]. cbv zeta.
      destruct (negb (is_some (u_query (set_fragment u None)))); [apply SO; reflexivity|]. intros H; injection H as <-. reflexivity. }
    destruct w as [|p]; [exact (BPc _ _ _ _ E eq_refl)|].
    destruct p as [[[|[]|]|[| |]|]|[[| |]|[| |]|]|]; try exact (Hash E).
    all: lazymatch type of E with
         | SetUsername _ _ _ = _ => unfold SetUsername in E; destruct (no_host_or_file u); injection E as <-; reflexivity
         | SetPassword _ _ _ = _ => unfold SetPassword in E; destruct (no_host_or_file u); injection E as <-; reflexivity
         | SetHost _ _ _ _ = _ => unfold SetHost in E; destruct (u_opaque u); [injection E as <-; reflexivity|exact (BPc _ _ _ _ E eq_refl)]
         | SetHostname _ _ _ _ = _ => unfold SetHostname in E; destruct (u_opaque u); [injection E as <-; reflexivity|exact (BPc _ _ _ _ E eq_refl)]
         | SetPort _ _ _ _ = _ => unfold SetPort in E; destruct (no_host_or_file u); [injection E as <-; reflexivity|];
                                  destruct v; [injection E as <-; reflexivity|exact (BPc _ _ _ _ E eq_refl)]
         | SetPathname _ _ _ _ = _ => unfold SetPathname in E; destruct (u_opaque u); [injection E as <-; reflexivity|exact (BPc _ _ _ _ E eq_refl)]
         | SetSearch _ _ _ _ = _ => elim W7; reflexivity
         | _ => idtac
         end.
  Qed.

  (* no setter discards the parameter list *)
  Theorem setter_keeps_sp w u v u' : setter idna_raw c w u v = Some u' -> u_sp u <> None -> u_sp u' <> None.
  Proof.
    intros E N. destruct (N.eq_dec w 7) as [->|W7]; [|rewrite (setter_sp_frame w u v u' W7 E); exact N].
    cbn [setter] in E. unfold SetSearch in E. destruct v.
    - cbv zeta in E. destruct (u_sp u) as [l|] eqn:Eu; [|elim N; reflexivity].
      cbn [u_sp set_query] in E. rewrite Eu in E.
      destruct (negb (is_some (u_fragment (set_sp (set_query u None) (Some []))))).
      + unfold strip_opaque in E. destruct (u_opaque (set_sp (set_query u None) (Some []))); [|injection E as <-; discriminate].
        destruct (u_path (set_sp (set_query u None) (Some []))); [discriminate|]. injection E as <-. discriminate.
      + injection E as <-. discriminate.
    - cbv zeta in E.
      match type of E with match after ?r with _ => _ end = _ => destruct (after r) as [u1|]; [|discriminate] end.
      destruct (u_query u1); [|discriminate]. injection E as <-. discriminate.
  Qed.

  (* parse and resolution results have no parameter list yet *)
  Lemma Parse_no_sp s u : Parse idna_raw c s = PUrl u -> u_sp u = None.
  Proof.
    unfold Parse. intros E. pose proof (BasicParser_fresh_sp s None None) as H.
    destruct (BasicParser idna_raw c s None None None); cbn [to_pres result_sp] in *; try discriminate. congruence.
  Qed.
  Lemma UrlParse_no_sp b ref u : UrlParse idna_raw c b ref = PUrl u -> u_sp u = None.
  Proof.
    unfold UrlParse. intros E. pose proof (BasicParser_fresh_sp ref (Some b) None) as H.
    destruct (BasicParser idna_raw c ref (Some b) None None); cbn [to_pres result_sp] in *; try discriminate. congruence.
  Qed.
End B.

Section Handles.
  Variable idna_raw : str -> str * bool.
  Variable c : cfg.
  Notation h_step := (h_step idna_raw c).
  Notation h_run := (h_run idna_raw c).
  Notation setter := (setter idna_raw c).

  Lemma h_clone_some h a r : Sep h -> h_clone h a = Some r -> exists u, abs h a = Some u.
  Proof.
    intros S E. destruct (abs h a) as [u|] eqn:A; [eauto|]. rewrite (h_clone_none h a S A) in E. discriminate.
  Qed.

  (* Url handles are never collected and u.searchParams never changes once it is set *)
  Theorem step_handles h op h' : Sep h -> h_step h op = Some h' ->
    (forall a, rd (hu h) a <> None -> rd (hu h') a <> None) /\
    (forall a sl, sp_of h a = Some sl -> sp_of h' a = Some sl).
  Proof.
    intros S E. destruct op as [s|share b ref|a|a w v|a|a mu|sl mu|a b]; cbn [Heap.h_step] in E.
    - unfold h_parse in E. destruct (Parse idna_raw c s) as [u| | | |]; try discriminate; try (injection E as <-; split; auto).
      destruct (new_url_spec h u S) as (o & X & _). destruct (new_url h u) as [h1 r]. cbn [fst snd] in X. injection E as <-.
      split; [intros a; exact (extends_live h h1 r o a S X)|intros a sl; exact (extends_sp_of h h1 r o a sl S X)].
    - destruct (abs h b) as [vb|] eqn:A; [|unfold h_resolve in E; rewrite A in E; discriminate].
      pose proof (resolve_fresh idna_raw c share h b ref vb S A) as X.
      destruct (UrlParse idna_raw c vb ref) as [u| | | |] eqn:P.
      + destruct (h_resolve_spec idna_raw c share h b ref vb u S A P) as (h1 & o & E1 & E2 & _). rewrite E1 in E. injection E as <-.
        split; [intros a; exact (extends_live h h1 _ o a S E2)|intros a sl; exact (extends_sp_of h h1 _ o a sl S E2)].
      + rewrite X in E. injection E as <-. split; auto.
      + rewrite X in E. injection E as <-. split; auto.
      + rewrite X in E. discriminate.
      + rewrite X in E. discriminate.
    - destruct (h_clone h a) as [[h1 cl]|] eqn:C; [|discriminate]. injection E as <-.
      destruct (h_clone_some h a _ S C) as (u & A). destruct (h_clone_spec h a u S A) as (h2 & o & E1 & E2 & _).
      rewrite C in E1. injection E1 as <- _.
      split; [intros x; exact (extends_live h h1 _ o x S E2)|intros x sl; exact (extends_sp_of h h1 _ o x sl S E2)].
    - unfold h_set in E. destruct (abs h a) as [u|] eqn:A; [|discriminate].
      destruct (setter w u v) as [u'|] eqn:W; [|discriminate]. injection E as <-.
      destruct (abs_inv h a u A) as (o & p & Ha & _ & Hsp). destruct (commit_spec h a o u' S Ha) as (o' & I & _ & K).
      split; [intros x; exact (inplace_live h _ a o o' x I)|].
      intros x sl. apply (inplace_sp_of h _ a o o' x sl I). intros N. apply K; [|exact N].
      apply (setter_keeps_sp idna_raw c w u v u' W). destruct (o_sp o) as [sl0|]; [|elim N; reflexivity].
      destruct Hsp as (s & _ & ->). discriminate.
    - destruct (h_searchparams c h a) as [[h1 sl]|] eqn:C; [|discriminate]. injection E as <-.
      unfold h_searchparams in C. destruct (rd (hu h) a) as [o|] eqn:Ha; [|discriminate].
      destruct (abs_live h a o S Ha) as (u & A).
      destruct (h_searchparams_spec c h a o u S Ha A) as (h2 & sl2 & o' & E1 & I & _ & Eo' & K & _).
      unfold h_searchparams in E1. rewrite Ha in E1. rewrite C in E1. injection E1 as <- <-.
      split; [intros x; exact (inplace_live h _ a o o' x I)|].
      intros x sl0. apply (inplace_sp_of h _ a o o' x sl0 I). intros N.
      destruct (o_sp o) as [sl1|] eqn:Eo; [|elim N; reflexivity]. destruct (K sl1 eq_refl) as [-> _]. exact Eo'.
    - unfold h_sp_via in E. destruct (h_searchparams c h a) as [[h1 sl]|] eqn:C; [|discriminate].
      pose proof C as C0. unfold h_searchparams in C0. destruct (rd (hu h) a) as [o|] eqn:Ha; [|discriminate]. clear C0.
      destruct (abs_live h a o S Ha) as (u & A).
      destruct (h_searchparams_spec c h a o u S Ha A) as (h2 & sl2 & o1 & E1 & I & _ & Eo1 & K & s & Hs & Ow & _).
      rewrite C in E1. injection E1 as <- <-.
      pose proof (inplace_Sep h h1 a o o1 S I) as S1.
      destruct (h_sp_mutate_spec c (spmut_fun mu) h1 sl s a S1 Hs Ow) as (o2 & u2 & h3 & o3 & Ha1 & _ & _ & E2 & I2 & _ & Eo3 & Eo2).
      rewrite E in E2. injection E2 as <-.
      split.
      + intros x L. exact (inplace_live h1 h' a o2 o3 x I2 (inplace_live h h1 a o o1 x I L)).
      + intros x sl0 L. apply (inplace_sp_of h1 h' a o2 o3 x sl0 I2); [intros _; congruence|].
        apply (inplace_sp_of h h1 a o o1 x sl0 I); [|exact L]. intros N.
        destruct (o_sp o) as [sl1|] eqn:Eo; [|elim N; reflexivity]. destruct (K sl1 eq_refl) as [-> _]. exact Eo1.
    - destruct (rd (hs h) sl) as [s|] eqn:Hs; [|unfold h_sp_mutate in E; rewrite Hs in E; discriminate].
      destruct (s_owner s) as [a|] eqn:Ow.
      + destruct (h_sp_mutate_spec c (spmut_fun mu) h sl s a S Hs Ow) as (o & u & h1 & o' & Ha & _ & _ & E1 & I & _ & Eo' & Eo).
        rewrite E in E1. injection E1 as <-.
        split; [intros x; exact (inplace_live h _ a o o' x I)|].
        intros x sl0. apply (inplace_sp_of h _ a o o' x sl0 I). intros _. congruence.
      + destruct (h_sp_mutate_orphan c (spmut_fun mu) h sl s S Hs Ow) as (h1 & E1 & _ & Eh & _).
        rewrite E in E1. injection E1 as <-. unfold sp_of. rewrite Eh. split; auto.
    - (* SetSearchParams: three in-place steps (touch b, touch a, mutate a's own object); no pointer is stored *)
      unfold h_adopt in E.
      destruct (h_searchparams c h b) as [[h1 slb]|] eqn:C1; [|discriminate].
      pose proof C1 as C0. unfold h_searchparams in C0. destruct (rd (hu h) b) as [ob|] eqn:Hb; [|discriminate]. clear C0.
      destruct (abs_live h b ob S Hb) as (v & Ab).
      destruct (h_searchparams_spec c h b ob v S Hb Ab) as (h1' & slb' & ob1 & E1 & I1 & _ & Eob1 & K1 & _).
      rewrite C1 in E1. injection E1 as <- <-.
      pose proof (inplace_Sep h h1 b ob ob1 S I1) as S1.
      destruct (h_searchparams c h1 a) as [[h2 sla]|] eqn:C2; [|discriminate].
      pose proof C2 as C0. unfold h_searchparams in C0. destruct (rd (hu h1) a) as [oa|] eqn:Ha; [|discriminate]. clear C0.
      destruct (abs_live h1 a oa S1 Ha) as (u & Aa).
      destruct (h_searchparams_spec c h1 a oa u S1 Ha Aa) as (h2' & sla' & oa2 & E2 & I2 & _ & Eoa2 & K2 & sa & Hsa & Owa & _).
      rewrite C2 in E2. injection E2 as <- <-.
      pose proof (inplace_Sep h1 h2 a oa oa2 S1 I2) as S2.
      destruct (rd (hs h2) slb) as [sb|]; [|discriminate].
      destruct (h_sp_mutate_spec c (fun _ => s_params sb) h2 sla sa a S2 Hsa Owa) as (oa3 & u3 & h3 & oa' & Ha3 & _ & _ & E3 & I3 & _ & Eo3 & Eo2).
      rewrite E in E3. injection E3 as <-.
      split.
      + intros x L. exact (inplace_live h2 h' a oa3 oa' x I3 (inplace_live h1 h2 a oa oa2 x I2 (inplace_live h h1 b ob ob1 x I1 L))).
      + intros x sl0 L. apply (inplace_sp_of h2 h' a oa3 oa' x sl0 I3); [intros _; congruence|].
        apply (inplace_sp_of h1 h2 a oa oa2 x sl0 I2).
        { intros N. destruct (o_sp oa) as [sl1|] eqn:Eo; [|elim N; reflexivity]. destruct (K2 sl1 eq_refl) as [-> _]. exact Eoa2. }
        apply (inplace_sp_of h h1 b ob ob1 x sl0 I1); [|exact L].
        intros N. destruct (o_sp ob) as [sl1|] eqn:Eo; [|elim N; reflexivity]. destruct (K1 sl1 eq_refl) as [-> _]. exact Eob1.
  Qed.

  (* ----- Theorem 5: a SearchParams handle obtained from u stays u's handle, whatever happens later ----- *)
  Theorem handle_stability ops : forall h h' a sl, Sep h -> h_run h ops = Some h' -> sp_of h a = Some sl ->
    sp_of h' a = Some sl /\ exists s, rd (hs h') sl = Some s /\ s_owner s = Some a.
  Proof.
    induction ops as [|o rest IH]; intros h h' a sl S E P; cbn [Heap.h_run] in E.
    - injection E as <-. split; [exact P|]. unfold sp_of in P. destruct (rd (hu h) a) as [oa|] eqn:Ha; [|discriminate].
      exact (sep_sp h S a oa sl Ha P).
    - destruct (h_step h o) as [h1|] eqn:E1; [|discriminate].
      apply (IH h1 h' a sl (Sep_preserved idna_raw c h o h1 S E1) E).
      exact (proj2 (step_handles h o h1 S E1) a sl P).
  Qed.

  (* so a mutation through the OLD handle still is u.SearchParams().f(): it updates u, u only, and
     agrees with the L1 operation on the value of u *)
  Theorem old_handle_writes_through ops h h' a sl f : Sep h -> sp_of h a = Some sl -> h_run h ops = Some h' ->
    exists u l h'', abs h' a = Some u /\ u_sp u = Some l /\
      h_sp_mutate c f h' sl = Some h'' /\
      abs h'' a = Some (sp_update c u (f l)) /\ Sep h'' /\ forall b, b <> a -> abs h'' b = abs h' b.
  Proof.
    intros S P E. pose proof (run_Sep idna_raw c ops h h' S E) as S'.
    destruct (handle_stability ops h h' a sl S E P) as (_ & s & Hs & Ow).
    destruct (h_sp_mutate_spec c f h' sl s a S' Hs Ow) as (o & u & h'' & o' & Ha & A & Eu & E2 & I & A' & _).
    exists u, (s_params s), h''. split; [exact A|]. split; [exact Eu|]. split; [exact E2|]. split; [exact A'|].
    split; [exact (inplace_Sep h' h'' a o o' S' I)|]. intros b N. exact (inplace_frame h' h'' a o o' b S' I N).
  Qed.
End Handles.

(* ---------- concrete heaps: the premises are satisfiable, and what the invariant excludes ---------- *)
Lemma Sep_empty : Sep empty_heap.
Proof. constructor; cbn; intros; try reflexivity; discriminate. Qed.

(* consequences of Sep as boolean checks that compute on a concrete heap *)
Definition sp_owner_ok (h : heap) (a : loc) : bool :=
  match rd (hu h) a with
  | Some o => match o_sp o with
              | Some sl => match rd (hs h) sl with
                           | Some s => match s_owner s with Some b => Nat.eqb b a | None => false end
                           | None => false
                           end
              | None => true
              end
  | None => true
  end.
Lemma Sep_sp_check h a : Sep h -> sp_owner_ok h a = true.
Proof.
  intros S. unfold sp_owner_ok. destruct (rd (hu h) a) as [o|] eqn:Ha; [|reflexivity].
  destruct (o_sp o) as [sl|] eqn:E; [|reflexivity].
  destruct (sep_sp h S a o sl Ha E) as (s & Hs & Ow). rewrite Hs, Ow. apply Nat.eqb_refl.
Qed.
Definition owner_back_ok (h : heap) (sl : loc) : bool :=
  match rd (hs h) sl with
  | Some s => match s_owner s with
              | Some a => match sp_of h a with Some sl' => Nat.eqb sl' sl | None => false end
              | None => true
              end
  | None => true
  end.
Lemma Sep_owner_check h sl : Sep h -> owner_back_ok h sl = true.
Proof.
  intros S. unfold owner_back_ok. destruct (rd (hs h) sl) as [s|] eqn:Hs; [|reflexivity].
  destruct (s_owner s) as [a|] eqn:Ow; [|reflexivity].
  destruct (sep_owner h S sl s a Hs Ow) as (o & Ho & E). unfold sp_of. rewrite Ho, E. apply Nat.eqb_refl.
Qed.
Definition path_shared (h : heap) (a b : loc) : bool :=
  match rd (hu h) a, rd (hu h) b with
  | Some oa, Some ob => Nat.eqb (o_path oa) (o_path ob)
  | _, _ => false
  end.
Lemma Sep_path_check h a b : Sep h -> a <> b -> path_shared h a b = false.
Proof.
  intros S N. unfold path_shared. destruct (rd (hu h) a) as [oa|] eqn:Ha; [|reflexivity].
  destruct (rd (hu h) b) as [ob|] eqn:Hb; [|reflexivity].
  apply Nat.eqb_neq. intros E. apply N. exact (sep_inj h S a b oa ob Ha Hb E).
Qed.

Definition idn (s : str) : str * bool := (s, false).
Notation run0 ops := (h_run idn default_cfg empty_heap ops).
Definition the (o : option heap) : heap := match o with Some h => h | None => empty_heap end.
Definition the1 (o : option (heap * loc)) : heap := match o with Some (h, _) => h | None => empty_heap end.
Definition thel (r : lres) : heap := match r with LOk h _ => h | _ => empty_heap end.
Definition q_of (h : heap) (a : loc) : option (option str) := option_map u_query (abs h a).
Definition sp_val (h : heap) (a : loc) : option (option (list (str * str))) := option_map u_sp (abs h a).
Definition path_val (h : heap) (a : loc) : option (list str) := option_map u_path (abs h a).

(* "http://h/p?a=1", "http://g/?z=9", "a:b #f" (opaque path "b " with a trailing space), "http://h/a/b" *)
Definition in_h : str := [104;116;116;112;58;47;47;104;47;112;63;97;61;49].
Definition in_g : str := [104;116;116;112;58;47;47;103;47;63;122;61;57].
Definition in_o : str := [97;58;98;32;35;102].
Definition in_ab : str := [104;116;116;112;58;47;47;104;47;97;47;98].

(* a non-trivial run: parse, resolve against it (both pointer-copy outcomes), clone, touch, append
   through the clone, SetSearch and SetHash on the original, a mutation through an old handle *)
Definition ops_ex : list hop :=
  [HParse in_h; HResolve true 0%nat [120;63;98]; HResolve false 0%nat [46;46;47;121]; HClone 0%nat; HTouch 0%nat;
   HSp 5%nat (MAppend [98] [50]); HSet 0%nat 7 [63;113;61;49]; HSet 0%nat 8 [102]; HSpVia 0%nat (MAppend [99] [51]);
   HSet 5%nat 6 [47;122]; HSp 0%nat MSort].
Definition h_ex : heap := the (run0 ops_ex).
Lemma h_ex_run : run0 ops_ex = Some h_ex.
Proof. vm_compute. reflexivity. Qed.
Example Sep_ex : Sep h_ex.
Proof. exact (run_Sep idn default_cfg ops_ex empty_heap h_ex Sep_empty h_ex_run). Qed.
(* handle 0 is http://h/p?c=3&q=1#f, 2 is http://h/x?b, 4 is http://h/y, the clone 5 is http://h/z?a=1&b=2;
   1 and 3 were the temporary clones of the base *)
Example abs_ex :
  map (fun a => option_map (fun u => (Href u false, u_sp u)) (abs h_ex a)) [0;1;2;3;4;5;6]%nat =
  [Some (Some [104;116;116;112;58;47;47;104;47;112;63;99;61;51;38;113;61;49;35;102], Some [([99],[51]); ([113],[49])]);
   None;
   Some (Some [104;116;116;112;58;47;47;104;47;120;63;98], None);
   None;
   Some (Some [104;116;116;112;58;47;47;104;47;121], None);
   Some (Some [104;116;116;112;58;47;47;104;47;122;63;97;61;49;38;98;61;50], Some [([97],[49]); ([98],[50])]);
   None].
Proof. vm_compute. reflexivity. Qed.

(* the L1 run of the same operations, on the finite map *)
Example l1_ex : exists st, l1_run idn default_cfg empty_heap (fun _ => None, 0%nat) ops_ex = Some st /\ R h_ex st.
Proof.
  assert (HR : R empty_heap (fun _ => None, 0%nat)) by (split; intros; reflexivity).
  pose proof (run_sim idn default_cfg ops_ex empty_heap _ Sep_empty HR) as X. rewrite h_ex_run in X.
  destruct X as (st & L & R' & _). exists st. split; assumption.
Qed.

(* a heap with one Url (0) whose SearchParams object (0) exists: premises of handle_stability *)
Definition ops_a : list hop := [HParse in_h; HTouch 0%nat].
Definition h_a : heap := the (run0 ops_a).
Lemma h_a_run : run0 ops_a = Some h_a.
Proof. vm_compute. reflexivity. Qed.
Lemma Sep_a : Sep h_a.
Proof. exact (run_Sep idn default_cfg _ empty_heap h_a Sep_empty h_a_run). Qed.
Example sp_of_a : sp_of h_a 0%nat = Some 0%nat.
Proof. vm_compute. reflexivity. Qed.

Definition app_b2 (l : list (str * str)) : list (str * str) := sp_append l [98] [50].

(* ----- Theorem 7: the buggy variants break the frame; Sep is what excludes them ----- *)

(* D9: the clone's SearchParams is owned by the original.  c := u.Clone(); c.SearchParams().Append("b","2")
   changes u and leaves c's query as it was. *)
Definition h_d9 : heap := the1 (h_clone_D9 h_a 0%nat).
Definition h_d9' : heap := the (h_sp_via default_cfg app_b2 h_d9 1%nat).
Theorem mutant_D9 :
  Sep h_a /\ h_clone_D9 h_a 0%nat = Some (h_d9, 1%nat) /\
  h_sp_via default_cfg app_b2 h_d9 1%nat = Some h_d9' /\            (* an operation on the clone 1 *)
  q_of h_d9 0%nat = Some (Some [97;61;49]) /\
  q_of h_d9' 0%nat = Some (Some [97;61;49;38;98;61;50]) /\          (* frame fails: the ORIGINAL 0 changed *)
  q_of h_d9' 1%nat = q_of h_d9 1%nat /\                             (* and the clone's query did not *)
  ~ Sep h_d9.
Proof.
  split; [exact Sep_a|]. split; [vm_compute; reflexivity|]. split; [vm_compute; reflexivity|].
  split; [vm_compute; reflexivity|]. split; [vm_compute; reflexivity|]. split; [vm_compute; reflexivity|].
  intros S. assert (E : sp_owner_ok h_d9 1%nat = false) by (vm_compute; reflexivity).
  rewrite (Sep_sp_check h_d9 1%nat S) in E. discriminate E.
Qed.

(* the clone copies the searchParams pointer: clone.SetSearch("") empties the ORIGINAL's parameter list *)
Definition h_ss : heap := the1 (h_clone_shared_sp h_a 0%nat).
Definition h_ss' : heap := the (h_set idn default_cfg h_ss 1%nat 7 []).
Theorem mutant_shared_sp :
  h_clone_shared_sp h_a 0%nat = Some (h_ss, 1%nat) /\
  h_set idn default_cfg h_ss 1%nat 7 [] = Some h_ss' /\
  sp_val h_ss 0%nat = Some (Some [([97], [49])]) /\
  sp_val h_ss' 0%nat = Some (Some []) /\                            (* frame fails *)
  ~ Sep h_ss.
Proof.
  split; [vm_compute; reflexivity|]. split; [vm_compute; reflexivity|].
  split; [vm_compute; reflexivity|]. split; [vm_compute; reflexivity|].
  intros S. assert (E : sp_owner_ok h_ss 1%nat = false) by (vm_compute; reflexivity).
  rewrite (Sep_sp_check h_ss 1%nat S) in E. discriminate E.
Qed.

(* the clone copies the path pointer.  Url 0 is "a:b #f" with the opaque path "b ": clone.SetHash("") calls
   path.stripTrailingSpacesIfOpaque, which writes the SHARED Path object in place *)
Definition h_o : heap := the (run0 [HParse in_o]).
Definition h_sh : heap := the1 (h_clone_shared_path h_o 0%nat).
Definition h_sh' : heap := the (h_set idn default_cfg h_sh 1%nat 8 []).
Theorem mutant_shared_path :
  Sep h_o /\ h_clone_shared_path h_o 0%nat = Some (h_sh, 1%nat) /\
  h_set idn default_cfg h_sh 1%nat 8 [] = Some h_sh' /\
  path_val h_sh 0%nat = Some [[98; 32]] /\
  path_val h_sh' 0%nat = Some [[98]] /\                             (* frame fails *)
  ~ Sep h_sh.
Proof.
  split; [apply (run_Sep idn default_cfg [HParse in_o] empty_heap h_o Sep_empty); vm_compute; reflexivity|].
  split; [vm_compute; reflexivity|]. split; [vm_compute; reflexivity|].
  split; [vm_compute; reflexivity|]. split; [vm_compute; reflexivity|].
  intros S. assert (E : path_shared h_sh 0%nat 1%nat = true) by (vm_compute; reflexivity).
  rewrite (Sep_path_check h_sh 0%nat 1%nat S) in E; discriminate.
Qed.

(* the same with a hierarchical path: clone.SetPathname("/z") rewrites the original's path *)
Definition h_h : heap := the (run0 [HParse in_h]).
Definition h_sq : heap := the1 (h_clone_shared_path h_h 0%nat).
Definition h_sq' : heap := the (h_set idn default_cfg h_sq 1%nat 6 [47;122]).
Theorem mutant_shared_path_2 :
  h_clone_shared_path h_h 0%nat = Some (h_sq, 1%nat) /\
  h_set idn default_cfg h_sq 1%nat 6 [47;122] = Some h_sq' /\
  path_val h_sq 0%nat = Some [[112]] /\ path_val h_sq' 0%nat = Some [[122]].
Proof. split; [|split; [|split]]; vm_compute; reflexivity. Qed.

(* D10: Clone calls u.SearchParams(): cloning WRITES the original (its parameter list comes into being) *)
Definition h_d10 : heap := the1 (h_clone_D10 default_cfg h_h 0%nat).
Theorem mutant_D10 :
  h_clone_D10 default_cfg h_h 0%nat = Some (h_d10, 1%nat) /\
  sp_val h_h 0%nat = Some None /\ sp_val h_d10 0%nat = Some (Some [([97], [49])]).
Proof. split; [|split]; vm_compute; reflexivity. Qed.
(* (the heap stays separated; the defect is a write to the source of a clone - a data race when the
   source is the shared base of concurrent resolutions - and it is excluded by clone_fresh: abs h' a = abs h a) *)

(* BasicParser without the entry clone of the base: resolving "c" against http://h/a/b shortens and
   extends the BASE's Path object *)
Definition h_b : heap := the (run0 [HParse in_ab]).
Definition h_nc : heap := thel (h_resolve_noclone idn default_cfg h_b 0%nat [99]).
Theorem mutant_resolve_noclone :
  h_resolve_noclone idn default_cfg h_b 0%nat [99] = LOk h_nc 1%nat /\
  path_val h_b 0%nat = Some [[97]; [98]] /\
  path_val h_nc 0%nat = Some [[97]; [99]] /\                        (* the base was modified *)
  ~ Sep h_nc.
Proof.
  split; [vm_compute; reflexivity|]. split; [vm_compute; reflexivity|]. split; [vm_compute; reflexivity|].
  intros S. assert (E : path_shared h_nc 0%nat 1%nat = true) by (vm_compute; reflexivity).
  rewrite (Sep_path_check h_nc 0%nat 1%nat S) in E; discriminate.
Qed.

(* ----- two PUBLIC methods leave the invariant (they are outside the verified subset of the API) ----- *)

(* p2 := u.SearchParams().Clone(): a detached copy that still names u as its owner.  p2.Append("b","2")
   rewrites u's query but not u's parameter list: Query and SearchParams disagree, a state L1 cannot express *)
Definition h_sc : heap := the1 (h_sp_clone h_a 0%nat).
Definition h_sc' : heap := the (h_sp_mutate default_cfg app_b2 h_sc 1%nat).
Theorem public_SearchParams_Clone_leaves_Sep :
  h_sp_clone h_a 0%nat = Some (h_sc, 1%nat) /\ ~ Sep h_sc /\
  h_sp_mutate default_cfg app_b2 h_sc 1%nat = Some h_sc' /\
  q_of h_sc' 0%nat = Some (Some [97;61;49;38;98;61;50]) /\ sp_val h_sc' 0%nat = Some (Some [([97], [49])]).
Proof.
  split; [vm_compute; reflexivity|]. split.
  - intros S. assert (E : owner_back_ok h_sc 1%nat = false) by (vm_compute; reflexivity).
    rewrite (Sep_owner_check h_sc 1%nat S) in E. discriminate E.
  - split; [|split]; vm_compute; reflexivity.
Qed.

(* v.SetSearchParams(u.SearchParams()) as it was before 44c5d62 (D26, see mutant_D26 below) does not set the
   owner: v.SearchParams().Append("b","2") then rewrites u's query (and the list both share), v's query is stale *)
Definition h_2 : heap := the (run0 [HParse in_h; HParse in_g; HTouch 0%nat]).
Definition h_sx : heap := the (h_set_searchparams default_cfg h_2 1%nat 0%nat).
Definition h_sx' : heap := the (h_sp_via default_cfg app_b2 h_sx 1%nat).
Theorem public_SetSearchParams_leaves_Sep :
  h_set_searchparams default_cfg h_2 1%nat 0%nat = Some h_sx /\ ~ Sep h_sx /\
  h_sp_via default_cfg app_b2 h_sx 1%nat = Some h_sx' /\
  q_of h_sx' 0%nat = Some (Some [97;61;49;38;98;61;50]) /\          (* an operation on 1 changed 0 *)
  q_of h_sx' 1%nat = Some (Some [122;61;57]).                       (* and not 1 *)
Proof.
  split; [vm_compute; reflexivity|]. split.
  - intros S. assert (E : sp_owner_ok h_sx 1%nat = false) by (vm_compute; reflexivity).
    rewrite (Sep_sp_check h_sx 1%nat S) in E. discriminate E.
  - split; [|split]; vm_compute; reflexivity.
Qed.

Ltac conj_vm := repeat (match goal with |- _ /\ _ => split end); vm_compute; reflexivity.
(* ----- D26: SetSearchParams as found stores the other Url's live object; as repaired it keeps separation ----- *)
(* "http://a/p?x=1" and "http://b/q?y=2" *)
Definition in_xa : str := [104;116;116;112;58;47;47;97;47;112;63;120;61;49].
Definition in_yb : str := [104;116;116;112;58;47;47;98;47;113;63;121;61;50].
Definition h_ab : heap := the (run0 [HParse in_xa; HParse in_yb]).
Lemma h_ab_run : run0 [HParse in_xa; HParse in_yb] = Some h_ab.
Proof. vm_compute. reflexivity. Qed.
Lemma Sep_ab : Sep h_ab.
Proof. exact (run_Sep idn default_cfg _ empty_heap h_ab Sep_empty h_ab_run). Qed.

(* the code as found: url0.SetSearchParams(url1.SearchParams()) *)
Definition h_d26 : heap := the (h_adopt_D26 default_cfg h_ab 0%nat 1%nat).
(* ... followed by url0.SearchParams().Append("b","2") *)
Definition h_d26' : heap := the (h_sp_via default_cfg app_b2 h_d26 0%nat).
Theorem mutant_D26 :
  Sep h_ab /\ h_adopt_D26 default_cfg h_ab 0%nat 1%nat = Some h_d26 /\
  ~ Sep h_d26 /\
  sp_of h_d26 0%nat = Some 0%nat /\ sp_of h_d26 1%nat = Some 0%nat /\      (* two Urls point to ONE SearchParams object *)
  option_map s_owner (rd (hs h_d26) 0%nat) = Some (Some 1%nat) /\          (* ... which is owned by Url 1 *)
  (* C12 fails on Url 0: its query is still "x=1" while its list is [("y","2")] *)
  q_of h_d26 0%nat = Some (Some [120;61;49]) /\
  sp_val h_d26 0%nat = Some (Some [([121], [50])]) /\
  (* C13 fails: an append through Url 0's handle rewrites Url 1's query (and list), not Url 0's *)
  h_sp_via default_cfg app_b2 h_d26 0%nat = Some h_d26' /\
  q_of h_d26 1%nat = Some (Some [121;61;50]) /\
  q_of h_d26' 1%nat = Some (Some [121;61;50;38;98;61;50]) /\
  sp_val h_d26' 1%nat = Some (Some [([121], [50]); ([98], [50])]) /\
  q_of h_d26' 0%nat = Some (Some [120;61;49]).
Proof.
  split; [exact Sep_ab|]. split; [vm_compute; reflexivity|]. split.
  - intros S. assert (E : sp_owner_ok h_d26 0%nat = false) by (vm_compute; reflexivity).
    rewrite (Sep_sp_check h_d26 0%nat S) in E. discriminate E.
  - conj_vm.
Qed.

(* the repaired operation on the same heap: Url 0 gets its own object holding a copy of the list and its query
   follows; the later append through Url 0 stays in Url 0 *)
Definition h_fix : heap := the (h_step idn default_cfg h_ab (HAdopt 0%nat 1%nat)).
Definition h_fix' : heap := the (h_sp_via default_cfg app_b2 h_fix 0%nat).
Theorem adopt_repaired_ex :
  h_step idn default_cfg h_ab (HAdopt 0%nat 1%nat) = Some h_fix /\ Sep h_fix /\
  sp_of h_fix 0%nat = Some 1%nat /\ sp_of h_fix 1%nat = Some 0%nat /\      (* two objects *)
  option_map s_owner (rd (hs h_fix) 1%nat) = Some (Some 0%nat) /\
  option_map s_owner (rd (hs h_fix) 0%nat) = Some (Some 1%nat) /\
  q_of h_fix 0%nat = Some (Some [121;61;50]) /\ sp_val h_fix 0%nat = Some (Some [([121], [50])]) /\
  q_of h_fix 1%nat = Some (Some [121;61;50]) /\ sp_val h_fix 1%nat = Some (Some [([121], [50])]) /\
  h_sp_via default_cfg app_b2 h_fix 0%nat = Some h_fix' /\
  q_of h_fix' 0%nat = Some (Some [121;61;50;38;98;61;50]) /\
  q_of h_fix' 1%nat = Some (Some [121;61;50]) /\ sp_val h_fix' 1%nat = Some (Some [([121], [50])]).
Proof.
  assert (E : h_step idn default_cfg h_ab (HAdopt 0%nat 1%nat) = Some h_fix) by (vm_compute; reflexivity).
  split; [exact E|]. split; [exact (Sep_preserved idn default_cfg h_ab _ h_fix Sep_ab E)|].
  conj_vm.
Qed.

(* a history with SetSearchParams in every position: onto a Url that already handed out its handle (0), from a Url
   without an object (1), onto itself (1 1), back (1 0), onto a clone (2), then a mutation through the OLD handle of 0 *)
Definition ops_ad : list hop :=
  [HParse in_xa; HParse in_yb; HTouch 0%nat; HSp 0%nat (MAppend [99] [51]); HAdopt 0%nat 1%nat; HAdopt 1%nat 1%nat;
   HSp 1%nat (MAppend [98] [50]); HAdopt 1%nat 0%nat; HClone 1%nat; HSp 1%nat (MDelete [121]); HAdopt 2%nat 1%nat;
   HSpVia 0%nat (MAppend [100] [52])].
Definition h_ad : heap := the (run0 ops_ad).
Lemma h_ad_run : run0 ops_ad = Some h_ad.
Proof. vm_compute. reflexivity. Qed.
Example Sep_ad : Sep h_ad.
Proof. exact (run_Sep idn default_cfg ops_ad empty_heap h_ad Sep_empty h_ad_run). Qed.
Example abs_ad :
  map (fun a => (q_of h_ad a, sp_val h_ad a, sp_of h_ad a)) [0;1;2]%nat =
  [(Some (Some [121;61;50;38;100;61;52]), Some (Some [([121],[50]); ([100],[52])]), Some 0%nat);
   (Some (Some []), Some (Some []), Some 1%nat);
   (Some (Some []), Some (Some []), Some 2%nat)].
Proof. vm_compute. reflexivity. Qed.
(* the handle Url 0 handed out before the two SetSearchParams calls is still its handle (handle_stability) *)
Example handle_ad : sp_of (the (run0 (firstn 3 ops_ad))) 0%nat = Some 0%nat /\ sp_of h_ad 0%nat = Some 0%nat.
Proof. split; vm_compute; reflexivity. Qed.
Example l1_ad : exists st, l1_run idn default_cfg empty_heap (fun _ => None, 0%nat) ops_ad = Some st /\ R h_ad st.
Proof.
  assert (HR : R empty_heap (fun _ => None, 0%nat)) by (split; intros; reflexivity).
  pose proof (run_sim idn default_cfg ops_ad empty_heap _ Sep_empty HR) as X. rewrite h_ad_run in X.
  destruct X as (st & L & R' & _). exists st. split; assumption.
Qed.

(* ---------- pairs as pointers: the value list in spobj is a sound abstraction ---------- *)
Lemma pget_upd s k v j : pget (upd s k (Some v)) j = if Nat.eqb j k then v else pget s j.
Proof. unfold pget. rewrite rd_upd. destruct (Nat.eqb j k); reflexivity. Qed.
Lemma pget_alloc s v j : pget (alloc s v) j = if Nat.eqb j (next s) then v else pget s j.
Proof. unfold pget. rewrite rd_alloc. destruct (Nat.eqb j (next s)); reflexivity. Qed.

Lemma pvals_ext s s' l : (forall k, In k l -> rd s' k = rd s k) -> pvals s' l = pvals s l.
Proof. intros H. unfold pvals. apply map_ext_in. intros k I. unfold pget. rewrite (H k I). reflexivity. Qed.

Lemma pwf_lt s l k : swf s -> pwf s l -> In k l -> (k < next s)%nat.
Proof.
  intros W [_ L] I. destruct (Nat.lt_ge_cases k (next s)) as [Lt|Ge]; [exact Lt|]. elim (L k I). exact (W k Ge).
Qed.

Lemma map_filter_comm {A B} (f : A -> B) (P : B -> bool) l : map f (filter (fun x => P (f x)) l) = filter P (map f l).
Proof. induction l as [|x l IH]; [reflexivity|]. cbn. destruct (P (f x)); cbn; rewrite IH; reflexivity. Qed.

Lemma insert_st_map {A B} (f : A -> B) (lt : B -> B -> bool) x l :
  map f (insert_st (fun a b => lt (f a) (f b)) x l) = insert_st lt (f x) (map f l).
Proof. induction l as [|y l IH]; [reflexivity|]. cbn. destruct (lt (f y) (f x)); cbn; [rewrite IH|]; reflexivity. Qed.
Lemma sort_stable_map {A B} (f : A -> B) (lt : B -> B -> bool) l :
  map f (sort_stable (fun a b => lt (f a) (f b)) l) = sort_stable lt (map f l).
Proof. unfold sort_stable. induction l as [|x l IH]; [reflexivity|]. cbn [fold_right map]. rewrite insert_st_map, IH. reflexivity. Qed.
Lemma insert_st_perm {A} (lt : A -> A -> bool) x l : Permutation (insert_st lt x l) (x :: l).
Proof.
  induction l as [|y l IH]; [reflexivity|]. cbn. destruct (lt y x); [|reflexivity].
  rewrite IH. apply perm_swap.
Qed.
Lemma sort_stable_perm {A} (lt : A -> A -> bool) l : Permutation (sort_stable lt l) l.
Proof. unfold sort_stable. induction l as [|x l IH]; [reflexivity|]. cbn [fold_right]. rewrite insert_st_perm. constructor. exact IH. Qed.

Lemma NoDup_snoc {A} (l : list A) x : NoDup l -> ~ In x l -> NoDup (l ++ [x]).
Proof.
  intros ND NI. rewrite <- (rev_involutive (l ++ [x])). apply NoDup_rev. rewrite rev_app_distr. cbn.
  constructor; [rewrite <- in_rev; exact NI|apply NoDup_rev; exact ND].
Qed.

(* what a pointer-level operation on the slice l may do to the store *)
Definition p_post (s : pstore) (l : plist) (s' : pstore) (l' : plist) : Prop :=
  swf s' /\ pwf s' l' /\ (next s <= next s')%nat /\
  (forall k, ~ In k l -> (k < next s)%nat -> rd s' k = rd s k) /\        (* only pairs of l are written *)
  (forall k, In k l' -> In k l \/ (next s <= k)%nat).                     (* l' holds pairs of l and fresh ones *)

Lemma p_new_spec vals : forall s, swf s ->
  pvals (fst (p_new s vals)) (snd (p_new s vals)) = vals /\
  swf (fst (p_new s vals)) /\ pwf (fst (p_new s vals)) (snd (p_new s vals)) /\
  (next s <= next (fst (p_new s vals)))%nat /\
  (forall k, (k < next s)%nat -> rd (fst (p_new s vals)) k = rd s k) /\
  (forall k, In k (snd (p_new s vals)) -> (next s <= k)%nat).
Proof.
  induction vals as [|v rest IH]; intros s W; cbn [p_new].
  - cbn [fst snd]. repeat split; try assumption; try constructor; try lia; intros k []. 
  - assert (W1 : swf (alloc s v)).
    { intros k L. rewrite rd_alloc, next_alloc in *. destruct (Nat.eqb_spec k (next s)); [lia|]. apply W. lia. }
    specialize (IH (alloc s v) W1). destruct (p_new (alloc s v) rest) as [s' l]. cbn [fst snd] in *.
    destruct IH as (V & W' & [ND LV] & Nx & Old & Fresh). rewrite next_alloc in *.
    assert (Hk : rd s' (next s) = Some v).
    { rewrite (Old (next s)) by lia. rewrite rd_alloc, Nat.eqb_refl. reflexivity. }
    split; [|split; [|split; [|split; [|split]]]].
    + unfold pvals in *. cbn [map]. rewrite V. unfold pget. rewrite Hk. reflexivity.
    + exact W'.
    + split.
      * constructor; [|exact ND]. intros I. specialize (Fresh _ I). lia.
      * intros k [<-|I]; [rewrite Hk; discriminate|exact (LV k I)].
    + lia.
    + intros k L. rewrite (Old k) by lia. rewrite rd_alloc. destruct (Nat.eqb_spec k (next s)); [lia|reflexivity].
    + intros k [<-|I]; [lia|]. specialize (Fresh _ I). lia.
Qed.

Lemma p_set_aux_spec n v l : forall s isSet, swf s -> pwf s l ->
  let r := p_set_aux s l n v isSet in
  (pvals (fst (fst r)) (snd (fst r)), snd r) = sp_set_aux (pvals s l) n v isSet /\
  next (fst (fst r)) = next s /\
  (forall k, ~ In k l -> rd (fst (fst r)) k = rd s k) /\
  (forall k, In k (snd (fst r)) -> In k l) /\
  NoDup (snd (fst r)) /\
  (forall k, rd s k <> None -> rd (fst (fst r)) k <> None) /\
  swf (fst (fst r)).
Proof.
  induction l as [|k l IH]; intros s isSet W [ND LV]; cbn [p_set_aux].
  - cbn. repeat split; try assumption; try constructor; auto.
  - inversion ND as [|? ? NI ND']; subst.
    assert (PW : pwf s l) by (split; [exact ND'|intros j I; apply LV; right; exact I]).
    cbn [pvals map sp_set_aux]. fold (pvals s l).
    destruct (pget s k) as [n' v'] eqn:G. cbn [fst].
    destruct (str_eqb n' n) eqn:En.
    + destruct isSet.
      * specialize (IH s true W PW). cbv zeta in IH. destruct IH as (E & Nx & Fr & Sub & NDr & Lv & W').
        split; [exact E|]. split; [exact Nx|]. split; [intros j NIj; apply Fr; intros I; apply NIj; right; exact I|].
        split; [intros j I; right; exact (Sub j I)|]. split; [exact NDr|]. split; assumption.
      * set (s1 := upd s k (Some (n', v))).
        assert (W1 : swf s1).
        { intros j L. unfold s1 in *. rewrite rd_upd, next_upd in *. destruct (Nat.eqb_spec j k) as [->|]; [|apply W; exact L].
          elim (LV k (or_introl eq_refl)). apply W. exact L. }
        assert (PW1 : pwf s1 l).
        { split; [exact ND'|]. intros j I. unfold s1. rewrite rd_upd. destruct (Nat.eqb_spec j k); [discriminate|apply LV; right; exact I]. }
        assert (V1 : pvals s1 l = pvals s l).
        { apply pvals_ext. intros j I. unfold s1. rewrite rd_upd. destruct (Nat.eqb_spec j k) as [->|]; [elim (NI I)|reflexivity]. }
        specialize (IH s1 true W1 PW1). cbv zeta in IH. rewrite V1 in IH.
        destruct (p_set_aux s1 l n v true) as [[s2 r] b]. cbn [fst snd] in *.
        destruct IH as (E & Nx & Fr & Sub & NDr & Lv & W').
        destruct (sp_set_aux (pvals s l) n v true) as [r0 b0]. injection E as E1 E2.
        assert (Gk : pget s2 k = (n', v)).
        { unfold pget. rewrite (Fr k NI). unfold s1. rewrite rd_upd, Nat.eqb_refl. reflexivity. }
        split; [cbn [pvals map]; fold (pvals s2 r); rewrite Gk, E1, E2; reflexivity|].
        split; [rewrite Nx; reflexivity|].
        split.
        { intros j NIj. rewrite Fr by (intros I; apply NIj; right; exact I). unfold s1. rewrite rd_upd.
          destruct (Nat.eqb_spec j k) as [->|]; [elim NIj; left; reflexivity|reflexivity]. }
        split; [intros j [<-|I]; [left; reflexivity|right; exact (Sub j I)]|].
        split; [constructor; [intros I; exact (NI (Sub k I))|exact NDr]|].
        split; [|exact W'].
        intros j Lj. apply Lv. unfold s1. rewrite rd_upd. destruct (Nat.eqb_spec j k); [discriminate|exact Lj].
    + specialize (IH s isSet W PW). cbv zeta in IH.
      destruct (p_set_aux s l n v isSet) as [[s2 r] b]. cbn [fst snd] in *.
      destruct IH as (E & Nx & Fr & Sub & NDr & Lv & W').
      destruct (sp_set_aux (pvals s l) n v isSet) as [r0 b0]. injection E as E1 E2.
      assert (Gk : pget s2 k = (n', v')).
      { unfold pget. rewrite (Fr k NI). fold (pget s k). exact G. }
      split; [cbn [pvals map]; fold (pvals s2 r); rewrite Gk, E1, E2; reflexivity|].
      split; [exact Nx|].
      split; [intros j NIj; apply Fr; intros I; apply NIj; right; exact I|].
      split; [intros j [<-|I]; [left; reflexivity|right; exact (Sub j I)]|].
      split; [constructor; [intros I; exact (NI (Sub k I))|exact NDr]|].
      split; assumption.
Qed.

Lemma p_iterate_spec g l : forall s, swf s -> pwf s l ->
  let s' := fold_left (fun s k => upd s k (Some (g (pget s k)))) l s in
  pvals s' l = map g (pvals s l) /\ next s' = next s /\
  (forall k, ~ In k l -> rd s' k = rd s k) /\ (forall k, rd s k <> None -> rd s' k <> None) /\ swf s'.
Proof.
  induction l as [|k l IH]; intros s W [ND LV]; cbn [fold_left].
  - cbn. repeat split; auto.
  - inversion ND as [|? ? NI ND']; subst.
    set (s1 := upd s k (Some (g (pget s k)))).
    assert (W1 : swf s1).
    { intros j L. unfold s1 in *. rewrite rd_upd, next_upd in *. destruct (Nat.eqb_spec j k) as [->|]; [|apply W; exact L].
      elim (LV k (or_introl eq_refl)). apply W. exact L. }
    assert (PW1 : pwf s1 l).
    { split; [exact ND'|]. intros j I. unfold s1. rewrite rd_upd. destruct (Nat.eqb_spec j k); [discriminate|apply LV; right; exact I]. }
    assert (V1 : pvals s1 l = pvals s l).
    { apply pvals_ext. intros j I. unfold s1. rewrite rd_upd. destruct (Nat.eqb_spec j k) as [->|]; [elim (NI I)|reflexivity]. }
    specialize (IH s1 W1 PW1). cbv zeta in IH. destruct IH as (E & Nx & Fr & Lv & W').
    split; [|split; [|split; [|split]]].
    + cbn [pvals map]. fold (pvals (fold_left (fun s0 k0 => upd s0 k0 (Some (g (pget s0 k0)))) l s1) l). fold (pvals s l).
      rewrite E, V1. f_equal. unfold pget at 1. rewrite (Fr k NI). unfold s1. rewrite rd_upd, Nat.eqb_refl. reflexivity.
    + rewrite Nx. reflexivity.
    + intros j NIj. rewrite Fr by (intros I; apply NIj; right; exact I). unfold s1. rewrite rd_upd.
      destruct (Nat.eqb_spec j k) as [->|]; [elim NIj; left; reflexivity|reflexivity].
    + intros j Lj. apply Lv. unfold s1. rewrite rd_upd. destruct (Nat.eqb_spec j k); [discriminate|exact Lj].
    + exact W'.
Qed.

(* every pointer-level mutator computes the value-level function of L1 on the list the slice stands
   for, and writes only pairs of that slice *)
Theorem p_mutate_refines m s l : swf s -> pwf s l ->
  pvals (fst (p_mutate m s l)) (snd (p_mutate m s l)) = spmut_fun m (pvals s l) /\
  p_post s l (fst (p_mutate m s l)) (snd (p_mutate m s l)).
Proof.
  intros W PW. pose proof PW as [ND LV]. destruct m as [n v|n|n v| | |g]; cbn [p_mutate spmut_fun].
  - (* Append *)
    unfold p_append, sp_append. cbn [fst snd].
    assert (Old : forall k, In k l -> rd (alloc s (n, v)) k = rd s k).
    { intros k I. rewrite rd_alloc. pose proof (pwf_lt s l k W PW I). destruct (Nat.eqb_spec k (next s)); [lia|reflexivity]. }
    split.
    + unfold pvals. rewrite map_app. cbn [map]. fold (pvals (alloc s (n, v)) l). rewrite (pvals_ext s _ l Old).
      rewrite pget_alloc, Nat.eqb_refl. reflexivity.
    + unfold p_post. rewrite next_alloc. split; [|split; [|split; [|split]]].
      * intros k L. rewrite rd_alloc, next_alloc in *. destruct (Nat.eqb_spec k (next s)); [lia|]. apply W. lia.
      * split.
        -- apply NoDup_snoc; [exact ND|]. intros I. pose proof (pwf_lt s l _ W PW I). lia.
        -- intros k I. apply in_app_or in I as [I|[<-|[]]]; [rewrite (Old k I); exact (LV k I)|].
           rewrite rd_alloc, Nat.eqb_refl. discriminate.
      * lia.
      * intros k _ L. rewrite rd_alloc. destruct (Nat.eqb_spec k (next s)); [lia|reflexivity].
      * intros k I. apply in_app_or in I as [I|[<-|[]]]; [left; exact I|right; lia].
  - (* Delete *)
    unfold p_delete, sp_delete. cbn [fst snd]. split.
    + unfold pvals. exact (map_filter_comm (pget s) (fun nv => negb (str_eqb (fst nv) n)) l).
    + unfold p_post. split; [exact W|]. split; [|split; [lia|split; [reflexivity|]]].
      * split; [apply NoDup_filter; exact ND|]. intros k I. apply filter_In in I as [I _]. exact (LV k I).
      * intros k I. apply filter_In in I as [I _]. left; exact I.
  - (* Set *)
    unfold p_set, sp_set. pose proof (p_set_aux_spec n v l s false W PW) as X. cbv zeta in X.
    destruct (p_set_aux s l n v false) as [[s1 r] b]. cbn [fst snd] in X.
    destruct X as (E & Nx & Fr & Sub & NDr & Lv & W1).
    destruct (sp_set_aux (pvals s l) n v false) as [r0 b0]. injection E as E1 E2. subst b0 r0.
    assert (PWr : pwf s1 r) by (split; [exact NDr|intros k I; apply Lv; apply LV; exact (Sub k I)]).
    destruct b; cbn [fst snd].
    + split; [reflexivity|]. unfold p_post. split; [exact W1|]. split; [exact PWr|]. split; [lia|].
      split; [intros k NI _; exact (Fr k NI)|intros k I; left; exact (Sub k I)].
    + assert (Old : forall k, In k r -> rd (alloc s1 (n, v)) k = rd s1 k).
      { intros k I. rewrite rd_alloc. pose proof (pwf_lt s1 r k W1 PWr I). destruct (Nat.eqb_spec k (next s1)); [lia|reflexivity]. }
      split.
      * unfold pvals. rewrite map_app. cbn [map]. fold (pvals (alloc s1 (n, v)) r). rewrite (pvals_ext s1 _ r Old).
        rewrite pget_alloc, Nat.eqb_refl. reflexivity.
      * unfold p_post. rewrite next_alloc. split; [|split; [|split; [|split]]].
        -- intros k L. rewrite rd_alloc, next_alloc in *. destruct (Nat.eqb_spec k (next s1)); [lia|]. apply W1. lia.
        -- split.
           ++ apply NoDup_snoc; [exact NDr|]. intros I. pose proof (pwf_lt s1 r _ W1 PWr I). lia.
           ++ intros k I. apply in_app_or in I as [I|[<-|[]]]; [rewrite (Old k I); exact (proj2 PWr k I)|].
              rewrite rd_alloc, Nat.eqb_refl. discriminate.
        -- lia.
        -- intros k NI L. rewrite rd_alloc. destruct (Nat.eqb_spec k (next s1)); [lia|]. exact (Fr k NI).
        -- intros k I. apply in_app_or in I as [I|[<-|[]]]; [left; exact (Sub k I)|right; lia].
  - (* Sort *)
    unfold p_sort, sp_sort. cbn [fst snd]. split.
    + unfold pvals. exact (sort_stable_map (pget s) (fun a b => str_ltb (fst a) (fst b)) l).
    + unfold p_post. split; [exact W|]. split; [|split; [lia|split; [reflexivity|]]].
      * split; [exact (Permutation_NoDup (Permutation_sym (sort_stable_perm _ l)) ND)|].
        intros k I. apply LV. exact (Permutation_in k (sort_stable_perm _ l) I).
      * intros k I. left. exact (Permutation_in k (sort_stable_perm _ l) I).
  - (* SortAbsolute *)
    unfold p_sort_abs, sp_sort_abs. cbn [fst snd]. split.
    + unfold pvals. exact (sort_stable_map (pget s) (fun a b => str_ltb (fst a ++ snd a) (fst b ++ snd b)) l).
    + unfold p_post. split; [exact W|]. split; [|split; [lia|split; [reflexivity|]]].
      * split; [exact (Permutation_NoDup (Permutation_sym (sort_stable_perm _ l)) ND)|].
        intros k I. apply LV. exact (Permutation_in k (sort_stable_perm _ l) I).
      * intros k I. left. exact (Permutation_in k (sort_stable_perm _ l) I).
  - (* Iterate *)
    unfold p_iterate. cbn [fst snd]. destruct (p_iterate_spec g l s W PW) as (E & Nx & Fr & Lv & W').
    split; [exact E|]. unfold p_post. split; [exact W'|]. split; [split; [exact ND|intros k I; apply Lv; exact (LV k I)]|].
    split; [lia|]. split; [intros k NI _; exact (Fr k NI)|intros k I; left; exact I].
Qed.

(* frame: another slice that shares no pair with l keeps its value, stays well-formed and shares
   no pair with the new slice *)
Theorem p_post_frame s l s' l' l2 : swf s -> pwf s l2 -> pdisjoint l l2 -> p_post s l s' l' ->
  pvals s' l2 = pvals s l2 /\ pwf s' l2 /\ pdisjoint l' l2.
Proof.
  intros W PW2 D (W' & PW' & Nx & Fr & Sub).
  assert (Old : forall k, In k l2 -> rd s' k = rd s k).
  { intros k I. apply Fr; [intros I1; exact (D k I1 I)|exact (pwf_lt s l2 k W PW2 I)]. }
  split; [exact (pvals_ext s s' l2 Old)|]. split.
  - split; [exact (proj1 PW2)|]. intros k I. rewrite (Old k I). exact (proj2 PW2 k I).
  - intros k I I2. destruct (Sub k I) as [I1|L]; [exact (D k I1 I2)|].
    pose proof (pwf_lt s l2 k W PW2 I2). lia.
Qed.

Corollary p_mutate_frame m s l l2 : swf s -> pwf s l -> pwf s l2 -> pdisjoint l l2 ->
  pvals (fst (p_mutate m s l)) l2 = pvals s l2 /\ pwf (fst (p_mutate m s l)) l2 /\
  pdisjoint (snd (p_mutate m s l)) l2.
Proof.
  intros W PW PW2 D. destruct (p_mutate_refines m s l W PW) as (_ & P).
  exact (p_post_frame s l _ _ l2 W PW2 D P).
Qed.

(* SearchParams.Clone (deep) and init: the new slice has the same values and shares no pair with ANY
   well-formed slice of the old store *)
Theorem p_clone_spec s l l2 : swf s -> pwf s l2 ->
  pvals (fst (p_clone s l)) (snd (p_clone s l)) = pvals s l /\
  swf (fst (p_clone s l)) /\ pwf (fst (p_clone s l)) (snd (p_clone s l)) /\
  pvals (fst (p_clone s l)) l2 = pvals s l2 /\ pwf (fst (p_clone s l)) l2 /\
  pdisjoint (snd (p_clone s l)) l2.
Proof.
  intros W PW2. unfold p_clone. destruct (p_new_spec (pvals s l) s W) as (V & W' & PW' & Nx & Old & Fresh).
  assert (Old2 : forall k, In k l2 -> rd (fst (p_new s (pvals s l))) k = rd s k).
  { intros k I. apply Old. exact (pwf_lt s l2 k W PW2 I). }
  split; [exact V|]. split; [exact W'|]. split; [exact PW'|]. split; [exact (pvals_ext s _ l2 Old2)|]. split.
  - split; [exact (proj1 PW2)|]. intros k I. rewrite (Old2 k I). exact (proj2 PW2 k I).
  - intros k I I2. pose proof (Fresh k I). pose proof (pwf_lt s l2 k W PW2 I2). lia.
Qed.

(* the seeded defect: Clone copies the slice of pointers.  The original holds [("a","1")]; Set("a","2") on
   the shallow clone changes the ORIGINAL's list; on the deep clone it does not. *)
Definition ps0 : pstore := fst (p_new (empty_store _) [([97], [49])]).
Definition pl0 : plist := snd (p_new (empty_store _) [([97], [49])]).
Theorem mutant_shallow_pair_copy :
  let '(s1, cl) := p_clone_shallow ps0 pl0 in
  let '(s2, cl') := p_mutate (MSet [97] [50]) s1 cl in
  pvals s1 pl0 = [([97], [49])] /\ pvals s2 pl0 = [([97], [50])] /\ ~ pdisjoint cl pl0.
Proof.
  cbn. split; [reflexivity|]. split; [reflexivity|]. intros D. exact (D 0%nat (or_introl eq_refl) (or_introl eq_refl)).
Qed.
Example deep_pair_copy :
  let '(s1, cl) := p_clone ps0 pl0 in
  let '(s2, cl') := p_mutate (MSet [97] [50]) s1 cl in
  pvals s1 pl0 = [([97], [49])] /\ pvals s2 pl0 = [([97], [49])] /\ pvals s2 cl' = [([97], [50])].
Proof. cbn. repeat split. Qed.
Example pwf_ex : swf ps0 /\ pwf ps0 pl0.
Proof.
  destruct (p_new_spec [([97], [49])] (empty_store _)) as (_ & W & PW & _); [intros k _; reflexivity|]. split; assumption.
Qed.

(* premises of the per-operation theorems on the concrete heap h_a (one Url with its SearchParams) *)
Example abs_a : option_map (fun u => Href u false) (abs h_a 0%nat) =
                Some (Some [104;116;116;112;58;47;47;104;47;112;63;97;61;49]).
Proof. vm_compute. reflexivity. Qed.
Example set_a : option_map (fun h => option_map (fun u => Href u false) (abs h 0%nat)) (h_set idn default_cfg h_a 0%nat 8 [102]) =
                Some (Some (Some [104;116;116;112;58;47;47;104;47;112;63;97;61;49;35;102])).
Proof. vm_compute. reflexivity. Qed.
Example resolve_a : UrlParse idn default_cfg (match abs h_a 0%nat with Some u => u | None => empty_url [] end) [120] <> PPanic.
Proof. vm_compute. discriminate. Qed.

(* ---------- what the model leaves out (w.r.t. the Go code) ----------
   1. Strings behind `host, port, query, fragment *string` are values: no write goes through a shared
      *string (parser.go:670 writes a cell allocated by the same call; checked by reading the code, not
      proved).  Go strings are immutable; `unsafe` is outside the model.
   2. An operation = read the L1 value through the pointers, run the L1 function, write the three
      objects of the handle back (commit).  Go writes a subset of these fields and in many small steps;
      the model has no intermediate states, so it says nothing about data races or about the state left
      behind by a panic (h_set returns None there; L1 calls the slot dead).  Writing back an unchanged
      field is invisible sequentially.  In particular commit rewrites the parameter list of the
      SearchParams object for every setter; by setter_sp_frame the list written is the one read unless
      the setter is SetSearch.
   3. The parser: the result is built in a fresh Url + Path; the base is cloned first (as the code does);
      `url.path = base.path` is the boolean `share` of h_resolve (the theorems hold for both values); the
      temporaries (clone, its SearchParams, the unused Path) are collected when the call returns - their
      cells become None - instead of staying in the heap as unreachable garbage.  On an error return the
      heap is the one before the call.  ParseRef(raw, ref) is h_parse followed by h_resolve.
   4. params []*NameValuePair is a value list in spobj; Section "pairs as pointers" proves this sound
      (p_mutate_refines, p_mutate_frame, p_clone_spec) for slices that share no pair, but the pair store
      is not part of `heap`.  Iterate(f) is map-then-update with a pure f; a callback that keeps the
      *NameValuePair it is given and writes it later is outside the model.  Slice capacity / backing-array
      reuse (`params[:0]`, `append`) is not modelled: `params` is never handed out.
   5. One parser (`c`) for all handles; the `parser *parser` field is not an object.
   6. The typed heap (one store per Go type) builds in that a *path is never a *Url.
   7. SearchParams.Clone is public and leaves Sep (public_SearchParams_Clone_leaves_Sep): the theorems cover
      the API without it.  Url.SetSearchParams left Sep too until 44c5d62 (D26: mutant_D26,
      public_SetSearchParams_leaves_Sep); as repaired it is HAdopt and is covered - for an argument that is
      some Url's u.SearchParams() (or that Url's own); a free-standing *SearchParams (NewSearchParams-style,
      or the detached copy of SearchParams.Clone, or nil) as argument is not a `hop`.
      NewUrl() (an empty Url for BasicParser) is not modelled.
   8. Getters do not appear: they are functions of `abs h a` (Model/Url.v), and u.SearchParams() - the one
      "getter" that writes - is h_searchparams. *)

(* ---------- assumptions ---------- *)
Print Assumptions inplace_Sep.
Print Assumptions inplace_frame.
Print Assumptions extends_Sep.
Print Assumptions extends_frame.
Print Assumptions step_sim.
Print Assumptions Sep_preserved.
Print Assumptions frame.
Print Assumptions refines_L1.
Print Assumptions h_set_stops.
Print Assumptions clone_fresh.
Print Assumptions resolve_fresh.
Print Assumptions parse_fresh.
Print Assumptions run_sim.
Print Assumptions run_sim_pure.
Print Assumptions run_Sep.
Print Assumptions run_frame.
Print Assumptions setter_sp_frame.
Print Assumptions setter_keeps_sp.
Print Assumptions Parse_no_sp.
Print Assumptions UrlParse_no_sp.
Print Assumptions step_handles.
Print Assumptions handle_stability.
Print Assumptions old_handle_writes_through.
Print Assumptions Sep_ex.
Print Assumptions abs_ex.
Print Assumptions l1_ex.
Print Assumptions mutant_D9.
Print Assumptions mutant_shared_sp.
Print Assumptions mutant_shared_path.
Print Assumptions mutant_shared_path_2.
Print Assumptions mutant_D10.
Print Assumptions mutant_resolve_noclone.
Print Assumptions public_SearchParams_Clone_leaves_Sep.
Print Assumptions public_SetSearchParams_leaves_Sep.
Print Assumptions adopt_spec.
Print Assumptions l1_adopt_is_OSpAdopt.
Print Assumptions mutant_D26.
Print Assumptions adopt_repaired_ex.
Print Assumptions Sep_ad.
Print Assumptions abs_ad.
Print Assumptions handle_ad.
Print Assumptions l1_ad.
Print Assumptions p_mutate_refines.
Print Assumptions p_mutate_frame.
Print Assumptions p_clone_spec.
Print Assumptions mutant_shallow_pair_copy.
Print Assumptions deep_pair_copy.
Print Assumptions abs_a.
Print Assumptions set_a.
