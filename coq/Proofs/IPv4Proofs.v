(* Agreement of the model's IPv4 host handling (Model/Host.v, mirroring url/hostparser.go)
   with the transcription of the WHATWG URL Standard (Spec/IPv4.v). *)
From Verif Require Import Lib.Base Lib.Utf8 Lib.GoStr Model.Cfg Gen.Tables Model.Sets Model.Percent Model.Url Model.Host.
From Verif Require Spec.PercentSets Spec.IPv4.
From Coq Require Import Lia ZifyBool ZifyN ZifyNat.

Module S := Verif.Spec.IPv4.
Module PS := Verif.Spec.PercentSets.

Ltac Zify.zify_post_hook ::= Z.div_mod_to_equations.

Local Arguments N.mul : simpl never.
Local Arguments N.add : simpl never.
Local Arguments N.sub : simpl never.
Local Arguments N.pow : simpl never.
Local Arguments N.div : simpl never.
Local Arguments N.modulo : simpl never.
Local Arguments N.ltb : simpl never.
Local Arguments N.leb : simpl never.
Local Arguments N.eqb : simpl never.

(* ------------------------------------------------------------------ *)
(* Character classes: the generated tables against the standard's ranges *)

Lemma isDigit_spec : forall c, isDigit c = PS.ascii_digit c.
Proof.
  intro c. unfold isDigit, bs_test, mem, bs_ASCIIDigit, PS.ascii_digit.
  cbn [existsb]. lia.
Qed.

Lemma isHexDigit_spec : forall c, isHexDigit c = PS.ascii_hex_digit c.
Proof.
  intro c. unfold isHexDigit, bs_test, mem, bs_ASCIIHexDigit, PS.ascii_hex_digit, PS.ascii_upper_hex, PS.ascii_digit.
  cbn [existsb]. lia.
Qed.

Lemma hex_val_digit_value : forall c, PS.ascii_hex_digit c = true -> hex_val c = S.digit_value c.
Proof.
  intros c H. unfold hex_val, S.digit_value, is_digit.
  unfold PS.ascii_hex_digit, PS.ascii_upper_hex, PS.ascii_digit in *.
  destruct ((48 <=? c) && (c <=? 57)) eqn:E1; [reflexivity|].
  destruct ((65 <=? c) && (c <=? 70)) eqn:E2; [reflexivity|].
  destruct ((97 <=? c) && (c <=? 102)) eqn:E3; [reflexivity|].
  discriminate H.
Qed.

Lemma all_in_forallb : forall f s, all_in f s = forallb f s.
Proof. intros f s. induction s as [|x s IH]; [reflexivity|]. cbn [all_in forallb]. rewrite IH. reflexivity. Qed.

Lemma forallb_ext' : forall (f g : N -> bool) l, (forall x, f x = g x) -> forallb f l = forallb g l.
Proof. intros f g l H. induction l as [|x l IH]; [reflexivity|]. cbn [forallb]. rewrite H, IH. reflexivity. Qed.

(* ------------------------------------------------------------------ *)
(* strings.Split on '.' is the standard's "strictly split" *)

Lemma split_aux_spec : forall s cur, split_aux 46 s cur = S.s_split_aux s cur.
Proof.
  induction s as [|x s IH]; intro cur; [reflexivity|].
  cbn [split_aux S.s_split_aux]. rewrite !IH. reflexivity.
Qed.

Lemma split_spec : forall s, split 46 s = S.strictly_split_dot s.
Proof. intro s. apply split_aux_spec. Qed.

Lemma s_split_aux_nonnil : forall s cur, S.s_split_aux s cur <> [].
Proof.
  induction s as [|x s IH]; intro cur; cbn [S.s_split_aux]; [discriminate|].
  destruct (x =? 46); [discriminate|apply IH].
Qed.

(* ------------------------------------------------------------------ *)
(* The number parsers, with the pattern matches on byte literals turned into tests *)

Definition s_finish (R : N) (rest : list N) : option N :=
  match rest with
  | [] => Some 0
  | _ => if forallb (S.radix_digit R) rest then Some (S.to_number R rest) else None
  end.

Ltac bits p := destruct p as [p|p|]; try reflexivity.

Lemma spec_number_unfold : forall input,
  S.ipv4_number input =
  match input with
  | [] => None
  | x :: t =>
      if x =? 48 then
        match t with
        | [] => s_finish 10 input
        | y :: r => if (y =? 120) || (y =? 88) then s_finish 16 r else s_finish 8 t
        end
      else s_finish 10 input
  end.
Proof.
  intro input. destruct input as [|x t]; [reflexivity|].
  destruct (N.eqb_spec x 48) as [Ex|Ex].
  - subst x. destruct t as [|y r]; [reflexivity|].
    destruct (N.eqb_spec y 120) as [Ey|Ey]; [subst y; reflexivity|].
    destruct (N.eqb_spec y 88) as [Ey'|Ey']; [subst y; reflexivity|].
    destruct y as [|p]; [reflexivity|].
    bits p; bits p; bits p; bits p; bits p; bits p; bits p; contradiction.
  - destruct x as [|p]; [reflexivity|].
    bits p; bits p; bits p; bits p; bits p; bits p; contradiction.
Qed.

Definition m_finish (radix : N) (ve : bool) (digits : list N) : numres :=
  match digits with
  | [] => NumOk 0 true
  | _ =>
    if forallb (fun ch => ((radix =? 16) && isHexDigit ch) || ((radix =? 10) && isDigit ch) || ((radix =? 8) && (48 <=? ch) && (ch <=? 55))) digits
    then let n := digits_val radix digits in
         if n <? 9223372036854775808 then NumOk n ve else NumErr true
    else NumErr false
  end.

Lemma model_number_unfold : forall input,
  parseIPv4Number_nonempty input =
  match input with
  | [] => m_finish 10 false input
  | x :: t =>
      if x =? 48 then
        match t with
        | [] => m_finish 10 false input
        | y :: r => if (y =? 120) || (y =? 88) then m_finish 16 true r else m_finish 8 true t
        end
      else m_finish 10 false input
  end.
Proof.
  intro input. destruct input as [|x t]; [reflexivity|].
  destruct (N.eqb_spec x 48) as [Ex|Ex].
  - subst x. destruct t as [|y r]; [reflexivity|].
    unfold parseIPv4Number_nonempty. destruct ((y =? 120) || (y =? 88)); reflexivity.
  - destruct x as [|p]; [reflexivity|].
    bits p; bits p; bits p; bits p; bits p; bits p; contradiction.
Qed.

Definition m_pred (radix : N) (ch : N) : bool :=
  ((radix =? 16) && isHexDigit ch) || ((radix =? 10) && isDigit ch) || ((radix =? 8) && (48 <=? ch) && (ch <=? 55)).

Lemma m_pred_spec : forall R ch, R = 8 \/ R = 10 \/ R = 16 -> m_pred R ch = S.radix_digit R ch.
Proof.
  intros R ch HR. unfold m_pred, S.radix_digit. rewrite isDigit_spec, isHexDigit_spec.
  destruct HR as [HR|[HR|HR]]; subst R.
  - change (8 =? 16) with false. change (8 =? 10) with false. change (8 =? 8) with true.
    cbn [andb orb]. reflexivity.
  - change (10 =? 16) with false. change (10 =? 10) with true. change (10 =? 8) with false.
    cbn [andb orb]. rewrite orb_false_r. reflexivity.
  - change (16 =? 16) with true. change (16 =? 10) with false. change (16 =? 8) with false.
    cbn [andb orb]. rewrite !orb_false_r. reflexivity.
Qed.

Lemma radix_digit_hex : forall R ch, S.radix_digit R ch = true -> PS.ascii_hex_digit ch = true.
Proof.
  intros R ch. unfold S.radix_digit, PS.ascii_hex_digit, PS.ascii_upper_hex, PS.ascii_digit.
  destruct (R =? 10); [lia|]. destruct (R =? 16); lia.
Qed.

Lemma fold_val_agree : forall R s acc, forallb PS.ascii_hex_digit s = true ->
  fold_left (fun a c => a * R + hex_val c) s acc = fold_left (fun a c => a * R + S.digit_value c) s acc.
Proof.
  intros R s. induction s as [|x s IH]; intros acc H; [reflexivity|].
  cbn [forallb] in H. apply andb_true_iff in H. destruct H as [Hx Hs].
  cbn [fold_left]. rewrite (hex_val_digit_value x Hx). apply IH, Hs.
Qed.

Lemma digits_val_to_number : forall R s, forallb (S.radix_digit R) s = true -> digits_val R s = S.to_number R s.
Proof.
  intros R s H. unfold digits_val, S.to_number. apply fold_val_agree.
  rewrite forallb_forall in *. intros x Hx. eapply radix_digit_hex, H, Hx.
Qed.

(* the model's answer as a function of the standard's answer *)
Definition num_of_spec (ve : bool) (o : option N) : numres :=
  match o with
  | None => NumErr false
  | Some n => if n <? 9223372036854775808 then NumOk n ve else NumErr true
  end.

Lemma finish_agree : forall R ve digits, R = 8 \/ R = 10 \/ R = 16 ->
  m_finish R ve digits = num_of_spec (is_nil digits || ve) (s_finish R digits).
Proof.
  intros R ve digits HR. destruct digits as [|d ds]; [reflexivity|].
  unfold m_finish, s_finish. fold (m_pred R).
  rewrite (forallb_ext' (m_pred R) (S.radix_digit R)) by (intro; apply m_pred_spec, HR).
  destruct (forallb (S.radix_digit R) (d :: ds)) eqn:E; [|reflexivity].
  rewrite (digits_val_to_number _ _ E). reflexivity.
Qed.

(* whether the model flags the number as non-decimal (validation error only) *)
Definition nondecimal (input : list N) : bool :=
  match input with x :: _ :: _ => x =? 48 | _ => false end.

Lemma number_agree_fun : forall input, input <> [] ->
  parseIPv4Number_nonempty input = num_of_spec (nondecimal input) (S.ipv4_number input).
Proof.
  intros input Hne. rewrite model_number_unfold, spec_number_unfold.
  destruct input as [|x t]; [contradiction|]. unfold nondecimal.
  destruct (x =? 48) eqn:Ex.
  - destruct t as [|y r].
    + rewrite finish_agree by auto. reflexivity.
    + destruct ((y =? 120) || (y =? 88)).
      * rewrite finish_agree by auto. rewrite orb_true_r. reflexivity.
      * rewrite finish_agree by auto. rewrite orb_true_r. reflexivity.
  - rewrite finish_agree by auto. cbn [is_nil orb]. destruct t; reflexivity.
Qed.

(* 1. *)
Theorem ipv4_number_agree : forall input, input <> [] ->
  (S.ipv4_number input = None <-> parseIPv4Number_nonempty input = NumErr false) /\
  (forall n, (S.ipv4_number input = Some n /\ n < 2^63) <-> (exists ve, parseIPv4Number_nonempty input = NumOk n ve)) /\
  ((exists n, S.ipv4_number input = Some n /\ 2^63 <= n) <-> parseIPv4Number_nonempty input = NumErr true).
Proof.
  intros input Hne. rewrite (number_agree_fun input Hne).
  change (2^63) with 9223372036854775808.
  destruct (S.ipv4_number input) as [m|]; unfold num_of_spec.
  - destruct (N.ltb_spec m 9223372036854775808) as [Hlt|Hge].
    + split; [split; discriminate|]. split.
      * intro n. split.
        -- intros [E _]. injection E as E. subst. eauto.
        -- intros [ve E]. injection E as E1 E2. subst. auto.
      * split; [|discriminate]. intros [n [E Hn]]. injection E as E. subst. lia.
    + split; [split; discriminate|]. split.
      * intro n. split.
        -- intros [E Hn]. injection E as E. subst. lia.
        -- intros [ve E]. discriminate E.
      * split; [reflexivity|]. intros _. exists m. auto.
  - split; [split; reflexivity|]. split.
    + intro n. split; [intros [E _]; discriminate E|intros [ve E]; discriminate E].
    + split; [intros [n [E _]]; discriminate E|discriminate].
Qed.
Print Assumptions ipv4_number_agree.

Example ipv4_number_agree_ex :
  [48;120;55;102] <> [] /\ S.ipv4_number [48;120;55;102] = Some 127 /\ parseIPv4Number_nonempty [48;120;55;102] = NumOk 127 true.
Proof. split; [discriminate|]. split; vm_compute; reflexivity. Qed.

(* ------------------------------------------------------------------ *)
(* 2. ends-in-a-number checker *)

Lemma len_eqb_1 : forall {A} (l : list A), (len l =? 1)%Z = (length l =? 1)%nat.
Proof. intros A l. unfold len. lia. Qed.

Lemma len_ltb : forall {A} (l : list A) (k : nat), (Z.of_nat k <? len l)%Z = (k <? length l)%nat.
Proof. intros A l k. unfold len. lia. Qed.

Definition m_norm (parts : list str) : list str :=
  match last_opt parts with
  | Some [] => if (len parts =? 1)%Z then [] else drop_last parts
  | _ => parts end.
Definition s_norm (parts : list (list N)) : list (list N) :=
  match S.last_item parts with
  | Some [] => if (length parts =? 1)%nat then [] else removelast parts
  | _ => parts end.
Definition m_core (c : cfg) (u : url) (parts : list str) : url * bool :=
  match last_opt parts with
  | None => (u, false)
  | Some [] => (u, false)
  | Some last =>
      if all_in isDigit last then (u, true)
      else match parseIPv4Number c u last with
           | (u', NumOk _ _) => (u', true)
           | (u', NumErr range) => (u', range)
           end
  end.
Definition s_core (parts : list (list N)) : bool :=
  match S.last_item parts with
  | None => false
  | Some last =>
      if negb (is_nil last) && forallb PS.ascii_digit last then true
      else match S.ipv4_number last with Some _ => true | None => false end
  end.

Lemma m_norm_spec : forall parts, m_norm parts = s_norm parts.
Proof.
  intro parts. unfold m_norm, s_norm, S.last_item, drop_last. rewrite len_eqb_1. reflexivity.
Qed.

Lemma core_agree : forall c u parts, snd (m_core c u parts) = s_core parts.
Proof.
  intros c u parts. unfold m_core, s_core, S.last_item, str in *.
  destruct (last_opt parts) as [last|]; [|reflexivity].
  destruct last as [|x t].
  - reflexivity.
  - rewrite all_in_forallb, (forallb_ext' isDigit PS.ascii_digit) by apply isDigit_spec.
    cbn [is_nil negb andb].
    destruct (forallb PS.ascii_digit (x :: t)); [reflexivity|].
    unfold parseIPv4Number. rewrite number_agree_fun by discriminate.
    destruct (S.ipv4_number (x :: t)) as [n|]; [|reflexivity].
    unfold num_of_spec. destruct (n <? 9223372036854775808); reflexivity.
Qed.

Theorem endsInANumber_agree : forall c u input,
  snd (endsInANumber c u input) = S.ends_in_a_number input.
Proof.
  intros c u input.
  change (endsInANumber c u input) with (m_core c u (m_norm (split 46 input))).
  change (S.ends_in_a_number input) with (s_core (s_norm (S.strictly_split_dot input))).
  rewrite core_agree, m_norm_spec, split_spec. reflexivity.
Qed.
Print Assumptions endsInANumber_agree.

Example endsInANumber_agree_ex :
  snd (endsInANumber (Build_cfg true false false false false HF_none HF_none false false false [] false false
        (Build_peset 0 []) (Build_peset 0 []) (Build_peset 0 []) (Build_peset 0 []) (Build_peset 0 []) false)
        (empty_url []) [49;46;48;120;102;46]) = true.
Proof. vm_compute. reflexivity. Qed.

(* ------------------------------------------------------------------ *)
(* 4. serializer *)

Lemma fmt_fuel_dec : forall fuel n, fmt_fuel 10 hex_lower fuel n = S.dec_fuel fuel n.
Proof.
  induction fuel as [|f IH]; intro n; [reflexivity|].
  cbn [fmt_fuel S.dec_fuel]. rewrite IH.
  destruct (N.ltb_spec n 10) as [Hlt|Hge].
  - unfold hex_lower. destruct (N.ltb_spec n 10); [reflexivity|lia].
  - unfold hex_lower. destruct (N.ltb_spec (n mod 10) 10); [reflexivity|lia].
Qed.

Lemma itoa_decimal : forall n, itoa n = S.decimal n.
Proof. intro n. apply fmt_fuel_dec. Qed.

Lemma ipv4_serialize_unfold : forall a,
  S.ipv4_serialize a =
  S.decimal (a / 256 / 256 / 256 mod 256) ++ 46 :: S.decimal (a / 256 / 256 mod 256) ++ 46 ::
  S.decimal (a / 256 mod 256) ++ 46 :: S.decimal (a mod 256).
Proof.
  intro a. unfold S.ipv4_serialize. cbn [S.ipv4_ser_aux].
  rewrite app_nil_r. reflexivity.
Qed.

Theorem IPv4String_agree : forall a, a < 2^32 -> IPv4String a = S.ipv4_serialize a.
Proof.
  intros a Ha. change (2^32) with 4294967296 in Ha.
  rewrite ipv4_serialize_unfold. unfold IPv4String. rewrite !itoa_decimal.
  replace (a / 256 / 256 / 256 mod 256) with (a / 16777216) by lia.
  replace (a / 256 / 256 mod 256) with ((a / 65536) mod 256) by lia.
  reflexivity.
Qed.
Print Assumptions IPv4String_agree.

Example IPv4String_agree_ex : 3232235777 < 2^32 /\ IPv4String 3232235777 = [49;57;50;46;49;54;56;46;49;46;49].
Proof. split; vm_compute; reflexivity. Qed.

(* the bound is needed: the Go function prints the top part without reducing it *)
Lemma IPv4String_agree_bound_needed : IPv4String (2^32) <> S.ipv4_serialize (2^32).
Proof. vm_compute. discriminate. Qed.

(* ------------------------------------------------------------------ *)
(* 6. the standard's parser returns 32-bit addresses *)

Definition s_norm4 (parts : list (list N)) : list (list N) :=
  match S.last_item parts with
  | Some [] => if (1 <? length parts)%nat then removelast parts else parts
  | _ => parts end.

Definition s_tail (numbers : list N) : option N :=
  match S.last_item numbers with
  | None => None
  | Some lastn =>
      let init := removelast numbers in
      if existsb (fun n => 255 <? n) init then None
      else if 256 ^ (5 - N.of_nat (length numbers)) <=? lastn then None
      else Some (lastn + S.sum_parts init 0)
  end.

Lemma ipv4_parse_unfold : forall input,
  S.ipv4_parse input =
  let parts := s_norm4 (S.strictly_split_dot input) in
  if (4 <? length parts)%nat then None
  else match S.all_some (map S.ipv4_number parts) with
       | None => None
       | Some numbers => s_tail numbers
       end.
Proof. reflexivity. Qed.

Lemma all_some_length : forall {A} (l : list (option A)) r, S.all_some l = Some r -> length r = length l.
Proof.
  intros A l. induction l as [|o l IH]; intros r H; cbn [S.all_some] in H.
  - injection H as H. subst. reflexivity.
  - destruct o as [x|]; [|discriminate H].
    destruct (S.all_some l) as [r'|]; [|discriminate H].
    injection H as H. subst. cbn [length]. rewrite (IH r' eq_refl). reflexivity.
Qed.

Ltac norm_pow_in H :=
  change (256 ^ (5 - N.of_nat 1)) with 4294967296 in H;
  change (256 ^ (5 - N.of_nat 2)) with 16777216 in H;
  change (256 ^ (5 - N.of_nat 3)) with 65536 in H;
  change (256 ^ (5 - N.of_nat 4)) with 256 in H;
  change (256 ^ (3 - 0)) with 16777216 in H;
  change (256 ^ (3 - (0 + 1))) with 65536 in H;
  change (256 ^ (3 - (0 + 1 + 1))) with 256 in H.
Ltac norm_pow :=
  change (256 ^ (5 - N.of_nat 4)) with 256;
  change (256 ^ (3 - 0)) with 16777216;
  change (256 ^ (3 - (0 + 1))) with 65536;
  change (256 ^ (3 - (0 + 1 + 1))) with 256.

Lemma s_tail_bound : forall ns a, (length ns <= 4)%nat -> s_tail ns = Some a -> a < 4294967296.
Proof.
  intros ns a Hlen H. unfold s_tail, S.last_item in H.
  destruct ns as [|n0 [|n1 [|n2 [|n3 [|n4 ns]]]]]; cbn [length] in Hlen; try lia;
    cbn [last_opt removelast existsb length S.sum_parts] in H.
  - discriminate H.
  - norm_pow_in H.
    destruct (4294967296 <=? n0) eqn:E0; [discriminate H|]. injection H as H. lia.
  - norm_pow_in H.
    destruct (255 <? n0) eqn:E0; [discriminate H|]. cbn [orb] in H.
    destruct (16777216 <=? n1) eqn:E1; [discriminate H|]. injection H as H. lia.
  - norm_pow_in H.
    destruct (255 <? n0) eqn:E0; [discriminate H|].
    destruct (255 <? n1) eqn:E1; [discriminate H|]. cbn [orb] in H.
    destruct (65536 <=? n2) eqn:E2; [discriminate H|]. injection H as H. lia.
  - norm_pow_in H.
    destruct (255 <? n0) eqn:E0; [discriminate H|].
    destruct (255 <? n1) eqn:E1; [discriminate H|].
    destruct (255 <? n2) eqn:E2; [discriminate H|]. cbn [orb] in H.
    destruct (256 <=? n3) eqn:E3; [discriminate H|]. injection H as H. lia.
Qed.

Theorem ipv4_parse_bound : forall s a, S.ipv4_parse s = Some a -> a < 2^32.
Proof.
  intros s a H. rewrite ipv4_parse_unfold in H. cbv zeta in H.
  destruct (4 <? length (s_norm4 (S.strictly_split_dot s)))%nat eqn:E4; [discriminate H|].
  destruct (S.all_some (map S.ipv4_number (s_norm4 (S.strictly_split_dot s)))) as [ns|] eqn:Ens; [|discriminate H].
  apply all_some_length in Ens. rewrite map_length in Ens.
  apply (s_tail_bound ns a); [|exact H]. lia.
Qed.
Print Assumptions ipv4_parse_bound.

Example ipv4_parse_bound_ex : S.ipv4_parse [48;120;102;102;102;102;102;102;102;102] = Some 4294967295.
Proof. vm_compute. reflexivity. Qed.

(* ------------------------------------------------------------------ *)
(* 3. the IPv4 parser *)

Definition val {A} (r : res A) : option A := match r with Ok _ a => Some a | Er _ _ => None end.

Lemma herr_fatal : forall {A} c u t (k : url -> res A), exists u' e, herr c u t true k = Er u' e.
Proof. intros A c u t k. unfold herr, handleError. cbn [orb]. eauto. Qed.

Lemma val_herr_fatal : forall {A} c u t (k : url -> res A), val (herr c u t true k) = None.
Proof. intros A c u t k. destruct (herr_fatal c u t k) as [u' [e E]]. rewrite E. reflexivity. Qed.

Lemma herr_warn : forall {A} c u t (k : url -> res A), c_fail c = false -> exists u', herr c u t false k = k u'.
Proof. intros A c u t k Hc. unfold herr, handleError. rewrite Hc. cbn [orb]. eauto. Qed.

Lemma val_herr_warn : forall {A} c u t (k : url -> res A) rhs, c_fail c = false ->
  (forall u', val (k u') = rhs) -> val (herr c u t false k) = rhs.
Proof. intros A c u t k rhs Hc H. destruct (herr_warn c u t k Hc) as [u' E]. rewrite E. apply H. Qed.

Definition m_tail (c : cfg) (u : url) (numbers : list N) : res str :=
  let init := drop_last numbers in
  if existsb (fun n => 255 <? n) init then herr c u IPv4OutOfRangePart true (fun u => Ok u [])
  else match last_opt numbers with
       | None => Ok u []
       | Some lastn =>
           if 256 ^ (5 - N.of_nat (length numbers)) <=? lastn
           then herr c u IPv4OutOfRangePart true (fun u => Ok u [])
           else Ok u (IPv4String (lastn + ipv4_sum init 0))
       end.

Definition m_after_empty (c : cfg) (u : url) (parts : list str) : res str :=
  (if (4 <? len parts)%Z then (fun k => herr c u IPv4TooManyParts true k) else (fun k => k u))
  (fun u =>
    match ipv4_numbers c u parts [] with
    | Er u e => Er u e
    | Ok u numbers => ipv4_range_warn c u numbers (fun u => m_tail c u numbers)
    end).

Lemma parseIPv4_unfold : forall c u input,
  parseIPv4 c u input =
  let parts := split 46 input in
  match last_opt parts with
  | Some [] =>
      herr c u IPv4EmptyPart false (fun u =>
        m_after_empty c u (if (1 <? len parts)%Z then drop_last parts else parts))
  | _ => m_after_empty c u parts
  end.
Proof. reflexivity. Qed.

Lemma parseIPv4Number_fun : forall c u p,
  exists u', parseIPv4Number c u p = (u', num_of_spec (nondecimal p) (S.ipv4_number p)).
Proof.
  intros c u p. destruct p as [|x t].
  - unfold parseIPv4Number. destruct (handleError c u IPv4EmptyPart true) as [u' o]. exists u'. reflexivity.
  - exists u. unfold parseIPv4Number. rewrite number_agree_fun by discriminate. reflexivity.
Qed.

(* a part as the Go code sees it: numbers of 2^63 and above are errors *)
Definition m_num (p : list N) : option N :=
  match S.ipv4_number p with
  | Some n => if n <? 9223372036854775808 then Some n else None
  | None => None
  end.

Lemma ipv4_numbers_agree : forall c, c_fail c = false -> forall parts u acc,
  match ipv4_numbers c u parts acc, S.all_some (map m_num parts) with
  | Ok _ ns, Some ns' => ns = rev acc ++ ns'
  | Er _ _, None => True
  | _, _ => False
  end.
Proof.
  intros c Hc parts. induction parts as [|p rest IH]; intros u acc.
  - cbn [ipv4_numbers map S.all_some]. rewrite app_nil_r. reflexivity.
  - cbn [ipv4_numbers map S.all_some].
    destruct (parseIPv4Number_fun c u p) as [u1 E1]. rewrite E1. unfold m_num.
    destruct (S.ipv4_number p) as [n|]; unfold num_of_spec.
    + destruct (n <? 9223372036854775808).
      * assert (Hk : forall u2, match ipv4_numbers c u2 rest (n :: acc) with
                                | Ok _ ns => match match S.all_some (map m_num rest) with Some r => Some (n :: r) | None => None end with
                                             | Some ns' => ns = rev acc ++ ns' | None => False end
                                | Er _ _ => match match S.all_some (map m_num rest) with Some r => Some (n :: r) | None => None end with
                                            | Some _ => False | None => True end
                                end).
        { intro u2. specialize (IH u2 (n :: acc)). fold m_num.
          destruct (ipv4_numbers c u2 rest (n :: acc)) as [u3 ns|u3 e];
            destruct (S.all_some (map m_num rest)) as [r|]; try exact IH.
          subst ns. cbn [rev]. rewrite <- app_assoc. reflexivity. }
        fold m_num.
        destruct (nondecimal p).
        -- destruct (herr_warn c u1 IPv4NonDecimalPart (fun u2 => ipv4_numbers c u2 rest (n :: acc)) Hc) as [u2 E2].
           rewrite E2. apply Hk.
        -- apply Hk.
      * destruct (herr_fatal c u1 IPv4NonNumericPart (fun u2 => ipv4_numbers c u2 rest (0 :: acc))) as [u2 [e E2]].
        rewrite E2. exact I.
    + destruct (herr_fatal c u1 IPv4NonNumericPart (fun u2 => ipv4_numbers c u2 rest (0 :: acc))) as [u2 [e E2]].
      rewrite E2. exact I.
Qed.

Lemma all_some_m_num_some : forall parts ns,
  S.all_some (map m_num parts) = Some ns -> S.all_some (map S.ipv4_number parts) = Some ns.
Proof.
  induction parts as [|p rest IH]; intros ns H; cbn [map S.all_some] in *; [exact H|].
  unfold m_num in H at 1. destruct (S.ipv4_number p) as [n|]; [|discriminate H].
  destruct (n <? 9223372036854775808); [|discriminate H].
  destruct (S.all_some (map m_num rest)) as [r|]; [|discriminate H].
  rewrite (IH r eq_refl). exact H.
Qed.

Lemma all_some_m_num_none : forall parts,
  S.all_some (map m_num parts) = None ->
  S.all_some (map S.ipv4_number parts) = None \/
  exists ns, S.all_some (map S.ipv4_number parts) = Some ns /\ exists n, In n ns /\ 9223372036854775808 <= n.
Proof.
  induction parts as [|p rest IH]; intro H; cbn [map S.all_some] in *; [discriminate H|].
  unfold m_num in H at 1. destruct (S.ipv4_number p) as [n|]; [|left; reflexivity].
  destruct (N.ltb_spec n 9223372036854775808) as [Hlt|Hge].
  - destruct (S.all_some (map m_num rest)) as [r|]; [discriminate H|].
    destruct (IH eq_refl) as [E|[ns [E [m [Hin Hm]]]]]; rewrite E.
    + left. reflexivity.
    + right. exists (n :: ns). split; [reflexivity|]. exists m. split; [right; exact Hin|exact Hm].
  - destruct (S.all_some (map S.ipv4_number rest)) as [r|]; [|left; reflexivity].
    right. exists (n :: r). split; [reflexivity|]. exists n. split; [left; reflexivity|exact Hge].
Qed.

Lemma last_opt_snoc : forall {A} (l : list A) x, last_opt (l ++ [x]) = Some x.
Proof.
  intros A l x. induction l as [|a l IH]; [reflexivity|].
  cbn [app last_opt]. destruct (l ++ [x]) eqn:E; [destruct l; discriminate E|exact IH].
Qed.

Lemma last_opt_none : forall {A} (l : list A), last_opt l = None -> l = [].
Proof.
  intros A l H. destruct l as [|a l]; [reflexivity|exfalso].
  destruct (@exists_last _ (a :: l)) as [l' [x E]]; [discriminate|].
  rewrite E, last_opt_snoc in H. discriminate H.
Qed.

Lemma s_tail_big : forall ns n, In n ns -> 9223372036854775808 <= n -> s_tail ns = None.
Proof.
  intros ns n Hin Hn. destruct ns as [|a l]; [contradiction|].
  destruct (@exists_last _ (a :: l)) as [init [x E]]; [discriminate|]. rewrite E in *.
  unfold s_tail, S.last_item. rewrite last_opt_snoc, removelast_last. cbv zeta.
  destruct (existsb (fun n0 => 255 <? n0) init) eqn:Eex; [reflexivity|].
  apply in_app_or in Hin. destruct Hin as [Hin|[Hin|[]]].
  - assert (Ht : existsb (fun n0 => 255 <? n0) init = true).
    { apply existsb_exists. exists n. split; [exact Hin|lia]. }
    rewrite Ht in Eex. discriminate Eex.
  - subst x.
    assert (Hp : 256 ^ (5 - N.of_nat (length (init ++ [n]))) <= 256 ^ 5).
    { apply N.pow_le_mono_r; lia. }
    change (256 ^ 5) with 1099511627776 in Hp.
    destruct (N.leb_spec (256 ^ (5 - N.of_nat (length (init ++ [n])))) n); [reflexivity|lia].
Qed.

Lemma ipv4_range_warn_k : forall c, c_fail c = false -> forall ns u k,
  exists u', ipv4_range_warn c u ns k = k u'.
Proof.
  intros c Hc ns. induction ns as [|n rest IH]; intros u k; cbn [ipv4_range_warn]; [eauto|].
  destruct (255 <? n); [|apply IH].
  destruct (herr_warn c u IPv4OutOfRangePart (fun u' => ipv4_range_warn c u' rest k) Hc) as [u1 E1].
  rewrite E1. apply IH.
Qed.

Lemma ipv4_sum_spec : forall ns counter, ipv4_sum ns counter = S.sum_parts ns counter.
Proof.
  induction ns as [|n rest IH]; intro counter; [reflexivity|].
  cbn [ipv4_sum S.sum_parts]. rewrite IH. reflexivity.
Qed.

Lemma m_tail_agree : forall c u numbers, numbers <> [] -> (length numbers <= 4)%nat ->
  val (m_tail c u numbers) = option_map S.ipv4_serialize (s_tail numbers).
Proof.
  intros c u numbers Hne Hlen.
  destruct (last_opt numbers) as [lastn|] eqn:Elast; [|apply last_opt_none in Elast; contradiction].
  destruct (s_tail numbers) as [a|] eqn:Et.
  - pose proof (s_tail_bound numbers a Hlen Et) as Hb.
    unfold s_tail, S.last_item in Et. unfold m_tail, drop_last. cbv zeta in *. rewrite Elast in *.
    destruct (existsb (fun n => 255 <? n) (removelast numbers)); [discriminate Et|].
    destruct (256 ^ (5 - N.of_nat (length numbers)) <=? lastn); [discriminate Et|].
    injection Et as Et. rewrite ipv4_sum_spec, Et. cbn [val option_map].
    rewrite IPv4String_agree by exact Hb. reflexivity.
  - unfold s_tail, S.last_item in Et. unfold m_tail, drop_last. cbv zeta in *. rewrite Elast in *.
    destruct (existsb (fun n => 255 <? n) (removelast numbers)).
    + apply val_herr_fatal.
    + destruct (256 ^ (5 - N.of_nat (length numbers)) <=? lastn); [|discriminate Et].
      apply val_herr_fatal.
Qed.

Lemma len_ltb4 : forall {A} (l : list A), (4 <? len l)%Z = (4 <? length l)%nat.
Proof. intros A l. unfold len. lia. Qed.
Lemma len_ltb1 : forall {A} (l : list A), (1 <? len l)%Z = (1 <? length l)%nat.
Proof. intros A l. unfold len. lia. Qed.

Lemma after_empty_agree : forall c u parts, c_fail c = false -> parts <> [] ->
  val (m_after_empty c u parts) =
  option_map S.ipv4_serialize
    (if (4 <? length parts)%nat then None
     else match S.all_some (map S.ipv4_number parts) with
          | None => None
          | Some numbers => s_tail numbers
          end).
Proof.
  intros c u parts Hc Hne. unfold m_after_empty. rewrite len_ltb4.
  destruct (4 <? length parts)%nat eqn:E4; [apply val_herr_fatal|].
  pose proof (ipv4_numbers_agree c Hc parts u []) as Hn.
  destruct (ipv4_numbers c u parts []) as [u1 ns|u1 e];
    destruct (S.all_some (map m_num parts)) as [ns'|] eqn:Em; try contradiction.
  - cbn [rev app] in Hn. subst ns'.
    pose proof (all_some_length _ _ Em) as Hl. rewrite map_length in Hl.
    rewrite (all_some_m_num_some _ _ Em).
    destruct (ipv4_range_warn_k c Hc ns u1 (fun u0 => m_tail c u0 ns)) as [u2 E2]. rewrite E2.
    apply m_tail_agree.
    + intro Hnil. subst ns. destruct parts; [contradiction|discriminate Hl].
    + unfold str in *. lia.
  - cbn [val]. destruct (all_some_m_num_none _ Em) as [E|[ns [E [n [Hin Hbig]]]]]; rewrite E.
    + reflexivity.
    + rewrite (s_tail_big ns n Hin Hbig). reflexivity.
Qed.

Lemma removelast_nonnil : forall {A} (l : list A), (1 <? length l)%nat = true -> removelast l <> [].
Proof.
  intros A l H. destruct l as [|a [|b l]]; cbn [length] in H; try (exfalso; lia).
  cbn [removelast]. discriminate.
Qed.

Theorem parseIPv4_agree : forall c u input, c_fail c = false ->
  (match parseIPv4 c u input with Ok _ s => Some s | Er _ _ => None end) =
  option_map S.ipv4_serialize (S.ipv4_parse input).
Proof.
  intros c u input Hc. change (val (parseIPv4 c u input) = option_map S.ipv4_serialize (S.ipv4_parse input)).
  rewrite parseIPv4_unfold, ipv4_parse_unfold. cbv zeta. rewrite split_spec.
  pose proof (s_split_aux_nonnil input []) as Hne. fold (S.strictly_split_dot input) in Hne.
  unfold s_norm4, S.last_item, drop_last, str in *. rewrite len_ltb1.
  set (parts := S.strictly_split_dot input) in *.
  destruct (last_opt parts) as [[|x t]|] eqn:El.
  - apply val_herr_warn; [exact Hc|]. intro u1. apply after_empty_agree; [exact Hc|].
    destruct (1 <? length parts)%nat eqn:E; [apply removelast_nonnil, E|exact Hne].
  - apply after_empty_agree; assumption.
  - apply after_empty_agree; assumption.
Qed.
Print Assumptions parseIPv4_agree.

Definition ex_cfg (fail : bool) : cfg :=
  Build_cfg true fail false false false HF_none HF_none false false false [] false false
    (Build_peset 0 []) (Build_peset 0 []) (Build_peset 0 []) (Build_peset 0 []) (Build_peset 0 []) false.

Example parseIPv4_agree_ex :
  c_fail (ex_cfg false) = false /\
  val (parseIPv4 (ex_cfg false) (empty_url []) [48;120;55;102;46;49]) = Some [49;50;55;46;48;46;48;46;49].
Proof. split; vm_compute; reflexivity. Qed.

(* the premise on c_fail is needed: with failOnValidationError a non-decimal part is fatal *)
Lemma parseIPv4_agree_c_fail_needed :
  val (parseIPv4 (ex_cfg true) (empty_url []) [48;120;55;102;46;49]) <>
  option_map S.ipv4_serialize (S.ipv4_parse [48;120;55;102;46;49]).
Proof. vm_compute. discriminate. Qed.

(* ------------------------------------------------------------------ *)
(* 5. serialize, then parse *)

Definition nodot (s : list N) : bool := forallb (fun c => negb (c =? 46)) s.

Lemma split_nodot : forall x cur, nodot x = true -> S.s_split_aux x cur = [rev cur ++ x].
Proof.
  induction x as [|c x IH]; intros cur H.
  - cbn [S.s_split_aux]. rewrite app_nil_r. reflexivity.
  - unfold nodot in H. cbn [forallb] in H. apply andb_true_iff in H. destruct H as [Hc Hx].
    cbn [S.s_split_aux]. destruct (c =? 46); [discriminate Hc|].
    rewrite (IH (c :: cur) Hx). cbn [rev]. rewrite <- app_assoc. reflexivity.
Qed.

Lemma split_app_dot : forall a b cur,
  S.s_split_aux (a ++ 46 :: b) cur = S.s_split_aux a cur ++ S.s_split_aux b [].
Proof.
  induction a as [|c a IH]; intros b cur.
  - reflexivity.
  - cbn [app S.s_split_aux]. destruct (c =? 46).
    + rewrite IH. reflexivity.
    + apply IH.
Qed.

Lemma split_four : forall d3 d2 d1 d0,
  nodot d3 = true -> nodot d2 = true -> nodot d1 = true -> nodot d0 = true ->
  S.strictly_split_dot (d3 ++ 46 :: d2 ++ 46 :: d1 ++ 46 :: d0) = [d3; d2; d1; d0].
Proof.
  intros d3 d2 d1 d0 H3 H2 H1 H0. unfold S.strictly_split_dot.
  rewrite !split_app_dot, !split_nodot by assumption. reflexivity.
Qed.

Lemma parse_four : forall d3 d2 d1 d0 o3 o2 o1 o0,
  nodot d3 = true -> nodot d2 = true -> nodot d1 = true -> nodot d0 = true -> d0 <> [] ->
  S.ipv4_number d3 = Some o3 -> S.ipv4_number d2 = Some o2 ->
  S.ipv4_number d1 = Some o1 -> S.ipv4_number d0 = Some o0 ->
  o3 < 256 -> o2 < 256 -> o1 < 256 -> o0 < 256 ->
  S.ipv4_parse (d3 ++ 46 :: d2 ++ 46 :: d1 ++ 46 :: d0) = Some (o0 + (o3 * 16777216 + (o2 * 65536 + (o1 * 256 + 0)))).
Proof.
  intros d3 d2 d1 d0 o3 o2 o1 o0 H3 H2 H1 H0 Hne E3 E2 E1 E0 B3 B2 B1 B0.
  rewrite ipv4_parse_unfold, split_four by assumption. cbv zeta.
  assert (En : s_norm4 [d3; d2; d1; d0] = [d3; d2; d1; d0]).
  { unfold s_norm4, S.last_item. cbn [last_opt]. destruct d0; [contradiction|reflexivity]. }
  rewrite En. cbn [length map]. change (4 <? 4)%nat with false. cbv iota.
  rewrite E3, E2, E1, E0. cbn [S.all_some].
  unfold s_tail, S.last_item. cbn [last_opt removelast existsb length S.sum_parts]. norm_pow.
  destruct (N.ltb_spec 255 o3); [lia|]. destruct (N.ltb_spec 255 o2); [lia|]. destruct (N.ltb_spec 255 o1); [lia|].
  cbn [orb]. destruct (N.leb_spec 256 o0); [lia|]. reflexivity.
Qed.

Definition octet_ok (n : N) : bool :=
  negb (is_nil (S.decimal n)) && nodot (S.decimal n) &&
  match S.ipv4_number (S.decimal n) with Some m => m =? n | None => false end.

Lemma octets_sweep : forallb octet_ok (map N.of_nat (seq 0 256)) = true.
Proof. vm_compute. reflexivity. Qed.

Lemma octet_facts : forall n, n < 256 ->
  S.decimal n <> [] /\ nodot (S.decimal n) = true /\ S.ipv4_number (S.decimal n) = Some n.
Proof.
  intros n Hn.
  assert (H : octet_ok n = true).
  { pose proof octets_sweep as Hs. rewrite forallb_forall in Hs. apply Hs.
    rewrite <- (N2Nat.id n). apply in_map. apply in_seq. lia. }
  unfold octet_ok in H. apply andb_true_iff in H. destruct H as [H H3].
  apply andb_true_iff in H. destruct H as [H1 H2].
  split; [|split].
  - intro E. rewrite E in H1. discriminate H1.
  - exact H2.
  - destruct (S.ipv4_number (S.decimal n)) as [m|]; [|discriminate H3].
    apply N.eqb_eq in H3. subst. reflexivity.
Qed.

Theorem ipv4_roundtrip : forall a, a < 2^32 -> S.ipv4_parse (S.ipv4_serialize a) = Some a.
Proof.
  intros a Ha. change (2^32) with 4294967296 in Ha.
  rewrite ipv4_serialize_unfold.
  assert (B3 : a / 256 / 256 / 256 mod 256 < 256) by lia.
  assert (B2 : a / 256 / 256 mod 256 < 256) by lia.
  assert (B1 : a / 256 mod 256 < 256) by lia.
  assert (B0 : a mod 256 < 256) by lia.
  destruct (octet_facts _ B3) as [_ [N3 P3]]. destruct (octet_facts _ B2) as [_ [N2 P2]].
  destruct (octet_facts _ B1) as [_ [N1 P1]]. destruct (octet_facts _ B0) as [Z0 [N0' P0]].
  rewrite (parse_four _ _ _ _ _ _ _ _ N3 N2 N1 N0' Z0 P3 P2 P1 P0 B3 B2 B1 B0).
  f_equal. lia.
Qed.
Print Assumptions ipv4_roundtrip.

Example ipv4_roundtrip_ex : 3232235777 < 2^32 /\ S.ipv4_parse (S.ipv4_serialize 3232235777) = Some 3232235777.
Proof. split; vm_compute; reflexivity. Qed.

(* the bound is needed: the serializer only looks at the low 32 bits *)
Lemma ipv4_roundtrip_bound_needed : S.ipv4_parse (S.ipv4_serialize (2^32)) <> Some (2^32).
Proof. vm_compute. discriminate. Qed.

(* ------------------------------------------------------------------ *)
(* 7. the shape of inputs that end in a number *)

(* a label that makes the host an IPv4 address candidate: only digits, or 0x / 0X and hex digits (possibly none) *)
Definition number_label (l : list N) : Prop :=
  l <> [] /\
  (forallb PS.ascii_digit l = true \/
   exists r, (l = 48 :: 120 :: r \/ l = 48 :: 88 :: r) /\ forallb PS.ascii_hex_digit r = true).

Definition check_label (last : list N) : bool :=
  if negb (is_nil last) && forallb PS.ascii_digit last then true
  else match S.ipv4_number last with Some _ => true | None => false end.

Lemma ends_in_a_number_unfold : forall s,
  S.ends_in_a_number s =
  match S.last_item (s_norm (S.strictly_split_dot s)) with None => false | Some last => check_label last end.
Proof. reflexivity. Qed.

Lemma forallb_impl : forall (f g : N -> bool) l, (forall x, f x = true -> g x = true) ->
  forallb f l = true -> forallb g l = true.
Proof.
  intros f g l H Hf. rewrite forallb_forall in *. intros x Hx. apply H, Hf, Hx.
Qed.

Lemma radix_digit_10 : forall c, S.radix_digit 10 c = PS.ascii_digit c.
Proof. reflexivity. Qed.
Lemma radix_digit_16 : forall c, S.radix_digit 16 c = PS.ascii_hex_digit c.
Proof. reflexivity. Qed.
Lemma radix_digit_8 : forall c, S.radix_digit 8 c = true -> PS.ascii_digit c = true.
Proof. intro c. unfold S.radix_digit, PS.ascii_digit. change (8 =? 10) with false. change (8 =? 16) with false. cbv iota. lia. Qed.

Lemma s_finish_some : forall R rest, (exists n, s_finish R rest = Some n) <-> forallb (S.radix_digit R) rest = true.
Proof.
  intros R rest. destruct rest as [|d ds].
  - split; [reflexivity|]. intros _. exists 0. reflexivity.
  - unfold s_finish. destruct (forallb (S.radix_digit R) (d :: ds)).
    + split; [reflexivity|eauto].
    + split; [intros [n E]; discriminate E|discriminate].
Qed.

Lemma check_label_shape : forall l, check_label l = true <-> number_label l.
Proof.
  intro l. unfold check_label, number_label. split.
  - intro H. destruct l as [|x t]; [discriminate H|]. split; [discriminate|].
    cbn [is_nil negb andb] in H.
    destruct (forallb PS.ascii_digit (x :: t)) eqn:Ed; [left; reflexivity|].
    rewrite spec_number_unfold in H.
    assert (H10 : forall inp, (exists n, s_finish 10 inp = Some n) -> forallb PS.ascii_digit inp = true).
    { intros inp Hs. apply s_finish_some in Hs.
      rewrite (forallb_ext' _ _ inp radix_digit_10) in Hs. exact Hs. }
    destruct (N.eqb_spec x 48) as [Ex|Ex].
    + subst x. destruct t as [|y r].
      * destruct (s_finish 10 [48]) as [n|] eqn:E; [|discriminate H].
        rewrite (H10 _ (ex_intro _ n E)) in Ed. discriminate Ed.
      * destruct (N.eqb_spec y 120) as [Ey|Ey]; [|destruct (N.eqb_spec y 88) as [Ey'|Ey']]; cbn [orb] in H.
        -- subst y. right. exists r. split; [left; reflexivity|].
           destruct (s_finish 16 r) as [n|] eqn:E; [|discriminate H].
           assert (Hs : exists n, s_finish 16 r = Some n) by eauto.
           apply s_finish_some in Hs. rewrite (forallb_ext' _ _ r radix_digit_16) in Hs. exact Hs.
        -- subst y. right. exists r. split; [right; reflexivity|].
           destruct (s_finish 16 r) as [n|] eqn:E; [|discriminate H].
           assert (Hs : exists n, s_finish 16 r = Some n) by eauto.
           apply s_finish_some in Hs. rewrite (forallb_ext' _ _ r radix_digit_16) in Hs. exact Hs.
        -- destruct (s_finish 8 (y :: r)) as [n|] eqn:E; [|discriminate H].
           assert (Hs : exists n, s_finish 8 (y :: r) = Some n) by eauto.
           apply s_finish_some in Hs. apply (forallb_impl _ _ _ radix_digit_8) in Hs.
           change (forallb PS.ascii_digit (48 :: y :: r)) with (PS.ascii_digit 48 && forallb PS.ascii_digit (y :: r)) in Ed.
           rewrite Hs in Ed. discriminate Ed.
    + destruct (s_finish 10 (x :: t)) as [n|] eqn:E; [|discriminate H].
      rewrite (H10 _ (ex_intro _ n E)) in Ed. discriminate Ed.
  - intros [Hne H]. destruct l as [|x t]; [contradiction|]. cbn [is_nil negb andb].
    destruct (forallb PS.ascii_digit (x :: t)) eqn:Ed; [reflexivity|].
    destruct H as [H|[r [Hl Hr]]]; [discriminate H|].
    assert (Hs : exists n, s_finish 16 r = Some n).
    { apply s_finish_some. rewrite (forallb_ext' _ _ r radix_digit_16). exact Hr. }
    destruct Hs as [n Hs].
    rewrite spec_number_unfold.
    destruct Hl as [Hl|Hl]; injection Hl as Hx Ht; subst x t.
    + change (48 =? 48) with true. change (120 =? 120) with true. cbn [orb]. cbv iota. rewrite Hs. reflexivity.
    + change (48 =? 48) with true. change (88 =? 120) with false. change (88 =? 88) with true. cbn [orb]. cbv iota.
      rewrite Hs. reflexivity.
Qed.

Lemma number_label_nodot : forall l, number_label l -> nodot l = true.
Proof.
  intros l [_ H]. unfold nodot.
  assert (Hd : forall x, PS.ascii_digit x = true -> negb (x =? 46) = true).
  { intro x. unfold PS.ascii_digit. lia. }
  assert (Hh : forall x, PS.ascii_hex_digit x = true -> negb (x =? 46) = true).
  { intro x. unfold PS.ascii_hex_digit, PS.ascii_upper_hex, PS.ascii_digit. lia. }
  destruct H as [H|[r [[Hl|Hl] Hr]]].
  - apply (forallb_impl _ _ _ Hd H).
  - subst l. cbn [forallb]. rewrite (forallb_impl _ _ _ Hh Hr). reflexivity.
  - subst l. cbn [forallb]. rewrite (forallb_impl _ _ _ Hh Hr). reflexivity.
Qed.

Lemma split_aux_snoc : forall s cur, exists init l,
  S.s_split_aux s cur = init ++ [l] /\
  ((init = [] /\ l = rev cur ++ s /\ nodot s = true) \/
   (exists p, s = p ++ 46 :: l /\ nodot l = true /\ S.s_split_aux p cur = init)).
Proof.
  induction s as [|c s IH]; intro cur.
  - exists [], (rev cur). split; [reflexivity|]. left. rewrite app_nil_r. auto.
  - cbn [S.s_split_aux]. destruct (N.eqb_spec c 46) as [Ec|Ec].
    + subst c. destruct (IH []) as [init [l [E [[Hi [Hl Hn]]|[p [Hs [Hn Hp]]]]]]].
      * subst init. cbn [rev app] in Hl. subst l. exists [rev cur], s. split.
        -- rewrite E. reflexivity.
        -- right. exists []. split; [reflexivity|]. split; [exact Hn|reflexivity].
      * exists (rev cur :: init), l. split.
        -- rewrite E. reflexivity.
        -- right. exists (46 :: p). split; [rewrite Hs; reflexivity|]. split; [exact Hn|].
           cbn [S.s_split_aux]. change (46 =? 46) with true. cbv iota. rewrite Hp. reflexivity.
    + destruct (IH (c :: cur)) as [init [l [E [[Hi [Hl Hn]]|[p [Hs [Hn Hp]]]]]]].
      * exists init, l. split; [exact E|]. left. split; [exact Hi|]. split.
        -- rewrite Hl. cbn [rev]. rewrite <- app_assoc. reflexivity.
        -- unfold nodot. cbn [forallb]. fold (nodot s). rewrite Hn.
           destruct (N.eqb_spec c 46); [contradiction|reflexivity].
      * exists init, l. split; [exact E|]. right. exists (c :: p). split; [rewrite Hs; reflexivity|].
        split; [exact Hn|]. cbn [S.s_split_aux]. destruct (N.eqb_spec c 46); [contradiction|exact Hp].
Qed.

Lemma split_snoc : forall s, exists init l,
  S.strictly_split_dot s = init ++ [l] /\
  ((init = [] /\ l = s) \/ (exists p, s = p ++ 46 :: l /\ S.strictly_split_dot p = init)).
Proof.
  intro s. destruct (split_aux_snoc s []) as [init [l [E [[Hi [Hl _]]|[p [Hs [_ Hp]]]]]]].
  - exists init, l. split; [exact E|]. left. auto.
  - exists init, l. split; [exact E|]. right. exists p. auto.
Qed.

Lemma s_norm_snoc_nil : forall init, s_norm (init ++ [[]]) = init.
Proof.
  intro init. unfold s_norm, S.last_item. rewrite last_opt_snoc, removelast_last, app_length.
  destruct init as [|a init]; [reflexivity|]. cbn [length].
  destruct (Nat.eqb_spec (S (length init) + 1) 1); [lia|reflexivity].
Qed.

Lemma s_norm_snoc_cons : forall init l, l <> [] -> s_norm (init ++ [l]) = init ++ [l].
Proof.
  intros init l Hl. unfold s_norm, S.last_item. rewrite last_opt_snoc.
  destruct l; [contradiction|reflexivity].
Qed.

Theorem ends_in_a_number_shape : forall s,
  S.ends_in_a_number s = true <->
  exists pre l suf, s = pre ++ l ++ suf /\
    (pre = [] \/ exists p, pre = p ++ [46]) /\ (suf = [] \/ suf = [46]) /\ number_label l.
Proof.
  intro s. rewrite ends_in_a_number_unfold. unfold S.last_item. split.
  - intro H. destruct (split_snoc s) as [init [l [E D]]]. rewrite E in H.
    destruct l as [|x t].
    + rewrite s_norm_snoc_nil in H.
      destruct D as [[Hi _]|[p [Hs Hp]]]; [subst init; discriminate H|].
      destruct (split_snoc p) as [init2 [l2 [E2 D2]]]. rewrite Hp in E2. rewrite E2, last_opt_snoc in H.
      apply check_label_shape in H.
      destruct D2 as [[_ Hl2]|[p2 [Hs2 _]]].
      * exists [], l2, [46]. split; [subst; reflexivity|]. auto.
      * exists (p2 ++ [46]), l2, [46]. split.
        -- rewrite Hs, Hs2. rewrite <- !app_assoc. reflexivity.
        -- split; [right; eauto|]. auto.
    + rewrite s_norm_snoc_cons, last_opt_snoc in H by discriminate.
      apply check_label_shape in H.
      destruct D as [[_ Hl]|[p [Hs _]]].
      * exists [], (x :: t), []. split; [rewrite app_nil_r; subst; reflexivity|]. auto.
      * exists (p ++ [46]), (x :: t), []. split.
        -- rewrite Hs, app_nil_r, <- app_assoc. reflexivity.
        -- split; [right; eauto|]. auto.
  - intros [pre [l [suf [Hs [Hpre [Hsuf Hl]]]]]].
    pose proof (number_label_nodot l Hl) as Hn. pose proof Hl as [Hne _].
    apply check_label_shape in Hl.
    assert (E : exists X, S.strictly_split_dot s = X ++ [l] \/ S.strictly_split_dot s = (X ++ [l]) ++ [[]]).
    { unfold S.strictly_split_dot. subst s.
      destruct Hpre as [Hpre|[p Hpre]]; destruct Hsuf as [Hsuf|Hsuf]; subst pre suf.
      - exists []. left. rewrite app_nil_r. cbn [app]. rewrite split_nodot by exact Hn. reflexivity.
      - exists []. right. cbn [app]. change (l ++ [46]) with (l ++ 46 :: []).
        rewrite split_app_dot, (split_nodot l) by exact Hn. reflexivity.
      - exists (S.s_split_aux p []). left. rewrite app_nil_r, <- app_assoc. cbn [app].
        rewrite split_app_dot, (split_nodot l) by exact Hn. reflexivity.
      - exists (S.s_split_aux p []). right. rewrite <- app_assoc. cbn [app].
        change (l ++ [46]) with (l ++ 46 :: []).
        rewrite !split_app_dot, (split_nodot l) by exact Hn. cbn [S.s_split_aux rev app]. rewrite <- app_assoc. reflexivity. }
    destruct E as [X [E|E]]; rewrite E.
    + rewrite s_norm_snoc_cons, last_opt_snoc by exact Hne. exact Hl.
    + rewrite s_norm_snoc_nil, last_opt_snoc. exact Hl.
Qed.
Print Assumptions ends_in_a_number_shape.

Example ends_in_a_number_shape_ex :
  exists pre l suf, [97;46;48;88;102;46] = pre ++ l ++ suf /\
    (pre = [] \/ exists p, pre = p ++ [46]) /\ (suf = [] \/ suf = [46]) /\ number_label l.
Proof.
  exists [97;46], [48;88;102], [46]. split; [reflexivity|]. split; [right; exists [97]; reflexivity|].
  split; [right; reflexivity|]. split; [discriminate|]. right. exists [102]. split; [right; reflexivity|reflexivity].
Qed.
