(* Generic lock-step simulation of the state machine for two configurations that differ only in
   the two diagnostics options. *)
From Verif Require Import Lib.Base Lib.Utf8 Lib.GoStr Model.Cfg Gen.Tables Model.Sets Model.Percent
  Model.Url Model.Host Model.Machine Model.Api Proofs.DiagBase.

Set Implicit Arguments.

Section StepSim.
  Variable idna : str -> str * bool.
  Variables c1 c2 : cfg.
  Hypothesis Hag : cagree c1 c2.
  Variable VR : list verr -> list verr -> Prop.
  Variable EP : url -> verr -> Prop.
  Variable EANY : Prop.
  Variable EV : list verr -> Prop.

  Notation UR := (UR VR).
  Notation RR := (RR VR EP EANY EV).

  Hypothesis H_EP : forall u t f e, snd (handleError c1 u t f) = Some e -> EP (fst (handleError c1 u t f)) e.
  Hypothesis H_he : forall u1 u2 t f, UR u1 u2 ->
    match snd (handleError c1 u1 t f), snd (handleError c2 u2 t f) with
    | None, None => VR (u_verrs (fst (handleError c1 u1 t f))) (u_verrs (fst (handleError c2 u2 t f)))
    | Some _, Some _ => True
    | Some _, None => EANY /\ EV (u_verrs (fst (handleError c2 u2 t f)))
    | None, Some _ => False
    end.
  Hypothesis H_ev : forall u t f, EV (u_verrs u) -> EV (u_verrs (fst (handleError c2 u t f))).

  Definition MR (m1 m2 : mstate) : Prop :=
    m_state m1 = m_state m2 /\ m_ptr m1 = m_ptr m2 /\ m_eof m1 = m_eof m2 /\ m_buf m1 = m_buf m2 /\
    m_at m1 = m_at m2 /\ m_br m1 = m_br m2 /\ m_pw m1 = m_pw m2 /\ UR (m_url m1) (m_url m2).

  (* EV holds of whatever record the outcome carries *)
  Definition esc_out (o : outcome) : Prop :=
    match o with
    | Cont m => EV (u_verrs (m_url m))
    | RetUrl u => EV (u_verrs u)
    | RetNilNil u => EV (u_verrs u)
    | RetErr _ _ => True
    | Panic => True
    end.

  Definition OR (o1 o2 : outcome) : Prop :=
    match o1 with
    | Cont m1 => match o2 with Cont m2 => MR m1 m2 | _ => False end
    | RetUrl u1 => match o2 with RetUrl u2 => UR u1 u2 | _ => False end
    | RetErr u1 e1 =>
        EP u1 e1 /\
        ((EANY /\ esc_out o2) \/ match o2 with RetErr u2 e2 => eqv u1 u2 /\ e1 = e2 | _ => False end)
    | RetNilNil u1 => match o2 with RetNilNil u2 => UR u1 u2 | _ => False end
    | Panic => o2 = Panic
    end.

  Lemma mherr_esc u t f (k : url -> outcome) :
    EV (u_verrs u) -> (forall u', EV (u_verrs u') -> esc_out (k u')) -> esc_out (mherr c2 u t f k).
  Proof.
    intros HE Hk. unfold mherr. pose proof (H_ev _ t f HE) as H.
    destruct (handleError c2 u t f) as [u' [e|]]; cbn in *; [exact I|apply Hk, H].
  Qed.

  Lemma parseHost_k_esc u buf ns (k : url -> str -> outcome) :
    EV (u_verrs u) -> (forall u' h, EV (u_verrs u') -> esc_out (k u' h)) ->
    esc_out (match parseHost idna c2 u buf ns with Er u e => RetErr u e | Ok u host => k u host end).
  Proof.
    intros HE Hk. pose proof (@parseHost_esc idna c2 EV H_ev u buf ns HE) as H.
    destruct (parseHost idna c2 u buf ns) as [v h|v e]; [apply Hk, H|exact I].
  Qed.

  Lemma mherr_rel u1 u2 t f (k1 k2 : url -> outcome) :
    UR u1 u2 ->
    (forall u1' u2', UR u1' u2' -> OR (k1 u1') (k2 u2')) ->
    (forall u2', EV (u_verrs u2') -> esc_out (k2 u2')) ->
    OR (mherr c1 u1 t f k1) (mherr c2 u2 t f k2).
  Proof.
    intros HU Hk Hesc. unfold mherr.
    pose proof (H_he t f HU) as Hh.
    pose proof (@H_EP u1 t f) as He.
    pose proof (handleError_eqv c1 c2 t f (UR_eqv HU)) as Hq.
    pose proof (handleError_snd c1 u1 t f) as S1.
    pose proof (handleError_snd c2 u2 t f) as S2.
    destruct (handleError c1 u1 t f) as [u1' o1], (handleError c2 u2 t f) as [u2' o2].
    cbn [fst snd] in *.
    destruct o1 as [e1|], o2 as [e2|]; cbn.
    - split; [apply He; reflexivity|]. right. split; [exact Hq|].
      destruct (f || c_fail c1), (f || c_fail c2); try discriminate.
      inversion S1; inversion S2; subst. apply mkerr_eqv, (UR_eqv HU).
    - split; [apply He; reflexivity|]. left. split; [apply Hh|apply Hesc, Hh].
    - contradiction.
    - apply Hk. split; assumption.
  Qed.

  Lemma mherr_fatal_rel u1 u2 t (k1 k2 : url -> outcome) :
    eqv u1 u2 -> OR (mherr c1 u1 t true k1) (mherr c2 u2 t true k2).
  Proof.
    intros HU. unfold mherr.
    pose proof (@H_EP u1 t true) as He.
    pose proof (handleError_eqv c1 c2 t true HU) as Hq.
    rewrite (handleError_eq c1), (handleError_eq c2) in *. cbn [fst snd orb] in *.
    split; [apply He; reflexivity|]. right. split; [exact Hq|apply mkerr_eqv, HU].
  Qed.

  Lemma parseHost_k_rel u1 u2 buf ns (k1 k2 : url -> str -> outcome) :
    UR u1 u2 ->
    (forall u1' u2' h, UR u1' u2' -> OR (k1 u1' h) (k2 u2' h)) ->
    (forall u2' h, EV (u_verrs u2') -> esc_out (k2 u2' h)) ->
    OR (match parseHost idna c1 u1 buf ns with Er u e => RetErr u e | Ok u host => k1 u host end)
       (match parseHost idna c2 u2 buf ns with Er u e => RetErr u e | Ok u host => k2 u host end).
  Proof.
    intros HU Hk Hesc.
    pose proof (@parseHost_rel idna c1 c2 Hag VR EP EANY EV H_EP H_he H_ev u1 u2 buf ns HU) as HR.
    destruct (parseHost idna c1 u1 buf ns) as [v1 h1|v1 e1].
    - destruct (parseHost idna c2 u2 buf ns) as [v2 h2|v2 e2]; cbn in HR; [|contradiction].
      destruct HR as [HV <-]. apply Hk, HV.
    - destruct HR as [HE [[HA HS]|HX]].
      + split; [exact HE|]. left. split; [exact HA|].
        destruct (parseHost idna c2 u2 buf ns) as [v2 h2|v2 e2]; [apply Hesc, HS|exact I].
      + destruct (parseHost idna c2 u2 buf ns) as [v2 h2|v2 e2]; [contradiction|].
        split; [exact HE|right; exact HX].
  Qed.

  (* building a related pair of urls from explicit records *)
  Lemma UR_build i s un pw h po dp pa op q f sp v1 v2 :
    VR v1 v2 ->
    UR (Build_url i s un pw h po dp pa op q f v1 sp) (Build_url i s un pw h po dp pa op q f v2 sp).
  Proof. intros H; split; [reflexivity|exact H]. Qed.

  Lemma UR_inv u1 u2 : UR u1 u2 ->
    exists i s un pw h po dp pa op q f sp v1 v2,
      u1 = Build_url i s un pw h po dp pa op q f v1 sp /\
      u2 = Build_url i s un pw h po dp pa op q f v2 sp /\ VR v1 v2.
  Proof.
    intros [H HV]. destruct (eqv_inv H) as (i&s&un&pw&h&po&dp&pa&op&q&f&sp&v1&v2&->&->).
    exists i, s, un, pw, h, po, dp, pa, op, q, f, sp, v1, v2. auto.
  Qed.

  Ltac url_fields :=
    cbv beta iota zeta delta
      [u_input u_scheme u_username u_password u_host u_port u_decodedPort u_path u_opaque u_query
       u_fragment u_verrs u_sp set_input set_scheme set_username set_password set_host set_port set_path
       set_query set_fragment set_sp set_verrs addSegment copy_base_auth IsSpecialScheme isSpecialSchemeAndBackslash
       cleanDefaultPort
       mk m_state m_ptr m_eof m_buf m_at m_br m_pw m_url].

  Ltac url_fields_in H :=
    cbv beta iota zeta delta
      [u_input u_scheme u_username u_password u_host u_port u_decodedPort u_path u_opaque u_query
       u_fragment u_verrs u_sp] in H.

  Ltac agrw :=
    rewrite ?(ag_lax Hag), ?(ag_collapse Hag), ?(ag_acceptInvalid Hag), ?(ag_skipDrive Hag),
      ?(ag_skipTrailSlash Hag), ?(ag_pathSet Hag), ?(ag_squerySet Hag), ?(ag_querySet Hag),
      ?(ag_sfragSet Hag), ?(ag_fragSet Hag), ?(ag_percentEncodeRune Hag),
      ?(ag_percentEncodeInvalidRune Hag), ?(ag_cred_loop Hag), ?(ag_getSpecialScheme Hag),
      ?(ag_isSpecialScheme Hag).

  Ltac split_UR H :=
    let i := fresh "i" in let s := fresh "s" in let un := fresh "un" in let pw := fresh "pw" in
    let h := fresh "h" in let po := fresh "po" in let dp := fresh "dp" in let pa := fresh "pa" in
    let op := fresh "op" in let q := fresh "q" in let f := fresh "f" in let sp := fresh "sp" in
    let v1 := fresh "v1" in let v2 := fresh "v2" in let HV := fresh "HV" in
    destruct (UR_inv H) as (i&s&un&pw&h&po&dp&pa&op&q&f&sp&v1&v2&->&->&HV); clear H.

  Ltac leaf0 :=
    solve [ assumption
          | reflexivity
          | cbv [OR MR DiagBase.UR eqv]; url_fields; repeat split; try reflexivity; try assumption ].

  Ltac leaf :=
    first [ leaf0
          | match goal with
            | |- context [match (if ?X then _ else _) with _ => _ end] => destruct X
            | |- context [if ?X then _ else _] => destruct X
            | |- context [match ?X with Some _ => _ | None => _ end] => destruct X
            | |- context [match ?X with _ => _ end] => destruct X
            end; url_fields; leaf ].

  Ltac eleaf0 :=
    solve [ assumption | exact I | cbv [esc_out]; url_fields; assumption ].

  Ltac eleaf :=
    first [ eleaf0
          | match goal with
            | |- context [match (if ?X then _ else _) with _ => _ end] => destruct X
            | |- context [if ?X then _ else _] => destruct X
            | |- context [match ?X with Some _ => _ | None => _ end] => destruct X
            | |- context [match ?X with _ => _ end] => destruct X
            end; url_fields; eleaf ].

  Ltac intro_EV :=
    let u := fresh "w" in let H := fresh "HW" in
    intros u H; destruct u; url_fields_in H; url_fields.
  Ltac intro_EV2 :=
    let u := fresh "w" in let h := fresh "h" in let H := fresh "HW" in
    intros u h H; destruct u; url_fields_in H; url_fields.

  Ltac esc_step :=
    match goal with
    | |- esc_out (mherr _ _ _ _ _) => apply mherr_esc; [url_fields; assumption | intro_EV]
    | |- esc_out (match parseHost _ _ _ _ _ with _ => _ end) =>
        apply parseHost_k_esc; [url_fields; assumption | intro_EV2]
    | |- esc_out ((if ?b then _ else _) _) => destruct b; url_fields
    | |- esc_out (match ?X with _ => _ end) => destruct X; url_fields
    | |- esc_out (Cont _) => eleaf
    | |- esc_out (RetUrl _) => eleaf
    | |- esc_out (RetNilNil _) => eleaf
    | |- esc_out (RetErr _ _) => exact I
    | |- esc_out Panic => exact I
    end.

  Ltac or_step :=
    match goal with
    | |- OR (mherr _ _ _ true _) (mherr _ _ _ true _) => apply mherr_fatal_rel; reflexivity
    | |- OR (mherr _ _ _ _ _) (mherr _ _ _ _ _) =>
        apply mherr_rel; [apply UR_build; assumption
                         | let H := fresh "HU" in intros ? ? H; split_UR H; url_fields; agrw
                         | intro_EV; repeat esc_step]
    | |- OR (match parseHost _ _ _ _ _ with _ => _ end) (match parseHost _ _ _ _ _ with _ => _ end) =>
        apply parseHost_k_rel; [apply UR_build; assumption
                               | let H := fresh "HU" in intros ? ? ? H; split_UR H; url_fields; agrw
                               | intro_EV2; repeat esc_step]
    | |- OR ((if ?b then _ else _) _) ((if ?b then _ else _) _) => destruct b; url_fields; agrw
    | |- OR (match ?X with _ => _ end) (match ?X with _ => _ end) => destruct X; url_fields; agrw
    | |- OR (Cont _) (Cont _) => leaf
    | |- OR (RetUrl _) (RetUrl _) => leaf
    | |- OR (RetNilNil _) (RetNilNil _) => leaf
    | |- OR Panic Panic => reflexivity
    end.

  Ltac start_state :=
    intros HU; split_UR HU; cbv beta iota zeta delta [step]; url_fields; agrw;
    repeat match goal with
    | |- context [if (n_inp ?i <=? ?p)%Z then rune_error else ?x] =>
        let r := fresh "r" in generalize (if (n_inp i <=? p)%Z then rune_error else x); intro r
    | |- context [if (n_inp ?i <=? ?p)%Z then true else ?x] =>
        let e := fresh "eof" in generalize (if (n_inp i <=? p)%Z then true else x); intro e
    end.

  Lemma step_rel_SchemeStart inp base ov p e b a br pw u1 u2 : UR u1 u2 ->
    OR (step idna c1 inp base ov (mk SchemeStart p e b a br pw u1))
       (step idna c2 inp base ov (mk SchemeStart p e b a br pw u2)).
  Proof. start_state. repeat or_step. Qed.

  Lemma step_rel_Scheme inp base ov p e b a br pw u1 u2 : UR u1 u2 ->
    OR (step idna c1 inp base ov (mk Scheme p e b a br pw u1))
       (step idna c2 inp base ov (mk Scheme p e b a br pw u2)).
  Proof. start_state. repeat or_step. Qed.

  Lemma step_rel_NoScheme inp base ov p e b a br pw u1 u2 : UR u1 u2 ->
    OR (step idna c1 inp base ov (mk NoScheme p e b a br pw u1))
       (step idna c2 inp base ov (mk NoScheme p e b a br pw u2)).
  Proof. start_state. repeat or_step. Qed.

  Lemma step_rel_OpaquePath inp base ov p e b a br pw u1 u2 : UR u1 u2 ->
    OR (step idna c1 inp base ov (mk OpaquePath p e b a br pw u1))
       (step idna c2 inp base ov (mk OpaquePath p e b a br pw u2)).
  Proof. start_state. repeat or_step. Qed.

  Lemma step_rel_SpecialRelativeOrAuthority inp base ov p e b a br pw u1 u2 : UR u1 u2 ->
    OR (step idna c1 inp base ov (mk SpecialRelativeOrAuthority p e b a br pw u1))
       (step idna c2 inp base ov (mk SpecialRelativeOrAuthority p e b a br pw u2)).
  Proof. start_state. repeat or_step. Qed.

  Lemma step_rel_SpecialAuthoritySlashes inp base ov p e b a br pw u1 u2 : UR u1 u2 ->
    OR (step idna c1 inp base ov (mk SpecialAuthoritySlashes p e b a br pw u1))
       (step idna c2 inp base ov (mk SpecialAuthoritySlashes p e b a br pw u2)).
  Proof. start_state. repeat or_step. Qed.

  Lemma step_rel_SpecialAuthorityIgnoreSlashes inp base ov p e b a br pw u1 u2 : UR u1 u2 ->
    OR (step idna c1 inp base ov (mk SpecialAuthorityIgnoreSlashes p e b a br pw u1))
       (step idna c2 inp base ov (mk SpecialAuthorityIgnoreSlashes p e b a br pw u2)).
  Proof. start_state. repeat or_step. Qed.

  Lemma step_rel_PathOrAuthority inp base ov p e b a br pw u1 u2 : UR u1 u2 ->
    OR (step idna c1 inp base ov (mk PathOrAuthority p e b a br pw u1))
       (step idna c2 inp base ov (mk PathOrAuthority p e b a br pw u2)).
  Proof. start_state. repeat or_step. Qed.

  Lemma step_rel_Authority inp base ov p e b a br pw u1 u2 : UR u1 u2 ->
    OR (step idna c1 inp base ov (mk Authority p e b a br pw u1))
       (step idna c2 inp base ov (mk Authority p e b a br pw u2)).
  Proof. start_state. repeat or_step. Qed.

  Lemma step_rel_HostSt inp base ov p e b a br pw u1 u2 : UR u1 u2 ->
    OR (step idna c1 inp base ov (mk HostSt p e b a br pw u1))
       (step idna c2 inp base ov (mk HostSt p e b a br pw u2)).
  Proof. start_state. repeat or_step. Qed.

  Lemma step_rel_HostnameSt inp base ov p e b a br pw u1 u2 : UR u1 u2 ->
    OR (step idna c1 inp base ov (mk HostnameSt p e b a br pw u1))
       (step idna c2 inp base ov (mk HostnameSt p e b a br pw u2)).
  Proof. start_state. repeat or_step. Qed.

  Lemma step_rel_File inp base ov p e b a br pw u1 u2 : UR u1 u2 ->
    OR (step idna c1 inp base ov (mk File p e b a br pw u1))
       (step idna c2 inp base ov (mk File p e b a br pw u2)).
  Proof. start_state. repeat or_step. Qed.

  Lemma step_rel_FileHost inp base ov p e b a br pw u1 u2 : UR u1 u2 ->
    OR (step idna c1 inp base ov (mk FileHost p e b a br pw u1))
       (step idna c2 inp base ov (mk FileHost p e b a br pw u2)).
  Proof. start_state. repeat or_step. Qed.

  Lemma step_rel_FileSlash inp base ov p e b a br pw u1 u2 : UR u1 u2 ->
    OR (step idna c1 inp base ov (mk FileSlash p e b a br pw u1))
       (step idna c2 inp base ov (mk FileSlash p e b a br pw u2)).
  Proof. start_state. repeat or_step. Qed.

  Lemma step_rel_PortSt inp base ov p e b a br pw u1 u2 : UR u1 u2 ->
    OR (step idna c1 inp base ov (mk PortSt p e b a br pw u1))
       (step idna c2 inp base ov (mk PortSt p e b a br pw u2)).
  Proof. start_state. repeat or_step. Qed.

  Lemma step_rel_PathSt inp base ov p e b a br pw u1 u2 : UR u1 u2 ->
    OR (step idna c1 inp base ov (mk PathSt p e b a br pw u1))
       (step idna c2 inp base ov (mk PathSt p e b a br pw u2)).
  Proof. start_state. repeat or_step. Qed.

  Lemma step_rel_PathStart inp base ov p e b a br pw u1 u2 : UR u1 u2 ->
    OR (step idna c1 inp base ov (mk PathStart p e b a br pw u1))
       (step idna c2 inp base ov (mk PathStart p e b a br pw u2)).
  Proof. start_state. repeat or_step. Qed.

  Lemma step_rel_QuerySt inp base ov p e b a br pw u1 u2 : UR u1 u2 ->
    OR (step idna c1 inp base ov (mk QuerySt p e b a br pw u1))
       (step idna c2 inp base ov (mk QuerySt p e b a br pw u2)).
  Proof. start_state. repeat or_step. Qed.

  Lemma step_rel_FragmentSt inp base ov p e b a br pw u1 u2 : UR u1 u2 ->
    OR (step idna c1 inp base ov (mk FragmentSt p e b a br pw u1))
       (step idna c2 inp base ov (mk FragmentSt p e b a br pw u2)).
  Proof. start_state. repeat or_step. Qed.

  Lemma step_rel_Relative inp base ov p e b a br pw u1 u2 : UR u1 u2 ->
    OR (step idna c1 inp base ov (mk Relative p e b a br pw u1))
       (step idna c2 inp base ov (mk Relative p e b a br pw u2)).
  Proof. start_state. repeat or_step. Qed.

  Lemma step_rel_RelativeSlash inp base ov p e b a br pw u1 u2 : UR u1 u2 ->
    OR (step idna c1 inp base ov (mk RelativeSlash p e b a br pw u1))
       (step idna c2 inp base ov (mk RelativeSlash p e b a br pw u2)).
  Proof. start_state. repeat or_step. Qed.

  Theorem step_rel inp base ov m1 m2 : MR m1 m2 ->
    OR (step idna c1 inp base ov m1) (step idna c2 inp base ov m2).
  Proof.
    destruct m1 as [st p e b a br pw u1], m2 as [st2 p2 e2 b2 a2 br2 pw2 u2].
    intros (E1&E2&E3&E4&E5&E6&E7&HU); cbn in *. subst st2 p2 e2 b2 a2 br2 pw2.
    destruct st.
    - apply (step_rel_SchemeStart inp base ov p e b a br pw HU).
    - apply (step_rel_Scheme inp base ov p e b a br pw HU).
    - apply (step_rel_NoScheme inp base ov p e b a br pw HU).
    - apply (step_rel_OpaquePath inp base ov p e b a br pw HU).
    - apply (step_rel_SpecialRelativeOrAuthority inp base ov p e b a br pw HU).
    - apply (step_rel_SpecialAuthoritySlashes inp base ov p e b a br pw HU).
    - apply (step_rel_SpecialAuthorityIgnoreSlashes inp base ov p e b a br pw HU).
    - apply (step_rel_PathOrAuthority inp base ov p e b a br pw HU).
    - apply (step_rel_Authority inp base ov p e b a br pw HU).
    - apply (step_rel_HostSt inp base ov p e b a br pw HU).
    - apply (step_rel_HostnameSt inp base ov p e b a br pw HU).
    - apply (step_rel_File inp base ov p e b a br pw HU).
    - apply (step_rel_FileHost inp base ov p e b a br pw HU).
    - apply (step_rel_FileSlash inp base ov p e b a br pw HU).
    - apply (step_rel_PortSt inp base ov p e b a br pw HU).
    - apply (step_rel_PathSt inp base ov p e b a br pw HU).
    - apply (step_rel_PathStart inp base ov p e b a br pw HU).
    - apply (step_rel_QuerySt inp base ov p e b a br pw HU).
    - apply (step_rel_FragmentSt inp base ov p e b a br pw HU).
    - apply (step_rel_Relative inp base ov p e b a br pw HU).
    - apply (step_rel_RelativeSlash inp base ov p e b a br pw HU).
  Qed.

End StepSim.
