(* R8: one-step simulation for the port state, the path start state, the path or authority state, the
   special relative or authority state, the special authority slashes state, the special authority ignore
   slashes state and the relative slash state. *)
From Verif Require Import Lib.Base Lib.Utf8 Lib.GoStr Model.Cfg Gen.Tables Gen.Options Model.Sets Model.Percent
     Model.Url Model.Host Model.Machine.
From Verif Require Spec.Url Spec.Host Spec.BasicParser.
From Verif Require Import Spec.PercentSets Spec.PercentCodec.
From Verif Require Import Proofs.Utf8Proofs Proofs.SetsProofs Proofs.RefineUtf8 Proofs.RefineCodec
     Proofs.RefineHost Proofs.RefineMachineBase.
From Coq Require Import Lia ZifyBool ZifyN ZifyNat.

Section States.
  Variable idna_raw : str -> str * bool.
  Variable c : cfg.
  Hypothesis Hstd : std_cfg c.
  Variable inp : list rune.
  Let input : list N := map rv inp.
  Variable base : option url.
  Variable sbase : option SU.surl.
  Hypothesis Hbase : base_rel base sbase.
  Variable override : option state.

  Let Hfail := std_fail c Hstd.
  Let Hspecial := std_special_tab c Hstd.
  Let Hskip := std_skipTrailSlash c Hstd.

  Notation sim_for := (step_sim_for idna_raw c inp base sbase override).

  Lemma is_some_map' {A B} (f : A -> B) o : is_some (option_map f o) = is_some o.
  Proof. destruct o; reflexivity. Qed.

  (* building the relation after a run, the standard's machine being given by its fields *)
  Lemma mk_after st p e buf a br pw u su sst sbuf sa sbr spw sp :
    st_map st = sst -> sp = p -> (-1 <= p)%Z ->
    e = ((0 <=? p)%Z && (n_inp inp <=? p)%Z) ->
    a = sa -> br = sbr -> pw = spw ->
    st_rel (is_some override) sbase st p buf u (SB.mkM su sst sbuf sa sbr spw sp) ->
    (e = true -> R u su) ->
    Rel_after inp (is_some override) sbase (mk st p e buf a br pw u) (SB.mkM su sst sbuf sa sbr spw sp).
  Proof.
    intros H1 H2 H3 H4 H5 H6 H7 H8 H9.
    constructor; unfold mk; cbn [m_state m_ptr m_eof m_buf m_at m_br m_pw m_url SB.m_state SB.m_pointer SB.m_url].
    - exact H1.
    - exact H2.
    - exact H3.
    - rewrite points_to_eof_spec. exact H4.
    - unfold flags_rel. cbn. repeat split; assumption.
    - exact H8.
    - exact H9.
  Qed.

  Ltac sb_simpl :=
    cbn [SB.decrease_pointer SB.increase_pointer SB.set_state SB.set_pointer SB.set_url SB.set_buffer
         SB.append_to_buffer SB.m_url SB.m_state SB.m_buffer SB.m_pointer SB.m_atSignSeen SB.m_insideBrackets
         SB.m_passwordTokenSeen].
  Ltac after :=
    sb_simpl; cbn [out_rel];
    apply mk_after; [reflexivity | lia | lia | lia | assumption | assumption | assumption
                    | cbn [st_rel SB.m_url SB.m_buffer] | ].

  (* ---------------------------------------------------------------- *)
  (* path or authority state                                           *)
  (* ---------------------------------------------------------------- *)
  Theorem sim_path_or_authority : sim_for (fun st => st = PathOrAuthority).
  Proof.
    intros mm sm Hst [Hs Hp He Hlo Hhi Hfl Hb].
    rewrite Hst in Hs, Hb. cbn [st_map] in Hs. cbn [st_rel] in Hb.
    destruct Hb as [Hbuf [Hsb [HR Hlp]]].
    unfold mstep, sstep, step, SB.step. rewrite Hst, <- Hs. cbv beta iota zeta. rewrite He, Hp.
    set (p := (m_ptr mm + 1)%Z).
    unfold SB.path_or_authority_state.
    destruct sm as [su sst sbuf sa sbr spw sp]. destruct Hfl as [Hf1 [Hf2 Hf3]].
    cbn [SB.m_url SB.m_state SB.m_buffer SB.m_pointer SB.m_atSignSeen SB.m_insideBrackets SB.m_passwordTokenSeen] in *.
    subst sbuf sst. rewrite Hbuf.
    destruct (n_inp inp <=? p)%Z eqn:En.
    - unfold input. rewrite here_eof by lia. cbn [SB.c_of hd_error SB.c_is].
      change (rune_error =? 47) with false. cbv iota.
      after.
      + repeat split; [constructor|exact HR|exact Hlp].
      + discriminate.
    - unfold input. rewrite (here_cons inp p) by lia. cbn [SB.c_of hd_error SB.c_is].
      set (r := cp_at inp p).
      destruct (r =? 47) eqn:E47.
      + after.
        * cbn [length]. repeat split; [constructor|lia|exact HR|exact Hlp].
        * discriminate.
      + after.
        * repeat split; [constructor|exact HR|exact Hlp].
        * discriminate.
  Qed.
End States.

Print Assumptions sim_path_or_authority.
