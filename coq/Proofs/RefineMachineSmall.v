(* R8: one-step simulation for the port state, the path start state, the path or authority state, the
   special relative or authority state, the special authority slashes state, the special authority ignore
   slashes state and the relative slash state. *)
From Verif Require Import Lib.Base Lib.Utf8 Lib.GoStr Model.Cfg Gen.Tables Gen.Options Model.Sets Model.Percent
     Model.Url Model.Host Model.Machine.
From Verif Require Spec.Url Spec.Host Spec.BasicParser.
From Verif Require Import Spec.PercentSets Spec.PercentCodec.
From Verif Require Import Proofs.Utf8Proofs Proofs.SetsProofs Proofs.RefineUtf8 Proofs.RefineCodec
     Proofs.RefineHost Proofs.RefineMachineBase.
From Coq Require Import Lia ZifyBool ZifyN ZifyNat.

(* building the relation after a run, the standard's machine being given by its fields *)
Lemma mk_after inp ov sbase st p e buf a br pw u su sst sbuf sa sbr spw sp :
  st_map st = sst -> sp = p -> (-1 <= p)%Z ->
  e = ((0 <=? p)%Z && (n_inp inp <=? p)%Z) ->
  a = sa -> br = sbr -> pw = spw ->
  st_rel ov sbase st p buf u (SB.mkM su sst sbuf sa sbr spw sp) ->
  (e = true -> R u su) ->
  Rel_after inp ov sbase (mk st p e buf a br pw u) (SB.mkM su sst sbuf sa sbr spw sp).
Proof.
  intros H1 H2 H3 H4 H5 H6 H7 H8 H9.
  constructor; unfold mk; cbn [m_state m_ptr m_eof m_buf m_at m_br m_pw m_url SB.m_state SB.m_pointer SB.m_url].
  - exact H1.
  - exact H2.
  - exact H3.
  - rewrite points_to_eof_spec. exact H4.
  - unfold flags_rel. cbn. repeat split; assumption.
  - exact H8.
  - exact H9.
Qed.

Section States.
  Variable idna_raw : str -> str * bool.
  Variable c : cfg.
  Hypothesis Hstd : std_cfg c.
  Variable inp : list rune.
  Let input : list N := map rv inp.
  Variable base : option url.
  Variable sbase : option SU.surl.
  Hypothesis Hbase : base_rel base sbase.
  Variable override : option state.

  Let Hfail := std_fail c Hstd.
  Let Hspecial := std_special_tab c Hstd.
  Let Hskip := std_skipTrailSlash c Hstd.

  Notation sim_for := (step_sim_for idna_raw c inp base sbase override).

  Lemma is_some_map' {A B} (f : A -> B) o : is_some (option_map f o) = is_some o.
  Proof. destruct o; reflexivity. Qed.

  (* linear arithmetic over the pointer, after clearing what [lia] would waste its time on *)
  Ltac zl :=
    repeat match goal with
    | H : ?T |- _ =>
        lazymatch T with
        | (_ <= _)%Z => fail
        | (_ < _)%Z => fail
        | ((_ <=? _)%Z = _) => fail
        | _ => clear H
        end
    end; lia.

  Ltac sb_simpl :=
    cbv [SB.decrease_pointer SB.increase_pointer SB.set_state SB.set_pointer SB.set_url SB.set_buffer
         SB.append_to_buffer];
    cbn [SB.m_url SB.m_state SB.m_buffer SB.m_pointer SB.m_atSignSeen SB.m_insideBrackets
         SB.m_passwordTokenSeen].
  Ltac after :=
    sb_simpl; cbn [out_rel];
    apply mk_after; [reflexivity | zl | zl | zl | assumption | assumption | assumption
                    | cbn [st_rel SB.m_url SB.m_buffer] | ].
  (* the common start: the standard's machine by its fields *)
  Ltac start mm sm Hst Hs Hp He Hlo Hhi Hb :=
    let Hfl := fresh "Hfl" in
    intros mm sm Hst [Hs Hp He Hlo Hhi Hfl Hb];
    rewrite Hst in Hs, Hb; cbn [st_map] in Hs; cbn [st_rel] in Hb;
    destruct sm as [su sst sbuf sa sbr spw sp]; destruct Hfl as [Hf1 [Hf2 Hf3]];
    cbn [SB.m_url SB.m_state SB.m_buffer SB.m_pointer SB.m_atSignSeen SB.m_insideBrackets
         SB.m_passwordTokenSeen] in Hs, Hp, Hf1, Hf2, Hf3, Hb;
    subst sst sp;
    unfold mstep, sstep, step, SB.step;
    cbn [SB.m_url SB.m_state SB.m_buffer SB.m_pointer SB.m_atSignSeen SB.m_insideBrackets
         SB.m_passwordTokenSeen];
    rewrite Hst; cbv beta iota zeta; rewrite He.

  (* ---------------------------------------------------------------- *)
  (* path or authority state                                           *)
  (* ---------------------------------------------------------------- *)
  Theorem sim_path_or_authority : sim_for (fun st => st = PathOrAuthority).
  Proof.
    start mm sm Hst Hs Hp He Hlo Hhi Hb.
    destruct Hb as [Hbuf [Hsb [HR Hlp]]]. subst sbuf. rewrite Hbuf.
    set (p := (m_ptr mm + 1)%Z).
    unfold SB.path_or_authority_state.
    destruct (n_inp inp <=? p)%Z eqn:En.
    - unfold input.
      rewrite here_eof by zl. cbn [SB.c_of hd_error SB.c_is].
      change (rune_error =? 47) with false. cbv iota.
      after.
      + split; [reflexivity|]. split; [constructor|]. split; [exact HR|exact Hlp].
      + discriminate.
    - unfold input. rewrite (here_cons inp p) by zl. cbn [SB.c_of hd_error SB.c_is].
      set (r := cp_at inp p).
      destruct (r =? 47) eqn:E47.
      + after.
        * cbn [length]. split; [reflexivity|]. split; [constructor|]. split; [zl|]. split; [exact HR|exact Hlp].
        * discriminate.
      + after.
        * split; [reflexivity|]. split; [constructor|]. split; [exact HR|exact Hlp].
        * discriminate.
  Qed.

  (* ---------------------------------------------------------------- *)
  (* special authority ignore slashes state                            *)
  (* ---------------------------------------------------------------- *)
  Theorem sim_special_authority_ignore_slashes : sim_for (fun st => st = SpecialAuthorityIgnoreSlashes).
  Proof.
    start mm sm Hst Hs Hp He Hlo Hhi Hb.
    destruct Hb as [Hbuf [Hsb [HR Hlp]]]. subst sbuf. rewrite Hbuf.
    set (p := (m_ptr mm + 1)%Z).
    unfold SB.special_authority_ignore_slashes_state.
    destruct (n_inp inp <=? p)%Z eqn:En.
    - unfold input. rewrite here_eof by zl. cbn [SB.c_of hd_error SB.c_is].
      change (rune_error =? 47) with false. change (rune_error =? 92) with false. cbn [negb andb].
      after.
      + cbn [length]. split; [reflexivity|]. split; [constructor|]. split; [zl|]. split; [exact HR|exact Hlp].
      + discriminate.
    - unfold input. rewrite (here_cons inp p) by zl. cbn [SB.c_of hd_error SB.c_is].
      set (r := cp_at inp p).
      destruct (negb (r =? 47) && negb (r =? 92)) eqn:E.
      + after.
        * cbn [length]. split; [reflexivity|]. split; [constructor|]. split; [zl|]. split; [exact HR|exact Hlp].
        * discriminate.
      + rewrite mherr_warn by exact Hfail. after.
        * split; [reflexivity|]. split; [reflexivity|]. split; [apply R_noted; exact HR|exact Hlp].
        * discriminate.
  Qed.

  (* ---------------------------------------------------------------- *)
  (* special authority slashes state                                   *)
  (* ---------------------------------------------------------------- *)
  (* a second '/' after the pointer: the pointer + 1 is inside the input *)
  Lemma second_slash p : SB.starts_with (SB.substring_from input (p + 1)) [47] = true -> (p + 1 < n_inp inp)%Z.
  Proof.
    intros H. destruct (n_inp inp <=? p + 1)%Z eqn:E; [|lia].
    unfold input in H. rewrite here_eof in H by lia. discriminate H.
  Qed.

  Theorem sim_special_authority_slashes : sim_for (fun st => st = SpecialAuthoritySlashes).
  Proof.
    start mm sm Hst Hs Hp He Hlo Hhi Hb.
    destruct Hb as [Hbuf [Hsb [HR Hlp]]]. subst sbuf. rewrite Hbuf.
    set (p := (m_ptr mm + 1)%Z).
    unfold SB.special_authority_slashes_state.
    destruct (n_inp inp <=? p)%Z eqn:En.
    - unfold input. rewrite here_eof by zl. cbn [SB.c_of hd_error SB.c_is].
      change (rune_error =? 47) with false. cbn [andb].
      rewrite mherr_warn by exact Hfail. after.
      + split; [reflexivity|]. split; [reflexivity|]. split; [apply R_noted; exact HR|exact Hlp].
      + discriminate.
    - rewrite (remainingStartsWith_spec inp p) by zl.
      unfold input. rewrite (here_cons inp p) by zl. cbn [SB.c_of hd_error SB.c_is SB.remaining tl].
      set (r := cp_at inp p).
      destruct ((r =? 47) && SB.starts_with (SB.substring_from (map rv inp) (p + 1)) [47]) eqn:E.
      + apply andb_true_iff in E. destruct E as [_ E]. apply second_slash in E.
        replace (n_inp inp <=? p + 1)%Z with false by zl.
        after.
        * split; [reflexivity|]. split; [reflexivity|]. split; [exact HR|exact Hlp].
        * discriminate.
      + rewrite mherr_warn by exact Hfail. after.
        * split; [reflexivity|]. split; [reflexivity|]. split; [apply R_noted; exact HR|exact Hlp].
        * discriminate.
  Qed.

  (* ---------------------------------------------------------------- *)
  (* special relative or authority state                               *)
  (* ---------------------------------------------------------------- *)
  Theorem sim_special_relative_or_authority : sim_for (fun st => st = SpecialRelativeOrAuthority).
  Proof.
    start mm sm Hst Hs Hp He Hlo Hhi Hb.
    destruct Hb as [Hbuf [Hsb [HR [Hlp Hbnf]]]]. subst sbuf. rewrite Hbuf.
    set (p := (m_ptr mm + 1)%Z).
    unfold SB.special_relative_or_authority_state.
    destruct (n_inp inp <=? p)%Z eqn:En.
    - unfold input. rewrite here_eof by zl. cbn [SB.c_of hd_error SB.c_is].
      change (rune_error =? 47) with false. cbn [andb].
      rewrite mherr_warn by exact Hfail. after.
      + split; [reflexivity|]. split; [reflexivity|]. split; [apply R_noted; exact HR|]. split; [exact Hlp|exact Hbnf].
      + discriminate.
    - rewrite (remainingStartsWith_spec inp p) by zl.
      unfold input. rewrite (here_cons inp p) by zl. cbn [SB.c_of hd_error SB.c_is SB.remaining tl].
      set (r := cp_at inp p).
      destruct ((r =? 47) && SB.starts_with (SB.substring_from (map rv inp) (p + 1)) [47]) eqn:E.
      + apply andb_true_iff in E. destruct E as [_ E]. apply second_slash in E.
        replace (n_inp inp <=? p + 1)%Z with false by zl.
        after.
        * split; [reflexivity|]. split; [reflexivity|]. split; [exact HR|exact Hlp].
        * discriminate.
      + rewrite mherr_warn by exact Hfail. after.
        * split; [reflexivity|]. split; [reflexivity|]. split; [apply R_noted; exact HR|]. split; [exact Hlp|exact Hbnf].
        * discriminate.
  Qed.

  (* ---------------------------------------------------------------- *)
  (* relative slash state                                              *)
  (* ---------------------------------------------------------------- *)
  Theorem sim_relative_slash : sim_for (fun st => st = RelativeSlash).
  Proof.
    start mm sm Hst Hs Hp He Hlo Hhi Hb.
    destruct Hb as [Hbuf [Hsb [HR [Hlp Hsome]]]]. subst sbuf. rewrite Hbuf.
    set (p := (m_ptr mm + 1)%Z).
    unfold SB.relative_slash_state, SB.special. cbn [SB.m_url].
    rewrite (R_special c _ su Hspecial HR).
    (* the third step: the authority of the base *)
    assert (G : out_rel inp (is_some override) sbase
      match base with
      | Some b => Cont (mk PathSt (p - 1) false [] (m_at mm) (m_br mm) (m_pw mm) (copy_base_auth (m_url mm) b))
      | None => Panic
      end
      match sbase with
      | Some b =>
          SB.SCont (SB.decrease_pointer (SB.set_state (SB.set_url (SB.mkM su SB.RelativeSlashState [] sa sbr spw p)
            (SU.with_port (SU.with_host (SU.with_password (SU.with_username su (SU.u_username b)) (SU.u_password b))
                                        (SU.u_host b)) (SU.u_port b))) SB.PathState) 1)
      | None => SB.SBug
      end).
    { destruct sbase as [sb|]; [|congruence]. destruct base as [b|]; [|contradiction Hbase].
      cbn [base_rel] in Hbase. after.
      - split; [reflexivity|]. split; [constructor|]. split; [apply R_copy_base_auth; assumption|].
        destruct su; exact Hlp.
      - discriminate. }
    destruct (n_inp inp <=? p)%Z eqn:En.
    - unfold input. rewrite here_eof by zl. cbn [SB.c_of hd_error SB.c_is].
      change (rune_error =? 47) with false. change (rune_error =? 92) with false.
      cbn [orb]. rewrite andb_false_r. exact G.
    - unfold input. rewrite (here_cons inp p) by zl. cbn [SB.c_of hd_error SB.c_is].
      set (r := cp_at inp p).
      destruct (SU.url_is_special su && ((r =? 47) || (r =? 92))) eqn:E.
      + destruct (r =? 92); rewrite ?mherr_warn by exact Hfail; after.
        * split; [reflexivity|]. split; [reflexivity|]. split; [apply R_noted; exact HR|exact Hlp].
        * discriminate.
        * split; [reflexivity|]. split; [reflexivity|]. split; [exact HR|exact Hlp].
        * discriminate.
      + destruct (r =? 47) eqn:E47.
        * after.
          -- cbn [length]. split; [reflexivity|]. split; [constructor|]. split; [zl|]. split; [exact HR|exact Hlp].
          -- discriminate.
        * exact G.
  Qed.

  (* ---------------------------------------------------------------- *)
  (* path start state                                                  *)
  (* ---------------------------------------------------------------- *)
  Theorem sim_path_start : sim_for (fun st => st = PathStart).
  Proof.
    start mm sm Hst Hs Hp He Hlo Hhi Hb.
    destruct Hb as [Hbuf [Hsb [HR Hlp]]]. subst sbuf. rewrite Hbuf.
    set (p := (m_ptr mm + 1)%Z).
    unfold SB.path_start_state, SB.override_given, overridden. rewrite is_some_map'. cbn [SB.m_url].
    rewrite Hskip. cbn [negb]. rewrite andb_true_r.
    rewrite (R_special c _ su Hspecial HR).
    destruct (n_inp inp <=? p)%Z eqn:En.
    - (* the EOF code point *)
      unfold input. rewrite here_eof by zl. cbn [SB.c_of hd_error SB.c_is SB.c_is_eof].
      change (rune_error =? 47) with false. change (rune_error =? 92) with false.
      change (rune_error =? 63) with false. change (rune_error =? 35) with false.
      rewrite !andb_false_r. cbn [negb andb].
      destruct (SU.url_is_special su) eqn:Esp.
      + after.
        * split; [reflexivity|]. split; [constructor|]. split; [exact HR|exact Hlp].
        * discriminate.
      + rewrite (R_host_none _ _ HR).
        destruct (is_some override && negb (is_some (SU.u_host su))) eqn:Eo.
        * destruct (list_path_inv su Hlp) as [segs Hsegs].
          unfold SB.append_segment. rewrite Hsegs.
          pose proof (R_addSegment (m_url mm) su segs [] HR Hsegs) as HR'.
          change (encode_runes []) with (@nil N) in HR'.
          unfold addSegment. after.
          -- split; [reflexivity|]. split; [reflexivity|]. split; [exact HR'|reflexivity].
          -- intros _. exact HR'.
        * after.
          -- split; [reflexivity|]. split; [reflexivity|]. split; [exact HR|exact Hlp].
          -- intros _. exact HR.
    - (* a code point *)
      unfold input. rewrite (here_cons inp p) by zl. cbn [SB.c_of hd_error SB.c_is SB.c_is_eof].
      set (r := cp_at inp p). cbn [negb].
      destruct (SU.url_is_special su) eqn:Esp.
      + destruct (r =? 92) eqn:E92; rewrite ?mherr_warn by exact Hfail;
          destruct (negb (r =? 47)) eqn:E47; cbn [negb andb]; after.
        * split; [reflexivity|]. split; [constructor|]. split; [apply R_noted; exact HR|exact Hlp].
        * discriminate.
        * split; [reflexivity|]. split; [constructor|]. split; [apply R_noted; exact HR|exact Hlp].
        * discriminate.
        * split; [reflexivity|]. split; [constructor|]. split; [exact HR|exact Hlp].
        * discriminate.
        * split; [reflexivity|]. split; [constructor|]. split; [exact HR|exact Hlp].
        * discriminate.
      + destruct (negb (is_some override) && (r =? 63)) eqn:E63.
        { after.
          - exists []. split; [reflexivity|]. split; [reflexivity|]. split; [reflexivity|].
            apply R_Rq. apply (R_set_query _ _ (Some [])). exact HR.
          - discriminate. }
        destruct (negb (is_some override) && (r =? 35)) eqn:E35.
        { after.
          - exists []. split; [reflexivity|]. split; [reflexivity|].
            apply R_Rf. apply (R_set_fragment _ _ (Some [])). exact HR.
          - discriminate. }
        destruct (negb (r =? 47)) eqn:E47; after.
        * split; [reflexivity|]. split; [constructor|]. split; [exact HR|exact Hlp].
        * discriminate.
        * split; [reflexivity|]. split; [constructor|]. split; [exact HR|exact Hlp].
        * discriminate.
  Qed.

  (* ---------------------------------------------------------------- *)
  (* port state                                                        *)
  (* ---------------------------------------------------------------- *)
  Lemma isDigit_eof : isDigit rune_error = false.
  Proof. rewrite digit_table. reflexivity. Qed.

  Lemma enc_rune_single r : utf8_enc r = encode_runes [r].
  Proof. unfold encode_runes. cbn [flat_map]. rewrite app_nil_r. reflexivity. Qed.

  Lemma with_port_default su port :
    (if opt_eqb N.eqb (SU.u_port (SU.with_port su (Some port)))
          (SU.default_port (SU.u_scheme (SU.with_port su (Some port))))
     then SU.with_port (SU.with_port su (Some port)) None else SU.with_port su (Some port))
    = SU.with_port su (if opt_eqb N.eqb (Some port) (SU.default_port (SU.u_scheme su)) then None else Some port).
  Proof.
    destruct su as [sc us pw h po pa q f]. cbn [SU.with_port SU.u_port SU.u_scheme SU.u_username SU.u_password
      SU.u_host SU.u_path SU.u_query SU.u_fragment].
    destruct (opt_eqb N.eqb (Some port) (SU.default_port sc)); reflexivity.
  Qed.

  Theorem sim_port : sim_for (fun st => st = PortSt).
  Proof.
    start mm sm Hst Hs Hp He Hlo Hhi Hb.
    destruct Hb as [Hbuf [Hdig [HR Hlp]]].
    set (p := (m_ptr mm + 1)%Z).
    unfold SB.port_state, SB.ends_authority, SB.special, SB.override_given, overridden, isSpecialSchemeAndBackslash.
    rewrite is_some_map'. cbn [SB.m_url SB.m_buffer]. cbv zeta.
    rewrite (R_special c _ su Hspecial HR).
    pose proof (digits_ascii sbuf Hdig) as Hasc.
    rewrite (enc_runes_ascii sbuf Hasc) in Hbuf. rewrite Hbuf. clear Hbuf.
    rewrite (digits_val_spec sbuf Hdig).
    set (port := S4.to_number 10 sbuf).
    set (M0 := SB.mkM su SB.PortState sbuf sa sbr spw p).
    (* step 2 of the standard's port state *)
    assert (G : out_rel inp (is_some override) sbase
      (if negb (is_nil sbuf) then
         (if 65535 <? port then (fun k => mherr c (m_url mm) PortOutOfRange true k) else (fun k => k (m_url mm)))
           (fun u => if is_some override
                     then RetUrl (cleanDefaultPort c (set_port u (Some (itoa port)) port))
                     else Cont (mk PathStart (p - 1) false [] (m_at mm) (m_br mm) (m_pw mm)
                                   (cleanDefaultPort c (set_port u (Some (itoa port)) port))))
       else if is_some override
            then mherr c (m_url mm) PortMissing true
                   (fun u => if is_some override then RetUrl u
                             else Cont (mk PathStart (p - 1) false sbuf (m_at mm) (m_br mm) (m_pw mm) u))
            else if is_some override then RetUrl (m_url mm)
                 else Cont (mk PathStart (p - 1) false sbuf (m_at mm) (m_br mm) (m_pw mm) (m_url mm)))
      match (if negb (is_nil sbuf)
             then if 65535 <? port then None
                  else Some (SB.set_buffer (SB.set_url M0
                         (SU.with_port su (if opt_eqb N.eqb (Some port) (SU.default_port (SU.u_scheme su))
                                           then None else Some port))) [])
             else Some M0) with
      | Some m => if is_some override then SB.SRet (SB.m_url m)
                  else SB.SCont (SB.decrease_pointer (SB.set_state m SB.PathStartState) 1)
      | None => SB.SFail su
      end).
    { destruct (is_nil sbuf) eqn:Enil; cbn [negb].
      - (* the buffer is empty *)
        assert (sbuf = []) by (destruct sbuf; [reflexivity|discriminate Enil]). subst sbuf.
        destruct (is_some override) eqn:Eov.
        + match goal with |- context [mherr c ?u ?t true ?k] => destruct (mherr_fatal c u t k) as [e ->] end.
          cbn [out_rel]. unfold M0. sb_simpl. split; [reflexivity|apply R_noted; exact HR].
        + unfold M0. after.
          * split; [reflexivity|]. split; [reflexivity|]. split; [exact HR|exact (Hlp eq_refl)].
          * discriminate.
      - (* a port number *)
        destruct (65535 <? port) eqn:Eport.
        + match goal with |- context [mherr c ?u ?t true ?k] => destruct (mherr_fatal c u t k) as [e ->] end.
          cbn [out_rel]. apply R_noted. exact HR.
        + cbv beta.
          pose proof (R_set_port (m_url mm) su (Some port) port HR) as HR1.
          cbn [option_map] in HR1. rewrite <- itoa_bytes in HR1.
          pose proof (R_cleanDefaultPort c _ _ Hspecial HR1) as HR2.
          rewrite with_port_default in HR2.
          destruct (is_some override) eqn:Eov.
          * cbn [out_rel]. unfold M0. sb_simpl. exact HR2.
          * unfold M0. after.
            -- split; [reflexivity|]. split; [reflexivity|]. split; [exact HR2|].
               pose proof (Hlp eq_refl) as L. destruct su; exact L.
            -- discriminate. }
    subst M0.
    destruct (n_inp inp <=? p)%Z eqn:En.
    - (* the EOF code point *)
      unfold input. rewrite here_eof by zl. cbn [SB.c_of hd_error SB.c_is SB.c_is_eof].
      rewrite isDigit_eof. cbn [orb]. exact G.
    - (* a code point *)
      unfold input. rewrite (here_cons inp p) by zl. cbn [SB.c_of hd_error SB.c_is SB.c_is_eof].
      set (r := cp_at inp p). rewrite digit_table.
      destruct (ascii_digit r) eqn:Ed.
      + (* a digit *)
        after.
        * split.
          { rewrite enc_runes_app, (enc_runes_ascii sbuf Hasc), (enc_rune_single r). reflexivity. }
          split; [rewrite forallb_app, Hdig; cbn [forallb]; rewrite Ed; reflexivity|].
          split; [exact HR|exact Hlp].
        * discriminate.
      + cbn [orb].
        destruct ((r =? 47) || (r =? 63) || (r =? 35) || SU.url_is_special su && (r =? 92) || is_some override) eqn:Et.
        * exact G.
        * match goal with |- context [mherr c ?u ?t true ?k] => destruct (mherr_fatal c u t k) as [e ->] end.
          cbn [out_rel]. apply R_noted. exact HR.
  Qed.

End States.

Print Assumptions sim_path_or_authority.
Print Assumptions sim_special_authority_ignore_slashes.
Print Assumptions sim_special_authority_slashes.
Print Assumptions sim_special_relative_or_authority.
Print Assumptions sim_relative_slash.
Print Assumptions sim_path_start.
Print Assumptions sim_port.

(* the premises hold: the default configuration is standard, and no base is related to no base *)
Example sim_port_default idna_raw inp base sbase override :
  step_sim_for idna_raw default_cfg inp base sbase override (fun st => st = PortSt).
Proof. exact (sim_port idna_raw default_cfg std_cfg_default inp base sbase override). Qed.

Example sim_relative_slash_default idna_raw inp override :
  step_sim_for idna_raw default_cfg inp None None override (fun st => st = RelativeSlash).
Proof. exact (sim_relative_slash idna_raw default_cfg std_cfg_default inp None None I override). Qed.

Check sim_port.
Check sim_path_start.
Check sim_path_or_authority.
Check sim_special_relative_or_authority.
Check sim_special_authority_slashes.
Check sim_special_authority_ignore_slashes.
Check sim_relative_slash.
