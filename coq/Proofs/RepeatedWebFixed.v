(* Repeated percent-decoding for configurations outside CfgRT (task G2): spellings (C18) and the fixed point (C17)
   on web URL texts, under [CfgWeb].
   The route of RepeatedFixed.v with one change: the canonical string is not re-parsed through the round-trip
   theorem (which needs CfgRT and the record invariant of the strict configuration) but through the normal-form
   theorem [normal_form_web]: the canonical record is the normal form of its own serialization. *)
From Verif Require Import Lib.Base Lib.Utf8 Lib.GoStr Model.Cfg Gen.Tables Gen.Options Model.Sets Model.Percent
  Model.Url Model.Host Model.Machine Model.Api Model.Canon Model.Preds.
From Verif Require Import Proofs.SetsProofs Proofs.PhaseLemmas Proofs.RecordInv Proofs.MachineInv
  Proofs.CodecProofs Proofs.SearchParamsProofs Proofs.CanonTotal Proofs.HostProofs Proofs.IPv4Proofs
  Proofs.RoundTripBase Proofs.RoundTripPhases Proofs.RoundTripSpecial Proofs.RoundTripHosts
  Proofs.CanonIdem Proofs.NormalFormPhases Proofs.NormalForm
  Proofs.SpellingProofs Proofs.SpellingDecode Proofs.RepeatedSteps Proofs.RepeatedIdem
  Proofs.WebCfg Proofs.WebSteps Proofs.RepeatedWeb.
From Coq Require Import Lia ZifyBool ZifyN ZifyNat Permutation.

Local Arguments N.mul : simpl never.
Local Arguments N.add : simpl never.
Local Arguments N.sub : simpl never.
Local Arguments N.eqb : simpl never.
Local Arguments N.ltb : simpl never.
Local Arguments N.leb : simpl never.

(* ------------------------------------------------------------------------------------------ *)
(* small facts                                                                                 *)
(* ------------------------------------------------------------------------------------------ *)
Lemma forallb_perm_w {A} (f : A -> bool) l l' : Permutation l l' -> forallb f l = true -> forallb f l' = true.
Proof.
  intros Hp H. rewrite forallb_forall in *. intros x Hx. apply H. apply (Permutation_in x (Permutation_sym Hp) Hx).
Qed.

Lemma lower_lower x : ascii_lower (ascii_lower x) = ascii_lower x.
Proof. unfold ascii_lower, is_upper. destruct ((65 <=? x) && (x <=? 90)) eqn:E; [|rewrite E; reflexivity]. replace ((65 <=? x + 32) && (x + 32 <=? 90)) with false by lia. reflexivity. Qed.

Lemma str_lower_idem s : str_lower (str_lower s) = str_lower s.
Proof. unfold str_lower. rewrite map_map. apply map_ext. exact lower_lower. Qed.

Lemma alpha_lower x : isAlpha x = true -> isAlpha (ascii_lower x) = true.
Proof.
  intros H. destruct (alpha_small x H) as [Hx _].
  pose proof (sweep128 (fun x => implb (isAlpha x) (isAlpha (ascii_lower x))) ltac:(vm_compute; reflexivity) x Hx) as S.
  cbv beta in S. rewrite H in S. exact S.
Qed.

Lemma schemechar_lower x : is_schemechar x = true -> is_schemechar (ascii_lower x) = true.
Proof.
  intros H. destruct (schemechar_small x H) as [Hx _].
  pose proof (sweep128 (fun x => implb (is_schemechar x) (is_schemechar (ascii_lower x))) ltac:(vm_compute; reflexivity) x Hx) as S.
  cbv beta in S. rewrite H in S. exact S.
Qed.

Lemma scheme_text_lower s : scheme_text s = true -> scheme_text (str_lower s) = true.
Proof.
  destruct s as [|a r]; [discriminate|]. unfold scheme_text. cbn [str_lower map]. intros H. apply andb_true_iff in H.
  destruct H as [H1 H2]. rewrite (alpha_lower a H1). cbn [andb]. rewrite forallb_forall in *. intros y Hy.
  apply in_map_iff in Hy. destruct Hy as [x [<- Hx]]. apply schemechar_lower. apply H2. exact Hx.
Qed.

Lemma schemechar_not37 s : scheme_text s = true -> ~ In 37 s.
Proof.
  intros H Hi. destruct (scheme_text_vis s H) as [_ Hv]. destruct s as [|a r]; [destruct Hi|].
  unfold scheme_text in H. apply andb_true_iff in H. destruct H as [H1 H2]. destruct Hi as [->|Hi].
  - vm_compute in H1. discriminate H1.
  - rewrite forallb_forall in H2. specialize (H2 37 Hi). vm_compute in H2. discriminate H2.
Qed.

Lemma nf_port_cons c l d : d <> [] ->
  nf_port c l (Some d) =
  if opt_eqb str_eqb (getSpecialScheme c l) (Some (itoa (digits_val 10 d))) then (None, 0)
  else (Some (itoa (digits_val 10 d)), digits_val 10 d).
Proof. destruct d as [|x d]; [congruence|]. intros _. reflexivity. Qed.

(* the port component of a normal form is a fixed point of nf_port *)
Lemma nf_port_fixed c l op : port_text_okb op = true ->
  port_text_okb (fst (nf_port c l op)) = true /\
  nf_port c l (fst (nf_port c l op)) = nf_port c l op.
Proof.
  intros Hp. destruct op as [[|x d]|]; try (split; reflexivity).
  change (nf_port c l (@Some str (x :: d))) with (nf_port c l (Some (x :: d))).
  rewrite (nf_port_cons c l (x :: d) ltac:(discriminate)). set (v := digits_val 10 (x :: d)).
  destruct (opt_eqb str_eqb (getSpecialScheme c l) (Some (itoa v))) eqn:E; cbn [fst]; [split; reflexivity|].
  cbn [port_text_okb] in Hp. apply andb_true_iff in Hp. destruct Hp as [_ Hv]. fold v in Hv.
  split.
  - cbn [port_text_okb]. rewrite (itoa_val v), Hv, andb_true_r. pose proof (itoa_canonical v) as F.
    unfold canonical_decimal in F. apply andb_true_iff in F. destruct F as [F _]. apply andb_true_iff in F. apply F.
  - etransitivity; [apply nf_port_cons; apply itoa_nonnil|]. rewrite (itoa_val v), E. reflexivity.
Qed.

(* ------------------------------------------------------------------------------------------ *)
(* R2 under CfgWeb                                                                              *)
(* ------------------------------------------------------------------------------------------ *)
Section R2W.
  Variable idna_raw : str -> str * bool.
  Variable p : profile.
  Notation c := (p_cfg p).
  Hypothesis W : CfgWeb c.
  Hypothesis Hrepd : p_repeated p = true.

  (* the text: the grammar of N1, well-formed escapes (or c_singlePct off), no empty segment but the last (or
     c_collapse off) *)
  Definition web_text_ok (k : comps) : Prop :=
    comps_ok c k = true /\ pq c (text_of k) /\
    (c_collapse c = false \/ forallb nonempty (removelast (k_segs k)) = true).

  Lemma Parse_nf_w k h : web_text_ok k -> host_val idna_raw c (k_host k) = Some h ->
    Parse idna_raw c (text_of k) = PUrl (nf c k h).
  Proof using W.
    intros [Hk [Hq Hc]] Hv. rewrite (normal_form_web idna_raw c W k Hk Hq Hc). unfold host_val in Hv.
    rewrite (parseHost_val_indep idna_raw c (W_fail c W) (k_host k) false (empty_url []) (pre_host c k)) in Hv.
    destruct (parseHost idna_raw c (pre_host c k) (k_host k) false); cbn [val] in Hv; [|discriminate Hv].
    injection Hv as ->. reflexivity.
  Qed.

  (* the checks on the decoded components, as a boolean *)
  Definition rcomps_ok_w (k : comps) (h : str) : bool :=
    rcomps_ok p k h
    && (negb (c_collapse c) || forallb nonempty (removelast (map rd (norm_segs (k_segs k)))))
    && (negb (c_skipEq c) || match nfq p k with Some (x :: q) => forallb pair_ne (dec_pairs p (x :: q)) | _ => true end).

  Lemma rep_ok_nf_w k h :
    comps_ok c k = true -> rcomps_ok_w k h = true ->
    (is_v6 h = false -> forall u0, parseHost idna_raw c u0 h false = Ok u0 h) ->
    rep_ok_w idna_raw p (nf c k h).
  Proof using.
    intros Hk Hr Hfix. unfold rcomps_ok_w in Hr. apply andb_true_iff in Hr. destruct Hr as [Hr H3].
    apply andb_true_iff in Hr. destruct Hr as [H1 H2]. destruct (comps_special p k Hk) as [Hs Hnf].
    constructor.
    - apply (rep_ok_nf idna_raw p k h Hk H1 Hfix).
    - exact Hs.
    - cbn [u_path nf]. destruct (c_collapse c); [right; exact H2|left; reflexivity].
    - cbn [u_query nf]. fold (nfq p k). destruct (c_skipEq c); [right|left; reflexivity]. cbn [negb orb] in H3.
      destruct (nfq p k) as [[|x q]|]; try exact I. exact H3.
  Qed.

  Theorem ProfileParse_CF_w k h :
    web_text_ok k -> host_val idna_raw c (k_host k) = Some h -> rep_ok_w idna_raw p (nf c k h) ->
    exists r, rep_block idna_raw p (nf c k h) = Some r /\ eqi r (CF p (nf c k h)) /\
              ProfileParse idna_raw p (text_of k) = match tail_block idna_raw p r with Some u => CUrl u | None => CPanic end.
  Proof using All.
    intros Hk Hv Hok. destruct (rep_block_eval_w idna_raw p W _ Hrepd Hok) as [r [Er Hr]].
    exists r. split; [exact Er|]. split; [exact Hr|].
    unfold ProfileParse, parse_retry. rewrite (Parse_nf_w k h Hk Hv). unfold canon_of.
    rewrite Canonicalize_blocks, Er. reflexivity.
  Qed.

  (* C18 *)
  Theorem repeated_spelling_w k1 k2 h :
    web_text_ok k1 -> web_text_ok k2 -> requiv idna_raw p k1 k2 ->
    host_val idna_raw c (k_host k1) = Some h ->
    rep_ok_w idna_raw p (nf c k1 h) -> rep_ok_w idna_raw p (nf c k2 h) ->
    same_cres (ProfileParse idna_raw p (text_of k1)) (ProfileParse idna_raw p (text_of k2)).
  Proof using All.
    intros H1 H2 He Hv K1 K2. pose proof He as [_ [_ [_ [E4 _]]]].
    destruct (ProfileParse_CF_w k1 h H1 Hv K1) as [r1 [_ [Q1 ->]]].
    destruct (ProfileParse_CF_w k2 h H2 ltac:(rewrite <- E4; exact Hv) K2) as [r2 [_ [Q2 ->]]].
    assert (Hq : eqi r1 r2).
    { apply (eqi_trans _ _ _ Q1). apply (eqi_trans _ (CF p (nf c k2 h))); [apply (CF_requiv idna_raw p); exact He|apply eqi_sym; exact Q2]. }
    pose proof (tail_block_eqi idna_raw p r1 r2 Hq) as Ht.
    destruct (tail_block idna_raw p r1), (tail_block idna_raw p r2); cbn [orel] in Ht; try contradiction; cbn [same_cres]; [exact Ht|exact I].
  Qed.

  Corollary repeated_spelling_href_w k1 k2 h a b :
    web_text_ok k1 -> web_text_ok k2 -> requiv idna_raw p k1 k2 ->
    host_val idna_raw c (k_host k1) = Some h ->
    rep_ok_w idna_raw p (nf c k1 h) -> rep_ok_w idna_raw p (nf c k2 h) ->
    ProfileParse idna_raw p (text_of k1) = CUrl a -> ProfileParse idna_raw p (text_of k2) = CUrl b ->
    same_components a b /\ Href a false = Href b false.
  Proof using All.
    intros H1 H2 He Hv K1 K2 Pa Pb. pose proof (repeated_spelling_w k1 k2 h H1 H2 He Hv K1 K2) as Hs. rewrite Pa, Pb in Hs.
    cbn [same_cres] in Hs. pose proof (eqi_same a b Hs) as Hsc. split; [exact Hsc|]. apply CanonIdem.Href_same. exact Hsc.
  Qed.
End R2W.

Print Assumptions repeated_spelling_w.

(* ------------------------------------------------------------------------------------------ *)
(* R3 under CfgWeb                                                                              *)
(* ------------------------------------------------------------------------------------------ *)
Definition host_text_ok (h : str) : bool :=
  negb (is_nil h) && forallb vis h && hscan true false h && negb (hbr false h) && negb (mem 64 h).

(* no '%' in the string, unless the option that looks at it is off *)
Definition nopct (c : cfg) (s : str) : Prop := c_singlePct c = false \/ ~ In 37 s.

Section R3W.
  Variable idna_raw : str -> str * bool.
  Variable p : profile.
  Notation c := (p_cfg p).
  Hypothesis W : CfgWeb c.
  Hypothesis W35 : RuneShouldBeEncoded (c_squerySet c) 35 = true.
  Hypothesis Hrepd : p_repeated p = true.

  (* ---------------- the removals, explicitly ---------------- *)
  Definition rem_w (w : url) : url :=
    let w1 := if p_removePort p then set_port w None 0 else w in
    let w2 := if p_removeUserInfo p then set_password (set_username w1 []) [] else w1 in
    if p_removeFragment p then set_fragment w2 None else w2.

  Lemma rem_fields_w w :
    u_scheme (rem_w w) = u_scheme w /\ u_host (rem_w w) = u_host w /\ u_path (rem_w w) = u_path w /\
    u_opaque (rem_w w) = u_opaque w /\ u_query (rem_w w) = u_query w /\ u_sp (rem_w w) = u_sp w /\
    (u_fragment (rem_w w) = u_fragment w \/ u_fragment (rem_w w) = None) /\
    ((u_port (rem_w w) = u_port w /\ u_decodedPort (rem_w w) = u_decodedPort w) \/ (u_port (rem_w w) = None /\ u_decodedPort (rem_w w) = 0)) /\
    ((u_username (rem_w w) = u_username w /\ u_password (rem_w w) = u_password w) \/ (u_username (rem_w w) = [] /\ u_password (rem_w w) = [])).
  Proof using All.
    unfold rem_w. cbv zeta. destruct (p_removePort p), (p_removeUserInfo p), (p_removeFragment p); cbn; repeat split; auto.
  Qed.

  Lemma rem_NFp_w w : NFp p (rem_w w).
  Proof using All.
    unfold NFp, rem_w. cbv zeta. destruct (p_removePort p), (p_removeUserInfo p), (p_removeFragment p); cbn;
      repeat split; intros; try reflexivity; try discriminate.
  Qed.

  Lemma rem_same_w a b : same_components a b -> same_components (rem_w a) (rem_w b).
  Proof using All.
    intros [S1 [S2 [S3 [S4 [S5 [S6 [S7 [S8 [S9 S10]]]]]]]]]. unfold rem_w, same_components. cbv zeta.
    destruct (p_removePort p), (p_removeUserInfo p), (p_removeFragment p); cbn; repeat split; assumption.
  Qed.

  Lemma rem_fixed_w x : NFp p x -> same_components (rem_w x) x.
  Proof using All.
    intros [N1 [N2 N3]]. unfold rem_w, same_components. cbv zeta.
    destruct (p_removePort p), (p_removeUserInfo p), (p_removeFragment p); cbn; repeat split; try reflexivity;
      try (destruct (N1 eq_refl) as [A B]; congruence); try (destruct (N2 eq_refl) as [A B]; congruence);
      try (symmetry; apply (N3 eq_refl)).
  Qed.

  Lemma tail_explicit_w w x t :
    u_host w = Some (x :: t) -> str_eqb (u_scheme w) s_file = false -> u_opaque w = false ->
    tail_block idna_raw p w = Some (sort_block p (rem_w w)).
  Proof using All.
    intros Hh Hnf Ho. unfold tail_block, rem_w. cbv zeta.
    assert (Hn : forall w', u_host w' = u_host w -> u_scheme w' = u_scheme w -> no_host_or_file w' = false).
    { intros w' E1 E2. unfold no_host_or_file. rewrite E1, E2, Hh, Hnf. reflexivity. }
    set (w1 := if p_removePort p then set_port w None 0 else w).
    assert (S1 : (if p_removePort p then SetPort idna_raw c w [] else Some w) = Some w1).
    { unfold w1. destruct (p_removePort p); [|reflexivity]. unfold SetPort. rewrite (Hn w eq_refl eq_refl). reflexivity. }
    rewrite S1. cbn [bind].
    assert (F1 : u_host w1 = u_host w /\ u_scheme w1 = u_scheme w /\ u_opaque w1 = u_opaque w) by (unfold w1; destruct (p_removePort p); repeat split).
    destruct F1 as [F1a [F1b F1c]].
    set (w2 := if p_removeUserInfo p then set_password (set_username w1 []) [] else w1).
    assert (S2 : (if p_removeUserInfo p then bind (SetUsername c w1 []) (fun u => SetPassword c u []) else Some w1) = Some w2).
    { unfold w2. destruct (p_removeUserInfo p); [|reflexivity]. unfold SetUsername. rewrite (Hn w1 F1a F1b). cbn [bind].
      unfold SetPassword. change (no_host_or_file (set_username w1 (PercentEncodeString c [] pes_UserInfo))) with (no_host_or_file w1).
      rewrite (Hn w1 F1a F1b). reflexivity. }
    rewrite S2. cbn [bind].
    assert (F2 : u_opaque w2 = u_opaque w) by (unfold w2; destruct (p_removeUserInfo p); exact F1c).
    assert (S3 : (if p_removeFragment p then SetHash idna_raw c w2 [] else Some w2) = Some (if p_removeFragment p then set_fragment w2 None else w2)).
    { destruct (p_removeFragment p); [|reflexivity]. unfold SetHash. cbv zeta.
      destruct (negb (is_some (u_query (set_fragment w2 None)))); [|reflexivity].
      unfold strip_opaque. cbn [u_opaque set_fragment]. rewrite F2, Ho. reflexivity. }
    rewrite S3. reflexivity.
  Qed.

  (* ---------------- decoded records ---------------- *)
  Record dec_ok_w (w : url) : Prop := {
    E_opq : u_opaque w = false;
    E_nf : str_eqb (u_scheme w) s_file = false;
    E_special : isSpecialScheme c (u_scheme w) = true;
    E_sch : scheme_text (u_scheme w) = true /\ str_lower (u_scheme w) = u_scheme w;
    E_61 : RuneShouldBeEncoded (c_squerySet c) 61 = false;
    E_38 : RuneShouldBeEncoded (c_squerySet c) 38 = false;
    E_cred : none_in pes_UserInfo (u_username w) = true /\ none_in pes_UserInfo (u_password w) = true /\
             nopct c (u_username w) /\ nopct c (u_password w);
    E_host : exists h, u_host w = Some h /\ host_text_ok h = true /\ nopct c h /\
                       (is_v6 h = true \/ host_lit true h = true) /\
                       (forall u0, parseHost idna_raw c u0 h false = Ok u0 h);
    E_port : port_text_okb (u_port w) = true /\ nf_port c (u_scheme w) (u_port w) = (u_port w, u_decodedPort w);
    E_path : u_path w <> [] /\ forallb (forallb (plit p true)) (u_path w) = true /\
             forallb (fun s => negb (dotseg s)) (u_path w) = true /\
             (c_collapse c = false \/ forallb nonempty (removelast (u_path w)) = true);
    E_query : match u_query w with
              | Some q => exists L, q = sp_string c L /\ forallb (qpair p (c_squerySet c)) L = true /\
                                    (c_skipEq c = false \/ forallb pair_ne L = true)
              | None => True end;
    E_frag : match u_fragment w with
             | Some g => g <> [] /\ forallb (flit (c_sfragSet c)) g = true
             | None => True end
  }.

  (* the searchParams object, when there is one, holds the list the query is the serialization of *)
  Definition spq_w (w : url) : Prop :=
    match u_sp w with
    | Some l => forallb (qpair p (c_squerySet c)) l = true /\ (c_skipEq c = false \/ forallb pair_ne l = true) /\
                (u_query w = Some (sp_string c l) \/ (u_query w = None /\ l = []))
    | None => u_query w = None \/ u_query w = Some []
    end.

  Lemma dec_same_w a b : same_components a b -> dec_ok_w b -> dec_ok_w a.
  Proof using All.
    intros [S1 [S2 [S3 [S4 [S5 [S6 [S7 [S8 [S9 S10]]]]]]]]] K.
    destruct K as [Ko Kn Ks Kc K61 K38 Kcr Kh Kp Kpa Kq Kf].
    constructor; rewrite ?S1, ?S2, ?S3, ?S4, ?S5, ?S6, ?S7, ?S8, ?S9, ?S10; assumption.
  Qed.

  (* from the premises of the evaluation theorem to a decoded record *)
  Lemma rep_dec_w w :
    rep_ok_w idna_raw p w ->
    (scheme_text (u_scheme w) = true /\ str_lower (u_scheme w) = u_scheme w) ->
    (none_in pes_UserInfo (u_username w) = true /\ none_in pes_UserInfo (u_password w) = true /\
     nopct c (u_username w) /\ nopct c (u_password w)) ->
    (exists h, u_host w = Some h /\ host_text_ok h = true /\ nopct c h /\
               (forall u0, parseHost idna_raw c u0 h false = Ok u0 h)) ->
    (port_text_okb (u_port w) = true /\ nf_port c (u_scheme w) (u_port w) = (u_port w, u_decodedPort w)) ->
    u_path w <> [] ->
    dec_ok_w (CF p w) /\ spq_w (CF p w).
  Proof using All.
    intros [K Hs Hcol Heq] Hsch Hcred [h [Eh [Hht [Hnp Hfx]]]] Hport Hpne.
    destruct K as [Ho Hnf Hsp H61 H38 Hh [Hp1 Hp2] Hq Hf].
    assert (Eqs : queryset c w = c_squerySet c) by (unfold queryset; unfold IsSpecialScheme in Hs; rewrite Hs; reflexivity).
    assert (Efs : fragset c w = c_sfragSet c) by (unfold fragset; unfold IsSpecialScheme in Hs; rewrite Hs; reflexivity).
    rewrite Eqs in H61, H38. rewrite Hs in Hp1.
    destruct (CF_proj p w) as [F1 [F2 [F3 [F4 [F5 [F6 [F7 [F8 [F9 [F10 [F11 F12]]]]]]]]]]].
    split.
    - constructor; rewrite ?F1, ?F2, ?F3, ?F4, ?F5, ?F6, ?F7, ?F8; try assumption; try reflexivity.
      + exists h. split; [exact Eh|]. split; [exact Hht|]. split; [exact Hnp|]. split; [|exact Hfx].
        unfold host_ok in Hh. rewrite Eh, Hs in Hh. unfold host_text_ok in Hht.
        destruct Hh as [Hh|[Hh|[Hh _]]]; [|left; exact Hh|right; exact Hh].
        destruct h; [|discriminate Hh]. discriminate Hht.
      + split; [destruct (u_path w); [congruence|discriminate]|]. split; [exact Hp1|]. split; [exact Hp2|exact Hcol].
      + rewrite F9. unfold query_ok in Hq. rewrite Eqs in Hq. destruct (u_query w) as [[|x q]|].
        * exists []. split; [reflexivity|]. split; [reflexivity|right; reflexivity].
        * eexists. split; [reflexivity|]. split; [exact Hq|exact Heq].
        * exact I.
      + rewrite F10. unfold frag_ok in Hf. rewrite Efs in Hf. destruct (u_fragment w) as [[|x f]|]; try exact I. split; [|exact Hf].
        intros E. apply rd_nil_inv in E. discriminate E.
    - unfold spq_w. rewrite F12, F9. unfold query_ok in Hq. rewrite Eqs in Hq. destruct (u_query w) as [[|x q]|].
      + rewrite Hsp. right. reflexivity.
      + split; [exact Hq|]. split; [exact Heq|left; reflexivity].
      + rewrite Hsp. left. reflexivity.
  Qed.

  Lemma nopct_nil : nopct c [].
  Proof using All. right. intros []. Qed.

  Lemma rem_dec_w w : dec_ok_w w -> dec_ok_w (rem_w w).
  Proof using All.
    intros K. destruct K as [Ko Kn Ks Kc K61 K38 Kcr Kh Kp Kpa Kq Kf].
    destruct (rem_fields_w w) as [F1 [F2 [F3 [F4 [F5 [F6 [F7 [F8 F9]]]]]]]].
    constructor; rewrite ?F1, ?F2, ?F3, ?F4, ?F5; try assumption.
    - destruct F9 as [[-> ->]|[-> ->]]; [exact Kcr|]. repeat split; try reflexivity; apply nopct_nil.
    - destruct F8 as [[-> ->]|[-> ->]]; [exact Kp|]. split; reflexivity.
    - destruct F7 as [->| ->]; [exact Kf|exact I].
  Qed.

  Lemma rem_spq_w w : spq_w w -> spq_w (rem_w w).
  Proof using All.
    unfold spq_w. destruct (rem_fields_w w) as [_ [_ [_ [_ [F5 [F6 _]]]]]]. rewrite F5, F6. auto.
  Qed.

  (* the list the sort works on *)
  Lemma ensure_list_w w : dec_ok_w w -> spq_w w ->
    forallb (qpair p (c_squerySet c)) (snd (ensure_sp c w)) = true /\
    (c_skipEq c = false \/ forallb pair_ne (snd (ensure_sp c w)) = true) /\
    (u_query w = Some (sp_string c (snd (ensure_sp c w))) \/ (u_query w = None /\ snd (ensure_sp c w) = [])).
  Proof using All.
    intros K Hs. unfold spq_w in Hs. unfold ensure_sp. destruct (u_sp w) as [l|]; cbn [snd]; [exact Hs|].
    destruct Hs as [->| ->]; cbn; repeat split; auto.
  Qed.

  Lemma lpairs_w L : forallb (qpair p (c_squerySet c)) L = true -> (c_skipEq c = false \/ forallb pair_ne L = true) ->
    Forall (lpair c) L.
  Proof using All. intros H1 H2. apply (qpairs_lpair_w idna_raw p W _ L H1 H2). Qed.

  Lemma sortf_dec_w (f : list pair -> list pair) w :
    (forall l, Permutation l (f l)) -> dec_ok_w w -> spq_w w ->
    dec_ok_w (sp_update c (fst (ensure_sp c w)) (f (snd (ensure_sp c w)))) /\
    sp_init c (sp_string c (f (snd (ensure_sp c w)))) = f (snd (ensure_sp c w)).
  Proof using All.
    intros Hperm K Hs. destruct (ensure_list_w w K Hs) as [Hl [Hne Hq]]. set (l := snd (ensure_sp c w)) in *.
    set (e := fst (ensure_sp c w)).
    pose proof (forallb_perm_w _ _ _ (Hperm l) Hl) as Hfl.
    assert (Hfne : c_skipEq c = false \/ forallb pair_ne (f l) = true).
    { destruct Hne as [Hne|Hne]; [left; exact Hne|right; apply (forallb_perm_w _ _ _ (Hperm l) Hne)]. }
    split; [|apply sp_roundtrip_lit; apply (lpairs_w _ Hfl Hfne)].
    destruct (ensure_sp_comps p w) as [E1 [E2 [E3 [E4 [E5 [E6 [E7 [E8 [E9 E10]]]]]]]]]. fold e in E1, E2, E3, E4, E5, E6, E7, E8, E9, E10.
    destruct (sp_update_comps p e (f l)) as [U1 [U2 [U3 [U4 [U5 [U6 [U7 [U8 U9]]]]]]]].
    set (u := sp_update c e (f l)) in *.
    destruct K as [Ko Kn Ks Kc K61 K38 Kcr Kh Kp Kpa Kq Kf].
    constructor; rewrite ?U1, ?U2, ?U3, ?U4, ?U5, ?U6, ?U7, ?U8, ?U9, ?E1, ?E2, ?E3, ?E4, ?E5, ?E6, ?E7, ?E8, ?E10; try assumption.
    unfold u. rewrite sp_update_u_query. destruct (is_nil (sp_string c (f l)) && negb (is_some (u_query e))); [exact I|].
    exists (f l). split; [reflexivity|]. split; [exact Hfl|exact Hfne].
  Qed.

  (* the sort is a fixed point on the re-parsed record when the list survives the query codec *)
  Definition sort_rt (u : url) : Prop :=
    p_sortQuery p = NoSort \/ forall l, u_sp u = Some l -> sp_init c (sp_string c l) = l.

  Lemma sort_dec_w w : dec_ok_w w -> spq_w w -> dec_ok_w (sort_block p w) /\ sort_rt (sort_block p w).
  Proof using All.
    intros K Hs. unfold sort_rt, sort_block. destruct (p_sortQuery p) eqn:Eso.
    - split; [exact K|left; reflexivity].
    - destruct (sortf_dec_w sp_sort w sp_sort_perm K Hs) as [A B]. split; [exact A|]. right.
      intros l El. rewrite sp_update_sp in El. injection El as <-. exact B.
    - destruct (sortf_dec_w sp_sort_abs w sp_sort_abs_perm K Hs) as [A B]. split; [exact A|]. right.
      intros l El. rewrite sp_update_sp in El. injection El as <-. exact B.
  Qed.

  Lemma sort_NFp_w w : NFp p w -> NFp p (sort_block p w).
  Proof using All.
    intros HN. destruct (sort_block_cases p w) as [->|[l ->]]; [exact HN|].
    destruct (ensure_sp_comps p w) as [E1 [E2 [E3 [E4 [E5 [E6 [E7 [E8 [E9 E10]]]]]]]]].
    destruct (sp_update_comps p (fst (ensure_sp c w)) l) as [U1 [U2 [U3 [U4 [U5 [U6 [U7 [U8 U9]]]]]]]].
    unfold NFp in *. rewrite U2, U3, U5, U6, U9, E2, E3, E5, E6, E10. exact HN.
  Qed.

  Lemma sortf_fixed_w (f : list pair -> list pair) v w :
    (forall l, f (f l) = f l) ->
    sp_init c (sp_string c (f (snd (ensure_sp c v)))) = f (snd (ensure_sp c v)) ->
    same_components w (sp_update c (fst (ensure_sp c v)) (f (snd (ensure_sp c v)))) -> u_sp w = None ->
    same_components (sp_update c (fst (ensure_sp c w)) (f (snd (ensure_sp c w))))
                    (sp_update c (fst (ensure_sp c v)) (f (snd (ensure_sp c v)))).
  Proof using All.
    intros Hidem Hrt Hw Hsp. set (e := fst (ensure_sp c v)) in *. set (l := snd (ensure_sp c v)) in *.
    set (u := sp_update c e (f l)) in *.
    destruct Hw as [W1 [W2 [W3 [W4 [W5 [W6 [W7 [W8 [W9 W10]]]]]]]]].
    assert (Hq : Query w = sp_string c (f l)).
    { unfold Query. rewrite W9. fold (Query u). unfold u. apply sp_update_Query. }
    rewrite (ensure_sp_fresh c w Hsp). cbn [fst snd]. rewrite Hq, Hrt, Hidem.
    destruct (sp_update_comps p (set_sp w (Some (f l))) (f l)) as [U1 [U2 [U3 [U4 [U5 [U6 [U7 [U8 U9]]]]]]]].
    unfold same_components. rewrite U1, U2, U3, U4, U5, U6, U7, U8, U9.
    cbn [u_scheme u_username u_password u_host u_port u_decodedPort u_path u_opaque u_fragment set_sp].
    repeat split; try assumption.
    rewrite sp_update_u_query. cbn [u_query set_sp]. rewrite W9. unfold u. rewrite sp_update_u_query.
    destruct (is_nil (sp_string c (f l))); [|reflexivity]. cbn [andb].
    destruct (negb (is_some (u_query e))); reflexivity.
  Qed.

  Lemma sort_block_fixed_w v w :
    sort_rt (sort_block p v) -> same_components w (sort_block p v) -> u_sp w = None ->
    same_components (sort_block p w) (sort_block p v).
  Proof using All.
    unfold sort_rt, sort_block. destruct (p_sortQuery p) eqn:Es.
    - intros _ H _. exact H.
    - intros [E|Hrt] Hw Hsp; [discriminate E|].
      apply (sortf_fixed_w sp_sort v w sp_sort_idem); try assumption. apply Hrt. apply sp_update_sp.
    - intros [E|Hrt] Hw Hsp; [discriminate E|].
      apply (sortf_fixed_w sp_sort_abs v w sp_sort_abs_idem); try assumption. apply Hrt. apply sp_update_sp.
  Qed.

  Lemma sort_sync_w w :
    (u_sp w = None \/ exists q, u_query w = Some q /\ u_sp w = Some (sp_init c q)) ->
    same_components (sort_block p w) (sort_block p (set_sp w None)).
  Proof using All.
    intros [H|[q [Hq H]]]; destruct w; cbn in *; subst; [apply same_components_refl|].
    unfold sort_block, ensure_sp. cbn. destruct (p_sortQuery p); [unfold same_components; cbn; repeat split| |]; apply same_components_refl.
  Qed.

  (* a decoded record without a searchParams object: the premises of the evaluation theorem hold and decoding
     changes nothing *)
  Lemma lit_rd_w tr s : forallb (litb tr) s = true -> rd s = s.
  Proof using All. intros H. apply rd_id. apply c_decode_no37. apply (lit_no37 _ _ H). Qed.

  Lemma dec_rep_w v :
    dec_ok_w v -> u_sp v = None ->
    rep_ok_w idna_raw p v /\ same_components (CF p v) v /\
    (u_sp (CF p v) = None \/ exists q, u_query (CF p v) = Some q /\ u_sp (CF p v) = Some (sp_init c q)).
  Proof using All.
    intros K Hsp. destruct K as [Ko Kn Ks Kc K61 K38 Kcr [h [Eh [Hht [Hnp [Hhl Hfx]]]]] Kp [Pne [P1 [P2 P3]]] Kq Kf].
    assert (Esp : IsSpecialScheme c v = true) by exact Ks.
    assert (Eqs : queryset c v = c_squerySet c) by (unfold queryset; rewrite Ks; reflexivity).
    assert (Efs : fragset c v = c_sfragSet c) by (unfold fragset; rewrite Ks; reflexivity).
    assert (Epath : map rd (u_path v) = u_path v).
    { rewrite <- (map_id (u_path v)) at 2. apply map_ext_in. intros s Hs. rewrite forallb_forall in P1. specialize (P1 s Hs).
      apply (lit_rd_w pes_LaxPath). rewrite forallb_forall in *. intros x Hx. specialize (P1 x Hx). unfold plit in P1.
      apply andb_true_iff in P1. apply P1. }
    assert (Equery : forall x q, u_query v = Some (x :: q) ->
              forallb (qpair p (c_squerySet c)) (dec_pairs p (x :: q)) = true /\ dec_pairs p (x :: q) = sp_init c (x :: q) /\
              sp_string c (dec_pairs p (x :: q)) = x :: q /\
              (c_skipEq c = false \/ forallb pair_ne (dec_pairs p (x :: q)) = true)).
    { intros x q Eq. rewrite Eq in Kq. destruct Kq as [L [EL [HL HLn]]]. unfold dec_pairs. rewrite EL.
      rewrite (sp_roundtrip_lit c L (lpairs_w L HL HLn)), (rd2_lit_w idna_raw p W _ L HL). auto. }
    assert (Efrag : forall x f, u_fragment v = Some (x :: f) -> rd (x :: f) = x :: f).
    { intros x f Ef. rewrite Ef in Kf. destruct Kf as [_ Hf]. apply (lit_rd_w pes_Host).
      rewrite forallb_forall in *. intros y Hy. specialize (Hf y Hy). unfold flit in Hf. apply andb_true_iff in Hf. apply Hf. }
    split; [|split].
    - constructor.
      + constructor; try assumption; try (rewrite Eqs; assumption).
        * unfold host_ok. rewrite Eh, Esp. cbn [negb]. destruct Hhl as [Hv6|Hl]; [right; left; exact Hv6|right; right; split; [exact Hl|exact Hfx]].
        * unfold path_ok. rewrite Epath, Esp. split; assumption.
        * unfold query_ok. rewrite Eqs. destruct (u_query v) as [[|x q]|] eqn:Eq; try exact I. apply (Equery x q eq_refl).
        * unfold frag_ok. rewrite Efs. destruct (u_fragment v) as [[|x f]|] eqn:Ef; try exact I. rewrite (Efrag x f eq_refl).
          apply Kf.
      + exact Esp.
      + rewrite Epath. exact P3.
      + destruct (u_query v) as [[|x q]|] eqn:Eq; try (right; exact I). destruct (Equery x q eq_refl) as [_ [_ [_ [G|G]]]]; [left|right]; exact G.
    - destruct (CF_proj p v) as [F1 [F2 [F3 [F4 [F5 [F6 [F7 [F8 [F9 [F10 [F11 F12]]]]]]]]]]].
      unfold same_components. rewrite F1, F2, F3, F4, F5, F6, F7, F8, F9, F10, Epath, Ko. repeat split.
      + destruct (u_query v) as [[|x q]|] eqn:Eq; try reflexivity. destruct (Equery x q eq_refl) as [_ [_ [-> _]]]. reflexivity.
      + destruct (u_fragment v) as [[|x f]|] eqn:Ef; try reflexivity.
        * destruct Kf as [Hne _]. congruence.
        * rewrite (Efrag x f eq_refl). reflexivity.
    - destruct (CF_proj p v) as [_ [_ [_ [_ [_ [_ [_ [_ [F9 [_ [_ F12]]]]]]]]]]]. rewrite F9, F12.
      destruct (u_query v) as [[|x q]|] eqn:Eq; try (left; exact Hsp). right. destruct (Equery x q eq_refl) as [_ [E1 [E2 _]]].
      exists (x :: q). rewrite E2, E1. split; reflexivity.
  Qed.

  (* ---------------- the canonical record is the normal form of its serialization ---------------- *)
  Definition comps_of (u : url) (h : str) : comps :=
    {| k_sch := u_scheme u; k_user := u_username u; k_pass := u_password u; k_host := h; k_port := u_port u;
       k_segs := u_path u; k_query := u_query u; k_frag := u_fragment u |}.

  Lemma Href_text_of u h : u_host u = Some h -> u_opaque u = false -> Href u false = Some (text_of (comps_of u h)).
  Proof using All.
    intros Eh Ho. assert (Hpn : Pathname u = Some (flat_map (fun s => 47 :: s) (u_path u))) by (unfold Pathname, path_string; rewrite Ho; reflexivity).
    rewrite (Href_eq u false _ Hpn), (auth_part_eq u h Eh). unfold text_of, comps_of, q_part, f_part, q_tail, f_tail.
    cbn [k_sch k_user k_pass k_host k_port k_segs k_query k_frag]. rewrite <- !app_assoc. reflexivity.
  Qed.

  Lemma none_in_no (t : peset) y s : RuneShouldBeEncoded t y = true -> none_in t s = true -> mem y s = false.
  Proof using All.
    intros Hy Hs. unfold mem. destruct (existsb (N.eqb y) s) eqn:E; [|reflexivity]. apply existsb_exists in E.
    destruct E as [z [Hz Ez]]. assert (z = y) by lia. subst z. unfold none_in in Hs. rewrite forallb_forall in Hs.
    specialize (Hs y Hz). rewrite Hy in Hs. discriminate Hs.
  Qed.

  Lemma lit_not37_in tr s : forallb (litb tr) s = true -> ~ In 37 s.
  Proof using All. apply lit_no37. Qed.

  Lemma reparse_w u s :
    dec_ok_w u -> Href u false = Some s ->
    exists v, Parse idna_raw c s = PUrl v /\ same_components v u /\ u_sp v = None.
  Proof using All.
    intros K Hs. pose proof K as K0. destruct K as [Ko Kn Ks [Kc1 Kc2] K61 K38 [Cu [Cp [Cnu Cnp]]] [h [Eh [Hht [Hnp [Hhl Hfx]]]]] [Kp1 Kp2] [Pne [P1 [P2 P3]]] Kq Kf].
    rewrite (Href_text_of u h Eh Ko) in Hs. injection Hs as <-. set (k := comps_of u h).
    (* the query and the fragment are not touched by the parser *)
    assert (Hqn : forall q, u_query u = Some q -> none_in (c_squerySet c) q = true).
    { intros q Eq. rewrite Eq in Kq. destruct Kq as [L [-> [HL _]]]. apply (sp_string_lit_w idna_raw p W _ L K61 K38 HL). }
    assert (Hfn : forall g, u_fragment u = Some g -> none_in (c_sfragSet c) g = true).
    { intros g Eg. rewrite Eg in Kf. destruct Kf as [_ Hf]. unfold none_in. rewrite forallb_forall in *. intros y Hy.
      specialize (Hf y Hy). unfold flit in Hf. apply andb_true_iff in Hf. apply Hf. }
    assert (Hseg : segs_text_ok c true (u_path u) = true) by (apply (plit_text_w idna_raw p W); exact P1).
    assert (Hk : comps_ok c k = true).
    { unfold comps_ok, k, comps_of. cbn [k_sch k_user k_pass k_host k_port k_segs k_query k_frag].
      unfold host_text_ok in Hht. rewrite Kc2, Kc1, Ks, Kn, Cu, Cp, Kp1, Hseg. cbn [negb andb].
      repeat (apply andb_true_iff in Hht; let H' := fresh "T" in destruct Hht as [Hht H']). rewrite Hht, T2, T1, T0, T. cbn [andb].
      apply andb_true_iff. split.
      - destruct (u_query u) as [q|] eqn:Eq; [|reflexivity]. rewrite (none_in_vis _ q (W_squery c W) (Hqn q eq_refl)).
        rewrite (none_in_no _ 35 q W35 (Hqn q eq_refl)). reflexivity.
      - destruct (u_fragment u) as [g|] eqn:Eg; [|reflexivity]. apply (none_in_vis _ g (W_sfrag c W) (Hfn g eq_refl)). }
    assert (Hpq : pq c (text_of k)).
    { destruct (c_singlePct c) eqn:Esp; [|left; exact Esp]. right. apply no37_pct_wf.
      assert (N1 : forall s, nopct c s -> ~ In 37 s) by (intros s0 [H|H]; [congruence|exact H]).
      unfold text_of, k, comps_of. cbn [k_sch k_user k_pass k_host k_port k_segs k_query k_frag]. intros Hi.
      apply in_app_or in Hi. destruct Hi as [Hi|Hi]; [exact (schemechar_not37 _ Kc1 Hi)|].
      apply in_app_or in Hi. destruct Hi as [Hi|Hi]; [cbn in Hi; destruct Hi as [Hi|[Hi|[Hi|[]]]]; discriminate Hi|].
      apply in_app_or in Hi. destruct Hi as [Hi|Hi].
      { unfold cred_part, cred_str in Hi. destruct (negb (is_nil (u_username u)) || negb (is_nil (u_password u))); [|destruct Hi].
        apply in_app_or in Hi. destruct Hi as [Hi|Hi]; [|destruct Hi as [Hi|[]]; discriminate Hi].
        apply in_app_or in Hi. destruct Hi as [Hi|Hi]; [exact (N1 _ Cnu Hi)|].
        destruct (negb (is_nil (u_password u))); [|destruct Hi]. destruct Hi as [Hi|Hi]; [discriminate Hi|exact (N1 _ Cnp Hi)]. }
      apply in_app_or in Hi. destruct Hi as [Hi|Hi]; [exact (N1 _ Hnp Hi)|].
      apply in_app_or in Hi. destruct Hi as [Hi|Hi].
      { unfold port_part in Hi. destruct (u_port u) as [d|] eqn:Ed; [|destruct Hi]. destruct Hi as [Hi|Hi]; [discriminate Hi|].
        cbn [port_text_okb] in Kp1. apply andb_true_iff in Kp1. destruct Kp1 as [Kd _]. rewrite forallb_forall in Kd.
        specialize (Kd 37 Hi). vm_compute in Kd. discriminate Kd. }
      apply in_app_or in Hi. destruct Hi as [Hi|Hi].
      { apply (lit_not37_in pes_LaxPath (pathname_of (u_path u))); [apply (pathname_lit_w idna_raw p W true); exact P1|exact Hi]. }
      apply in_app_or in Hi. destruct Hi as [Hi|Hi].
      { unfold q_tail in Hi. destruct (u_query u) as [q|] eqn:Eq; [|destruct Hi]. destruct Hi as [Hi|Hi]; [discriminate Hi|].
        destruct Kq as [L [EL [HL HLn]]]. subst q.
        pose proof (lpairs_w L HL HLn) as HF. clear - Hi HF. rewrite sp_string_is in Hi.
        induction L as [|nv L IH]; [destruct Hi|]. inversion HF as [|? ? Hp HL']; subst.
        assert (Hser : ~ In 37 (ser_pair c nv)).
        { rewrite (ser_pair_lpair c nv Hp). destruct Hp as [Hn [Hv _]]. intros Hj. apply in_app_or in Hj. destruct Hj as [Hj|Hj];
            [exact (litq_notin _ 37 Hn ltac:(auto) Hj)|]. apply in_app_or in Hj. destruct Hj as [Hj|Hj]; [|exact (litq_notin _ 37 Hv ltac:(auto) Hj)].
          destruct (negb (c_skipEq c) || negb (is_nil (snd nv))); [destruct Hj as [Hj|[]]; discriminate Hj|destruct Hj]. }
        destruct L as [|nv' L]; [exact (Hser Hi)|].
        change (join [38] (map (ser_pair c) (nv :: nv' :: L))) with (ser_pair c nv ++ 38 :: join [38] (map (ser_pair c) (nv' :: L))) in Hi.
        apply in_app_or in Hi. destruct Hi as [Hi|Hi]; [exact (Hser Hi)|]. destruct Hi as [Hi|Hi]; [discriminate Hi|]. apply (IH Hi HL'). }
      unfold f_tail in Hi. destruct (u_fragment u) as [g|] eqn:Eg; [|destruct Hi]. destruct Hi as [Hi|Hi]; [discriminate Hi|].
      destruct Kf as [_ Hf]. apply (lit_not37_in pes_Host g); [|exact Hi]. rewrite forallb_forall in *. intros y Hy.
      specialize (Hf y Hy). unfold flit in Hf. apply andb_true_iff in Hf. apply Hf. }
    assert (Hweb : web_text_ok p k) by (split; [exact Hk|split; [exact Hpq|exact P3]]).
    assert (Hval : host_val idna_raw c (k_host k) = Some h) by (unfold host_val, k, comps_of; cbn [k_host]; rewrite Hfx; reflexivity).
    exists (nf c k h). split; [apply (Parse_nf_w idna_raw p W k h Hweb Hval)|]. split; [|reflexivity].
    unfold same_components, nf, k, comps_of.
    cbn [u_scheme u_username u_password u_host u_port u_decodedPort u_path u_opaque u_query u_fragment k_sch k_user k_pass k_host k_port k_segs k_query k_frag].
    rewrite Kc2, Kp2, (norm_segs_nodot _ Pne P2). cbn [fst snd]. repeat split; try (symmetry; assumption).
    - destruct (u_query u) as [q|] eqn:Eq; [|reflexivity]. cbn [option_map]. rewrite (enc_with_id c _ q (Hqn q eq_refl)). reflexivity.
    - destruct (u_fragment u) as [g|] eqn:Eg; [|reflexivity]. cbn [option_map]. rewrite (enc_with_id c _ g (Hfn g eq_refl)). reflexivity.
  Qed.

  Lemma norm_from_ne : forall segs seg acc, norm_from acc seg segs <> [].
  Proof using All.
    induction segs as [|s' r IH]; intros seg acc; cbn [norm_from]; [|apply IH].
    unfold pstep. destruct (isDoubleDotPathSegment seg); [intros E; apply app_eq_nil in E; destruct E; discriminate|].
    destruct (isSingleDotPathSegment seg); intros E; apply app_eq_nil in E; destruct E; discriminate.
  Qed.

  Lemma norm_segs_ne segs : norm_segs segs <> [].
  Proof using All. destruct segs as [|s r]; [discriminate|apply norm_from_ne]. Qed.

  (* ---------------- C17 ---------------- *)
  Theorem repeated_fixed_point_w k h u s :
    web_text_ok p k -> host_val idna_raw c (k_host k) = Some h -> rep_ok_w idna_raw p (nf c k h) ->
    host_text_ok h = true -> nopct c h -> nopct c (k_user k) -> nopct c (k_pass k) ->
    (forall u0, parseHost idna_raw c u0 h false = Ok u0 h) ->
    ProfileParse idna_raw p (text_of k) = CUrl u -> Href u false = Some s ->
    exists u', ProfileParse idna_raw p s = CUrl u' /\ same_components u' u /\ Href u' false = Some s.
  Proof using All.
    intros Hk Hv Hok Hht Hnh Hnu Hnp Hfix HP Hs. set (N := nf c k h) in *.
    (* the first pass *)
    destruct (ProfileParse_CF_w idna_raw p W Hrepd k h Hk Hv Hok) as [r [Er [Hr HPP]]]. fold N in Er, Hr.
    rewrite HP in HPP. destruct (tail_block idna_raw p r) as [u1|] eqn:Et; [|discriminate HPP]. injection HPP as Eu. subst u1.
    pose proof Hk as [Hck _]. unfold comps_ok in Hck.
    repeat (apply andb_true_iff in Hck; let H := fresh "K" in destruct Hck as [Hck H]). rename Hck into Ksch.
    assert (KC : dec_ok_w (CF p N) /\ spq_w (CF p N)).
    { apply (rep_dec_w N Hok).
      - unfold N. cbn [u_scheme nf]. split; [apply scheme_text_lower; exact Ksch|apply str_lower_idem].
      - unfold N. cbn [u_username u_password nf]. auto.
      - exists h. unfold N. cbn [u_host nf]. auto.
      - unfold N. cbn [u_scheme u_port u_decodedPort nf]. destruct (nf_port_fixed c (str_lower (k_sch k)) (k_port k) K2) as [A B].
        split; [exact A|]. rewrite B. destruct (nf_port c (str_lower (k_sch k)) (k_port k)); reflexivity.
      - unfold N. cbn [u_path nf]. apply norm_segs_ne. }
    destruct KC as [KC SC].
    pose proof (eqi_same _ _ Hr) as Src.
    assert (Kr : dec_ok_w r) by (apply (dec_same_w r (CF p N) Src KC)).
    assert (Sr : spq_w r) by (rewrite (eqi_ex _ _ Hr); exact SC).
    pose proof Kr as Kr2. destruct Kr2 as [Ro Rnf _ _ _ _ _ [hr [Rh [Rht _]]] _ _ _ _].
    assert (Rh' : exists x t, u_host r = Some (x :: t)).
    { destruct hr as [|x t]; [discriminate Rht|]. exists x, t. exact Rh. }
    destruct Rh' as [x [t Rh']].
    rewrite (tail_explicit_w r x t Rh' Rnf Ro) in Et. injection Et as Eu.
    pose proof (rem_dec_w r Kr) as Krem. pose proof (rem_spq_w r Sr) as Srem.
    destruct (sort_dec_w (rem_w r) Krem Srem) as [Ku Hso]. rewrite Eu in Ku, Hso.
    (* the canonical string is parsed back to the canonical record *)
    destruct (reparse_w u s Ku Hs) as [v [HPs [Svu Hvsp]]].
    (* the second pass *)
    assert (Kv : dec_ok_w v) by (apply (dec_same_w v u Svu Ku)).
    destruct (dec_rep_w v Kv Hvsp) as [Hokv [Scv Syv]].
    destruct (rep_block_eval_w idna_raw p W v Hrepd Hokv) as [v' [Ev Hv']].
    pose proof (eqi_same _ _ Hv') as Sv'.
    assert (Sv'u : same_components v' u).
    { apply (same_components_trans _ _ _ Sv'). apply (same_components_trans _ _ _ Scv). exact Svu. }
    assert (Kv' : dec_ok_w v') by (apply (dec_same_w v' u Sv'u Ku)).
    destruct Kv' as [Vo Vnf _ _ _ _ _ [hv [Vh [Vht _]]] _ _ _ _].
    assert (Vh' : exists x' t', u_host v' = Some (x' :: t')).
    { destruct hv as [|x' t']; [discriminate Vht|]. exists x', t'. exact Vh. }
    destruct Vh' as [x' [t' Vh']].
    assert (NFu : NFp p u) by (rewrite <- Eu; apply sort_NFp_w; apply rem_NFp_w).
    set (w := set_sp (rem_w v') None).
    assert (Hw : same_components w u).
    { apply (same_components_trans _ (rem_w v')); [unfold w, same_components; cbn; repeat split|].
      apply (same_components_trans _ (rem_w u)); [apply rem_same_w; exact Sv'u|apply rem_fixed_w; exact NFu]. }
    assert (Hsync : u_sp (rem_w v') = None \/ exists q, u_query (rem_w v') = Some q /\ u_sp (rem_w v') = Some (sp_init c q)).
    { destruct (rem_fields_w v') as [_ [_ [_ [_ [F5 [F6 _]]]]]]. rewrite F5, F6.
      pose proof (eqi_ex _ _ Hv') as Ex. rewrite Ex. exact Syv. }
    assert (Hfin : same_components (sort_block p (rem_w v')) u).
    { apply (same_components_trans _ _ _ (sort_sync_w (rem_w v') Hsync)). fold w.
      rewrite <- Eu. apply sort_block_fixed_w; rewrite ?Eu; [exact Hso|exact Hw|reflexivity]. }
    exists (sort_block p (rem_w v')). split; [|split; [exact Hfin|rewrite (Href_same _ u false Hfin); exact Hs]].
    unfold ProfileParse, parse_retry. rewrite HPs. unfold canon_of. rewrite Canonicalize_blocks, Ev. cbn [bind].
    rewrite (tail_explicit_w v' x' t' Vh' Vnf Vo). reflexivity.
  Qed.
End R3W.

Print Assumptions repeated_fixed_point_w.
